(* Proofs for C30 (model/Semaphore.v against spec/SemaphoreSpec.v). *)
From Coq Require Import NArith ZArith List Bool Lia ZifyBool ZifyNat ZifyN.
From LV Require Import model.Semaphore spec.SemaphoreSpec.
Import ListNotations.
Ltac Zify.zify_post_hook ::= Z.div_mod_to_equations.

(* ---------- tryAcquire is exact in unbounded arithmetic ---------- *)

Lemma try_acquire_exact h c w :
  m_wf h -> m_wf w -> m_wf c ->
  try_acquire true h c w = if fitsb h w c then Some (mplus h w) else None.
Proof.
  intros [Hh1 Hh2] [Hw1 Hw2] [Hc1 Hc2].
  unfold try_acquire, madd_wrap, mlt_any, mgt_any, fitsb, mplus, two32, two64 in *.
  cbn [mnum msize andb].
  destruct (mnum h + mnum w <? 4294967296)%N eqn:E1; destruct (msize h + msize w <? 18446744073709551616)%N eqn:E2.
  - rewrite (N.mod_small (mnum h + mnum w)) by lia. rewrite (N.mod_small (msize h + msize w)) by lia.
    replace ((mnum h + mnum w <? mnum w)%N) with false by lia.
    replace ((msize h + msize w <? msize w)%N) with false by lia.
    cbn [orb].
    destruct (mnum h + mnum w <=? mnum c)%N eqn:E3; destruct (msize h + msize w <=? msize c)%N eqn:E4; cbn [andb].
    + replace (mnum c <? mnum h + mnum w)%N with false by lia.
      replace (msize c <? msize h + msize w)%N with false by lia. reflexivity.
    + replace (msize c <? msize h + msize w)%N with true by lia. now rewrite orb_true_r.
    + replace (mnum c <? mnum h + mnum w)%N with true by lia. reflexivity.
    + replace (mnum c <? mnum h + mnum w)%N with true by lia. reflexivity.
  - replace ((msize h + msize w) mod 18446744073709551616 <? msize w)%N with true by lia.
    rewrite orb_true_r.
    replace (msize h + msize w <=? msize c)%N with false by lia. now rewrite andb_false_r.
  - replace ((mnum h + mnum w) mod 4294967296 <? mnum w)%N with true by lia. cbn [orb].
    replace (mnum h + mnum w <=? mnum c)%N with false by lia. reflexivity.
  - replace ((mnum h + mnum w) mod 4294967296 <? mnum w)%N with true by lia. cbn [orb].
    replace (mnum h + mnum w <=? mnum c)%N with false by lia. reflexivity.
Qed.

Lemma fitsb_spec h w c : fitsb h w c = true <-> fits h w c.
Proof. unfold fitsb, fits. lia. Qed.
Lemma exceedsb_spec w c : exceedsb w c = true <-> exceeds w c.
Proof. unfold exceedsb, exceeds. lia. Qed.
Lemma exceedsb_mgt w c : mgt_any w c = exceedsb w c.
Proof. reflexivity. Qed.

(* ---------- the invariant of reachable states ---------- *)

Definition inv (c : metric) (st : state) : Prop :=
  m_wf c /\ mle (held st) c /\ (cap st = c \/ cap st = mzero) /\
  (forall x, In x (pending st) -> m_wf (ww x)) /\
  (cap st = c -> forall x, In x (pending st) -> ww x <> mzero).

Lemma mle_wf h c : m_wf c -> mle h c -> m_wf h.
Proof. unfold m_wf, mle. lia. Qed.
Lemma mzero_wf : m_wf mzero.
Proof. unfold m_wf, mzero, two32, two64. cbn. lia. Qed.
Lemma cap_wf c st : inv c st -> m_wf (cap st).
Proof. intros (Hc & _ & [-> | ->] & _); [assumption | apply mzero_wf]. Qed.

(* the loop body decides exactly as the specification table says *)
Lemma loop_body_decide c st now x :
  inv c st -> m_wf (ww x) ->
  loop_body true st now x =
  match decide (held st) (cap st) (ww x) (wdl x) now with
  | DGrant => (mkS (mplus (held st) (ww x)) (cap st) (waiting st) (woken st), [ORet (wid x) true])
  | DRefuse => (st, [ORet (wid x) false])
  | DBlock => (mkS (held st) (cap st) (waiting st ++ [x]) (woken st), [OBlock (wid x)])
  end.
Proof.
  intros Hinv Hw. pose proof (cap_wf _ _ Hinv) as Hcw.
  destruct Hinv as (Hc & Hle & _).
  unfold loop_body, decide.
  rewrite (try_acquire_exact _ _ _ (mle_wf _ _ Hc Hle) Hw Hcw).
  destruct (fitsb (held st) (ww x) (cap st)); [reflexivity|].
  rewrite exceedsb_mgt. unfold expired.
  destruct (exceedsb (ww x) (cap st) || (wdl x <=? now)%Z); reflexivity.
Qed.

Lemma fits_mle c h w : fits h w c -> mle (mplus h w) c.
Proof. unfold fits, mle, mplus. cbn. lia. Qed.

Lemma in_pending_app st x : In x (pending st) <-> In x (waiting st) \/ In x (woken st).
Proof. unfold pending. apply in_app_iff. Qed.

Lemma not_fits_nonempty c h w : mle h c -> ~ fits h w c -> w <> mzero.
Proof. unfold mle, fits. intros Hle Hn ->. apply Hn. cbn. lia. Qed.

Lemma mle_plus_cap c st w :
  mle (held st) c -> (cap st = c \/ cap st = mzero) -> fits (held st) w (cap st) -> mle (mplus (held st) w) c.
Proof.
  intros Hle [E | E] Hf; rewrite E in Hf; [now apply fits_mle|].
  unfold fits, mzero, mle, mplus in *; cbn in *. lia.
Qed.

Lemma inv_loop_body c st now x :
  inv c st -> m_wf (ww x) -> inv c (fst (loop_body true st now x)).
Proof.
  intros Hinv Hw. rewrite (loop_body_decide c) by assumption.
  destruct Hinv as (Hc & Hle & Hcap & Hwf & Hne).
  unfold decide.
  destruct (fitsb (held st) (ww x) (cap st)) eqn:Ef.
  - cbn [fst]. apply fitsb_spec in Ef.
    refine (conj Hc (conj _ (conj Hcap (conj Hwf Hne)))).
    cbn [held]. now apply mle_plus_cap.
  - destruct (exceedsb (ww x) (cap st) || (wdl x <=? now)%Z) eqn:Ee; cbn [fst].
    + exact (conj Hc (conj Hle (conj Hcap (conj Hwf Hne)))).
    + assert (Hnf : ~ fits (held st) (ww x) (cap st)) by (rewrite <- fitsb_spec; congruence).
      refine (conj Hc (conj Hle (conj Hcap (conj _ _)))).
      * intros y Hy. unfold pending in Hy; cbn [waiting woken] in Hy.
        rewrite !in_app_iff in Hy. destruct Hy as [[Hy | [<- | []]] | Hy]; [apply Hwf, in_pending_app; auto | assumption | apply Hwf, in_pending_app; auto].
      * intros E y Hy. cbn [cap] in E. unfold pending in Hy; cbn [waiting woken] in Hy.
        rewrite !in_app_iff in Hy. destruct Hy as [[Hy | [<- | []]] | Hy].
        -- apply Hne; [assumption | apply in_pending_app; auto].
        -- rewrite E in Hnf. eapply not_fits_nonempty; eassumption.
        -- apply Hne; [assumption | apply in_pending_app; auto].
Qed.

(* ---------- take_waiter ---------- *)

Lemma take_waiter_some id l x r :
  take_waiter id l = Some (x, r) ->
  wid x = id /\ In x l /\ (forall y, In y r -> In y l) /\ (forall y, In y l -> y = x \/ In y r) /\
  (forall y, In y l -> wid y <> id -> In y r).
Proof.
  revert x r. induction l as [|a l IH]; intros x r H; cbn in H; [discriminate|].
  destruct (wid a =? id)%N eqn:E.
  - inversion H; subst. apply N.eqb_eq in E.
    repeat split; auto with datatypes.
    + intros y [->|Hy]; auto.
    + intros y [->|Hy] Hn; [contradiction | assumption].
  - destruct (take_waiter id l) as [[y r']|] eqn:T; [|discriminate].
    inversion H; subst. destruct (IH _ _ eq_refl) as (H1 & H2 & H3 & H4 & H5).
    repeat split; auto with datatypes.
    + intros z [->|Hz]; [left; reflexivity | right; auto].
    + intros z [->|Hz]; [right; left; reflexivity|]. destruct (H4 _ Hz); auto with datatypes.
    + intros z [->|Hz] Hn; [left; reflexivity | right; auto].
Qed.

Lemma take_waiter_none id l : take_waiter id l = None -> forall y, In y l -> wid y <> id.
Proof.
  induction l as [|a l IH]; intros H y Hy; [contradiction|]. cbn in H.
  destruct (wid a =? id)%N eqn:E; [discriminate|].
  destruct (take_waiter id l) as [[? ?]|]; [discriminate|].
  destruct Hy as [->|Hy]; [now apply N.eqb_neq | now apply IH].
Qed.

(* ---------- the invariant is preserved by every step ---------- *)

Lemma inv_sub c st st' :
  inv c st -> held st' = held st -> cap st' = cap st ->
  (forall y, In y (pending st') -> In y (pending st)) -> inv c st'.
Proof.
  intros (Hc & Hle & Hcap & Hwf & Hne) Eh Ec Hsub.
  refine (conj Hc (conj _ (conj _ (conj _ _)))).
  - now rewrite Eh. - now rewrite Ec.
  - intros y Hy. apply Hwf, Hsub, Hy.
  - intros E y Hy. rewrite Ec in E. apply Hne; [assumption | apply Hsub, Hy].
Qed.

Lemma pending_broadcast st y : In y (pending (broadcast st)) <-> In y (pending st).
Proof. unfold pending, broadcast; cbn. rewrite !in_app_iff. tauto. Qed.

Lemma pending_broadcast_1 st y : In y (pending (broadcast st)) -> In y (waiting st ++ woken st).
Proof. intros H. exact (proj1 (pending_broadcast st y) H). Qed.

Lemma inv_step c st now ev : inv c st -> ev_wf ev -> inv c (fst (step true st now ev)).
Proof.
  intros Hinv Hev. destruct ev as [id w tcall timeout | w | w | | id | id]; cbn [step].
  - apply inv_loop_body; assumption.
  - pose proof (cap_wf _ _ Hinv) as Hcw. destruct Hinv as (Hc & Hle & Hcap & Hwf & Hne).
    cbn in Hev. rewrite (try_acquire_exact _ _ _ (mle_wf _ _ Hc Hle) Hev Hcw).
    destruct (fitsb (held st) w (cap st)) eqn:Ef; cbn [fst].
    + apply fitsb_spec in Ef. refine (conj Hc (conj _ (conj Hcap (conj Hwf Hne)))).
      cbn [held]. now apply mle_plus_cap.
    + exact (conj Hc (conj Hle (conj Hcap (conj Hwf Hne)))).
  - unfold release. destruct Hinv as (Hc & Hle & Hcap & Hwf & Hne).
    destruct (mlt_any (held st) w) eqn:El; cbn [fst].
    + refine (conj Hc (conj _ (conj Hcap (conj _ _)))).
      * unfold mle, mzero; cbn. lia.
      * intros y Hy. apply pending_broadcast_1 in Hy; cbn [waiting woken] in Hy. apply Hwf, Hy.
      * intros E y Hy. apply pending_broadcast_1 in Hy; cbn [waiting woken] in Hy. apply Hne; assumption.
    + refine (conj Hc (conj _ (conj Hcap (conj _ _)))).
      * unfold mle, msub in *; cbn. lia.
      * intros y Hy. apply pending_broadcast_1 in Hy; cbn [waiting woken] in Hy. apply Hwf, Hy.
      * intros E y Hy. apply pending_broadcast_1 in Hy; cbn [waiting woken] in Hy. apply Hne; assumption.
  - cbn [fst]. destruct Hinv as (Hc & Hle & Hcap & Hwf & Hne).
    refine (conj Hc (conj Hle (conj (or_intror eq_refl) (conj _ _)))).
    + intros y Hy. apply pending_broadcast_1 in Hy; cbn [waiting woken] in Hy. apply Hwf, Hy.
    + cbn [broadcast cap]. intros E. destruct Hc as [Hc1 Hc2].
      (* capacity zero: nothing was ever blocked without being non-empty; vacuous unless c = 0 *)
      intros y Hy. apply pending_broadcast_1 in Hy; cbn [waiting woken] in Hy.
      destruct Hcap as [E' | E'].
      * apply Hne; [assumption | exact Hy].
      * apply Hne; [congruence | exact Hy].
  - cbn [fst]. eapply inv_sub; [exact Hinv | reflexivity | reflexivity |].
    intros y Hy. now apply pending_broadcast_1 in Hy; cbn [waiting woken] in Hy.
  - destruct (take_waiter id (woken st)) as [[x rest]|] eqn:T; [|exact Hinv].
    destruct (take_waiter_some _ _ _ _ T) as (H1 & H2 & H3 & H4 & H5).
    apply inv_loop_body.
    + eapply inv_sub; [exact Hinv | reflexivity | reflexivity |].
      intros y Hy. apply in_pending_app in Hy. cbn [waiting woken] in Hy.
      apply in_pending_app. destruct Hy; auto.
    + destruct Hinv as (_ & _ & _ & Hwf & _). apply Hwf, in_pending_app; auto.
Qed.

Lemma inv_init c : m_wf c -> inv c (init c).
Proof.
  intros Hc. refine (conj Hc (conj _ (conj (or_introl eq_refl) (conj _ _)))).
  - unfold mle, init, mzero; cbn. lia.
  - intros x [].
  - intros _ x [].
Qed.

Lemma reachable_inv c st : m_wf c -> reachable c st -> inv c st.
Proof. intros Hc H. induction H; [now apply inv_init | now apply inv_step]. Qed.

(* ====================== the theorems of props/C30.v ====================== *)

(* bound *)
Lemma sem_bound c st : m_wf c -> reachable c st -> mle (held st) c /\ (cap st = c \/ cap st = mzero).
Proof. intros Hc H. destruct (reachable_inv _ _ Hc H) as (_ & H1 & H2 & _). auto. Qed.

(* TryAcquire answers "fits" and adds exactly the weight *)
Lemma sem_try c st now w :
  m_wf c -> reachable c st -> m_wf w ->
  step true st now (ETry w) =
  if fitsb (held st) w (cap st)
  then (mkS (mplus (held st) w) (cap st) (waiting st) (woken st), [OTry true])
  else (st, [OTry false]).
Proof.
  intros Hc H Hw. pose proof (reachable_inv _ _ Hc H) as Hinv.
  pose proof (cap_wf _ _ Hinv) as Hcw. destruct Hinv as (_ & Hle & _).
  cbn [step]. rewrite (try_acquire_exact _ _ _ (mle_wf _ _ Hc Hle) Hw Hcw).
  destruct (fitsb (held st) w (cap st)); reflexivity.
Qed.

(* Acquire, first run of the loop body *)
Lemma sem_call c st now id w tcall timeout :
  m_wf c -> reachable c st -> m_wf w ->
  step true st now (ECall id w tcall timeout) =
  match decide (held st) (cap st) w (tcall + timeout) now with
  | DGrant => (mkS (mplus (held st) w) (cap st) (waiting st) (woken st), [ORet id true])
  | DRefuse => (st, [ORet id false])
  | DBlock => (mkS (held st) (cap st) (waiting st ++ [mkW id w (tcall + timeout)]) (woken st), [OBlock id])
  end.
Proof.
  intros Hc H Hw. cbn [step].
  rewrite (loop_body_decide c) by (cbn; auto using reachable_inv). reflexivity.
Qed.

(* Acquire, every later run of the loop body (after a broadcast) *)
Lemma sem_wake c st now x :
  m_wf c -> reachable c st -> In x (woken st) -> NoDup (map wid (woken st)) ->
  exists rest,
    (forall y, In y rest <-> In y (woken st) /\ y <> x) /\
    step true st now (EWake (wid x)) =
    match decide (held st) (cap st) (ww x) (wdl x) now with
    | DGrant => (mkS (mplus (held st) (ww x)) (cap st) (waiting st) rest, [ORet (wid x) true])
    | DRefuse => (mkS (held st) (cap st) (waiting st) rest, [ORet (wid x) false])
    | DBlock => (mkS (held st) (cap st) (waiting st ++ [x]) rest, [OBlock (wid x)])
    end.
Proof.
  intros Hc H Hin Hnd. pose proof (reachable_inv _ _ Hc H) as Hinv.
  cbn [step].
  destruct (take_waiter (wid x) (woken st)) as [[y rest]|] eqn:T.
  - destruct (take_waiter_some _ _ _ _ T) as (H1 & H2 & H3 & H4 & H5).
    assert (y = x) as ->.
    { clear - H1 H2 Hin Hnd. induction (woken st) as [|a l IH]; [contradiction|].
      cbn in Hnd. inversion Hnd as [|? ? Hni Hnd']; subst.
      destruct H2 as [->|H2], Hin as [->|Hin]; auto.
      - exfalso. apply Hni. rewrite H1. now apply in_map.
      - exfalso. apply Hni. rewrite <- H1. now apply in_map. }
    exists rest. split.
    + intros z. split.
      * intros Hz. split; [auto|]. intros ->.
        clear - T Hz Hnd. revert rest T Hz. induction (woken st) as [|a l IH]; intros rest T Hz; [discriminate|].
        cbn in T. inversion Hnd as [|? ? Hni Hnd']; subst.
        destruct (wid a =? wid x)%N eqn:E.
        -- inversion T; subst. apply Hni. now apply in_map.
        -- destruct (take_waiter (wid x) l) as [[y r']|] eqn:T'; [|discriminate].
           inversion T; subst. destruct Hz as [->|Hz]; [rewrite N.eqb_refl in E; discriminate|].
           eapply IH; eauto.
      * intros [Hz Hne]. destruct (H4 _ Hz); [contradiction | assumption].
    + assert (Hinv' : inv c (mkS (held st) (cap st) (waiting st) rest)).
      { eapply inv_sub; [exact Hinv | reflexivity | reflexivity |].
        intros z Hz. apply in_pending_app in Hz. cbn [waiting woken] in Hz.
        apply in_pending_app. destruct Hz; auto. }
      assert (Hwx : m_wf (ww x)).
      { destruct Hinv as (_ & _ & _ & Hwf & _). apply Hwf, in_pending_app; auto. }
      rewrite (loop_body_decide c _ _ _ Hinv' Hwx). cbn [held cap waiting woken].
      destruct (decide (held st) (cap st) (ww x) (wdl x) now); reflexivity.
  - exfalso. exact (take_waiter_none _ _ T _ Hin eq_refl).
Qed.

(* Release: exact accounting, one warning on over-release, and no lost wake-up *)
Lemma sem_release st now w :
  let '(st', o) := step true st now (ERelease w) in
  waiting st' = [] /\ woken st' = woken st ++ waiting st /\ cap st' = cap st /\
  (covers (held st) w -> o = [] /\ held st' = msub (held st) w) /\
  (~ covers (held st) w -> o = [OWarn (held st) w] /\ held st' = mzero).
Proof.
  cbn [step]. unfold release, covers, mlt_any.
  destruct ((mnum (held st) <? mnum w)%N || (msize (held st) <? msize w)%N) eqn:E; cbn.
  - split; [reflexivity|]. split; [reflexivity|]. split; [reflexivity|]. split.
    + intros [H1 H2]. exfalso. lia.
    + intros _. split; reflexivity.
  - split; [reflexivity|]. split; [reflexivity|]. split; [reflexivity|]. split.
    + intros _. split; reflexivity.
    + intros Hn. exfalso. apply Hn. lia.
Qed.

(* Terminate *)
Lemma sem_terminate st now :
  let '(st', o) := step true st now ETerminate in
  o = [] /\ cap st' = mzero /\ held st' = held st /\ waiting st' = [] /\ woken st' = woken st ++ waiting st.
Proof. cbn. auto. Qed.

Lemma sem_terminated_forever st now ev : cap st = mzero -> cap (fst (step true st now ev)) = mzero.
Proof.
  intros E. destruct ev; cbn [step].
  - unfold loop_body. destruct (try_acquire _ _ _ _); [assumption|].
    destruct (_ || _); assumption.
  - destruct (try_acquire _ _ _ _); assumption.
  - unfold release. destruct (mlt_any _ _); assumption.
  - reflexivity.
  - assumption.
  - destruct (take_waiter _ _) as [[x r]|]; [|assumption].
    unfold loop_body; cbn [held cap waiting woken]. destruct (try_acquire _ _ _ _); [assumption|].
    destruct (_ || _); assumption.
Qed.

Lemma nonempty_exceeds_zero w : w <> mzero -> exceedsb w mzero = true.
Proof.
  intros H. unfold exceedsb, mzero; cbn. destruct w as [n s]. cbn.
  destruct (N.eq_dec n 0), (N.eq_dec s 0); subst; try lia. now contradiction H.
Qed.

Lemma nonempty_not_fits_zero h w : w <> mzero -> fitsb h w mzero = false.
Proof.
  intros H. unfold fitsb, mzero; cbn. destruct w as [n s]. cbn.
  destruct (N.eq_dec n 0), (N.eq_dec s 0); subst; try lia. now contradiction H.
Qed.

(* after Terminate every non-empty request is refused, whatever its deadline *)
Lemma sem_terminated_refuses c st now x :
  m_wf c -> reachable c st -> cap st = mzero -> m_wf (ww x) -> ww x <> mzero ->
  loop_body true st now x = (st, [ORet (wid x) false]) /\
  step true st now (ETry (ww x)) = (st, [OTry false]).
Proof.
  intros Hc H E Hw Hne. split.
  - rewrite (loop_body_decide c) by auto using reachable_inv.
    unfold decide. rewrite E, nonempty_not_fits_zero, nonempty_exceeds_zero by assumption. reflexivity.
  - rewrite (sem_try c) by assumption. now rewrite E, nonempty_not_fits_zero.
Qed.

(* whoever is blocked when Terminate is called holds a non-empty request, is made runnable by
   Terminate, and is refused when it runs *)
Lemma sem_terminate_blocked c st now x :
  m_wf c -> reachable c st -> cap st = c -> In x (pending st) ->
  In x (woken (fst (step true st now ETerminate))) /\ m_wf (ww x) /\ ww x <> mzero.
Proof.
  intros Hc H E Hin. destruct (reachable_inv _ _ Hc H) as (_ & _ & _ & Hwf & Hne).
  split; [|split; [now apply Hwf | now apply Hne]].
  cbn. apply in_pending_app in Hin. apply in_app_iff. tauto.
Qed.

(* a runnable waiter stays runnable until it runs *)
Lemma sem_woken_stays st now ev x :
  In x (woken st) -> ev <> EWake (wid x) -> In x (woken (fst (step true st now ev))).
Proof.
  intros Hin Hev. destruct ev; cbn [step].
  - unfold loop_body. destruct (try_acquire _ _ _ _); [assumption|]. destruct (_ || _); assumption.
  - destruct (try_acquire _ _ _ _); assumption.
  - unfold release. destruct (mlt_any _ _); cbn; apply in_app_iff; auto.
  - cbn. apply in_app_iff; auto.
  - cbn. apply in_app_iff; auto.
  - destruct (take_waiter id (woken st)) as [[y r]|] eqn:T; [|assumption].
    destruct (take_waiter_some _ _ _ _ T) as (H1 & H2 & H3 & H4 & H5).
    assert (In x r) by (apply H5; [assumption | intros E; apply Hev; now rewrite E]).
    unfold loop_body; cbn [held cap waiting woken]. destruct (try_acquire _ _ _ _); [assumption|].
    destruct (_ || _); assumption.
Qed.

(* ---------- timeout ---------- *)
From Coq Require Import Permutation.

(* a waiter that runs at or after its deadline returns; it is never blocked again *)
Lemma sem_deadline_returns st now x :
  (wdl x <= now)%Z -> exists ok st', loop_body true st now x = (st', [ORet (wid x) ok]).
Proof.
  intros Hd. unfold loop_body. destruct (try_acquire _ _ _ _); [eauto|].
  unfold expired. replace (wdl x <=? now)%Z with true by lia. rewrite orb_true_r. eauto.
Qed.

(* the timer callback makes every blocked waiter runnable *)
Lemma sem_timer_wakes st now id :
  step true st now (ETimer id) = (mkS (held st) (cap st) [] (woken st ++ waiting st), []).
Proof. reflexivity. Qed.

Lemma take_waiter_perm id l y r : take_waiter id l = Some (y, r) -> Permutation l (y :: r).
Proof.
  revert y r. induction l as [|a l IH]; intros y r H; cbn in H; [discriminate|].
  destruct (wid a =? id)%N.
  - inversion H; subst. apply Permutation_refl.
  - destruct (take_waiter id l) as [[z r']|]; [|discriminate]. inversion H; subst.
    eapply perm_trans; [apply perm_skip, IH; reflexivity | apply perm_swap].
Qed.

Lemma nodup_app_r {A} (l1 l2 : list A) : NoDup (l1 ++ l2) -> NoDup l2.
Proof. induction l1 as [|a l1 IH]; cbn; [auto|]. intros H. inversion H; auto. Qed.

Definition uniq (st : state) : Prop := NoDup (map wid (pending st)).

Lemma uniq_perm st st' : Permutation (pending st) (pending st') -> uniq st -> uniq st'.
Proof. intros P. unfold uniq. apply Permutation_NoDup. now apply Permutation_map. Qed.

Lemma uniq_loop_body st now x :
  NoDup (map wid (x :: pending st)) -> uniq (fst (loop_body true st now x)).
Proof.
  intros H. unfold loop_body.
  assert (Hu : uniq st) by (cbn in H; now inversion H).
  destruct (try_acquire _ _ _ _); [exact Hu|].
  destruct (_ || _); [exact Hu|].
  unfold uniq, pending; cbn [fst waiting woken].
  eapply Permutation_NoDup; [|exact H]. apply Permutation_map.
  unfold pending. rewrite <- app_assoc. cbn. apply Permutation_middle.
Qed.

Lemma uniq_step st now ev :
  uniq st -> match ev with ECall id _ _ _ => ~ In id (map wid (pending st)) | _ => True end ->
  uniq (fst (step true st now ev)).
Proof.
  intros Hu Hf. destruct ev; cbn [step].
  - apply uniq_loop_body. cbn. constructor; assumption.
  - destruct (try_acquire _ _ _ _); exact Hu.
  - unfold release. destruct (mlt_any _ _); cbn [fst];
      (eapply uniq_perm; [|exact Hu]); unfold pending, broadcast; cbn; apply Permutation_app_comm.
  - cbn [fst]. eapply uniq_perm; [|exact Hu]. unfold pending, broadcast; cbn. apply Permutation_app_comm.
  - cbn [fst]. eapply uniq_perm; [|exact Hu]. unfold pending, broadcast; cbn. apply Permutation_app_comm.
  - destruct (take_waiter id (woken st)) as [[y r]|] eqn:T; [|exact Hu].
    apply uniq_loop_body. unfold pending; cbn [waiting woken].
    eapply Permutation_NoDup; [|exact Hu]. apply Permutation_map. unfold pending.
    apply take_waiter_perm in T.
    eapply perm_trans; [apply Permutation_app_head, T|]. apply Permutation_sym, Permutation_middle.
Qed.

Lemma uniq_woken_not_waiting st x : uniq st -> In x (woken st) -> ~ In x (waiting st).
Proof.
  unfold uniq, pending. intros Hu Hw Hq. rewrite map_app in Hu.
  revert Hu. generalize (in_map wid _ _ Hw) (in_map wid _ _ Hq).
  generalize (map wid (waiting st)) (map wid (woken st)) (wid x). clear.
  intros l1 l2 a H2 H1 Hn. induction l1 as [|b l1 IH]; [contradiction|].
  cbn in Hn. inversion Hn as [|? ? Hni Hn']; subst.
  destruct H1 as [->|H1]; [apply Hni, in_app_iff; auto | auto].
Qed.

Lemma uniq_woken_take st x :
  uniq st -> In x (woken st) -> exists r, take_waiter (wid x) (woken st) = Some (x, r).
Proof.
  intros Hu Hin.
  destruct (take_waiter (wid x) (woken st)) as [[y r]|] eqn:T.
  - destruct (take_waiter_some _ _ _ _ T) as (H1 & H2 & _).
    exists r. f_equal. f_equal.
    unfold uniq, pending in Hu. rewrite map_app in Hu. apply nodup_app_r in Hu.
    clear - Hu H1 H2 Hin. induction (woken st) as [|a l IH]; [contradiction|].
    cbn in Hu. inversion Hu as [|? ? Hni Hu']; subst.
    destruct H2 as [->|H2], Hin as [->|Hin]; auto.
    + exfalso. apply Hni. rewrite H1. now apply in_map.
    + exfalso. apply Hni. rewrite <- H1. now apply in_map.
  - exfalso. exact (take_waiter_none _ _ T _ Hin eq_refl).
Qed.

Lemma sem_timeout_run x tr : forall st,
  uniq st -> In x (woken st) -> times_from (wdl x) tr -> fresh_run st tr ->
  let '(st2, log) := run true st tr in
  (exists t' ok, In (t', ORet (wid x) ok) log) \/ (uniq st2 /\ In x (woken st2)).
Proof.
  induction tr as [|[now ev] tr IH]; intros st Hu Hin Ht Hf; cbn [run]; [auto|].
  destruct Hf as [Hf1 Hf2].
  assert (Hnow : (wdl x <= now)%Z) by (eapply Ht; left; reflexivity).
  assert (Ht' : times_from (wdl x) tr) by (intros n e Hne; eapply Ht; right; exact Hne).
  destruct (step true st now ev) as [st1 o] eqn:Es.
  destruct (run true st1 tr) as [st2 log] eqn:Er.
  assert (Es1 : st1 = fst (step true st now ev)) by now rewrite Es.
  pose proof (uniq_step st now ev Hu Hf1) as Hu1. rewrite <- Es1 in Hu1.
  cbn [fst] in Hf2.
  destruct ev as [id w tc to | w | w | | id | id].
  6: destruct (N.eq_dec id (wid x)) as [-> | Hne].
  6: { (* the waiter itself runs: it returns *)
       left. cbn [step] in Es. destruct (uniq_woken_take _ _ Hu Hin) as [r T]. rewrite T in Es.
       destruct (sem_deadline_returns (mkS (held st) (cap st) (waiting st) r) now x Hnow) as (ok & st' & E).
       rewrite E in Es. inversion Es; subst. exists now, ok. cbn. left. reflexivity. }
  all: assert (Hin1 : In x (woken st1)) by
      (rewrite Es1; apply sem_woken_stays; [assumption | intros E; inversion E; congruence]).
  all: specialize (IH st1 Hu1 Hin1 Ht' Hf2); rewrite Er in IH;
       destruct IH as [(t' & ok & Hl) | IH]; [left; exists t', ok; apply in_app_iff; auto | right; exact IH].
Qed.

(* after its timer fired at or after the deadline, a blocked Acquire has returned or is runnable
   (never blocked again); when it runs it returns (sem_deadline_returns) *)
Lemma sem_timeout st x t tr :
  uniq st -> In x (pending st) -> (wdl x <= t)%Z -> times_from t tr ->
  fresh_run (fst (step true st t (ETimer (wid x)))) tr ->
  let '(st2, log) := run true st ((t, ETimer (wid x)) :: tr) in
  (exists t' ok, In (t', ORet (wid x) ok) log) \/ (In x (woken st2) /\ ~ In x (waiting st2)).
Proof.
  intros Hu Hin Hd Ht Hf. cbn [run step fst].
  set (st1 := broadcast st) in *.
  assert (Hu1 : uniq st1).
  { eapply uniq_perm; [|exact Hu]. unfold pending, st1, broadcast; cbn. apply Permutation_app_comm. }
  assert (Hin1 : In x (woken st1)).
  { unfold st1, broadcast; cbn. apply in_pending_app in Hin. apply in_app_iff. tauto. }
  assert (Ht1 : times_from (wdl x) tr) by (intros n e Hne; specialize (Ht n e Hne); lia).
  pose proof (sem_timeout_run x tr st1 Hu1 Hin1 Ht1 Hf) as H.
  destruct (run true st1 tr) as [st2 log]. cbn [map app].
  destruct H as [H | [H1 H2]]; [left; exact H | right].
  split; [assumption | now apply uniq_woken_not_waiting].
Qed.

(* ---------- the pinned tree (fx = false) violates the property: regression examples ---------- *)

Definition wit_timeout : list (Z * sop) :=
  [(4, SAcq 1 (mkM 1 1) 10); (8, SAcq 2 (mkM 1 1) 6)]%Z.

(* pinned tree: the second Acquire never returns, and the specification rejects that *)
Example sem_old_timeout_refuted :
  snd (simulate false (mkM 1 100) [] wit_timeout) = [BRet 1 true 4; BNever 2] /\
  spec_check (mkM 1 100) wit_timeout (digest_of (snd (simulate false (mkM 1 100) [] wit_timeout))) = false.
Proof. split; vm_compute; reflexivity. Qed.

(* repaired: it returns false at its deadline 8 + 6 *)
Example sem_timeout_witness_ok :
  snd (simulate true (mkM 1 100) [] wit_timeout) = [BRet 1 true 4; BRet 2 false 14] /\
  spec_check (mkM 1 100) wit_timeout (digest_of (snd (simulate true (mkM 1 100) [] wit_timeout))) = true.
Proof. split; vm_compute; reflexivity. Qed.

Definition wit_wrap : list (Z * sop) :=
  [(4, STry (mkM 1 1)); (8, STry (mkM 4294967295 0)); (12, SProc)]%Z.

(* pinned tree: 1 + (2^32-1) wraps to 0 <= 10: a request far above the capacity is granted *)
Example sem_old_wrap_refuted :
  snd (simulate false (mkM 10 1000) [] wit_wrap) = [BTry true; BTry true; BProc (mkM 0 1)] /\
  spec_check (mkM 10 1000) wit_wrap (digest_of (snd (simulate false (mkM 10 1000) [] wit_wrap))) = false.
Proof. split; vm_compute; reflexivity. Qed.

Example sem_wrap_witness_ok :
  snd (simulate true (mkM 10 1000) [] wit_wrap) = [BTry true; BTry false; BProc (mkM 1 1)] /\
  spec_check (mkM 10 1000) wit_wrap (digest_of (snd (simulate true (mkM 10 1000) [] wit_wrap))) = true.
Proof. split; vm_compute; reflexivity. Qed.

(* ---------- non-vacuity: a reachable state with a blocked and a runnable waiter ---------- *)
Definition ex_trace : list (Z * event) :=
  [(0, ECall 1 (mkM 2 10) 0 100); (1, ECall 2 (mkM 1 5) 1 20); (2, ECall 3 (mkM 2 1) 2 50);
   (3, ERelease (mkM 1 0))]%Z.
Definition ex_state : state := fst (run true (init (mkM 2 20)) ex_trace).

Lemma run_reachable c tr : forall st, reachable c st -> Forall (fun x => ev_wf (snd x)) tr ->
  reachable c (fst (run true st tr)).
Proof.
  induction tr as [|[now ev] tr IH]; intros st H Hwf; cbn [run]; [exact H|].
  inversion Hwf as [|? ? H1 H2]; subst. cbn in H1.
  pose proof (reach_step c st now ev H H1) as Hr.
  destruct (step true st now ev) as [st1 o]. cbn [fst] in Hr.
  specialize (IH st1 Hr H2). destruct (run true st1 tr). exact IH.
Qed.

Example ex_state_reachable : reachable (mkM 2 20) ex_state.
Proof.
  apply run_reachable; [constructor|].
  repeat constructor; unfold m_wf, two32, two64; cbn; lia.
Qed.
Example ex_state_shape :
  ex_state = mkS (mkM 1 10) (mkM 2 20) [] [mkW 2 (mkM 1 5) 21; mkW 3 (mkM 2 1) 52].
Proof. vm_compute. reflexivity. Qed.

(* ---------- the scheduler used for replay only produces behaviours of [step] ---------- *)

Lemma run_app fx tr1 : forall st tr2,
  fst (run fx st (tr1 ++ tr2)) = fst (run fx (fst (run fx st tr1)) tr2).
Proof.
  induction tr1 as [|[now ev] tr1 IH]; intros st tr2; cbn [app run]; [reflexivity|].
  destruct (step fx st now ev) as [st1 o].
  specialize (IH st1 tr2).
  destruct (run fx st1 (tr1 ++ tr2)) as [sa la]. destruct (run fx st1 tr1) as [sb lb]. cbn [fst] in *.
  exact IH.
Qed.

Definition sim_ok (fx : bool) (c : metric) (s : sim) : Prop :=
  fst (fst s) = fst (run fx (init c) (rev (snd (fst s)))).

Lemma sim_step_ok fx c s now ev : sim_ok fx c s -> sim_ok fx c (sim_step fx s now ev).
Proof.
  destruct s as [[st tr] ob]. unfold sim_ok, sim_step. cbn [fst snd]. intros H.
  destruct (step fx st now ev) as [st' o] eqn:E. cbn [fst snd rev].
  rewrite run_app, <- H. cbn [run]. rewrite E. destruct (run fx st' []) eqn:R. cbn in R. inversion R. reflexivity.
Qed.

Lemma drain_ok fx c prefer fuel : forall s now, sim_ok fx c s -> sim_ok fx c (drain fx prefer fuel s now).
Proof.
  induction fuel as [|f IH]; intros s now H; cbn [drain]; [exact H|].
  destruct (pick prefer (woken (fst (fst s)))); [|exact H]. apply IH, sim_step_ok, H.
Qed.

Lemma fire_timers_ok fx c prefer fuel : forall s upto, sim_ok fx c s -> sim_ok fx c (fire_timers fx prefer fuel s upto).
Proof.
  induction fuel as [|f IH]; intros s upto H; cbn [fire_timers]; [exact H|].
  destruct (min_waiter (waiting (fst (fst s)))) as [x|]; [|exact H].
  destruct (match upto with Some T => (wdl x <=? T)%Z | None => true end); [|exact H].
  apply IH. unfold drain_all. apply drain_ok, sim_step_ok, H.
Qed.

Lemma sim_script_ok fx c prefer sc : forall s, sim_ok fx c s -> sim_ok fx c (sim_script fx prefer s sc).
Proof.
  assert (Ht : forall s upto, sim_ok fx c s -> sim_ok fx c (timers fx prefer s upto)).
  { intros s upto H. unfold timers. destruct fx; [apply fire_timers_ok, H | exact H]. }
  induction sc as [|[now op] sc IH]; intros s H; cbn [sim_script]; [apply Ht, H|].
  apply IH. specialize (Ht s (Some now) H). destruct (timers fx prefer s (Some now)) as [[st tr] ob] eqn:E.
  destruct op; cbn [sim_op]; unfold drain_all.
  - apply drain_ok, sim_step_ok, Ht.
  - apply drain_ok, sim_step_ok, Ht.
  - pose proof (sim_step_ok fx c (st, tr, ob) now (ERelease w) Ht) as H1.
    destruct (sim_step fx (st, tr, ob) now (ERelease w)) as [[st1 tr1] ob1]. apply drain_ok. exact H1.
  - apply drain_ok, sim_step_ok, Ht.
  - exact Ht.
Qed.

(* the trace reported by [simulate] is a trace of [run], and the outputs are its log *)
Lemma simulate_is_run fx c prefer sc :
  let '(st, tr, ob) := sim_script fx prefer (init c, [], []) sc in
  st = fst (run fx (init c) (rev tr)).
Proof.
  pose proof (sim_script_ok fx c prefer sc (init c, [], []) eq_refl) as H.
  destruct (sim_script fx prefer (init c, [], []) sc) as [[st tr] ob]. exact H.
Qed.

(* ====================== round 2: no lost wake-up, unique ids from reachability ====================== *)

Lemma reachable_u_reachable c st : reachable_u c st -> reachable c st.
Proof. intros H. induction H; [constructor | now constructor]. Qed.

Lemma reachable_u_uniq c st : reachable_u c st -> uniq st.
Proof.
  intros H. induction H as [|st now ev H IH Hwf Hf]; [constructor|].
  apply uniq_step; assumption.
Qed.

(* "granted as soon as it fits", history level: in no reachable state is there a caller blocked in
   cond.Wait() whose request fits (or exceeds the capacity): whenever the held amount or the capacity
   went down, everybody was woken *)
Definition no_fit (st : state) : Prop :=
  forall x, In x (waiting st) -> fitsb (held st) (ww x) (cap st) = false /\ exceedsb (ww x) (cap st) = false.

Lemma fitsb_mono h w c w' : fitsb h w c = false -> fitsb (mplus h w') w c = false.
Proof. unfold fitsb, mplus. cbn. lia. Qed.

Lemma no_fit_loop_body c st now x :
  inv c st -> m_wf (ww x) -> no_fit st -> no_fit (fst (loop_body true st now x)).
Proof.
  intros Hinv Hw Hn. rewrite (loop_body_decide c) by assumption. unfold decide.
  destruct (fitsb (held st) (ww x) (cap st)) eqn:Ef; cbn [fst].
  - intros y Hy. cbn [held cap waiting] in *. destruct (Hn y Hy) as [H1 H2]. split; [now apply fitsb_mono | assumption].
  - destruct (exceedsb (ww x) (cap st) || (wdl x <=? now)%Z) eqn:Ee; cbn [fst]; [exact Hn|].
    intros y Hy. cbn [held cap waiting] in *. apply in_app_iff in Hy. destruct Hy as [Hy | [<- | []]]; [now apply Hn|].
    apply orb_false_iff in Ee. tauto.
Qed.

Lemma no_fit_step c st now ev : inv c st -> ev_wf ev -> no_fit st -> no_fit (fst (step true st now ev)).
Proof.
  intros Hinv Hev Hn. destruct ev as [id w tcall timeout | w | w | | id | id]; cbn [step].
  - apply (no_fit_loop_body c); assumption.
  - pose proof (cap_wf _ _ Hinv) as Hcw. destruct Hinv as (Hc & Hle & _). cbn in Hev.
    rewrite (try_acquire_exact _ _ _ (mle_wf _ _ Hc Hle) Hev Hcw).
    destruct (fitsb (held st) w (cap st)); cbn [fst]; [|exact Hn].
    intros y Hy. cbn [held cap waiting] in *. destruct (Hn y Hy). split; [now apply fitsb_mono | assumption].
  - unfold release. destruct (mlt_any (held st) w); cbn [fst]; intros y [].
  - cbn [fst]. intros y [].
  - cbn [fst]. intros y [].
  - destruct (take_waiter id (woken st)) as [[x rest]|] eqn:T; [|exact Hn].
    destruct (take_waiter_some _ _ _ _ T) as (H1 & H2 & H3 & H4 & H5).
    apply (no_fit_loop_body c).
    + eapply inv_sub; [exact Hinv | reflexivity | reflexivity |].
      intros z Hz. apply in_pending_app in Hz. cbn [waiting woken] in Hz. apply in_pending_app. destruct Hz; auto.
    + destruct Hinv as (_ & _ & _ & Hwf & _). apply Hwf, in_pending_app; auto.
    + exact Hn.
Qed.

Lemma sem_no_fitting_waiter c st x :
  m_wf c -> reachable c st -> In x (waiting st) ->
  fitsb (held st) (ww x) (cap st) = false /\ exceedsb (ww x) (cap st) = false.
Proof.
  intros Hc H. revert x. change (no_fit st). induction H as [|st now ev H IH Hwf]; [intros x []|].
  apply (no_fit_step c); auto using reachable_inv.
Qed.

(* the wake-up theorem without the NoDup hypothesis *)
Lemma sem_wake_u c st now x :
  m_wf c -> reachable_u c st -> In x (woken st) ->
  exists rest,
    (forall y, In y rest <-> In y (woken st) /\ y <> x) /\
    step true st now (EWake (wid x)) =
    match decide (held st) (cap st) (ww x) (wdl x) now with
    | DGrant => (mkS (mplus (held st) (ww x)) (cap st) (waiting st) rest, [ORet (wid x) true])
    | DRefuse => (mkS (held st) (cap st) (waiting st) rest, [ORet (wid x) false])
    | DBlock => (mkS (held st) (cap st) (waiting st ++ [x]) rest, [OBlock (wid x)])
    end.
Proof.
  intros Hc H Hin. apply (sem_wake c); auto using reachable_u_reachable.
  pose proof (reachable_u_uniq _ _ H) as Hu. unfold uniq, pending in Hu. rewrite map_app in Hu.
  now apply nodup_app_r in Hu.
Qed.

(* "as soon as enough is released", the no-competitor case: a pending caller whose request fits after a
   Release is granted the first time it runs, if nothing else happens in between *)
Lemma sem_release_then_wake c st now now' w x :
  m_wf c -> reachable_u c st -> m_wf w -> In x (pending st) ->
  fits (held (fst (step true st now (ERelease w)))) (ww x) (cap st) ->
  exists st', step true (fst (step true st now (ERelease w))) now' (EWake (wid x)) = (st', [ORet (wid x) true]).
Proof.
  intros Hc H Hw Hin Hfit.
  assert (H1 : reachable_u c (fst (step true st now (ERelease w)))) by (apply reach_u_step; [assumption | exact Hw | exact I]).
  pose proof (sem_release st now w) as Hr.
  destruct (step true st now (ERelease w)) as [st1 o] eqn:E. cbn [fst] in *.
  destruct Hr as (_ & Hwk & Hcap & _).
  assert (Hin1 : In x (woken st1)).
  { rewrite Hwk. apply in_pending_app in Hin. apply in_app_iff. tauto. }
  destruct (sem_wake_u c st1 now' x Hc H1 Hin1) as (rest & _ & Es). rewrite Es.
  unfold decide. rewrite Hcap. apply fitsb_spec in Hfit. rewrite Hfit. eauto.
Qed.

(* ====================== round 2: the replay scheduler reaches quiescence ====================== *)
(* After every script instant handled by [sim_script] (repaired code): nobody is runnable, and every
   blocked caller still has its deadline ahead - together with C30_no_fitting_waiter (its request does
   not fit and does not exceed the capacity) this is the "pending" clause of the acceptor, for ALL
   scripts: whoever has not returned at the end of an instant is rightly still waiting. *)

Definition quiet (st : state) (now : Z) : Prop :=
  woken st = [] /\ forall x, In x (waiting st) -> (now < wdl x)%Z.

Lemma pick_in prefer l id : pick prefer l = Some id -> exists x, In x l /\ wid x = id.
Proof.
  unfold pick. destruct (find _ l) as [x|] eqn:F.
  - intros H; inversion H; subst. apply find_some in F. exists x. tauto.
  - destruct l as [|x r]; [discriminate|]. intros H; inversion H. exists x. cbn; auto.
Qed.

(* one wake-up at time [now]: the woken list loses exactly one element, which returns or is blocked
   again with its deadline ahead *)
Lemma wake_shape st now id x r :
  take_waiter id (woken st) = Some (x, r) ->
  let st' := fst (step true st now (EWake id)) in
  woken st' = r /\ (waiting st' = waiting st \/ (waiting st' = waiting st ++ [x] /\ (now < wdl x)%Z)).
Proof.
  intros T. cbn [step]. rewrite T. unfold loop_body. cbn [held cap waiting woken].
  destruct (try_acquire _ _ _ _); cbn [fst woken waiting]; [auto|].
  destruct (mgt_any (ww x) (cap st) || expired true now (wdl x)) eqn:E; cbn [fst woken waiting]; [auto|].
  split; [reflexivity|]. right. split; [reflexivity|].
  apply orb_false_iff in E. destruct E as [_ E]. unfold expired in E. lia.
Qed.

(* draining: nobody runnable afterwards; the blocked callers are the old ones plus re-blocked ones
   (deadline ahead), and together with those that returned they are the old blocked + runnable ones *)
Lemma drain_quiet prefer now fuel : forall s,
  (length (woken (fst (fst s))) <= fuel)%nat ->
  let s' := drain true prefer fuel s now in
  woken (fst (fst s')) = [] /\
  exists kept gone,
    waiting (fst (fst s')) = waiting (fst (fst s)) ++ kept /\
    (forall y, In y kept -> (now < wdl y)%Z) /\
    Permutation (kept ++ gone) (woken (fst (fst s))).
Proof.
  induction fuel as [|f IH]; intros s Hlen; cbn [drain].
  - assert (E : woken (fst (fst s)) = []) by (destruct (woken (fst (fst s))); [reflexivity | cbn in Hlen; lia]).
    split; [exact E|]. exists [], []. rewrite app_nil_r, E. repeat split; [intros y [] | constructor].
  - destruct (pick prefer (woken (fst (fst s)))) as [id|] eqn:P.
    + destruct (pick_in _ _ _ P) as (x & Hx & Hid).
      destruct s as [[st tr] ob]. cbn [fst] in *.
      destruct (take_waiter id (woken st)) as [[y r]|] eqn:T.
      2:{ exfalso. exact (take_waiter_none _ _ T x Hx Hid). }
      pose proof (wake_shape st now id y r T) as Hw. cbn zeta in Hw. destruct Hw as [Hw1 Hw2].
      pose proof (take_waiter_perm _ _ _ _ T) as Hp.
      pose proof (Permutation_length Hp) as Hl. cbn [length] in Hl.
      unfold sim_step. destruct (step true st now (EWake id)) as [st1 o] eqn:Es. cbn [fst] in Hw1, Hw2.
      specialize (IH (st1, (now, EWake id) :: tr, rev (flat_map (obs_of now) o) ++ ob)). cbn [fst] in IH.
      assert (Hlen1 : (length (woken st1) <= f)%nat) by (rewrite Hw1; lia).
      destruct (IH Hlen1) as (H1 & kept & gone & H2 & H3 & H4). split; [exact H1|].
      rewrite Hw1 in H4.
      destruct Hw2 as [Ew | [Ew Hdl]].
      * exists kept, (y :: gone). rewrite H2, Ew. split; [reflexivity|]. split; [exact H3|].
        eapply perm_trans; [apply Permutation_sym, Permutation_middle|].
        eapply perm_trans; [apply perm_skip, H4 | apply Permutation_sym, Hp].
      * exists (y :: kept), gone. rewrite H2, Ew, <- app_assoc. split; [reflexivity|].
        split; [intros z [<-|Hz]; auto|].
        cbn [app]. eapply perm_trans; [apply perm_skip, H4 | apply Permutation_sym, Hp].
    + assert (E : woken (fst (fst s)) = []).
      { unfold pick in P. destruct (find _ _); [discriminate|]. destruct (woken (fst (fst s))); [reflexivity | discriminate]. }
      split; [exact E|]. exists [], []. rewrite app_nil_r, E. repeat split; [intros y [] | constructor].
Qed.

Lemma min_waiter_spec l x : min_waiter l = Some x -> In x l /\ forall y, In y l -> (wdl x <= wdl y)%Z.
Proof.
  revert x. induction l as [|a l IH]; intros x H; cbn in H; [discriminate|].
  destruct (min_waiter l) as [m|] eqn:M.
  - destruct (IH m eq_refl) as [H1 H2]. destruct (wdl m <? wdl a)%Z eqn:E; inversion H; subst.
    + split; [right; assumption|]. intros y [<-|Hy]; [lia | auto].
    + split; [left; reflexivity|]. intros y [<-|Hy]; [lia | specialize (H2 y Hy); lia].
  - inversion H; subst. destruct l as [|b l].
    + split; [left; reflexivity|]. intros y [<-|[]]. lia.
    + exfalso. cbn in M. destruct (min_waiter l); [destruct (_ <? _)%Z|]; discriminate.
Qed.

Lemma min_waiter_none l : min_waiter l = None -> l = [].
Proof. destruct l as [|a l]; [reflexivity|]. cbn. destruct (min_waiter l); [destruct (_ <? _)%Z|]; discriminate. Qed.

(* timers due up to T: afterwards quiet at T, given enough fuel *)
Lemma fire_timers_quiet prefer T fuel : forall s t0,
  quiet (fst (fst s)) t0 -> (length (waiting (fst (fst s))) < fuel)%nat ->
  quiet (fst (fst (fire_timers true prefer fuel s (Some T)))) T.
Proof.
  induction fuel as [|f IH]; intros s t0 [Hw Hd] Hlen; [lia|]. cbn [fire_timers].
  destruct (min_waiter (waiting (fst (fst s)))) as [x|] eqn:M.
  2:{ split; [exact Hw|]. rewrite (min_waiter_none _ M). intros y []. }
  destruct (min_waiter_spec _ _ M) as [Hx Hmin].
  destruct (wdl x <=? T)%Z eqn:Ed.
  2:{ split; [exact Hw|]. intros y Hy. specialize (Hmin y Hy). lia. }
  destruct s as [[st tr] ob]. cbn [fst] in *.
  unfold drain_all, sim_step. cbn [step fst snd]. cbn [flat_map rev app].
  set (s1 := (broadcast st, (wdl x, ETimer (wid x)) :: tr, ob)).
  pose proof (drain_quiet prefer (wdl x) (length (woken (fst (fst s1)))) s1 (le_n _)) as Hq.
  cbn zeta in Hq. destruct Hq as (Hq1 & kept & gone & Hq2 & Hq3 & Hq4).
  set (s2 := drain true prefer (length (woken (fst (fst s1)))) s1 (wdl x)) in *.
  unfold s1 in Hq2, Hq4. cbn [fst broadcast waiting woken] in Hq2, Hq4. rewrite Hw in Hq4. cbn [app] in Hq2, Hq4.
  apply (IH s2 (wdl x)).
  - split; [exact Hq1|]. rewrite Hq2. exact Hq3.
  - (* x is not kept (its deadline is not ahead of itself), so at least one caller is gone *)
    rewrite Hq2. pose proof (Permutation_length Hq4) as Hl. rewrite app_length in Hl.
    assert (Hg : gone <> []).
    { intros ->. rewrite app_nil_r in Hq4. apply Permutation_sym in Hq4.
      pose proof (Permutation_in _ Hq4 Hx) as Hk. specialize (Hq3 x Hk). lia. }
    destruct gone; [contradiction | cbn in Hl; lia].
Qed.

Lemma drain_all_quiet prefer now s :
  (forall y, In y (waiting (fst (fst s))) -> (now < wdl y)%Z) ->
  quiet (fst (fst (drain_all true prefer s now))) now.
Proof.
  intros Hd. unfold drain_all.
  destruct (drain_quiet prefer now (length (woken (fst (fst s)))) s (le_n _)) as (H1 & kept & gone & H2 & H3 & _).
  split; [exact H1|]. rewrite H2. intros y Hy. apply in_app_iff in Hy. destruct Hy; auto.
Qed.

Lemma loop_body_waiting st now x y :
  In y (waiting (fst (loop_body true st now x))) -> In y (waiting st) \/ (now < wdl y)%Z.
Proof.
  unfold loop_body. destruct (try_acquire _ _ _ _); cbn [fst waiting]; [auto|].
  destruct (mgt_any (ww x) (cap st) || expired true now (wdl x)) eqn:E; cbn [fst waiting]; [auto|].
  intros Hy. apply in_app_iff in Hy. destruct Hy as [Hy | [<- | []]]; [auto | right].
  apply orb_false_iff in E. destruct E as [_ E]. unfold expired in E. lia.
Qed.

(* one script instant of the replay scheduler: due timers, the scripted call, everybody woken runs *)
Definition sim_instant (prefer : list N) (s : sim) (now : Z) (op : sop) : sim :=
  sim_op true prefer (timers true prefer s (Some now)) now op.

Lemma sim_instant_quiet prefer s t0 now op :
  quiet (fst (fst s)) t0 -> quiet (fst (fst (sim_instant prefer s now op))) now.
Proof.
  intros Hq. unfold sim_instant, timers.
  pose proof (fire_timers_quiet prefer now (S (length (waiting (fst (fst s))))) s t0 Hq (Nat.lt_succ_diag_r _)) as H.
  destruct (fire_timers true prefer (S (length (waiting (fst (fst s))))) s (Some now)) as [[st tr] ob].
  cbn [fst] in H. destruct H as [Hw Hd].
  destruct op as [id w timeout | w | w | | ]; cbn [sim_op].
  - apply drain_all_quiet. unfold sim_step. cbn [step].
    pose proof (loop_body_waiting st now (mkW id w (now + timeout)%Z)) as Hl.
    destruct (loop_body true st now (mkW id w (now + timeout)%Z)) as [st1 o]. cbn [fst] in *.
    intros y Hy. destruct (Hl y Hy); auto.
  - apply drain_all_quiet. unfold sim_step. cbn [step].
    destruct (try_acquire true (held st) (cap st) w); cbn [fst waiting]; exact Hd.
  - unfold sim_step. cbn [step]. unfold release.
    destruct (mlt_any (held st) w); apply drain_all_quiet; cbn; intros y [].
  - apply drain_all_quiet. unfold sim_step. cbn [step fst broadcast waiting]. intros y [].
  - cbn [fst]. split; assumption.
Qed.

Lemma sim_script_unfold fx prefer s now op sc :
  sim_script fx prefer s ((now, op) :: sc) = sim_script fx prefer (sim_op fx prefer (timers fx prefer s (Some now)) now op) sc.
Proof. reflexivity. Qed.

Lemma quiet_init c t : quiet (init c) t.
Proof. split; [reflexivity | intros y []]. Qed.

(* with all timers delivered, everybody returns: the repaired model never reports BNever *)
Lemma fire_timers_all prefer fuel : forall s t0,
  quiet (fst (fst s)) t0 -> (length (waiting (fst (fst s))) < fuel)%nat ->
  let st' := fst (fst (fire_timers true prefer fuel s None)) in waiting st' = [] /\ woken st' = [].
Proof.
  induction fuel as [|f IH]; intros s t0 [Hw Hd] Hlen; [lia|]. cbn [fire_timers].
  destruct (min_waiter (waiting (fst (fst s)))) as [x|] eqn:M.
  2:{ split; [exact (min_waiter_none _ M) | exact Hw]. }
  destruct (min_waiter_spec _ _ M) as [Hx Hmin].
  destruct s as [[st tr] ob]. cbn [fst] in *.
  unfold drain_all, sim_step. cbn [step fst snd]. cbn [flat_map rev app].
  set (s1 := (broadcast st, (wdl x, ETimer (wid x)) :: tr, ob)).
  pose proof (drain_quiet prefer (wdl x) (length (woken (fst (fst s1)))) s1 (le_n _)) as Hq.
  cbn zeta in Hq. destruct Hq as (Hq1 & kept & gone & Hq2 & Hq3 & Hq4).
  set (s2 := drain true prefer (length (woken (fst (fst s1)))) s1 (wdl x)) in *.
  unfold s1 in Hq2, Hq4. cbn [fst broadcast waiting woken] in Hq2, Hq4. rewrite Hw in Hq4. cbn [app] in Hq2, Hq4.
  apply (IH s2 (wdl x)).
  - split; [exact Hq1|]. rewrite Hq2. exact Hq3.
  - rewrite Hq2. pose proof (Permutation_length Hq4) as Hl. rewrite app_length in Hl.
    assert (Hg : gone <> []).
    { intros ->. rewrite app_nil_r in Hq4. apply Permutation_sym in Hq4.
      pose proof (Permutation_in _ Hq4 Hx) as Hk. specialize (Hq3 x Hk). lia. }
    destruct gone; [contradiction | cbn in Hl; lia].
Qed.

Lemma sim_script_all_return prefer sc : forall s t0,
  quiet (fst (fst s)) t0 ->
  let st' := fst (fst (sim_script true prefer s sc)) in waiting st' = [] /\ woken st' = [].
Proof.
  induction sc as [|[now op] sc IH]; intros s t0 Hq.
  - cbn [sim_script]. unfold timers. apply (fire_timers_all prefer _ s t0 Hq). apply Nat.lt_succ_diag_r.
  - rewrite sim_script_unfold. apply (IH _ now). exact (sim_instant_quiet prefer s t0 now op Hq).
Qed.

Lemma simulate_all_return c prefer sc :
  let '(st, tr, ob) := sim_script true prefer (init c, [], []) sc in waiting st = [] /\ woken st = [].
Proof.
  pose proof (sim_script_all_return prefer sc (init c, [], []) 0%Z (quiet_init c 0%Z)) as H. cbn zeta in H.
  destruct (sim_script true prefer (init c, [], []) sc) as [[st tr] ob]. exact H.
Qed.

(* ====================== round 3: every scheduler instant satisfies the acceptor's clauses ====================== *)
(* The acceptor (spec_check) judges each instant by: exact accounting of the grants, the bound, refusals
   justified, pending callers justified.  Here the same clauses are proved of the model for every
   instant the replay scheduler goes through, for ALL scripts and wake orders. *)

Definition msum (h : metric) (l : list waiter) : metric := fold_left (fun a x => mplus a (ww x)) l h.

Lemma msum_app h l1 l2 : msum h (l1 ++ l2) = msum (msum h l1) l2.
Proof. unfold msum. apply fold_left_app. Qed.

Lemma mle_mplus h w : mle h (mplus h w).
Proof. unfold mle, mplus. cbn. lia. Qed.
Lemma mle_trans a b c : mle a b -> mle b c -> mle a c.
Proof. unfold mle. lia. Qed.
Lemma mle_refl a : mle a a.
Proof. unfold mle. lia. Qed.

Lemma fitsb_false_mono h h' w c : mle h h' -> fitsb h w c = false -> fitsb h' w c = false.
Proof. unfold mle, fitsb. lia. Qed.

Lemma mplus_swap h a b : mplus (mplus h a) b = mplus (mplus h b) a.
Proof. destruct h, a, b. unfold mplus. cbn. f_equal; lia. Qed.

Lemma msum_perm l1 l2 : Permutation l1 l2 -> forall h, msum h l1 = msum h l2.
Proof.
  intros P. induction P; intros h; cbn; auto.
  - apply IHP.
  - unfold msum. cbn [fold_left]. now rewrite mplus_swap.
  - now rewrite IHP1.
Qed.

(* what the drain of one instant at time [now] leaves behind *)
Record drained (c : metric) (now : Z) (s s' : state) (kept granted refused : list waiter) : Prop := {
  dr_woken : woken s' = [];
  dr_waiting : waiting s' = waiting s ++ kept;
  dr_cap : cap s' = cap s;
  dr_perm : Permutation (kept ++ granted ++ refused) (woken s);
  dr_held : held s' = msum (held s) granted;                       (* exact accounting, no wrap-around *)
  dr_bound : mle (held s') c;
  dr_refused : forall x, In x refused ->
      fitsb (held s') (ww x) (cap s) = false /\ (exceedsb (ww x) (cap s) = true \/ (wdl x <= now)%Z);
  dr_kept : forall x, In x kept ->
      fitsb (held s') (ww x) (cap s) = false /\ exceedsb (ww x) (cap s) = false /\ (now < wdl x)%Z
}.

Lemma msum_mle h l : mle h (msum h l).
Proof.
  revert h. induction l as [|x l IH]; intros h; cbn; [apply mle_refl|].
  eapply mle_trans; [apply mle_mplus | apply IH].
Qed.

Lemma drain_clauses c prefer now fuel : forall s,
  inv c (fst (fst s)) -> (length (woken (fst (fst s))) <= fuel)%nat ->
  let s' := drain true prefer fuel s now in
  inv c (fst (fst s')) /\
  exists kept granted refused, drained c now (fst (fst s)) (fst (fst s')) kept granted refused.
Proof.
  induction fuel as [|f IH]; intros s Hinv Hlen; cbn [drain].
  - assert (E : woken (fst (fst s)) = []) by (destruct (woken (fst (fst s))); [reflexivity | cbn in Hlen; lia]).
    split; [exact Hinv|]. exists [], [], []. constructor; cbn [app]; auto.
    + now rewrite app_nil_r. + rewrite E. constructor. + destruct Hinv as (_ & H & _). exact H.
    + intros x []. + intros x [].
  - destruct (pick prefer (woken (fst (fst s)))) as [id|] eqn:P.
    2:{ assert (E : woken (fst (fst s)) = []).
        { unfold pick in P. destruct (find _ _); [discriminate|]. destruct (woken (fst (fst s))); [reflexivity | discriminate]. }
        split; [exact Hinv|]. exists [], [], []. constructor; cbn [app]; auto.
        + now rewrite app_nil_r. + rewrite E. constructor. + destruct Hinv as (_ & H & _). exact H.
        + intros x []. + intros x []. }
    destruct (pick_in _ _ _ P) as (x0 & Hx0 & Hid).
    destruct s as [[st tr] ob]. cbn [fst] in *.
    destruct (take_waiter id (woken st)) as [[y r]|] eqn:T.
    2:{ exfalso. exact (take_waiter_none _ _ T x0 Hx0 Hid). }
    destruct (take_waiter_some _ _ _ _ T) as (Hy1 & Hy2 & Hy3 & Hy4 & Hy5).
    pose proof (take_waiter_perm _ _ _ _ T) as Hp.
    pose proof (Permutation_length Hp) as Hl. cbn [length] in Hl.
    (* the step *)
    assert (Hinv0 : inv c (mkS (held st) (cap st) (waiting st) r)).
    { eapply inv_sub; [exact Hinv | reflexivity | reflexivity |].
      intros z Hz. apply in_pending_app in Hz. cbn [waiting woken] in Hz. apply in_pending_app. destruct Hz; auto. }
    assert (Hwy : m_wf (ww y)) by (destruct Hinv as (_ & _ & _ & Hwf & _); apply Hwf, in_pending_app; auto).
    pose proof (inv_step c st now (EWake id) Hinv I) as Hinv1.
    unfold sim_step. cbn [step] in *. rewrite T in *.
    rewrite (loop_body_decide c _ _ _ Hinv0 Hwy) in *. cbn [held cap waiting woken] in *.
    unfold decide in *.
    destruct (fitsb (held st) (ww y) (cap st)) eqn:Ef.
    + (* granted *)
      cbn [fst snd] in *.
      set (st1 := mkS (mplus (held st) (ww y)) (cap st) (waiting st) r) in *.
      specialize (IH (st1, (now, EWake id) :: tr, rev (flat_map (obs_of now) [ORet (wid y) true]) ++ ob)). cbn [fst] in IH.
      destruct (IH Hinv1 ltac:(unfold st1; cbn; lia)) as (Hi' & kept & granted & refused & D). split; [exact Hi'|].
      destruct D as [D1 D2 D3 D4 D5 D6 D7 D8]. unfold st1 in *. cbn [held cap waiting woken] in *.
      exists kept, (y :: granted), refused. constructor; auto.
      * eapply perm_trans; [|apply Permutation_sym, Hp].
        eapply perm_trans; [apply Permutation_sym, Permutation_middle|]. apply perm_skip. exact D4.
    + destruct (exceedsb (ww y) (cap st) || (wdl y <=? now)%Z) eqn:Ee.
      * (* refused *)
        cbn [fst snd] in *.
        set (st1 := mkS (held st) (cap st) (waiting st) r) in *.
        specialize (IH (st1, (now, EWake id) :: tr, rev (flat_map (obs_of now) [ORet (wid y) false]) ++ ob)). cbn [fst] in IH.
        destruct (IH Hinv1 ltac:(unfold st1; cbn; lia)) as (Hi' & kept & granted & refused & D). split; [exact Hi'|].
        destruct D as [D1 D2 D3 D4 D5 D6 D7 D8]. unfold st1 in *. cbn [held cap waiting woken] in *.
        exists kept, granted, (y :: refused). constructor; auto.
        -- eapply perm_trans; [|apply Permutation_sym, Hp].
           rewrite app_assoc. eapply perm_trans; [apply Permutation_sym, Permutation_middle|]. apply perm_skip.
           rewrite <- app_assoc. exact D4.
        -- intros z [<-|Hz]; [|auto]. split.
           ++ eapply fitsb_false_mono; [|exact Ef]. rewrite D5. apply msum_mle.
           ++ apply orb_true_iff in Ee. destruct Ee as [Ee|Ee]; [left; exact Ee | right; lia].
      * (* blocked again *)
        cbn [fst snd] in *.
        set (st1 := mkS (held st) (cap st) (waiting st ++ [y]) r) in *.
        specialize (IH (st1, (now, EWake id) :: tr, rev (flat_map (obs_of now) [OBlock (wid y)]) ++ ob)). cbn [fst] in IH.
        destruct (IH Hinv1 ltac:(unfold st1; cbn; lia)) as (Hi' & kept & granted & refused & D). split; [exact Hi'|].
        destruct D as [D1 D2 D3 D4 D5 D6 D7 D8]. unfold st1 in *. cbn [held cap waiting woken] in *.
        exists (y :: kept), granted, refused. constructor; auto.
        -- rewrite D2, <- app_assoc. reflexivity.
        -- cbn [app]. eapply perm_trans; [apply perm_skip, D4 | apply Permutation_sym, Hp].
        -- apply orb_false_iff in Ee. destruct Ee as [Ee1 Ee2].
           intros z [<-|Hz]; [|auto]. split; [|split; [exact Ee1 | lia]].
           eapply fitsb_false_mono; [|exact Ef]. rewrite D5. apply msum_mle.
Qed.

(* one scheduler instant: a first event (scripted call or timer callback) and then everybody woken runs *)
Lemma instant_clauses c prefer s now e0 :
  inv c (fst (fst s)) -> ev_wf e0 ->
  let s1 := sim_step true s now e0 in
  let s' := drain_all true prefer s1 now in
  inv c (fst (fst s')) /\
  exists kept granted refused, drained c now (fst (fst s1)) (fst (fst s')) kept granted refused.
Proof.
  intros Hinv Hwf. cbn zeta. unfold drain_all. apply drain_clauses; [|apply le_n].
  destruct s as [[st tr] ob]. unfold sim_step. cbn [fst].
  pose proof (inv_step c st now e0 Hinv Hwf) as H. destruct (step true st now e0) as [st1 o]. exact H.
Qed.
