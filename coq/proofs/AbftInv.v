(* Round 2: the instance invariant J that ties the model state to the graph of accepted events:
   the vector index satisfies vecidx' invariant [vinv] (so its answers ARE the graph definitions,
   C05/C06), the indexed ids are the accepted ids, every accepted event has frame >= 1, and the
   root table holds exactly the root slots of the accepted events: (g, creator e, id e) for
   self-parent-frame(e) < g <= frame(e).  J holds at genesis and is preserved by every operation of
   model/AbftRun.v, provided the events offered to Process are well-formed for the index
   (wf_new: the eventcheck facts seq = self-parent's seq + 1 etc.; vecidx' hypothesis). *)
From Coq Require Import NArith ZArith List Lia Bool ZifyBool ZifyN ZifyNat.
From LV Require Import model.VecIndex spec.FcSpec model.Abft model.AbftRun
  proofs.FcSpecFacts proofs.VecInv proofs.VecStep proofs.VecMain
  proofs.AbftStruct proofs.AbftFrame proofs.AbftBuild proofs.AbftSeal proofs.AbftProcess proofs.AbftChain
  proofs.AbftInvLemmas.
Import ListNotations.
Local Open Scope N_scope.

(* frame of the self-parent in the application's event store (0 if none) *)
Definition spf_in (es : estore) (e : aevent) : N :=
  match a_self_parent e with
  | Some sp => match get_event es sp with Some pe => a_frame pe | None => 0 end
  | None => 0 end.

(* r is a root slot of the accepted event e *)
Definition slot_of (es : estore) (e : aevent) (r : root) : Prop :=
  spf_in es e < r_frame r <= a_frame e /\ r_val r = a_creator e /\ r_id r = a_id e.

Record J (i : inst) : Prop := {
  j_vinv : vinv (length (l_vals (i_st i))) (l_idx (i_st i));
  j_vals : NoDup (v_ids (l_vals (i_st i)));
  j_proc : forall id, In id (i_proc i) <-> exists ev, evt (l_idx (i_st i)) id ev;
  j_ev : forall id, In id (i_proc i) ->
         exists e, get_event (i_es i) id = Some e /\ a_id e = id /\ 1 <= a_frame e /\
                   v_exists (l_vals (i_st i)) (a_creator e) = true /\
                   (forall p, In p (a_parents e) -> In p (i_proc i));
  j_roots : forall r, In r (l_roots (i_st i)) <->
            exists e, In (a_id e) (i_proc i) /\ get_event (i_es i) (a_id e) = Some e /\ slot_of (i_es i) e r }.

(* stateful versions of the structural facts about calcFrameIdx *)
Section Inv.
Variable cap : nat.

Lemma calc_loop_ge e maxf : forall fuel st f f' st', calc_loop cap fuel st e f maxf = (Some f', st') -> f <= f'.
Proof.
  induction fuel as [|fu IH]; intros st f f' st' H; cbn [calc_loop] in H; [discriminate|].
  destruct (negb (f <? maxf)); [inversion H; lia|].
  destruct (fc_by_quorum_on cap st e f) as [b st1]. destruct b; [apply IH in H; lia | inversion H; lia].
Qed.
Lemma calc_frame_struct es st e co spf fr st' : calc_frame cap es st e co = (Ok (spf, fr), st') ->
  1 <= fr /\ spf <= fr /\ spf_of es e = Ok spf.
Proof.
  unfold calc_frame, spf_of.
  destruct (match a_self_parent e with
            | Some sp => match get_event es sp with Some pe => Ok (a_frame pe) | None => Err EPanic end
            | None => Ok 0 end) as [spf0|x] eqn:S; [|discriminate].
  destruct (calc_loop cap (roots_fuel st) st e spf0 (if co then a_frame e else spf0 + 100)) as [[f|] st1] eqn:C; [|discriminate].
  intros H; inversion H; subst. apply calc_loop_ge in C. destruct (f =? 0) eqn:Z; repeat split; auto; lia.
Qed.

Lemma spf_of_in es e spf : spf_of es e = Ok spf -> spf_in es e = spf.
Proof.
  unfold spf_of, spf_in. destruct (a_self_parent e) as [sp|]; [|intros H; inversion H; reflexivity].
  destruct (get_event es sp); intros H; inversion H; reflexivity.
Qed.

(* what an accepting Process call did *)
Lemma process_ok_shape eb es st e u bl st' : process cap eb es st e = (Ok u, bl, st') ->
  exists s' spf c1, add (l_idx st) (vev (l_vals st) e) = Some s' /\ spf_of es e = Ok spf /\
    spf <= a_frame e /\ 1 <= a_frame e /\
    let x := set_fcc (set_idx st s') c1 in
    let st2 := if spf =? a_frame e then x else add_roots x spf e in
    exists r2, handle_election cap eb (S (S (N.to_nat (a_frame e - spf)))) es st2 e (spf + 1) [] = (r2, bl, st').
Proof.
  intros E. unfold process in E.
  destruct (add (l_idx st) (vev (l_vals st) e)) as [s'|]; [|discriminate].
  destruct (calc_frame_keys cap es (set_idx st s') e true) as [c1 [S1 _]].
  destruct (calc_frame cap es (set_idx st s') e true) as [[[spf fr]|x] st1] eqn:CF; cbn [snd] in S1; subst st1; [|discriminate].
  destruct (calc_frame_struct _ _ _ _ _ _ _ CF) as (F1&F2&F3).
  destruct (a_frame e =? fr) eqn:EQ; cbn [negb] in E; [|discriminate]. apply N.eqb_eq in EQ. subst fr.
  exists s', spf, c1. repeat split; auto. cbn zeta.
  destruct (handle_election cap eb _ es _ e (spf + 1) []) as [[r2 bl2] st3]. exists r2.
  destruct r2; inversion E; reflexivity.
Qed.

Lemma chain_sealed_reset_eb eb es st bl st' :
  chain eb es st bl st' -> existsb is_sealed bl = true ->
  exists st1 ep nv a1 a2 a3 a4 a5, st' = reset st1 ep nv /\ eb a1 a2 a3 a4 a5 = Some nv.
Proof.
  intros C. induction C as [st st' S | st st1 f a b st2 S Hf OF | st st1 f a b st2 t st' S Hf OF C IH]; intros Hs.
  - discriminate.
  - unfold on_frame_decided in OF. pose proof (apply_atropos_shape eb es st1 f a) as H.
    destruct (apply_atropos eb es st1 f a) as [[blk|x] st1']; [|discriminate].
    destruct H as [[conf' ->] [_ [_ Hs2]]]. destruct (b_seal blk) as [nv|] eqn:Sb; inversion OF; subst.
    do 8 eexists. split; [reflexivity|]. symmetry. exact Hs2.
  - cbn [existsb] in Hs. apply no_seal_state in OF as (Sb&_). unfold is_sealed in Hs at 1. rewrite Sb in Hs. cbn [orb] in Hs. auto.
Qed.

End Inv.
