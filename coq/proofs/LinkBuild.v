(* L1, brick 9: the Build step.  IndexedLachesis.Build on the next event of a valid run returns the
   reference's highest allowed frame (frame_high) and leaves nothing behind but forkless-cause cache
   entries under the temporary id and the incremented counter; the simulation is kept. *)
From Coq Require Import NArith ZArith List Lia Bool ZifyBool ZifyN ZifyNat.
From LV Require Import lib.Bytes lib.VecListFacts model.Codec model.VecIndex spec.FcSpec model.Abft model.AbftRun spec.ElectionSpec
  lib.WSumBft proofs.FcSpecFacts proofs.VecInv proofs.VecStep proofs.VecMain
  proofs.AbftFrame proofs.AbftCount proofs.AbftIds proofs.AbftBuild proofs.AbftInvLemmas
  proofs.BftCore proofs.BftElection proofs.BftMono proofs.BftGraph proofs.BftMain proofs.BftRun proofs.BftFcSpec proofs.BftAccept
  proofs.LinkVals proofs.LinkDefs proofs.LinkSim proofs.LinkFrame proofs.LinkTally proofs.LinkVote proofs.LinkCheat
  proofs.LinkElect proofs.LinkMono proofs.LinkStep proofs.LinkRename.
Import ListNotations.
Local Open Scope N_scope.

Section Build.
Variable cap : nat.
Variable ep : N.
Variable lam : fev -> N.
Variable vals : list (N * N).
Hypothesis Hvals : vals_ok vals.
Variable J : N -> Prop.
Variable K : N.
Hypothesis HJ : forall a, J a -> id_fresh K a.   (* no rejected id looks like a temporary id *)

Notation ws := (map snd vals).
Notation nv := (length vals).
Notation ae := (to_aevent ep lam vals).
Notation Core := (Core ep lam vals).
Notation cache_inv := (cache_inv vals).
Notation Sim := (Sim ep lam vals J K).

Lemma build_step i T Dr B e : Sim i T Dr B ->
  parents_known T e -> (ecr (fe e) < nv)%nat -> ev_wf T e -> nlookup (eid (fe e)) T = None ->
  r_frame_ok vals T (mk_node nv T e) = true -> l_ctr (i_st i) + 1 < 2 ^ 192 -> l_ctr (i_st i) + 1 <= K ->
  exists i', step cap [] sample i (OpB (ae e)) = (ObsB (Ok (r_frame_high vals T (mk_node nv T e))), i', false) /\
    Sim i' T Dr B /\ l_ctr (i_st i') = l_ctr (i_st i) + 1.
Proof.
  intros [W [S [ES0 AV]] FR CT PR SG CH] PK CR EW NL FO Hctr HK.
  set (st := i_st i) in *. set (es := i_es i) in *.
  destruct ES0 as [C CI I0 N0].
  pose proof (wfTD_wfT vals T Dr W) as HwfT.
  (* the guard (no duplicate check for Build) *)
  assert (G : guard i (ae e) false = None).
  { unfold guard. fold st. cbn [andb to_aevent a_id a_epoch a_parents a_creator].
    rewrite (co_epoch _ _ _ _ _ _ _ _ C), N.eqb_refl. cbn [negb].
    replace (forallb (fun p => AbftRun.mem p (i_proc i)) (epar (fe e))) with true.
    2:{ symmetry. apply forallb_forall. intros p Hp. apply mem_true, PR. destruct (PK p Hp) as [m L].
        apply nlookup_some in L as [Hm Em]. destruct (node_event vals T Dr m W Hm) as [e0 [He0 [E0 _]]].
        unfold ids_of. apply in_map_iff. exists e0. split; [congruence | exact He0]. }
    cbn [negb]. rewrite (co_vals _ _ _ _ _ _ _ _ C), (v_exists_vid vals _ (vals_nodup vals Hvals) CR). reflexivity. }
  cbn [step]. rewrite G. fold st es.
  unfold build_with. set (c := l_ctr st + 1).
  assert (Sc : sample c = Some (be 24 c)).
  { unfold sample. replace (2 ^ 192 <=? c) with false by (symmetry; apply N.leb_gt; exact Hctr). reflexivity. }
  rewrite Sc. cbn [to_aevent a_epoch a_lamport].
  set (tmp := mk_id_bytes ep (lam e) (be 24 c)).
  set (e' := {| fe := {| eid := tmp; ecr := ecr (fe e); eseq := eseq (fe e); epar := epar (fe e) |}; ffr := ffr e |}).
  set (x := set_id (ae e) tmp).
  (* the temporary id is not the id of an indexed event, nor an older temporary id *)
  assert (NLt : nlookup tmp T = None).
  { destruct (nlookup tmp T) as [m|] eqn:L; [|reflexivity]. exfalso. apply nlookup_some in L as [Hm Em].
    destruct (node_event vals T Dr m W Hm) as [e0 [He0 [E0 _]]].
    apply (proj1 (FR e0 He0)). exists ep, (lam e), c, (be 24 c). split; [unfold c; lia|]. split; [exact Sc|]. rewrite E0, Em. reflexivity. }
  assert (NTt : ~ stale J (l_ctr st) tmp).
  { intros [(ep0 & lm & c2 & t2 & Bc & S2 & E2)|Jt].
    - apply (temp_id_inj _ _ _ _ _ _ _ _ Sc S2) in E2. unfold c in E2. lia.
    - apply (HJ _ Jt). exists ep, (lam e), c, (be 24 c). split; [unfold c; lia|]. split; [exact Sc | reflexivity]. }
  cbn [l_vals l_idx l_epoch set_ctr].
  rewrite (co_vals _ _ _ _ _ _ _ _ C).
  assert (Vx : vev vals x = fe e').
  { unfold vev, x, set_id, to_aevent. cbn [a_id a_creator a_seq a_parents].
    rewrite (v_idx_vid vals _ (vals_nodup vals Hvals) CR). reflexivity. }
  rewrite Vx.
  assert (EW' : ev_wf T e') by exact EW.
  assert (PK' : parents_known T e') by exact PK.
  pose proof (accepted_wf_new ep lam vals st es T Dr T e' C PK' NLt CR EW') as WN.
  destruct (add_preserves nv (l_idx st) (fe e') (co_vinv _ _ _ _ _ _ _ _ C) WN) as [s' [Hadd [I' Ev']]].
  rewrite Hadd.
  replace (a_epoch x =? l_epoch st) with true by (symmetry; rewrite (co_epoch _ _ _ _ _ _ _ _ C); apply N.eqb_refl).
  replace (v_exists vals (a_creator x)) with true by (symmetry; apply (v_exists_vid vals _ (vals_nodup vals Hvals) CR)).
  cbn [negb orb].
  set (st0 := set_ctr st c).
  set (n' := mk_node nv T e').
  assert (FO' : r_frame_ok vals T n' = true).
  { unfold n'. rewrite (frame_ok_rename vals T HwfT e e' eq_refl eq_refl eq_refl eq_refl NL NLt). exact FO. }
  assert (W' : wfTD vals (n' :: T) (e' :: Dr)) by (constructor; assumption).
  assert (C1 : Core (set_idx st0 s') es (n' :: T) (e' :: Dr) T).
  { destruct C as [A Bv Cc D E F Gs H Ir]. constructor; auto.
    - cbn [l_idx set_idx]. rewrite Ev', E. reflexivity.
    - intros e0 [<-|He0] [m [Hm Em]].
      + exfalso. exact (nlookup_none _ _ NLt m Hm Em).
      + apply F; [exact He0 | exists m; auto].
    - intros y Hy. right. exact Hy. }
  assert (CIa : cache_inv (stale J (l_ctr st)) (set_idx st0 s') (n' :: T) T).
  { intros a b r Hc. destruct (CI a b r Hc) as [Tm|(na & nb & Ia & Ib & R)]; [left; exact Tm|].
    right. exists na, nb. split; [right; exact Ia | auto]. }
  destruct (calc_frame_sim cap ep lam vals Hvals (set_idx st0 s') es (n' :: T) (e' :: Dr) T (stale J (l_ctr st)) (n' :: T) n' x false
              C1 (incl_refl _) (or_introl eq_refl) NTt eq_refl CIa) as [c1 [ECF CI1]].
  rewrite ECF.
  rewrite (frame_build_sim ep lam vals Hvals (set_idx st0 s') es T Dr e' x C1 eq_refl eq_refl).
  fold n'. unfold n'. rewrite (frame_high_rename vals T HwfT e e' eq_refl eq_refl eq_refl eq_refl NL NLt).
  set (st' := set_idx (set_fcc (set_idx st0 s') c1) (l_idx st0)).
  exists {| i_st := st'; i_es := es; i_proc := i_proc i |}. split; [reflexivity|]. split; [|reflexivity].
  assert (Est : st' = set_fcc (set_ctr st c) c1) by (unfold st', st0; destruct st; reflexivity).
  constructor; cbn [i_st i_es i_proc]; auto.
  - rewrite Est. cbn [l_ctr set_fcc set_ctr]. exists S. split; [|exact AV]. constructor.
    + apply Core_fcc, Core_ctr. exact C.
    + intros a b r Hc. cbn [l_fcc set_fcc] in Hc.
      destruct (CI1 a b r Hc) as [Tm|(na & nb & [<-|Ia] & Ib & Ea & Eb & R)].
      * left. destruct Tm as [(ep0 & lm & c2 & t2 & Bc & S2 & E2)|Jn]; [left | right; exact Jn].
        exists ep0, lm, c2, t2. split; [unfold c; lia | auto].
      * left. left. rewrite <- Ea. exists ep, (lam e), c, (be 24 c). split; [unfold c; lia|]. split; [exact Sc | reflexivity].
      * right. exists na, nb. auto.
    + exact I0.
    + exact N0.
Qed.

End Build.
