(* NOT a theorem of record (round 4): the statement below is true BY CONSTRUCTION of the model — OLit
   stores the drained list and [lives_after] erases it exactly for the operations [op_kills_lives]
   names — so it says nothing about flushableIterator or gods' Clear().  It is kept as the
   bookkeeping lemma behind the exact comparison of live iterators in the correspondence; which
   operations keep a live iterator valid is an ASSUMPTION (KvOps.op_kills_lives, KvStack.stack_lsafe)
   that only the differential run supports.
   C22 (round 2): an iterator created at state s and drained later yields the (prefix,start)-filter
   of the view AT s, whatever happened in between as long as nothing it reads from was mutated in
   place: reads, snapshots, batch building, other iterators and — over a stack with one tree-bearing
   layer above an engine ([lsafe]) — Flush and DropNotFlushed. *)
From Coq Require Import NArith List Lia Bool Arith.
From LV Require Import lib.Bytes lib.SortedMap spec.KvSpec spec.KvOps spec.KvStackSpec
  model.PrefixRange model.Table model.Flushable model.KvStack proofs.KvStackReads.
Import ListNotations.

Definition quiet (lsafe : bool) (i : nat) (o : op) : Prop :=
  op_kills_lives lsafe o = false /\
  match o with
  | OLit j _ _ _ => j <> i
  | OLNext j _ => j <> i
  | OLRel j => j <> i
  | _ => True
  end.

Fixpoint run_state (lsafe : bool) (ideal : N) (r : rstate) (ops : list op) : rstate :=
  match ops with
  | [] => r
  | o :: ops' => run_state lsafe ideal (fst (run_op lsafe ideal r o)) ops'
  end.

Lemma nth_set_nth_same {A} (x d : A) : forall i l, nth i (set_nth i x d l) d = x.
Proof. induction i as [|i IH]; intros [|y l]; cbn; auto. Qed.

Lemma nth_set_nth_other {A} (x d : A) : forall j i l, j <> i -> nth i (set_nth j x d l) d = nth i l d.
Proof.
  induction j as [|j IH]; intros [|i] [|y l] H; cbn; auto; try congruence.
  - destruct i; reflexivity.
  - rewrite IH by congruence. destruct i; reflexivity.
Qed.

Lemma run_op_quiet lsafe ideal i r o : quiet lsafe i o ->
  nth i (r_lives (fst (run_op lsafe ideal r o))) None = nth i (r_lives r) None.
Proof.
  intros [K Q]. unfold run_op.
  assert (E : nth i (r_lives (fst (run_op1 ideal r o))) None = nth i (r_lives r) None).
  { destruct o; cbn in Q |- *; auto;
      try (destruct (get_batch r _) as [h0' st0]; reflexivity);
      try (destruct (get_batch r src) as [h1' st1]; destruct (get_batch r dst) as [h2' st2]; reflexivity).
    - now apply nth_set_nth_other.
    - unfold live_next. destruct (nth i0 (r_lives r) None); cbn; auto. now apply nth_set_nth_other.
    - now apply nth_set_nth_other. }
  destruct (run_op1 ideal r o) as [r' out]. cbn in *.
  unfold lives_after. now rewrite K.
Qed.

Lemma run_state_quiet lsafe ideal i ops : forall r, Forall (quiet lsafe i) ops ->
  nth i (r_lives (run_state lsafe ideal r ops)) None = nth i (r_lives r) None.
Proof.
  induction ops as [|o ops IH]; intros r F; [reflexivity|].
  inversion F; subst. cbn [run_state]. rewrite IH by auto. now apply run_op_quiet.
Qed.

Theorem live_iterator_stable lsafe ideal r i h P S mid n :
  wf_st (h_view h (r_store r)) -> wf_bytes (ob P) = true -> Forall (quiet lsafe i) mid ->
  let r1 := fst (run_op lsafe ideal r (OLit i h P S)) in
  let r2 := run_state lsafe ideal r1 mid in
  snd (run_op lsafe ideal r2 (OLNext i n)) =
    [BLive (Some (firstn n (kv_iterate (view (h_view h (r_store r))) (ob P) (ob S))))].
Proof.
  intros W WP F r1 r2.
  assert (E : nth i (r_lives r2) None = Some (kv_iterate (view (h_view h (r_store r))) (ob P) (ob S))).
  { unfold r2. rewrite run_state_quiet by auto. unfold r1, run_op. cbn.
    rewrite nth_set_nth_same. now rewrite st_iter_view. }
  unfold run_op. cbn. unfold live_next. rewrite E. reflexivity.
Qed.

(* Flush and DropNotFlushed are quiet when the stack is live-safe; puts are not *)
Example quiet_flush_drop : quiet true 0 (OFlush 0) /\ quiet true 0 (ODrop 0) /\ quiet true 0 (OSnap h0) /\
  ~ quiet true 0 (OPut h0 [] []) /\ ~ quiet false 0 (OFlush 0).
Proof. repeat split; try (intros [K _]; discriminate K). Qed.
