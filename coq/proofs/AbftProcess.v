(* Process / Build / Bootstrap as state transformers: frame numbering of the emitted blocks
   (C02, C09), and what a Build or a rejected Process leaves behind (C07). *)
From Coq Require Import NArith ZArith List Lia Bool ZifyBool ZifyN ZifyNat.
From LV Require Import model.VecIndex model.Abft proofs.AbftStruct proofs.AbftErrors proofs.AbftFrame proofs.AbftBuild proofs.AbftSeal.
Import ListNotations.
Local Open Scope N_scope.

Section Proc.
Variable cap : nat.
Variable end_block : N -> N -> N -> list N -> list N -> option vals.

(* blocks of one call: consecutive frames from LastDecidedFrame+1, a sealing block is the last;
   afterwards either the next epoch with no decided frame, or the same epoch and validators *)
Definition call_post (st : lstate) (bl : list block) (st' : lstate) : Prop :=
  frames_ok (l_ldf st) bl /\ elinv st' /\
  if sealed_last bl then l_ldf st' = 0 /\ l_epoch st' = l_epoch st + 1
  else l_ldf st' = l_ldf st + N.of_nat (length bl) /\ l_epoch st' = l_epoch st /\ l_vals st' = l_vals st.

Lemma post_call_post st st2 bl st' :
  l_ldf st2 = l_ldf st -> l_epoch st2 = l_epoch st -> l_vals st2 = l_vals st ->
  post st2 bl st' -> call_post st bl st'.
Proof.
  intros L E V [F [I P]]. unfold call_post. rewrite <- L, <- E, <- V. split; [exact F|]. split; [exact I|].
  destruct (sealed_last bl); [exact P|]. destruct P as (P1&P2&P3&_). auto.
Qed.

Lemma call_post_nil st st' : l_ldf st' = l_ldf st -> l_epoch st' = l_epoch st -> l_vals st' = l_vals st ->
  l_el st' = l_el st -> elinv st -> call_post st [] st'.
Proof.
  intros L E V El I. unfold call_post. cbn. split; auto. split; [unfold elinv in *; congruence|].
  repeat split; auto. lia.
Qed.

Theorem process_frames es st e r bl st' :
  elinv st -> process cap end_block es st e = (r, bl, st') -> call_post st bl st'.
Proof.
  intros I E. unfold process in E.
  destruct (add (l_idx st) (vev (l_vals st) e)) as [s'|].
  2:{ inversion E; subst. apply call_post_nil; auto. }
  destruct (calc_frame_keys cap es (set_idx st s') e true) as [c1 [S1 _]].
  destruct (calc_frame cap es (set_idx st s') e true) as [[[spf fr]|x] st1]; cbn [snd] in S1; subst st1.
  - destruct (negb (a_frame e =? fr)).
    { inversion E; subst. apply call_post_nil; auto. }
    set (st2 := if spf =? fr then set_fcc (set_idx st s') c1 else add_roots (set_fcc (set_idx st s') c1) spf e) in *.
    assert (H2 : l_ldf st2 = l_ldf st /\ l_epoch st2 = l_epoch st /\ l_vals st2 = l_vals st /\ l_el st2 = l_el st).
    { unfold st2. destruct (spf =? fr); cbn; auto. }
    destruct H2 as (L2&E2&V2&El2).
    assert (I2 : elinv st2) by (unfold elinv in *; congruence).
    destruct (handle_election cap end_block (S (S (N.to_nat (a_frame e - spf)))) es st2 e (spf + 1) []) as [[r2 bl2] st3] eqn:HE.
    pose proof (handle_election_post cap end_block es e _ _ _ _ _ _ I2 HE) as P.
    assert (bl = bl2 /\ st' = st3) as [-> ->] by (destruct r2; inversion E; auto).
    eapply post_call_post; eauto.
  - inversion E; subst. apply call_post_nil; auto.
Qed.

(* restart: Bootstrap over the persisted state *)
Theorem bootstrap_frames es p r bl st' :
  bootstrap cap end_block es p = (r, bl, st') ->
  frames_ok (p_ldf p) bl /\ elinv st' /\
  if sealed_last bl then l_ldf st' = 0 /\ l_epoch st' = p_epoch p + 1
  else l_ldf st' = p_ldf p + N.of_nat (length bl) /\ l_epoch st' = p_epoch p /\ l_vals st' = p_vals p.
Proof.
  unfold bootstrap. intros E.
  match type of E with bootstrap_election _ _ _ _ ?x _ = _ => set (st0 := x) in * end.
  assert (I0 : elinv st0) by (unfold elinv, st0; cbn; reflexivity).
  destruct (bootstrap_election_post cap end_block es _ _ _ _ _ I0 E) as [[F [I P]] _].
  cbn [l_ldf l_epoch l_vals st0] in *. split; [exact F|]. split; [exact I|].
  destruct (sealed_last bl); [exact P|]. destruct P as (P1&P2&P3&_). auto.
Qed.

(* C07, unconditionally: a Build changes the forkless-cause cache and the counter, nothing else *)
Theorem build_with_shape smp es st e :
  exists c', snd (build_with cap smp es st e) = set_fcc (set_ctr st (l_ctr st + 1)) c'.
Proof.
  unfold build_with.
  assert (D : exists c', set_ctr st (l_ctr st + 1) = set_fcc (set_ctr st (l_ctr st + 1)) c').
  { exists (l_fcc st). destruct st; reflexivity. }
  destruct (smp (l_ctr st + 1)) as [tail|]; [|exact D].
  destruct (add _ _) as [s'|]; [|exact D].
  destruct (negb _ || negb _); [exact D|].
  match goal with |- context [calc_frame cap es ?stw ?ee false] =>
    destruct (calc_frame_keys cap es stw ee false) as [c1 [S1 _]];
    destruct (calc_frame cap es stw ee false) as [[[spf fr]|x] st1] end;
    cbn [snd] in *; subst st1; exists c1; destruct st; reflexivity.
Qed.

(* C07, unconditionally: a Process that ends with ErrWrongFrame (or fails in the index / frame
   computation) changes the forkless-cause cache, nothing else, and emits no block *)
Theorem process_early_exit es st e r bl st' :
  process cap end_block es st e = (r, bl, st') ->
  r = Err EWrongFrame -> bl = [] /\ exists c', st' = set_fcc st c'.
Proof.
  intros E Hr. unfold process in E.
  destruct (add (l_idx st) (vev (l_vals st) e)) as [s'|].
  2:{ inversion E; subst. discriminate. }
  destruct (calc_frame_keys cap es (set_idx st s') e true) as [c1 [S1 _]].
  destruct (calc_frame cap es (set_idx st s') e true) as [[[spf fr]|x] st1]; cbn [snd] in S1; subst st1.
  - destruct (negb (a_frame e =? fr)).
    { inversion E; subst. split; auto. exists c1. destruct st; reflexivity. }
    (* past the frame check the error is never ErrWrongFrame (proofs/AbftErrors.v) *)
    exfalso.
    match type of E with context [handle_election cap end_block ?fu es ?st2 e ?f []] =>
      pose proof (handle_election_nwf cap end_block es e fu st2 f []) as NW;
      destruct (handle_election cap end_block fu es st2 e f []) as [[r2 bl2] st3] end.
    cbn [fst] in NW. destruct r2 as [u|x]; inversion E; subst; [discriminate|]. apply NW. congruence.
  - inversion E; subst. split; auto. exists c1. destruct st; reflexivity.
Qed.

End Proc.
