(* Proofs about model/Workers.v. *)
From Coq Require Import NArith PeanoNat List Bool Lia Permutation.
From LV Require Import model.Workers.
Import ListNotations.

Definition wk_inv (s : pool) : Prop :=
  NoDup (p_ran s ++ p_queue s) /\ (forall id, In id (p_ran s ++ p_queue s) -> In id (p_accepted s)).

Lemma nodup_snoc {A} (l : list A) x : NoDup l -> ~ In x l -> NoDup (l ++ [x]).
Proof.
  induction l as [|a l IH]; cbn [app]; intros Hn Hx.
  - constructor; [intros [] | constructor].
  - inversion Hn as [|? ? Hni Hn']; subst. constructor.
    + rewrite in_app_iff. intros [H | [H | []]]; [contradiction | subst; apply Hx; left; reflexivity].
    + apply IH; [exact Hn' | intros H; apply Hx; right; exact H].
Qed.

Lemma nodup_tl {A} (a : list A) b : NoDup (a ++ b) -> NoDup (a ++ tl b).
Proof.
  destruct b as [|x b]; [auto|]. cbn [tl]. intros H. apply NoDup_remove_1 in H. exact H.
Qed.

Lemma wk_inv_step s ev :
  wk_inv s -> match ev with WEnqueue id _ | WHandToDrain id => ~ In id (p_accepted s) | _ => True end -> wk_inv (fst (wstep s ev)).
Proof.
  intros [Hn Hi] Hf. unfold wk_inv. destruct ev as [id pq | w pq | w | | | id]; cbn [wstep].
  - set (meet := match p_cap s with O => first_idle (p_workers s) | S _ => None end).
    destruct (p_quit s && _); [split; assumption|].
    destruct (Nat.ltb (length (p_queue s)) (p_cap s)).
    + cbn [fst p_ran p_queue p_accepted]. split.
      * rewrite app_assoc. apply nodup_snoc; [exact Hn|]. intros H. apply Hf, Hi, H.
      * intros x Hx. rewrite app_assoc in Hx. apply in_app_iff in Hx. apply in_app_iff.
        destruct Hx as [Hx | [<- | []]]; [left; auto | right; left; reflexivity].
    + destruct meet; [|split; assumption]. cbn [fst p_ran p_queue p_accepted]. split.
      * rewrite <- app_assoc. cbn [app].
        eapply Permutation_NoDup; [apply Permutation_middle|].
        constructor; [intros H; apply Hf, Hi, H | exact Hn].
      * intros x Hx. rewrite <- app_assoc in Hx. cbn [app] in Hx. apply in_app_iff.
        apply in_app_iff in Hx. destruct Hx as [Hx | [<- | Hx]]; [left; apply Hi, in_app_iff; auto | right; left; reflexivity | left; apply Hi, in_app_iff; auto].
  - destruct (nth_error (p_workers s) w) as [[| |]|]; try (split; assumption).
    destruct (p_queue s) as [|h r] eqn:Eq; try rewrite Eq in Hn; try rewrite Eq in Hi.
    + destruct (p_quit s); cbn [fst p_ran p_queue p_accepted]; rewrite ?Eq; split; assumption.
    + destruct (p_quit s && pq); cbn [fst p_ran p_queue p_accepted]; rewrite ?Eq; [split; assumption|].
      rewrite <- app_assoc. cbn [app]. split; assumption.
  - destruct (nth_error (p_workers s) w) as [[| |]|]; split; assumption.
  - split; assumption.
  - cbn [fst p_ran p_queue p_accepted]. split; [now apply nodup_tl|].
    intros x Hx. apply Hi. apply in_app_iff in Hx. apply in_app_iff. destruct Hx as [Hx|Hx]; [auto | right].
    destruct (p_queue s); [exact Hx | right; exact Hx].
  - destruct (p_cap s); [|split; assumption]. cbn [fst p_ran p_queue p_accepted].
    split; [exact Hn | intros x Hx; apply in_app_iff; left; apply Hi, Hx].
Qed.

Lemma nodup_app_l {A} (a b : list A) : NoDup (a ++ b) -> NoDup a.
Proof.
  induction a as [|x a IH]; cbn [app]; intros H; [constructor|]. inversion H as [|? ? Hni Hn]; subst.
  constructor; [intros Hx; apply Hni, in_app_iff; auto | auto].
Qed.

Lemma wk_inv_init cap n : wk_inv (pool_init cap n).
Proof. split; [constructor | intros id []]. Qed.

Lemma wk_inv_run tr : forall s, wk_inv s -> fresh_ids s tr -> wk_inv (fst (wrun s tr)).
Proof.
  induction tr as [|ev tr IH]; intros s Hi Hf; cbn [wrun]; [exact Hi|].
  destruct Hf as [Hf1 Hf2]. pose proof (wk_inv_step s ev Hi Hf1) as H1.
  destruct (wstep s ev) as [s1 o]. cbn [fst] in *. specialize (IH s1 H1 Hf2).
  destruct (wrun s1 tr). exact IH.
Qed.

(* every closure is started at most once, and only if its Enqueue returned nil *)
Theorem workers_run_at_most_once cap n tr :
  fresh_ids (pool_init cap n) tr ->
  let s := fst (wrun (pool_init cap n) tr) in
  NoDup (p_ran s) /\ forall id, In id (p_ran s) -> In id (p_accepted s).
Proof.
  intros Hf. destruct (wk_inv_run tr _ (wk_inv_init cap n) Hf) as [H1 H2]. cbn zeta. split.
  - eapply nodup_app_l. exact H1.
  - intros id Hid. apply H2, in_app_iff. auto.
Qed.

Lemma nth_error_exit s w : (forall x, In x (p_workers s) -> x = WExit) ->
  nth_error (p_workers s) w = None \/ nth_error (p_workers s) w = Some WExit.
Proof.
  intros H. destruct (nth_error (p_workers s) w) as [x|] eqn:E; [right | left; reflexivity].
  f_equal. apply H. eapply nth_error_In; eauto.
Qed.

Lemma first_idle_none ws : (forall x, In x ws -> x = WExit) -> first_idle ws = None.
Proof.
  induction ws as [|a ws IH]; intros H; cbn; [reflexivity|].
  rewrite (H a (or_introl eq_refl)). rewrite IH; [reflexivity | intros x Hx; apply H; right; exact Hx].
Qed.

(* once Stop has returned nothing is ever started again, whatever happens (including Enqueue calls
   that still succeed because the buffer has room: their closures stay queued for ever) *)
Theorem workers_nothing_after_stop s ev :
  stopped s -> stopped (fst (wstep s ev)) /\ p_ran (fst (wstep s ev)) = p_ran s /\
  match snd (wstep s ev) with OStart _ => False | _ => True end.
Proof.
  intros [Hq Hw]. destruct ev as [id pq | w pq | w | | | id]; cbn [wstep].
  - rewrite Hq, (first_idle_none _ Hw). cbn [andb].
    replace (match p_cap s with O => None | S _ => None end) with (@None nat) by (destruct (p_cap s); reflexivity).
    rewrite orb_false_r.
    destruct (negb (Nat.ltb (length (p_queue s)) (p_cap s)) || pq); cbn [fst snd].
    + repeat split; auto.
    + destruct (Nat.ltb (length (p_queue s)) (p_cap s)); cbn [fst snd p_ran]; repeat split; auto.
  - destruct (nth_error_exit s w Hw) as [E|E]; rewrite E; cbn [fst snd]; repeat split; auto.
  - destruct (nth_error_exit s w Hw) as [E|E]; rewrite E; cbn [fst snd]; repeat split; auto.
  - cbn [fst snd p_ran]. repeat split; auto.
  - cbn [fst snd p_ran]. repeat split; auto.
  - destruct (p_cap s); cbn [fst snd p_ran]; repeat split; auto.
Qed.

(* Enqueue after close(quit): fails when the buffer is full and no worker is parked to take it by
   rendezvous; when it can complete, the select may pick either case - "Enqueue after Stop fails" is NOT
   guaranteed by the code *)
Theorem workers_enqueue_after_quit_full s id pq :
  p_quit s = true -> (p_cap s <= length (p_queue s))%nat ->
  (p_cap s = 0%nat -> first_idle (p_workers s) = None) ->
  wstep s (WEnqueue id pq) = (s, OEnq id false).
Proof.
  intros Hq Hfull Hm. cbn [wstep]. rewrite Hq.
  replace (Nat.ltb (length (p_queue s)) (p_cap s)) with false by (symmetry; apply Nat.ltb_ge; exact Hfull).
  replace (match p_cap s with O => first_idle (p_workers s) | S _ => None end) with (@None nat)
    by (destruct (p_cap s); [symmetry; apply Hm; reflexivity | reflexivity]).
  reflexivity.
Qed.

Example workers_enqueue_after_quit_may_succeed :
  let s := fst (wrun (pool_init 2 1) [WQuit; WTake 0 true]) in
  stopped s /\ snd (wstep s (WEnqueue 7%N false)) = OEnq 7%N true /\ snd (wstep s (WEnqueue 7%N true)) = OEnq 7%N false.
Proof. cbn. repeat split; auto. intros w [<-|[]]. reflexivity. Qed.

(* a worker may still start a queued closure after quit was closed (its select picks the task) - but
   only before Stop returns, by the previous theorem *)
Example workers_run_after_quit_before_stop :
  snd (wrun (pool_init 2 1) [WEnqueue 1%N false; WQuit; WTake 0 false]) = [OEnq 1%N true; ONone; OStart 1%N].
Proof. reflexivity. Qed.

(* unbuffered pool (maxTasks = 0): Enqueue completes exactly by rendezvous with a parked worker, which
   starts the closure at once; with no parked worker it blocks *)
Example workers_unbuffered_rendezvous :
  let '(s, o) := wstep (pool_init 0 2) (WEnqueue 5%N false) in
  o = OEnq 5%N true /\ p_ran s = [5%N] /\ p_workers s = [WRun 5%N; WIdle] /\
  snd (wstep (fst (wrun (pool_init 0 1) [WEnqueue 5%N false])) (WEnqueue 6%N false)) = ONone.
Proof. cbn. auto. Qed.

(* progress of the pool: with room in the buffer (or a parked worker) and quit open, Enqueue does not
   block; a parked worker's select starts the oldest queued closure *)
Theorem workers_enqueue_room s id pq :
  p_quit s = false -> (length (p_queue s) < p_cap s)%nat -> snd (wstep s (WEnqueue id pq)) = OEnq id true.
Proof.
  intros Hq Hr. cbn [wstep]. rewrite Hq. cbn [andb].
  replace (Nat.ltb (length (p_queue s)) (p_cap s)) with true by (symmetry; apply Nat.ltb_lt; exact Hr). reflexivity.
Qed.
Theorem workers_take_starts_oldest s w pq h r :
  p_quit s = false -> nth_error (p_workers s) w = Some WIdle -> p_queue s = h :: r ->
  snd (wstep s (WTake w pq)) = OStart h /\ p_queue (fst (wstep s (WTake w pq))) = r.
Proof. intros Hq Hw Hqu. cbn [wstep]. rewrite Hw, Hqu, Hq. cbn. auto. Qed.

(* ====================== every model run passes the harness check ====================== *)

Lemma all_exited_stopped s : all_exited s = true -> stopped s.
Proof.
  unfold all_exited, stopped. intros H. apply andb_true_iff in H. destruct H as [H1 H2]. split; [exact H1|].
  intros w Hw. rewrite forallb_forall in H2. specialize (H2 w Hw). destruct w; [discriminate | discriminate | reflexivity].
Qed.

Lemma wk_late_false tr : forall s, wk_late s tr = false.
Proof.
  induction tr as [|ev tr IH]; intros s; cbn [wk_late]; [reflexivity|]. rewrite IH, orb_false_r.
  destruct (all_exited s) eqn:E; [|reflexivity].
  destruct (workers_nothing_after_stop s ev (all_exited_stopped s E)) as (_ & _ & H).
  destruct (snd (wstep s ev)); try reflexivity. contradiction.
Qed.

(* the Enqueue records of a run: ids are enqueue ids of the trace in order; accepted = those with ok *)
Lemma wk_enqs_ids tr : forall s, exists l, map fst (wk_enqs s tr) = l /\ (forall x, In x l -> In x (enq_ids tr)) /\
  (NoDup (enq_ids tr) -> NoDup l).
Proof.
  induction tr as [|ev tr IH]; intros s; cbn [wk_enqs enq_ids flat_map].
  - exists []. split; [reflexivity|]. split; [intros x [] | intros _; constructor].
  - destruct (IH (fst (wstep s ev))) as (l & El & Hin & Hnd).
    assert (Hout : forall id ok, snd (wstep s ev) = OEnq id ok -> match ev with WEnqueue i _ | WHandToDrain i => i = id | _ => False end).
    { intros id ok. destruct ev as [i pq | w pq | w | | | i]; cbn [wstep].
      - destruct (p_quit s && _); [intros H; inversion H; reflexivity|].
        destruct (Nat.ltb _ _); [intros H; inversion H; reflexivity|].
        destruct (match p_cap s with O => first_idle (p_workers s) | S _ => None end); intros H; inversion H; reflexivity.
      - destruct (nth_error _ _) as [[| |]|]; try discriminate. destruct (p_queue s); [destruct (p_quit s); discriminate|].
        destruct (p_quit s && pq); discriminate.
      - destruct (nth_error _ _) as [[| |]|]; discriminate.
      - discriminate.
      - discriminate.
      - destruct (p_cap s); [intros H; inversion H; reflexivity | discriminate]. }
    destruct (snd (wstep s ev)) as [id ok| |] eqn:Eo.
    + specialize (Hout id ok eq_refl). exists (id :: l). cbn [map fst]. rewrite El.
      assert (Eids : enq_ids (ev :: tr) = id :: enq_ids tr)
        by (destruct ev; try contradiction; subst; reflexivity).
      change (flat_map _ tr) with (enq_ids tr). change (_ ++ enq_ids tr) with (enq_ids (ev :: tr)). rewrite Eids.
      split; [reflexivity|]. split.
      * intros x [<-|Hx]; [left; reflexivity | right; auto].
      * intros H. inversion H as [|? ? Hni Hn]; subst. constructor; [intros Hx; apply Hni, Hin, Hx | auto].
    + exists l. split; [exact El|]. change (flat_map _ tr) with (enq_ids tr). split.
      * intros x Hx. apply in_app_iff. right. auto.
      * intros H. apply Hnd. clear - H. induction (match ev with WEnqueue id _ | WHandToDrain id => [id] | _ => [] end) as [|a l IH]; [exact H|].
        cbn [app] in H. inversion H; auto.
    + exists l. split; [exact El|]. change (flat_map _ tr) with (enq_ids tr). split.
      * intros x Hx. apply in_app_iff. right. auto.
      * intros H. apply Hnd. clear - H. induction (match ev with WEnqueue id _ | WHandToDrain id => [id] | _ => [] end) as [|a l IH]; [exact H|].
        cbn [app] in H. inversion H; auto.
Qed.

Lemma accepted_step s ev :
  p_accepted (fst (wstep s ev)) =
  p_accepted s ++ match snd (wstep s ev) with OEnq id true => [id] | _ => [] end.
Proof.
  destruct ev as [i pq | w pq | w | | | i]; cbn [wstep].
  - destruct (p_quit s && _); [cbn; now rewrite app_nil_r|].
    destruct (Nat.ltb _ _); [reflexivity|].
    destruct (match p_cap s with O => first_idle (p_workers s) | S _ => None end); cbn; [reflexivity | now rewrite app_nil_r].
  - destruct (nth_error _ _) as [[| |]|]; cbn; try now rewrite app_nil_r.
    destruct (p_queue s); [destruct (p_quit s); cbn; now rewrite app_nil_r|].
    destruct (p_quit s && pq); cbn; now rewrite app_nil_r.
  - destruct (nth_error _ _) as [[| |]|]; cbn; now rewrite app_nil_r.
  - cbn. now rewrite app_nil_r.
  - cbn. now rewrite app_nil_r.
  - destruct (p_cap s); cbn; [reflexivity | now rewrite app_nil_r].
Qed.

Lemma accepted_run tr : forall s,
  p_accepted (fst (wrun s tr)) = p_accepted s ++ map fst (filter (fun e => fst (snd e)) (wk_enqs s tr)).
Proof.
  induction tr as [|ev tr IH]; intros s; cbn [wrun wk_enqs]; [cbn; now rewrite app_nil_r|].
  pose proof (accepted_step s ev) as Ha. specialize (IH (fst (wstep s ev))).
  destruct (wstep s ev) as [s1 o] eqn:E. cbn [fst snd] in *.
  destruct (wrun s1 tr) as [s2 os] eqn:Er. cbn [fst] in *. rewrite IH, Ha.
  destruct o as [id ok| |]; cbn [filter map fst snd]; try (now rewrite app_nil_r).
  destruct ok; cbn [filter map fst snd]; [now rewrite <- app_assoc | now rewrite app_nil_r].
Qed.

Lemma refusal_needs_quit s ev id : snd (wstep s ev) = OEnq id false -> p_quit s = true.
Proof.
  destruct ev as [i pq | w pq | w | | | i]; cbn [wstep].
  - destruct (p_quit s) eqn:Eq; [reflexivity|]. cbn [andb].
    destruct (Nat.ltb _ _); [discriminate|].
    destruct (match p_cap s with O => first_idle (p_workers s) | S _ => None end); discriminate.
  - destruct (nth_error _ _) as [[| |]|]; try discriminate. destruct (p_queue s); [destruct (p_quit s); discriminate|].
    destruct (p_quit s && pq); discriminate.
  - destruct (nth_error _ _) as [[| |]|]; discriminate.
  - discriminate.
  - discriminate.
  - destruct (p_cap s); discriminate.
Qed.

Lemma wk_enqs_refusal tr : forall s id ok aq, In (id, (ok, aq)) (wk_enqs s tr) -> ok = false -> aq = true.
Proof.
  induction tr as [|ev tr IH]; intros s id ok aq H Hok; cbn [wk_enqs] in H; [contradiction|].
  destruct (snd (wstep s ev)) as [i o| |] eqn:Eo.
  - destruct H as [E|H]; [|exact (IH _ _ _ _ H Hok)]. inversion E; subst. apply (refusal_needs_quit s ev id). exact Eo.
  - exact (IH _ _ _ _ H Hok).
  - exact (IH _ _ _ _ H Hok).
Qed.

Lemma nodup_app_r' {A} (a b : list A) : NoDup (a ++ b) -> NoDup b.
Proof. induction a as [|x a IH]; cbn; [auto|]. intros H. inversion H; auto. Qed.

Lemma enq_ids_cons ev tr : enq_ids (ev :: tr) = enq_ids [ev] ++ enq_ids tr.
Proof. unfold enq_ids. cbn [flat_map]. now rewrite app_nil_r. Qed.

Lemma fresh_from_nodup tr : forall s seen,
  (forall x, In x (p_accepted s) -> In x seen) -> NoDup (seen ++ enq_ids tr) -> fresh_ids s tr.
Proof.
  induction tr as [|ev tr IH]; intros s seen Hsub Hnd; cbn [fresh_ids]; [exact I|].
  rewrite enq_ids_cons in Hnd.
  split.
  - destruct ev as [i pq | w pq | w | | | i]; try exact I.
    + intros Hin. apply Hsub in Hin. unfold enq_ids at 1 in Hnd. cbn [flat_map app] in Hnd.
      apply NoDup_remove_2 in Hnd. apply Hnd, in_app_iff. left. exact Hin.
    + intros Hin. apply Hsub in Hin. unfold enq_ids at 1 in Hnd. cbn [flat_map app] in Hnd.
      apply NoDup_remove_2 in Hnd. apply Hnd, in_app_iff. left. exact Hin.
  - apply (IH _ (seen ++ enq_ids [ev])).
    + intros x Hx. rewrite accepted_step in Hx. apply in_app_iff in Hx. apply in_app_iff.
      destruct Hx as [Hx|Hx]; [left; auto | right].
      destruct (snd (wstep s ev)) as [i ok| |] eqn:Eo; try contradiction. destruct ok; [|contradiction].
      destruct Hx as [<-|[]].
      destruct ev as [j pq | w pq | w | | | j]; cbn [wstep] in Eo.
      * destruct (p_quit s && _); [inversion Eo|]. destruct (Nat.ltb _ _); [inversion Eo; left; reflexivity|].
        destruct (match p_cap s with O => first_idle (p_workers s) | S _ => None end); inversion Eo. left. reflexivity.
      * destruct (nth_error _ _) as [[| |]|]; try discriminate. destruct (p_queue s); [destruct (p_quit s); discriminate|].
        destruct (p_quit s && pq); discriminate.
      * destruct (nth_error _ _) as [[| |]|]; discriminate.
      * discriminate.
      * discriminate.
      * destruct (p_cap s); inversion Eo. left. reflexivity.
    + rewrite <- app_assoc. exact Hnd.
Qed.

Lemma count_occ_nodup x l : NoDup l -> (count_occ_N x l <= 1)%nat.
Proof.
  unfold count_occ_N. induction 1 as [|a l Hni Hn IH]; cbn; [lia|].
  destruct (x =? a)%N eqn:E; [|exact IH]. apply N.eqb_eq in E. subst. cbn.
  replace (filter (N.eqb a) l) with (@nil N); [cbn; lia|].
  symmetry. clear - Hni. induction l as [|b l IH]; cbn; [reflexivity|].
  destruct (a =? b)%N eqn:E; [apply N.eqb_eq in E; subst; exfalso; apply Hni; left; reflexivity|].
  apply IH. intros H. apply Hni. right. exact H.
Qed.

Lemma count_occ_notin x l : ~ In x l -> count_occ_N x l = 0%nat.
Proof.
  unfold count_occ_N. induction l as [|a l IH]; cbn; intros H; [reflexivity|].
  destruct (x =? a)%N eqn:E; [apply N.eqb_eq in E; subst; exfalso; apply H; left; reflexivity|].
  apply IH. intros Hx. apply H. right. exact Hx.
Qed.

(* Every run of the model, with any outcome of every random select, passes the check that the harness
   applies to the real pool: the C16 worker-pool cases test utils/workers against this model. *)
Theorem workers_model_passes_check cap n tr :
  NoDup (enq_ids tr) ->
  let s0 := pool_init cap n in
  wk_check (wk_runs (fst (wrun s0 tr)) (enq_ids tr)) (wk_enqs s0 tr) (wk_late s0 tr) = true.
Proof.
  intros Hnd. cbn zeta. set (s0 := pool_init cap n). set (sf := fst (wrun s0 tr)).
  assert (Hfresh : fresh_ids s0 tr) by (apply (fresh_from_nodup tr s0 []); [intros x [] | exact Hnd]).
  destruct (workers_run_at_most_once cap n tr Hfresh) as [Hran Hacc]. fold s0 sf in Hran, Hacc.
  unfold wk_check. rewrite wk_late_false. cbn [negb andb].
  apply andb_true_iff. split.
  - apply forallb_forall. intros r Hr. unfold wk_runs in Hr. apply in_map_iff in Hr. destruct Hr as (id & <- & _).
    cbn [snd]. apply Nat.leb_le. now apply count_occ_nodup.
  - apply forallb_forall. intros [id [ok aq]] He.
    destruct ok; [reflexivity|]. cbn [orb].
    rewrite (wk_enqs_refusal tr s0 id false aq He eq_refl), andb_true_r.
    (* a refused id was never accepted, hence never run *)
    assert (Hna : ~ In id (p_accepted sf)).
    { unfold sf. rewrite accepted_run. cbn [p_accepted s0 pool_init app]. intros Hin.
      apply in_map_iff in Hin. destruct Hin as ([id' [ok' aq']] & Eid & Hf). cbn [fst] in Eid. subst id'.
      apply filter_In in Hf. destruct Hf as [Hf Hok]. cbn [fst snd] in Hok. subst ok'.
      destruct (wk_enqs_ids tr s0) as (l & El & _ & Hndl). specialize (Hndl Hnd). rewrite <- El in Hndl.
      clear - He Hf Hndl. induction (wk_enqs s0 tr) as [|[i [o a]] L IH]; [contradiction|].
      cbn [map fst] in Hndl. inversion Hndl as [|? ? Hni Hn]; subst.
      destruct He as [E|He], Hf as [E'|Hf].
      - inversion E; inversion E'; congruence.
      - inversion E; subst. apply Hni. change id with (fst (id, (true, aq'))). now apply in_map.
      - inversion E'; subst. apply Hni. change id with (fst (id, (false, aq))). now apply in_map.
      - now apply IH. }
    destruct (find (fun r => (fst r =? id)%N) (wk_runs sf (enq_ids tr))) as [r|] eqn:F; [|reflexivity].
    apply find_some in F. destruct F as [Hr Heq]. apply N.eqb_eq in Heq.
    unfold wk_runs in Hr. apply in_map_iff in Hr. destruct Hr as (i & <- & _). cbn [fst snd] in *. subst i.
    apply Nat.eqb_eq. apply count_occ_notin. intros Hin. apply Hna, Hacc, Hin.
Qed.
