(* Proofs about model/Workers.v. *)
From Coq Require Import NArith PeanoNat List Bool Lia.
From LV Require Import model.Workers.
Import ListNotations.

Definition wk_inv (s : pool) : Prop :=
  NoDup (p_ran s ++ p_queue s) /\ (forall id, In id (p_ran s ++ p_queue s) -> In id (p_accepted s)).

Lemma nodup_snoc {A} (l : list A) x : NoDup l -> ~ In x l -> NoDup (l ++ [x]).
Proof.
  induction l as [|a l IH]; cbn [app]; intros Hn Hx.
  - constructor; [intros [] | constructor].
  - inversion Hn as [|? ? Hni Hn']; subst. constructor.
    + rewrite in_app_iff. intros [H | [H | []]]; [contradiction | subst; apply Hx; left; reflexivity].
    + apply IH; [exact Hn' | intros H; apply Hx; right; exact H].
Qed.

Lemma nodup_tl {A} (a : list A) b : NoDup (a ++ b) -> NoDup (a ++ tl b).
Proof.
  destruct b as [|x b]; [auto|]. cbn [tl]. intros H. apply NoDup_remove_1 in H. exact H.
Qed.

Lemma wk_inv_step s ev :
  wk_inv s -> match ev with WEnqueue id _ => ~ In id (p_accepted s) | _ => True end -> wk_inv (fst (wstep s ev)).
Proof.
  intros [Hn Hi] Hf. unfold wk_inv. destruct ev as [id pq | w pq | w | | ]; cbn [wstep].
  - destruct (p_quit s && (negb (Nat.ltb (length (p_queue s)) (p_cap s)) || pq)); [split; assumption|].
    destruct (Nat.ltb (length (p_queue s)) (p_cap s)); [|split; assumption]. cbn [fst p_ran p_queue p_accepted]. split.
    + rewrite app_assoc. apply nodup_snoc; [exact Hn|]. intros H. apply Hf, Hi, H.
    + intros x Hx. rewrite app_assoc in Hx. apply in_app_iff in Hx. apply in_app_iff.
      destruct Hx as [Hx | [<- | []]]; [left; auto | right; left; reflexivity].
  - destruct (nth_error (p_workers s) w) as [[| |]|]; try (split; assumption).
    destruct (p_queue s) as [|h r] eqn:Eq; try rewrite Eq in Hn; try rewrite Eq in Hi.
    + destruct (p_quit s); cbn [fst p_ran p_queue p_accepted]; rewrite ?Eq; split; assumption.
    + destruct (p_quit s && pq); cbn [fst p_ran p_queue p_accepted]; rewrite ?Eq; [split; assumption|].
      rewrite <- app_assoc. cbn [app]. split; assumption.
  - destruct (nth_error (p_workers s) w) as [[| |]|]; split; assumption.
  - split; assumption.
  - cbn [fst p_ran p_queue p_accepted]. split; [now apply nodup_tl|].
    intros x Hx. apply Hi. apply in_app_iff in Hx. apply in_app_iff. destruct Hx as [Hx|Hx]; [auto | right].
    destruct (p_queue s); [exact Hx | right; exact Hx].
Qed.

Lemma nodup_app_l {A} (a b : list A) : NoDup (a ++ b) -> NoDup a.
Proof.
  induction a as [|x a IH]; cbn [app]; intros H; [constructor|]. inversion H as [|? ? Hni Hn]; subst.
  constructor; [intros Hx; apply Hni, in_app_iff; auto | auto].
Qed.

Lemma wk_inv_init cap n : wk_inv (pool_init cap n).
Proof. split; [constructor | intros id []]. Qed.

Lemma wk_inv_run tr : forall s, wk_inv s -> fresh_ids s tr -> wk_inv (fst (wrun s tr)).
Proof.
  induction tr as [|ev tr IH]; intros s Hi Hf; cbn [wrun]; [exact Hi|].
  destruct Hf as [Hf1 Hf2]. pose proof (wk_inv_step s ev Hi Hf1) as H1.
  destruct (wstep s ev) as [s1 o]. cbn [fst] in *. specialize (IH s1 H1 Hf2).
  destruct (wrun s1 tr). exact IH.
Qed.

(* every closure is started at most once, and only if its Enqueue returned nil *)
Theorem workers_run_at_most_once cap n tr :
  fresh_ids (pool_init cap n) tr ->
  let s := fst (wrun (pool_init cap n) tr) in
  NoDup (p_ran s) /\ forall id, In id (p_ran s) -> In id (p_accepted s).
Proof.
  intros Hf. destruct (wk_inv_run tr _ (wk_inv_init cap n) Hf) as [H1 H2]. cbn zeta. split.
  - eapply nodup_app_l. exact H1.
  - intros id Hid. apply H2, in_app_iff. auto.
Qed.

Lemma nth_error_exit s w : (forall x, In x (p_workers s) -> x = WExit) ->
  nth_error (p_workers s) w = None \/ nth_error (p_workers s) w = Some WExit.
Proof.
  intros H. destruct (nth_error (p_workers s) w) as [x|] eqn:E; [right | left; reflexivity].
  f_equal. apply H. eapply nth_error_In; eauto.
Qed.

(* once Stop has returned nothing is ever started again, whatever happens (including Enqueue calls
   that still succeed because the buffer has room: their closures stay queued for ever) *)
Theorem workers_nothing_after_stop s ev :
  stopped s -> stopped (fst (wstep s ev)) /\ p_ran (fst (wstep s ev)) = p_ran s /\
  match snd (wstep s ev) with OStart _ => False | _ => True end.
Proof.
  intros [Hq Hw]. destruct ev as [id pq | w pq | w | | ]; cbn [wstep].
  - rewrite Hq. cbn [andb]. destruct (negb (Nat.ltb (length (p_queue s)) (p_cap s)) || pq); cbn [fst snd].
    + repeat split; auto.
    + destruct (Nat.ltb (length (p_queue s)) (p_cap s)); cbn [fst snd p_ran]; repeat split; auto.
  - destruct (nth_error_exit s w Hw) as [E|E]; rewrite E; cbn [fst snd]; repeat split; auto.
  - destruct (nth_error_exit s w Hw) as [E|E]; rewrite E; cbn [fst snd]; repeat split; auto.
  - cbn [fst snd p_ran]. repeat split; auto.
  - cbn [fst snd p_ran]. repeat split; auto.
Qed.

(* Enqueue after close(quit): fails when the buffer is full; when there is room the select may pick
   either case - "Enqueue after Stop fails" is NOT guaranteed by the code *)
Theorem workers_enqueue_after_quit_full s id pq :
  p_quit s = true -> (p_cap s <= length (p_queue s))%nat -> wstep s (WEnqueue id pq) = (s, OEnq id false).
Proof.
  intros Hq Hfull. cbn [wstep]. rewrite Hq.
  replace (Nat.ltb (length (p_queue s)) (p_cap s)) with false by (symmetry; apply Nat.ltb_ge; exact Hfull).
  reflexivity.
Qed.

Example workers_enqueue_after_quit_may_succeed :
  let s := fst (wrun (pool_init 2 1) [WQuit; WTake 0 true]) in
  stopped s /\ snd (wstep s (WEnqueue 7%N false)) = OEnq 7%N true /\ snd (wstep s (WEnqueue 7%N true)) = OEnq 7%N false.
Proof. cbn. repeat split; auto. intros w [<-|[]]. reflexivity. Qed.

(* a worker may still start a queued closure after quit was closed (its select picks the task) - but
   only before Stop returns, by the previous theorem *)
Example workers_run_after_quit_before_stop :
  snd (wrun (pool_init 2 1) [WEnqueue 1%N false; WQuit; WTake 0 false]) = [OEnq 1%N true; ONone; OStart 1%N].
Proof. reflexivity. Qed.
