(* C14 T5 (completeness), part 1: inside one PushEvent.  Under oracles that never fail:
   - whatever becomes complete during the recursion is processed by it ([Stk]: no buffered,
     unreleased entry is left with all its parents connected unless it already was before);
   - every released copy's event is connected ([RC]) as long as nothing is spilled or duplicated. *)
From Coq Require Import NArith List Bool Lia Arith.
From LV Require Import model.Buffer spec.BufferSpec proofs.BufferInv proofs.BufferPush proofs.BufferRun.
Import ListNotations.
Local Open Scope N_scope.

Definition Stk (s : st) (y : entry) : Prop :=
  In y (inc s) /\ ~ In (cid y) (released s) /\ complete s y = true.
Definition RC (cs : list entry) (s : st) : Prop :=
  forall c, In c (released s) -> exists x, In x cs /\ cid x = c /\ In (eid x) (connected s).
(* the snapshot lists every buffered, unreleased entry *)
Definition covers (snap : list entry) (s : st) : Prop :=
  forall y, In y (inc s) -> ~ In (cid y) (released s) -> In y snap.

Lemma complete_mono : forall s s' y, incl (connected s) (connected s') ->
  complete s y = true -> complete s' y = true.
Proof.
  intros s s' y H C. unfold complete in *. rewrite forallb_forall in *. intros p Hp.
  specialize (C p Hp). unfold is_connected in *. apply memN_In. apply H. apply memN_In. exact C.
Qed.
Lemma newly_complete : forall e C ps,
  forallb (fun p => memN p (e :: C)) ps = true -> forallb (fun p => memN p C) ps = false ->
  memN e ps = true.
Proof.
  intros e C ps; induction ps as [|a ps IH]; simpl; intros H1 H2; [discriminate|].
  apply andb_true_iff in H1. destruct H1 as [A B].
  destruct (a =? e) eqn:Eq.
  - apply N.eqb_eq in Eq. subst. unfold memN. simpl. rewrite N.eqb_refl. reflexivity.
  - assert (H : memN a C = true).
    { unfold memN in *. simpl in A. rewrite ?Eq in A. simpl in A. exact A. }
    rewrite H in H2. simpl in H2. unfold memN at 1. simpl. fold (memN e ps). rewrite (IH B H2). apply orb_true_r.
Qed.
Lemma covers_evolves : forall snap s s', covers snap s -> evolves s s' -> covers snap s'.
Proof.
  intros snap s s' C [E1 [E2 _]] y Hy Ny. apply C; [apply E1; exact Hy | intros H; apply Ny; apply E2; exact H].
Qed.
Lemma RC_mono : forall cs s s', RC cs s -> released s' = released s -> incl (connected s) (connected s') -> RC cs s'.
Proof.
  intros cs s s' R E I c Hc. rewrite E in Hc. destruct (R c Hc) as [x [A [B D]]]. exists x; auto.
Qed.

Section C.
  Variable fc fp : list out -> entry -> bool.
  Hypothesis nofail : forall l x, fc l x = false /\ fp l x = false.

  Lemma process_ok : forall s x,
    process_complete fc fp s x =
    (connect (emit (emit s (OCheck (cid x) (eid x) true)) (OProcess (cid x) (eid x) true)) (eid x), true).
  Proof.
    intros s x. unfold process_complete. destruct (nofail (log s) x) as [A _]. rewrite A.
    destruct (nofail (log (emit s (OCheck (cid x) (eid x) true))) x) as [_ B]. rewrite B. reflexivity.
  Qed.
  Lemma process_release_conn : forall s x,
    connected (release (fst (process_complete fc fp s x)) x) = eid x :: connected s
    /\ snd (process_complete fc fp s x) = true.
  Proof.
    intros s x. rewrite process_ok. cbn [fst snd]. split; auto.
    destruct (release_proj (connect (emit (emit s (OCheck (cid x) (eid x) true)) (OProcess (cid x) (eid x) true)) (eid x)) x)
      as [_ [_ [_ E]]]. rewrite E. reflexivity.
  Qed.

  Definition t5_spec (f : nat) : Prop :=
    forall cs, wf_cs cs -> forall s x snap p,
      Inv cs p s -> In x (inc s) -> ~ In (cid x) (released s) -> In x snap -> Cover snap s ->
      (unrel snap s <= f)%nat -> covers snap s -> RC cs s ->
      let s' := fst (push_rec fc fp true f s x (Some snap) true) in
      incl (connected s) (connected s') /\ RC cs s' /\ (forall y, Stk s' y -> Stk s y /\ y <> x).

  Lemma t5_loop : forall f x snap, t5_spec f ->
    forall cs, wf_cs cs -> forall p l, incl l snap -> forall sa,
      Inv cs p sa -> Cover snap sa -> (unrel snap sa <= f)%nat -> covers snap sa -> RC cs sa ->
      let sb := fold_left (body fc fp f x snap) l sa in
      incl (connected sa) (connected sb) /\ RC cs sb
      /\ (forall z, Stk sb z -> Stk sa z /\ ~ (In z l /\ memN (eid x) (pars z) = true)).
  Proof.
    intros f x snap T cs W p l. induction l as [|y l IH]; intros Hl sa I C U Cv R; simpl.
    - split; [apply incl_refl|]. split; auto. intros z Hz. split; auto. intros [[] _].
    - assert (Hy : In y snap) by (apply Hl; left; auto).
      assert (Hl' : incl l snap) by (intros z Hz; apply Hl; right; auto).
      assert (Hb : body fc fp f x snap sa y =
                   if memN (eid x) (pars y) && negb (true && memN (cid y) (released sa))
                   then fst (push_rec fc fp true f sa y (Some snap) true) else sa) by reflexivity.
      destruct (memN (eid x) (pars y) && negb (true && memN (cid y) (released sa))) eqn:Cnd; rewrite Hb.
      + apply andb_true_iff in Cnd. destruct Cnd as [_ Cnd]. apply negb_true_iff in Cnd.
        simpl in Cnd. apply memN_false in Cnd.
        assert (Hin : In y (inc sa)) by (destruct (C y Hy); [auto | contradiction]).
        destruct (repush_ok fc fp f cs W sa y snap p I Hin Cnd Hy C U) as [I' [E' _]].
        destruct (T cs W sa y snap p I Hin Cnd Hy C U Cv R) as [M' [R' S']].
        set (sa' := fst (push_rec fc fp true f sa y (Some snap) true)) in *.
        assert (C' : Cover snap sa') by (eapply Cover_evolves; eauto).
        assert (U' : (unrel snap sa' <= f)%nat).
        { etransitivity; [apply unrel_mono with (s := sa) | exact U]. apply E'. }
        assert (Cv' : covers snap sa') by (eapply covers_evolves; eauto).
        destruct (IH Hl' sa' I' C' U' Cv' R') as [M2 [R2 S2]].
        split; [eapply incl_tran; eauto|]. split; auto.
        intros z Hz. destruct (S2 z Hz) as [A B]. destruct (S' z A) as [A1 A2]. split; auto.
        intros [[Hz1|Hz1] Hz2]; [apply A2; auto | apply B; auto].
      + destruct (IH Hl' sa I C U Cv R) as [M2 [R2 S2]]. split; auto. split; auto.
        intros z Hz. destruct (S2 z Hz) as [A B]. split; auto.
        intros [[Hz1|Hz1] Hz2]; [|apply B; auto]. subst z. rewrite Hz2 in Cnd. simpl in Cnd.
        apply negb_false_iff in Cnd. apply memN_In in Cnd. destruct A as [_ [A _]]. contradiction.
  Qed.

  (* what process + release does to the stuck set *)
  Lemma stk_after_process : forall s s2 x snap,
    inc s2 = inc s -> released s2 = cid x :: released s -> connected s2 = eid x :: connected s ->
    covers snap s ->
    forall z, Stk s2 z -> (Stk s z /\ cid z <> cid x) \/ (In z snap /\ memN (eid x) (pars z) = true).
  Proof.
    intros s s2 x snap Ei Er Ec Cv z [Z1 [Z2 Z3]]. rewrite Ei in Z1. rewrite Er in Z2.
    assert (Zr : ~ In (cid z) (released s)) by (intros H; apply Z2; right; exact H).
    assert (Zx : cid z <> cid x) by (intros H; apply Z2; left; auto).
    destruct (complete s z) eqn:Cz.
    - left. split; [repeat split; auto | auto].
    - right. split; [apply Cv; auto|].
      unfold complete, is_connected in *. rewrite Ec in Z3. eapply newly_complete; eauto.
  Qed.

  Lemma t5_repush : forall f, t5_spec f.
  Proof.
    induction f as [|f IHf]; intros cs W s x snap p I Hx Nr Hs C U Cv R.
    - exfalso. pose proof (unrel_pos snap s x Hs Nr). lia.
    - cbv zeta. rewrite push_rec_S.
      destruct (is_connected s (eid x)) eqn:Ec.
      + cbn [fst]. destruct (release_proj (remove_inc s (eid x)) x) as [P1 [_ [_ P4]]].
        assert (Er : released (release (remove_inc s (eid x)) x) = cid x :: released s).
        { unfold release. simpl. assert (M : memN (cid x) (released s) = false) by (apply memN_false; auto).
          rewrite M. reflexivity. }
        split; [rewrite P4; simpl; apply incl_refl|]. split.
        * intros c Hc. rewrite Er in Hc. rewrite P4. simpl. destruct Hc as [Hc|Hc]; [|apply R; auto].
          exists x. split; [apply (inv_inc_cs _ _ _ I); auto|]. split; auto.
          apply memN_In. exact Ec.
        * intros y [Y1 [Y2 Y3]]. rewrite P1 in Y1. simpl in Y1. apply filter_In in Y1. destruct Y1 as [Y1 Y1'].
          rewrite Er in Y2. split.
          -- split; auto. split; [intros H; apply Y2; right; auto|].
             unfold complete, is_connected in *. rewrite P4 in Y3. exact Y3.
          -- intros E; subst y. rewrite N.eqb_refl in Y1'. discriminate.
      + destruct (negb (complete s x)) eqn:Ecm.
        * cbn [fst]. split; [apply incl_refl|]. split; auto. intros y Hy. split; auto.
          intros E; subst y. destruct Hy as [_ [_ Hy]]. rewrite Hy in Ecm. discriminate.
        * apply negb_false_iff in Ecm.
          assert (Hxc : In x cs) by (apply (inv_inc_cs _ _ _ I); auto).
          destruct (process_release fc fp cs p (x :: p) s x W I Hxc Nr Ecm) as [I2 [Ei [Er [En Eo]]]];
            [apply incl_tl, incl_refl | intros _; left; reflexivity |].
          destruct (process_release_conn s x) as [Econ Eok].
          destruct (process_complete fc fp s x) as [s1 ok] eqn:Epc. cbn [fst snd] in *. subst ok.
          set (s2 := release s1 x) in *.
          assert (E02 : evolves s s2).
          { unfold evolves. rewrite Ei, Er, En. repeat split; auto using incl_refl, incl_tl. }
          assert (C2 : Cover snap s2) by (eapply Cover_evolves; eauto).
          assert (U2 : (unrel snap s2 <= f)%nat).
          { assert (unrel snap s2 < unrel snap s)%nat; [|lia].
            apply unrel_dec with (x := x); auto. apply E02. rewrite Er; left; auto. }
          assert (Cv2 : covers snap s2) by (eapply covers_evolves; eauto).
          assert (R2 : RC cs s2).
          { intros c Hc. rewrite Er in Hc. rewrite Econ. destruct Hc as [Hc|Hc].
            - exists x. repeat split; auto. left; auto.
            - destruct (R c Hc) as [x' [A [B D]]]. exists x'. repeat split; auto. right; auto. }
          destruct (t5_loop f x snap IHf cs W (x :: p) snap (incl_refl _) s2 I2 C2 U2 Cv2 R2) as [M3 [R3 S3]].
          destruct (loop_ok fc fp f x snap (repush_ok fc fp f) cs W (x :: p) snap (incl_refl _) s2 I2 C2 U2) as [I3 [E23 _]].
          set (s3 := fold_left (body fc fp f x snap) snap s2) in *.
          split; [simpl; intros q Hq; apply M3; rewrite Econ; right; auto|]. split.
          -- intros c Hc. simpl in Hc. destruct (R3 c Hc) as [x' [A [B D]]]. exists x'. repeat split; auto.
          -- intros y [Y1 [Y2 Y3]]. simpl in Y1, Y2. apply filter_In in Y1. destruct Y1 as [Y1 _].
             assert (Y : Stk s3 y) by (repeat split; auto).
             destruct (S3 y Y) as [A B].
             destruct (stk_after_process s s2 x snap Ei Er Econ Cv y A) as [[D1 D2]|[D1 D2]].
             ++ split; auto. intros E; subst; auto.
             ++ exfalso. apply B. auto.
  Qed.
End C.
