(* C11 / C12: Build = calcCaches over the canonical array.  The overflow tests of calcCaches
   accept exactly the sets whose true total is <= 2^31-1; the caches are the sorted
   arrangement of the specification's pair set; idx = rank; decode (encode vs) = vs. *)
From Coq Require Import NArith PeanoNat List Lia Bool Permutation Sorted.
From Coq Require Import ZifyBool ZifyNat ZifyN.
From LV Require Import lib.WordArith model.Pos spec.PosSpec.
From LV Require Import proofs.PosMapProofs proofs.PosSortProofs.
Import ListNotations.
Local Open Scope N_scope.

Definition weights_fit (l : list (N * N)) : Prop := Forall (fun p => snd p < two32) l.

Lemma sum_weights_perm l1 l2 : Permutation l1 l2 -> sum_weights l1 = sum_weights l2.
Proof.
  unfold sum_weights.
  induction 1 as [|x l l' _ IH|x y l|l l' l'' _ IH1 _ IH2]; cbn [fold_right]; lia.
Qed.

Lemma sum_weights_app l1 l2 : sum_weights (l1 ++ l2) = sum_weights l1 + sum_weights l2.
Proof. unfold sum_weights. induction l1 as [|x l IH]; cbn [fold_right app]; lia. Qed.

(* ---- the loop ---- *)
Lemma calc_loop_spec arr : forall i c, weights_fit arr -> c_total c < two32 ->
  match calc_loop arr i c with
  | Some c' =>
      c_total c + sum_weights arr < two32 /\
      c_total c' = c_total c + sum_weights arr /\
      c_weights c' = c_weights c ++ map snd arr /\
      c_ids c' = c_ids c ++ map fst arr /\
      c_indexes c' = rev (combine (map fst arr) (seq i (length arr))) ++ c_indexes c
  | None => two32 <= c_total c + sum_weights arr
  end.
Proof.
  induction arr as [|[id wt] r IH]; intros i c Hf Hc; cbn [calc_loop].
  - cbn [sum_weights fold_right map length seq combine rev app]. unfold sum_weights. cbn [fold_right].
    rewrite !app_nil_r. repeat split; lia.
  - inversion Hf as [|? ? Hw Hf']; subst. cbn [snd] in Hw.
    pose proof (add32_overflow_iff (c_total c) wt Hc Hw) as Hov.
    destruct (add32 (c_total c) wt <? c_total c) eqn:E.
    + apply proj1 in Hov. specialize (Hov eq_refl). unfold sum_weights. cbn [fold_right snd].
      fold (sum_weights r). lia.
    + assert (Hno : c_total c + wt < two32).
      { destruct (N.lt_ge_cases (c_total c + wt) two32) as [L|G]; [exact L|].
        apply proj2 in Hov. specialize (Hov G). congruence. }
      assert (Ea : add32 (c_total c) wt = c_total c + wt) by (unfold add32; apply wrap32_small; exact Hno).
      rewrite Ea.
      specialize (IH (S i) (mkCache ((id, i) :: c_indexes c) (c_weights c ++ [wt]) (c_ids c ++ [id]) (c_total c + wt)) Hf').
      cbn [c_total c_weights c_ids c_indexes] in IH. specialize (IH Hno).
      destruct (calc_loop r (S i) _) as [c'|].
      * destruct IH as [H1 [H2 [H3 [H4 H5]]]].
        unfold sum_weights in *. cbn [fold_right snd fst map length seq combine rev].
        rewrite <- !app_assoc in *. cbn [app] in *.
        repeat split; try lia; try assumption.
      * unfold sum_weights in *. cbn [fold_right snd]. lia.
Qed.

Definition cache_of (arr : list (N * N)) : cache :=
  mkCache (rev (combine (map fst arr) (seq 0 (length arr)))) (map snd arr) (map fst arr) (sum_weights arr).

Lemma cache_eta c : c = mkCache (c_indexes c) (c_weights c) (c_ids c) (c_total c).
Proof. destruct c; reflexivity. Qed.

Lemma calc_caches_spec values : weights_fit values ->
  match calc_caches values with
  | Some c => sum_weights values <= max_total /\ c = cache_of (vsort values)
  | None => max_total < sum_weights values
  end.
Proof.
  intros Hf. unfold calc_caches, sorted_array.
  assert (Hf' : weights_fit (vsort values)).
  { unfold weights_fit in *. rewrite Forall_forall in *. intros p Hp. apply Hf.
    apply (Permutation_in p (vsort_perm values)). exact Hp. }
  pose proof (calc_loop_spec (vsort values) 0%nat (mkCache [] [] [] 0) Hf') as H.
  cbn [c_total c_weights c_ids c_indexes] in H. specialize (H eq_refl).
  rewrite <- (sum_weights_perm _ _ (vsort_perm values)).
  destruct (calc_loop (vsort values) 0 _) as [c|].
  - destruct H as [H1 [H2 [H3 [H4 H5]]]]. cbn [app] in *. rewrite app_nil_r in H5.
    unfold half_max_u32, max_total. destruct (2147483647 <? c_total c) eqn:E.
    + apply N.ltb_lt in E. lia.
    + apply N.ltb_ge in E. split; [lia|]. rewrite (cache_eta c). unfold cache_of. rewrite H2, H3, H4, H5, N.add_0_l. reflexivity.
  - unfold max_total, two32 in *. lia.
Qed.

(* calcCaches depends on the map only through its sorted array *)
Lemma calc_caches_perm v1 v2 : Permutation v1 v2 -> calc_caches v1 = calc_caches v2.
Proof. intros HP. unfold calc_caches, sorted_array. rewrite (vsort_perm_eq v1 v2 HP). reflexivity. Qed.

Lemma new_validators_cache m :
  option_map v_cache (new_validators m) = calc_caches (apply_sets m []).
Proof. unfold new_validators. destruct (calc_caches (apply_sets m [])); reflexivity. Qed.

Lemma new_validators_values m vs : new_validators m = Some vs -> v_values vs = apply_sets m [].
Proof.
  unfold new_validators. destruct (calc_caches (apply_sets m [])); [|discriminate].
  intros H. inversion H. reflexivity.
Qed.

Lemma new_validators_perm m1 m2 : vmap_ok m1 -> Permutation m1 m2 ->
  option_map v_cache (new_validators m1) = option_map v_cache (new_validators m2).
Proof.
  intros H1 HP. rewrite !new_validators_cache. apply calc_caches_perm.
  rewrite (copy_rev m1 H1), (copy_rev m2 (vmap_ok_perm m1 m2 H1 HP)).
  eapply Permutation_trans; [apply Permutation_sym, Permutation_rev|].
  eapply Permutation_trans; [exact HP|apply Permutation_rev].
Qed.

(* ---- weights written by Set calls stay uint32 ---- *)
Lemma eff_cases (ops : list (N * N)) (id acc : N) :
  let r := fold_left (fun acc p => if fst p =? id then snd p else acc) ops acc in
  r = acc \/ In (id, r) ops.
Proof.
  revert acc. induction ops as [|[i w] ops IH]; intros acc; cbn [fold_left fst snd]; [left; reflexivity|].
  destruct (N.eqb_spec i id) as [E|E].
  - destruct (IH w) as [H|H]; [right; left; subst i; cbn zeta in H; rewrite H; reflexivity|right; right; exact H].
  - destruct (IH acc) as [H|H]; [left; exact H|right; right; exact H].
Qed.

Lemma eff_pairs_fit ops : weights_fit ops -> weights_fit (eff_pairs ops).
Proof.
  unfold weights_fit. rewrite !Forall_forall. intros H [id w] Hp. cbn [snd].
  apply eff_pairs_In in Hp. destruct Hp as [He Hw].
  destruct (eff_cases ops id 0) as [E|Hin]; cbn zeta in *; fold (eff ops id) in *.
  - congruence.
  - rewrite He in Hin. apply (H (id, w) Hin).
Qed.

(* ---- Build against the specification ---- *)
Lemma build_values_perm ops vs : build ops = Some vs -> Permutation (v_values vs) (eff_pairs ops).
Proof.
  intros H. unfold build in H. apply new_validators_values in H. rewrite H.
  rewrite copy_rev by (apply apply_sets_ok, vmap_ok_nil).
  eapply Permutation_trans; [apply Permutation_sym, Permutation_rev|apply apply_sets_eff_pairs].
Qed.

Lemma build_spec ops : weights_fit ops ->
  match build ops with
  | Some vs => spec_total ops <= max_total /\ v_cache vs = cache_of (vsort (eff_pairs ops))
               /\ Permutation (v_values vs) (eff_pairs ops)
  | None => max_total < spec_total ops
  end.
Proof.
  intros Hf. destruct (build ops) as [vs|] eqn:Hb.
  - pose proof (build_values_perm ops vs Hb) as HP.
    unfold build in Hb. pose proof (new_validators_values _ _ Hb) as Hv.
    pose proof (new_validators_cache (apply_sets ops [])) as Hc. rewrite Hb in Hc. cbn [option_map] in Hc.
    rewrite <- Hv in Hc.
    assert (Hfit : weights_fit (v_values vs)).
    { pose proof (eff_pairs_fit ops Hf) as Hf2. unfold weights_fit in *. rewrite Forall_forall in *.
      intros p Hp. apply Hf2. apply (Permutation_in p HP). exact Hp. }
    pose proof (calc_caches_spec (v_values vs) Hfit) as Hs. rewrite <- Hc in Hs.
    destruct Hs as [Hs1 Hs2]. unfold spec_total. rewrite <- (sum_weights_perm _ _ HP).
    split; [exact Hs1|]. split; [|exact HP]. rewrite Hs2. rewrite (vsort_perm_eq _ _ HP). reflexivity.
  - unfold build in Hb.
    pose proof (new_validators_cache (apply_sets ops [])) as Hc. rewrite Hb in Hc. cbn [option_map] in Hc.
    set (copy := apply_sets (apply_sets ops []) []) in *.
    assert (HP : Permutation copy (eff_pairs ops)).
    { unfold copy. rewrite copy_rev by (apply apply_sets_ok, vmap_ok_nil).
      eapply Permutation_trans; [apply Permutation_sym, Permutation_rev|apply apply_sets_eff_pairs]. }
    assert (Hfit : weights_fit copy).
    { pose proof (eff_pairs_fit ops Hf) as Hf2. unfold weights_fit in *. rewrite Forall_forall in *.
      intros p Hp. apply Hf2. apply (Permutation_in p HP). exact Hp. }
    pose proof (calc_caches_spec copy Hfit) as Hs. rewrite <- Hc in Hs.
    unfold spec_total. rewrite <- (sum_weights_perm _ _ HP). exact Hs.
Qed.

Lemma build_guard ops : weights_fit ops -> (build ops = None <-> max_total < spec_total ops).
Proof.
  intros Hf. pose proof (build_spec ops Hf) as H. destruct (build ops) as [vs|].
  - split; [discriminate|]. intros L. destruct H as [H _]. lia.
  - split; [intros _; exact H|reflexivity].
Qed.

(* ---- the canonical array and its properties ---- *)
Definition canon (ops : list (N * N)) : list (N * N) := vsort (eff_pairs ops).

Lemma canon_perm ops : Permutation (canon ops) (eff_pairs ops).
Proof. apply vsort_perm. Qed.
Lemma canon_nodup ops : NoDup (canon ops).
Proof.
  apply (Permutation_NoDup (Permutation_sym (canon_perm ops))). apply vmap_nodup. apply eff_pairs_ok.
Qed.
Lemma canon_keys_nodup ops : NoDup (map fst (canon ops)).
Proof.
  apply (Permutation_NoDup (l := map fst (eff_pairs ops))).
  - apply Permutation_map. apply Permutation_sym. apply canon_perm.
  - apply eff_pairs_ok.
Qed.
Lemma canon_ok_canon ops : canon_ok (eff_pairs ops) (canon ops) = true.
Proof. apply canon_ok_sorted; [apply canon_perm|apply vsort_sorted|apply canon_nodup]. Qed.

Lemma combine_fst_snd {A B} (l : list (A * B)) : combine (map fst l) (map snd l) = l.
Proof. induction l as [|[a b] l IH]; cbn [map combine fst snd]; [reflexivity|]. rewrite IH. reflexivity. Qed.

(* ---- index map ---- *)
Lemma idx_lookup_In l id i : NoDup (map fst l) -> In (id, i) l -> idx_lookup l id = i.
Proof.
  induction l as [|[j k] l IH]; cbn [idx_lookup map fst In]; intros Hnd Hin; [tauto|].
  inversion Hnd as [|? ? Hni Hnd']; subst. destruct (N.eqb_spec j id) as [E|E].
  - destruct Hin as [H|H]; [inversion H; reflexivity|].
    exfalso. apply Hni. subst j. apply in_map_iff. exists (id, i). split; [reflexivity|exact H].
  - destruct Hin as [H|H]; [inversion H; congruence|]. apply IH; assumption.
Qed.

Lemma idx_lookup_notin l id : ~ In id (map fst l) -> idx_lookup l id = 0%nat.
Proof.
  induction l as [|[j k] l IH]; cbn [idx_lookup map fst In]; intros H; [reflexivity|].
  destruct (N.eqb_spec j id) as [E|E]; [exfalso; apply H; left; exact E|].
  apply IH. intros Hin. apply H. right. exact Hin.
Qed.

Lemma combine_seq_In {A} (l : list A) : forall s x k,
  In (x, k) (combine l (seq s (length l))) <-> (s <= k)%nat /\ nth_error l (k - s) = Some x.
Proof.
  induction l as [|a l IH]; intros s x k; cbn [length seq combine In].
  - split; [tauto|]. intros [_ H]. destruct (k - s)%nat; discriminate.
  - rewrite IH. split.
    + intros [H|[H1 H2]].
      * inversion H; subst. split; [lia|]. rewrite Nat.sub_diag. reflexivity.
      * split; [lia|]. replace (k - s)%nat with (S (k - S s)) by lia. exact H2.
    + intros [H1 H2]. destruct (Nat.eq_dec k s) as [E|E].
      * left. subst k. rewrite Nat.sub_diag in H2. cbn [nth_error] in H2. inversion H2. reflexivity.
      * right. split; [lia|]. replace (k - s)%nat with (S (k - S s)) in H2 by lia. exact H2.
Qed.

Lemma combine_seq_keys {A} (l : list A) s : map fst (combine l (seq s (length l))) = l.
Proof.
  revert s. induction l as [|a l IH]; intros s; cbn [length seq combine map fst]; [reflexivity|].
  rewrite IH. reflexivity.
Qed.

Lemma cache_idx_pos ids id i : NoDup ids -> nth_error ids i = Some id ->
  idx_lookup (rev (combine ids (seq 0 (length ids)))) id = i.
Proof.
  intros Hnd Hn. apply idx_lookup_In.
  - rewrite map_rev, combine_seq_keys. apply NoDup_rev. exact Hnd.
  - apply -> in_rev. apply combine_seq_In. split; [lia|]. rewrite Nat.sub_0_r. exact Hn.
Qed.

Lemma cache_idx_absent ids id : ~ In id ids -> idx_lookup (rev (combine ids (seq 0 (length ids)))) id = 0%nat.
Proof.
  intros H. apply idx_lookup_notin. rewrite map_rev, combine_seq_keys. intros Hin. apply H. apply in_rev. exact Hin.
Qed.

Lemma nth_error_split {A} (pre : list A) x post : nth_error (pre ++ x :: post) (length pre) = Some x.
Proof. induction pre as [|a pre IH]; cbn [app length nth_error]; [reflexivity|exact IH]. Qed.

(* GetIdx against the specification: the rank of the id's pair; 0 for an absent id *)
Lemma get_idx_spec ops vs : weights_fit ops -> build ops = Some vs ->
  forall id, get_idx vs id = spec_idx ops id.
Proof.
  intros Hf Hb id. pose proof (build_spec ops Hf) as H. rewrite Hb in H. destruct H as [_ [Hc _]].
  unfold get_idx. rewrite Hc. unfold cache_of. cbn [c_indexes]. fold (canon ops).
  rewrite <- (map_length fst (canon ops)).
  unfold spec_idx. destruct (N.eqb_spec (eff ops id) 0) as [E|E].
  - apply cache_idx_absent. intros Hin. apply in_map_iff in Hin. destruct Hin as [[i w] [Hi Hin]].
    cbn [fst] in Hi. subst i. apply (Permutation_in _ (canon_perm ops)) in Hin.
    apply eff_pairs_In in Hin. destruct Hin as [H1 H2]. congruence.
  - assert (Hin : In (id, eff ops id) (canon ops)).
    { apply (Permutation_in _ (Permutation_sym (canon_perm ops))). apply eff_pairs_In. split; [reflexivity|exact E]. }
    destruct (in_split _ _ Hin) as [pre [post Hs]].
    rewrite <- (rank_perm _ _ _ (canon_perm ops)). rewrite Hs.
    rewrite rank_sorted; [|rewrite <- Hs; apply vsort_sorted|rewrite <- Hs; apply canon_nodup].
    apply cache_idx_pos; [rewrite <- Hs; apply canon_keys_nodup|].
    rewrite map_app. cbn [map fst]. rewrite <- (map_length fst pre). apply nth_error_split.
Qed.

(* ---- order independence ---- *)
Lemma build_canonical ops1 ops2 : (forall id, eff ops1 id = eff ops2 id) ->
  option_map v_cache (build ops1) = option_map v_cache (build ops2).
Proof.
  intros He. unfold build. apply new_validators_perm; [apply apply_sets_ok, vmap_ok_nil|].
  apply vmap_perm; [apply apply_sets_ok, vmap_ok_nil|apply apply_sets_ok, vmap_ok_nil|].
  intros id. rewrite !vget_eff. apply He.
Qed.

Lemma build_get ops vs : build ops = Some vs -> forall id, get vs id = eff ops id.
Proof.
  intros Hb id. unfold get. pose proof (build_values_perm ops vs Hb) as HP.
  rewrite <- vget_eff_pairs. apply vget_perm; [|exact HP].
  apply (vmap_ok_perm (eff_pairs ops)); [apply eff_pairs_ok|apply Permutation_sym; exact HP].
Qed.

Lemma build_exists ops vs : build ops = Some vs -> forall id, exists_id vs id = negb (eff ops id =? 0).
Proof.
  intros Hb id. unfold exists_id. pose proof (build_values_perm ops vs Hb) as HP.
  apply eq_true_iff_eq. rewrite vmem_In, negb_true_iff, N.eqb_neq, <- eff_ids_In, <- eff_pairs_keys.
  unfold keys. split; intros H.
  - apply (Permutation_in id (Permutation_map fst HP)). exact H.
  - apply (Permutation_in id (Permutation_map fst (Permutation_sym HP))). exact H.
Qed.

(* ---- RLP glue: DecodeRLP (EncodeRLP vs) rebuilds vs ---- *)
Lemma roundtrip ops vs : build ops = Some vs ->
  exists vs', decode (encode vs) = Some vs' /\ v_cache vs' = v_cache vs /\
              Permutation (v_values vs') (v_values vs) /\ encode vs' = encode vs.
Proof.
  intros Hb. pose proof (build_values_perm ops vs Hb) as HP.
  assert (Hok : vmap_ok (v_values vs)).
  { apply (vmap_ok_perm (eff_pairs ops)); [apply eff_pairs_ok|apply Permutation_sym; exact HP]. }
  unfold decode, encode, sorted_array, build.
  set (arr := vsort (v_values vs)).
  assert (Harr : vmap_ok arr) by (apply (vmap_ok_perm (v_values vs)); [exact Hok|apply Permutation_sym, vsort_perm]).
  rewrite (copy_rev arr Harr).
  assert (HP2 : Permutation (rev arr) (apply_sets ops [])).
  { eapply Permutation_trans; [apply Permutation_sym, Permutation_rev|].
    eapply Permutation_trans; [apply vsort_perm|].
    eapply Permutation_trans; [exact HP|apply Permutation_sym, apply_sets_eff_pairs]. }
  assert (Hrev : vmap_ok (rev arr)) by (apply (vmap_ok_perm arr); [exact Harr|apply Permutation_rev]).
  pose proof (new_validators_perm (rev arr) (apply_sets ops []) Hrev HP2) as Hc.
  unfold build in Hb. rewrite Hb in Hc. cbn [option_map] in Hc.
  destruct (new_validators (rev arr)) as [vs'|] eqn:Hn; [|discriminate].
  cbn [option_map] in Hc. exists vs'. split; [reflexivity|]. split; [congruence|].
  pose proof (new_validators_values _ _ Hn) as Hv. rewrite (copy_rev _ Hrev), rev_involutive in Hv.
  assert (HP3 : Permutation (v_values vs') (v_values vs)) by (rewrite Hv; apply vsort_perm).
  split; [exact HP3|]. apply vsort_perm_eq. exact HP3.
Qed.

(* ---- everything a caller can observe of a built set, against the specification ---- *)
Theorem build_observables ops vs : weights_fit ops -> build ops = Some vs ->
  combine (sorted_ids vs) (sorted_weights vs) = canon ops /\
  canon_ok (eff_pairs ops) (combine (sorted_ids vs) (sorted_weights vs)) = true /\
  length (sorted_ids vs) = length (eff_pairs ops) /\
  length (sorted_weights vs) = length (eff_pairs ops) /\
  total_weight vs = spec_total ops /\
  (forall id, get vs id = eff ops id) /\
  (forall id, exists_id vs id = negb (eff ops id =? 0)) /\
  (forall id, get_idx vs id = spec_idx ops id) /\
  (forall i id, nth_error (sorted_ids vs) i = Some id -> get_idx vs id = i).
Proof.
  intros Hf Hb. pose proof (build_spec ops Hf) as H. rewrite Hb in H. destruct H as [H1 [Hc HP]].
  assert (Hids : sorted_ids vs = map fst (canon ops)) by (unfold sorted_ids; rewrite Hc; reflexivity).
  assert (Hws : sorted_weights vs = map snd (canon ops)) by (unfold sorted_weights; rewrite Hc; reflexivity).
  assert (Hlen : length (canon ops) = length (eff_pairs ops)) by (apply Permutation_length, canon_perm).
  rewrite Hids, Hws, combine_fst_snd, !map_length.
  split; [reflexivity|]. split; [apply canon_ok_canon|]. split; [exact Hlen|]. split; [exact Hlen|].
  split; [unfold total_weight; rewrite Hc; cbn [cache_of c_total]; apply sum_weights_perm, canon_perm|].
  split; [apply build_get; exact Hb|]. split; [apply build_exists; exact Hb|].
  split; [apply get_idx_spec; assumption|].
  intros i id Hn. unfold get_idx. rewrite Hc. unfold cache_of. cbn [c_indexes]. fold (canon ops).
  rewrite <- (map_length fst (canon ops)). apply cache_idx_pos; [apply canon_keys_nodup|exact Hn].
Qed.
