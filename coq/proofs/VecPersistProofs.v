(* Round 3: persistence / restart of the vector index and transparency of the HB/LA caches
   (model/VecPersist.v).
   (A) enc/dec round trips; reopen (persist s) = s for bounded states; Add keeps states bounded;
   (B) a table with its write-through LRU behaves like the plain two-level map, for every capacity,
       incl. purge on DropNotFlushed and a fresh cache after a restart;
   (C) restart_index_equiv: every history of Add / Flush / Drop / Restart over the persisted engine is, step by
       step, the vstore history in which Restart is replaced by Drop: same view, hence same answers. *)
From Coq Require Import List Arith NArith ZArith Bool Lia.
From Coq Require Import ZifyBool ZifyNat ZifyN.
From LV Require Import lib.Bytes model.Codec proofs.CodecProofs model.VecIndex model.Wlru proofs.WlruProofs
  model.VecPersist lib.VecListFacts spec.FcSpec proofs.FcSpecFacts proofs.VecHb proofs.VecInv proofs.VecMerged
  proofs.VecStep proofs.VecMain.
Import ListNotations.
Open Scope N_scope.

(* ---------- (A) encodings ---------- *)
Lemma U32_pow : U32 = pow256 4. Proof. reflexivity. Qed.
Lemma enc_hb_length v : length (enc_hb v) = (8 * length v)%nat.
Proof. induction v as [|x v IH]; cbn [enc_hb flat_map length]; [reflexivity|]. fold (enc_hb v). rewrite !app_length, !le_length, IH. lia. Qed.
Lemma dec_enc_hb_n v : Forall hbs_ok v -> dec_hb_n (length v) (enc_hb v) = v.
Proof.
  induction 1 as [|x v [Hx1 Hx2] _ IH]; cbn [enc_hb flat_map length dec_hb_n]; [reflexivity|]. fold (enc_hb v).
  rewrite <- app_assoc. rewrite (unle_k_le 4 (fst x)) by (rewrite <- U32_pow; exact Hx1).
  rewrite (skipn_app_exact (le 4 (fst x)) _ 4 (le_length 4 _)).
  rewrite (unle_k_le 4 (snd x)) by (rewrite <- U32_pow; exact Hx2).
  replace (skipn 8 (le 4 (fst x) ++ le 4 (snd x) ++ enc_hb v)) with (enc_hb v).
  - rewrite IH. destruct x; reflexivity.
  - rewrite app_assoc. symmetry. apply skipn_app_exact. rewrite app_length, !le_length. reflexivity.
Qed.
Theorem dec_enc_hb v : Forall hbs_ok v -> dec_hb (enc_hb v) = v.
Proof.
  intros H. unfold dec_hb. rewrite enc_hb_length.
  replace (8 * length v / 8)%nat with (length v) by (rewrite Nat.mul_comm, Nat.div_mul; lia).
  apply dec_enc_hb_n, H.
Qed.
Lemma enc_la_length v : length (enc_la v) = (4 * length v)%nat.
Proof. induction v as [|x v IH]; cbn [enc_la flat_map length]; [reflexivity|]. fold (enc_la v). rewrite app_length, le_length, IH. lia. Qed.
Theorem dec_enc_la v : Forall (fun x => x < U32) v -> dec_la (enc_la v) = v.
Proof.
  intros H. unfold dec_la. rewrite enc_la_length.
  replace (4 * length v / 4)%nat with (length v) by (rewrite Nat.mul_comm, Nat.div_mul; lia).
  induction H as [|x v Hx _ IH]; cbn [enc_la flat_map length dec_la_n]; [reflexivity|]. fold (enc_la v).
  rewrite (unle_k_le 4 x) by (rewrite <- U32_pow; exact Hx).
  rewrite (skipn_app_exact (le 4 x) _ 4 (le_length 4 _)), IH. reflexivity.
Qed.
Theorem dec_enc_br b : N.of_nat b < U32 -> dec_br (enc_br b) = b.
Proof.
  intros H. unfold dec_br, enc_br. rewrite <- (app_nil_r (be 4 (N.of_nat b))).
  rewrite unbe_k_be by (rewrite <- U32_pow; exact H). apply Nat2N.id.
Qed.
Lemma dec_enc_tbl {A} (enc : A -> list N) (dec : list N -> A) (P : A -> Prop) t :
  (forall x, P x -> dec (enc x) = x) -> (forall k x, In (k, x) t -> P x) -> dec_tbl dec (enc_tbl enc t) = t.
Proof.
  intros Hrt Hall. unfold dec_tbl, enc_tbl. rewrite map_map.
  rewrite <- (map_id t) at 2. apply map_ext_in. intros [k x] Hin. cbn [fst snd]. rewrite Hrt; [reflexivity|eauto].
Qed.

(* all stored numbers fit into the uint32 fields *)
Definition vbounded (s : vidx) : Prop :=
  (forall k v, In (k, v) (hb s) -> Forall hbs_ok v) /\
  (forall k v, In (k, v) (la s) -> Forall (fun x => x < U32) v) /\
  (forall k b, In (k, b) (ebr s) -> N.of_nat b < U32).
Definition persisted (s : vidx) : pdb :=
  {| pd_hb := enc_tbl enc_hb (hb s); pd_la := enc_tbl enc_la (la s); pd_br := enc_tbl enc_br (ebr s);
     pd_bi := Some (bi_of s) |}.
Theorem reopen_persisted n s : vbounded s -> nvals s = n -> reopen n (evs s) (persisted s) = s.
Proof.
  intros (H1 & H2 & H3) Hn. unfold reopen, persisted. cbn [pd_hb pd_la pd_br pd_bi bi_of bi_last bi_cr bi_by].
  rewrite (dec_enc_tbl enc_hb dec_hb (Forall hbs_ok) (hb s) dec_enc_hb H1).
  rewrite (dec_enc_tbl enc_la dec_la (Forall (fun x => x < U32)) (la s) dec_enc_la H2).
  rewrite (dec_enc_tbl enc_br dec_br (fun b => N.of_nat b < U32) (ebr s) dec_enc_br H3).
  subst n. destruct s; reflexivity.
Qed.

(* Add keeps the state bounded *)
Lemma Forall_set_nth {A} (P : A -> Prop) d l i x : Forall P l -> P d -> P x -> Forall P (set_nth d l i x).
Proof.
  intros Hl Hd Hx. revert l Hl; induction i as [|i IH]; intros l Hl; destruct l as [|h t]; cbn [set_nth].
  - constructor; [exact Hx|constructor].
  - inversion Hl; subst. constructor; assumption.
  - constructor; [exact Hd|]. apply IH. constructor.
  - inversion Hl; subst. constructor; [assumption|apply IH; assumption].
Qed.
Lemma Forall_nth {A} (P : A -> Prop) d l i : Forall P l -> P d -> P (nth i l d).
Proof. intros Hl Hd. revert i; induction Hl; intros [|i]; cbn [nth]; auto. Qed.
Lemma hbs_ok_zero : hbs_ok (0, 0). Proof. split; reflexivity. Qed.
Lemma hbs_ok_fork : hbs_ok (0, FORKM). Proof. split; reflexivity. Qed.
Lemma collect_from_ok num mine his : Forall hbs_ok mine -> Forall hbs_ok his -> Forall hbs_ok (collect_from num mine his).
Proof.
  intros Hm Hh. unfold collect_from. revert Hm. generalize mine. clear mine.
  induction (List.seq 0 num) as [|b l IH]; intros mine Hm; cbn [fold_left]; [exact Hm|]. apply IH.
  pose proof (Forall_nth hbs_ok (0, 0) his b Hh hbs_ok_zero) as [Hh1 Hh2].
  pose proof (Forall_nth hbs_ok (0, 0) mine b Hm hbs_ok_zero) as [Hm1 Hm2].
  fold (hb_get his b) in Hh1, Hh2. fold (hb_get mine b) in Hm1, Hm2.
  destruct ((fst (hb_get his b) =? 0) && negb (is_fork (hb_get his b))); [exact Hm|].
  destruct (is_fork (hb_get mine b)); [exact Hm|].
  destruct (is_fork (hb_get his b)); [apply Forall_set_nth; auto using hbs_ok_zero, hbs_ok_fork|].
  cbv zeta.
  match goal with |- Forall _ (if ?c then hb_set _ _ ?x else _) => destruct c; [|exact Hm];
    apply Forall_set_nth; [exact Hm|exact hbs_ok_zero|] end.
  destruct ((fst (hb_get mine b) =? 0) || (snd (hb_get his b) <? snd (hb_get mine b)));
    cbn [fst snd]; match goal with |- hbs_ok (if ?c then _ else _) => destruct c end; split; cbn [fst snd]; assumption.
Qed.
Lemma set_fork_creator_ok s v c : Forall hbs_ok v -> Forall hbs_ok (set_fork_creator s v c).
Proof.
  unfold set_fork_creator. generalize (nth c (by_cr s) []). intros l. revert v.
  induction l as [|b l IH]; intros v Hv; cbn [fold_left]; [exact Hv|]. apply IH.
  apply Forall_set_nth; auto using hbs_ok_zero, hbs_ok_fork.
Qed.
Lemma fold_cond_fork_ok s (cond : list hbs -> nat -> bool) l v : Forall hbs_ok v ->
  Forall hbs_ok (fold_left (fun v n => if cond v n then set_fork_detected s v n else v) l v).
Proof.
  revert v; induction l as [|n l IH]; intros v Hv; cbn [fold_left]; [exact Hv|]. apply IH.
  destruct (cond v n); [apply set_fork_creator_ok|]; exact Hv.
Qed.
Lemma detect_forks_ok s v : Forall hbs_ok v -> Forall hbs_ok (detect_forks s v).
Proof.
  intros Hv. rewrite detect_forks_unfold. destruct (negb (at_least_one_fork s)); [exact Hv|].
  unfold step2, step1.
  apply (fold_cond_fork_ok s (fun v n => pass2_cond s v n)). apply (fold_cond_fork_ok s (fun v n => pass1_cond s v n)). exact Hv.
Qed.
Lemma Forall_repeat {A} (P : A -> Prop) x k : P x -> Forall P (repeat x k).
Proof. intros H. induction k; cbn [repeat]; constructor; auto. Qed.
Lemma new_before_ok s1 e me nb0 : (forall k v, In (k, v) (hb s1) -> Forall hbs_ok v) -> eseq e < U32 ->
  Forall hbs_ok (new_before s1 e me nb0).
Proof.
  intros Hhb Hs. unfold new_before, new_before1. apply detect_forks_ok.
  assert (H0 : Forall hbs_ok (hb_set (repeat (0, 0) nb0) me (eseq e, eseq e))).
  { apply Forall_set_nth; [apply Forall_repeat, hbs_ok_zero|exact hbs_ok_zero|split; exact Hs]. }
  revert H0. generalize (hb_set (repeat (0, 0) nb0) me (eseq e, eseq e)).
  induction (epar e) as [|p l IH]; intros acc Hacc; cbn [map fold_left]; [exact Hacc|]. apply IH.
  apply collect_from_ok; [exact Hacc|]. unfold hbv. destruct (alookup p (hb s1)) as [pv|] eqn:Hp; [|constructor].
  apply alookup_In in Hp. eauto.
Qed.
Lemma dfs_la_ok s me sq : sq < U32 -> forall fuel stack lam,
  (forall k v, In (k, v) lam -> Forall (fun x => x < U32) v) ->
  forall k v, In (k, v) (dfs_la fuel s me sq stack lam) -> Forall (fun x => x < U32) v.
Proof.
  intros Hsq. induction fuel as [|f IH]; intros stack lam Hl; cbn [dfs_la]; [exact Hl|].
  destruct stack as [|w rest]; [exact Hl|].
  destruct (alookup w lam) as [v|] eqn:Hw; [|apply IH; exact Hl].
  destruct (negb (la_get v me =? 0)); [apply IH; exact Hl|].
  assert (Hl' : forall k v0, In (k, v0) (aput w (la_set v me sq) lam) -> Forall (fun x => x < U32) v0).
  { intros k v0 [[= <- <-]|Hin]; [|eauto]. apply Forall_set_nth; [|reflexivity|exact Hsq].
    apply alookup_In in Hw. eauto. }
  destruct (alookup w (evs s)); apply IH; exact Hl'.
Qed.

Theorem add_bounded n s e s' : vinv n s -> wf_new n s e -> VecIndex.add s e = Some s' ->
  vbounded s -> eseq e < U32 -> N.of_nat (S (nbr s)) < U32 -> vbounded s'.
Proof.
  intros I W Hadd (B1 & B2 & B3) Hs Hnb.
  pose proof (fill_branch_ok n s e (v_g n s I) W) as F.
  set (me := fst (fill_branch s e)) in *. set (s1 := snd (fill_branch s e)) in *.
  assert (Hpar : forall p, In p (epar e) -> alookup p (hb s1) <> None).
  { intros p Hp. rewrite (fb_hb _ _ _ _ _ F). destruct W as (_ & _ & _ & Hpar & _).
    destruct (Hpar p Hp) as [ep Ep]. destruct (v_keys n s I p ep Ep) as ((hv & Hhv) & _). congruence. }
  rewrite (add_eq s e Hpar) in Hadd. injection Hadd as <-. fold me s1.
  unfold vbounded. cbn [mk_add hb la ebr]. rewrite (fb_hb _ _ _ _ _ F), (fb_ebr _ _ _ _ _ F).
  split; [|split].
  - intros k v [[= <- <-]|Hin]; [|eauto]. apply new_before_ok; [rewrite (fb_hb _ _ _ _ _ F); exact B1|exact Hs].
  - intros k v [[= <- <-]|Hin].
    + apply Forall_set_nth; [apply Forall_repeat; reflexivity|reflexivity|exact Hs].
    + unfold new_lam in Hin. eapply (dfs_la_ok s1 me (eseq e) Hs); [|exact Hin].
      rewrite (fb_la _ _ _ _ _ F). exact B2.
  - intros k b [[= <- <-]|Hin]; [|eauto].
    pose proof (fb_me _ _ _ _ _ F) as Hme.
    assert (Hn1 : (nbr s1 <= S (nbr s))%nat).
    { destruct (fill_branch_cases s e) as [(b & Hfb & _)|Hfb]; unfold s1; rewrite Hfb; cbn [snd].
      - unfold nbr. cbn [s_cont br_cr]. lia.
      - unfold nbr. cbn [s_fork br_cr]. rewrite app_length. cbn [length]. lia. }
    lia.
Qed.

(* ---------- (B) the write-through cache is transparent ---------- *)
Local Notation inv := (@WlruProofs.inv N (list N)).
Definition coh (t : tcache) : Prop :=
  inv (t_c t) /\
  (forall e, In e (c_entries (t_c t)) -> alookup (e_key e) (t_cur t) = Some (e_val e)) /\
  (forall k b, alookup k (t_cur t) = Some b -> small (blen b)) /\
  (forall k b, alookup k (t_fl t) = Some b -> small (blen b)).
Lemma remove_key_incl (k : N) (l : list (entry N (list N))) e : In e (remove_key N.eqb k l) -> In e l.
Proof.
  induction l as [|x l IH]; cbn [remove_key]; [auto|]. destruct (N.eqb k (e_key x)); [intros H; right; exact H|].
  intros [H|H]; [left; exact H|right; apply IH; exact H].
Qed.
Lemma add_entries k v w (c : bcache) : inv c -> small w ->
  let c' := fst (fst (Wlru.add N.eqb k v w c)) in
  inv c' /\ forall e, In e (c_entries c') -> e = mkEntry k v w \/ (In e (c_entries c) /\ e_key e <> k).
Proof.
  intros I Hw. rewrite (add_unfold N.eqb k v w c).
  destruct (add_mid_spec N.eqb N.eqb_eq k v w c I Hw) as (Hpre & Hent & _ & _).
  destruct (normalize (add_mid N.eqb k v w c)) as [[c' lg] cnt] eqn:Hn. cbn [fst].
  destruct (normalize_spec _ c' lg cnt Hpre Hn) as (I' & _ & _ & _ & ev & _ & Hsplit & _).
  split; [exact I'|]. intros e He.
  assert (Hin : In e (mkEntry k v w :: remove_key N.eqb k (c_entries c))).
  { rewrite <- Hent, Hsplit. apply in_or_app. left. exact He. }
  destruct Hin as [<-|Hin]; [left; reflexivity|right]. split; [eapply remove_key_incl; eauto|].
  destruct I as (Ind & _). destruct (nodup_remove_key N.eqb N.eqb_eq k _ Ind) as [_ Hnk].
  intros Hk. apply Hnk. rewrite <- Hk at 1. unfold ekeys. apply in_map. exact Hin.
Qed.

Lemma t_get_transparent id t : coh t ->
  fst (t_get id t) = alookup id (t_cur t) /\ coh (snd (t_get id t)) /\
  t_cur (snd (t_get id t)) = t_cur t /\ t_fl (snd (t_get id t)) = t_fl t.
Proof.
  intros (I & Hc & Hs & Hf). unfold t_get, Wlru.get.
  destruct (find_entry N.eqb id (c_entries (t_c t))) as [e|] eqn:F.
  - destruct (find_entry_some N.eqb N.eqb_eq id _ e F) as [Hin Hk]. cbn [fst snd t_cur t_fl t_c].
    split; [rewrite <- Hk; symmetry; apply Hc; exact Hin|]. split; [|split; reflexivity].
    unfold coh. cbn [t_c t_cur t_fl c_entries]. split; [|split; [|split; assumption]].
    + eapply (get_inv N.eqb N.eqb_eq id (t_c t)); [exact I|]. unfold Wlru.get. rewrite F. reflexivity.
    + intros e' [<-|H]; [apply Hc; exact Hin|apply Hc; eapply remove_key_incl; eauto].
  - destruct (alookup id (t_cur t)) as [b|] eqn:Hb; cbn [fst snd t_cur t_fl t_c].
    + split; [reflexivity|]. split; [|split; reflexivity].
      destruct (add_entries id b (blen b) (t_c t) I (Hs id b Hb)) as [I' He]. cbn zeta in *.
      unfold coh. cbn [t_c t_cur t_fl]. split; [exact I'|]. split; [|split; assumption].
      intros e Hin. destruct (He e Hin) as [->|[Hold _]]; [exact Hb|apply Hc; exact Hold].
    + split; [reflexivity|]. split; [|split; reflexivity]. unfold coh. auto.
Qed.
Lemma t_set_coh id b t : coh t -> small (blen b) -> coh (t_set id b t).
Proof.
  intros (I & Hc & Hs & Hf) Hb. unfold t_set.
  destruct (add_entries id b (blen b) (t_c t) I Hb) as [I' He]. cbn zeta in *.
  split; [exact I'|]. cbn [t_cur t_fl t_c]. split; [|split; [|exact Hf]].
  - intros e Hin. rewrite alookup_aput. destruct (He e Hin) as [->|[Hold Hk]]; cbn [e_key e_val].
    + rewrite N.eqb_refl. reflexivity.
    + destruct (N.eqb_spec (e_key e) id); [contradiction|]. apply Hc. exact Hold.
  - intros k b'. rewrite alookup_aput. destruct (N.eqb_spec k id); [intros [= <-]; exact Hb|apply Hs].
Qed.

Definition top_small (o : top) : Prop :=
  match o with TSet _ b => small (blen b) | TReopen mw ms => small mw /\ z_neg ms = false | _ => True end.
Theorem t_step_transparent t o : coh t -> top_small o ->
  fst (t_step t o) = fst (m_step (t_fl t, t_cur t) o) /\
  (t_fl (snd (t_step t o)), t_cur (snd (t_step t o))) = snd (m_step (t_fl t, t_cur t) o) /\
  coh (snd (t_step t o)).
Proof.
  intros C Hsm. destruct o as [id|id b| | |mw ms]; cbn [t_step m_step fst snd].
  - destruct (t_get_transparent id t C) as (A & B & D & E). rewrite A, D, E. split; [reflexivity|]. split; [reflexivity|exact B].
  - split; [reflexivity|]. split; [reflexivity|apply t_set_coh; assumption].
  - split; [reflexivity|]. split; [reflexivity|]. destruct C as (I & Hc & Hs & Hf).
    unfold coh, t_flush. cbn [t_c t_cur t_fl]. split; [exact I|]. split; [exact Hc|]. split; exact Hs.
  - split; [reflexivity|]. split; [reflexivity|]. destruct C as (I & Hc & Hs & Hf).
    unfold coh, t_drop. cbn [t_c t_cur t_fl fst c_entries purge]. split; [|split; [intros e []|split; exact Hf]].
    eapply purge_inv; [exact I|]. unfold purge. reflexivity.
  - destruct Hsm as [Hmw Hms]. unfold Wlru.new. rewrite Hms.
    split; [reflexivity|]. split; [reflexivity|]. destruct C as (I & Hc & Hs & Hf).
    unfold coh, t_reopen. cbn [t_c t_cur t_fl c_entries]. split; [|split; [intros e []|split; exact Hf]].
    eapply (new_inv mw ms); [exact Hmw|]. unfold Wlru.new. rewrite Hms. reflexivity.
Qed.

(* every history over a table with its cache = the same history over the plain two-level map *)
Fixpoint t_run (t : tcache) (ops : list top) : list (option (list N)) :=
  match ops with [] => [] | o :: r => fst (t_step t o) :: t_run (snd (t_step t o)) r end.
Fixpoint m_run (m : list (N * list N) * list (N * list N)) (ops : list top) : list (option (list N)) :=
  match ops with [] => [] | o :: r => fst (m_step m o) :: m_run (snd (m_step m o)) r end.
Theorem cache_transparent : forall ops t, coh t -> Forall top_small ops ->
  t_run t ops = m_run (t_fl t, t_cur t) ops.
Proof.
  induction ops as [|o ops IH]; intros t C Hs; cbn [t_run m_run]; [reflexivity|].
  inversion Hs as [|? ? Ho Hr]; subst.
  destruct (t_step_transparent t o C Ho) as (A & B & C'). rewrite A. f_equal.
  rewrite <- B. apply IH; assumption.
Qed.
Lemma coh_new mw ms c0 : small mw -> Wlru.new mw ms = Some c0 -> coh {| t_fl := []; t_cur := []; t_c := c0 |}.
Proof.
  intros Hmw Hnew. split; [eapply new_inv; eauto|]. cbn [t_c t_cur t_fl].
  unfold Wlru.new in Hnew. destruct (z_neg ms); [discriminate|]. injection Hnew as <-.
  split; [intros e []|]. split; intros k b H; discriminate H.
Qed.

(* ---------- (C) restart / persistence of the engine ---------- *)
Definition vop_of (o : pop) : vop := match o with PAdd e => VAdd e | PFlush => VFlush | PDrop => VDrop | PRestart => VDrop end.
(* the persisted engine p implements the two-level index state st *)
Record prel (n : nat) (p : pidx) (st : vstore) : Prop := {
  pr_n : p_n p = n;
  pr_cur : p_view p = vs_cur st;
  pr_fl : reopen n (p_evs_fl p) (p_db p) = vs_flushed st;
  pr_icur : vinv n (vs_cur st); pr_ifl : vinv n (vs_flushed st);
  pr_bcur : vbounded (vs_cur st); pr_bfl : vbounded (vs_flushed st);
  pr_bi_db : pd_bi (p_cur p) = pd_bi (p_db p);
  pr_nil : p_bi p = None -> p_cur p = p_db p /\ p_evs p = p_evs_fl p }.
(* side conditions of an operation: well-formed new event whose numbers fit into uint32 *)
Definition pop_ok (n : nat) (s : vidx) (o : pop) : Prop :=
  match o with PAdd e => wf_ev n (evs s) e /\ eseq e < U32 /\ N.of_nat (S (nbr s)) < U32 | _ => True end.

Lemma p_view_drop n p : p_n p = n -> p_view (p_drop p) = reopen n (p_evs_fl p) (p_db p).
Proof. intros <-. reflexivity. Qed.
Lemma vinv_nvals n s : vinv n s -> nvals s = n.
Proof. intros I. apply (v_nvals n s I). Qed.

Theorem p_step_sim n p st o : prel n p st -> pop_ok n (vs_cur st) o ->
  prel n (p_step p o) (vs_step st (vop_of o)).
Proof.
  intros [Hn Hcur Hfl Ic If Bc Bf Hbi Hnil] Hok. destruct o as [e| | |]; cbn [p_step vop_of vs_step pop_ok] in *.
  - destruct Hok as (We & Hs & Hnb). unfold p_add, vs_add. rewrite Hcur.
    destruct (add_preserves n (vs_cur st) e Ic We) as (s1 & Hadd & I1 & Hevs). rewrite Hadd. cbn [snd].
    pose proof (add_bounded n (vs_cur st) e s1 Ic We Hadd Bc Hs Hnb) as B1.
    constructor; cbn [p_store p_n p_bi p_db p_evs_fl p_cur p_evs vs_cur vs_flushed pd_bi]; auto; [|discriminate].
    destruct B1 as (H1 & H2 & H3).
    unfold p_view, p_binfo, p_store. cbn [p_bi p_n p_cur p_evs pd_hb pd_la pd_br bi_of bi_last bi_cr bi_by].
    rewrite (dec_enc_tbl enc_hb dec_hb (Forall hbs_ok) (hb s1) dec_enc_hb H1).
    rewrite (dec_enc_tbl enc_la dec_la (Forall (fun x => x < U32)) (la s1) dec_enc_la H2).
    rewrite (dec_enc_tbl enc_br dec_br (fun b => N.of_nat b < U32) (ebr s1) dec_enc_br H3).
    rewrite Hn, <- (vinv_nvals n s1 I1). destruct s1; reflexivity.
  - (* Flush *)
    assert (Hv : reopen n (p_evs p) {| pd_hb := pd_hb (p_cur p); pd_la := pd_la (p_cur p); pd_br := pd_br (p_cur p);
                   pd_bi := match p_bi p with Some b => Some b | None => pd_bi (p_cur p) end |} = vs_cur st).
    { rewrite <- Hcur. unfold reopen, p_view, p_binfo. cbn [pd_hb pd_la pd_br pd_bi]. rewrite Hn.
      destruct (p_bi p); reflexivity. }
    constructor; cbn [p_flush p_n p_bi p_db p_evs_fl p_cur p_evs vs_flush vs_cur vs_flushed pd_bi]; auto.
    rewrite <- Hcur. unfold p_view, p_binfo, p_flush. cbn [p_bi p_n p_cur p_evs pd_hb pd_la pd_br pd_bi].
    destruct (p_bi p); reflexivity.
  - constructor; cbn [p_drop p_n p_bi p_db p_evs_fl p_cur p_evs vs_drop vs_cur vs_flushed]; auto.
    rewrite <- Hfl. apply p_view_drop. exact Hn.
  - constructor; cbn [p_restart p_n p_bi p_db p_evs_fl p_cur p_evs vs_drop vs_cur vs_flushed]; auto.
    rewrite <- Hfl. apply (p_view_drop n p Hn).
Qed.

Lemma prel_init n : prel n (p_init n) (vs_init n).
Proof.
  constructor; cbn [p_init vs_init p_n p_bi p_db p_evs_fl p_cur p_evs vs_cur vs_flushed]; auto;
    try apply vinv_init; try (repeat split; intros ? ? []).
Qed.

(* side conditions along a history *)
Fixpoint pops_ok (n : nat) (st : vstore) (ops : list pop) : Prop :=
  match ops with [] => True | o :: r => pop_ok n (vs_cur st) o /\ pops_ok n (vs_step st (vop_of o)) r end.

(* restart_index_equiv: a fresh vecfc.Index reopened over the flushed database (at any points of any
   history of Adds, Flushes and Drops) works on exactly the state of the index that kept running and
   dropped its unflushed writes; in particular all answers (forkless cause, merged clocks, branch
   bookkeeping) coincide, and by C05/C06 they equal the graph specification on the current view *)
Theorem restart_index_equiv n : forall ops p st, prel n p st -> pops_ok n st ops ->
  prel n (fold_left p_step ops p) (fold_left vs_step (map vop_of ops) st).
Proof.
  induction ops as [|o ops IH]; intros p st R W; cbn [fold_left map]; [exact R|].
  destruct W as [Wo Wr]. apply IH; [apply p_step_sim; assumption|exact Wr].
Qed.
Corollary restart_answers n ops ws q a b : pops_ok n (vs_init n) ops ->
  let p := fold_left p_step ops (p_init n) in
  let st := fold_left vs_step (map vop_of ops) (vs_init n) in
  p_view p = vs_cur st /\
  fc ws q (p_view p) a b = fc ws q (vs_cur st) a b /\ merged (p_view p) a = merged (vs_cur st) a /\
  (br_last (p_view p), br_cr (p_view p), by_cr (p_view p)) = (br_last (vs_cur st), br_cr (vs_cur st), by_cr (vs_cur st)).
Proof.
  intros W. cbn zeta. destruct (restart_index_equiv n ops (p_init n) (vs_init n) (prel_init n) W) as [_ Hc _ _ _ _ _ _ _].
  rewrite Hc. auto.
Qed.
(* and the answers are the specification's *)
Corollary restart_fc_spec n ops ws q a b ea eb : pops_ok n (vs_init n) ops -> 0 < q ->
  let s := p_view (fold_left p_step ops (p_init n)) in
  evt s a ea -> evt s b eb -> fc ws q s a b = fc_spec ws q n (evs s) a b.
Proof.
  intros W Hq. cbn zeta. destruct (restart_index_equiv n ops (p_init n) (vs_init n) (prel_init n) W) as [_ Hc _ Ic _ _ _ _ _].
  rewrite Hc. intros Ha Hb. apply (fc_eq_spec n _ Ic ws q a b ea eb Hq Ha Hb).
Qed.
