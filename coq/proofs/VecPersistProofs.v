(* Round 3: persistence / restart of the vector index and transparency of the HB/LA caches
   (model/VecPersist.v).
   (A) enc/dec round trips; reopen (persist s) = s for bounded states; Add keeps states bounded;
   (B) a table with its write-through LRU behaves like the plain two-level map, for every capacity,
       incl. purge on DropNotFlushed and a fresh cache after a restart;
   (C) restart_index_equiv: every history of Add / Flush / Drop / Restart over the persisted engine is, step by
       step, the vstore history in which Restart is replaced by Drop: same view, hence same answers. *)
From Coq Require Import List Arith NArith ZArith Bool Lia.
From Coq Require Import ZifyBool ZifyNat ZifyN.
From LV Require Import lib.Bytes model.Codec proofs.CodecProofs model.VecIndex model.Wlru proofs.WlruProofs
  model.VecPersist lib.VecListFacts spec.FcSpec proofs.FcSpecFacts proofs.VecHb proofs.VecInv proofs.VecMerged
  proofs.VecStep proofs.VecMain.
Import ListNotations.
Open Scope N_scope.

(* ---------- (A) encodings ---------- *)
Lemma U32_pow : U32 = pow256 4. Proof. reflexivity. Qed.
Lemma enc_hb_length v : length (enc_hb v) = (8 * length v)%nat.
Proof. induction v as [|x v IH]; cbn [enc_hb flat_map length]; [reflexivity|]. fold (enc_hb v). rewrite !app_length, !le_length, IH. lia. Qed.
Lemma dec_enc_hb_n v : Forall hbs_ok v -> dec_hb_n (length v) (enc_hb v) = v.
Proof.
  induction 1 as [|x v [Hx1 Hx2] _ IH]; cbn [enc_hb flat_map length dec_hb_n]; [reflexivity|]. fold (enc_hb v).
  rewrite <- app_assoc. rewrite (unle_k_le 4 (fst x)) by (rewrite <- U32_pow; exact Hx1).
  rewrite (skipn_app_exact (le 4 (fst x)) _ 4 (le_length 4 _)).
  rewrite (unle_k_le 4 (snd x)) by (rewrite <- U32_pow; exact Hx2).
  replace (skipn 8 (le 4 (fst x) ++ le 4 (snd x) ++ enc_hb v)) with (enc_hb v).
  - rewrite IH. destruct x; reflexivity.
  - rewrite app_assoc. symmetry. apply skipn_app_exact. rewrite app_length, !le_length. reflexivity.
Qed.
Theorem dec_enc_hb v : Forall hbs_ok v -> dec_hb (enc_hb v) = v.
Proof.
  intros H. unfold dec_hb. rewrite enc_hb_length.
  replace (8 * length v / 8)%nat with (length v) by (rewrite Nat.mul_comm, Nat.div_mul; lia).
  apply dec_enc_hb_n, H.
Qed.
Lemma enc_la_length v : length (enc_la v) = (4 * length v)%nat.
Proof. induction v as [|x v IH]; cbn [enc_la flat_map length]; [reflexivity|]. fold (enc_la v). rewrite app_length, le_length, IH. lia. Qed.
Theorem dec_enc_la v : Forall (fun x => x < U32) v -> dec_la (enc_la v) = v.
Proof.
  intros H. unfold dec_la. rewrite enc_la_length.
  replace (4 * length v / 4)%nat with (length v) by (rewrite Nat.mul_comm, Nat.div_mul; lia).
  induction H as [|x v Hx _ IH]; cbn [enc_la flat_map length dec_la_n]; [reflexivity|]. fold (enc_la v).
  rewrite (unle_k_le 4 x) by (rewrite <- U32_pow; exact Hx).
  rewrite (skipn_app_exact (le 4 x) _ 4 (le_length 4 _)), IH. reflexivity.
Qed.
Theorem dec_enc_br b : N.of_nat b < U32 -> dec_br (enc_br b) = b.
Proof.
  intros H. unfold dec_br, enc_br. rewrite <- (app_nil_r (be 4 (N.of_nat b))).
  rewrite unbe_k_be by (rewrite <- U32_pow; exact H). apply Nat2N.id.
Qed.
Lemma dec_enc_tbl {A} (enc : A -> list N) (dec : list N -> A) (P : A -> Prop) t :
  (forall x, P x -> dec (enc x) = x) -> (forall k x, In (k, x) t -> P x) -> dec_tbl dec (enc_tbl enc t) = t.
Proof.
  intros Hrt Hall. unfold dec_tbl, enc_tbl. rewrite map_map.
  rewrite <- (map_id t) at 2. apply map_ext_in. intros [k x] Hin. cbn [fst snd]. rewrite Hrt; [reflexivity|eauto].
Qed.

(* all stored numbers fit into the uint32 fields *)
Definition vbounded (s : vidx) : Prop :=
  (forall k v, In (k, v) (hb s) -> Forall hbs_ok v) /\
  (forall k v, In (k, v) (la s) -> Forall (fun x => x < U32) v) /\
  (forall k b, In (k, b) (ebr s) -> N.of_nat b < U32).
Definition persisted (s : vidx) : pdb :=
  {| pd_hb := enc_tbl enc_hb (hb s); pd_la := enc_tbl enc_la (la s); pd_br := enc_tbl enc_br (ebr s);
     pd_bi := Some (bi_of s) |}.
Theorem reopen_persisted n s : vbounded s -> nvals s = n -> reopen n (evs s) (persisted s) = s.
Proof.
  intros (H1 & H2 & H3) Hn. unfold reopen, persisted. cbn [pd_hb pd_la pd_br pd_bi bi_of bi_last bi_cr bi_by].
  rewrite (dec_enc_tbl enc_hb dec_hb (Forall hbs_ok) (hb s) dec_enc_hb H1).
  rewrite (dec_enc_tbl enc_la dec_la (Forall (fun x => x < U32)) (la s) dec_enc_la H2).
  rewrite (dec_enc_tbl enc_br dec_br (fun b => N.of_nat b < U32) (ebr s) dec_enc_br H3).
  subst n. destruct s; reflexivity.
Qed.

(* Add keeps the state bounded *)
Lemma Forall_set_nth {A} (P : A -> Prop) d l i x : Forall P l -> P d -> P x -> Forall P (set_nth d l i x).
Proof.
  intros Hl Hd Hx. revert l Hl; induction i as [|i IH]; intros l Hl; destruct l as [|h t]; cbn [set_nth].
  - constructor; [exact Hx|constructor].
  - inversion Hl; subst. constructor; assumption.
  - constructor; [exact Hd|]. apply IH. constructor.
  - inversion Hl; subst. constructor; [assumption|apply IH; assumption].
Qed.
Lemma Forall_nth {A} (P : A -> Prop) d l i : Forall P l -> P d -> P (nth i l d).
Proof. intros Hl Hd. revert i; induction Hl; intros [|i]; cbn [nth]; auto. Qed.
Lemma hbs_ok_zero : hbs_ok (0, 0). Proof. split; reflexivity. Qed.
Lemma hbs_ok_fork : hbs_ok (0, FORKM). Proof. split; reflexivity. Qed.
Lemma collect_from_ok num mine his : Forall hbs_ok mine -> Forall hbs_ok his -> Forall hbs_ok (collect_from num mine his).
Proof.
  intros Hm Hh. unfold collect_from. revert Hm. generalize mine. clear mine.
  induction (List.seq 0 num) as [|b l IH]; intros mine Hm; cbn [fold_left]; [exact Hm|]. apply IH.
  pose proof (Forall_nth hbs_ok (0, 0) his b Hh hbs_ok_zero) as [Hh1 Hh2].
  pose proof (Forall_nth hbs_ok (0, 0) mine b Hm hbs_ok_zero) as [Hm1 Hm2].
  fold (hb_get his b) in Hh1, Hh2. fold (hb_get mine b) in Hm1, Hm2.
  destruct ((fst (hb_get his b) =? 0) && negb (is_fork (hb_get his b))); [exact Hm|].
  destruct (is_fork (hb_get mine b)); [exact Hm|].
  destruct (is_fork (hb_get his b)); [apply Forall_set_nth; auto using hbs_ok_zero, hbs_ok_fork|].
  cbv zeta.
  match goal with |- Forall _ (if ?c then hb_set _ _ ?x else _) => destruct c; [|exact Hm];
    apply Forall_set_nth; [exact Hm|exact hbs_ok_zero|] end.
  destruct ((fst (hb_get mine b) =? 0) || (snd (hb_get his b) <? snd (hb_get mine b)));
    cbn [fst snd]; match goal with |- hbs_ok (if ?c then _ else _) => destruct c end; split; cbn [fst snd]; assumption.
Qed.
Lemma set_fork_creator_ok s v c : Forall hbs_ok v -> Forall hbs_ok (set_fork_creator s v c).
Proof.
  unfold set_fork_creator. generalize (nth c (by_cr s) []). intros l. revert v.
  induction l as [|b l IH]; intros v Hv; cbn [fold_left]; [exact Hv|]. apply IH.
  apply Forall_set_nth; auto using hbs_ok_zero, hbs_ok_fork.
Qed.
Lemma fold_cond_fork_ok s (cond : list hbs -> nat -> bool) l v : Forall hbs_ok v ->
  Forall hbs_ok (fold_left (fun v n => if cond v n then set_fork_detected s v n else v) l v).
Proof.
  revert v; induction l as [|n l IH]; intros v Hv; cbn [fold_left]; [exact Hv|]. apply IH.
  destruct (cond v n); [apply set_fork_creator_ok|]; exact Hv.
Qed.
Lemma detect_forks_ok s v : Forall hbs_ok v -> Forall hbs_ok (detect_forks s v).
Proof.
  intros Hv. rewrite detect_forks_unfold. destruct (negb (at_least_one_fork s)); [exact Hv|].
  unfold step2, step1.
  apply (fold_cond_fork_ok s (fun v n => pass2_cond s v n)). apply (fold_cond_fork_ok s (fun v n => pass1_cond s v n)). exact Hv.
Qed.
Lemma Forall_repeat {A} (P : A -> Prop) x k : P x -> Forall P (repeat x k).
Proof. intros H. induction k; cbn [repeat]; constructor; auto. Qed.
Lemma new_before_ok s1 e me nb0 : (forall k v, In (k, v) (hb s1) -> Forall hbs_ok v) -> eseq e < U32 ->
  Forall hbs_ok (new_before s1 e me nb0).
Proof.
  intros Hhb Hs. unfold new_before, new_before1. apply detect_forks_ok.
  assert (H0 : Forall hbs_ok (hb_set (repeat (0, 0) nb0) me (eseq e, eseq e))).
  { apply Forall_set_nth; [apply Forall_repeat, hbs_ok_zero|exact hbs_ok_zero|split; exact Hs]. }
  revert H0. generalize (hb_set (repeat (0, 0) nb0) me (eseq e, eseq e)).
  induction (epar e) as [|p l IH]; intros acc Hacc; cbn [map fold_left]; [exact Hacc|]. apply IH.
  apply collect_from_ok; [exact Hacc|]. unfold hbv. destruct (alookup p (hb s1)) as [pv|] eqn:Hp; [|constructor].
  apply alookup_In in Hp. eauto.
Qed.
Lemma dfs_la_ok s me sq : sq < U32 -> forall fuel stack lam,
  (forall k v, In (k, v) lam -> Forall (fun x => x < U32) v) ->
  forall k v, In (k, v) (dfs_la fuel s me sq stack lam) -> Forall (fun x => x < U32) v.
Proof.
  intros Hsq. induction fuel as [|f IH]; intros stack lam Hl; cbn [dfs_la]; [exact Hl|].
  destruct stack as [|w rest]; [exact Hl|].
  destruct (alookup w lam) as [v|] eqn:Hw; [|apply IH; exact Hl].
  destruct (negb (la_get v me =? 0)); [apply IH; exact Hl|].
  assert (Hl' : forall k v0, In (k, v0) (aput w (la_set v me sq) lam) -> Forall (fun x => x < U32) v0).
  { intros k v0 [[= <- <-]|Hin]; [|eauto]. apply Forall_set_nth; [|reflexivity|exact Hsq].
    apply alookup_In in Hw. eauto. }
  destruct (alookup w (evs s)); apply IH; exact Hl'.
Qed.

Theorem add_bounded n s e s' : vinv n s -> wf_new n s e -> VecIndex.add s e = Some s' ->
  vbounded s -> eseq e < U32 -> N.of_nat (S (nbr s)) < U32 -> vbounded s'.
Proof.
  intros I W Hadd (B1 & B2 & B3) Hs Hnb.
  pose proof (fill_branch_ok n s e (v_g n s I) W) as F.
  set (me := fst (fill_branch s e)) in *. set (s1 := snd (fill_branch s e)) in *.
  assert (Hpar : forall p, In p (epar e) -> alookup p (hb s1) <> None).
  { intros p Hp. rewrite (fb_hb _ _ _ _ _ F). destruct W as (_ & _ & _ & Hpar & _).
    destruct (Hpar p Hp) as [ep Ep]. destruct (v_keys n s I p ep Ep) as ((hv & Hhv) & _). congruence. }
  rewrite (add_eq s e Hpar) in Hadd. injection Hadd as <-. fold me s1.
  unfold vbounded. cbn [mk_add hb la ebr]. rewrite (fb_hb _ _ _ _ _ F), (fb_ebr _ _ _ _ _ F).
  split; [|split].
  - intros k v [[= <- <-]|Hin]; [|eauto]. apply new_before_ok; [rewrite (fb_hb _ _ _ _ _ F); exact B1|exact Hs].
  - intros k v [[= <- <-]|Hin].
    + apply Forall_set_nth; [apply Forall_repeat; reflexivity|reflexivity|exact Hs].
    + unfold new_lam in Hin. eapply (dfs_la_ok s1 me (eseq e) Hs); [|exact Hin].
      rewrite (fb_la _ _ _ _ _ F). exact B2.
  - intros k b [[= <- <-]|Hin]; [|eauto].
    pose proof (fb_me _ _ _ _ _ F) as Hme.
    assert (Hn1 : (nbr s1 <= S (nbr s))%nat).
    { destruct (fill_branch_cases s e) as [(b & Hfb & _)|Hfb]; unfold s1; rewrite Hfb; cbn [snd].
      - unfold nbr. cbn [s_cont br_cr]. lia.
      - unfold nbr. cbn [s_fork br_cr]. rewrite app_length. cbn [length]. lia. }
    lia.
Qed.

(* ---------- (B) the write-through cache is transparent ---------- *)
Local Notation inv := (@WlruProofs.inv N (list N)).
Definition coh (t : tcache) : Prop :=
  inv (t_c t) /\
  (forall e, In e (c_entries (t_c t)) -> alookup (e_key e) (t_cur t) = Some (e_val e)) /\
  (forall k b, alookup k (t_cur t) = Some b -> small (blen b)) /\
  (forall k b, alookup k (t_fl t) = Some b -> small (blen b)).
Lemma remove_key_incl (k : N) (l : list (entry N (list N))) e : In e (remove_key N.eqb k l) -> In e l.
Proof.
  induction l as [|x l IH]; cbn [remove_key]; [auto|]. destruct (N.eqb k (e_key x)); [intros H; right; exact H|].
  intros [H|H]; [left; exact H|right; apply IH; exact H].
Qed.
Lemma add_entries k v w (c : bcache) : inv c -> small w ->
  let c' := fst (fst (Wlru.add N.eqb k v w c)) in
  inv c' /\ forall e, In e (c_entries c') -> e = mkEntry k v w \/ (In e (c_entries c) /\ e_key e <> k).
Proof.
  intros I Hw. rewrite (add_unfold N.eqb k v w c).
  destruct (add_mid_spec N.eqb N.eqb_eq k v w c I Hw) as (Hpre & Hent & _ & _).
  destruct (normalize (add_mid N.eqb k v w c)) as [[c' lg] cnt] eqn:Hn. cbn [fst].
  destruct (normalize_spec _ c' lg cnt Hpre Hn) as (I' & _ & _ & _ & ev & _ & Hsplit & _).
  split; [exact I'|]. intros e He.
  assert (Hin : In e (mkEntry k v w :: remove_key N.eqb k (c_entries c))).
  { rewrite <- Hent, Hsplit. apply in_or_app. left. exact He. }
  destruct Hin as [<-|Hin]; [left; reflexivity|right]. split; [eapply remove_key_incl; eauto|].
  destruct I as (Ind & _). destruct (nodup_remove_key N.eqb N.eqb_eq k _ Ind) as [_ Hnk].
  intros Hk. apply Hnk. rewrite <- Hk at 1. unfold ekeys. apply in_map. exact Hin.
Qed.

Lemma t_get_transparent id t : coh t ->
  fst (t_get id t) = alookup id (t_cur t) /\ coh (snd (t_get id t)) /\
  t_cur (snd (t_get id t)) = t_cur t /\ t_fl (snd (t_get id t)) = t_fl t.
Proof.
  intros (I & Hc & Hs & Hf). unfold t_get, Wlru.get.
  destruct (find_entry N.eqb id (c_entries (t_c t))) as [e|] eqn:F.
  - destruct (find_entry_some N.eqb N.eqb_eq id _ e F) as [Hin Hk]. cbn [fst snd t_cur t_fl t_c].
    split; [rewrite <- Hk; symmetry; apply Hc; exact Hin|]. split; [|split; reflexivity].
    unfold coh. cbn [t_c t_cur t_fl c_entries]. split; [|split; [|split; assumption]].
    + eapply (get_inv N.eqb N.eqb_eq id (t_c t)); [exact I|]. unfold Wlru.get. rewrite F. reflexivity.
    + intros e' [<-|H]; [apply Hc; exact Hin|apply Hc; eapply remove_key_incl; eauto].
  - destruct (alookup id (t_cur t)) as [b|] eqn:Hb; cbn [fst snd t_cur t_fl t_c].
    + split; [reflexivity|]. split; [|split; reflexivity].
      destruct (add_entries id b (blen b) (t_c t) I (Hs id b Hb)) as [I' He]. cbn zeta in *.
      unfold coh. cbn [t_c t_cur t_fl]. split; [exact I'|]. split; [|split; assumption].
      intros e Hin. destruct (He e Hin) as [->|[Hold _]]; [exact Hb|apply Hc; exact Hold].
    + split; [reflexivity|]. split; [|split; reflexivity]. unfold coh. auto.
Qed.
Lemma t_set_coh id b t : coh t -> small (blen b) -> coh (t_set id b t).
Proof.
  intros (I & Hc & Hs & Hf) Hb. unfold t_set.
  destruct (add_entries id b (blen b) (t_c t) I Hb) as [I' He]. cbn zeta in *.
  split; [exact I'|]. cbn [t_cur t_fl t_c]. split; [|split; [|exact Hf]].
  - intros e Hin. rewrite alookup_aput. destruct (He e Hin) as [->|[Hold Hk]]; cbn [e_key e_val].
    + rewrite N.eqb_refl. reflexivity.
    + destruct (N.eqb_spec (e_key e) id); [contradiction|]. apply Hc. exact Hold.
  - intros k b'. rewrite alookup_aput. destruct (N.eqb_spec k id); [intros [= <-]; exact Hb|apply Hs].
Qed.

Definition top_small (o : top) : Prop :=
  match o with TSet _ b => small (blen b) | TReopen mw ms => small mw /\ z_neg ms = false | _ => True end.
Theorem t_step_transparent t o : coh t -> top_small o ->
  fst (t_step t o) = fst (m_step (t_fl t, t_cur t) o) /\
  (t_fl (snd (t_step t o)), t_cur (snd (t_step t o))) = snd (m_step (t_fl t, t_cur t) o) /\
  coh (snd (t_step t o)).
Proof.
  intros C Hsm. destruct o as [id|id b| | |mw ms]; cbn [t_step m_step fst snd].
  - destruct (t_get_transparent id t C) as (A & B & D & E). rewrite A, D, E. split; [reflexivity|]. split; [reflexivity|exact B].
  - split; [reflexivity|]. split; [reflexivity|apply t_set_coh; assumption].
  - split; [reflexivity|]. split; [reflexivity|]. destruct C as (I & Hc & Hs & Hf).
    unfold coh, t_flush. cbn [t_c t_cur t_fl]. split; [exact I|]. split; [exact Hc|]. split; exact Hs.
  - split; [reflexivity|]. split; [reflexivity|]. destruct C as (I & Hc & Hs & Hf).
    unfold coh, t_drop. cbn [t_c t_cur t_fl fst c_entries purge]. split; [|split; [intros e []|split; exact Hf]].
    eapply purge_inv; [exact I|]. unfold purge. reflexivity.
  - destruct Hsm as [Hmw Hms]. unfold Wlru.new. rewrite Hms.
    split; [reflexivity|]. split; [reflexivity|]. destruct C as (I & Hc & Hs & Hf).
    unfold coh, t_reopen. cbn [t_c t_cur t_fl c_entries]. split; [|split; [intros e []|split; exact Hf]].
    eapply (new_inv mw ms); [exact Hmw|]. unfold Wlru.new. rewrite Hms. reflexivity.
Qed.

(* every history over a table with its cache = the same history over the plain two-level map *)
Fixpoint t_run (t : tcache) (ops : list top) : list (option (list N)) :=
  match ops with [] => [] | o :: r => fst (t_step t o) :: t_run (snd (t_step t o)) r end.
Fixpoint m_run (m : list (N * list N) * list (N * list N)) (ops : list top) : list (option (list N)) :=
  match ops with [] => [] | o :: r => fst (m_step m o) :: m_run (snd (m_step m o)) r end.
Theorem cache_transparent : forall ops t, coh t -> Forall top_small ops ->
  t_run t ops = m_run (t_fl t, t_cur t) ops.
Proof.
  induction ops as [|o ops IH]; intros t C Hs; cbn [t_run m_run]; [reflexivity|].
  inversion Hs as [|? ? Ho Hr]; subst.
  destruct (t_step_transparent t o C Ho) as (A & B & C'). rewrite A. f_equal.
  rewrite <- B. apply IH; assumption.
Qed.
Lemma coh_new mw ms c0 : small mw -> Wlru.new mw ms = Some c0 -> coh {| t_fl := []; t_cur := []; t_c := c0 |}.
Proof.
  intros Hmw Hnew. split; [eapply new_inv; eauto|]. cbn [t_c t_cur t_fl].
  unfold Wlru.new in Hnew. destruct (z_neg ms); [discriminate|]. injection Hnew as <-.
  split; [intros e []|]. split; intros k b H; discriminate H.
Qed.

(* ---------- (C) restart / persistence of the engine ---------- *)
Definition vop_of (o : pop) : vop := match o with PAdd e => VAdd e | PFlush => VFlush | PDrop => VDrop | PRestart => VDrop end.
(* the persisted engine p implements the two-level index state st *)
Record prel (n : nat) (p : pidx) (st : vstore) : Prop := {
  pr_n : p_n p = n;
  pr_cur : p_view p = vs_cur st;
  pr_fl : reopen n (p_evs_fl p) (p_db p) = vs_flushed st;
  pr_icur : vinv n (vs_cur st); pr_ifl : vinv n (vs_flushed st);
  pr_bcur : vbounded (vs_cur st); pr_bfl : vbounded (vs_flushed st);
  pr_bi_db : pd_bi (p_cur p) = pd_bi (p_db p);
  pr_nil : p_bi p = None -> p_cur p = p_db p /\ p_evs p = p_evs_fl p }.
(* side conditions of an operation: well-formed new event whose numbers fit into uint32 *)
Definition pop_ok (n : nat) (s : vidx) (o : pop) : Prop :=
  match o with PAdd e => wf_ev n (evs s) e /\ eseq e < U32 /\ N.of_nat (S (nbr s)) < U32 | _ => True end.

Lemma p_view_drop n p : p_n p = n -> p_view (p_drop p) = reopen n (p_evs_fl p) (p_db p).
Proof. intros <-. reflexivity. Qed.
Lemma vinv_nvals n s : vinv n s -> nvals s = n.
Proof. intros I. apply (v_nvals n s I). Qed.

Theorem p_step_sim n p st o : prel n p st -> pop_ok n (vs_cur st) o ->
  prel n (p_step p o) (vs_step st (vop_of o)).
Proof.
  intros [Hn Hcur Hfl Ic If Bc Bf Hbi Hnil] Hok. destruct o as [e| | |]; cbn [p_step vop_of vs_step pop_ok] in *.
  - destruct Hok as (We & Hs & Hnb). unfold p_add, vs_add. rewrite Hcur.
    destruct (add_preserves n (vs_cur st) e Ic We) as (s1 & Hadd & I1 & Hevs). rewrite Hadd. cbn [snd].
    pose proof (add_bounded n (vs_cur st) e s1 Ic We Hadd Bc Hs Hnb) as B1.
    constructor; cbn [p_store p_n p_bi p_db p_evs_fl p_cur p_evs vs_cur vs_flushed pd_bi]; auto; [|discriminate].
    destruct B1 as (H1 & H2 & H3).
    unfold p_view, p_binfo, p_store. cbn [p_bi p_n p_cur p_evs pd_hb pd_la pd_br bi_of bi_last bi_cr bi_by].
    rewrite (dec_enc_tbl enc_hb dec_hb (Forall hbs_ok) (hb s1) dec_enc_hb H1).
    rewrite (dec_enc_tbl enc_la dec_la (Forall (fun x => x < U32)) (la s1) dec_enc_la H2).
    rewrite (dec_enc_tbl enc_br dec_br (fun b => N.of_nat b < U32) (ebr s1) dec_enc_br H3).
    rewrite Hn, <- (vinv_nvals n s1 I1). destruct s1; reflexivity.
  - (* Flush *)
    assert (Hv : reopen n (p_evs p) {| pd_hb := pd_hb (p_cur p); pd_la := pd_la (p_cur p); pd_br := pd_br (p_cur p);
                   pd_bi := match p_bi p with Some b => Some b | None => pd_bi (p_cur p) end |} = vs_cur st).
    { rewrite <- Hcur. unfold reopen, p_view, p_binfo. cbn [pd_hb pd_la pd_br pd_bi]. rewrite Hn.
      destruct (p_bi p); reflexivity. }
    constructor; cbn [p_flush p_n p_bi p_db p_evs_fl p_cur p_evs vs_flush vs_cur vs_flushed pd_bi]; auto.
    rewrite <- Hcur. unfold p_view, p_binfo, p_flush. cbn [p_bi p_n p_cur p_evs pd_hb pd_la pd_br pd_bi].
    destruct (p_bi p); reflexivity.
  - constructor; cbn [p_drop p_n p_bi p_db p_evs_fl p_cur p_evs vs_drop vs_cur vs_flushed]; auto.
    rewrite <- Hfl. apply p_view_drop. exact Hn.
  - constructor; cbn [p_restart p_n p_bi p_db p_evs_fl p_cur p_evs vs_drop vs_cur vs_flushed]; auto.
    rewrite <- Hfl. apply (p_view_drop n p Hn).
Qed.

Lemma prel_init n : prel n (p_init n) (vs_init n).
Proof.
  constructor; cbn [p_init vs_init p_n p_bi p_db p_evs_fl p_cur p_evs vs_cur vs_flushed]; auto;
    try apply vinv_init; try (repeat split; intros ? ? []).
Qed.

(* side conditions along a history *)
Fixpoint pops_ok (n : nat) (st : vstore) (ops : list pop) : Prop :=
  match ops with [] => True | o :: r => pop_ok n (vs_cur st) o /\ pops_ok n (vs_step st (vop_of o)) r end.

(* restart_index_equiv: a fresh vecfc.Index reopened over the flushed database (at any points of any
   history of Adds, Flushes and Drops) works on exactly the state of the index that kept running and
   dropped its unflushed writes; in particular all answers (forkless cause, merged clocks, branch
   bookkeeping) coincide, and by C05/C06 they equal the graph specification on the current view *)
Theorem restart_index_equiv n : forall ops p st, prel n p st -> pops_ok n st ops ->
  prel n (fold_left p_step ops p) (fold_left vs_step (map vop_of ops) st).
Proof.
  induction ops as [|o ops IH]; intros p st R W; cbn [fold_left map]; [exact R|].
  destruct W as [Wo Wr]. apply IH; [apply p_step_sim; assumption|exact Wr].
Qed.
Corollary restart_answers n ops ws q a b : pops_ok n (vs_init n) ops ->
  let p := fold_left p_step ops (p_init n) in
  let st := fold_left vs_step (map vop_of ops) (vs_init n) in
  p_view p = vs_cur st /\
  fc ws q (p_view p) a b = fc ws q (vs_cur st) a b /\ merged (p_view p) a = merged (vs_cur st) a /\
  (br_last (p_view p), br_cr (p_view p), by_cr (p_view p)) = (br_last (vs_cur st), br_cr (vs_cur st), by_cr (vs_cur st)).
Proof.
  intros W. cbn zeta. destruct (restart_index_equiv n ops (p_init n) (vs_init n) (prel_init n) W) as [_ Hc _ _ _ _ _ _ _].
  rewrite Hc. auto.
Qed.
(* and the answers are the specification's *)
Corollary restart_fc_spec n ops ws q a b ea eb : pops_ok n (vs_init n) ops -> 0 < q ->
  let s := p_view (fold_left p_step ops (p_init n)) in
  evt s a ea -> evt s b eb -> fc ws q s a b = fc_spec ws q n (evs s) a b.
Proof.
  intros W Hq. cbn zeta. destruct (restart_index_equiv n ops (p_init n) (vs_init n) (prel_init n) W) as [_ Hc _ Ic _ _ _ _ _].
  rewrite Hc. intros Ha Hb. apply (fc_eq_spec n _ Ic ws q a b ea eb Hq Ha Hb).
Qed.

(* ====================== Round 4: the composed engine ====================== *)
Lemma fc_as_fc_on ws q s a b : fc ws q s a b =
  match alookup a (hb s), alookup b (la s), alookup b (ebr s) with
  | Some av, Some bv, Some bbr => fc_on ws q s av bv bbr | _, _, _ => false end.
Proof. reflexivity. Qed.
Lemma merged_as_merged_on s a : merged s a = match alookup a (hb s) with Some av => merged_on s av | None => [] end.
Proof. reflexivity. Qed.
Lemma alookup_dec_tbl {A} (dec : list N -> A) t k : alookup k (dec_tbl dec t) = option_map dec (alookup k t).
Proof. induction t as [|[k' b] t IH]; cbn [dec_tbl map alookup fst snd]; [reflexivity|]. destruct (k =? k'); [reflexivity|exact IH]. Qed.
Lemma fc_on_shape ws q p av bv bbr : fc_on ws q (p_shape p) av bv bbr = fc_on ws q (p_view p) av bv bbr.
Proof. reflexivity. Qed.
Lemma merged_on_shape p av : merged_on (p_shape p) av = merged_on (p_view p) av.
Proof. reflexivity. Qed.
Lemma p_view_initbi p : p_view (p_initbi p) = p_view p.
Proof. unfold p_view, p_binfo, p_initbi. cbn [p_bi p_n p_cur p_evs]. reflexivity. Qed.

(* ---------- vector lengths (the LRU weights are byte lengths and must not wrap) ---------- *)
Definition lenb (s : vidx) : Prop :=
  (forall k v, In (k, v) (hb s) -> (length v <= nbr s)%nat) /\ (forall k v, In (k, v) (la s) -> (length v <= nbr s)%nat).
Lemma hb_set_len v i x K : (length v <= K)%nat -> (i < K)%nat -> (length (hb_set v i x) <= K)%nat.
Proof. intros. unfold hb_set. rewrite set_nth_length. lia. Qed.
Lemma collect_from_len num mine his K : (length mine <= K)%nat -> (num <= K)%nat -> (length (collect_from num mine his) <= K)%nat.
Proof.
  intros Hm Hn. unfold collect_from.
  assert (Hl : forall b, In b (List.seq 0 num) -> (b < K)%nat) by (intros b Hb; apply in_seq in Hb; lia).
  revert Hm Hl. generalize mine (List.seq 0 num). clear mine. intros mine l. revert mine.
  induction l as [|b l IH]; intros mine Hm Hl; cbn [fold_left]; [exact Hm|]. apply IH; [|intros; apply Hl; right; assumption].
  assert (Hb : (b < K)%nat) by (apply Hl; left; reflexivity).
  destruct ((fst (hb_get his b) =? 0) && negb (is_fork (hb_get his b))); [exact Hm|].
  destruct (is_fork (hb_get mine b)); [exact Hm|].
  destruct (is_fork (hb_get his b)); [apply hb_set_len; assumption|]. cbv zeta.
  match goal with |- (length (if ?c then _ else _) <= _)%nat => destruct c; [apply hb_set_len; assumption|exact Hm] end.
Qed.
Lemma set_fork_creator_len s v c K : (length v <= K)%nat -> (forall b, In b (nth c (by_cr s) []) -> (b < K)%nat) ->
  (length (set_fork_creator s v c) <= K)%nat.
Proof.
  unfold set_fork_creator. generalize (nth c (by_cr s) []). intros l. revert v.
  induction l as [|b l IH]; intros v Hv Hl; cbn [fold_left]; [exact Hv|]. apply IH; [|intros; apply Hl; right; assumption].
  apply hb_set_len; [exact Hv|apply Hl; left; reflexivity].
Qed.
Lemma detect_forks_len s v K : (length v <= K)%nat -> (forall c b, In b (nth c (by_cr s) []) -> (b < K)%nat) ->
  (length (detect_forks s v) <= K)%nat.
Proof.
  intros Hv Hb. rewrite detect_forks_unfold. destruct (negb (at_least_one_fork s)); [exact Hv|].
  assert (Hf : forall (cond : list hbs -> nat -> bool) l v0, (length v0 <= K)%nat ->
     (length (fold_left (fun v n => if cond v n then set_fork_detected s v n else v) l v0) <= K)%nat).
  { intros cond l. induction l as [|n l IH]; intros v0 H0; cbn [fold_left]; [exact H0|]. apply IH.
    destruct (cond v0 n); [|exact H0]. unfold set_fork_detected. apply set_fork_creator_len; [exact H0|apply Hb]. }
  unfold step2, step1. apply (Hf (fun v n => pass2_cond s v n)). apply (Hf (fun v n => pass1_cond s v n)). exact Hv.
Qed.
Lemma dfs_la_pres (P : list N -> Prop) s me sq : (forall v, P v -> P (la_set v me sq)) -> forall fuel stack lam,
  (forall k v, In (k, v) lam -> P v) -> forall k v, In (k, v) (dfs_la fuel s me sq stack lam) -> P v.
Proof.
  intros HP. induction fuel as [|f IH]; intros stack lam Hl; cbn [dfs_la]; [exact Hl|].
  destruct stack as [|w rest]; [exact Hl|].
  destruct (alookup w lam) as [v|] eqn:Hw; [|apply IH; exact Hl].
  destruct (negb (la_get v me =? 0)); [apply IH; exact Hl|].
  assert (Hl' : forall k v0, In (k, v0) (aput w (la_set v me sq) lam) -> P v0).
  { intros k v0 [[= <- <-]|Hin]; [|eauto]. apply HP. apply alookup_In in Hw. eauto. }
  destruct (alookup w (evs s)); apply IH; exact Hl'.
Qed.
Lemma dfs_la_prefix s me sq : forall fuel stack lam, exists pre, dfs_la fuel s me sq stack lam = pre ++ lam.
Proof.
  induction fuel as [|f IH]; intros stack lam; cbn [dfs_la]; [exists []; reflexivity|].
  destruct stack as [|w rest]; [exists []; reflexivity|].
  destruct (alookup w lam) as [v|]; [|apply IH].
  destruct (negb (la_get v me =? 0)); [apply IH|].
  assert (H : forall st, exists pre, dfs_la f s me sq st (aput w (la_set v me sq) lam) = pre ++ lam).
  { intros st. destruct (IH st (aput w (la_set v me sq) lam)) as [pre Hp]. exists (pre ++ [(w, la_set v me sq)]).
    rewrite Hp. unfold aput. rewrite <- app_assoc. reflexivity. }
  destruct (alookup w (evs s)); apply H.
Qed.

(* shape of the state produced by a successful Add *)
Lemma add_shape n s e : vinv n s -> wf_new n s e -> lenb s ->
  exists s' hv pre me, VecIndex.add s e = Some s' /\
    hb s' = (eid e, hv) :: hb s /\ la s' = pre ++ la s /\ ebr s' = (eid e, me) :: ebr s /\
    evs s' = (eid e, e) :: evs s /\ (nbr s' <= S (nbr s))%nat /\ lenb s'.
Proof.
  intros I W (L1 & L2).
  pose proof (fill_branch_ok n s e (v_g n s I) W) as F.
  set (me := fst (fill_branch s e)) in *. set (s1 := snd (fill_branch s e)) in *.
  assert (Hpar : forall p, In p (epar e) -> alookup p (hb s1) <> None).
  { intros p Hp. rewrite (fb_hb _ _ _ _ _ F). destruct W as (_ & _ & _ & Hpar & _).
    destruct (Hpar p Hp) as [ep Ep]. destruct (v_keys n s I p ep Ep) as ((hv & Hhv) & _). congruence. }
  pose proof (add_eq s e Hpar) as Hadd. fold me s1 in Hadd.
  destruct (dfs_la_prefix s1 me (eseq e) (dfs_fuel s1 e) (rev (epar e)) (la s1)) as [pre Hpre].
  assert (Hn1 : (nbr s1 <= S (nbr s))%nat).
  { destruct (fill_branch_cases s e) as [(b & Hfb & _)|Hfb]; unfold s1; rewrite Hfb; cbn [snd].
    - unfold nbr. cbn [s_cont br_cr]. lia.
    - unfold nbr. cbn [s_fork br_cr]. rewrite app_length. cbn [length]. lia. }
  pose proof (fb_nbr _ _ _ _ _ F) as Hn0. pose proof (fb_me _ _ _ _ _ F) as Hme.
  assert (Hby : forall c b, In b (nth c (by_cr s1) []) -> (b < nbr s1)%nat).
  { intros c b Hb. destruct (fb_sinv _ _ _ _ _ F) as (_ & _ & _ & _ & _ & A6 & A7 & _).
    destruct (Nat.lt_ge_cases c n) as [Hc|Hc]; [apply (A7 c b Hc) in Hb; apply Hb|].
    rewrite nth_overflow in Hb by lia. destruct Hb. }
  exists (mk_add s1 e me (nbr s)), (new_before s1 e me (nbr s)), ((eid e, la_set (repeat 0 (nbr s)) me (eseq e)) :: pre), me.
  split; [exact Hadd|]. cbn [mk_add hb la ebr evs]. rewrite (fb_hb _ _ _ _ _ F), (fb_ebr _ _ _ _ _ F), (fb_evs _ _ _ _ _ F).
  split; [reflexivity|]. split; [unfold new_lam; rewrite Hpre, (fb_la _ _ _ _ _ F); reflexivity|].
  split; [reflexivity|]. split; [reflexivity|]. change (nbr (mk_add s1 e me (nbr s))) with (nbr s1). split; [exact Hn1|].
  unfold lenb. cbn [mk_add hb la]. change (nbr (mk_add s1 e me (nbr s))) with (nbr s1).
  split.
  - intros k v [[= <- <-]|Hin]; [|rewrite (fb_hb _ _ _ _ _ F) in Hin; specialize (L1 k v Hin); lia].
    unfold new_before, new_before1. apply detect_forks_len; [|exact Hby].
    assert (H0 : (length (hb_set (repeat (0%N, 0%N) (nbr s)) me (eseq e, eseq e)) <= nbr s1)%nat)
      by (apply hb_set_len; [rewrite repeat_length; lia|exact Hme]).
    revert H0. generalize (hb_set (repeat (0%N, 0%N) (nbr s)) me (eseq e, eseq e)). generalize (map (hbv s1) (epar e)).
    intros l. induction l as [|p l IH]; intros acc Hacc; cbn [fold_left]; [exact Hacc|]. apply IH.
    apply collect_from_len; [exact Hacc|lia].
  - intros k v [[= <- <-]|Hin].
    + unfold la_set. rewrite set_nth_length, repeat_length. lia.
    + unfold new_lam in Hin.
      apply (dfs_la_pres (fun v => (length v <= nbr s1)%nat) s1 me (eseq e)) with (fuel := dfs_fuel s1 e) (stack := rev (epar e)) (lam := la s1) (k := k); [| |exact Hin].
      * intros v0 H0. unfold la_set. rewrite set_nth_length. lia.
      * rewrite (fb_la _ _ _ _ _ F). intros k0 v0 H0. specialize (L2 k0 v0 H0). lia.
Qed.

Lemma t_sets_cur enc l t : t_cur (t_sets enc l t) = rev (map (fun kv => (fst kv, enc (snd kv))) l) ++ t_cur t.
Proof.
  revert t; induction l as [|kv l IH]; intros t; cbn [t_sets fold_left map rev]; [reflexivity|].
  fold (t_sets enc l (t_set (fst kv) (enc (snd kv)) t)). rewrite IH. cbn [t_set t_cur]. unfold aput.
  rewrite <- app_assoc. reflexivity.
Qed.
Lemma t_sets_fl enc l t : t_fl (t_sets enc l t) = t_fl t.
Proof. revert t; induction l as [|kv l IH]; intros t; cbn [t_sets fold_left]; [reflexivity|]. fold (t_sets enc l (t_set (fst kv) (enc (snd kv)) t)). rewrite IH. reflexivity. Qed.
Lemma t_sets_coh enc l t : coh t -> (forall kv, In kv l -> small (blen (enc (snd kv)))) -> coh (t_sets enc l t).
Proof.
  revert t; induction l as [|kv l IH]; intros t C Hs; cbn [t_sets fold_left]; [exact C|].
  fold (t_sets enc l (t_set (fst kv) (enc (snd kv)) t)). apply IH; [|intros; apply Hs; right; assumption].
  apply t_set_coh; [exact C|apply Hs; left; reflexivity].
Qed.
Lemma small_len8 (v : list hbs) K : (length v <= K)%nat -> N.of_nat (S K) < U32 -> small (blen (enc_hb v)).
Proof. intros H HK. unfold small, blen. rewrite enc_hb_length. unfold U32 in HK. lia. Qed.
Lemma small_len4 (v : list N) K : (length v <= K)%nat -> N.of_nat (S K) < U32 -> small (blen (enc_la v)).
Proof. intros H HK. unfold small, blen. rewrite enc_la_length. unfold U32 in HK. lia. Qed.

(* ---------- the invariant of the composed engine ---------- *)
Definition cinv ws q n U (st : ceng * list cout) : Prop :=
  let '(ce, out) := st in
  exists vs, prel n (ce_p ce) vs /\ hst_ok ws q n U (vs, ce_fc ce, out) /\
    coh (ce_hb_t ce) /\ coh (ce_la_t ce) /\ lenb (vs_cur vs) /\ lenb (vs_flushed vs) /\
    (ce_dirty ce = false -> p_cur (ce_p ce) = p_db (ce_p ce) /\ p_evs (ce_p ce) = p_evs_fl (ce_p ce)).
Definition cop_ok (n : nat) U (ce : ceng) (o : cop) : Prop :=
  match o with
  | CAdd e => wf_ev n (evs (ce_view ce)) e /\ alookup (eid e) U = Some e /\ eseq e < U32 /\ N.of_nat (S (S (nbr (ce_view ce)))) < U32
  | CQuery a b => (exists ea, alookup a (evs (ce_view ce)) = Some ea) /\ (exists eb, alookup b (evs (ce_view ce)) = Some eb)
  | CRestart _ mw ms => small mw /\ z_neg ms = false
  | _ => True end.

Lemma coh_tables t t' : coh t -> t_cur t' = t_cur t -> t_fl t' = t_fl t -> t_c t' = t_c t -> coh t'.
Proof. intros (I & A & B & C) H1 H2 H3. unfold coh. rewrite H1, H2, H3. auto. Qed.
Lemma coh_purge t : coh t -> coh {| t_fl := t_fl t; t_cur := t_fl t; t_c := fst (Wlru.purge (t_c t)) |}.
Proof.
  intros (I & A & B & C). unfold coh. cbn [t_c t_cur t_fl Wlru.purge fst c_entries].
  split; [eapply purge_inv; [exact I|unfold Wlru.purge; reflexivity]|]. split; [intros e []|auto].
Qed.

Lemma query_through_caches ws q n ce vs a b : prel n (ce_p ce) vs -> coh (ce_hb_t ce) -> coh (ce_la_t ce) ->
  ce_fc (snd (ce_query ws q ce a b)) = snd (fc_query ws q (vs_cur vs) (ce_fc ce) a b) /\
  fst (ce_query ws q ce a b) = fst (fc_query ws q (vs_cur vs) (ce_fc ce) a b) /\
  p_view (ce_p (snd (ce_query ws q ce a b))) = p_view (ce_p ce) /\
  p_db (ce_p (snd (ce_query ws q ce a b))) = p_db (ce_p ce) /\ p_cur (ce_p (snd (ce_query ws q ce a b))) = p_cur (ce_p ce) /\
  p_evs (ce_p (snd (ce_query ws q ce a b))) = p_evs (ce_p ce) /\ p_evs_fl (ce_p (snd (ce_query ws q ce a b))) = p_evs_fl (ce_p ce) /\
  p_n (ce_p (snd (ce_query ws q ce a b))) = p_n (ce_p ce) /\
  (p_bi (ce_p (snd (ce_query ws q ce a b))) = None -> p_bi (ce_p ce) = None) /\
  ce_dirty (snd (ce_query ws q ce a b)) = ce_dirty ce /\
  coh (ce_hb_t (snd (ce_query ws q ce a b))) /\ coh (ce_la_t (snd (ce_query ws q ce a b))).
Proof.
  intros R Chb Cla. unfold ce_query, fc_query.
  destruct (fcache_get (a, b) (ce_fc ce)) as [[r|] c'] eqn:Hg; cbn [fst snd ce_p ce_fc ce_dirty].
  - repeat (split; [reflexivity|]). split; [auto|]. split; [reflexivity|]. split; assumption.
  - destruct (t_get_transparent a (ce_hb_t ce) Chb) as (Ha & Cha & Hca & Hfa).
    destruct (t_get a (ce_hb_t ce)) as [oa hbt] eqn:Hta. cbn [fst snd] in Ha, Cha, Hca, Hfa.
    assert (Hlb : exists ob lat, (match oa with Some _ => t_get b (ce_la_t ce) | None => (None, ce_la_t ce) end) = (ob, lat) /\
                   coh lat /\ t_cur lat = t_cur (ce_la_t ce) /\ t_fl lat = t_fl (ce_la_t ce) /\
                   (oa <> None -> ob = alookup b (t_cur (ce_la_t ce)))).
    { destruct oa.
      - destruct (t_get_transparent b (ce_la_t ce) Cla) as (Hb & Chb' & Hcb & Hfb).
        destruct (t_get b (ce_la_t ce)) as [ob lat]. cbn [fst snd] in *. exists ob, lat. auto.
      - exists None, (ce_la_t ce). split; [reflexivity|]. split; [exact Cla|]. split; [reflexivity|]. split; [reflexivity|]. intros H. exfalso. apply H. reflexivity. }
    destruct Hlb as (ob & lat & Hlat & Clat & Hcl & Hfl & Hob). rewrite Hlat. cbn [fst snd ce_p ce_fc ce_dirty].
    assert (Hr : match oa, ob, alookup b (pd_br (p_cur (p_initbi (ce_p ce)))) with
                 | Some ab, Some bb, Some brb => fc_on ws q (p_shape (p_initbi (ce_p ce))) (dec_hb ab) (dec_la bb) (dec_br brb)
                 | _, _, _ => false end = fc ws q (vs_cur vs) a b).
    { assert (Hsh : forall av bv bbr, fc_on ws q (p_shape (p_initbi (ce_p ce))) av bv bbr = fc_on ws q (p_view (p_initbi (ce_p ce))) av bv bbr) by reflexivity.
      match goal with |- ?L = _ => assert (HL : L = match oa, ob, alookup b (pd_br (p_cur (p_initbi (ce_p ce)))) with
                 | Some ab, Some bb, Some brb => fc_on ws q (p_view (p_initbi (ce_p ce))) (dec_hb ab) (dec_la bb) (dec_br brb)
                 | _, _, _ => false end) by (destruct oa, ob, (alookup b (pd_br (p_cur (p_initbi (ce_p ce))))); try reflexivity; apply Hsh) end.
      rewrite HL. clear HL Hsh.
      rewrite p_view_initbi, fc_as_fc_on, <- (pr_cur n _ _ R). unfold p_view at 2 3 4. cbn [hb la ebr].
      rewrite !alookup_dec_tbl. cbn [p_initbi p_cur]. cbn [ce_hb_t t_cur] in Ha. rewrite <- Ha.
      destruct oa as [ab|]; cbn [option_map]; [|reflexivity].
      rewrite (Hob ltac:(discriminate)). cbn [ce_la_t t_cur].
      destruct (alookup b (pd_la (p_cur (ce_p ce)))) as [bb|]; cbn [option_map]; [|reflexivity].
      destruct (alookup b (pd_br (p_cur (ce_p ce)))) as [brb|]; cbn [option_map]; reflexivity. }
    rewrite Hr. split; [reflexivity|]. split; [reflexivity|]. split; [apply p_view_initbi|].
    cbn [p_initbi p_db p_cur p_evs p_evs_fl p_n p_bi]. repeat (split; [reflexivity|]).
    split; [discriminate|]. split; [reflexivity|]. split.
    + eapply coh_tables; [exact Cha|..]; cbn [ce_hb_t t_cur t_fl t_c ce_p ce_hbc p_initbi p_cur p_db]; auto.
    + eapply coh_tables; [exact Clat|..]; cbn [ce_la_t t_cur t_fl t_c ce_p ce_lac p_initbi p_cur p_db]; auto.
Qed.

Lemma firstn_app_exact {A} (a b : list A) : firstn (length (a ++ b) - length b) (a ++ b) = a.
Proof. rewrite app_length. replace (length a + length b - length b)%nat with (length a) by lia. rewrite firstn_app, Nat.sub_diag, firstn_O, app_nil_r. apply firstn_all. Qed.
Lemma dec_tbl_app {A} (dec : list N -> A) t1 t2 : dec_tbl dec (t1 ++ t2) = dec_tbl dec t1 ++ dec_tbl dec t2.
Proof. apply map_app. Qed.
Lemma dec_tbl_length {A} (dec : list N -> A) t : length (dec_tbl dec t) = length t.
Proof. apply map_length. Qed.

Lemma hst_ok_new_cache ws q n U vs c out cap : hst_ok ws q n U (vs, c, out) -> hst_ok ws q n U (vs, fcache_new cap, out).
Proof. intros (A & B & C & D & _ & F). unfold hst_ok. repeat (split; [assumption|]). split; [intros k r []|exact F]. Qed.

Theorem cstep_ok ws q n U st o : 0 < q -> cinv ws q n U st -> cop_ok n U (fst st) o -> cinv ws q n U (cstep ws q st o).
Proof.
  intros Hq. destruct st as [ce out]. intros (vs & R & H & Chb & Cla & Lc & Lf & Hd) Hok. cbn [fst] in Hok.
  pose proof (pr_cur n _ _ R) as Hcur. unfold ce_view in Hok.
  destruct o as [e|a b| | |cap mw ms]; cbn [cstep cop_ok] in *; unfold ce_view in *.
  - (* Add, written key by key through the caches *)
    destruct Hok as (We & HU & Hs & Hnb). rewrite Hcur in We, Hnb.
    pose proof (pr_icur n _ _ R) as Ic.
    destruct (add_shape n (vs_cur vs) e Ic We Lc) as (s' & hv & pre & me & Hadd & Hhb & Hla & Hbr & Hevs & Hnbr & Ls').
    destruct (add_preserves n (vs_cur vs) e Ic We) as (s1 & Hadd1 & I1 & _). rewrite Hadd in Hadd1. injection Hadd1 as <-.
    assert (B1 : vbounded s') by (apply (add_bounded n (vs_cur vs) e s' Ic We Hadd (pr_bcur n _ _ R) Hs); lia).
    unfold ce_add. rewrite Hcur, Hadd, Hhb, Hbr. cbn [snd].
    assert (Hnew : la_new (vs_cur vs) s' = rev pre).
    { unfold la_new. rewrite Hla, firstn_app_exact. reflexivity. }
    rewrite Hnew.
    set (hbt := t_set (eid e) (enc_hb hv) (ce_hb_t ce)).
    set (lat := t_sets enc_la (rev pre) (ce_la_t ce)).
    assert (Hlat : t_cur lat = map (fun kv => (fst kv, enc_la (snd kv))) pre ++ pd_la (p_cur (ce_p ce))).
    { unfold lat. rewrite t_sets_cur, map_rev, rev_involutive. reflexivity. }
    destruct B1 as (Bh & Bl & Bb).
    exists (snd (vs_add vs e)). unfold vs_add. rewrite Hadd. cbn [snd].
    assert (Hhbs : hb (vs_cur vs) = dec_tbl dec_hb (pd_hb (p_cur (ce_p ce)))) by (rewrite <- Hcur; reflexivity).
    assert (Hlas : la (vs_cur vs) = dec_tbl dec_la (pd_la (p_cur (ce_p ce)))) by (rewrite <- Hcur; reflexivity).
    assert (Hbrs : ebr (vs_cur vs) = dec_tbl dec_br (pd_br (p_cur (ce_p ce)))) by (rewrite <- Hcur; reflexivity).
    split; [|split; [|split; [|split; [|split; [exact Ls'|split; [exact Lf|discriminate]]]]]].
    + (* the view of the new byte tables is the new abstract state *)
      destruct R as [Rn _ Rfl _ Rif Rbc Rbf Rbi _].
      constructor; cbn [ce_p p_n p_bi p_db p_evs_fl p_cur p_evs vs_cur vs_flushed pd_bi]; auto; [|repeat split; assumption|discriminate].
      unfold p_view, p_binfo. cbn [p_bi p_n p_cur p_evs pd_hb pd_la pd_br bi_of bi_last bi_cr bi_by].
      unfold hbt. cbn [t_set t_cur ce_hb_t]. rewrite Hlat.
      unfold aput. cbn [dec_tbl map fst snd]. fold (dec_tbl dec_hb (pd_hb (p_cur (ce_p ce)))). fold (dec_tbl dec_br (pd_br (p_cur (ce_p ce)))).
      rewrite dec_tbl_app. rewrite <- Hhbs, <- Hlas, <- Hbrs.
      rewrite (dec_enc_hb hv) by (apply (Bh (eid e)); rewrite Hhb; left; reflexivity).
      rewrite (dec_enc_br me) by (apply (Bb (eid e)); rewrite Hbr; left; reflexivity).
      assert (Hpre : dec_tbl dec_la (map (fun kv => (fst kv, enc_la (snd kv))) pre) = pre).
      { unfold dec_tbl. rewrite map_map. rewrite <- (map_id pre) at 2. apply map_ext_in. intros [k v] Hin. cbn [fst snd].
        rewrite dec_enc_la; [reflexivity|]. apply (Bl k). rewrite Hla. apply in_or_app. left. exact Hin. }
      rewrite Hpre, <- Hhb, <- Hla, <- Hbr, Rn, <- (vinv_nvals n s' I1). destruct s'; reflexivity.
    + pose proof (hstep_ok ws q n U (vs, ce_fc ce, out) (HAdd e) Hq H) as H'. cbn [hstep wf_hops] in H'.
      unfold vs_add in H'. rewrite Hadd in H'. cbn [snd] in H'. cbn [ce_fc]. apply H'. auto.
    + eapply coh_tables; [apply (t_set_coh (eid e) (enc_hb hv) (ce_hb_t ce) Chb)|..]; fold hbt; cbn [ce_hb_t ce_p ce_hbc p_cur p_db pd_hb t_cur t_fl t_c]; try reflexivity.
      destruct Ls' as [Lh _]. apply (small_len8 hv (S (nbr (vs_cur vs)))); [|exact Hnb].
      specialize (Lh (eid e) hv). rewrite Hhb in Lh. specialize (Lh (or_introl eq_refl)). lia.
    + eapply coh_tables; [apply (t_sets_coh enc_la (rev pre) (ce_la_t ce) Cla)|..]; fold lat; cbn [ce_la_t ce_p ce_lac p_cur p_db pd_la t_cur t_fl t_c]; try reflexivity.
      * intros [k v] Hin. cbn [snd]. apply in_rev in Hin. destruct Ls' as [_ Ll].
        apply (small_len4 v (S (nbr (vs_cur vs)))); [|exact Hnb].
        specialize (Ll k v). rewrite Hla in Ll. specialize (Ll (in_or_app _ _ _ (or_introl Hin))). lia.
      * unfold lat. rewrite t_sets_fl. reflexivity.
  - (* cached query: the vectors come through t_get *)
    destruct Hok as (Ha & Hb). rewrite Hcur in Ha, Hb.
    destruct (query_through_caches ws q n ce vs a b R Chb Cla) as (Q1 & Q2 & Q3 & Q4 & Q5 & Q6 & Q7 & Q8 & Q9 & Q10 & Q11 & Q12).
    destruct (ce_query ws q ce a b) as [r ce'] eqn:Hqr. cbn [fst snd] in *.
    exists vs. split; [|split; [|split; [exact Q11|split; [exact Q12|split; [exact Lc|split; [exact Lf|]]]]]].
    + destruct R as [Rn Rcur Rfl Ric Rif Rbc Rbf Rbi Rnil].
      constructor.
      * rewrite Q8. exact Rn.
      * rewrite Q3. exact Rcur.
      * rewrite Q7, Q4. exact Rfl.
      * exact Ric.
      * exact Rif.
      * exact Rbc.
      * exact Rbf.
      * rewrite Q5, Q4. exact Rbi.
      * intros Hnone. rewrite Q5, Q4, Q6, Q7. apply Rnil. apply Q9. exact Hnone.
    + pose proof (hstep_ok ws q n U (vs, ce_fc ce, out) (HQuery a b) Hq H) as H'. cbn [hstep wf_hops] in H'.
      destruct (fc_query ws q (vs_cur vs) (ce_fc ce) a b) as [r0 c0]. cbn [fst snd] in *. subst r0 c0.
      rewrite Hcur. apply H'. auto.
    + rewrite Q10, Q5, Q4, Q6, Q7. exact Hd.
  - (* Flush *)
    exists (vs_flush vs). split; [apply (p_step_sim n (ce_p ce) vs PFlush R I)|].
    split; [apply (hstep_ok ws q n U (vs, ce_fc ce, out) HFlush Hq H); exact I|].
    destruct Chb as (I1 & A1 & B1 & C1). destruct Cla as (I2 & A2 & B2 & C2).
    unfold coh, ce_flush, ce_hb_t, ce_la_t, p_flush. cbn [ce_p ce_hbc ce_lac ce_dirty p_db p_cur p_evs p_evs_fl pd_hb pd_la t_fl t_cur t_c vs_flush vs_cur vs_flushed].
    cbn [ce_hb_t ce_la_t t_cur t_fl t_c] in *. repeat (split; auto).
  - (* DropNotFlushed: vectors caches purged iff something was unflushed; the FC cache stays *)
    exists (vs_drop vs). split; [apply (p_step_sim n (ce_p ce) vs PDrop R I)|].
    split; [apply (hstep_ok ws q n U (vs, ce_fc ce, out) HDrop Hq H); exact I|].
    unfold ce_drop. cbn [ce_p ce_hbc ce_lac ce_dirty vs_drop vs_cur vs_flushed].
    destruct (ce_dirty ce) eqn:Hdirty.
    + split; [apply (coh_purge (ce_hb_t ce) Chb)|]. split; [apply (coh_purge (ce_la_t ce) Cla)|]. auto.
    + destruct (Hd eq_refl) as [Hcd Hev].
      split; [eapply coh_tables; [exact Chb|..]; cbn [ce_hb_t ce_p p_drop p_cur p_db t_cur t_fl t_c ce_hbc]; rewrite ?Hcd; reflexivity|].
      split; [eapply coh_tables; [exact Cla|..]; cbn [ce_la_t ce_p p_drop p_cur p_db t_cur t_fl t_c ce_lac]; rewrite ?Hcd; reflexivity|]. auto.
  - (* restart: a new Index object, all three caches new *)
    destruct Hok as [Hmw Hms]. unfold Wlru.new. rewrite Hms.
    exists (vs_drop vs). split; [apply (p_step_sim n (ce_p ce) vs PRestart R I)|].
    split; [apply (hst_ok_new_cache ws q n U (vs_drop vs) (ce_fc ce) out cap);
            apply (hstep_ok ws q n U (vs, ce_fc ce, out) HDrop Hq H); exact I|].
    assert (Hinv0 : @WlruProofs.inv N (list N) (mkCache [] 0 mw (z_to_N ms) false))
      by (apply (new_inv mw ms); [exact Hmw|unfold Wlru.new; rewrite Hms; reflexivity]).
    destruct Chb as (_ & _ & _ & C1). destruct Cla as (_ & _ & _ & C2).
    unfold ce_restart. cbn [ce_p ce_hbc ce_lac ce_dirty vs_drop vs_cur vs_flushed].
    split; [unfold coh, ce_hb_t; cbn [ce_p ce_hbc p_restart p_cur p_db t_cur t_fl t_c c_entries]; split; [exact Hinv0|split; [intros e' []|split; exact C1]]|].
    split; [unfold coh, ce_la_t; cbn [ce_p ce_lac p_restart p_cur p_db t_cur t_fl t_c c_entries]; split; [exact Hinv0|split; [intros e' []|split; exact C2]]|].
    auto.
Qed.

Fixpoint cops_ok ws q (n : nat) U (st : ceng * list cout) (ops : list cop) : Prop :=
  match ops with [] => True | o :: r => cop_ok n U (fst st) o /\ cops_ok ws q n U (cstep ws q st o) r end.
Lemma cinv_new ws q n U cap mw ms c0 : small mw -> Wlru.new mw ms = Some c0 -> cinv ws q n U (ce_new n cap c0 c0, []).
Proof.
  intros Hmw Hnew. exists (vs_init n). split; [apply prel_init|].
  split.
  { unfold hst_ok. cbn [vs_init vs_flushed vs_cur ce_new ce_fc fcache_new fc_items].
    split; [apply vinv_init|]. split; [apply vinv_init|]. split; [intros x ex Hx; discriminate Hx|].
    split; [intros x ex Hx; discriminate Hx|]. split; [intros k r []|intros a b r E []]. }
  pose proof (coh_new mw ms c0 Hmw Hnew) as C.
  split; [exact C|]. split; [exact C|]. split; [split; intros k v []|]. split; [split; intros k v []|]. auto.
Qed.

(* ONE history theorem over the composed engine: Adds written key by key through the HB/LA caches, queries
   through the ForklessCause LRU and (on a miss) t_get, Flush, DropNotFlushed (vector caches purged iff
   dirty, FC LRU kept) and Restart (new object: three new caches of any capacity): every answer equals the
   specification on the view that was current when it was asked *)
Theorem engine_history_answers ws q n U cap mw ms c0 ops : 0 < q -> small mw -> Wlru.new mw ms = Some c0 ->
  cops_ok ws q n U (ce_new n cap c0 c0, []) ops ->
  forall a b r E, In (a, b, r, E) (snd (fold_left (cstep ws q) ops (ce_new n cap c0 c0, []))) -> r = fc_spec ws q n E a b.
Proof.
  intros Hq Hmw Hnew W.
  assert (Hfin : cinv ws q n U (fold_left (cstep ws q) ops (ce_new n cap c0 c0, []))).
  { pose proof (cinv_new ws q n U cap mw ms c0 Hmw Hnew) as H0. revert H0 W.
    generalize (ce_new n cap c0 c0, @nil cout). induction ops as [|o ops IH]; intros st H0 W; cbn [fold_left]; [exact H0|].
    destruct W as [Wo Wr]. apply IH; [apply cstep_ok; assumption|exact Wr]. }
  destruct (fold_left (cstep ws q) ops (ce_new n cap c0 c0, [])) as [ce out]. cbn [snd].
  destruct Hfin as (vs & _ & (_ & _ & _ & _ & _ & Ho) & _). exact Ho.
Qed.
(* restart and drop are different transformers *)
Lemma restart_differs_from_drop : exists ce cap c0, ce_fc (ce_restart cap c0 c0 ce) <> ce_fc (ce_drop ce).
Proof.
  exists {| ce_p := p_init 1; ce_dirty := false; ce_hbc := mkCache [] 0 0 0 false; ce_lac := mkCache [] 0 0 0 false;
            ce_fc := {| fc_cap := 5; fc_items := [((1, 1), true)] |} |}, 5%nat, (mkCache [] 0 0 0 false).
  cbn. discriminate.
Qed.

(* ====================== Round 5: Reset of the same object ====================== *)
Lemma quorum_of_pos ws : 0 < quorum_of ws.
Proof. unfold quorum_of. lia. Qed.
Lemma coh_purge_empty (c : bcache) : @WlruProofs.inv N (list N) c -> coh {| t_fl := []; t_cur := []; t_c := purge_b c |}.
Proof.
  intros I. unfold coh, purge_b. cbn [t_c t_cur t_fl Wlru.purge fst c_entries].
  split; [eapply purge_inv; [exact I|unfold Wlru.purge; reflexivity]|]. split; [intros e []|].
  split; intros k b H; discriminate H.
Qed.

(* the U of a segment is a ghost: every event added in the segment is drawn from it *)
Definition rinv (U : list (N * event)) (st : rstate) : Prop :=
  cinv (r_ws st) (quorum_of (r_ws st)) (r_n st) U (r_ce st, r_out st) /\
  forall ws n a b r E, In (ws, n, (a, b, r, E)) (r_arch st) -> r = fc_spec ws (quorum_of ws) n E a b.

Lemma cinv_out ws q n U ce out : cinv ws q n U (ce, out) -> forall a b r E, In (a, b, r, E) out -> r = fc_spec ws q n E a b.
Proof. intros (vs & _ & (_ & _ & _ & _ & _ & Ho) & _). exact Ho. Qed.

Lemma rinv_archive U st : rinv U st ->
  forall ws n a b r E, In (ws, n, (a, b, r, E)) (map (fun x => (r_ws st, r_n st, x)) (r_out st) ++ r_arch st) ->
    r = fc_spec ws (quorum_of ws) n E a b.
Proof.
  intros [C A] ws n a b r E Hin. apply in_app_or in Hin. destruct Hin as [Hin|Hin]; [|eapply A; eauto].
  apply in_map_iff in Hin. destruct Hin as ([[[a' b'] r'] E'] & Heq & Hin). injection Heq as <- <- <- <- <- <-.
  eapply cinv_out; eauto.
Qed.

(* Reset onto the same database: same validator count, any weights; the ghost universe may change as long as
   the flushed events belong to it (an unflushed event lost by the Reset may be REPLACED by another event with
   the same id) *)
Lemma reset_same_ok ws q n U ce out ws' U' : cinv ws q n U (ce, out) ->
  submap (evs (p_view (p_restart (ce_p ce)))) U' ->
  cinv ws' (quorum_of ws') n U' (ce_reset_same ce, []).
Proof.
  intros (vs & R & H & Chb & Cla & Lc & Lf & Hd) HU.
  pose proof (p_step_sim n (ce_p ce) vs PRestart R I) as R'. cbn [p_step vop_of vs_step] in R'.
  exists (vs_drop vs). split; [exact R'|].
  rewrite (pr_cur n _ _ R') in HU. cbn [vs_drop vs_cur] in HU.
  split.
  { unfold hst_ok. cbn [vs_drop vs_cur vs_flushed ce_reset_same ce_fc fcache_purge fc_items].
    split; [apply (pr_ifl n _ _ R)|]. split; [apply (pr_ifl n _ _ R)|]. split; [exact HU|]. split; [exact HU|].
    split; [intros k r []|intros a b r E []]. }
  unfold ce_reset_same. cbn [ce_p ce_hbc ce_lac ce_dirty vs_drop vs_cur vs_flushed].
  split; [apply (coh_purge (ce_hb_t ce) Chb)|]. split; [apply (coh_purge (ce_la_t ce) Cla)|]. auto.
Qed.
(* Reset onto another (empty) database: any validator count *)
Lemma reset_fresh_ok ws q n U ce out ws' n' U' : cinv ws q n U (ce, out) ->
  cinv ws' (quorum_of ws') n' U' (ce_reset_fresh n' ce, []).
Proof.
  intros (vs & R & H & (Ihb & _) & (Ila & _) & _).
  exists (vs_init n'). split; [apply prel_init|].
  split.
  { unfold hst_ok. cbn [vs_init vs_flushed vs_cur ce_reset_fresh ce_fc fcache_purge fc_items].
    split; [apply vinv_init|]. split; [apply vinv_init|]. split; [intros x ex Hx; discriminate Hx|].
    split; [intros x ex Hx; discriminate Hx|]. split; [intros k r []|intros a b r E []]. }
  unfold ce_reset_fresh, ce_hb_t, ce_la_t. cbn [ce_p ce_hbc ce_lac ce_dirty p_init p_db p_cur pdb_empty pd_hb pd_la].
  split; [apply coh_purge_empty; exact Ihb|]. split; [apply coh_purge_empty; exact Ila|].
  split; [split; intros k v []|]. split; [split; intros k v []|]. auto.
Qed.

(* side conditions of a step of a reuse history; the ghost universes are given per segment by [Us] *)
Definition rop_ok (U U' : list (N * event)) (st : rstate) (o : rop) : Prop :=
  match o with
  | RO o => cop_ok (r_n st) U (r_ce st) o /\ U' = U
  | RResetSame _ => submap (evs (p_view (p_restart (ce_p (r_ce st))))) U'
  | RResetFresh _ _ => True end.
Theorem rstep_ok U U' st o : rinv U st -> rop_ok U U' st o -> rinv U' (rstep st o).
Proof.
  intros Hinv Hok. pose proof (rinv_archive U st Hinv) as Harch. destruct Hinv as [C A].
  destruct o as [o|ws'|ws' n']; cbn [rstep rop_ok] in *.
  - destruct Hok as [Hok ->].
    pose proof (cstep_ok (r_ws st) (quorum_of (r_ws st)) (r_n st) U (r_ce st, r_out st) o (quorum_of_pos _) C Hok) as C'.
    destruct (cstep (r_ws st) (quorum_of (r_ws st)) (r_ce st, r_out st) o) as [ce out].
    split; [exact C'|exact A].
  - split; [|exact Harch]. cbn [r_ws r_n r_ce r_out]. eapply reset_same_ok; eauto.
  - split; [|exact Harch]. cbn [r_ws r_n r_ce r_out]. eapply reset_fresh_ok; eauto.
Qed.

(* histories with their per-step ghost universes *)
Fixpoint rops_ok (U : list (N * event)) (st : rstate) (ops : list (rop * list (N * event))) : Prop :=
  match ops with [] => True
  | (o, U') :: r => rop_ok U U' st o /\ rops_ok U' (rstep st o) r end.
Definition r_init (ws : list N) (n : nat) (cap : nat) (c0 : bcache) : rstate :=
  {| r_ws := ws; r_n := n; r_ce := ce_new n cap c0 c0; r_out := []; r_arch := [] |}.

(* C05 for a REUSED Index object: any history of Adds, cached queries, Flushes, Drops, restarts AND Resets of
   the same object (same DB with other weights, or another DB with another validator set), with events of a lost
   unflushed tail possibly replaced by other events of the same id: every answer ever given equals the
   specification under the weights / validators and on the view current when it was asked *)
Theorem reuse_history_answers ws n cap mw ms c0 U ops : small mw -> Wlru.new mw ms = Some c0 ->
  rops_ok U (r_init ws n cap c0) ops ->
  forall ws1 n1 a b r E, In (ws1, n1, (a, b, r, E)) (r_answers (fold_left rstep (map fst ops) (r_init ws n cap c0))) ->
    r = fc_spec ws1 (quorum_of ws1) n1 E a b.
Proof.
  intros Hmw Hnew W.
  assert (H0 : rinv U (r_init ws n cap c0)).
  { split; [apply (cinv_new ws (quorum_of ws) n U cap mw ms c0 Hmw Hnew)|intros ? ? ? ? ? ? []]. }
  assert (Hfin : exists Uf, rinv Uf (fold_left rstep (map fst ops) (r_init ws n cap c0))).
  { revert H0 W. generalize (r_init ws n cap c0). revert U.
    induction ops as [|[o U'] ops IH]; intros U st H0 W; cbn [map fold_left fst]; [exists U; exact H0|].
    destruct W as [Wo Wr]. apply (IH U'); [eapply rstep_ok; eauto|exact Wr]. }
  destruct Hfin as [Uf Hf]. intros ws1 n1 a b r E Hin. unfold r_answers in Hin. eapply rinv_archive; eauto.
Qed.

(* ====================== Round 6: Reset onto a fresh DB with ANOTHER validator count; merged clocks ====================== *)
(* after a Reset onto a new, empty database the reused object is exactly a new index for n' validators:
   empty view (BranchesInfo = newInitialBranchesInfo n'), all three caches empty *)
Theorem reset_fresh_is_init n' ce :
  ce_view (ce_reset_fresh n' ce) = init n' /\ fc_items (ce_fc (ce_reset_fresh n' ce)) = [] /\
  c_entries (ce_hbc (ce_reset_fresh n' ce)) = [] /\ c_entries (ce_lac (ce_reset_fresh n' ce)) = [] /\
  ce_dirty (ce_reset_fresh n' ce) = false.
Proof. repeat split. Qed.

(* GetMergedHighestBefore through the HighestBefore cache *)
Lemma merged_through_cache n ce vs a : prel n (ce_p ce) vs -> coh (ce_hb_t ce) ->
  fst (ce_merged ce a) = merged (vs_cur vs) a.
Proof.
  intros R C. unfold ce_merged.
  destruct (t_get_transparent a (ce_hb_t ce) C) as (Ha & _).
  destruct (t_get a (ce_hb_t ce)) as [oa hbt]. cbn [fst snd] in *.
  rewrite merged_as_merged_on, <- (pr_cur n _ _ R). unfold p_view at 1. cbn [hb].
  rewrite alookup_dec_tbl. cbn [ce_hb_t t_cur] in Ha. rewrite <- Ha.
  destruct oa as [ab|]; cbn [option_map]; [|reflexivity].
  rewrite merged_on_shape, p_view_initbi. reflexivity.
Qed.
Theorem cinv_merged ws q n U ce out a ea : cinv ws q n U (ce, out) -> evt (ce_view ce) a ea ->
  map proj (fst (ce_merged ce a)) = merged_spec n (evs (ce_view ce)) a.
Proof.
  intros (vs & R & _ & Chb & _) Ha. rewrite (merged_through_cache n ce vs a R Chb).
  unfold ce_view in *. rewrite (pr_cur n _ _ R) in *. apply (merged_eq_spec n _ (pr_icur n _ _ R) a ea Ha).
Qed.
(* C06 for a reused object: after any reuse history (Resets onto the same or another DB, other validator counts
   included) the merged clock read through the cache equals the specification for the CURRENT validator count *)
Theorem reuse_history_merged ws n cap mw ms c0 U ops a ea : small mw -> Wlru.new mw ms = Some c0 ->
  rops_ok U (r_init ws n cap c0) ops ->
  let st := fold_left rstep (map fst ops) (r_init ws n cap c0) in
  evt (ce_view (r_ce st)) a ea ->
  map proj (fst (ce_merged (r_ce st) a)) = merged_spec (r_n st) (evs (ce_view (r_ce st))) a.
Proof.
  intros Hmw Hnew W.
  assert (H0 : rinv U (r_init ws n cap c0)).
  { split; [apply (cinv_new ws (quorum_of ws) n U cap mw ms c0 Hmw Hnew)|intros ? ? ? ? ? ? []]. }
  assert (Hfin : exists Uf, rinv Uf (fold_left rstep (map fst ops) (r_init ws n cap c0))).
  { revert H0 W. generalize (r_init ws n cap c0). revert U.
    induction ops as [|[o U'] ops IH]; intros U st H0 W; cbn [map fold_left fst]; [exists U; exact H0|].
    destruct W as [Wo Wr]. apply (IH U'); [eapply rstep_ok; eauto|exact Wr]. }
  destruct Hfin as [Uf [Hc _]]. cbn zeta. intros Ha. eapply cinv_merged; eauto.
Qed.
