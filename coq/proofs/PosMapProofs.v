(* C12: the builder as a finite map.  Association-list lemmas: Set/delete semantics, last
   write wins (= PosSpec.eff), two well-formed maps with equal lookups are permutations. *)
From Coq Require Import NArith List Lia Bool Permutation.
From Coq Require Import ZifyBool ZifyNat ZifyN.
From LV Require Import lib.WordArith model.Pos spec.PosSpec.
Import ListNotations.
Local Open Scope N_scope.

Definition keys (m : vmap) : list N := map fst m.
Definition vmap_ok (m : vmap) : Prop := NoDup (keys m) /\ Forall (fun p => snd p <> 0) m.

Lemma vmap_ok_nil : vmap_ok [].
Proof. split; [constructor|constructor]. Qed.

Lemma vremove_In p id m : In p (vremove id m) <-> In p m /\ fst p <> id.
Proof.
  induction m as [|[i w] m IH]; cbn [vremove In]; [tauto|].
  destruct (N.eqb_spec i id) as [E|E].
  - rewrite IH. split.
    + intros [H1 H2]. split; [right; exact H1|exact H2].
    + intros [[H1|H1] H2]; [subst p; cbn [fst] in H2; congruence|split; assumption].
  - cbn [In]. rewrite IH. split.
    + intros [H|[H1 H2]]; [subst p; split; [left; reflexivity|exact E]|split; [right; exact H1|exact H2]].
    + intros [[H1|H1] H2]; [left; exact H1|right; split; assumption].
Qed.

Lemma vremove_keys k id m : In k (keys (vremove id m)) <-> In k (keys m) /\ k <> id.
Proof.
  unfold keys. rewrite !in_map_iff. split.
  - intros [p [Hp Hin]]. apply vremove_In in Hin. destruct Hin as [Hin Hne]. subst k.
    split; [exists p; split; [reflexivity|exact Hin]|exact Hne].
  - intros [[p [Hp Hin]] Hne]. exists p. split; [exact Hp|]. apply vremove_In. subst k. split; assumption.
Qed.

Lemma vremove_notin id m : ~ In id (keys m) -> vremove id m = m.
Proof.
  induction m as [|[i w] m IH]; cbn [vremove keys map fst In]; intros H; [reflexivity|].
  destruct (N.eqb_spec i id) as [E|E]; [exfalso; apply H; left; exact E|].
  f_equal. apply IH. intros Hin. apply H. right. exact Hin.
Qed.

Lemma vremove_nodup id m : NoDup (keys m) -> NoDup (keys (vremove id m)).
Proof.
  induction m as [|[i w] m IH]; cbn [vremove keys map fst]; intros H; [constructor|].
  inversion H as [|? ? Hni Hnd]; subst.
  destruct (N.eqb_spec i id) as [E|E]; [apply IH; exact Hnd|].
  cbn [map fst]. constructor; [|apply IH; exact Hnd].
  intros Hin. apply (vremove_keys i id m) in Hin. apply Hni. apply Hin.
Qed.

Lemma vremove_nonzero id m : Forall (fun p => snd p <> 0) m -> Forall (fun p => snd p <> 0) (vremove id m).
Proof.
  intros H. rewrite Forall_forall in *. intros p Hp. apply vremove_In in Hp. apply H. apply Hp.
Qed.

Lemma vset_ok m id w : vmap_ok m -> vmap_ok (vset m id w).
Proof.
  intros [Hnd Hnz]. unfold vset. destruct (N.eqb_spec w 0) as [E|E].
  - split; [apply vremove_nodup; exact Hnd|apply vremove_nonzero; exact Hnz].
  - split.
    + cbn [keys map fst]. constructor; [|apply vremove_nodup; exact Hnd].
      intros Hin. apply (vremove_keys id id m) in Hin. destruct Hin as [_ Hne]. congruence.
    + constructor; [exact E|apply vremove_nonzero; exact Hnz].
Qed.

Lemma apply_sets_ok ops m : vmap_ok m -> vmap_ok (apply_sets ops m).
Proof.
  revert m. induction ops as [|[i w] ops IH]; intros m H; [exact H|].
  cbn [apply_sets fold_left fst snd]. apply IH. apply vset_ok. exact H.
Qed.

Lemma vget_vremove_same id m : vget (vremove id m) id = 0.
Proof.
  induction m as [|[i w] m IH]; cbn [vremove vget]; [reflexivity|].
  destruct (N.eqb_spec i id) as [E|E]; [exact IH|]. cbn [vget].
  destruct (N.eqb_spec i id); [congruence|exact IH].
Qed.

Lemma vget_vremove_other id id' m : id <> id' -> vget (vremove id' m) id = vget m id.
Proof.
  intros Hne. induction m as [|[i w] m IH]; cbn [vremove vget]; [reflexivity|].
  destruct (N.eqb_spec i id') as [E|E].
  - destruct (N.eqb_spec i id) as [E2|E2]; [congruence|exact IH].
  - cbn [vget]. destruct (N.eqb_spec i id); [reflexivity|exact IH].
Qed.

Lemma vget_vset m id' w id : vget (vset m id' w) id = if id' =? id then w else vget m id.
Proof.
  unfold vset. destruct (N.eqb_spec w 0) as [E|E].
  - destruct (N.eqb_spec id' id) as [E2|E2].
    + subst. apply vget_vremove_same.
    + apply vget_vremove_other. congruence.
  - cbn [vget]. destruct (N.eqb_spec id' id) as [E2|E2]; [reflexivity|].
    apply vget_vremove_other. congruence.
Qed.

Lemma vget_apply_sets ops m id :
  vget (apply_sets ops m) id = fold_left (fun acc p => if fst p =? id then snd p else acc) ops (vget m id).
Proof.
  revert m. induction ops as [|[i w] ops IH]; intros m; [reflexivity|].
  cbn [apply_sets fold_left fst snd]. unfold apply_sets in IH. rewrite IH. rewrite vget_vset. reflexivity.
Qed.

Lemma vget_eff ops id : vget (apply_sets ops []) id = eff ops id.
Proof. rewrite vget_apply_sets. reflexivity. Qed.

Lemma vget_notin m id : ~ In id (keys m) -> vget m id = 0.
Proof.
  induction m as [|[i w] m IH]; cbn [vget keys map fst In]; intros H; [reflexivity|].
  destruct (N.eqb_spec i id) as [E|E]; [exfalso; apply H; left; exact E|].
  apply IH. intros Hin. apply H. right. exact Hin.
Qed.

Lemma vget_In m id w : vmap_ok m -> (In (id, w) m <-> vget m id = w /\ w <> 0).
Proof.
  intros [Hnd Hnz]. induction m as [|[i v] m IH]; cbn [vget In].
  - split; [tauto|]. intros [H1 H2]. congruence.
  - inversion Hnd as [|? ? Hni Hnd']; subst. inversion Hnz as [|? ? Hv Hnz']; subst. cbn [snd] in Hv.
    specialize (IH Hnd' Hnz'). destruct (N.eqb_spec i id) as [E|E].
    + subst i. split.
      * intros [H|H]; [inversion H; subst; split; [reflexivity|exact Hv]|].
        exfalso. apply Hni. unfold keys. apply in_map_iff. exists (id, w). split; [reflexivity|exact H].
      * intros [H1 H2]. left. congruence.
    + rewrite <- IH. split; [intros [H|H]; [inversion H; congruence|exact H]|intros H; right; exact H].
Qed.

Lemma vmap_nodup m : NoDup (keys m) -> NoDup m.
Proof. unfold keys. apply NoDup_map_inv. Qed.

(* extensionality up to order *)
Lemma vmap_perm m1 m2 : vmap_ok m1 -> vmap_ok m2 -> (forall id, vget m1 id = vget m2 id) -> Permutation m1 m2.
Proof.
  intros H1 H2 Hg. apply NoDup_Permutation; [apply vmap_nodup; apply H1|apply vmap_nodup; apply H2|].
  intros [id w]. rewrite (vget_In m1 id w H1), (vget_In m2 id w H2), Hg. tauto.
Qed.

Lemma vget_perm m1 m2 id : vmap_ok m1 -> Permutation m1 m2 -> vget m1 id = vget m2 id.
Proof.
  intros H1 HP.
  assert (H2 : vmap_ok m2).
  { destruct H1 as [Hnd Hnz]. split.
    - unfold keys. apply (Permutation_NoDup (l := map fst m1)); [apply Permutation_map; exact HP|exact Hnd].
    - rewrite Forall_forall in *. intros p Hp. apply Hnz. apply (Permutation_in p (Permutation_sym HP)). exact Hp. }
  destruct (N.eq_dec (vget m1 id) 0) as [E|E].
  - destruct (N.eq_dec (vget m2 id) 0) as [E2|E2]; [congruence|].
    assert (Hin : In (id, vget m2 id) m2) by (apply vget_In; [exact H2|split; [reflexivity|exact E2]]).
    apply (Permutation_in _ (Permutation_sym HP)) in Hin. apply vget_In in Hin; [|exact H1]. tauto.
  - assert (Hin : In (id, vget m1 id) m1) by (apply vget_In; [exact H1|split; [reflexivity|exact E]]).
    apply (Permutation_in _ HP) in Hin. apply vget_In in Hin; [|exact H2]. symmetry. tauto.
Qed.

Lemma vmap_ok_perm m1 m2 : vmap_ok m1 -> Permutation m1 m2 -> vmap_ok m2.
Proof.
  intros [Hnd Hnz] HP. split.
  - unfold keys. apply (Permutation_NoDup (l := map fst m1)); [apply Permutation_map; exact HP|exact Hnd].
  - rewrite Forall_forall in *. intros p Hp. apply Hnz. apply (Permutation_in p (Permutation_sym HP)). exact Hp.
Qed.

(* newValidators copies the map through Set: on a well-formed map that is a reversal *)
Lemma copy_gen m acc : vmap_ok (m ++ acc) -> apply_sets m acc = rev m ++ acc.
Proof.
  revert acc. induction m as [|[i w] m IH]; intros acc H; [reflexivity|].
  cbn [apply_sets fold_left fst snd rev]. rewrite <- app_assoc. cbn [app].
  assert (Hw : w <> 0).
  { destruct H as [_ Hnz]. inversion Hnz; subst. assumption. }
  assert (Hni : ~ In i (keys acc)).
  { destruct H as [Hnd _]. cbn [app keys map fst] in Hnd. inversion Hnd as [|? ? Hn _]; subst.
    intros Hin. apply Hn. unfold keys in *. rewrite map_app. apply in_or_app. right. exact Hin. }
  unfold vset. destruct (N.eqb_spec w 0) as [E|_]; [congruence|].
  rewrite (vremove_notin i acc Hni). unfold apply_sets in IH. apply IH.
  apply (vmap_ok_perm ((i, w) :: m ++ acc)); [exact H|]. apply Permutation_middle.
Qed.

Lemma copy_rev m : vmap_ok m -> apply_sets m [] = rev m.
Proof. intros H. rewrite copy_gen by (rewrite app_nil_r; exact H). apply app_nil_r. Qed.

(* ---- the specification's pair set is such a map with the same lookups ---- *)
Lemma nodup_ids_In x l : In x (nodup_ids l) <-> In x l.
Proof.
  induction l as [|y l IH]; cbn [nodup_ids In]; [tauto|].
  destruct (existsb (N.eqb y) l) eqn:E.
  - rewrite IH. split; [intros H; right; exact H|]. intros [H|H]; [|exact H].
    subst y. apply existsb_exists in E. destruct E as [z [Hz Ez]]. apply N.eqb_eq in Ez. subst z. exact Hz.
  - cbn [In]. rewrite IH. tauto.
Qed.

Lemma nodup_ids_NoDup l : NoDup (nodup_ids l).
Proof.
  induction l as [|y l IH]; cbn [nodup_ids]; [constructor|].
  destruct (existsb (N.eqb y) l) eqn:E; [exact IH|].
  constructor; [|exact IH]. intros Hin. apply (proj1 (nodup_ids_In y l)) in Hin.
  assert (Ht : existsb (N.eqb y) l = true) by (apply existsb_exists; exists y; split; [exact Hin|apply N.eqb_refl]).
  congruence.
Qed.

Lemma eff_unwritten (ops : list (N * N)) (id acc : N) : ~ In id (map fst ops) ->
  fold_left (fun acc p => if fst p =? id then snd p else acc) ops acc = acc.
Proof.
  revert acc. induction ops as [|[i w] ops IH]; intros acc H; [reflexivity|].
  cbn [fold_left fst snd map In] in *. destruct (N.eqb_spec i id) as [E|E]; [exfalso; apply H; left; exact E|].
  apply IH. intros Hin. apply H. right. exact Hin.
Qed.

Lemma eff_ids_In ops id : In id (eff_ids ops) <-> eff ops id <> 0.
Proof.
  unfold eff_ids. rewrite filter_In, nodup_ids_In. split.
  - intros [_ H]. apply negb_true_iff in H. apply N.eqb_neq in H. exact H.
  - intros H. split; [|apply negb_true_iff; apply N.eqb_neq; exact H].
    destruct (in_dec N.eq_dec id (map fst ops)) as [Hin|Hni]; [exact Hin|].
    exfalso. apply H. unfold eff. apply eff_unwritten. exact Hni.
Qed.

Lemma eff_pairs_keys ops : keys (eff_pairs ops) = eff_ids ops.
Proof. unfold keys, eff_pairs. rewrite map_map. cbn [fst]. apply map_id. Qed.

Lemma eff_pairs_ok ops : vmap_ok (eff_pairs ops).
Proof.
  split.
  - rewrite eff_pairs_keys. unfold eff_ids. apply NoDup_filter. apply nodup_ids_NoDup.
  - rewrite Forall_forall. intros p Hp. unfold eff_pairs in Hp. apply in_map_iff in Hp.
    destruct Hp as [id [Hp Hin]]. subst p. cbn [snd]. apply eff_ids_In. exact Hin.
Qed.

Lemma eff_pairs_In ops id w : In (id, w) (eff_pairs ops) <-> eff ops id = w /\ w <> 0.
Proof.
  unfold eff_pairs. rewrite in_map_iff. split.
  - intros [i [Hp Hin]]. inversion Hp; subst. split; [reflexivity|]. apply eff_ids_In. exact Hin.
  - intros [H1 H2]. exists id. split; [rewrite H1; reflexivity|]. apply eff_ids_In. congruence.
Qed.

Lemma vget_eff_pairs ops id : vget (eff_pairs ops) id = eff ops id.
Proof.
  destruct (N.eq_dec (eff ops id) 0) as [E|E].
  - rewrite E. apply vget_notin. rewrite eff_pairs_keys. rewrite eff_ids_In. tauto.
  - assert (Hin : In (id, eff ops id) (eff_pairs ops)) by (apply eff_pairs_In; split; [reflexivity|exact E]).
    apply vget_In in Hin; [|apply eff_pairs_ok]. tauto.
Qed.

(* the builder's content after any sequence of Set calls is the specification's pair set *)
Lemma apply_sets_eff_pairs ops : Permutation (apply_sets ops []) (eff_pairs ops).
Proof.
  apply vmap_perm; [apply apply_sets_ok; apply vmap_ok_nil|apply eff_pairs_ok|].
  intros id. rewrite vget_eff, vget_eff_pairs. reflexivity.
Qed.

Lemma vmem_In m id : vmem m id = true <-> In id (keys m).
Proof.
  induction m as [|[i w] m IH]; cbn [vmem keys map fst In]; [split; [discriminate|tauto]|].
  rewrite orb_true_iff, IH, N.eqb_eq. unfold keys. tauto.
Qed.
