(* C28 — the generic theorems, assembled, with a concrete object showing (a) the premises are
   satisfiable and the machine really interleaves (non-vacuity), and (b) that the premise cannot be
   dropped: the same object with a reader that takes no lock has a non-linearizable history. *)
From Coq Require Import List Arith Lia.
From LV Require Import model.Lin proofs.LinSim proofs.LinHW.
Import ListNotations.

Section Main.
  Variables state op ret local : Type.
  Variable linit : op -> local.
  Variable mstep : op -> local -> state -> local * state.
  Variable fin : op -> local -> option ret.
  Variable waits : op -> local -> bool.
  Variable wstep : op -> local -> local.
  Variable kind : op -> lkind.
  Variable s0 : state.

  Hypothesis Hshared : shared_readonly state op local mstep kind.
  Hypothesis Hnone : none_stateless state op local mstep kind.
  Hypothesis Hwexcl : wait_excl op local waits kind.
  Variable resumable : op -> local -> Prop.
  Hypothesis Hres : resumable_inv state op ret local linit mstep fin waits wstep resumable.

  (* refinement: the lock-based object has exactly the client-visible behaviours of the atomic object *)
  Theorem locked_refines_atomic_w : forall tr c,
    exec state op ret local linit mstep fin waits wstep kind s0 tr c ->
    exists atr a, aexec state op ret local linit mstep fin waits wstep s0 atr a /\
                  ahist op ret atr = hist op ret tr.
  Proof.
    intros tr c Hex.
    destruct (simulation state op ret local linit mstep fin waits wstep kind s0 Hshared Hnone Hwexcl
                resumable Hres tr c Hex) as [a [Ha _]].
    exists (abs op ret tr), a. split; auto. apply hist_abs.
  Qed.

  Theorem locked_atomic_linearizable_w : forall tr c,
    exec state op ret local linit mstep fin waits wstep kind s0 tr c ->
    linearizable state op ret local linit mstep fin waits wstep s0 (hist op ret tr).
  Proof.
    intros tr c Hex. destruct (locked_refines_atomic_w tr c Hex) as [atr [a [Ha Hh]]].
    rewrite <- Hh. eapply atomic_linearizable; eauto.
  Qed.

  Theorem locked_race_free_w : forall tr c,
    exec state op ret local linit mstep fin waits wstep kind s0 tr c ->
    ~ race state op ret local fin waits kind c.
  Proof.
    exact (race_free state op ret local linit mstep fin waits wstep kind s0 Hshared Hnone Hwexcl resumable Hres).
  Qed.
End Main.

(* the special case of bodies that never call Cond.Wait (every component except DataSemaphore.Acquire) *)
Section MainNoWait.
  Variables state op ret local : Type.
  Variable linit : op -> local.
  Variable mstep : op -> local -> state -> local * state.
  Variable fin : op -> local -> option ret.
  Variable kind : op -> lkind.
  Variable s0 : state.

  Definition nowait (_ : op) (_ : local) : bool := false.
  Definition nowstep (_ : op) (l : local) : local := l.

  Hypothesis Hshared : shared_readonly state op local mstep kind.
  Hypothesis Hnone : none_stateless state op local mstep kind.

  Let Hres := nowait_resumable state op ret local linit mstep fin nowait nowstep (fun _ _ => eq_refl).
  Let Hwx := nowait_wait_excl op local nowait (fun _ _ => eq_refl) kind.

  Theorem locked_refines_atomic : forall tr c,
    exec state op ret local linit mstep fin nowait nowstep kind s0 tr c ->
    exists atr a, aexec state op ret local linit mstep fin nowait nowstep s0 atr a /\
                  ahist op ret atr = hist op ret tr.
  Proof. exact (locked_refines_atomic_w _ _ _ _ _ _ _ _ _ _ _ Hshared Hnone Hwx _ Hres). Qed.

  Theorem locked_atomic_linearizable : forall tr c,
    exec state op ret local linit mstep fin nowait nowstep kind s0 tr c ->
    linearizable state op ret local linit mstep fin nowait nowstep s0 (hist op ret tr).
  Proof. exact (locked_atomic_linearizable_w _ _ _ _ _ _ _ _ _ _ _ Hshared Hnone Hwx _ Hres). Qed.

  Theorem locked_race_free : forall tr c,
    exec state op ret local linit mstep fin nowait nowstep kind s0 tr c ->
    ~ race state op ret local fin nowait kind c.
  Proof. exact (locked_race_free_w _ _ _ _ _ _ _ _ _ _ _ Hshared Hnone Hwx _ Hres). Qed.
End MainNoWait.
Arguments nowait {op local}.
Arguments nowstep {op local}.

(* ------------------------------------------------------------------ a concrete object *)
Module Counter.
  Inductive cop := OIncr2 | ORead.

  Definition clinit (_ : cop) : nat * nat := (0, 0).          (* (program counter, value read) *)
  Definition cmstep (o : cop) (l : nat * nat) (s : nat) : (nat * nat) * nat :=
    match o with
    | OIncr2 => ((S (fst l), snd l), S s)                        (* two separate increments *)
    | ORead => ((S (fst l), s), s)
    end.
  Definition cfin (o : cop) (l : nat * nat) : option nat :=
    match o with
    | OIncr2 => if fst l =? 2 then Some 0 else None
    | ORead => if fst l =? 1 then Some (snd l) else None
    end.

  Definition kind_ok (o : cop) : lkind := match o with OIncr2 => KExcl | ORead => KShared end.
  Definition kind_bad (o : cop) : lkind := match o with OIncr2 => KExcl | ORead => KNone end.

  Lemma ok_shared : shared_readonly nat cop (nat * nat) cmstep kind_ok.
  Proof. intros o Hk l s. destruct o; [discriminate|reflexivity]. Qed.
  Lemma ok_none : none_stateless nat cop (nat * nat) cmstep kind_ok.
  Proof. intros o Hk. destruct o; discriminate. Qed.

  Notation cexec := (exec nat cop nat (nat * nat) clinit cmstep cfin nowait nowstep).
  Notation cstep := (step nat cop nat (nat * nat) clinit cmstep cfin nowait nowstep).
  Notation cupd := (upd cop nat (nat * nat)).
  Notation CInv := (Inv cop nat). Notation CAcq := (Acq cop nat). Notation CBody := (Body cop nat).
  Notation CRel := (Rel cop nat). Notation CRet := (Ret cop nat).

  Ltac no_holder := let t := fresh "t" in
    intros t [? [? H]]; simpl in H; unfold upd in H;
    destruct t as [|[|[|t]]]; simpl in H; try discriminate; try (destruct H; discriminate).

  (* non-vacuity: two readers inside their (shared) critical sections at the same time *)
  Example readers_overlap : exists tr c,
    cexec kind_ok 0 tr c /\
    (exists o l, th _ _ _ _ c 1 = InCS _ _ _ o l) /\ (exists o l, th _ _ _ _ c 2 = InCS _ _ _ o l).
  Proof.
    eexists [CInv 1 ORead; CInv 2 ORead; CAcq 1; CAcq 2; CBody 1], _.
    split.
    - change [CInv 1 ORead; CInv 2 ORead; CAcq 1; CAcq 2; CBody 1]
        with ((((([] ++ [CInv 1 ORead]) ++ [CInv 2 ORead]) ++ [CAcq 1]) ++ [CAcq 2]) ++ [CBody 1]).
      eapply e_snoc; [eapply e_snoc; [eapply e_snoc; [eapply e_snoc; [eapply e_snoc; [apply e_nil|]|]|]|]|].
      + apply s_inv; reflexivity.
      + apply s_inv; reflexivity.
      + eapply s_acq_shared; [reflexivity|reflexivity|].
        intros t [o [l [H Hk]]]; simpl in H; unfold upd in H.
        destruct t as [|[|[|t]]]; simpl in H; try discriminate.
      + eapply s_acq_shared; [reflexivity|reflexivity|].
        intros t [o [l [H Hk]]]; simpl in H; unfold upd in H.
        destruct t as [|[|[|t]]]; simpl in H; try discriminate; inversion H; subst; discriminate.
      + eapply s_body; [reflexivity|reflexivity|reflexivity|reflexivity].
    - split; eexists _, _; reflexivity.
  Qed.

  (* sequential behaviour of the two operations *)
  Lemma seq_read : forall s s' r,
    seq_exec nat cop nat (nat * nat) clinit cmstep cfin nowait nowstep ORead s s' r -> s' = s /\ r = s.
  Proof.
    intros s s' r [l' [Hrun Hfin]].
    inversion Hrun as [|? ? l1 s1 ? ? Hf Hw Hm Hrun1|? ? ? ? Hf Hw Hrun1]; subst; [discriminate| |discriminate].
    simpl in Hm. inversion Hm; subst.
    inversion Hrun1 as [|? ? l2 s2 ? ? Hf2 Hw2 Hm2 Hrun2|? ? ? ? Hf2 Hw2 Hrun2]; subst; [|discriminate|discriminate].
    simpl in Hfin. inversion Hfin; auto.
  Qed.

  Lemma seq_incr2 : forall s s' r,
    seq_exec nat cop nat (nat * nat) clinit cmstep cfin nowait nowstep OIncr2 s s' r -> s' = S (S s) /\ r = 0.
  Proof.
    intros s s' r [l' [Hrun Hfin]].
    inversion Hrun as [|? ? l1 s1 ? ? Hf Hw Hm Hrun1|? ? ? ? Hf Hw Hrun1]; subst; [discriminate| |discriminate].
    simpl in Hm; inversion Hm; subst.
    inversion Hrun1 as [|? ? l2 s2 ? ? Hf2 Hw2 Hm2 Hrun2|? ? ? ? Hf2 Hw2 Hrun2]; subst; [discriminate| |discriminate].
    simpl in Hm2; inversion Hm2; subst.
    inversion Hrun2 as [|? ? l3 s3 ? ? Hf3 Hw3 Hm3 Hrun3|? ? ? ? Hf3 Hw3 Hrun3]; subst; [|discriminate|discriminate].
    simpl in Hfin; inversion Hfin; auto.
  Qed.

  (* the premise cannot be dropped: a reader WITHOUT the lock (kind_bad) between the two increments *)
  Definition bad_trace := [CInv 0 OIncr2; CAcq 0; CBody 0; CInv 1 ORead; CBody 1; CRel 1; CRet 1 1;
                           CBody 0; CRel 0; CRet 0 0].

  Lemma bad_trace_exec : exists c, cexec kind_bad 0 bad_trace c.
  Proof.
    eexists. unfold bad_trace.
    change [CInv 0 OIncr2; CAcq 0; CBody 0; CInv 1 ORead; CBody 1; CRel 1; CRet 1 1; CBody 0; CRel 0; CRet 0 0]
      with (((((((((([] ++ [CInv 0 OIncr2]) ++ [CAcq 0]) ++ [CBody 0]) ++ [CInv 1 ORead]) ++ [CBody 1]) ++ [CRel 1]) ++ [CRet 1 1]) ++ [CBody 0]) ++ [CRel 0]) ++ [CRet 0 0]).
    repeat (eapply e_snoc); [apply e_nil| | | | | | | | | |].
    - apply s_inv; reflexivity.
    - eapply s_acq_excl; [reflexivity|reflexivity|].
      intros t [o [l H]]; simpl in H; unfold upd in H. destruct t as [|[|t]]; simpl in H; discriminate.
    - eapply s_body; [reflexivity|reflexivity|reflexivity|reflexivity].
    - apply s_inv; reflexivity.
    - eapply s_body_none; [reflexivity|reflexivity|reflexivity|reflexivity|reflexivity].
    - eapply s_rel_none; [reflexivity|reflexivity|reflexivity].
    - eapply s_ret; reflexivity.
    - eapply s_body; [reflexivity|reflexivity|reflexivity|reflexivity].
    - eapply s_rel; [reflexivity|reflexivity].
    - eapply s_ret; reflexivity.
  Qed.

  Definition bad_history := hist cop nat bad_trace.

  Lemma bad_history_eq : bad_history = [HInv cop nat 0 OIncr2; HInv cop nat 1 ORead; HRet cop nat 1 1; HRet cop nat 0 0].
  Proof. reflexivity. Qed.

  Theorem unlocked_read_not_linearizable :
    ~ linearizable nat cop nat (nat * nat) clinit cmstep cfin nowait nowstep 0 bad_history.
  Proof.
    rewrite bad_history_eq. intros [S (Hnd & Hent & Hcomp & Hint & Hord & Hleg)].
    (* the two completed operations *)
    assert (M0 : matching cop nat [HInv cop nat 0 OIncr2; HInv cop nat 1 ORead; HRet cop nat 1 1; HRet cop nat 0 0] 0 3 0 OIncr2 0).
    { repeat split; auto. intros k r' H1 H2 Hk. destruct k as [|[|[|k]]]; try lia; simpl in Hk; discriminate. }
    assert (M1 : matching cop nat [HInv cop nat 0 OIncr2; HInv cop nat 1 ORead; HRet cop nat 1 1; HRet cop nat 0 0] 1 2 1 ORead 1).
    { repeat split; auto. intros k r' H1 H2 Hk. lia. }
    destruct (Hcomp _ _ _ _ _ M0) as [p0 In0]. destruct (Hcomp _ _ _ _ _ M1) as [p1 In1].
    (* every entry of S is one of the two *)
    assert (Hall : forall e, In e S -> le_inv _ _ e = 0 \/ le_inv _ _ e = 1).
    { intros e He. destruct (Hent e He) as [[j (Hi & _)]|[Hi _]];
        destruct (le_inv _ _ e) as [|[|[|[|k]]]]; auto; simpl in Hi; try discriminate; destruct k; discriminate. }
    (* the result of Read in a legal sequential order is 0 or 2, never 1 *)
    destruct (in_split _ _ In1) as [A [B ES]].
    assert (HA : forall e, In e A -> le_inv _ _ e = 0).
    { intros e He. assert (HeS : In e S) by (rewrite ES; apply in_or_app; now left).
      destruct (Hall e HeS) as [|E1]; auto. exfalso.
      rewrite ES in Hnd. unfold invs in *. rewrite map_app in Hnd; simpl in Hnd.
      apply NoDup_remove_2 in Hnd. apply Hnd. apply in_or_app; left. rewrite <- E1. now apply in_map. }
    (* A contains at most the Incr2 entry *)
    assert (HlegA : forall s, seq_legal nat cop nat (nat * nat) clinit cmstep cfin nowait nowstep s
                       (map (fun e => (le_op _ _ e, le_ret _ _ e)) S) ->
                     (A = [] \/ exists e, A = [e] /\ le_op _ _ e = OIncr2)).
    { intros s _. destruct A as [|e A']; [now left|right].
      exists e. assert (He0 : le_inv _ _ e = 0) by (apply HA; now left).
      assert (A' = []).
      { destruct A' as [|e' A'']; auto. exfalso.
        assert (He0' : le_inv _ _ e' = 0) by (apply HA; right; now left).
        rewrite ES in Hnd. simpl in Hnd. inversion Hnd as [|? ? Hni _]; subst. apply Hni.
        simpl. left. congruence. }
      subst A'. split; auto.
      assert (HeS : In e S) by (rewrite ES; now left).
      destruct (Hent e HeS) as [[j (Hi & _)]|[Hi _]]; rewrite He0 in Hi; simpl in Hi; inversion Hi; auto. }
    destruct (HlegA 0 Hleg) as [-> | [e [-> Eo]]]; rewrite ES in Hleg; simpl in Hleg.
    - destruct Hleg as [s' [Hx _]]. apply seq_read in Hx. destruct Hx as [_ Hr]. discriminate.
    - rewrite Eo in Hleg. destruct Hleg as [s1 [Hx [s2 [Hy _]]]].
      apply seq_incr2 in Hx. destruct Hx as [-> _]. apply seq_read in Hy. destruct Hy as [_ Hr]. discriminate.
  Qed.
End Counter.
