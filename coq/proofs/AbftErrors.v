(* Past the frame check no function of the model returns ErrWrongFrame. *)
From Coq Require Import NArith List Bool.
From LV Require Import model.VecIndex model.Abft.
Import ListNotations.
Local Open Scope N_scope.

Definition nwf {A} (r : result A) : Prop := r <> Err EWrongFrame.

Section Errors.
Variable cap : nat.
Variable end_block : N -> N -> N -> list N -> list N -> option vals.

Lemma choose_atropos_loop_nwf ids dec f : nwf (choose_atropos_loop ids dec f).
Proof.
  induction ids as [|v t IH]; cbn [choose_atropos_loop]; [discriminate|].
  destruct (alookup v dec) as [vt|]; [|discriminate]. destruct (vt_yes vt); [discriminate | exact IH].
Qed.

Lemma tally_nwf ev votes subj : forall obs sh yes no all, nwf (tally ev votes subj obs sh yes no all).
Proof.
  induction obs as [|r t IH]; intros sh yes no all; cbn [tally]; [discriminate|].
  destruct (votes_get (r, subj) votes) as [vt|]; [|discriminate].
  destruct (vt_yes vt && _); [discriminate|].
  destruct (count_id ev all (r_val r)) as [fresh all']. destruct (negb fresh); [discriminate | apply IH].
Qed.

Lemma vote_subjects_nwf r1 obs nr : forall subjects el,
  fst (vote_subjects r1 obs nr subjects el) <> Some EWrongFrame.
Proof.
  induction subjects as [|s t IH]; intros el; cbn [vote_subjects fst]; [discriminate|].
  destruct r1.
  - destruct (observed_map_get obs s); apply IH.
  - pose proof (tally_nwf (el_vals el) (el_votes el) s obs None (new_counter (el_vals el)) (new_counter (el_vals el)) (new_counter (el_vals el))) as T.
    destruct (tally _ _ _ _ _ _ _ _) as [[[[sh yes] no] all]|x].
    + destruct (negb (has_quorum (el_vals el) all)); [cbn; discriminate | apply IH].
    + cbn [fst]. intros H; inversion H; subst. apply T. reflexivity.
Qed.

Lemma process_root_nwf st nr : nwf (fst (process_root cap st nr)).
Proof.
  unfold process_root.
  pose proof (choose_atropos_loop_nwf (v_ids (el_vals (l_el st))) (el_decided (l_el st)) (el_frame (l_el st))) as C.
  unfold choose_atropos at 1.
  destruct (choose_atropos_loop _ _ _) as [[r|]|x]; cbn [fst]; [discriminate| |exact C].
  destruct (r_frame nr <=? el_frame (l_el st)); cbn [fst]; [discriminate|].
  destruct (observed_roots cap st (r_id nr) (r_frame nr - 1)) as [obs st1].
  pose proof (vote_subjects_nwf (r_frame nr - el_frame (l_el st) =? 1) obs nr (not_decided (l_el st)) (l_el st)) as V.
  destruct (vote_subjects _ _ _ _ _) as [e el']. cbn [fst] in V.
  destruct e as [x|]; cbn [fst].
  - intros H; inversion H; subst. apply V. reflexivity.
  - apply choose_atropos_loop_nwf.
Qed.

Lemma pkr_frame_nwf : forall frs st, nwf (fst (pkr_frame cap st frs)).
Proof.
  induction frs as [|r t IH]; intros st; cbn [pkr_frame fst]; [discriminate|].
  pose proof (process_root_nwf st r) as P.
  destruct (process_root cap st r) as [[[d|]|x] st1]; cbn [fst] in *; [discriminate | apply IH | exact P].
Qed.

Lemma process_known_roots_nwf : forall fuel st f, nwf (fst (process_known_roots cap fuel st f)).
Proof.
  induction fuel as [|fu IH]; intros st f; cbn [process_known_roots fst]; [discriminate|].
  pose proof (pkr_frame_nwf (get_frame_roots st f) st) as P.
  destruct (pkr_frame cap st (get_frame_roots st f)) as [[[d|]|x] st1]; cbn [fst] in *; [discriminate| |exact P].
  destruct (get_frame_roots st f); [cbn; discriminate | apply IH].
Qed.

Lemma dfs_confirm_nwf es frame : forall fuel stack conf acc, nwf (dfs_confirm fuel es frame stack conf acc).
Proof.
  induction fuel as [|fu IH]; intros stack conf acc; cbn [dfs_confirm]; [discriminate|].
  destruct stack as [|w rest]; [discriminate|].
  destruct (get_event es w); [|discriminate]. destruct (negb _); apply IH.
Qed.

Lemma on_frame_decided_nwf es st f atr : nwf (fst (on_frame_decided end_block es st f atr)).
Proof.
  unfold on_frame_decided, apply_atropos.
  pose proof (dfs_confirm_nwf es f (confirm_fuel es) [atr] (l_conf st) []) as D.
  destruct (dfs_confirm _ _ _ _ _ _) as [[dl conf']|x]; cbn [fst].
  - destruct (b_seal _); cbn; discriminate.
  - intros H; inversion H; subst. apply D. reflexivity.
Qed.

Lemma bootstrap_election_nwf es : forall fuel st bl, nwf (fst (fst (bootstrap_election cap end_block fuel es st bl))).
Proof.
  induction fuel as [|fu IH]; intros st bl; cbn [bootstrap_election fst]; [discriminate|].
  pose proof (process_known_roots_nwf (roots_fuel st) st (l_ldf st + 1)) as P.
  destruct (process_known_roots cap (roots_fuel st) st (l_ldf st + 1)) as [[[[df atr]|]|x] st1]; cbn [fst] in *;
    [|discriminate|intros H; inversion H; subst; apply P; reflexivity].
  pose proof (on_frame_decided_nwf es st1 df atr) as O.
  destruct (on_frame_decided end_block es st1 df atr) as [[[sealed blk]|x] st2]; cbn [fst] in *.
  - destruct sealed; [cbn; discriminate | apply IH].
  - intros H; inversion H; subst. apply O. reflexivity.
Qed.

Lemma handle_election_nwf es e : forall fuel st f bl, nwf (fst (fst (handle_election cap end_block fuel es st e f bl))).
Proof.
  induction fuel as [|fu IH]; intros st f bl; cbn [handle_election fst]; [discriminate|].
  destruct (a_frame e <? f); [cbn; discriminate|].
  pose proof (process_root_nwf st (f, a_creator e, a_id e)) as P.
  destruct (process_root cap st (f, a_creator e, a_id e)) as [[[[df atr]|]|x] st1]; cbn [fst] in *;
    [|apply IH|intros H; inversion H; subst; apply P; reflexivity].
  pose proof (on_frame_decided_nwf es st1 df atr) as O.
  destruct (on_frame_decided end_block es st1 df atr) as [[[sealed blk]|x] st2]; cbn [fst] in *.
  - destruct sealed; [cbn; discriminate|].
    pose proof (bootstrap_election_nwf es (roots_fuel st2) st2 (bl ++ [blk])) as B.
    destruct (bootstrap_election cap end_block (roots_fuel st2) es st2 (bl ++ [blk])) as [[[s2|x] bl2] st3]; cbn [fst] in *.
    + destruct s2; [cbn; discriminate | apply IH].
    + intros H; inversion H; subst. apply B. reflexivity.
  - intros H; inversion H; subst. apply O. reflexivity.
Qed.

End Errors.
