(* C07: the forkless-cause cache is semantically transparent while it is coherent with the index:
   two instances that differ in the cache only (both coherent) produce the same verdict, the same
   blocks and the same next state up to the cache, for the whole Process call incl. the election. *)
From Coq Require Import NArith ZArith List Lia Bool ZifyBool ZifyN ZifyNat.
From LV Require Import model.VecIndex model.Abft proofs.AbftFrame.
Import ListNotations.
Local Open Scope N_scope.

Definition coh (st : lstate) : Prop :=
  forall a b r, cache_get (a, b) (l_fcc st) = Some r -> r = fcp (l_vals st) (l_idx st) a b.
(* the two states differ in the forkless-cause cache and in the build counter only *)
Definition R (st st' : lstate) : Prop := exists c n, st' = set_fcc (set_ctr st n) c.
Lemma R_refl st : R st st. Proof. exists (l_fcc st), (l_ctr st). destruct st; reflexivity. Qed.
Lemma coh_nil st : l_fcc st = [] -> coh st.
Proof. intros H a b r G. rewrite H in G. discriminate. Qed.

(* the shape all lemmas have *)
Definition agree {A} (x x' : A * lstate) : Prop :=
  fst x = fst x' /\ R (snd x) (snd x') /\ coh (snd x) /\ coh (snd x').

Section Transparent.
Variable cap : nat.
Variable end_block : N -> N -> N -> list N -> list N -> option vals.

Lemma fc_cached_coh st a b : coh st ->
  fst (fc_cached cap st a b) = fcp (l_vals st) (l_idx st) a b /\
  (exists c, snd (fc_cached cap st a b) = set_fcc st c) /\ coh (snd (fc_cached cap st a b)).
Proof.
  intros H. unfold fc_cached. destruct (cache_get (a, b) (l_fcc st)) as [r|] eqn:E; cbn [fst snd].
  - pose proof (H _ _ _ E) as Hr. subst r. split; [reflexivity|]. split; [eexists; reflexivity|].
    intros a' b' r' G. cbn [l_fcc l_vals l_idx set_fcc] in *. rewrite cache_get_touch in G.
    destruct (pair_eqb (a', b') (a, b)) eqn:E2.
    + apply pair_eqb_eq in E2. inversion E2; subst. inversion G; subst. reflexivity.
    + eapply H; eauto.
  - split; [reflexivity|]. split; [eexists; reflexivity|].
    intros a' b' r' G. cbn [l_fcc l_vals l_idx set_fcc] in *. unfold cache_add in G. apply cache_get_firstn in G.
    rewrite cache_get_touch in G. destruct (pair_eqb (a', b') (a, b)) eqn:E2.
    + apply pair_eqb_eq in E2. inversion E2; subst. inversion G; subst. reflexivity.
    + eapply H; eauto.
Qed.

Lemma fc_cached_agree st st' a b : R st st' -> coh st -> coh st' ->
  agree (fc_cached cap st a b) (fc_cached cap st' a b).
Proof.
  intros [c [n ->]] H H'. destruct (fc_cached_coh st a b H) as [A1 [[c1 A2] A3]].
  destruct (fc_cached_coh (set_fcc (set_ctr st n) c) a b H') as [B1 [[c2 B2] B3]].
  unfold agree. split; [rewrite A1, B1; reflexivity|]. split; [|split; assumption].
  rewrite A2, B2. exists c2, n. destruct st; reflexivity.
Qed.

Tactic Notation "use_agree" hyp(H) "as" ident(o) ident(s) ident(s') ident(RR) ident(C) ident(C') :=
  let o' := fresh "zz" in let E1 := fresh "EE" in
  match type of H with agree ?x ?y =>
    destruct x as [o s]; destruct y as [o' s']; destruct H as (E1 & RR & C & C'); cbn [fst snd] in *; subst o' end.

Lemma observed_loop_agree rid : forall frs st st' acc, R st st' -> coh st -> coh st' ->
  agree (observed_loop cap st rid frs acc) (observed_loop cap st' rid frs acc).
Proof.
  induction frs as [|fr t IH]; intros st st' acc HR H H'; cbn [observed_loop].
  - unfold agree. cbn. auto.
  - pose proof (fc_cached_agree st st' rid (r_id fr) HR H H') as A. use_agree A as o s1 s2 RR C1 C2. apply IH; auto.
Qed.

Lemma R_fields st st' : R st st' ->
  l_vals st' = l_vals st /\ l_idx st' = l_idx st /\ l_roots st' = l_roots st /\ l_el st' = l_el st /\
  l_ldf st' = l_ldf st /\ l_epoch st' = l_epoch st /\ l_conf st' = l_conf st /\ True.
Proof. intros [c [n ->]]. cbn. repeat split. Qed.

Lemma process_root_agree st st' nr : R st st' -> coh st -> coh st' ->
  agree (process_root cap st nr) (process_root cap st' nr).
Proof.
  intros HR H H'. destruct (R_fields _ _ HR) as (F1&F2&F3&F4&F5&F6&F7&F8).
  unfold process_root. rewrite F4.
  destruct (choose_atropos (l_el st)) as [[r|]|x]; try solve [unfold agree; cbn; auto].
  destruct (r_frame nr <=? el_frame (l_el st)); try solve [unfold agree; cbn; auto].
  unfold observed_roots, get_frame_roots. rewrite F3.
  pose proof (observed_loop_agree (r_id nr) (filter (fun r => r_frame r =? r_frame nr - 1) (l_roots st)) st st' [] HR H H') as A.
  use_agree A as o s1 s2 RR C1 C2.
  destruct (vote_subjects (r_frame nr - el_frame (l_el st) =? 1) o nr (not_decided (l_el st)) (l_el st)) as [e el'].
  assert (RR2 : R (set_el s1 el') (set_el s2 el')). { destruct RR as [c [n ->]]. exists c, n. destruct s1; reflexivity. }
  assert (Cs : coh (set_el s1 el')) by (intros a b r G; eapply C1; eauto).
  assert (Cs0 : coh (set_el s2 el')) by (intros a b r G; eapply C2; eauto).
  destruct e; unfold agree; cbn [fst snd]; auto.
Qed.

Lemma pkr_frame_agree : forall frs st st', R st st' -> coh st -> coh st' ->
  agree (pkr_frame cap st frs) (pkr_frame cap st' frs).
Proof.
  induction frs as [|r t IH]; intros st st' HR H H'; cbn [pkr_frame]; [unfold agree; cbn; auto|].
  pose proof (process_root_agree st st' r HR H H') as A. use_agree A as o s1 s2 RR C1 C2.
  destruct o as [[d|]|x]; [unfold agree; cbn; auto | apply IH; auto | unfold agree; cbn; auto].
Qed.

Lemma process_known_roots_agree : forall fuel st st' f, R st st' -> coh st -> coh st' ->
  agree (process_known_roots cap fuel st f) (process_known_roots cap fuel st' f).
Proof.
  induction fuel as [|fu IH]; intros st st' f HR H H'; cbn [process_known_roots]; [unfold agree; cbn; auto|].
  destruct (R_fields _ _ HR) as (F1&F2&F3&F4&F5&F6&F7&F8).
  unfold get_frame_roots. rewrite F3.
  pose proof (pkr_frame_agree (filter (fun r => r_frame r =? f) (l_roots st)) st st' HR H H') as A. use_agree A as o s1 s2 RR C1 C2.
  destruct o as [[d|]|x]; [unfold agree; cbn; auto | | unfold agree; cbn; auto].
  destruct (filter (fun r => r_frame r =? f) (l_roots st)); [unfold agree; cbn; auto | apply IH; auto].
Qed.

(* results that carry a block list *)
Definition agree3 {A} (x x' : A * list block * lstate) : Prop :=
  fst (fst x) = fst (fst x') /\ snd (fst x) = snd (fst x') /\ R (snd x) (snd x') /\ coh (snd x) /\ coh (snd x').

Lemma on_frame_decided_agree es st st' f atr : R st st' -> coh st -> coh st' ->
  agree (on_frame_decided end_block es st f atr) (on_frame_decided end_block es st' f atr).
Proof.
  intros HR H H'. destruct HR as [c [n ->]]. unfold on_frame_decided, apply_atropos, cheaters_of.
  cbn [l_conf l_idx l_vals l_epoch set_fcc set_ctr].
  destruct (dfs_confirm (confirm_fuel es) es f [atr] (l_conf st) []) as [[dl conf']|x]; [|unfold agree; cbn; repeat split; auto; exists c, n; reflexivity].
  cbn [b_seal]. destruct (end_block _ _ _ _ _) as [nv|]; unfold agree; cbn [fst snd].
  - split; [reflexivity|]. split; [exists [], n; reflexivity|]. split; apply coh_nil; reflexivity.
  - split; [reflexivity|]. split; [exists c, n; reflexivity|]. split; intros a b r G; cbn in *; [eapply H | eapply H']; eauto.
Qed.

Lemma bootstrap_election_agree es : forall fuel st st' bl, R st st' -> coh st -> coh st' ->
  agree3 (bootstrap_election cap end_block fuel es st bl) (bootstrap_election cap end_block fuel es st' bl).
Proof.
  induction fuel as [|fu IH]; intros st st' bl HR H H'; cbn [bootstrap_election]; [unfold agree3; cbn; auto|].
  destruct (R_fields _ _ HR) as (F1&F2&F3&F4&F5&F6&F7&F8).
  assert (RF : roots_fuel st' = roots_fuel st) by (unfold roots_fuel; rewrite F3; reflexivity).
  rewrite RF, F5.
  pose proof (process_known_roots_agree (roots_fuel st) st st' (l_ldf st + 1) HR H H') as A. use_agree A as o s1 s2 RR C1 C2.
  destruct o as [[[df atr]|]|x]; try solve [unfold agree3; cbn; auto].
  pose proof (on_frame_decided_agree es s1 s2 df atr RR C1 C2) as B. use_agree B as ob t1 t2 RT D1 D2.
  destruct ob as [[sealed blk]|x]; try solve [unfold agree3; cbn; auto].
  destruct sealed; [unfold agree3; cbn; auto | apply IH; auto].
Qed.

Lemma handle_election_agree es e : forall fuel st st' f bl, R st st' -> coh st -> coh st' ->
  agree3 (handle_election cap end_block fuel es st e f bl) (handle_election cap end_block fuel es st' e f bl).
Proof.
  induction fuel as [|fu IH]; intros st st' f bl HR H H'; cbn [handle_election]; [unfold agree3; cbn; auto|].
  destruct (a_frame e <? f); [unfold agree3; cbn; auto|].
  pose proof (process_root_agree st st' (f, a_creator e, a_id e) HR H H') as A. use_agree A as o s1 s2 RR C1 C2.
  destruct o as [[[df atr]|]|x]; [|apply IH; auto|unfold agree3; cbn; auto].
  pose proof (on_frame_decided_agree es s1 s2 df atr RR C1 C2) as B. use_agree B as ob t1 t2 RT D1 D2.
  destruct ob as [[sealed blk]|x]; try solve [unfold agree3; cbn; auto].
  destruct sealed; [unfold agree3; cbn; auto|].
  destruct (R_fields _ _ RT) as (F1&F2&F3&F4&F5&F6&F7&F8).
  assert (RF : roots_fuel t2 = roots_fuel t1) by (unfold roots_fuel; rewrite F3; reflexivity).
  rewrite RF.
  pose proof (bootstrap_election_agree es (roots_fuel t1) t1 t2 (bl ++ [blk]) RT D1 D2) as D.
  destruct (bootstrap_election cap end_block (roots_fuel t1) es t1 (bl ++ [blk])) as [[r1 b1] u1].
  destruct (bootstrap_election cap end_block (roots_fuel t1) es t2 (bl ++ [blk])) as [[r2 b2] u2].
  destruct D as (G1&G2&G3&G4&G5). cbn [fst snd] in *. subst r2 b2.
  destruct r1 as [s2b|x]; [|unfold agree3; cbn; auto].
  destruct s2b; [unfold agree3; cbn; auto | apply IH; auto].
Qed.

Lemma fcq_loop_agree a : forall frs st st' c, R st st' -> coh st -> coh st' ->
  agree (fcq_loop cap st a frs c) (fcq_loop cap st' a frs c).
Proof.
  induction frs as [|r t IH]; intros st st' c HR H H'; cbn [fcq_loop].
  - destruct (R_fields _ _ HR) as (F1&_). rewrite F1. unfold agree; cbn; auto.
  - destruct (R_fields _ _ HR) as (F1&_). rewrite F1.
    pose proof (fc_cached_agree st st' a (r_id r) HR H H') as A. use_agree A as o s1 s2 RR C1 C2.
    destruct (has_quorum (l_vals st) _); [unfold agree; cbn; auto | apply IH; auto].
Qed.

Lemma calc_loop_agree e maxf : forall fuel st st' f, R st st' -> coh st -> coh st' ->
  agree (calc_loop cap fuel st e f maxf) (calc_loop cap fuel st' e f maxf).
Proof.
  induction fuel as [|fu IH]; intros st st' f HR H H'; cbn [calc_loop]; [unfold agree; cbn; auto|].
  destruct (negb (f <? maxf)); [unfold agree; cbn; auto|].
  destruct (R_fields _ _ HR) as (F1&F2&F3&_). unfold fc_by_quorum_on, get_frame_roots. rewrite F1, F3.
  pose proof (fcq_loop_agree (a_id e) (filter (fun r => r_frame r =? f) (l_roots st)) st st' (new_counter (l_vals st)) HR H H') as A.
  use_agree A as o s1 s2 RR C1 C2. destruct o; [apply IH; auto | unfold agree; cbn; auto].
Qed.

Lemma calc_frame_agree es st st' e co : R st st' -> coh st -> coh st' ->
  agree (calc_frame cap es st e co) (calc_frame cap es st' e co).
Proof.
  intros HR H H'. unfold calc_frame.
  destruct (match a_self_parent e with
            | Some sp => match get_event es sp with Some pe => Ok (a_frame pe) | None => Err EPanic end
            | None => Ok 0 end) as [spf|x]; [|unfold agree; cbn; auto].
  destruct (R_fields _ _ HR) as (F1&F2&F3&_).
  assert (RF : roots_fuel st' = roots_fuel st) by (unfold roots_fuel; rewrite F3; reflexivity). rewrite RF.
  pose proof (calc_loop_agree e (if co then a_frame e else spf + 100) (roots_fuel st) st st' spf HR H H') as A.
  use_agree A as o s1 s2 RR C1 C2. destruct o; unfold agree; cbn; auto.
Qed.

(* Process: same verdict, same blocks, same next state up to the cache.  The two caches must be coherent
   with the index that contains the event being processed (for entries made before this call that is the
   stability of forkless cause under index growth, a consequence of C05). *)
Theorem process_cache_transparent es st c n e s' :
  add (l_idx st) (vev (l_vals st) e) = Some s' ->
  coh (set_idx st s') -> coh (set_idx (set_fcc (set_ctr st n) c) s') ->
  let x := process cap end_block es st e in
  let x' := process cap end_block es (set_fcc (set_ctr st n) c) e in
  fst (fst x) = fst (fst x') /\ snd (fst x) = snd (fst x') /\ R (snd x) (snd x').
Proof.
  intros Hadd H H'. cbn zeta. unfold process. cbn [l_idx l_vals set_fcc set_ctr]. rewrite Hadd.
  assert (HR : R (set_idx st s') (set_idx (set_fcc (set_ctr st n) c) s')) by (exists c, n; reflexivity).
  pose proof (calc_frame_agree es _ _ e true HR H H') as A. use_agree A as o s s0 RR C C0.
  destruct o as [[spf fr]|x].
  - destruct (negb (a_frame e =? fr)).
    { cbn [fst snd]. repeat split; auto. destruct RR as [c1 [n1 ->]]. exists c1, n1. reflexivity. }
    assert (R2 : R (if spf =? fr then s else add_roots s spf e) (if spf =? fr then s0 else add_roots s0 spf e)).
    { destruct RR as [c1 [n1 ->]]. destruct (spf =? fr); exists c1, n1; reflexivity. }
    assert (Ca : coh (if spf =? fr then s else add_roots s spf e)).
    { destruct (spf =? fr); first [exact C | (intros a b r G; eapply C; eauto)]. }
    assert (Cb : coh (if spf =? fr then s0 else add_roots s0 spf e)).
    { destruct (spf =? fr); first [exact C0 | (intros a b r G; eapply C0; eauto)]. }
    pose proof (handle_election_agree es e (S (S (N.to_nat (a_frame e - spf)))) _ _ (spf + 1) [] R2 Ca Cb) as D.
    destruct (handle_election cap end_block _ es (if spf =? fr then s else add_roots s spf e) e (spf + 1) []) as [[r1 b1] t1].
    destruct (handle_election cap end_block _ es (if spf =? fr then s0 else add_roots s0 spf e) e (spf + 1) []) as [[r2 b2] t2].
    destruct D as (D1&D2&D3&D4&D5). cbn [fst snd] in *. subst r2 b2.
    destruct r1; cbn [fst snd]; auto.
  - cbn [fst snd]. repeat split; auto. destruct RR as [c1 [n1 ->]]. exists c1, n1. reflexivity.
Qed.

End Transparent.
