(* The executable reference as a function of the event SET:
   - a run of [add_events] in which every event is accepted builds a well-formed table (wfT);
   - the table entry of an event depends only on its ancestry, so two accepted runs over
     event sequences D1 ⊆ D2 (any parents-first orders) give tables T1 ⊆ T2 (node_indep);
   - hence prefix agreement / order independence of [reference] itself (reference_prefix,
     reference_same_set): the reference-level content of C01. *)
From Coq Require Import List Arith NArith Bool Lia ZArith.
From Coq Require Import ZifyBool ZifyNat ZifyN.
From LV Require Import model.VecIndex lib.WSumBft spec.ElectionSpec proofs.BftCore proofs.BftElection
  proofs.BftMono proofs.BftGraph proofs.BftMain.
Import ListNotations.
Open Scope N_scope.

Section Run.
Variable vals : list (N * N).
Notation ws := (map snd vals).
Notation nv := (length vals).
Notation q := (quorum_of ws).

(* table built from the events Dr (newest first), all of them accepted *)
Inductive wfTD : list node -> list fev -> Prop :=
| wfTD_nil : wfTD [] []
| wfTD_cons T Dr e : wfTD T Dr -> parents_known T e -> nlookup (eid (fe e)) T = None ->
    (ecr (fe e) < nv)%nat -> ev_wf T e -> r_frame_ok vals T (mk_node nv T e) = true ->
    wfTD (mk_node nv T e :: T) (e :: Dr).

Lemma wfTD_wfT T Dr : wfTD T Dr -> wfT vals T.
Proof. induction 1; [constructor|apply wfT_cons; assumption]. Qed.

Lemma ev_wf_b_ok T e : ev_wf_b T e = true -> ev_wf T e.
Proof.
  unfold ev_wf_b, ev_wf. intros H. apply andb_prop in H as [H1 H2]. apply N.leb_le in H1. split; [exact H1|].
  intros Hs. apply N.ltb_lt in Hs. rewrite Hs in H2.
  destruct (self_parent (fe e)) as [sp|]; [|discriminate].
  destruct (nlookup sp T) as [n|] eqn:E; [|discriminate].
  apply andb_prop in H2 as [Hc Hq]. apply Nat.eqb_eq in Hc. apply N.eqb_eq in Hq.
  exists sp, n. auto.
Qed.

(* an accepted event *)
Lemma add_event_accept T e T' h : add_event vals T e = (T', (0, h)) ->
  T' = mk_node nv T e :: T /\ parents_known T e /\ nlookup (eid (fe e)) T = None /\
  (ecr (fe e) < nv)%nat /\ ev_wf T e /\ r_frame_ok vals T (mk_node nv T e) = true.
Proof.
  unfold add_event.
  destruct (existsb (fun p => match nlookup p T with None => true | Some _ => false end) (epar (fe e))) eqn:E1;
    [cbn [orb]; intros H; inversion H|].
  destruct (nlookup (eid (fe e)) T) eqn:E2; [cbn [orb]; intros H; inversion H|].
  destruct (Nat.ltb (ecr (fe e)) nv) eqn:E3; [|cbn [orb negb]; intros H; inversion H].
  cbn [orb negb].
  destruct (ev_wf_b T e) eqn:E4; [|cbn [negb]; intros H; inversion H]. cbn [negb].
  destruct (r_frame_ok vals T (mk_node nv T e)) eqn:E5; [|intros H; inversion H].
  intros H. inversion H. subst. split; [reflexivity|]. split; [|split; [reflexivity|]].
  - intros p Hp. destruct (nlookup p T) as [n|] eqn:En; [exists n; reflexivity|].
    exfalso. assert (existsb (fun p => match nlookup p T with None => true | Some _ => false end) (epar (fe e)) = true).
    { apply existsb_exists. exists p. split; [exact Hp|]. rewrite En. reflexivity. }
    congruence.
  - split; [apply Nat.ltb_lt; exact E3|]. split; [apply ev_wf_b_ok; exact E4|reflexivity].
Qed.

Definition codes_ok (rs : list (N * N)) : Prop := forall r, In r rs -> fst r = 0.

Lemma add_events_wf D : forall T Dr, wfTD T Dr -> codes_ok (snd (add_events vals T D)) ->
  wfTD (fst (add_events vals T D)) (rev D ++ Dr).
Proof.
  induction D as [|e D IH]; intros T Dr Hwf Hok; [exact Hwf|].
  cbn [add_events] in *. destruct (add_event vals T e) as [T1 [c h]] eqn:E1.
  destruct (add_events vals T1 D) as [T2 rs] eqn:E2. cbn [fst snd] in *.
  assert (c = 0) by (apply (Hok (c, h)); left; reflexivity). subst c.
  destruct (add_event_accept T e T1 h E1) as [-> [Hpk [Hfresh [Hcr [Hev Hfr]]]]].
  cbn [rev]. rewrite <- app_assoc. cbn [app].
  specialize (IH (mk_node nv T e :: T) (e :: Dr)). rewrite E2 in IH. cbn [fst snd] in IH. apply IH.
  - apply wfTD_cons; assumption.
  - intros r Hr. apply Hok. right. exact Hr.
Qed.

Definition table (D : list fev) : list node := fst (add_events vals [] D).
Definition all_accepted (D : list fev) : Prop := codes_ok (snd (add_events vals [] D)).

Lemma table_wfTD D : all_accepted D -> wfTD (table D) (rev D).
Proof. intros H. pose proof (add_events_wf D [] [] wfTD_nil H) as H1. rewrite app_nil_r in H1. exact H1. Qed.

(* ---------- the table entry of an event depends only on its ancestry ---------- *)
Lemma fold_left_ext_in {A B} (f g : A -> B -> A) (l : list B) : (forall a x, In x l -> f a x = g a x) ->
  forall a, fold_left f l a = fold_left g l a.
Proof.
  induction l as [|x l IH]; intros H a; [reflexivity|]. cbn [fold_left].
  rewrite (H a x (or_introl eq_refl)). apply IH. intros a' x' Hx'. apply H. right. exact Hx'.
Qed.

Lemma flat_map_ext_in' {A B} (f g : A -> list B) (l : list A) : (forall x, In x l -> f x = g x) ->
  flat_map f l = flat_map g l.
Proof.
  induction l as [|x l IH]; intros H; [reflexivity|]. cbn [flat_map].
  rewrite (H x (or_introl eq_refl)). f_equal. apply IH. intros x' Hx'. apply H. right. exact Hx'.
Qed.

Lemma mk_node_ext T T' e :
  (forall p, In p (epar (fe e)) -> nlookup p T = nlookup p T') ->
  (forall x, In x (nd_anc (mk_node nv T e)) -> nlookup x T = nlookup x T') ->
  mk_node nv T e = mk_node nv T' e.
Proof.
  intros Hp Ha.
  assert (EA : nd_anc (mk_node nv T e) = nd_anc (mk_node nv T' e)).
  { cbn [mk_node nd_anc]. f_equal. apply fold_left_ext_in. intros a p Hin. rewrite (Hp p Hin). reflexivity. }
  assert (EB : below_of T (nd_anc (mk_node nv T e)) = below_of T' (nd_anc (mk_node nv T' e))).
  { rewrite <- EA. unfold below_of. apply flat_map_ext_in'. intros x Hx. rewrite (Ha x Hx). reflexivity. }
  assert (ES : nd_spf (mk_node nv T e) = nd_spf (mk_node nv T' e)).
  { cbn [mk_node nd_spf]. destruct (self_parent (fe e)) as [sp|] eqn:E; [|reflexivity].
    rewrite (Hp sp (self_parent_in _ _ E)). reflexivity. }
  change (mk_node nv T e) with
    {| nd_id := eid (fe e); nd_cr := ecr (fe e); nd_seq := eseq (fe e); nd_fr := ffr e;
       nd_spf := nd_spf (mk_node nv T e);
       nd_hassp := match self_parent (fe e) with Some _ => true | None => false end;
       nd_anc := nd_anc (mk_node nv T e);
       nd_forks := map (forks_bit ((eid (fe e), ecr (fe e), eseq (fe e)) :: map trip (below_of T (nd_anc (mk_node nv T e))))) (seq 0 nv);
       nd_reach := map (fun v => fold_left (fun acc n => if Nat.eqb (nd_cr n) v then umerge acc (nd_anc n) else acc)
                         (below_of T (nd_anc (mk_node nv T e)))
                         (if Nat.eqb (ecr (fe e)) v then nd_anc (mk_node nv T e) else [])) (seq 0 nv) |}.
  change (mk_node nv T' e) with
    {| nd_id := eid (fe e); nd_cr := ecr (fe e); nd_seq := eseq (fe e); nd_fr := ffr e;
       nd_spf := nd_spf (mk_node nv T' e);
       nd_hassp := match self_parent (fe e) with Some _ => true | None => false end;
       nd_anc := nd_anc (mk_node nv T' e);
       nd_forks := map (forks_bit ((eid (fe e), ecr (fe e), eseq (fe e)) :: map trip (below_of T' (nd_anc (mk_node nv T' e))))) (seq 0 nv);
       nd_reach := map (fun v => fold_left (fun acc n => if Nat.eqb (nd_cr n) v then umerge acc (nd_anc n) else acc)
                         (below_of T' (nd_anc (mk_node nv T' e)))
                         (if Nat.eqb (ecr (fe e)) v then nd_anc (mk_node nv T' e) else [])) (seq 0 nv) |}.
  rewrite ES, EB, EA. reflexivity.
Qed.

Lemma wfTD_origin T Dr : wfTD T Dr -> forall e, In e Dr ->
  exists T' pre, T = pre ++ mk_node nv T' e :: T' /\ wfT vals T' /\ parents_known T' e /\ nlookup (eid (fe e)) T' = None.
Proof.
  induction 1 as [|T Dr e0 Hwf IH Hpk Hfresh Hcr Hev Hfr]; intros e He; [destruct He|].
  destruct He as [<-|He].
  - exists T, []. split; [reflexivity|]. split; [eapply wfTD_wfT; eauto|]. split; assumption.
  - destruct (IH e He) as [T' [pre [-> H]]]. exists T', (mk_node nv (pre ++ mk_node nv T' e :: T') e0 :: pre).
    split; [reflexivity|exact H].
Qed.

Theorem node_indep T1 Dr1 : wfTD T1 Dr1 -> forall T2 Dr2, wfTD T2 Dr2 -> incl Dr1 Dr2 -> incl T1 T2.
Proof.
  induction 1 as [|T1 Dr1 e Hwf1 IH Hpk Hfresh Hcr Hev Hfr]; intros T2 Dr2 Hwf2 Hincl; [intros x []|].
  assert (IH' : incl T1 T2) by (apply (IH T2 Dr2 Hwf2); intros x Hx; apply Hincl; right; exact Hx).
  pose proof (wfTD_wfT T1 Dr1 Hwf1) as W1. pose proof (wfTD_wfT T2 Dr2 Hwf2) as W2.
  destruct (wfTD_origin T2 Dr2 Hwf2 e (Hincl e (or_introl eq_refl))) as [T2' [pre [ET2 [W2' [Hpk2 Hfresh2]]]]].
  assert (Hsub2 : incl T2' T2) by (rewrite ET2; apply incl_suffix).
  assert (Hpar : forall p, In p (epar (fe e)) -> nlookup p T1 = nlookup p T2').
  { intros p Hp. destruct (Hpk p Hp) as [n Hn]. destruct (Hpk2 p Hp) as [n' Hn']. rewrite Hn, Hn'. f_equal.
    apply nlookup_some in Hn as [Hn1 Hn2]. apply nlookup_some in Hn' as [Hn1' Hn2'].
    apply (wf_inj vals T2 W2); auto. congruence. }
  assert (Heq : mk_node nv T1 e = mk_node nv T2' e).
  { apply mk_node_ext; [exact Hpar|]. intros x Hx. apply mk_anc_in in Hx as [->|[p [n [Hp [Hl Hx]]]]].
    - rewrite Hfresh, Hfresh2. reflexivity.
    - pose proof Hl as Hl2. rewrite (Hpar p Hp) in Hl2.
      apply nlookup_some in Hl as [Hn _]. apply nlookup_some in Hl2 as [Hn2 _].
      destruct (wf_anc vals T1 W1) as [_ [K1 _]]. destruct (wf_anc vals T2' W2') as [_ [K2 _]].
      destruct (K1 n x Hn Hx) as [m [Hm Em]]. destruct (K2 n x Hn2 Hx) as [m' [Hm' Em']].
      assert (m = m') by (apply (wf_inj vals T2 W2); auto; congruence). subst m'.
      rewrite <- Em. rewrite (wf_lookup vals T1 W1 m Hm), (wf_lookup vals T2' W2' m Hm'). reflexivity. }
  intros x [<-|Hx]; [|apply IH'; exact Hx].
  rewrite Heq, ET2. apply in_or_app. right. left. reflexivity.
Qed.

(* ---------- the reference is a function of the event set ---------- *)
Lemma blocks_atropos_in T f a : wfT vals T -> In (f, a) (r_blocks vals T) -> exists n, In n T /\ nd_id n = a.
Proof.
  intros Hwf. unfold r_blocks, blocks_spec. generalize (N.to_nat (max_frame node nd_fr T)). intros fuel.
  generalize 1 as g. induction fuel as [|fuel IH]; intros g H; [destruct H|].
  cbn [blocks_from] in H.
  destruct (decide node nd_id nd_cr nd_fr nd_spf (fc_n ws q) ws q (canon_order vals) T g (max_frame node nd_fr T)) eqn:E;
    try destruct H.
  - injection H as <- <-.
    destruct (decide_sound node nd_id nd_cr nd_fr nd_spf (fc_n ws q) ws q (canon_order vals) T g (wf_inj vals T Hwf) _ _ E)
      as [pre [v [post [x [_ [_ [_ [Hx Ha]]]]]]]].
    unfold voted_root in Hx. apply find_some in Hx as [Hx _]. exists x. split; [eapply roots_in; exact Hx|exact Ha].
  - apply (IH (g + 1)). exact H.
Qed.

Lemma reference_blocks D : snd (reference vals D) =
  map (fun b => (fst b, snd b, cheaters_of vals (table D) (snd b))) (r_blocks vals (table D)).
Proof. unfold reference, table. destruct (add_events vals [] D) as [T rs]. reflexivity. Qed.

Lemma reference_codes D : fst (reference vals D) = snd (add_events vals [] D).
Proof. unfold reference. destruct (add_events vals [] D) as [T rs]. reflexivity. Qed.

(* prefix agreement of the reference between an accepted run and an accepted run over a superset *)
Theorem reference_prefix D1 D2 : all_accepted D1 -> all_accepted D2 -> incl D1 D2 ->
  few_forkers vals (table D2) -> prefix (snd (reference vals D1)) (snd (reference vals D2)).
Proof.
  intros A1 A2 Hincl Hff. rewrite !reference_blocks.
  pose proof (table_wfTD D1 A1) as B1. pose proof (table_wfTD D2 A2) as B2.
  pose proof (wfTD_wfT _ _ B1) as W1. pose proof (wfTD_wfT _ _ B2) as W2.
  assert (HT : incl (table D1) (table D2)).
  { apply (node_indep _ _ B1 _ _ B2). intros x Hx. apply in_rev in Hx. apply in_rev. rewrite rev_involutive. apply Hincl. exact Hx. }
  destruct (ref_blocks_prefix vals _ _ W1 W2 Hff HT) as [t Et]. rewrite Et. rewrite map_app.
  eexists. f_equal. apply map_ext_in. intros [f a] Hb. cbn [fst snd]. f_equal.
  destruct (blocks_atropos_in _ f a W1 Hb) as [n [Hn Hid]]. unfold cheaters_of.
  rewrite <- Hid. rewrite (wf_lookup vals _ W1 n Hn), (wf_lookup vals _ W2 n (HT n Hn)). reflexivity.
Qed.

(* two accepted runs over the same event set, in any two parents-first orders, emit the same blocks *)
Theorem reference_same_set D1 D2 : all_accepted D1 -> all_accepted D2 -> incl D1 D2 -> incl D2 D1 ->
  few_forkers vals (table D2) -> snd (reference vals D1) = snd (reference vals D2).
Proof.
  intros A1 A2 I12 I21 Hff. apply prefix_antisym.
  - apply reference_prefix; auto.
  - apply reference_prefix; auto.
    pose proof (table_wfTD D1 A1) as B1. pose proof (table_wfTD D2 A2) as B2.
    eapply few_forkers_sub; [|exact Hff].
    apply (node_indep _ _ B1 _ _ B2). intros x Hx. apply in_rev in Hx. apply in_rev. rewrite rev_involutive. apply I12. exact Hx.
Qed.

(* two accepted runs over subsets of one accepted DAG agree on a common prefix *)
Theorem reference_comparable D1 D1' D2 : all_accepted D1 -> all_accepted D1' -> all_accepted D2 ->
  incl D1 D2 -> incl D1' D2 -> few_forkers vals (table D2) ->
  prefix (snd (reference vals D1)) (snd (reference vals D1')) \/ prefix (snd (reference vals D1')) (snd (reference vals D1)).
Proof.
  intros A1 A1' A2 I1 I1' Hff. apply (prefix_comparable _ _ (snd (reference vals D2))); apply reference_prefix; auto.
Qed.

(* ---------- epoch sealing ---------- *)
Lemma seal_cut_prefix {A} (k : N) (a : list (N * N * A)) : forall b, prefix a b ->
  snd (seal_cut k a) = true -> seal_cut k b = seal_cut k a.
Proof.
  induction a as [|x a IH]; intros b [t ->] H; [discriminate|].
  cbn [app seal_cut] in *. destruct ((fst (fst x) =? k) && negb (k =? 0)); [reflexivity|].
  destruct (seal_cut k a) as [l s] eqn:E. cbn [snd] in H.
  rewrite (IH (a ++ t)); [try rewrite E; reflexivity|exists t; reflexivity|exact H].
Qed.

(* same epoch transition: two instances that have processed (accepted) subsets of one DAG and have both
   reached the sealing frame have emitted the same blocks of the epoch, ending with the same sealing
   block; the next validator set is a function (next_vals) of the old one *)
Theorem reference_seal_agreement k D1 D1' D2 : all_accepted D1 -> all_accepted D1' -> all_accepted D2 ->
  incl D1 D2 -> incl D1' D2 -> few_forkers vals (table D2) ->
  snd (seal_cut k (snd (reference vals D1))) = true -> snd (seal_cut k (snd (reference vals D1'))) = true ->
  seal_cut k (snd (reference vals D1)) = seal_cut k (snd (reference vals D1')).
Proof.
  intros A1 A1' A2 I1 I1' Hff S1 S1'.
  rewrite <- (seal_cut_prefix k _ (snd (reference vals D2)) (reference_prefix D1 D2 A1 A2 I1 Hff) S1).
  rewrite <- (seal_cut_prefix k _ (snd (reference vals D2)) (reference_prefix D1' D2 A1' A2 I1' Hff) S1').
  reflexivity.
Qed.
End Run.
