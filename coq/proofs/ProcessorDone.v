(* C15: a batch whose done() has run (outside Stop) had every one of its events handled by
   process(); with ProcessorRun this gives "every event of a finished batch is released exactly
   once by the time the processor is stopped". *)
From Coq Require Import NArith ZArith List Bool Lia Arith Permutation ZifyBool ZifyNat ZifyN.
From LV Require Import model.Buffer model.Processor spec.ProcessorSpec proofs.BufferInv proofs.BufferPush
  proofs.ProcessorFrame proofs.ProcessorOrder proofs.ProcessorSem proofs.ProcessorRel
  proofs.ProcessorUnord proofs.ProcessorRun.
Import ListNotations.
Local Open Scope N_scope.

Definition enq (steps : list pstep) : list batch :=
  flat_map (fun x => match x with SEnq b => [b] | _ => [] end) steps.
Lemma enq_in : forall steps b, In (SEnq b) steps <-> In b (enq steps).
Proof.
  intros steps b. unfold enq. rewrite in_flat_map. split.
  - intros H. exists (SEnq b). split; auto. left; auto.
  - intros [x [Hx Hb]]. destruct x; simpl in Hb; try contradiction. destruct Hb as [Hb|[]]. subst; auto.
Qed.
Lemma id_unique : forall steps b b', NoDup (map b_id (enq steps)) ->
  In (SEnq b) steps -> In (SEnq b') steps -> b_id b = b_id b' -> b = b'.
Proof.
  intros steps b b' Nd H H' E. apply enq_in in H, H'. eapply NoDup_map_inj_in; eauto.
Qed.

Definition is_pdone (o : pout) : Prop := match o with PDone _ => True | _ => False end.
Lemma no_pdone_in : forall (P : pout -> Prop) l id, Forall P l -> (forall o, P o -> ~ is_pdone o) -> ~ In (PDone id) l.
Proof. intros P l id F H Hi. rewrite Forall_forall in F. apply (H _ (F _ Hi)). exact I. Qed.

Section D.
  Variable fc fp : list out -> entry -> bool.
  Variable cap_n cap_s lim_n lim_s : N.
  Notation pstep_run := (Processor.pstep_run fc fp cap_n cap_s lim_n lim_s).
  Notation prun := (Processor.prun fc fp cap_n cap_s lim_n lim_s).

  (* what a step adds to the log: handles only grow, and a PDone only comes from finishing the
     head batch *)
  Lemma step_log : forall s x, exists new, plog (pstep_run s x) = new ++ plog s /\
    forall id, In (PDone id) new ->
      x = SConsume /\ stopped s = false /\
      exists bs rest, queue s = bs :: rest /\ id = b_id (bs_batch bs)
                      /\ (length (b_events (bs_batch bs)) <= bs_processed bs)%nat.
  Proof.
    intros s x. destruct x as [b0 | bid pos | | | | ]; simpl.
    - unfold Processor.enqueue. destruct (quitf s || stopped s); [exists []; split; [reflexivity | intros ? []]|].
      destruct (_ || _); eexists [_]; (split; [reflexivity | intros id [H|[]]; discriminate]).
    - unfold arrive. destruct (stopped s); exists []; (split; [reflexivity | intros ? []]).
    - unfold Processor.consume. destruct (stopped s) eqn:Es; [exists []; split; [reflexivity | intros ? []]|].
      destruct (queue s) as [|bs rest] eqn:Q; [exists []; split; [reflexivity | intros ? []]|].
      destruct (Nat.leb (length (b_events (bs_batch bs))) (bs_processed bs)) eqn:Le.
      { apply Nat.leb_le in Le.
        destruct (bs_request bs); [eexists [_] | eexists [_; _]]; (split; [reflexivity|]);
          intros id Hid; simpl in Hid;
          repeat (destruct Hid as [Hid|Hid]; [try discriminate; inversion Hid; subst;
            (split; [reflexivity | split; [reflexivity | exists bs, rest; auto]])|]); contradiction. }
      destruct (bs_chan bs) as [|pos ch]; [exists []; split; [reflexivity | intros ? []]|].
      destruct (b_ordered (bs_batch bs)).
      + match goal with |- context [Processor.flush ?a ?b ?c ?d ?f ?s0 ?bs0 ?i] =>
          pose proof (flush_spec fc fp lim_n lim_s f s0 bs0 i eq_refl) as F;
          destruct (Processor.flush a b c d f s0 bs0 i) as [s1 bs1] end.
        destruct F as [_ [_ [_ [_ [_ [_ [_ [new [L [_ A]]]]]]]]]].
        exists new. split; [simpl; exact L|]. intros id Hid. exfalso.
        eapply no_pdone_in; [exact A | | exact Hid].
        intros o Ho Hd; destruct o; simpl in Hd; try contradiction;
          destruct Ho as [Ho|[[g Ho]|Ho]]; [exact Ho | discriminate | discriminate].
      + destruct (nth_error (b_events (bs_batch bs)) pos) as [ev|]; [|exists []; split; [reflexivity | intros ? []]].
        pose proof (process_log fc fp lim_n lim_s s ev) as PL.
        destruct (Processor.process fc fp lim_n lim_s s ev) as [s1 rq]. cbn [fst] in PL.
        destruct PL as [new [L [_ A]]]. exists new. split; [simpl; exact L|]. intros id Hid. exfalso.
        eapply no_pdone_in; [exact A | | exact Hid].
        intros o Ho Hd; destruct o; simpl in Hd; try contradiction;
          destruct Ho as [Ho|[Ho|Ho]]; [exact Ho | discriminate | discriminate].
    - unfold Processor.stop. destruct (stopped s); [exists []; split; [reflexivity | intros ? []]|].
      set (s0 := match queue s with bs :: _ => if quitf s then s else pemit s (PAborted (b_id (bs_batch bs))) | [] => s end).
      assert (E0 : exists n0, plog s0 = n0 ++ plog s /\ forall id, ~ In (PDone id) n0).
      { unfold s0. destruct (queue s); [exists []; split; [reflexivity | intros ? []]|].
        destruct (quitf s); [exists []; split; [reflexivity | intros ? []]|].
        eexists [_]; split; [reflexivity | intros id [H|[]]; discriminate]. }
      destruct E0 as [n0 [E0 N0]].
      match goal with |- context [fold_left apply_out ?l ?sx] =>
        destruct (fold_apply_log l sx) as [new [L F]] end.
      exists (PStopped :: new ++ n0). split.
      + unfold pemit. cbn [plog]. rewrite L. change (plog (set_buf s0 _ _)) with (plog s0). rewrite E0.
        simpl. rewrite <- app_assoc. reflexivity.
      + intros id [H|H]; [discriminate|]. exfalso. apply in_app_or in H. destruct H as [H|H]; [|exact (N0 id H)].
        eapply no_pdone_in; [exact F | | exact H]. intros o Ho Hd. destruct o; simpl in *; auto.
    - unfold quit. destruct (stopped s); exists []; (split; [reflexivity | intros ? []]).
    - unfold abort. destruct (stopped s || negb (quitf s)); [exists []; split; [reflexivity | intros ? []]|].
      destruct (queue s); [exists []; split; [reflexivity | intros ? []]|].
      eexists [_]; split; [reflexivity | intros id [H|[]]; discriminate].
  Qed.

  Definition DI (pre : list pstep) (s : pst) : Prop :=
    (forall b, In (SEnq b) pre -> In (PDone (b_id b)) (plog s) -> incl (gs b) (Hd s))
    /\ (forall id, In (PDone id) (plog s) -> In id (map b_id (enq pre))).

  Lemma enq_snoc : forall pre x, enq (pre ++ [x]) = enq pre ++ match x with SEnq b => [b] | _ => [] end.
  Proof. intros. unfold enq. rewrite flat_map_app. simpl. rewrite app_nil_r. reflexivity. Qed.

  Lemma DI_step : forall pre x s, NoDup (map b_id (enq (pre ++ [x]))) ->
    OI pre s -> UI s -> DI pre s -> DI (pre ++ [x]) (pstep_run s x).
  Proof.
    intros pre x s Nid [Ihd Iqin Iqnd Iord] [Uarr Uun] [D D2].
    destruct (step_log s x) as [new [L Hnew]].
    assert (Mono : incl (Hd s) (Hd (pstep_run s x))).
    { unfold Hd. rewrite L, handles_app. apply incl_appr, incl_refl. }
    assert (Mid : forall id, In id (map b_id (enq pre)) -> In id (map b_id (enq (pre ++ [x])))).
    { intros id H. rewrite enq_snoc, map_app. apply in_or_app; left; exact H. }
    split.
    - intros b Hb Hdn. rewrite L in Hdn. apply in_app_or in Hdn. destruct Hdn as [Hdn|Hdn].
      + (* the batch finishes in this step *)
        destruct (Hnew _ Hdn) as [Ex [Es [bs [rest [Q [Eid Le]]]]]]. subst x.
        apply in_app_or in Hb. destruct Hb as [Hb|[Hb|[]]]; [|discriminate].
        assert (Hbs : In (SEnq (bs_batch bs)) pre) by (apply Iqin; rewrite Q; left; auto).
        assert (b = bs_batch bs).
        { eapply id_unique with (steps := pre ++ [SConsume]); eauto; apply in_or_app; left; auto. }
        subst b. intros g Hg. apply Mono.
        assert (Hf : In g (filt (bs_batch bs) (Hd s))); [|unfold filt in Hf; apply filter_In in Hf; tauto].
        destruct (b_ordered (bs_batch bs)) eqn:Ord.
        * destruct (Iord _ Hbs Ord) as [A _]. rewrite (A bs); [|rewrite Q; left; auto | reflexivity].
          apply -> in_rev. rewrite firstn_all2; [exact Hg | unfold gs; rewrite map_length; exact Le].
        * destruct (Uun bs) as [cons [B1 [B2 B3]]]; [rewrite Q; left; auto | exact Ord |].
          destruct (Uarr bs) as [A1 A2]; [rewrite Q; left; auto|].
          rewrite B2. apply -> in_rev.
          apply In_nth with (d := 0) in Hg. destruct Hg as [q [Lq Eq]].
          unfold gs in Lq. rewrite map_length in Lq.
          assert (Hq : In q cons).
          { assert (Nc : NoDup cons).
            { assert (Nr : NoDup (rev (bs_arrived bs))) by (apply NoDup_rev; exact A1).
              rewrite B1 in Nr. eapply NoDup_app_l; eauto. }
            assert (Hin : incl cons (seq 0 (length (b_events (bs_batch bs))))).
            { intros p Hp. apply in_seq. split; [lia|]. simpl. apply A2. apply in_rev. rewrite B1. apply in_or_app; left; exact Hp. }
            assert (Hcov : incl (seq 0 (length (b_events (bs_batch bs)))) cons).
            { apply NoDup_length_incl; auto. rewrite seq_length. lia. }
            apply Hcov. apply in_seq. lia. }
          apply in_map_iff. exists q. split; [exact Eq | exact Hq].
      + apply in_app_or in Hb. destruct Hb as [Hb|[Hb|[]]].
        * eapply incl_tran; [apply D; auto | exact Mono].
        * (* a batch enqueued right now cannot be done already: its id is new *)
          subst x. exfalso. rewrite enq_snoc, map_app in Nid. simpl in Nid.
          eapply NoDup_app_disjoint; [exact Nid | apply D2; exact Hdn | left; reflexivity].
    - intros id Hid. rewrite L in Hid. apply in_app_or in Hid. destruct Hid as [Hid|Hid]; [|apply Mid, D2; exact Hid].
      destruct (Hnew _ Hid) as [Ex [Es [bs [rest [Q [Eid Le]]]]]]. subst id. apply Mid.
      apply in_map. apply enq_in. apply Iqin. rewrite Q. left; auto.
  Qed.

  Lemma DI_run : forall h0 steps, NoDup (all_g steps) -> NoDup (map b_id (enq steps)) -> DI steps (prun h0 steps).
  Proof.
    intros h0 steps. induction steps as [|x steps IH] using rev_ind; intros Nd Nid.
    - split; simpl; [intros b [] | intros id []].
    - assert (Nd0 : NoDup (all_g steps)).
      { unfold all_g in *. rewrite flat_map_app in Nd. eapply NoDup_app_l; eauto. }
      assert (Nid0 : NoDup (map b_id (enq steps))).
      { rewrite enq_snoc, map_app in Nid. eapply NoDup_app_l; eauto. }
      destruct (ALL_run fc fp cap_n cap_s lim_n lim_s h0 steps Nd0) as [O U _ _ _].
      rewrite (prun_snoc fc fp cap_n cap_s lim_n lim_s). apply DI_step; auto.
  Qed.

  (* every event of every finished batch has been released exactly once when the processor is
     stopped — whatever its fate *)
  Theorem finished_batch_released_once : forall h0 steps b,
    NoDup (all_g steps) -> NoDup (map b_id (enq steps)) ->
    let s := prun h0 steps in
    In (SEnq b) steps -> In (PDone (b_id b)) (plog s) -> stopped s = true ->
    forall g, In g (gs b) -> count_occ N.eq_dec (relg (plog s)) g = 1%nat.
  Proof.
    intros h0 steps b Nd Nid. cbv zeta. intros Hb Hdn Hs g Hg.
    destruct (DI_run h0 steps Nd Nid) as [D _].
    apply (handled_released_after_stop fc fp cap_n cap_s lim_n lim_s h0 steps Nd Hs).
    apply (D b Hb Hdn). exact Hg.
  Qed.
End D.
