(* C02: the fuel the model gives to the confirmEvents DFS is always enough (potential argument:
   |stack| + sum over unconfirmed stored events of (1 + #parents) strictly decreases). *)
From Coq Require Import NArith ZArith List Lia Bool ZifyBool ZifyN ZifyNat.
From LV Require Import model.VecIndex model.Abft proofs.AbftDfs.
Import ListNotations.
Local Open Scope N_scope.

Definition wsum_un (conf : list (N * N)) (es : estore) : nat :=
  fold_right (fun p acc => if conf_get conf (fst p) =? 0 then (1 + length (a_parents (snd p)) + acc)%nat else acc) 0%nat es.
Definition wsum_all (es : estore) : nat :=
  fold_right (fun p acc => (1 + length (a_parents (snd p)) + acc)%nat) 0%nat es.

Lemma wsum_un_le conf es : (wsum_un conf es <= wsum_all es)%nat.
Proof.
  induction es as [|p t IH]; cbn [wsum_un wsum_all fold_right]; auto.
  fold (wsum_un conf t) (wsum_all t). destruct (conf_get conf (fst p) =? 0); lia.
Qed.

Lemma wsum_mark_le w f conf es : f <> 0 -> (wsum_un (aput w f conf) es <= wsum_un conf es)%nat.
Proof.
  intros Hf. induction es as [|p t IH]; cbn [wsum_un fold_right]; auto.
  rewrite conf_get_aput. destruct (fst p =? w) eqn:E.
  - replace (f =? 0) with false by lia. destruct (conf_get conf (fst p) =? 0); fold (wsum_un (aput w f conf) t) (wsum_un conf t); lia.
  - destruct (conf_get conf (fst p) =? 0); fold (wsum_un (aput w f conf) t) (wsum_un conf t); lia.
Qed.

Lemma wsum_mark_drop w f conf : forall es ev, f <> 0 -> conf_get conf w = 0 -> alookup w es = Some ev ->
  (wsum_un (aput w f conf) es + 1 + length (a_parents ev) <= wsum_un conf es)%nat.
Proof.
  intros es ev Hf Z. induction es as [|[k e0] t IH]; cbn [alookup]; [discriminate|].
  cbn [wsum_un fold_right fst snd]. fold (wsum_un (aput w f conf) t) (wsum_un conf t).
  rewrite conf_get_aput. destruct (w =? k) eqn:E.
  - apply N.eqb_eq in E. subst k. intros H; inversion H; subst e0. rewrite N.eqb_refl.
    replace (f =? 0) with false by lia. rewrite Z. cbn. pose proof (wsum_mark_le w f conf t Hf). lia.
  - intros H. specialize (IH H). rewrite (N.eqb_sym k w), E.
    destruct (conf_get conf k =? 0); lia.
Qed.

Lemma dfs_confirm_fuel es frame : frame <> 0 -> forall fuel stack conf acc,
  (length stack + wsum_un conf es < fuel)%nat -> dfs_confirm fuel es frame stack conf acc <> Err EFuel.
Proof.
  intros Hf. induction fuel as [|fu IH]; intros stack conf acc Hlt; [lia|]. cbn [dfs_confirm].
  destruct stack as [|w rest]; [discriminate|]. cbn [length] in Hlt.
  destruct (get_event es w) as [ev|] eqn:G; [|discriminate].
  destruct (conf_get conf w =? 0) eqn:Z; cbn [negb].
  - apply N.eqb_eq in Z. apply IH. rewrite app_length, rev_length.
    pose proof (wsum_mark_drop w frame conf es ev Hf Z G). lia.
  - apply IH. lia.
Qed.

Lemma confirm_fuel_eq es : confirm_fuel es = S (S (wsum_all es)).
Proof.
  unfold confirm_fuel. f_equal.
  assert (G : forall l n, fold_left (fun n p => (n + 1 + length (a_parents (snd p)))%nat) l n = (n + wsum_all l)%nat).
  { induction l as [|p t IH]; intros n; cbn [fold_left wsum_all fold_right]; [lia|]. rewrite IH. fold (wsum_all t). lia. }
  rewrite G. lia.
Qed.

(* the DFS started by applyAtropos never runs out of fuel *)
Theorem confirm_never_out_of_fuel es frame atr conf : frame <> 0 ->
  dfs_confirm (confirm_fuel es) es frame [atr] conf [] <> Err EFuel.
Proof.
  intros Hf. apply dfs_confirm_fuel; auto. rewrite confirm_fuel_eq. cbn [length].
  pose proof (wsum_un_le conf es). lia.
Qed.
