(* Structural facts about the consensus model: which fields each function can change.
   [same_core st st']: everything equal except the forkless-cause cache and the votes/decisions
   of the election (its frame-to-decide and validators are equal). *)
From Coq Require Import NArith ZArith List Lia Bool ZifyBool ZifyN ZifyNat.
From LV Require Import model.VecIndex model.Abft.
Import ListNotations.
Local Open Scope N_scope.

Definition same_core (st st' : lstate) : Prop :=
  l_epoch st' = l_epoch st /\ l_vals st' = l_vals st /\ l_ldf st' = l_ldf st /\ l_roots st' = l_roots st /\
  l_conf st' = l_conf st /\ l_idx st' = l_idx st /\ l_ctr st' = l_ctr st /\
  el_frame (l_el st') = el_frame (l_el st) /\ el_vals (l_el st') = el_vals (l_el st).
Lemma same_core_refl st : same_core st st.
Proof. repeat split. Qed.
Lemma same_core_trans a b c : same_core a b -> same_core b c -> same_core a c.
Proof.
  unfold same_core. intros (A1&A2&A3&A4&A5&A6&A7&A8&A9) (B1&B2&B3&B4&B5&B6&B7&B8&B9).
  repeat split; congruence.
Qed.
Lemma same_core_fcc st c : same_core st (set_fcc st c).
Proof. repeat split. Qed.

Section Struct.
Variable cap : nat.

Lemma fc_cached_core st a b : same_core st (snd (fc_cached cap st a b)).
Proof. unfold fc_cached. destruct (cache_get _ _); apply same_core_fcc. Qed.

Lemma observed_loop_core rid : forall frs st acc, same_core st (snd (observed_loop cap st rid frs acc)).
Proof.
  induction frs as [|fr t IH]; intros st acc; cbn [observed_loop snd]; [apply same_core_refl|].
  pose proof (fc_cached_core st rid (r_id fr)) as H.
  destruct (fc_cached cap st rid (r_id fr)) as [b st1]. cbn [snd] in H.
  eapply same_core_trans; [exact H | apply IH].
Qed.

Lemma vote_subjects_el r1 obs nr : forall subjects el,
  let el' := snd (vote_subjects r1 obs nr subjects el) in
  el_frame el' = el_frame el /\ el_vals el' = el_vals el.
Proof.
  induction subjects as [|s t IH]; intros el; cbn [vote_subjects snd]; [split; reflexivity|].
  match goal with |- context [match ?X with Ok _ => _ | Err _ => _ end] => destruct X as [[vt dec]|x] end;
    cbn [snd]; [|split; reflexivity].
  specialize (IH {| el_frame := el_frame el; el_vals := el_vals el;
                    el_decided := if dec then aput s vt (el_decided el) else el_decided el;
                    el_votes := (nr, s, vt) :: el_votes el |}).
  cbn [el_frame el_vals] in IH. exact IH.
Qed.

Lemma choose_atropos_frame ids dec frame df atr :
  choose_atropos_loop ids dec frame = Ok (Some (df, atr)) -> df = frame.
Proof.
  induction ids as [|v t IH]; cbn [choose_atropos_loop]; [discriminate|].
  destruct (alookup v dec) as [vt|]; [|discriminate].
  destruct (vt_yes vt); [intros H; inversion H; reflexivity | exact IH].
Qed.

Lemma process_root_core st nr :
  same_core st (snd (process_root cap st nr)) /\
  (forall df atr, fst (process_root cap st nr) = Ok (Some (df, atr)) -> df = el_frame (l_el st)).
Proof.
  unfold process_root.
  destruct (choose_atropos (l_el st)) as [[[df0 atr0]|]|x] eqn:CA; cbn [fst snd].
  - split; [apply same_core_refl|]. intros df atr H. inversion H; subst.
    eapply choose_atropos_frame. exact CA.
  - destruct (r_frame nr <=? el_frame (l_el st)); cbn [fst snd].
    + split; [apply same_core_refl | discriminate].
    + pose proof (observed_loop_core (r_id nr) (get_frame_roots st (r_frame nr - 1)) st []) as HO.
      unfold observed_roots.
      destruct (observed_loop cap st (r_id nr) (get_frame_roots st (r_frame nr - 1)) []) as [obs st1]. cbn [snd] in HO.
      pose proof (vote_subjects_el (r_frame nr - el_frame (l_el st) =? 1) obs nr (not_decided (l_el st)) (l_el st)) as HV.
      destruct (vote_subjects (r_frame nr - el_frame (l_el st) =? 1) obs nr (not_decided (l_el st)) (l_el st)) as [e el'].
      cbn [snd] in HV. destruct HV as [HV1 HV2].
      assert (SC : same_core st (set_el st1 el')).
      { destruct HO as (A1&A2&A3&A4&A5&A6&A7&A8&A9). repeat split; cbn; auto. }
      destruct e as [x|]; cbn [fst snd]; split; auto; try discriminate.
      intros df atr H. unfold choose_atropos in H. apply choose_atropos_frame in H. congruence.
  - split; [apply same_core_refl | discriminate].
Qed.

Lemma pkr_frame_core : forall frs st,
  same_core st (snd (pkr_frame cap st frs)) /\
  (forall df atr, fst (pkr_frame cap st frs) = Ok (Some (df, atr)) -> df = el_frame (l_el st)).
Proof.
  induction frs as [|r t IH]; intros st; cbn [pkr_frame fst snd].
  - split; [apply same_core_refl | discriminate].
  - destruct (process_root_core st r) as [H1 H2].
    destruct (process_root cap st r) as [[[d|]|x] st1]; cbn [fst snd] in *.
    + split; auto.
    + destruct (IH st1) as [I1 I2]. split; [eapply same_core_trans; eauto|].
      intros df atr H. rewrite (I2 _ _ H). destruct H1 as (_&_&_&_&_&_&_&A8&_). exact A8.
    + split; [auto | discriminate].
Qed.

Lemma process_known_roots_core : forall fuel st f,
  same_core st (snd (process_known_roots cap fuel st f)) /\
  (forall df atr, fst (process_known_roots cap fuel st f) = Ok (Some (df, atr)) -> df = el_frame (l_el st)).
Proof.
  induction fuel as [|fu IH]; intros st f; cbn [process_known_roots fst snd].
  - split; [apply same_core_refl | discriminate].
  - destruct (pkr_frame_core (get_frame_roots st f) st) as [H1 H2].
    destruct (pkr_frame cap st (get_frame_roots st f)) as [[[d|]|x] st1]; cbn [fst snd] in *.
    + split; auto.
    + destruct (get_frame_roots st f); cbn [fst snd]; [split; [auto | discriminate]|].
      destruct (IH st1 (f + 1)) as [I1 I2]. split; [eapply same_core_trans; eauto|].
      intros df atr H. rewrite (I2 _ _ H). destruct H1 as (_&_&_&_&_&_&_&A8&_). exact A8.
    + split; [auto | discriminate].
Qed.

End Struct.
