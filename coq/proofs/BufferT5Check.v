(* C14: the executable completeness checker [t5_check] accepts every history of the model.
   Two bridges are needed: (1) its premise looks at the LOG ("no Check/Process failed") whereas
   C14_T5_complete assumes oracles that never fail: a run in whose log nothing failed is the same
   run as with the never-failing oracles; (2) its DAG test peels the events, the theorem wants a
   rank function. *)
From Coq Require Import NArith ZArith List Bool Lia Arith ZifyBool ZifyNat ZifyN.
From LV Require Import model.Buffer spec.BufferSpec proofs.BufferInv proofs.BufferPush proofs.BufferRun
  proofs.BufferExt proofs.BufferTheorems proofs.BufferComplete proofs.BufferComplete2
  proofs.BufferSpecProofs proofs.BufferTop.
Import ListNotations.
Local Open Scope N_scope.

Definition ff : list out -> entry -> bool := fun _ _ => false.

Lemma no_failure_app : forall a b, no_failure (a ++ b) = no_failure a && no_failure b.
Proof. intros; unfold no_failure; apply forallb_app. Qed.
Lemma no_failure_ext : forall s s', ext s s' -> no_failure (log s') = true -> no_failure (log s) = true.
Proof.
  intros s s' [new [E _]] H. rewrite E, no_failure_app in H. apply andb_true_iff in H. tauto.
Qed.

Section NF.
  Variable fc fp : list out -> entry -> bool.

  Lemma pc_nofail : forall s x, no_failure (log (fst (process_complete fc fp s x))) = true ->
    process_complete fc fp s x = process_complete ff ff s x.
  Proof.
    intros s x H. unfold process_complete in *. unfold ff at 1 2.
    destruct (fc (log s) x) eqn:E1.
    - exfalso. cbn [fst] in H. destruct (drop_core (emit s (OCheck (cid x) (eid x) false)) (cid x) 2) as [_ [_ [_ [L _]]]].
      rewrite L in H. simpl in H. discriminate.
    - destruct (fp (log (emit s (OCheck (cid x) (eid x) true))) x) eqn:E2; [|reflexivity].
      exfalso. cbn [fst] in H. simpl in H. discriminate.
  Qed.

  Lemma push_rec_nofail : forall f s x snap re,
    no_failure (log (fst (push_rec fc fp true f s x snap re))) = true ->
    push_rec fc fp true f s x snap re = push_rec ff ff true f s x snap re.
  Proof.
    induction f as [|f IH]; intros s x snap re H; [reflexivity|].
    rewrite push_rec_S in *. rewrite (push_rec_S ff ff).
    destruct (is_connected s (eid x)); [reflexivity|].
    destruct (negb (complete s x)); [reflexivity|].
    pose proof (pc_nofail s x) as Hpc.
    destruct (process_complete fc fp s x) as [s1 ok] eqn:Epc. cbn [fst] in *.
    set (s2 := release s1 x) in *.
    set (snap' := match snap with Some l => l | None => inc s2 end) in *.
    assert (Hs3 : no_failure (log (if ok then fold_left (body fc fp f x snap') snap' s2 else s2)) = true) by exact H.
    assert (Hs2 : no_failure (log s2) = true).
    { destruct ok; [|exact Hs3]. eapply no_failure_ext; [|exact Hs3].
      apply ext_fold. intros sa y. unfold body.
      destruct (memN (eid x) (pars y) && negb (true && memN (cid y) (released sa))); [apply ext_push_rec | apply ext_refl]. }
    assert (Hs1 : no_failure (log s1) = true) by (eapply no_failure_ext; [apply ext_release | exact Hs2]).
    rewrite <- (Hpc Hs1). cbn [fst]. fold s2. fold snap'.
    destruct ok; [|reflexivity].
    assert (F : fold_left (body fc fp f x snap') snap' s2 = fold_left (body ff ff f x snap') snap' s2); [|rewrite F; reflexivity].
    clear -IH Hs3. revert Hs3. generalize s2. generalize snap' at 2 4 6.
    intros l. induction l as [|y l IHl]; intros sa Hn; [reflexivity|]. simpl in *.
    assert (E : body fc fp f x snap' sa y = body ff ff f x snap' sa y).
    { assert (Hb : no_failure (log (body fc fp f x snap' sa y)) = true).
      { eapply no_failure_ext; [|exact Hn]. apply ext_fold. intros sb z. unfold body.
        destruct (memN (eid x) (pars z) && negb (true && memN (cid z) (released sb))); [apply ext_push_rec | apply ext_refl]. }
      unfold body in *. destruct (memN (eid x) (pars y) && negb (true && memN (cid y) (released sa))); [|reflexivity].
      rewrite IH; [reflexivity | exact Hb]. }
    rewrite <- E. apply IHl. exact Hn.
  Qed.

  Lemma push_event_nofail : forall limN limS s e ps sz,
    no_failure (log (push_event fc fp true limN limS s e ps sz)) = true ->
    push_event fc fp true limN limS s e ps sz = push_event ff ff true limN limS s e ps sz.
  Proof.
    intros limN limS s e ps sz H. unfold push_event in *.
    destruct (existsb (fun y => eid y =? e) (inc (bump s))); [reflexivity|].
    pose proof (push_rec_nofail (S (length (inc (bump s)))) (bump s) (mkEntry (next s) e ps sz) None false) as P.
    destruct (push_rec fc fp true (S (length (inc (bump s)))) (bump s) (mkEntry (next s) e ps sz) None false) as [s1 ok] eqn:E.
    cbn [fst] in P. rewrite <- P; [reflexivity|].
    eapply no_failure_ext; [apply ext_spill|]. simpl in H. exact H.
  Qed.

  Lemma run_nofail : forall limN limS ops,
    no_failure (log (run fc fp true limN limS ops)) = true ->
    run fc fp true limN limS ops = run ff ff true limN limS ops.
  Proof.
    intros limN limS ops. induction ops as [|o ops IH] using rev_ind; intros H; [reflexivity|].
    rewrite run_snoc in *. rewrite (run_snoc ff ff).
    assert (Hp : no_failure (log (run fc fp true limN limS ops)) = true).
    { destruct o as [e ps sz| |e]; simpl step in H.
      - destruct (push_event_ext fc fp true limN limS (run fc fp true limN limS ops) e ps sz) as [c [ok [n [z [new [EL _]]]]]].
        rewrite EL in H. simpl in H. rewrite no_failure_app in H. apply andb_true_iff in H. tauto.
      - destruct (clear_buf_ext (run fc fp true limN limS ops)) as [n [z [new [EL _]]]].
        rewrite EL in H. simpl in H. rewrite no_failure_app in H. apply andb_true_iff in H. tauto.
      - simpl in H. exact H. }
    rewrite <- (IH Hp). destruct o as [e ps sz| |e]; simpl step in *; try reflexivity.
    apply push_event_nofail. exact H.
  Qed.
End NF.

(* ---------- peeling gives a rank *)
Fixpoint idx (e : N) (l : list N) : nat :=
  match l with [] => O | h :: t => if h =? e then O else S (idx e t) end.
Lemma idx_lt : forall e l, In e l -> (idx e l < length l)%nat.
Proof.
  intros e l; induction l as [|h t IH]; simpl; intros H; [contradiction|].
  destruct (h =? e) eqn:E; [lia|]. destruct H as [H|H]; [subst; rewrite N.eqb_refl in E; discriminate|].
  specialize (IH H). lia.
Qed.
Lemma idx_split : forall e l, In e l -> exists a b, l = a ++ e :: b /\ ~ In e a /\ idx e l = length a.
Proof.
  intros e l; induction l as [|h t IH]; simpl; intros H; [contradiction|].
  destruct (h =? e) eqn:E.
  - apply N.eqb_eq in E. subst. exists [], t. simpl. auto.
  - destruct H as [H|H]; [subst; rewrite N.eqb_refl in E; discriminate|].
    destruct (IH H) as [a [b [E1 [E2 E3]]]]. exists (h :: a), b.
    split; [simpl; rewrite <- E1; reflexivity|]. split; [|simpl; rewrite E3; reflexivity].
    intros [Hh|Hh]; [subst; rewrite N.eqb_refl in E; discriminate | contradiction].
Qed.
Lemma idx_app_l : forall e a b, In e a -> idx e (a ++ b) = idx e a.
Proof.
  intros e a b; induction a as [|h t IH]; simpl; intros H; [contradiction|].
  destruct (h =? e) eqn:E; auto. destruct H as [H|H]; [subst; rewrite N.eqb_refl in E; discriminate|].
  rewrite IH; auto.
Qed.

Definition parent_ordered (cs : list entry) (res : list N) : Prop :=
  forall a e b, res = a ++ e :: b -> exists x, In x cs /\ eid x = e /\ forall p, In p (pars x) -> In p a.

Lemma app_split_mid : forall {A} (l1 l2 a b : list A) x, l1 ++ l2 = a ++ x :: b ->
  (exists m, l1 = a ++ x :: m /\ b = m ++ l2) \/ (exists m, a = l1 ++ m /\ l2 = m ++ x :: b).
Proof.
  intros A l1; induction l1 as [|y l1 IH]; intros l2 a b x H; simpl in H.
  - right. exists a. auto.
  - destruct a as [|z a]; simpl in H; inversion H; subst.
    + left. exists l1. auto.
    + destruct (IH _ _ _ _ H2) as [[m [E1 E2]]|[m [E1 E2]]].
      * left. exists m. subst. auto.
      * right. exists m. subst. auto.
Qed.

Lemma peel_ordered : forall fuel cs res, parent_ordered cs res -> parent_ordered cs (peel fuel cs res).
Proof.
  induction fuel as [|f IH]; intros cs res P; [exact P|]. simpl. apply IH.
  intros a e b H. destruct (app_split_mid _ _ _ _ _ H) as [[m [E1 E2]]|[m [E1 E2]]].
  - apply (P a e m). exact E1.
  - assert (He : In e (map eid (filter (fun x => negb (memN (eid x) res) && forallb (fun p => memN p res) (pars x)) cs))).
    { rewrite E2. apply in_or_app; right; left; reflexivity. }
    apply in_map_iff in He. destruct He as [x [Ex Hx]]. apply filter_In in Hx. destruct Hx as [Hx Hc].
    apply andb_true_iff in Hc. destruct Hc as [_ Hc]. rewrite forallb_forall in Hc.
    exists x. repeat split; auto. intros p Hp. rewrite E1. apply in_or_app; left. apply memN_In. apply Hc; exact Hp.
Qed.

Lemma closed_dag_rank : forall cs, NoDup (map eid cs) -> closed_dag cs = true ->
  exists rank : N -> nat, forall x, In x cs -> forall p, In p (pars x) ->
    (exists y, In y cs /\ eid y = p) /\ (rank p < rank (eid x))%nat.
Proof.
  intros cs Nd H. unfold closed_dag in H. set (res := peel (length cs) cs []) in *.
  assert (P : parent_ordered cs res).
  { apply peel_ordered. intros a e b E. destruct a; discriminate. }
  rewrite forallb_forall in H.
  exists (fun e => idx e res). intros x Hx p Hp.
  assert (Hin : In (eid x) res) by (apply memN_In; apply H; exact Hx).
  destruct (idx_split _ _ Hin) as [a [b [E1 [E2 E3]]]].
  destruct (P a (eid x) b E1) as [x' [Hx' [Ex' Hp']]].
  assert (x' = x) by (eapply NoDup_map_inj_in; eauto). subst x'.
  assert (Hpa : In p a) by (apply Hp'; exact Hp).
  split.
  - apply in_split in Hpa. destruct Hpa as [a1 [a2 Ea]].
    destruct (P a1 p (a2 ++ eid x :: b)) as [y [Hy [Ey _]]]; [rewrite E1, Ea, <- app_assoc; reflexivity|].
    exists y. auto.
  - rewrite E3. rewrite E1. rewrite idx_app_l by exact Hpa. apply idx_lt. exact Hpa.
Qed.

(* ---------- the premise, read back *)
Lemma nodupN_NoDup : forall l, nodupN l = true -> NoDup l.
Proof.
  induction l as [|a l IH]; simpl; intros H; [constructor|].
  apply andb_true_iff in H. destruct H as [A B]. apply negb_true_iff in A. apply memN_false in A.
  constructor; auto.
Qed.
Lemma only_pushes_shape : forall ops, only_pushes ops = true ->
  exists pushes, ops = push_ops pushes \/ ops = push_ops pushes ++ [OpClear].
Proof.
  induction ops as [|o ops IH]; intros H.
  - exists []. left. reflexivity.
  - destruct o as [e ps sz| |e].
    + simpl in H. destruct (IH H) as [pushes [E|E]]; exists ((e, ps, sz) :: pushes); [left | right]; simpl; rewrite E; reflexivity.
    + destruct ops; [exists []; right; reflexivity | simpl in H; discriminate].
    + simpl in H. discriminate.
Qed.
Lemma no_failure_rev : forall l, no_failure (rev l) = no_failure l.
Proof.
  intros l. unfold no_failure. induction l as [|a l IH]; simpl; auto.
  rewrite forallb_app, IH. simpl. rewrite andb_true_r. apply andb_comm.
Qed.

Theorem model_passes_t5 : forall fc fp limN limS ops,
  t5_check limN limS ops (hist fc fp limN limS ops) = true.
Proof.
  intros fc fp limN limS ops. unfold t5_check. destruct (t5_premise limN limS ops (hist fc fp limN limS ops)) eqn:P; [|reflexivity].
  unfold t5_premise in P. repeat (apply andb_true_iff in P; destruct P as [P ?]).
  rename H into Hnf. rename H0 into HS. rename H1 into HN. rename H2 into Hdag. rename H3 into Hnd.
  apply N.leb_le in HS, HN. apply nodupN_NoDup in Hnd.
  unfold hist, final in Hnf. rewrite no_failure_rev in Hnf.
  assert (Er : run fc fp true limN limS ops = run ff ff true limN limS ops) by (apply run_nofail; exact Hnf).
  assert (Eh : hist fc fp limN limS ops = hist ff ff limN limS ops) by (unfold hist, final; rewrite Er; reflexivity).
  rewrite Eh. clear Er Eh Hnf.
  destruct (closed_dag_rank _ Hnd Hdag) as [rank Hr].
  assert (Hff : forall l x, ff l x = false /\ ff l x = false) by (intros; split; reflexivity).
  apply forallb_forall. intros x Hx. unfold processed_ok. apply existsb_exists.
  destruct (only_pushes_shape ops P) as [pushes [E|E]]; subst ops.
  - destruct (T5_complete ff ff Hff limN limS pushes rank Hnd HN HS Hr) as [A _].
    destruct (A x Hx) as [c Hc]. exists (OProcess c (eid x) true). split; [exact Hc | apply N.eqb_refl].
  - rewrite copies_of_snoc, app_nil_r in *.
    destruct (T5_complete ff ff Hff limN limS pushes rank Hnd HN HS Hr) as [A _].
    destruct (A x Hx) as [c Hc]. exists (OProcess c (eid x) true). split; [|apply N.eqb_refl].
    unfold hist, final in *. rewrite run_snoc. simpl step.
    destruct (clear_buf_ext (run ff ff true limN limS (push_ops pushes))) as [n [z [new [EL _]]]].
    rewrite EL. apply -> in_rev. apply in_rev in Hc. right. apply in_or_app; right. exact Hc.
Qed.

(* all five clauses: the whole executable specification accepts every history of the model *)
Theorem model_passes_c14_check : forall fc fp limN limS ops,
  c14_check limN limS ops (hist fc fp limN limS ops) = true.
Proof.
  intros fc fp limN limS ops. unfold c14_check.
  destruct (BufferSpecProofs.model_passes_t1_t2 fc fp limN limS ops) as [A B].
  destruct (BufferTop.model_passes_t3_t4 fc fp limN limS ops) as [C D].
  rewrite A, B, C, D, (model_passes_t5 fc fp limN limS ops). reflexivity.
Qed.

(* ---------- the converse: on a parents-closed DAG (rank hypothesis of T5) the checker's peeling
   succeeds, so t5_check's premise is not vacuously false on such inputs *)
Lemma filter_length_le' : forall {A} (p : A -> bool) l, (length (filter p l) <= length l)%nat.
Proof. intros A p l; induction l as [|a l IH]; simpl; auto. destruct (p a); simpl; lia. Qed.

Definition unresolved (cs : list entry) (res : list N) : list entry :=
  filter (fun x => negb (memN (eid x) res)) cs.

Lemma min_rank_exists : forall (rank : N -> nat) (l : list entry), l <> [] ->
  exists x, In x l /\ forall y, In y l -> (rank (eid x) <= rank (eid y))%nat.
Proof.
  intros rank l; induction l as [|a l IH]; intros H; [contradiction|].
  destruct l as [|b l'].
  - exists a. split; [left; auto|]. intros y [Hy|[]]; subst; lia.
  - destruct IH as [m [Hm Hmin]]; [discriminate|].
    destruct (Nat.le_gt_cases (rank (eid a)) (rank (eid m))) as [L|L].
    + exists a. split; [left; auto|]. intros y [Hy|Hy]; [subst; lia|]. specialize (Hmin y Hy). lia.
    + exists m. split; [right; auto|]. intros y [Hy|Hy]; [subst; lia | apply Hmin; auto].
Qed.

Lemma peel_round_progress : forall (rank : N -> nat) cs res,
  (forall x, In x cs -> forall p, In p (pars x) ->
     (exists y, In y cs /\ eid y = p) /\ (rank p < rank (eid x))%nat) ->
  let res' := res ++ map eid (filter (fun x => negb (memN (eid x) res) && forallb (fun p => memN p res) (pars x)) cs) in
  (length (unresolved cs res') <= length (unresolved cs res))%nat
  /\ (unresolved cs res <> [] -> (length (unresolved cs res') < length (unresolved cs res))%nat).
Proof.
  intros rank cs res Dag res'.
  assert (Mono : forall x, In x cs -> negb (memN (eid x) res') = true -> negb (memN (eid x) res) = true).
  { intros x _ H. apply negb_true_iff in H. apply negb_true_iff. apply memN_false in H. apply memN_false.
    intros C. apply H. unfold res'. apply in_or_app; left; exact C. }
  split; [apply filter_len_mono; exact Mono|].
  intros Hne. destruct (min_rank_exists rank (unresolved cs res) Hne) as [x [Hx Hmin]].
  unfold unresolved in Hx. apply filter_In in Hx. destruct Hx as [Hxc Hxr].
  assert (Hp : forallb (fun p => memN p res) (pars x) = true).
  { apply forallb_forall. intros p Hp. destruct (Dag x Hxc p Hp) as [[y [Hy Ey]] Rk].
    destruct (memN p res) eqn:M; auto. exfalso.
    assert (Hyu : In y (unresolved cs res)).
    { unfold unresolved. apply filter_In. split; auto. rewrite Ey, M. reflexivity. }
    specialize (Hmin y Hyu). rewrite Ey in Hmin. lia. }
  unfold unresolved. apply filter_len_strict with (x := x); auto.
  apply negb_false_iff. apply memN_In. unfold res'. apply in_or_app; right.
  apply in_map. apply filter_In. split; auto. rewrite Hxr, Hp. reflexivity.
Qed.

Lemma peel_unresolved : forall (rank : N -> nat) cs,
  (forall x, In x cs -> forall p, In p (pars x) ->
     (exists y, In y cs /\ eid y = p) /\ (rank p < rank (eid x))%nat) ->
  forall fuel res, (length (unresolved cs (peel fuel cs res)) <= length (unresolved cs res) - fuel)%nat.
Proof.
  intros rank cs Dag. induction fuel as [|f IH]; intros res; simpl; [lia|].
  destruct (peel_round_progress rank cs res Dag) as [A B]. cbv zeta in A, B.
  specialize (IH (res ++ map eid (filter (fun x => negb (memN (eid x) res) && forallb (fun p => memN p res) (pars x)) cs))).
  destruct (unresolved cs res) as [|u us] eqn:E.
  - simpl in *. lia.
  - assert (Hne : u :: us <> []) by discriminate. specialize (B Hne). simpl in *. lia.
Qed.

Theorem closed_dag_complete : forall (rank : N -> nat) cs,
  (forall x, In x cs -> forall p, In p (pars x) ->
     (exists y, In y cs /\ eid y = p) /\ (rank p < rank (eid x))%nat) ->
  closed_dag cs = true.
Proof.
  intros rank cs Dag. unfold closed_dag. apply forallb_forall. intros x Hx.
  pose proof (peel_unresolved rank cs Dag (length cs) []) as L.
  assert (L0 : (length (unresolved cs []) <= length cs)%nat) by (unfold unresolved; apply filter_length_le').
  assert (E : unresolved cs (peel (length cs) cs []) = []).
  { destruct (unresolved cs (peel (length cs) cs [])); [reflexivity | simpl in L; lia]. }
  destruct (memN (eid x) (peel (length cs) cs [])) eqn:M; auto. exfalso.
  assert (In x (unresolved cs (peel (length cs) cs []))).
  { unfold unresolved. apply filter_In. split; auto. rewrite M. reflexivity. }
  rewrite E in H. contradiction.
Qed.
