(* L1 in its first form (LinkDefs.abft_run = ElectionSpec.reference: one epoch, Build + Process per event,
   no noise), now ALSO for event streams that contain events which the reference rejects for their frame
   (code 1) or does not offer (code 2): the model rejects / skips exactly those.  Obtained from the extended
   statement (LinkEpochsX.epoch_x_raw) by forgetting the extra observations. *)
From Coq Require Import NArith ZArith List Lia Bool ZifyBool ZifyN ZifyNat.
From LV Require Import lib.Bytes model.Codec model.VecIndex model.Abft model.AbftRun spec.ElectionSpec
  proofs.BftGraph proofs.BftRun proofs.BftMain proofs.BftAccept proofs.BftProps
  proofs.LinkVals proofs.LinkPerm proofs.LinkDefs proofs.LinkStep proofs.LinkNoise proofs.LinkEpoch proofs.LinkReject proofs.LinkX proofs.LinkEpochX proofs.LinkEpochsX.
Import ListNotations.
Local Open Scope N_scope.

Definition slot0 (e : fev) : xslot := {| x_pre := []; x_ev := e; x_build := true; x_mid := [] |}.
Definition pj_ev (e : ev_x) : N * N := (fst (fst e), match snd (fst e) with Some f => f | None => 0 end).
Definition pj_blk (b : blk_x) : N * N * list N := fst b.

Lemma abft_ops_x ep lam vals D : abft_ops ep lam vals D = xsched_ops ep lam vals (map slot0 D) [].
Proof.
  unfold abft_ops, xsched_ops. rewrite app_nil_r. induction D as [|e D IH]; [reflexivity|]. cbn [flat_map map]. rewrite IH. reflexivity.
Qed.

(* ---------- the old rendering is the projection of the new one ---------- *)
Lemma guard_build_process i x w : guard i x false = Some w -> exists w', guard i x true = Some w'.
Proof.
  unfold guard. cbn [andb]. destruct (AbftRun.mem (a_id x) (i_proc i)); [eexists; reflexivity|].
  intros H. rewrite H. eexists; reflexivity.
Qed.

Lemma render_of_x cap pol ep lam vals : forall D i,
  let os := run cap pol sample i (abft_ops ep lam vals D) in
  (forall e, In e (fst (render_x (map slot0 D) [] os)) -> fst (fst e) < 3) ->
  render os = (map pj_ev (fst (render_x (map slot0 D) [] os)), map pj_blk (snd (render_x (map slot0 D) [] os))).
Proof.
  induction D as [|e D IH]; intros i os H; [reflexivity|].
  set (x := to_aevent ep lam vals e) in *.
  change (abft_ops ep lam vals (e :: D)) with (OpB x :: OpP x :: abft_ops ep lam vals D) in os.
  unfold os in *. clear os. cbn [run] in *.
  destruct (step cap pol sample i (OpB x)) as [[ob i1] d1] eqn:EB.
  assert (Hob : (exists w, ob = ObsSkip w /\ i1 = i /\ d1 = false /\ guard i x false = Some w) \/ (exists r, ob = ObsB r)).
  { cbn [step] in EB. destruct (guard i x false) as [w|] eqn:G.
    - inversion EB; subst. left. exists w. auto.
    - destruct (build_with cap sample (i_es i) (i_st i) x) as [r st']. inversion EB; subst. right. eexists; reflexivity. }
  destruct d1.
  { (* the Build was fatal: the run ends, the new rendering reports it *)
    exfalso. cbn [map render_x slot0 x_pre x_build x_mid length firstn skipn hd_error tl] in H.
    specialize (H (99, None, None)). cbn [render_noise app fst In] in H. specialize (H (or_introl eq_refl)). cbn in H. lia. }
  destruct (step cap pol sample i1 (OpP x)) as [[op i2] d2] eqn:EP.
  assert (Hop : (exists w, op = ObsSkip w) \/ (exists r bl ldf ep0, op = ObsP r bl ldf ep0)).
  { cbn [step] in EP. destruct (guard i1 x true) as [w|].
    - inversion EP; subst. left. eexists; reflexivity.
    - destruct (process cap (policy_fn pol) (aput (a_id x) x (i_es i1)) (i_st i1) x) as [[[u|er] bl] st']; inversion EP; subst; right; do 4 eexists; reflexivity. }
  set (rest := if d2 then [] else run cap pol sample i2 (abft_ops ep lam vals D)) in *.
  assert (RX : render_x (map slot0 (e :: D)) [] (ob :: op :: rest) =
               (ev_of true (Some ob) op :: fst (render_x (map slot0 D) [] rest), blocks_of op ++ snd (render_x (map slot0 D) [] rest))).
  { cbn [map render_x slot0 x_pre x_build x_mid length firstn skipn hd_error tl render_noise app].
    destruct (render_x (map slot0 D) [] rest). reflexivity. }
  rewrite RX in H |- *. cbn [fst snd map] in H |- *.
  assert (Hrest : render rest = (map pj_ev (fst (render_x (map slot0 D) [] rest)), map pj_blk (snd (render_x (map slot0 D) [] rest)))).
  { unfold rest in *. destruct d2.
    - destruct D as [|e' D']; [reflexivity|]. exfalso.
      cbn [map render_x slot0 x_pre x_build x_mid length firstn skipn hd_error tl] in H.
      specialize (H (99, None, None)). cbn [render_noise app fst In] in H. specialize (H (or_intror (or_introl eq_refl))). cbn in H. lia.
    - apply IH. intros e0 He0. apply H. right. exact He0. }
  pose proof (H _ (or_introl eq_refl)) as Hc.
  destruct Hop as [[w' ->]|(r & bl & ldf & ep0 & ->)].
  - (* the Process was stopped by the guard *)
    cbn [ev_of fst] in Hc. assert (Hw : (w' =? 2) = false) by (destruct (w' =? 2); [cbn in Hc; lia | reflexivity]).
    cbn [ev_of blocks_of app pj_ev fst snd]. rewrite Hw.
    destruct Hob as [(w & -> & _)|[rb ->]]; cbn [render]; rewrite Hrest; reflexivity.
  - destruct Hob as [(w & -> & -> & _ & G)|[rb ->]].
    + exfalso. destruct (guard_build_process i x w G) as [w' G']. cbn [step] in EP. rewrite G' in EP. discriminate.
    + cbn [render]. rewrite Hrest. cbn [ev_of blocks_of pj_ev fst snd]. rewrite map_app. f_equal.
      * f_equal. destruct rb as [f|er]; reflexivity.
      * f_equal. unfold pj_blk, blk_of. rewrite map_map. reflexivity.
Qed.

(* ---------- the reference walk without a policy is the reference ---------- *)
Lemma seal_of_none vals T : seal_of vals (fun _ => None) T = None.
Proof. unfold seal_of. apply first_some_none. reflexivity. Qed.
Lemma ref_x_none ep vals : forall D T, (forall r, In r (snd (add_events vals T D)) -> fst r < 3) ->
  map pj_ev (fst (fst (ref_x ep vals (fun _ => None) T (map slot0 D) []))) = snd (add_events vals T D) /\
  map pj_blk (snd (fst (ref_x ep vals (fun _ => None) T (map slot0 D) []))) =
    map (fun b => (fst b, snd b, ElectionSpec.cheaters_of vals (fst (add_events vals T D)) (snd b))) (r_blocks vals (fst (add_events vals T D))) /\
  snd (ref_x ep vals (fun _ => None) T (map slot0 D) []) = None.
Proof.
  induction D as [|e D IH]; intros T H.
  - cbn [map ref_x add_events fst snd restarts filter]. split; [reflexivity|]. split; [|reflexivity].
    unfold blocks_x. rewrite map_map. reflexivity.
  - cbn [map add_events] in *. destruct (add_event vals T e) as [T1 [c h]] eqn:AE.
    change (slot0 e :: map slot0 D) with (slot0 e :: map slot0 D).
    rewrite (ref_x_cont ep vals (fun _ => None) T (slot0 e) (map slot0 D) [] T1 c h AE (seal_of_none vals T1)).
    specialize (IH T1). destruct (add_events vals T1 D) as [T2 rs] eqn:AEs. cbn [fst snd] in *.
    destruct IH as (I1 & I2 & I3); [intros r Hr; apply H; right; exact Hr|].
    cbn [slot0 x_pre x_mid x_build restarts filter map app fst snd]. rewrite I1, I2, I3. split; [|auto].
    f_equal. unfold pj_ev. cbn [fst snd andb]. f_equal.
    assert (Hc : c < 3) by (apply (H (c, h)); left; reflexivity).
    destruct (c <? 2) eqn:C2; [reflexivity|]. apply N.ltb_ge in C2. assert (c = 2) by lia. subst c.
    symmetry. apply (add_event_c2 vals T e T1 h AE).
Qed.

Lemma sched_in_plain ep vals : forall D T ids, sched_in ep vals (fun _ => None) T ids (map slot0 D) [].
Proof.
  induction D as [|e D IH]; intros T ids; cbn [map sched_in slot0 x_pre x_mid x_ev]; [constructor|].
  split; [constructor|]. split; [constructor|]. destruct (add_event vals T e) as [T1 [c h]]. rewrite seal_of_none. apply IH.
Qed.

(* ================= the theorem ================= *)
Definition link_side_codes (vals : list (N * N)) (D : list fev) : Prop :=
  raw_ok vals /\ v_total vals < 2 ^ 31 /\ stream_ok vals D /\ ids_ok vals (N.of_nat (length D)) [] [] D /\ N.of_nat (length D) < 2 ^ 192.

Theorem link_codes cap lam vals D : link_side_codes vals D -> abft_run cap lam vals D = reference vals D.
Proof.
  intros (Raw & Tot & Str & Ids & HK). unfold abft_run.
  destruct D as [|e0 D0]; [reflexivity|]. set (D := e0 :: D0) in *.
  assert (Ne : vals <> []).
  { destruct Str as (Hcr & _). specialize (Hcr e0 (or_introl eq_refl)). destruct vals; [cbn in Hcr; lia | discriminate]. }
  destruct (next_vals_ok vals Raw Tot Ne) as (_ & Vok & _ & Hnv).
  assert (HS : Sim 1 lam (mk_vals vals) (fun _ => False) (N.of_nat (length D)) (start 1 vals) [] [] []).
  { apply (Sim_fresh 1 lam (mk_vals vals) Vok (fun _ => False) _ (fun a (F : False) => match F with end) [] 0 []); [lia | exact Hnv]. }
  assert (Str' : stream_ok vals (map x_ev (map slot0 D))) by (rewrite map_map, map_id; exact Str).
  assert (Ids' : ids_ok vals (N.of_nat (length D)) [] [] (map x_ev (map slot0 D))) by (rewrite map_map, map_id; exact Ids).
  destruct (epoch_x_raw cap [] (N.of_nat (length D)) HK 1 lam vals Raw Tot (fun _ => None) (fun _ => eq_refl)
              (fun f x (Hx : None = Some x) => match Hx with end) (map slot0 D) [] (start 1 vals) lam HS Str' Ids' (sched_in_plain 1 vals D [] []))
    as (RX & _ & _).
  { rewrite count_builds_xsched. cbn [start i_st genesis l_ctr].
    assert (E : sched_builds (map slot0 D) [] = length D).
    { clear. induction D as [|e D IH]; [reflexivity|]. cbn [map sched_builds fold_right length]. fold (sched_builds (map slot0 D) []). rewrite IH. reflexivity. }
    rewrite E. lia. }
  rewrite <- abft_ops_x in RX.
  destruct Str as (_ & Hc & _).
  destruct (ref_x_none 1 vals D [] Hc) as (R1 & R2 & _).
  rewrite (render_of_x cap [] 1 lam vals D (start 1 vals)).
  - rewrite RX. cbn [fst snd]. rewrite R1, R2. unfold reference. destruct (add_events vals [] D) as [T rs]. reflexivity.
  - rewrite RX. cbn [fst]. intros e He. apply (in_map pj_ev) in He. rewrite R1 in He. apply (Hc _ He).
Qed.
