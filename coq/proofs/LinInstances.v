(* C28 — the generic theorem instantiated with the ACTUAL sequential models of two components:
   utils/wlru.Cache with model/Wlru.v (C29) and utils/datasemaphore.DataSemaphore with model/Semaphore.v
   (C30), the latter including the blocking Acquire with its Cond.Wait loop.
   The lock kind of every operation is read from the lock table (regenerated from the Go source);
   the premise [shared_readonly] is discharged from the models: a method for which the table reports the
   shared lock must be one whose model step leaves the state unchanged.  A table that reports RLock for a
   mutating operation (or no lock at all) makes [tk_check] false and breaks the instance.

   Apart from Acquire, a method body is taken as ONE step of the machine of model/Lin.v (the whole
   sequential step function of the model); any finer-grained body is what the mutex makes atomic anyway. *)
From Coq Require Import String List NArith ZArith Bool Arith Lia.
From LV Require Import model.LockDiscipline model.Lin proofs.LinSim proofs.Lin proofs.LinTable
  model.Wlru model.Semaphore spec.KvSpec model.CrashBase model.LinObjects.
Import ListNotations.
Local Open Scope string_scope.

(* ------------------------------------------------------------------ lock kinds of the operations of one Go type *)
(* which row of the table an operation is governed by, EXPLICITLY: Go type, method, owner ("self" = the
   receiver's own fields) and mutex.  (SyncedPool.Flush has rows for three mutexes and for the stores' locks.) *)
Record mkey := mkK { k_type : string; k_method : string; k_owner : string; k_mutex : string }.
Definition mkey_eqb (a b : mkey) : bool :=
  String.eqb (k_type a) (k_type b) && String.eqb (k_method a) (k_method b) &&
  String.eqb (k_owner a) (k_owner b) && String.eqb (k_mutex a) (k_mutex b).
Definition row_mkey (r : lock_row) : mkey := mkK (r_type r) (r_method r) (r_owner r) (r_mutex r).
Definition find_key (tbl : list lock_row) (k : mkey) : option lock_row :=
  find (fun r => mkey_eqb (row_mkey r) k) tbl.
Definition keys_of (t mu : string) (ms : list string) : list mkey := map (fun m => mkK t m "self" mu) ms.

Section TableKinds.
  Variable op : Type.
  Variable mkey_of : op -> mkey.        (* Go method an operation invokes *)
  Variable names : list mkey.           (* all methods used *)
  Variable readonly_m : mkey -> bool.   (* methods whose MODEL step is read-only *)
  Hypothesis names_complete : forall o, In (mkey_of o) names.
  Variable tbl : list lock_row.

  Definition tk_kind (o : op) : lkind :=
    match find_key tbl (mkey_of o) with Some r => kind_of_row r | None => KNone end.

  (* every method has an ok, live row; exclusive, or shared with a read-only model step; never lock-free *)
  Definition tk_check : bool :=
    forallb (fun m =>
      match find_key tbl m with
      | Some r => method_ok r && negb (r_quiescent r) &&
                  match kind_of_row r with KExcl => true | KShared => readonly_m m | KNone => false end
      | None => false
      end) names.

  Hypothesis Hcheck : tk_check = true.

  Lemma tk_row : forall o,
    match tk_kind o with KExcl => True | KShared => readonly_m (mkey_of o) = true | KNone => False end.
  Proof.
    intro o. unfold tk_check in Hcheck. rewrite forallb_forall in Hcheck.
    specialize (Hcheck _ (names_complete o)). unfold tk_kind.
    destruct (find_key tbl (mkey_of o)) as [r|]; [|discriminate].
    apply andb_true_iff in Hcheck. destruct Hcheck as [_ Hk].
    destruct (kind_of_row r); auto. discriminate.
  Qed.

  (* the row selected for an operation exists, satisfies the whole discipline ([method_ok]) and is live *)
  Lemma tk_ok_row : forall o, exists r,
    find_key tbl (mkey_of o) = Some r /\ method_ok r = true /\ r_quiescent r = false.
  Proof.
    intro o. unfold tk_check in Hcheck. rewrite forallb_forall in Hcheck.
    specialize (Hcheck _ (names_complete o)).
    destruct (find_key tbl (mkey_of o)) as [r|]; [|discriminate]. exists r. split; auto.
    apply andb_true_iff in Hcheck. destruct Hcheck as [H _].
    apply andb_true_iff in H. destruct H as [H1 H2]. apply negb_true_iff in H2. auto.
  Qed.

  Lemma tk_not_readonly_excl : forall o, readonly_m (mkey_of o) = false -> tk_kind o = KExcl.
  Proof. intros o Hr. pose proof (tk_row o) as H. destruct (tk_kind o); auto; [congruence|contradiction]. Qed.
End TableKinds.

(* ------------------------------------------------------------------ a step function as a Lin object *)
Section OneStep.
  Variables state op ret : Type.
  Variable sstep : state -> op -> state * ret.

  Definition os_linit (_ : op) : option ret := None.
  Definition os_mstep (o : op) (l : option ret) (s : state) : option ret * state :=
    match l with
    | None => let (s', r) := sstep s o in (Some r, s')
    | Some _ => (l, s)
    end.
  Definition os_fin (_ : op) (l : option ret) : option ret := l.

  Notation os_seq_exec_t := (seq_exec state op ret (option ret) os_linit os_mstep os_fin nowait nowstep).

  (* the sequential specification of the object IS the step function *)
  Lemma os_seq_exec : forall o s s' r, os_seq_exec_t o s s' r <-> sstep s o = (s', r).
  Proof.
    intros o s s' r; split.
    - intros [l' [Hrun Hfin]]. unfold os_linit in Hrun.
      inversion Hrun as [|? ? l1 s1 ? ? Hf Hw Hm Hrun1|? ? ? ? Hf Hw Hrun1]; subst; [discriminate| |discriminate].
      simpl in Hm. destruct (sstep s o) as [sx rx] eqn:E. inversion Hm; subst.
      inversion Hrun1 as [|? ? l2 s2 ? ? Hf2 Hw2 Hm2 Hrun2|? ? ? ? Hf2 Hw2 Hrun2]; subst; [|discriminate|discriminate].
      unfold os_fin in Hfin. inversion Hfin; subst. reflexivity.
    - intro E. exists (Some r). split; [|reflexivity].
      eapply br_step; [reflexivity | reflexivity | simpl; rewrite E; reflexivity | apply br_refl].
  Qed.

  (* a legal sequential history = a run of the step function producing exactly these results *)
  Fixpoint os_run_ok (s : state) (ops : list (op * ret)) : Prop :=
    match ops with
    | [] => True
    | (o, r) :: rest => snd (sstep s o) = r /\ os_run_ok (fst (sstep s o)) rest
    end.
  Lemma os_seq_legal : forall ops s,
    seq_legal state op ret (option ret) os_linit os_mstep os_fin nowait nowstep s ops <-> os_run_ok s ops.
  Proof.
    induction ops as [|[o r] ops IH]; simpl; intro s; [tauto|]. split.
    - intros [s' [Hx Hl]]. apply os_seq_exec in Hx. rewrite Hx; simpl. split; auto. now apply IH.
    - intros [Hr Hl]. exists (fst (sstep s o)). split.
      + apply os_seq_exec. rewrite <- Hr. now destruct (sstep s o).
      + now apply IH.
  Qed.

  Variable mkey_of : op -> mkey.
  Variable names : list mkey.
  Variable readonly_m : mkey -> bool.
  Hypothesis names_complete : forall o, In (mkey_of o) names.
  Hypothesis readonly_sound : forall o s, readonly_m (mkey_of o) = true -> fst (sstep s o) = s.
  Variable tbl : list lock_row.
  Hypothesis Hcheck : tk_check names readonly_m tbl = true.

  Notation os_kind := (tk_kind op mkey_of tbl).

  Lemma os_shared_readonly : shared_readonly state op (option ret) os_mstep os_kind.
  Proof.
    intros o Hk l s. pose proof (tk_row op mkey_of names readonly_m names_complete tbl Hcheck o) as Hr.
    rewrite Hk in Hr. destruct l as [x|]; simpl; [reflexivity|].
    pose proof (readonly_sound o s Hr) as E. destruct (sstep s o); simpl in *; auto.
  Qed.

  Lemma os_none_stateless : none_stateless state op (option ret) os_mstep os_kind.
  Proof.
    intros o Hk. pose proof (tk_row op mkey_of names readonly_m names_complete tbl Hcheck o) as Hr.
    rewrite Hk in Hr. contradiction.
  Qed.

  Theorem os_linearizable : forall s0 tr c,
    exec state op ret (option ret) os_linit os_mstep os_fin nowait nowstep os_kind s0 tr c ->
    linearizable state op ret (option ret) os_linit os_mstep os_fin nowait nowstep s0 (hist op ret tr).
  Proof. intro s0. apply locked_atomic_linearizable; [exact os_shared_readonly | exact os_none_stateless]. Qed.

  Theorem os_race_free : forall s0 tr c,
    exec state op ret (option ret) os_linit os_mstep os_fin nowait nowstep os_kind s0 tr c ->
    ~ race state op ret (option ret) os_fin nowait os_kind c.
  Proof. intro s0. apply locked_race_free; [exact os_shared_readonly | exact os_none_stateless]. Qed.
End OneStep.

(* ------------------------------------------------------------------ utils/wlru.Cache over model/Wlru.v *)
Section WlruInstance.
  Context {K V : Type}.
  Variable keqb : K -> K -> bool.

  Inductive wop := WBase (o : Wlru.op K V) | WTotal.       (* Total() = (Weight(), Len()) is not an op of Wlru.v *)
  Inductive wret := WRes (r : Wlru.res K V) (callbacks : list (K * V)) | WTot (w n : N).

  Definition wstep (c : Wlru.cache K V) (o : wop) : Wlru.cache K V * wret :=
    match o with
    | WBase o => let '(c', r, lg) := Wlru.step keqb c o in (c', WRes r lg)
    | WTotal => (c, WTot (Wlru.weight c) (Wlru.len c))
    end.

  Definition wname (o : wop) : string :=
    match o with
    | WBase (OAdd _ _ _) => "Add" | WBase (OGet _) => "Get" | WBase (OPeek _) => "Peek"
    | WBase (OContains _) => "Contains" | WBase (ORemove _) => "Remove"
    | WBase ORemoveOldest => "RemoveOldest" | WBase OGetOldest => "GetOldest"
    | WBase OKeys => "Keys" | WBase OLen => "Len" | WBase OWeight => "Weight"
    | WBase (OResize _ _) => "Resize" | WBase OPurge => "Purge"
    | WBase (OContainsOrAdd _ _ _) => "ContainsOrAdd" | WBase (OPeekOrAdd _ _ _) => "PeekOrAdd"
    | WTotal => "Total"
    end.

  Definition wnames : list string :=
    ["Add"; "Get"; "Peek"; "Contains"; "Remove"; "RemoveOldest"; "GetOldest"; "Keys"; "Len"; "Weight";
     "Resize"; "Purge"; "ContainsOrAdd"; "PeekOrAdd"; "Total"].

  (* methods whose model step returns the cache unchanged (Peek/Contains do not refresh; the counters) *)
  Definition w_readonly (m : string) : bool :=
    existsb (String.eqb m) ["Peek"; "Contains"; "GetOldest"; "Keys"; "Len"; "Weight"; "Total"].

  Definition wkey (o : wop) : mkey := mkK "Cache" (wname o) "self" "lock".
  Definition wkeys : list mkey := keys_of "Cache" "lock" wnames.
  Definition wk_readonly (k : mkey) : bool := w_readonly (k_method k).

  Lemma wnames_complete : forall o, In (wkey o) wkeys.
  Proof. intros [[]|]; unfold wkey, wkeys, keys_of; simpl; tauto. Qed.

  Lemma w_readonly_sound : forall o c, wk_readonly (wkey o) = true -> fst (wstep c o) = c.
  Proof. intros [[]|] c H; unfold wk_readonly in H; simpl in H; try discriminate; reflexivity. Qed.

  Variable tbl : list lock_row.
  Hypothesis Hcheck : tk_check wkeys wk_readonly tbl = true.
  Definition wkind : wop -> lkind := tk_kind wop wkey tbl.

  (* wlru.Cache, every operation, every interleaving: linearizable w.r.t. the step function of Wlru.v *)
  Theorem wlru_linearizable : forall c0 tr c,
    exec (Wlru.cache K V) wop wret (option wret) (os_linit wop wret) (os_mstep _ _ _ wstep) (os_fin wop wret)
         nowait nowstep wkind c0 tr c ->
    linearizable (Wlru.cache K V) wop wret (option wret) (os_linit wop wret) (os_mstep _ _ _ wstep)
         (os_fin wop wret) nowait nowstep c0 (hist wop wret tr).
  Proof.
    exact (os_linearizable _ _ _ wstep wkey wkeys wk_readonly wnames_complete w_readonly_sound tbl Hcheck).
  Qed.

  Theorem wlru_race_free : forall c0 tr c,
    exec (Wlru.cache K V) wop wret (option wret) (os_linit wop wret) (os_mstep _ _ _ wstep) (os_fin wop wret)
         nowait nowstep wkind c0 tr c ->
    ~ race (Wlru.cache K V) wop wret (option wret) (os_fin wop wret) nowait wkind c.
  Proof.
    exact (os_race_free _ _ _ wstep wkey wkeys wk_readonly wnames_complete w_readonly_sound tbl Hcheck).
  Qed.
End WlruInstance.

(* ------------------------------------------------------------------ DataSemaphore over model/Semaphore.v *)
(* state = (processing, maxProcessing).  [SAcquire w n]: the blocking Acquire; time is not modelled, the
   deadline is an oracle: n = how many times the waiter can still be woken up before its deadline has passed. *)
Inductive sop :=
| STry (w : metric) | SRelease (w : metric) | SProcessing | SAvailable | STerminate
| SAcquire (w : metric) (wakeups : nat).
Inductive sret := SBool (b : bool) | SMetric (m : metric) | SOut (warnings : list output).

Definition sstate := (metric * metric)%type.

Definition sem_available (h c : metric) : metric :=
  mkM ((mnum c + two32 - mnum h mod two32) mod two32)%N ((msize c + two64 - msize h mod two64) mod two64)%N.

(* the non-blocking methods: one step *)
Definition sem_step (st : sstate) (o : sop) : sstate * sret :=
  let (h, c) := st in
  match o with
  | STry w | SAcquire w _ =>
      match try_acquire true h c w with
      | Some h' => ((h', c), SBool true)
      | None => ((h, c), SBool false)
      end
  | SRelease w => let (st', outs) := release (mkS h c [] []) w in ((held st', c), SOut outs)
  | SProcessing => ((h, c), SMetric h)
  | SAvailable => ((h, c), SMetric (sem_available h c))
  | STerminate => ((h, mzero), SOut [])
  end.

Record sloc := mkSL { sl_res : option sret; sl_left : nat; sl_wait : bool }.

Definition sem_linit (o : sop) : sloc :=
  mkSL None (match o with SAcquire _ n => n | _ => 0 end) false.

(* Acquire's loop body:  for !tryAcquire(w) { if w > max || deadline passed { return false }; cond.Wait() } *)
Definition sem_mstep (o : sop) (l : sloc) (st : sstate) : sloc * sstate :=
  match sl_res l with
  | Some _ => (l, st)
  | None =>
      match o with
      | SAcquire w _ =>
          let (h, c) := st in
          match try_acquire true h c w with
          | Some h' => (mkSL (Some (SBool true)) (sl_left l) false, (h', c))
          | None =>
              if mgt_any w c || (sl_left l =? 0)%nat
              then (mkSL (Some (SBool false)) (sl_left l) false, st)
              else (mkSL None (sl_left l) true, st)             (* next: cond.Wait() *)
          end
      | _ => let (st', r) := sem_step st o in (mkSL (Some r) 0 false, st')
      end
  end.
Definition sem_fin (_ : sop) (l : sloc) : option sret := sl_res l.
Definition sem_waits (o : sop) (l : sloc) : bool :=
  match o, sl_res l with SAcquire _ _, None => sl_wait l | _, _ => false end.
Definition sem_wstep (_ : sop) (l : sloc) : sloc := mkSL None (pred (sl_left l)) false.

Definition sem_resumable (o : sop) (l : sloc) : Prop :=
  match o with
  | SAcquire _ n => exists k, k <= n /\ l = mkSL None k false
  | _ => l = sem_linit o
  end.

Notation sem_sect := (sect_run sstate sop sret sloc sem_mstep sem_fin sem_waits).
Notation sem_body := (body_run sstate sop sret sloc sem_mstep sem_fin sem_waits sem_wstep).
Notation sem_seq_exec := (seq_exec sstate sop sret sloc sem_linit sem_mstep sem_fin sem_waits sem_wstep).

(* a finished local does not move *)
Lemma sem_sect_done : forall o l s l' s', sem_sect o l s l' s' -> forall r, sl_res l = Some r -> l' = l /\ s' = s.
Proof.
  intros o l s l' s' Hrun r Hr. inversion Hrun as [|? ? l1 s1 ? ? Hf Hw Hm Hrun1]; subst; auto.
  unfold sem_fin in Hf. congruence.
Qed.

(* one section of Acquire from a resumable point *)
Lemma sem_acquire_section : forall w n k h c l s',
  sem_sect (SAcquire w n) (mkSL None k false) (h, c) l s' ->
  (l = mkSL None k false /\ s' = (h, c)) \/
  (exists h', try_acquire true h c w = Some h' /\ l = mkSL (Some (SBool true)) k false /\ s' = (h', c)) \/
  (try_acquire true h c w = None /\ (mgt_any w c || (k =? 0)%nat) = true /\
     l = mkSL (Some (SBool false)) k false /\ s' = (h, c)) \/
  (try_acquire true h c w = None /\ (mgt_any w c || (k =? 0)%nat) = false /\
     l = mkSL None k true /\ s' = (h, c)).
Proof.
  intros w n k h c l s' Hrun.
  inversion Hrun as [|? ? l1 s1 ? ? Hf Hw Hm Hrun1]; subst; [left; auto|right].
  unfold sem_mstep in Hm; simpl in Hm.
  destruct (try_acquire true h c w) as [h'|] eqn:Et.
  - inversion Hm; subst. left. exists h'. split; auto.
    destruct (sem_sect_done _ _ _ _ _ Hrun1 _ eq_refl) as [-> ->]. auto.
  - right. destruct (mgt_any w c || (k =? 0)%nat) eqn:Eg; inversion Hm; subst.
    + left. destruct (sem_sect_done _ _ _ _ _ Hrun1 _ eq_refl) as [-> ->]. auto.
    + right. inversion Hrun1 as [|? ? l2 s2 ? ? Hf2 Hw2 Hm2 Hrun2]; subst; [auto|].
      simpl in Hw2. discriminate.
Qed.

(* sequentially, an Acquire whose weight does not fit gives up (at once, or after its wake-ups) *)
Lemma sem_acquire_fails : forall w N h c, try_acquire true h c w = None -> forall k,
  exists l', sem_body (SAcquire w N) (mkSL None k false) (h, c) l' (h, c) /\ sl_res l' = Some (SBool false).
Proof.
  intros w N h c Et k; induction k as [|k IH].
  - exists (mkSL (Some (SBool false)) 0 false). split; [|reflexivity].
    eapply br_step; [reflexivity|reflexivity| |apply br_refl].
    unfold sem_mstep; simpl. rewrite Et. now rewrite orb_true_r.
  - destruct (mgt_any w c) eqn:Eg.
    + exists (mkSL (Some (SBool false)) (S k) false). split; [|reflexivity].
      eapply br_step; [reflexivity|reflexivity| |apply br_refl].
      unfold sem_mstep; simpl. rewrite Et, Eg. reflexivity.
    + destruct IH as [l' [Hrun Hr]]. exists l'. split; auto.
      eapply br_step; [reflexivity|reflexivity| |].
      * unfold sem_mstep; simpl. rewrite Et, Eg. reflexivity.
      * eapply br_wait; [reflexivity|reflexivity|]. exact Hrun.
Qed.

Lemma sem_resumable_inv :
  resumable_inv sstate sop sret sloc sem_linit sem_mstep sem_fin sem_waits sem_wstep sem_resumable.
Proof.
  constructor.
  - intros []; simpl; auto. exists wakeups; auto.
  - (* a section that ends in cond.Wait was a failed attempt: state unchanged *)
    intros o l0 s l s' Hr Hrun Hfin Hw. destruct o as [w|w| | | |w n];
      try (unfold sem_waits in Hw; simpl in Hw; destruct (sl_res l); discriminate).
    destruct Hr as [k [Hk ->]]. destruct s as [h c].
    destruct (sem_acquire_section _ _ _ _ _ _ _ Hrun) as [[-> ->]|[[h' [_ [-> _]]]|[[_ [_ [-> _]]]|[_ [_ [-> ->]]]]]];
      try (simpl in Hw; discriminate); try (simpl in Hfin; discriminate).
    split; auto. simpl. exists (pred k). split; [lia|reflexivity].
  - (* a section that finishes = a complete sequential run on the state it found *)
    intros o l0 s l s' r Hr Hrun Hfin.
    destruct o as [w|w| | | |w n]; simpl in Hr;
      try (subst l0; exists l; split; [apply sect_body; exact Hrun | exact Hfin]).
    destruct Hr as [k [Hk ->]]. destruct s as [h c].
    destruct (sem_acquire_section _ _ _ _ _ _ _ Hrun) as [[-> ->]|[[h' [Et [-> ->]]]|[[Et [_ [-> ->]]]|[_ [_ [-> _]]]]]];
      try (simpl in Hfin; discriminate); simpl in Hfin; inversion Hfin; subst.
    + (* the attempt succeeded: so does the first attempt of a sequential run *)
      exists (mkSL (Some (SBool true)) n false). split; [|reflexivity].
      eapply br_step; [reflexivity|reflexivity| |apply br_refl].
      unfold sem_linit, sem_mstep; simpl. rewrite Et. reflexivity.
    + (* gave up: a sequential run on the same state fails all its attempts *)
      destruct (sem_acquire_fails w n h c Et n) as [l' [Hb Hres]]. exists l'. split; auto.
Qed.

Definition sname (o : sop) : string :=
  match o with
  | STry _ => "TryAcquire" | SRelease _ => "Release" | SProcessing => "Processing"
  | SAvailable => "Available" | STerminate => "Terminate" | SAcquire _ _ => "Acquire"
  end.
Definition snames : list string := ["TryAcquire"; "Release"; "Processing"; "Available"; "Terminate"; "Acquire"].
Definition s_readonly (m : string) : bool := existsb (String.eqb m) ["Processing"; "Available"].

Definition skey (o : sop) : mkey := mkK "DataSemaphore" (sname o) "self" "mu".
Definition skeys : list mkey := keys_of "DataSemaphore" "mu" snames.
Definition sk_readonly (k : mkey) : bool := s_readonly (k_method k).

Lemma snames_complete : forall o, In (skey o) skeys.
Proof. intros []; unfold skey, skeys, keys_of; simpl; tauto. Qed.

Lemma s_readonly_sound : forall o l st, sk_readonly (skey o) = true -> snd (sem_mstep o l st) = st.
Proof.
  intros o l [h c] H. unfold sem_mstep. destruct (sl_res l); [reflexivity|].
  destruct o; unfold sk_readonly in H; simpl in H; try discriminate; reflexivity.
Qed.

Section SemInstance.
  Variable tbl : list lock_row.
  Hypothesis Hcheck : tk_check skeys sk_readonly tbl = true.
  Definition skind : sop -> lkind := tk_kind sop skey tbl.

  Lemma sem_shared_readonly : shared_readonly sstate sop sloc sem_mstep skind.
  Proof.
    intros o Hk l s. pose proof (tk_row sop skey skeys sk_readonly snames_complete tbl Hcheck o) as Hr.
    unfold skind in Hk. rewrite Hk in Hr. now apply s_readonly_sound.
  Qed.
  Lemma sem_none_stateless : none_stateless sstate sop sloc sem_mstep skind.
  Proof.
    intros o Hk. pose proof (tk_row sop skey skeys sk_readonly snames_complete tbl Hcheck o) as Hr.
    unfold skind in Hk. rewrite Hk in Hr. contradiction.
  Qed.
  Lemma sem_wait_excl : wait_excl sop sloc sem_waits skind.
  Proof.
    intros o l Hw. destruct o; try (unfold sem_waits in Hw; simpl in Hw; destruct (sl_res l); discriminate).
    apply (tk_not_readonly_excl sop skey skeys sk_readonly snames_complete tbl Hcheck). reflexivity.
  Qed.

  (* DataSemaphore incl. the blocking Acquire, every interleaving: linearizable w.r.t. Semaphore.v's arithmetic *)
  Theorem sem_linearizable : forall st0 tr c,
    exec sstate sop sret sloc sem_linit sem_mstep sem_fin sem_waits sem_wstep skind st0 tr c ->
    linearizable sstate sop sret sloc sem_linit sem_mstep sem_fin sem_waits sem_wstep st0 (hist sop sret tr).
  Proof.
    intro st0. exact (locked_atomic_linearizable_w _ _ _ _ _ _ _ _ _ _ st0 sem_shared_readonly sem_none_stateless
                        sem_wait_excl _ sem_resumable_inv).
  Qed.

  Theorem sem_race_free : forall st0 tr c,
    exec sstate sop sret sloc sem_linit sem_mstep sem_fin sem_waits sem_wstep skind st0 tr c ->
    ~ race sstate sop sret sloc sem_fin sem_waits skind c.
  Proof.
    intro st0. exact (locked_race_free_w _ _ _ _ _ _ _ _ _ _ st0 sem_shared_readonly sem_none_stateless
                        sem_wait_excl _ sem_resumable_inv).
  Qed.
End SemInstance.

(* what the sequential specification of the semaphore object says, in terms of Semaphore.v:
   the result and the new state of every operation (Acquire included) are those of [sem_step] *)
Lemma sem_body_done : forall o l s l' s', sem_body o l s l' s' -> forall r, sl_res l = Some r -> l' = l /\ s' = s.
Proof.
  intros o l s l' s' Hrun r Hr.
  inversion Hrun as [|? ? l1 s1 ? ? Hf Hw Hm Hrun1|? ? ? ? Hf Hw Hrun1]; subst; auto;
    unfold sem_fin in Hf; congruence.
Qed.

Lemma sem_mstep_simple : forall o st, (forall w n, o <> SAcquire w n) ->
  sem_mstep o (sem_linit o) st = (mkSL (Some (snd (sem_step st o))) 0 false, fst (sem_step st o)).
Proof.
  intros o st Hna. unfold sem_mstep, sem_linit; cbn [sl_res].
  destruct o as [w|w| | | |w n]; try (destruct (sem_step st _); reflexivity).
  exfalso; eapply Hna; reflexivity.
Qed.

Lemma sem_acquire_seq : forall w n h c k l' st' r,
  sem_body (SAcquire w n) (mkSL None k false) (h, c) l' st' -> sl_res l' = Some r ->
  sem_step (h, c) (SAcquire w n) = (st', r).
Proof.
  intros w n h c k; induction k as [|k IH]; intros l' st' r Hb Hfin;
    (inversion Hb as [|? ? l1 s1 ? ? Hf1 Hw1 Hm1 Hb1|? ? ? ? Hf1 Hw1 Hb1]; subst;
      [simpl in Hfin; discriminate| |simpl in Hw1; discriminate]);
    unfold sem_mstep in Hm1; cbn [sl_res sl_left] in Hm1; cbn [sem_step];
    destruct (try_acquire true h c w) as [h'|] eqn:Et.
  - inversion Hm1; subst. destruct (sem_body_done _ _ _ _ _ Hb1 _ eq_refl) as [-> ->].
    simpl in Hfin. inversion Hfin. reflexivity.
  - rewrite orb_true_r in Hm1. inversion Hm1; subst.
    destruct (sem_body_done _ _ _ _ _ Hb1 _ eq_refl) as [-> ->]. simpl in Hfin. inversion Hfin. reflexivity.
  - inversion Hm1; subst. destruct (sem_body_done _ _ _ _ _ Hb1 _ eq_refl) as [-> ->].
    simpl in Hfin. inversion Hfin. reflexivity.
  - destruct (mgt_any w c) eqn:Eg; cbn [orb Nat.eqb] in Hm1; inversion Hm1; subst.
    + destruct (sem_body_done _ _ _ _ _ Hb1 _ eq_refl) as [-> ->]. simpl in Hfin. inversion Hfin. reflexivity.
    + inversion Hb1 as [|? ? ? ? ? ? Hf3 Hw3|? ? ? ? Hf3 Hw3 Hb3]; subst;
        [simpl in Hfin; discriminate|simpl in Hw3; discriminate|].
      cbn [sem_wstep sl_left pred] in Hb3. specialize (IH _ _ _ Hb3 Hfin). cbn [sem_step] in IH.
      rewrite Et in IH. exact IH.
Qed.

Lemma sem_seq_exec_step : forall o st st' r, sem_seq_exec o st st' r -> sem_step st o = (st', r).
Proof.
  intros o st st' r [l' [Hrun Hfin]]. unfold sem_fin in Hfin.
  destruct o as [w|w| | | |w n];
    try (inversion Hrun as [|? ? l1 s1 ? ? Hf1 Hw1 Hm1 Hb1|? ? ? ? Hf1 Hw1 Hb1]; subst;
         [simpl in Hfin; discriminate| |simpl in Hw1; discriminate];
         rewrite sem_mstep_simple in Hm1 by (intros; discriminate); inversion Hm1; subst;
         destruct (sem_body_done _ _ _ _ _ Hb1 _ eq_refl) as [-> ->];
         simpl in Hfin; inversion Hfin; subst; now destruct (sem_step st _)).
  destruct st as [h c]. exact (sem_acquire_seq w n h c n l' st' r Hrun Hfin).
Qed.

(* ------------------------------------------------------------------ Flushable over model/Flushable.v (C22) *)
(* the sequential object is model/LinObjects.fl_step (overlay, reads through it, batch, merged iterator, flush) *)
Definition fkey (o : fop) : mkey :=
  match o with
  | FPut _ _ => (mkK "Flushable" "Put" "self" "lock") | FDelete _ => (mkK "Flushable" "Delete" "self" "lock")
  | FGet _ => (mkK "flushableReader" "Get" "self" "lock") | FHas _ => (mkK "flushableReader" "Has" "self" "lock")
  | FFlush => (mkK "Flushable" "Flush" "self" "lock") | FDropNotFlushed => (mkK "Flushable" "DropNotFlushed" "self" "lock")
  | FPairs => (mkK "Flushable" "NotFlushedPairs" "self" "lock") | FSizeEst => (mkK "Flushable" "NotFlushedSizeEst" "self" "lock")
  | FSnap => (mkK "Flushable" "GetSnapshot" "self" "lock") | FBatch _ => (mkK "cacheBatch" "Write" "other:flushable" "lock")
  | FStat => (mkK "Flushable" "Stat" "self" "lock")
  | FCompact => (mkK "Flushable" "Compact" "self" "lock")
  | FInitDb => (mkK "LazyFlushable" "InitUnderlyingDb" "self" "lock")
  end.
Definition fkeys : list mkey :=
  [(mkK "Flushable" "Put" "self" "lock"); (mkK "Flushable" "Delete" "self" "lock"); (mkK "flushableReader" "Get" "self" "lock"); (mkK "flushableReader" "Has" "self" "lock");
   (mkK "Flushable" "Flush" "self" "lock"); (mkK "Flushable" "DropNotFlushed" "self" "lock"); (mkK "Flushable" "NotFlushedPairs" "self" "lock");
   (mkK "Flushable" "NotFlushedSizeEst" "self" "lock"); (mkK "Flushable" "GetSnapshot" "self" "lock"); (mkK "cacheBatch" "Write" "other:flushable" "lock"); (mkK "Flushable" "Stat" "self" "lock");
   (mkK "Flushable" "Compact" "self" "lock"); (mkK "LazyFlushable" "InitUnderlyingDb" "self" "lock")].
Definition fk_readonly (k : mkey) : bool :=
  existsb (mkey_eqb k)
    [(mkK "flushableReader" "Get" "self" "lock"); (mkK "flushableReader" "Has" "self" "lock"); (mkK "Flushable" "NotFlushedPairs" "self" "lock");
     (mkK "Flushable" "NotFlushedSizeEst" "self" "lock"); (mkK "Flushable" "GetSnapshot" "self" "lock"); (mkK "Flushable" "Stat" "self" "lock");
     (mkK "Flushable" "Compact" "self" "lock")].

Lemma fkeys_complete : forall o, In (fkey o) fkeys.
Proof. intros []; simpl; tauto. Qed.
Lemma f_readonly_sound : forall o s, fk_readonly (fkey o) = true -> fst (fl_step s o) = s.
Proof. intros [] s H; simpl in H; try discriminate; reflexivity. Qed.

Section FlushableInstance.
  Variable tbl : list lock_row.
  Hypothesis Hcheck : tk_check fkeys fk_readonly tbl = true.
  Definition fkind : fop -> lkind := tk_kind fop fkey tbl.

  (* Flushable (one store over an in-memory parent), every interleaving: linearizable w.r.t. fl_step *)
  Theorem flushable_linearizable : forall s0 tr c,
    exec fstate fop fres (option fres) (os_linit fop fres) (os_mstep _ _ _ fl_step) (os_fin fop fres)
         nowait nowstep fkind s0 tr c ->
    linearizable fstate fop fres (option fres) (os_linit fop fres) (os_mstep _ _ _ fl_step) (os_fin fop fres)
         nowait nowstep s0 (hist fop fres tr).
  Proof.
    exact (os_linearizable _ _ _ fl_step fkey fkeys fk_readonly fkeys_complete f_readonly_sound tbl Hcheck).
  Qed.

  Theorem flushable_race_free : forall s0 tr c,
    exec fstate fop fres (option fres) (os_linit fop fres) (os_mstep _ _ _ fl_step) (os_fin fop fres)
         nowait nowstep fkind s0 tr c ->
    ~ race fstate fop fres (option fres) (os_fin fop fres) nowait fkind c.
  Proof.
    exact (os_race_free _ _ _ fl_step fkey fkeys fk_readonly fkeys_complete f_readonly_sound tbl Hcheck).
  Qed.
End FlushableInstance.

(* ------------------------------------------------------------------ SyncedPool's own operations over SyncedPool.v (C25) *)
(* Every operation of the pool itself runs, from its first to its last statement, under the pool's mutex; among
   themselves they are therefore operations of a one-mutex object whose sequential step is model/LinObjects.pl_step
   (SyncedPool.pool_step + CrashBase's durable world).  NOT covered here: writes through the store handles returned
   by OpenDB, which take only the store's own lock — with those running concurrently Flush, NotFlushedSizeEst and
   Initialize are not atomic (they visit the stores one critical section after the other: recorded finding, see
   props/C28.v C28_pool_multi_store_ops_refuted and the POOLMID case). *)
Inductive lop :=
| LFlush (id : CrashBase.bytes) | LSize | LNames | LOpen (n : CrashBase.name) | LUnder (n : CrashBase.name)
| LInit (ns : list CrashBase.name).
Definition lop_pop (o : lop) : pop :=
  match o with
  | LFlush id => PFlush id | LSize => PSize | LNames => PNames | LOpen n => POpen n | LUnder n => PUnder n
  | LInit ns => PInit ns
  end.
Definition lkey (o : lop) : mkey :=
  match o with
  | LFlush _ => (mkK "SyncedPool" "Flush" "self" "Mutex") | LSize => (mkK "SyncedPool" "NotFlushedSizeEst" "self" "Mutex")
  | LNames => (mkK "SyncedPool" "Names" "self" "Mutex") | LOpen _ => (mkK "SyncedPool" "OpenDB" "self" "Mutex")
  | LUnder _ => (mkK "SyncedPool" "GetUnderlying" "self" "Mutex") | LInit _ => (mkK "SyncedPool" "Initialize" "self" "Mutex")
  end.
Definition lkeys : list mkey :=
  [(mkK "SyncedPool" "Flush" "self" "Mutex"); (mkK "SyncedPool" "NotFlushedSizeEst" "self" "Mutex"); (mkK "SyncedPool" "Names" "self" "Mutex"); (mkK "SyncedPool" "OpenDB" "self" "Mutex");
   (mkK "SyncedPool" "GetUnderlying" "self" "Mutex"); (mkK "SyncedPool" "Initialize" "self" "Mutex")].
Definition lk_readonly (k : mkey) : bool :=
  existsb (mkey_eqb k) [(mkK "SyncedPool" "NotFlushedSizeEst" "self" "Mutex"); (mkK "SyncedPool" "Names" "self" "Mutex")].

Lemma lkeys_complete : forall o, In (lkey o) lkeys.
Proof. intros []; simpl; tauto. Qed.

Section PoolInstance.
  Variable fk : CrashBase.bytes.                (* the flush-id key *)
  Definition lstep_pool (s : pstate) (o : lop) : pstate * pres := pl_step fk s (lop_pop o).

  Lemma l_readonly_sound : forall o s, lk_readonly (lkey o) = true -> fst (lstep_pool s o) = s.
  Proof. intros [] s H; simpl in H; try discriminate; reflexivity. Qed.

  Variable tbl : list lock_row.
  Hypothesis Hcheck : tk_check lkeys lk_readonly tbl = true.
  Definition poolkind : lop -> Lin.lkind := tk_kind lop lkey tbl.

  Theorem pool_ops_linearizable : forall s0 tr c,
    exec pstate lop pres (option pres) (os_linit lop pres) (os_mstep _ _ _ lstep_pool) (os_fin lop pres)
         nowait nowstep poolkind s0 tr c ->
    linearizable pstate lop pres (option pres) (os_linit lop pres) (os_mstep _ _ _ lstep_pool) (os_fin lop pres)
         nowait nowstep s0 (hist lop pres tr).
  Proof.
    exact (os_linearizable _ _ _ lstep_pool lkey lkeys lk_readonly lkeys_complete l_readonly_sound tbl Hcheck).
  Qed.
End PoolInstance.

(* ------------------------------------------------------------------ non-vacuity of the Wait machinery *)
(* a blocked Acquire waits on the condition variable, another goroutine releases, the waiter re-acquires and
   succeeds; valid for any kind assignment that makes every semaphore method exclusive (the real table does) *)
Definition m11 : metric := mkM 1 1.
Definition sem_blocking_trace : list (action sop sret) :=
  [Inv sop sret 0 (STry m11); Acq sop sret 0; Body sop sret 0; Rel sop sret 0; Ret sop sret 0 (SBool true); Inv sop sret 1 (SAcquire m11 1); Acq sop sret 1; Body sop sret 1; Wait sop sret 1; Inv sop sret 0 (SRelease m11); Acq sop sret 0; Body sop sret 0; Rel sop sret 0; Ret sop sret 0 (SOut []); Acq sop sret 1; Body sop sret 1; Rel sop sret 1; Ret sop sret 1 (SBool true)].

Lemma sem_blocking_trace_exec : forall kind : sop -> lkind, (forall o, kind o = KExcl) ->
  exists c, exec sstate sop sret sloc sem_linit sem_mstep sem_fin sem_waits sem_wstep kind
                 (mzero, mkM 1 10) sem_blocking_trace c.
Proof.
  intros kind Hk. eexists. unfold sem_blocking_trace.
  change [Inv sop sret 0 (STry m11); Acq sop sret 0; Body sop sret 0; Rel sop sret 0; Ret sop sret 0 (SBool true); Inv sop sret 1 (SAcquire m11 1); Acq sop sret 1; Body sop sret 1; Wait sop sret 1; Inv sop sret 0 (SRelease m11); Acq sop sret 0; Body sop sret 0; Rel sop sret 0; Ret sop sret 0 (SOut []); Acq sop sret 1; Body sop sret 1; Rel sop sret 1; Ret sop sret 1 (SBool true)]
    with (((((((((((((((((([] ++ [Inv sop sret 0 (STry m11)]) ++ [Acq sop sret 0]) ++ [Body sop sret 0]) ++ [Rel sop sret 0]) ++ [Ret sop sret 0 (SBool true)]) ++ [Inv sop sret 1 (SAcquire m11 1)]) ++ [Acq sop sret 1]) ++ [Body sop sret 1]) ++ [Wait sop sret 1]) ++ [Inv sop sret 0 (SRelease m11)]) ++ [Acq sop sret 0]) ++ [Body sop sret 0]) ++ [Rel sop sret 0]) ++ [Ret sop sret 0 (SOut [])]) ++ [Acq sop sret 1]) ++ [Body sop sret 1]) ++ [Rel sop sret 1]) ++ [Ret sop sret 1 (SBool true)])%list.
  repeat (eapply e_snoc); [apply e_nil| | | | | | | | | | | | | | | | | |].
  - apply s_inv; reflexivity.
  - eapply s_acq_excl; [reflexivity | apply Hk | intros t' [o' [l' H]]; unfold upd in H; simpl in H; destruct t' as [|[|t']]; simpl in H; discriminate].
  - eapply s_body; [reflexivity|reflexivity|reflexivity|vm_compute; reflexivity].
  - eapply s_rel; [reflexivity|vm_compute; reflexivity].
  - eapply s_ret; reflexivity.
  - apply s_inv; reflexivity.
  - eapply s_acq_excl; [reflexivity | apply Hk | intros t' [o' [l' H]]; unfold upd in H; simpl in H; destruct t' as [|[|t']]; simpl in H; discriminate].
  - eapply s_body; [reflexivity|reflexivity|reflexivity|vm_compute; reflexivity].
  - eapply s_wait; [reflexivity|reflexivity|reflexivity].
  - apply s_inv; reflexivity.
  - eapply s_acq_excl; [reflexivity | apply Hk | intros t' [o' [l' H]]; unfold upd in H; simpl in H; destruct t' as [|[|t']]; simpl in H; discriminate].
  - eapply s_body; [reflexivity|reflexivity|reflexivity|vm_compute; reflexivity].
  - eapply s_rel; [reflexivity|vm_compute; reflexivity].
  - eapply s_ret; reflexivity.
  - eapply s_acq_excl; [reflexivity | apply Hk | intros t' [o' [l' H]]; unfold upd in H; simpl in H; destruct t' as [|[|t']]; simpl in H; discriminate].
  - eapply s_body; [reflexivity|reflexivity|reflexivity|vm_compute; reflexivity].
  - eapply s_rel; [reflexivity|vm_compute; reflexivity].
  - eapply s_ret; reflexivity.
Qed.
