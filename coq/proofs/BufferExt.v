(* C14/C15: every buffer operation only ADDS callbacks to the log, and the callbacks added inside
   pushEvent / spill are Check / Process / Released only.  (Unconditional; both code versions.) *)
From Coq Require Import NArith List Bool Lia Arith.
From LV Require Import model.Buffer proofs.BufferInv.
Import ListNotations.
Local Open Scope N_scope.

Definition inner (o : out) : Prop :=
  match o with OCheck _ _ _ | OProcess _ _ _ | OReleased _ _ _ => True | _ => False end.
Definition ext (s s' : st) : Prop := exists new, log s' = new ++ log s /\ Forall inner new.

Lemma ext_refl : forall s, ext s s.
Proof. intros s; exists []; split; [reflexivity | constructor]. Qed.
Lemma ext_trans : forall a b c, ext a b -> ext b c -> ext a c.
Proof.
  intros a b c [n1 [E1 F1]] [n2 [E2 F2]]. exists (n2 ++ n1).
  split; [rewrite E2, E1, app_assoc; reflexivity | apply Forall_app; auto].
Qed.
Lemma ext_same_log : forall s s', log s' = log s -> ext s s'.
Proof. intros s s' E; exists []; split; [exact E | constructor]. Qed.
Lemma ext_emit : forall s o, inner o -> ext s (emit s o).
Proof. intros s o H; exists [o]; split; [reflexivity | repeat constructor; exact H]. Qed.
Lemma ext_drop : forall s c e, ext s (drop s c e).
Proof. intros; apply ext_same_log. apply drop_core. Qed.
Lemma ext_release : forall s x, ext s (release s x).
Proof.
  intros s x. unfold release. destruct (memN (cid x) (released s)); [apply ext_refl|].
  eexists [_]; split; [reflexivity | repeat constructor].
Qed.

Lemma ext_fold : forall (g : st -> entry -> st), (forall sa y, ext sa (g sa y)) ->
  forall l sa, ext sa (fold_left g l sa).
Proof.
  intros g H l. induction l as [|y l IH]; intros sa; simpl; [apply ext_refl|].
  eapply ext_trans; [apply H | apply IH].
Qed.

Section E.
  Variable fc fp : list out -> entry -> bool.
  Variable fixed : bool.

  Lemma ext_process_complete : forall s x, ext s (fst (process_complete fc fp s x)).
  Proof.
    intros s x. unfold process_complete. destruct (fc (log s) x); cbn [fst].
    - destruct (drop_core (emit s (OCheck (cid x) (eid x) false)) (cid x) 2) as [_ [_ [_ [E _]]]].
      exists [OCheck (cid x) (eid x) false]. split; [rewrite E; reflexivity | repeat constructor].
    - destruct (fp _ x); cbn [fst].
      + exists [OProcess (cid x) (eid x) false; OCheck (cid x) (eid x) true].
        split; [reflexivity | repeat constructor].
      + exists [OProcess (cid x) (eid x) true; OCheck (cid x) (eid x) true].
        split; [reflexivity | repeat constructor].
  Qed.

  Lemma ext_push_rec : forall f s x snap re, ext s (fst (push_rec fc fp fixed f s x snap re)).
  Proof.
    induction f as [|f IH]; intros s x snap re; simpl.
    - apply ext_same_log; reflexivity.
    - destruct (is_connected s (eid x)); cbn [fst].
      + eapply ext_trans; [|apply ext_release].
        destruct re; [apply ext_same_log; reflexivity|].
        apply ext_trans with (b := remove_inc s (eid x)); [apply ext_same_log; reflexivity | apply ext_drop].
      + destruct (negb (complete s x)); cbn [fst].
        * destruct re; [apply ext_refl | apply ext_same_log; reflexivity].
        * pose proof (ext_process_complete s x) as E1.
          destruct (process_complete fc fp s x) as [s1 ok]. cbn [fst] in *.
          eapply ext_trans; [|apply ext_same_log; reflexivity].
          assert (E2 : ext s (release s1 x)) by (eapply ext_trans; [exact E1 | apply ext_release]).
          destruct ok; [|exact E2].
          eapply ext_trans; [exact E2|].
          apply ext_fold. intros sa y.
          destruct (memN (eid x) (pars y) && negb (fixed && memN (cid y) (released sa))); [apply IH | apply ext_refl].
  Qed.

  Lemma ext_spill : forall limN limS s, ext s (spill limN limS s).
  Proof.
    intros limN limS s. unfold spill. destruct (spill_split limN limS (inc s)) as [sp k].
    eapply ext_trans; [apply ext_same_log with (s' := set_inc s k); reflexivity|].
    generalize (set_inc s k). induction sp as [|y sp IH]; intros sa; simpl; [apply ext_refl|].
    eapply ext_trans; [|apply IH]. unfold spill_one.
    eapply ext_trans; [apply ext_drop | apply ext_release].
  Qed.

  (* PushEvent: the inner callbacks, then the OPushed marker *)
  Lemma push_event_ext : forall limN limS s e ps sz, exists c ok n z new,
    log (push_event fc fp fixed limN limS s e ps sz) = OPushed c ok n z :: new ++ log s /\ Forall inner new.
  Proof.
    intros limN limS s e ps sz. unfold push_event.
    set (x := mkEntry (next s) e ps sz).
    destruct (existsb (fun y => eid y =? e) (inc (bump s))).
    - assert (E : ext s (release (drop (bump s) (cid x) 5) x)).
      { eapply ext_trans; [apply ext_same_log with (s' := bump s); reflexivity|].
        eapply ext_trans; [apply ext_drop | apply ext_release]. }
      destruct E as [new [E F]]. unfold emit; cbn [log]. rewrite E. do 5 eexists. split; [reflexivity | exact F].
    - pose proof (ext_push_rec (S (length (inc (bump s)))) (bump s) x None false) as E1.
      destruct (push_rec fc fp fixed (S (length (inc (bump s)))) (bump s) x None false) as [s1 ok].
      cbn [fst] in E1.
      assert (E : ext s (spill limN limS s1)).
      { eapply ext_trans; [apply ext_same_log with (s' := bump s); reflexivity|].
        eapply ext_trans; [exact E1 | apply ext_spill]. }
      destruct E as [new [E F]]. unfold emit; cbn [log]. rewrite E. do 5 eexists. split; [reflexivity | exact F].
  Qed.

  Lemma clear_buf_ext : forall s, exists n z new,
    log (clear_buf s) = OCleared n z :: new ++ log s /\ Forall inner new.
  Proof.
    intros s. unfold clear_buf. destruct (ext_spill 0 0 s) as [new [E F]].
    unfold emit; cbn [log]. rewrite E. do 3 eexists. split; [reflexivity | exact F].
  Qed.
End E.
