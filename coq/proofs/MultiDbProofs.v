(* C26 — proofs about model/MultiDb.v (stdlib style). *)
From Coq Require Import NArith List Bool Lia Permutation Sorted.
From LV Require Import lib.Bytes lib.BytesFacts model.MultiDb.
Import ListNotations.
Local Open Scope N_scope.

Section Proofs.
  Variable orc : str -> str -> str -> option str.
  Variable cok : str -> str -> bool.

  (* ------------------------------------------------------------------ verify *)
  Definition routed_as (p : producer) (l : dbloc) (r : str * str) : Prop :=
    exists rt, route_of orc p (fst r) = Some rt /\
               r_type rt = fst l /\ r_name rt = snd l /\ r_table rt = snd r.

  Lemma record_ok_iff p l r : record_ok orc p l r = true <-> routed_as p l r.
  Proof.
    unfold record_ok, routed_as. destruct (route_of orc p (fst r)) as [rt|].
    - rewrite !andb_true_iff, !bytes_eqb_eq. split.
      + intros [[H1 H2] H3]. exists rt. repeat split; congruence.
      + intros [rt' [E [H1 [H2 H3]]]]. inversion E; subst rt'. repeat split; congruence.
    - split; [discriminate|]. intros [rt [E _]]; discriminate.
  Qed.

  Lemma verify_iff p dbs :
    verify orc p dbs = true <->
    forall l d r, In (l, d) dbs -> In r (d_records d) -> routed_as p l r.
  Proof.
    unfold verify. rewrite forallb_forall. split.
    - intros H l d r Hin Hr. specialize (H (l, d) Hin). cbn in H.
      rewrite forallb_forall in H. apply record_ok_iff. apply H; exact Hr.
    - intros H [l d] Hin. cbn. rewrite forallb_forall. intros r Hr.
      apply record_ok_iff. eapply H; eauto.
  Qed.
End Proofs.
