(* C26 — proofs about model/MultiDb.v (stdlib style). *)
From Coq Require Import NArith List Bool Lia Permutation.
From LV Require Import lib.Bytes lib.BytesFacts model.MultiDb.
Import ListNotations.
Local Open Scope N_scope.

(* ------------------------------------------------------------------ generic helpers *)
Lemma bytes_eqb_refl a : bytes_eqb a a = true.
Proof. apply bytes_eqb_eq; reflexivity. Qed.

Lemma bytes_eqb_neq a b : a <> b -> bytes_eqb a b = false.
Proof. intros H. destruct (bytes_eqb a b) eqn:E; auto. apply bytes_eqb_eq in E; contradiction. Qed.

Lemma bytes_eqb_false a b : bytes_eqb a b = false -> a <> b.
Proof. intros E ->. rewrite bytes_eqb_refl in E; discriminate. Qed.

Lemma assoc_in {A} k (l : list (str * A)) v : assoc k l = Some v -> In (k, v) l.
Proof.
  induction l as [|[k' v'] t IH]; cbn; [discriminate|].
  destruct (bytes_eqb k' k) eqn:E.
  - apply bytes_eqb_eq in E; subst. intros H; inversion H; auto.
  - auto.
Qed.

Lemma assoc_none {A} k (l : list (str * A)) : assoc k l = None -> forall v, ~ In (k, v) l.
Proof.
  induction l as [|[k' v'] t IH]; cbn; intros H v; [tauto|].
  destruct (bytes_eqb k' k) eqn:E; [discriminate|].
  intros [X|X]; [inversion X; subst; rewrite bytes_eqb_refl in E; discriminate|].
  eapply IH; eauto.
Qed.

Lemma in_assoc_nodup {A} k v (l : list (str * A)) :
  NoDup (map fst l) -> In (k, v) l -> assoc k l = Some v.
Proof.
  induction l as [|[k' v'] t IH]; cbn; intros ND Hin; [tauto|].
  inversion ND as [|? ? Hn ND']; subst.
  destruct Hin as [X|X].
  - inversion X; subst. rewrite bytes_eqb_refl; auto.
  - destruct (bytes_eqb k' k) eqn:E.
    + apply bytes_eqb_eq in E; subst. exfalso; apply Hn. apply in_map_iff. exists (k, v); auto.
    + auto.
Qed.

Lemma assoc_perm {A} (l1 l2 : list (str * A)) k :
  Permutation l1 l2 -> NoDup (map fst l1) -> assoc k l1 = assoc k l2.
Proof.
  intros P ND.
  assert (ND2 : NoDup (map fst l2)) by (eapply Permutation_NoDup; [apply Permutation_map; exact P|exact ND]).
  destruct (assoc k l1) as [v|] eqn:E1.
  - symmetry. apply in_assoc_nodup; auto. eapply Permutation_in; [exact P|]. apply assoc_in; auto.
  - destruct (assoc k l2) as [v|] eqn:E2; auto.
    exfalso. eapply assoc_none; [exact E1|]. eapply Permutation_in; [symmetry; exact P|].
    apply assoc_in; eauto.
Qed.

Lemma filter_perm {A} (f : A -> bool) l1 l2 : Permutation l1 l2 -> Permutation (filter f l1) (filter f l2).
Proof.
  induction 1; cbn; auto.
  - destruct (f x); auto.
  - destruct (f x), (f y); auto. apply perm_swap.
  - eapply perm_trans; eauto.
Qed.

Lemma filter_keys_nodup {A} (f : str * A -> bool) l :
  NoDup (map fst l) -> NoDup (map fst (filter f l)).
Proof.
  induction l as [|x t IH]; cbn; intros ND; [constructor|].
  inversion ND as [|? ? Hn ND']; subst.
  destruct (f x); cbn; auto. constructor; auto.
  intros Hin. apply Hn. apply in_map_iff in Hin. destruct Hin as [y [E Hy]].
  apply filter_In in Hy. apply in_map_iff. exists y; tauto.
Qed.

Lemma forallb_perm {A} (f : A -> bool) l1 l2 : Permutation l1 l2 -> forallb f l1 = forallb f l2.
Proof.
  induction 1; cbn; auto.
  - congruence.
  - destruct (f x), (f y); auto.
  - congruence.
Qed.

(* ------------------------------------------------------------------ sorting *)
Lemma lex_leb_lt_false a b : lex_lt a b -> lex_leb b a = false.
Proof. unfold lex_lt, lex_leb. intros H. rewrite lex_compare_antisym, H. reflexivity. Qed.
Lemma lex_leb_lt_true a b : lex_lt a b -> lex_leb a b = true.
Proof. unfold lex_lt, lex_leb. intros ->. reflexivity. Qed.
Lemma lex_leb_false_lt a b : lex_leb a b = false -> lex_lt b a.
Proof.
  unfold lex_lt, lex_leb. intros H. rewrite lex_compare_antisym.
  destruct (lex_compare a b); try discriminate. reflexivity.
Qed.
Lemma lex_total a b : a <> b -> lex_lt a b \/ lex_lt b a.
Proof.
  intros H. unfold lex_lt. destruct (lex_compare a b) eqn:E; auto.
  - apply lex_compare_eq in E; contradiction.
  - right. rewrite lex_compare_antisym, E; reflexivity.
Qed.

Lemma insert_comm_lt {A} (a b : str * A) l :
  lex_lt (fst a) (fst b) -> insert_by a (insert_by b l) = insert_by b (insert_by a l).
Proof.
  intros Hab. induction l as [|x t IH]; cbn.
  - rewrite (lex_leb_lt_true _ _ Hab), (lex_leb_lt_false _ _ Hab). reflexivity.
  - destruct (lex_leb (fst a) (fst x)) eqn:Eax.
    + destruct (lex_leb (fst b) (fst x)) eqn:Ebx; cbn.
      * rewrite (lex_leb_lt_true _ _ Hab), (lex_leb_lt_false _ _ Hab). cbn. rewrite Ebx. reflexivity.
      * rewrite Eax, (lex_leb_lt_false _ _ Hab). cbn. rewrite Ebx. reflexivity.
    + assert (Ebx : lex_leb (fst b) (fst x) = false).
      { apply lex_leb_lt_false. eapply lex_lt_trans; [apply lex_leb_false_lt; exact Eax|exact Hab]. }
      rewrite Ebx. cbn. rewrite Eax, Ebx. f_equal. exact IH.
Qed.

Lemma insert_comm {A} (a b : str * A) l :
  fst a <> fst b -> insert_by a (insert_by b l) = insert_by b (insert_by a l).
Proof.
  intros H. destruct (lex_total _ _ H) as [L|L].
  - apply insert_comm_lt; auto.
  - symmetry; apply insert_comm_lt; auto.
Qed.

Lemma sort_by_perm {A} (l1 l2 : list (str * A)) :
  Permutation l1 l2 -> NoDup (map fst l1) -> sort_by l1 = sort_by l2.
Proof.
  induction 1 as [|x l l' P IH|x y l|l l' l'' P1 IH1 P2 IH2]; intros ND; cbn; auto.
  - inversion ND; subst. rewrite IH; auto.
  - inversion ND as [|? ? Hn ND']; subst. apply insert_comm.
    intros E. apply Hn. cbn. left; auto.
  - rewrite IH1; auto. apply IH2.
    eapply Permutation_NoDup; [apply Permutation_map; exact P1|exact ND].
Qed.

Lemma insert_by_in {A} (e x : str * A) l : In x (insert_by e l) <-> x = e \/ In x l.
Proof.
  induction l as [|y t IH]; cbn; [intuition|].
  destruct (lex_leb (fst e) (fst y)); cbn; [intuition|]. rewrite IH. intuition.
Qed.
Lemma sort_by_in {A} (x : str * A) l : In x (sort_by l) <-> In x l.
Proof.
  induction l as [|y t IH]; cbn; [tauto|]. rewrite insert_by_in, IH. intuition.
Qed.

(* ------------------------------------------------------------------ last_slash *)
Lemma last_slash_spec s b a : last_slash s = Some (b, a) -> s = b ++ SLASH :: a.
Proof.
  revert b a; induction s as [|c t IH]; cbn; intros b a H; [discriminate|].
  destruct (last_slash t) as [[b' a']|] eqn:E.
  - inversion H; subst. cbn. f_equal. apply IH; reflexivity.
  - destruct (c =? SLASH) eqn:Ec; [|discriminate]. inversion H; subst.
    apply N.eqb_eq in Ec; subst. reflexivity.
Qed.
Lemma last_slash_length s b a : last_slash s = Some (b, a) -> (length b < length s)%nat.
Proof. intros H. apply last_slash_spec in H. subst. rewrite app_length. cbn. lia. Qed.

Section Proofs.
  Variable orc : str -> str -> str -> option str.
  Variable cok : str -> str -> bool.

  (* ------------------------------------------------------------------ termination *)
  Lemma route_loop_terminates p :
    lookup orc p [] <> None ->
    forall fuel req rpt rpn, (fuel >= 2 + length req)%nat -> route_loop orc fuel p req rpt rpn <> None.
  Proof.
    intros Hdef. induction fuel as [|f IH]; intros req rpt rpn Hf; [lia|].
    cbn. destruct (lookup orc p req) as [d|] eqn:El; [discriminate|].
    destruct (last_slash req) as [[b a]|] eqn:Es.
    - apply IH. apply last_slash_length in Es. lia.
    - destruct f as [|f']; [lia|]. cbn.
      destruct (lookup orc p []) as [d|]; [discriminate|contradiction].
  Qed.

  Lemma try_pats_some pats t rt req :
    In (t, rt) pats -> orc t (r_name rt) req <> None -> try_pats orc pats req <> None.
  Proof.
    induction pats as [|[t' rt'] rest IH]; cbn; intros Hin Ho; [tauto|].
    destruct (orc t' (r_name rt') req) eqn:E; [discriminate|].
    destruct Hin as [X|X]; [inversion X; subst; contradiction|]. auto.
  Qed.

  Lemma assoc_filter_first {A} (f : str * A -> bool) k (l : list (str * A)) v :
    assoc k l = Some v -> f (k, v) = true -> assoc k (filter f l) = Some v.
  Proof.
    induction l as [|[k' v'] t IH]; cbn; [discriminate|].
    destruct (bytes_eqb k' k) eqn:E; intros H Hf.
    - apply bytes_eqb_eq in E; subst. inversion H; subst. rewrite Hf. cbn. rewrite bytes_eqb_refl; auto.
    - destruct (f (k', v')); cbn; [rewrite E|]; auto.
  Qed.

  (* the default route resolves when its pattern (if it is one) matches the empty request,
     which is what fmtfilter's compiled function for an op-free template does *)
  Definition default_oracle : Prop := forall nm, cok [] nm = true -> orc [] nm [] <> None.

  Lemma new_producer_default avail tbl p :
    default_oracle -> new_producer cok avail tbl = Some p -> lookup orc p [] <> None.
  Proof.
    intros Hd. unfold new_producer. destruct (assoc [] tbl) as [r|] eqn:Ea; [|discriminate].
    destruct (forallb (compiles cok) (filter (fun e => negb (is_exact e)) tbl)) eqn:Ec; [|discriminate].
    intros H; inversion H; subst; clear H. unfold lookup; cbn.
    destruct (is_exact ([], r)) eqn:Ex.
    - rewrite (assoc_filter_first is_exact [] tbl r Ea Ex). discriminate.
    - destruct (assoc [] (filter is_exact tbl)); [discriminate|].
      apply (try_pats_some _ [] r).
      + apply sort_by_in. apply filter_In. split; [apply assoc_in; auto|]. apply negb_true_iff; exact Ex.
      + apply Hd. rewrite forallb_forall in Ec.
        specialize (Ec ([], r)). apply Ec. apply filter_In. split; [apply assoc_in; auto|].
        apply negb_true_iff; exact Ex.
  Qed.

  Lemma route_terminates avail tbl p :
    default_oracle -> new_producer cok avail tbl = Some p -> forall req, route_of orc p req <> None.
  Proof.
    intros Hd Hn req. unfold route_of, route_fuel.
    apply route_loop_terminates; [eapply new_producer_default; eauto|lia].
  Qed.

  (* ------------------------------------------------------------------ determinism *)
  Lemma route_loop_ext p1 p2 :
    (forall q, lookup orc p1 q = lookup orc p2 q) ->
    forall fuel req rpt rpn, route_loop orc fuel p1 req rpt rpn = route_loop orc fuel p2 req rpt rpn.
  Proof.
    intros H. induction fuel as [|f IH]; intros; cbn; auto.
    rewrite H. destruct (lookup orc p2 req); auto.
    destruct (last_slash req) as [[b a]|]; auto.
  Qed.

  Lemma route_deterministic avail t1 t2 :
    Permutation t1 t2 -> NoDup (map fst t1) ->
    match new_producer cok avail t1, new_producer cok avail t2 with
    | Some p1, Some p2 => forall req, route_of orc p1 req = route_of orc p2 req
    | None, None => True
    | _, _ => False
    end.
  Proof.
    intros P ND. unfold new_producer.
    rewrite <- (assoc_perm t1 t2 [] P ND).
    destruct (assoc [] t1); auto.
    rewrite <- (forallb_perm (compiles cok) _ _ (filter_perm (fun e => negb (is_exact e)) _ _ P)).
    destruct (forallb (compiles cok) (filter (fun e => negb (is_exact e)) t1)); auto.
    intros req. unfold route_of. apply route_loop_ext. intros q. unfold lookup; cbn.
    rewrite (assoc_perm _ _ q (filter_perm is_exact _ _ P) (filter_keys_nodup is_exact _ ND)).
    rewrite (sort_by_perm _ _ (filter_perm (fun e => negb (is_exact e)) _ _ P)
               (filter_keys_nodup (fun e => negb (is_exact e)) _ ND)).
    reflexivity.
  Qed.

  (* ------------------------------------------------------------------ verify *)
  Definition routed_as (p : producer) (l : dbloc) (r : str * str) : Prop :=
    exists rt, route_of orc p (fst r) = Some rt /\
               r_type rt = fst l /\ r_name rt = snd l /\ r_table rt = snd r.

  Lemma record_ok_iff p l r : record_ok orc p l r = true <-> routed_as p l r.
  Proof.
    unfold record_ok, routed_as. destruct (route_of orc p (fst r)) as [rt|].
    - rewrite !andb_true_iff, !bytes_eqb_eq. split.
      + intros [[H1 H2] H3]. exists rt. repeat split; congruence.
      + intros [rt' [E [H1 [H2 H3]]]]. inversion E; subst rt'. repeat split; congruence.
    - split; [discriminate|]. intros [rt [E _]]; discriminate.
  Qed.

  Lemma verify_iff p dbs :
    verify orc p dbs = true <->
    forall l d r, In (l, d) dbs -> In r (d_records d) -> routed_as p l r.
  Proof.
    unfold verify. rewrite forallb_forall. split.
    - intros H l d r Hin Hr. specialize (H (l, d) Hin). cbn in H.
      rewrite forallb_forall in H. apply record_ok_iff. apply H; exact Hr.
    - intros H [l d] Hin. cbn. rewrite forallb_forall. intros r Hr.
      apply record_ok_iff. eapply H; eauto.
  Qed.
End Proofs.

(* ------------------------------------------------------------------ records, isolation, re-open *)
Lemma conflicting_sym a b : conflicting a b = conflicting b a.
Proof. unfold conflicting. apply orb_comm. Qed.

Lemma loc_eqb_eq a b : loc_eqb a b = true <-> a = b.
Proof.
  destruct a as [a1 a2], b as [b1 b2]. unfold loc_eqb; cbn.
  rewrite andb_true_iff, !bytes_eqb_eq. split; [intros [-> ->]; auto|intros E; inversion E; auto].
Qed.
Lemma loc_eqb_refl a : loc_eqb a a = true.
Proof. apply loc_eqb_eq; reflexivity. Qed.
Lemma loc_eqb_neq a b : a <> b -> loc_eqb a b = false.
Proof. intros H. destruct (loc_eqb a b) eqn:E; auto. apply loc_eqb_eq in E; contradiction. Qed.

Lemma get_set_eq l d dbs : get_db l (set_db l d dbs) = Some d.
Proof.
  induction dbs as [|[l' d'] t IH]; cbn; [rewrite loc_eqb_refl; auto|].
  destruct (loc_eqb l' l) eqn:E; cbn; [rewrite loc_eqb_refl; auto|rewrite E; auto].
Qed.
Lemma get_set_neq l l' d dbs : l <> l' -> get_db l' (set_db l d dbs) = get_db l' dbs.
Proof.
  intros H. induction dbs as [|[l0 d0] t IH]; cbn; [rewrite (loc_eqb_neq _ _ H); auto|].
  destruct (loc_eqb l0 l) eqn:E; cbn.
  - apply loc_eqb_eq in E; subst. rewrite (loc_eqb_neq _ _ H); auto.
  - destruct (loc_eqb l0 l'); auto.
Qed.
Lemma get_set_same l d dbs l' : get_db l dbs = Some d -> get_db l' (set_db l d dbs) = get_db l' dbs.
Proof.
  intros H. destruct (loc_eqb l l') eqn:E.
  - apply loc_eqb_eq in E; subst. rewrite get_set_eq; auto.
  - apply get_set_neq. intros ->. rewrite loc_eqb_refl in E; discriminate.
Qed.
Lemma get_del l l' dbs d : get_db l' (del_db l dbs) = Some d -> get_db l' dbs = Some d.
Proof.
  induction dbs as [|[l0 d0] t IH]; cbn; auto.
  destruct (loc_eqb l0 l) eqn:E; cbn.
  - intros H. specialize (IH H). destruct (loc_eqb l0 l') eqn:E'; auto.
    apply loc_eqb_eq in E, E'; subst. clear -H. exfalso.
    induction t as [|[l1 d1] t IH]; cbn in H; [discriminate|].
    destruct (loc_eqb l1 l') eqn:E1; cbn in H; auto. rewrite E1 in H; auto.
  - destruct (loc_eqb l0 l'); auto.
Qed.

Definition recs_wf (rs : list (str * str)) : Prop :=
  forall r1 r2, In r1 rs -> In r2 rs ->
    (fst r1 = fst r2 -> r1 = r2) /\ (fst r1 <> fst r2 -> conflicting (snd r1) (snd r2) = false).
Definition dbs_wf (dbs : list (dbloc * dbstate)) : Prop :=
  forall l d, get_db l dbs = Some d -> recs_wf (d_records d).

Lemma handle_append rs req tbl :
  handle_loop rs req tbl = HAppend ->
  forall r, In r rs -> fst r <> req /\ conflicting (snd r) tbl = false.
Proof.
  induction rs as [|[oreq otbl] t IH]; cbn; intros H r Hin; [tauto|].
  destruct (bytes_eqb oreq req) eqn:E1.
  - destruct (bytes_eqb otbl tbl); discriminate.
  - cbn in H. destruct (conflicting otbl tbl) eqn:E2; [discriminate|].
    destruct Hin as [<-|Hin]; cbn; [split; [apply bytes_eqb_false; auto|auto]|auto].
Qed.

Lemma handle_found_in rs req tbl : handle_loop rs req tbl = HFound -> In (req, tbl) rs.
Proof.
  induction rs as [|[oreq otbl] t IH]; cbn; [discriminate|].
  destruct (bytes_eqb oreq req) eqn:E1.
  - destruct (bytes_eqb otbl tbl) eqn:E2; cbn; [|discriminate].
    apply bytes_eqb_eq in E1, E2; subst; auto.
  - cbn. destruct (conflicting otbl tbl); [discriminate|]. auto.
Qed.

Lemma recs_wf_app rs req tbl :
  recs_wf rs -> (forall r, In r rs -> fst r <> req /\ conflicting (snd r) tbl = false) ->
  recs_wf (rs ++ [(req, tbl)]).
Proof.
  intros W H r1 r2 H1 H2. apply in_app_iff in H1, H2. cbn in H1, H2.
  destruct H1 as [H1|[<-|[]]], H2 as [H2|[<-|[]]]; cbn.
  - apply W; auto.
  - destruct (H _ H1) as [A B]. split; [intros; contradiction|auto].
  - destruct (H _ H2) as [A B]. split; [intros E; symmetry in E; contradiction|].
    intros _. rewrite conflicting_sym; auto.
  - split; auto. intros X; contradiction.
Qed.

Lemma recs_wf_tail x rs : recs_wf (x :: rs) -> recs_wf rs.
Proof. intros W r1 r2 H1 H2. apply W; right; auto. Qed.

Lemma handle_found rs req tbl : recs_wf rs -> In (req, tbl) rs -> handle_loop rs req tbl = HFound.
Proof.
  induction rs as [|[oreq otbl] t IH]; cbn; intros W Hin; [tauto|].
  destruct (W (oreq, otbl) (req, tbl) (or_introl eq_refl) Hin) as [A B]. cbn in A, B.
  destruct (bytes_eqb oreq req) eqn:E1.
  - apply bytes_eqb_eq in E1. specialize (A E1). inversion A; subst.
    rewrite bytes_eqb_refl. reflexivity.
  - cbn. rewrite (B (bytes_eqb_false _ _ E1)).
    apply IH; [eapply recs_wf_tail; eauto|].
    destruct Hin as [X|X]; auto. inversion X; subst. rewrite bytes_eqb_refl in E1; discriminate.
Qed.

Lemma conflicting_false_disjoint t1 t2 :
  conflicting t1 t2 = false -> forall k1 k2, t1 ++ k1 <> t2 ++ k2.
Proof.
  unfold conflicting. intros H k1 k2 E. apply orb_false_iff in H. destruct H as [H1 H2].
  assert (X : has_prefix t1 t2 = true \/ has_prefix t2 t1 = true).
  { clear H1 H2. revert t2 E. induction t1 as [|a t1 IH]; intros t2 E; [left; reflexivity|].
    destruct t2 as [|b t2]; [right; reflexivity|].
    cbn in E. inversion E; subst. cbn. rewrite N.eqb_refl. cbn. apply IH; auto. }
  destruct X; congruence.
Qed.

Section Records.
  Variable orc : str -> str -> str -> option str.

  Lemma open_db_wf p dbs req dbs' r :
    dbs_wf dbs -> open_db orc p dbs req = (dbs', r) -> dbs_wf dbs'.
  Proof.
    intros W. unfold open_db. destruct (route_of orc p req) as [rt|]; [|intros H; inversion H; subst; auto].
    destruct (mem_str (r_type rt) (p_avail p)); [|intros H; inversion H; subst; auto].
    set (l := (r_type rt, r_name rt)).
    assert (Wd : recs_wf (d_records (match get_db l dbs with Some d => d | None => empty_db end))).
    { destruct (get_db l dbs) eqn:E; [eapply W; eauto|]. intros r1 r2 []. }
    set (d := match get_db l dbs with Some d => d | None => empty_db end) in *.
    assert (Wset : forall d', recs_wf (d_records d') -> dbs_wf (set_db l d' dbs)).
    { intros d' Wd' l' d0 G. destruct (loc_eqb l l') eqn:E.
      - apply loc_eqb_eq in E; subst. rewrite get_set_eq in G. inversion G; subst; auto.
      - rewrite get_set_neq in G; [eapply W; eauto|]. intros ->. rewrite loc_eqb_refl in E; discriminate. }
    destruct (handle_loop (d_records d) req (r_table rt)) eqn:Eh; intros H; inversion H; subst; auto.
    apply Wset. cbn. apply recs_wf_app; auto. apply handle_append; auto.
  Qed.

  Lemma open_db_ok p dbs req dbs' rt :
    open_db orc p dbs req = (dbs', OOk rt) ->
    route_of orc p req = Some rt /\ mem_str (r_type rt) (p_avail p) = true /\
    exists d, get_db (r_type rt, r_name rt) dbs' = Some d /\ In (req, r_table rt) (d_records d).
  Proof.
    unfold open_db. destruct (route_of orc p req) as [rt'|]; [|discriminate].
    destruct (mem_str (r_type rt') (p_avail p)) eqn:Em; [|discriminate].
    destruct (handle_loop _ req (r_table rt')) eqn:Eh; intros H; inversion H; subst; clear H;
      (split; [reflexivity|split; [exact Em|]]); eexists; (split; [apply get_set_eq|]).
    - apply handle_found_in; auto.
    - cbn. apply in_app_iff. right. left. reflexivity.
  Qed.

  Lemma open_db_mono p dbs req dbs' r l d x :
    open_db orc p dbs req = (dbs', r) -> get_db l dbs = Some d -> In x (d_records d) ->
    exists d', get_db l dbs' = Some d' /\ In x (d_records d').
  Proof.
    unfold open_db. destruct (route_of orc p req) as [rt|]; [|intros H; inversion H; subst; eauto].
    destruct (mem_str (r_type rt) (p_avail p)); [|intros H; inversion H; subst; eauto].
    set (l0 := (r_type rt, r_name rt)). intros H G Hx.
    destruct (loc_eqb l0 l) eqn:E.
    - apply loc_eqb_eq in E; subst l. rewrite G in H.
      destruct (handle_loop (d_records d) req (r_table rt)); inversion H; subst; clear H;
        eexists; (split; [apply get_set_eq|]); auto.
      cbn. apply in_app_iff; auto.
    - assert (N : l0 <> l) by (intros ->; rewrite loc_eqb_refl in E; discriminate).
      destruct (handle_loop _ req (r_table rt)); inversion H; subst; clear H;
        exists d; rewrite get_set_neq; auto.
  Qed.

  (* isolation: a request recorded in a database and another request successfully opened into
     the same database have tables that are not prefix-related *)
  Lemma isolation_step p dbs l d r1 t1 req2 dbs2 rt2 :
    dbs_wf dbs -> get_db l dbs = Some d -> In (r1, t1) (d_records d) ->
    open_db orc p dbs req2 = (dbs2, OOk rt2) -> (r_type rt2, r_name rt2) = l -> r1 <> req2 ->
    conflicting t1 (r_table rt2) = false.
  Proof.
    intros W G H1 Ho El Hne.
    pose proof (open_db_wf _ _ _ _ _ W Ho) as W2.
    destruct (open_db_ok _ _ _ _ _ Ho) as [_ [_ [d2 [G2 H2]]]]. rewrite El in G2.
    destruct (open_db_mono _ _ _ _ _ _ _ _ Ho G H1) as [d2' [G2' H1']].
    rewrite G2 in G2'. inversion G2'; subst d2'.
    destruct (W2 _ _ G2 (r1, t1) (req2, r_table rt2) H1' H2) as [_ B]. apply B. exact Hne.
  Qed.

  Lemma reopen_same p' dbs req rt d :
    dbs_wf dbs -> route_of orc p' req = Some rt -> mem_str (r_type rt) (p_avail p') = true ->
    get_db (r_type rt, r_name rt) dbs = Some d -> In (req, r_table rt) (d_records d) ->
    exists dbs', open_db orc p' dbs req = (dbs', OOk rt) /\ forall l, get_db l dbs' = get_db l dbs.
  Proof.
    intros W R M G Hin. unfold open_db. rewrite R, M, G.
    rewrite (handle_found _ _ _ (W _ _ G) Hin).
    eexists; split; [reflexivity|]. intros l. apply get_set_same; auto.
  Qed.

  (* ---------------- reachable states *)
  Variable newp : list str -> list (str * route) -> option producer.
  Variable avail : list str.

  Fixpoint exec (st : state) (ops : list op) : state :=
    match ops with
    | [] => st
    | o :: rest => exec (fst (step orc newp avail st o)) rest
    end.

  Lemma dbs_wf_set_records l dbs d' :
    dbs_wf dbs -> recs_wf (d_records d') -> dbs_wf (set_db l d' dbs).
  Proof.
    intros W Wd l' d0 G. destruct (loc_eqb l l') eqn:E.
    - apply loc_eqb_eq in E; subst. rewrite get_set_eq in G. inversion G; subst; auto.
    - rewrite get_set_neq in G; [eapply W; eauto|]. intros ->. rewrite loc_eqb_refl in E; discriminate.
  Qed.

  Lemma step_wf st o : dbs_wf (s_dbs st) -> dbs_wf (s_dbs (fst (step orc newp avail st o))).
  Proof.
    intros W. destruct o; cbn.
    - destruct (newp avail tbl); cbn; auto.
    - destruct (s_prod st); cbn; auto.
    - destruct (s_prod st) as [p|]; cbn; auto.
      destruct (open_db orc p (s_dbs st) req) as [dbs r] eqn:E. cbn. eapply open_db_wf; eauto.
    - destruct (s_prod st) as [p|]; cbn; auto.
      destruct (open_db orc p (s_dbs st) req) as [dbs r] eqn:E.
      pose proof (open_db_wf _ _ _ _ _ W E) as W'.
      destruct r; cbn; auto. destruct (r_nodrop rt); auto.
      intros l d G. apply get_del in G. eapply W'; eauto.
    - destruct (s_prod st) as [p|]; cbn; auto.
      destruct (open_db orc p (s_dbs st) req) as [dbs r] eqn:E.
      pose proof (open_db_wf _ _ _ _ _ W E) as W'.
      destruct r; cbn; auto. apply dbs_wf_set_records; auto. cbn.
      destruct (get_db (r_type rt, r_name rt) dbs) eqn:G; [eapply W'; eauto|]. intros r1 r2 [].
    - destruct (s_prod st) as [p|]; cbn; auto.
      destruct (open_db orc p (s_dbs st) req) as [dbs r] eqn:E.
      pose proof (open_db_wf _ _ _ _ _ W E) as W'. destruct r; cbn; auto.
    - destruct (s_prod st); cbn; auto.
  Qed.

  Lemma exec_wf ops : forall st, dbs_wf (s_dbs st) -> dbs_wf (s_dbs (exec st ops)).
  Proof. induction ops as [|o rest IH]; cbn; intros st W; auto. apply IH. apply step_wf; auto. Qed.

  Lemma reachable_wf ops : dbs_wf (s_dbs (exec init_state ops)).
  Proof. apply exec_wf. intros l d G. cbn in G. discriminate. Qed.
End Records.

(* ------------------------------------------------------------------ the pinned NewProducer is not deterministic *)
Module OldWitness.
  (* "a%d" -> "n%d", "a%s" -> "s%s", request "a1" : the two compiled patterns of DESIGN section 6 #7 *)
  Definition t_d : str := [97; 37; 100].   Definition n_d : str := [110; 37; 100].
  Definition t_s : str := [97; 37; 115].   Definition n_s : str := [115; 37; 115].
  Definition a1 : str := [97; 49].
  Definition orc (tmpl nm req : str) : option str :=
    if bytes_eqb req a1 then
      if bytes_eqb tmpl t_d then Some [110; 49] else if bytes_eqb tmpl t_s then Some [115; 49] else None
    else None.
  Definition cok (_ _ : str) : bool := true.
  Definition main : str := [109].
  Definition dflt : route := mkRoute main [100] [] false.
  Definition tbl1 : list (str * route) :=
    [([], dflt); (t_d, mkRoute main n_d [] false); (t_s, mkRoute main n_s [] false)].
  Definition tbl2 : list (str * route) :=
    [([], dflt); (t_s, mkRoute main n_s [] false); (t_d, mkRoute main n_d [] false)].
End OldWitness.

Example route_deterministic_old_refuted :
  Permutation OldWitness.tbl1 OldWitness.tbl2 /\ NoDup (map fst OldWitness.tbl1) /\
  match new_producer_old OldWitness.cok [OldWitness.main] OldWitness.tbl1,
        new_producer_old OldWitness.cok [OldWitness.main] OldWitness.tbl2 with
  | Some p1, Some p2 =>
      route_of OldWitness.orc p1 OldWitness.a1 <> route_of OldWitness.orc p2 OldWitness.a1
  | _, _ => False
  end.
Proof.
  split; [|split].
  - unfold OldWitness.tbl1, OldWitness.tbl2. apply perm_skip. apply perm_swap.
  - cbn. repeat constructor; cbn; intuition discriminate.
  - vm_compute. discriminate.
Qed.

(* the same tables through the repaired constructor route alike (instance of route_deterministic) *)
Example route_deterministic_new_on_witness :
  match new_producer OldWitness.cok [OldWitness.main] OldWitness.tbl1,
        new_producer OldWitness.cok [OldWitness.main] OldWitness.tbl2 with
  | Some p1, Some p2 =>
      route_of OldWitness.orc p1 OldWitness.a1 = route_of OldWitness.orc p2 OldWitness.a1
      /\ route_of OldWitness.orc p1 OldWitness.a1 = Some (mkRoute OldWitness.main [110; 49] [] false)
  | _, _ => False
  end.
Proof. vm_compute. split; reflexivity. Qed.
