(* C05/C06: the invariant of the vector index (I1 branches = self-parent chains, I2 HighestBefore,
   I3 LowestAfter; DESIGN 5 C05) and its consequences for the queries:
   forklessCause = fc_spec, GetMergedHighestBefore = merged_spec.  Preservation by Add is in
   proofs/VecStep.v. *)
From Coq Require Import List Arith NArith ZArith Bool Lia.
From Coq Require Import ZifyBool ZifyNat ZifyN.
From LV Require Import model.VecIndex spec.FcSpec lib.VecListFacts proofs.FcSpecFacts proofs.VecHb.
Import ListNotations.
Open Scope N_scope.

Definition evt (s : vidx) (x : N) (e : event) : Prop := alookup x (evs s) = Some e.
Definition onbr (s : vidx) (x : N) (b : nat) : Prop := alookup x (ebr s) = Some b.
Definition seqv (s : vidx) (x : N) : N := match alookup x (evs s) with Some e => eseq e | None => 0 end.
Definition crb (s : vidx) (b : nat) : nat := nth b (br_cr s) 0%nat.
(* x is an event of branch b among the ancestors-or-self of A / descendants-or-self of B *)
Definition seenb (s : vidx) (A : N) (b : nat) (x : N) : Prop := reach (evs s) A x /\ onbr s x b.
Definition descb (s : vidx) (B : N) (b : nat) (x : N) : Prop := reach (evs s) x B /\ onbr s x b.

(* true range of the seen events of a branch *)
Definition TR (s : vidx) (A : N) (b : nat) (v : hbs) : Prop :=
  ((forall x, ~ seenb s A b x) /\ fst v = 0) \/
  (exists hi lo, seenb s A b hi /\ seenb s A b lo /\ seqv s hi = fst v /\ seqv s lo = snd v /\
                 forall z, seenb s A b z -> snd v <= seqv s z <= fst v).
Definition HBok (s : vidx) (A : N) (b : nat) (v : hbs) : Prop :=
  (is_fork v = true /\ (b < nbr s)%nat /\ SeesFork (evs s) A (crb s b)) \/
  (is_fork v = false /\ TR s A b v /\ (SeesFork (evs s) A (crb s b) -> forall x, ~ seenb s A b x)).
Definition LAok (s : vidx) (B : N) (b : nat) (x : N) : Prop :=
  (x = 0 /\ forall z, ~ descb s B b z) \/
  (exists z, descb s B b z /\ seqv s z = x /\ forall z', descb s B b z' -> x <= seqv s z').

(* graph / branch part (I1): does not mention the vectors *)
Record ginv (n : nat) (s : vidx) : Prop := {
  g_nvals : nvals s = n;
  g_len : length (br_last s) = length (br_cr s);
  g_nb : (n <= nbr s)%nat;
  g_brcr_init : forall c, (c < n)%nat -> crb s c = c;
  g_brcr_lt : forall b, (b < nbr s)%nat -> (crb s b < n)%nat;
  g_bycr_len : length (by_cr s) = n;
  g_bycr : forall c b, (c < n)%nat -> (In b (brs_of s c) <-> ((b < nbr s)%nat /\ crb s b = c));
  g_bycr_nodup : forall c, NoDup (brs_of s c);
  g_keys : forall x e, evt s x e -> exists b, onbr s x b;
  g_closed : closed (evs s);
  g_ev : forall x e, evt s x e -> (ecr e < n)%nat /\ 1 <= eseq e /\
    match self_parent e with
    | Some sp => exists esp, evt s sp esp /\ ecr esp = ecr e /\ eseq e = eseq esp + 1
    | None => eseq e = 1 end;
  g_br : forall x e b, evt s x e -> onbr s x b ->
    (b < nbr s)%nat /\ crb s b = ecr e /\ eseq e <= nth b (br_last s) 0;
  g_chain : forall x e b, evt s x e -> onbr s x b ->
    (exists sp esp, self_parent e = Some sp /\ onbr s sp b /\ evt s sp esp /\ eseq e = eseq esp + 1) \/
    (forall y ey, evt s y ey -> onbr s y b -> eseq e <= eseq ey);
  g_inj : forall x y ex ey b, evt s x ex -> evt s y ey -> onbr s x b -> onbr s y b -> eseq ex = eseq ey -> x = y }.

(* full invariant: I1 + I2 (HighestBefore) + I3 (LowestAfter) *)
Record vinv (n : nat) (s : vidx) : Prop := {
  v_g : ginv n s;
  v_keys_hbla : forall x e, evt s x e ->
    (exists hv, alookup x (hb s) = Some hv) /\ (exists lv, alookup x (la s) = Some lv);
  v_keys_la : forall x, alookup x (la s) = None <-> alookup x (evs s) = None;
  v_hb : forall A e av b, evt s A e -> alookup A (hb s) = Some av -> HBok s A b (hb_get av b);
  v_la : forall B e bv b, evt s B e -> alookup B (la s) = Some bv -> LAok s B b (la_get bv b) }.

Section Compat.
Variable n : nat. Variable s : vidx. Hypothesis I : vinv n s.
Definition v_nvals := g_nvals n s (v_g n s I).
Definition v_len := g_len n s (v_g n s I).
Definition v_nb := g_nb n s (v_g n s I).
Definition v_brcr_init := g_brcr_init n s (v_g n s I).
Definition v_brcr_lt := g_brcr_lt n s (v_g n s I).
Definition v_bycr_len := g_bycr_len n s (v_g n s I).
Definition v_bycr := g_bycr n s (v_g n s I).
Definition v_bycr_nodup := g_bycr_nodup n s (v_g n s I).
Definition v_closed := g_closed n s (v_g n s I).
Definition v_ev := g_ev n s (v_g n s I).
Definition v_br := g_br n s (v_g n s I).
Definition v_chain := g_chain n s (v_g n s I).
Definition v_inj := g_inj n s (v_g n s I).
Lemma v_keys x e : evt s x e ->
  (exists hv, alookup x (hb s) = Some hv) /\ (exists lv, alookup x (la s) = Some lv) /\ (exists b, onbr s x b).
Proof.
  intros H. destruct (v_keys_hbla n s I x e H) as [A B]. split; [exact A|]. split; [exact B|].
  exact (g_keys n s (v_g n s I) x e H).
Qed.
End Compat.

Definition fc_cond (av : list hbs) (bv : list N) (br : nat) : bool :=
  (la_get bv br <=? fst (hb_get av br)) && negb (la_get bv br =? 0) && negb (is_fork (hb_get av br)).
Definition fc_counted (s : vidx) (av : list hbs) (bv : list N) : list bool :=
  fold_left (fun cnt br => if fc_cond av bv br then set_nth false cnt (crb s br) true else cnt)
            (List.seq 0 (nbr s)) (repeat false (nvals s)).
Lemma fc_unfold ws q s a b : fc ws q s a b =
  match alookup a (hb s), alookup b (la s), alookup b (ebr s) with
  | Some av, Some bv, Some bbr =>
    if at_least_one_fork s && is_fork (hb_get av bbr) then false else q <=? wsum ws (fc_counted s av bv)
  | _, _, _ => false end.
Proof. reflexivity. Qed.

Section GConsequences.
Variable n : nat.
Variable s : vidx.
Hypothesis G : ginv n s.
Let E := evs s.

Lemma seqv_evt x e : evt s x e -> seqv s x = eseq e.
Proof. unfold evt, seqv. intros ->. reflexivity. Qed.
Lemma self_parent_in e sp : self_parent e = Some sp -> In sp (epar e).
Proof.
  unfold self_parent. destruct (eseq e <=? 1); [discriminate|]. destruct (epar e) as [|p t]; [discriminate|].
  intros [= ->]. left. reflexivity.
Qed.

(* contiguity of a branch below any of its events *)
Lemma branch_contig : forall k hi ehi lo elo b sq,
  evt s hi ehi -> evt s lo elo -> onbr s hi b -> onbr s lo b ->
  eseq elo <= sq -> eseq ehi = sq + N.of_nat k ->
  exists z ez, evt s z ez /\ onbr s z b /\ eseq ez = sq /\ reach E hi z.
Proof.
  induction k as [|k IH]; intros hi ehi lo elo b sq Hhi Hlo Bhi Blo Hle Heq.
  - exists hi, ehi. repeat split; auto; [lia|]. eapply reach_refl; exact Hhi.
  - destruct (g_chain n s G hi ehi b Hhi Bhi) as [(sp & esp & Hsp & Bsp & Esp & Hs)|Hmin].
    + destruct (IH sp esp lo elo b sq Esp Hlo Bsp Blo Hle ltac:(lia)) as (z & ez & Hz & Bz & Sz & Rz).
      exists z, ez. repeat split; auto. eapply reach_step; [exact Hhi|apply self_parent_in; exact Hsp|exact Rz].
    + specialize (Hmin lo elo Hlo Blo). lia.
Qed.

Lemma branch_chain x ex y ey b : evt s x ex -> evt s y ey -> onbr s x b -> onbr s y b ->
  eseq ex <= eseq ey -> reach E y x.
Proof.
  intros Hx Hy Bx By Hle.
  destruct (branch_contig (N.to_nat (eseq ey - eseq ex)) y ey x ex b (eseq ex) Hy Hx By Bx ltac:(lia) ltac:(lia))
    as (z & ez & Hz & Bz & Sz & Rz).
  assert (z = x) by (eapply (g_inj n s G); eauto). subst. exact Rz.
Qed.

(* a visible fork means two branches *)
Lemma fork_pair_branches v x y : fork_pair E v x y ->
  exists ex ey bx by_, evt s x ex /\ evt s y ey /\ onbr s x bx /\ onbr s y by_ /\ bx <> by_ /\
     crb s bx = v /\ crb s by_ = v /\ eseq ex = eseq ey /\ (bx < nbr s)%nat /\ (by_ < nbr s)%nat.
Proof.
  intros (Hne & ex & ey & Ex & Ey & Cx & Cy & Hs).
  destruct (g_keys n s G x ex Ex) as (bx & Bx). destruct (g_keys n s G y ey Ey) as (by_ & By).
  destruct (g_br n s G x ex bx Ex Bx) as (Lx & Crx & _). destruct (g_br n s G y ey by_ Ey By) as (Ly & Cry & _).
  exists ex, ey, bx, by_. repeat split; auto; try congruence.
  intros ->. apply Hne. eapply (g_inj n s G); eauto.
Qed.

Lemma two_in_length {A} (a b : A) l : a <> b -> In a l -> In b l -> (2 <= length l)%nat.
Proof.
  intros Hne Ha Hb. destruct l as [|x [|y l]]; cbn [length]; try lia; [destruct Ha|].
  destruct Ha as [<-|[]]. destruct Hb as [<-|[]]. contradiction.
Qed.
Lemma nodup_bound (l : list nat) k : NoDup l -> (forall x, In x l -> (x < k)%nat) -> (length l <= k)%nat.
Proof.
  intros Hnd Hb. assert (H : incl l (List.seq 0 k)) by (intros x Hx; apply in_seq; specialize (Hb x Hx); lia).
  pose proof (NoDup_incl_length Hnd H) as Hl. rewrite seq_length in Hl. exact Hl.
Qed.

Lemma SeesFork_two_branches A v : SeesFork E A v -> (v < n)%nat /\ (2 <= length (brs_of s v))%nat /\ at_least_one_fork s = true.
Proof.
  intros (x & y & Rx & Ry & Hf).
  destruct (fork_pair_branches v x y Hf) as (ex & ey & bx & by_ & Ex & Ey & Bx & By & Hne & Cx & Cy & Hs & Lx & Ly).
  assert (Hv : (v < n)%nat) by (rewrite <- Cx; apply (g_brcr_lt n s G); exact Lx).
  assert (H2 : (2 <= length (brs_of s v))%nat).
  { apply (two_in_length bx by_); auto; apply (g_bycr n s G); auto. }
  repeat split; auto.
  unfold at_least_one_fork. rewrite (g_nvals n s G). apply Nat.ltb_lt.
  (* if nbr = n, every creator has at most one branch *)
  destruct (Nat.lt_ge_cases n (nbr s)) as [|Hge]; [assumption|exfalso].
  pose proof (g_nb n s G) as Hnb. assert (Hnn : nbr s = n) by lia.
  assert (forall b c, (c < n)%nat -> In b (brs_of s c) -> b = c).
  { intros b c Hc Hb. apply (g_bycr n s G) in Hb; [|exact Hc]. destruct Hb as [Hb Hcb].
    rewrite (g_brcr_init n s G) in Hcb by lia. exact Hcb. }
  assert (bx = v) by (apply H; auto; apply (g_bycr n s G); auto).
  assert (by_ = v) by (apply H; auto; apply (g_bycr n s G); auto). congruence.
Qed.

End GConsequences.

Section Consequences.
Variable n : nat.
Variable s : vidx.
Hypothesis I : vinv n s.
Let E := evs s.
Let G := v_g n s I.

(* ---------- an unmarked entry whose maximum reaches the lowest descendant of B witnesses "between" ---------- *)
Lemma seenb_evt A b x : seenb s A b x -> exists ex, evt s x ex.
Proof. intros [H _]. apply reach_in_r in H. exact H. Qed.

Lemma counted_iff a b ea eb av bv br :
  evt s a ea -> evt s b eb -> alookup a (hb s) = Some av -> alookup b (la s) = Some bv -> (br < nbr s)%nat ->
  (fc_cond av bv br = true
   <-> exists x ex, reach E a x /\ evt s x ex /\ onbr s x br /\ reach E x b /\ ~ SeesFork E a (crb s br)).
Proof.
  intros Ea Eb Ha Hb Hbr.
  pose proof (v_hb n s I a ea av br Ea Ha) as HB. pose proof (v_la n s I b eb bv br Eb Hb) as LA.
  unfold fc_cond. rewrite !andb_true_iff, !negb_true_iff, N.leb_le, N.eqb_neq. split.
  - intros ((Hle & Hnz) & Hnf).
    destruct HB as [[Hf _]|(_ & Htr & Hcompl)]; [congruence|].
    destruct LA as [[Hz _]|(z & [Rz Bz] & Sz & Hmin)]; [contradiction|].
    destruct Htr as [[Hnone Hfst]|(hi & lo & [Rhi Bhi] & _ & Shi & _ & _)].
    + lia.
    + destruct (reach_in_l _ _ _ Rz) as [ez Ez]. destruct (reach_in_r _ _ _ Rhi) as [ehi Ehi].
      rewrite (seqv_evt s z ez Ez) in Sz. rewrite (seqv_evt s hi ehi Ehi) in Shi.
      assert (Rhz : reach E hi z) by (eapply (branch_chain n s G z ez hi ehi br); eauto; lia).
      exists hi, ehi. repeat split; auto.
      * eapply reach_trans; eauto.
      * intros HS. eapply (Hcompl HS hi). split; eauto.
  - intros (x & ex & Rx & Ex & Bx & Rxb & Hns).
    destruct HB as [(_ & _ & HS)|(Hnf & Htr & _)]; [contradiction|].
    assert (Sx : seenb s a br x) by (split; auto).
    assert (Dx : descb s b br x) by (split; auto).
    destruct LA as [[_ Hnone]|(z & Dz & Sz & Hmin)]; [exfalso; eapply Hnone; eauto|].
    destruct Htr as [[Hnone _]|(hi & lo & _ & _ & _ & _ & Hrng)]; [exfalso; eapply Hnone; eauto|].
    specialize (Hrng x Sx). specialize (Hmin x Dx).
    destruct Dz as [Rz Bz]. destruct (reach_in_l _ _ _ Rz) as [ez Ez]. rewrite (seqv_evt s z ez Ez) in Sz.
    pose proof (v_ev n s I z ez Ez) as (_ & Hz1 & _).
    repeat split; auto; lia.
Qed.

(* the Counter: de-duplicated by creator *)
Lemma counted_fold (cond : nat -> bool) (cr : nat -> nat) (l : list nat) (cnt : list bool) v :
  nth v (fold_left (fun cnt br => if cond br then set_nth false cnt (cr br) true else cnt) l cnt) false = true
  <-> nth v cnt false = true \/ exists br, In br l /\ cond br = true /\ cr br = v.
Proof.
  revert cnt; induction l as [|b l IH]; intros cnt; cbn [fold_left].
  - split; [auto|intros [H|(br & [] & _)]; exact H].
  - rewrite IH. clear IH.
    assert (Hl : (exists br, In br l /\ cond br = true /\ cr br = v) -> exists br, In br (b :: l) /\ cond br = true /\ cr br = v).
    { intros (br & Hbr & H1 & H2). exists br. split; [right; exact Hbr|auto]. }
    destruct (cond b) eqn:Hc.
    + rewrite nth_set_nth. destruct (Nat.eqb_spec v (cr b)) as [->|Hne].
      * split; [intros _; right; exists b; split; [left; reflexivity|auto]|intros _; left; reflexivity].
      * split.
        -- intros [H|H]; [left; exact H|right; apply Hl; exact H].
        -- intros [H|(br & [<-|Hbr] & H1 & H2)]; [left; exact H|congruence|right; exists br; auto].
    + split.
      * intros [H|H]; [left; exact H|right; apply Hl; exact H].
      * intros [H|(br & [<-|Hbr] & H1 & H2)]; [left; exact H|congruence|right; exists br; auto].
Qed.
Lemma counted_length (cond : nat -> bool) (cr : nat -> nat) (l : list nat) (cnt : list bool) :
  (forall br, In br l -> (cr br < length cnt)%nat) ->
  length (fold_left (fun cnt br => if cond br then set_nth false cnt (cr br) true else cnt) l cnt) = length cnt.
Proof.
  revert cnt; induction l as [|b l IH]; intros cnt H; cbn [fold_left]; [reflexivity|].
  rewrite IH.
  - destruct (cond b); [|reflexivity]. apply set_nth_length_in. apply H. left. reflexivity.
  - intros br Hbr. assert (Hb : (cr b < length cnt)%nat) by (apply H; left; reflexivity).
    assert (Hr : (cr br < length cnt)%nat) by (apply H; right; exact Hbr).
    destruct (cond b); [rewrite set_nth_length_in by exact Hb|]; exact Hr.
Qed.

(* ---------- C05 at the query level ---------- *)
Theorem fc_eq_spec ws q a b ea eb : 0 < q -> evt s a ea -> evt s b eb ->
  fc ws q s a b = fc_spec ws q n E a b.
Proof.
  intros Hq Ea Eb.
  destruct (v_keys n s I a ea Ea) as ((av & Ha) & _ & _).
  destruct (v_keys n s I b eb Eb) as (_ & (bv & Hb) & (bbr & Hbb)).
  destruct (v_br n s I b eb bbr Eb Hbb) as (Lb & Cb & _).
  rewrite fc_unfold. unfold fc_spec. fold E. rewrite Ha, Hb. unfold onbr in Hbb. rewrite Hbb. unfold evt in Eb. fold E in Eb. rewrite Eb.
  (* the counted list is the specification's list *)
  set (specl := map _ (List.seq 0 n)).
  assert (Hlen : length (fc_counted s av bv) = n).
  { unfold fc_counted. rewrite (counted_length (fc_cond av bv) (crb s)).
    - rewrite repeat_length. apply (v_nvals n s I).
    - intros br Hbr. apply in_seq in Hbr. rewrite repeat_length, (v_nvals n s I). apply (v_brcr_lt n s I). lia. }
  assert (Hcnt : fc_counted s av bv = specl).
  { apply (nth_ext _ _ false false).
    - rewrite Hlen. unfold specl. rewrite map_length, seq_length. reflexivity.
    - intros v Hv. rewrite Hlen in Hv.
      apply eq_true_iff_eq. unfold fc_counted. rewrite (counted_fold (fc_cond av bv) (crb s)).
      unfold specl. rewrite nth_map_seq_gen by exact Hv.
      rewrite fc_spec_counted. split.
      + intros [Hrep|(br & Hbr & Hc & Hcr)].
        * rewrite nth_repeat_false in Hrep. discriminate.
        * apply in_seq in Hbr. apply (counted_iff a b ea eb av bv br Ea Eb Ha Hb ltac:(lia)) in Hc.
          destruct Hc as (x & ex & Rx & Ex & Bx & Rxb & Hns). rewrite Hcr in Hns.
          split; [exact Hns|]. exists x, ex. repeat split; auto.
          destruct (v_br n s I x ex br Ex Bx) as (_ & Hc & _). congruence.
      + intros (Hns & x & ex & Rx & Ex & Cx & Rxb). right.
        destruct (v_keys n s I x ex Ex) as (_ & _ & br & Bx).
        destruct (v_br n s I x ex br Ex Bx) as (Lbr & Hc & _).
        exists br. split; [apply in_seq; lia|]. split; [|congruence].
        apply (counted_iff a b ea eb av bv br Ea Eb Ha Hb Lbr).
        exists x, ex. repeat split; auto. rewrite Hc, Cx. exact Hns. }
  rewrite Hcnt. clear Hcnt Hlen.
  pose proof (v_hb n s I a ea av bbr Ea Ha) as HB. unfold HBok in HB. rewrite Cb in HB.
  destruct (at_least_one_fork s && is_fork (hb_get av bbr)) eqn:Hchk.
  - (* B's creator is seen forking *)
    apply andb_true_iff in Hchk. destruct Hchk as [_ Hf].
    destruct HB as [(_ & _ & HS)|[Hnf _]]; [|congruence].
    apply sees_fork_anc in HS. fold E in HS. rewrite HS. reflexivity.
  - destruct (sees_fork E (anc E a) (ecr eb)) eqn:HS; cbn [negb andb]; [|reflexivity].
    apply sees_fork_anc in HS.
    destruct HB as [[Hf _]|(_ & _ & Hcompl)].
    + destruct (SeesFork_two_branches n s G a (ecr eb) HS) as (_ & _ & Halof). rewrite Halof, Hf in Hchk. discriminate.
    + (* branch of b invisible from a: nothing is between *)
      replace specl with (repeat false n).
      * rewrite wsum_repeat_false. destruct (N.leb_spec q 0); [lia|reflexivity].
      * symmetry. apply (nth_ext _ _ false false).
        -- unfold specl. rewrite map_length, seq_length, repeat_length. reflexivity.
        -- unfold specl. rewrite map_length, seq_length. intros v Hv. rewrite nth_map_seq_gen by exact Hv.
           rewrite nth_repeat_false.
           match goal with |- ?X = false => destruct X eqn:HX; [|reflexivity] end.
           apply fc_spec_counted in HX. destruct HX as (_ & x & ex & Rx & Ex & _ & Rxb).
           exfalso. apply (Hcompl HS b). split; [eapply reach_trans; eauto|exact Hbb].
Qed.

End Consequences.
