(* C28 — proofs, part 3: conflicting accesses are ORDERED BY THE LOCK.
   If thread t performs a body step inside its critical section and later another thread t' performs one,
   and at least one of the two sections is exclusive, then between the two accesses t released the mutex
   (Unlock, or Cond.Wait which unlocks) and, after that, t' acquired it:
       access(t) ... Rel t | Wait t ... Acq t' ... access(t').
   (program order, then the release/acquire pair of the mutex, then program order = happens-before). *)
From Coq Require Import List Arith Lia.
From LV Require Import model.Lin proofs.LinSim.
Import ListNotations.

Section HB.
  Variables state op ret local : Type.
  Variable linit : op -> local.
  Variable mstep : op -> local -> state -> local * state.
  Variable fin : op -> local -> option ret.
  Variable waits : op -> local -> bool.
  Variable wstep : op -> local -> local.
  Variable kind : op -> lkind.
  Variable s0 : state.

  Hypothesis Hshared : shared_readonly state op local mstep kind.
  Hypothesis Hnone : none_stateless state op local mstep kind.
  Hypothesis Hwexcl : wait_excl op local waits kind.
  Variable resumable : op -> local -> Prop.
  Hypothesis Hres : resumable_inv state op ret local linit mstep fin waits wstep resumable.

  Notation config := (config state op ret local).
  Notation action := (action op ret).
  Notation step := (step state op ret local linit mstep fin waits wstep kind).
  Notation exec := (exec state op ret local linit mstep fin waits wstep kind s0).
  Notation upd := (upd op ret local).

  Notation run := (run state op ret local linit mstep fin waits wstep kind).

  Lemma exec_run : forall pre c seg c', exec pre c -> run c seg c' -> exec (pre ++ seg) c'.
  Proof.
    intros pre c seg c' Hex Hrun; revert pre Hex.
    induction Hrun as [c|c a c1 tr c2 Hs Hr IH]; intros pre Hex.
    - now rewrite app_nil_r.
    - replace (pre ++ a :: tr) with ((pre ++ [a]) ++ tr) by (rewrite <- app_assoc; reflexivity).
      apply IH. eapply e_snoc; eauto.
  Qed.

  Lemma run_app : forall c s1 c1 s2 c2, run c s1 c1 -> run c1 s2 c2 -> run c (s1 ++ s2) c2.
  Proof. intros c s1 c1 s2 c2 H1 H2; induction H1; simpl; auto. econstructor; eauto. Qed.

  Lemma run_split : forall s1 s2 c c2, run c (s1 ++ s2) c2 -> exists c1, run c s1 c1 /\ run c1 s2 c2.
  Proof.
    induction s1 as [|a s1 IH]; simpl; intros s2 c c2 H.
    - exists c; split; [constructor|exact H].
    - inversion H as [|? ? c1 ? ? Hs Hr]; subst. destruct (IH _ _ _ Hr) as [cm [H1 H2]].
      exists cm; split; auto. econstructor; eauto.
  Qed.

  Lemma upd_same' : forall f t v, upd f t v t = v.
  Proof. intros; unfold Lin.upd; now rewrite Nat.eqb_refl. Qed.
  Lemma upd_other' : forall f t v t', t' <> t -> upd f t v t' = f t'.
  Proof. intros f t v t' H; unfold Lin.upd. apply Nat.eqb_neq in H. now rewrite H. Qed.

  (* the thread an action belongs to *)
  Definition actor (a : action) : tid :=
    match a with Inv _ _ t _ | Acq _ _ t | Body _ _ t | Wait _ _ t | Rel _ _ t | Ret _ _ t _ => t end.

  Lemma step_other : forall c a c' t, step c a c' -> actor a <> t -> th _ _ _ _ c' t = th _ _ _ _ c t.
  Proof. intros c a c' t Hs Hne; destruct Hs; simpl in *; now rewrite upd_other' by auto. Qed.

  (* the actions by which t gives the mutex up *)
  Definition leaves (t : tid) (a : action) : Prop := a = Rel _ _ t \/ a = Wait _ _ t.

  (* inside a critical section the only actions of the thread are body steps, the release and the wait *)
  Lemma step_incs : forall c a c' t o l, step c a c' -> th _ _ _ _ c t = InCS _ _ _ o l -> actor a = t ->
    (a = Body _ _ t /\ exists l', th _ _ _ _ c' t = InCS _ _ _ o l') \/ leaves t a.
  Proof.
    intros c a c' t o l Hs Hcs Ha; destruct Hs; simpl in *; subst; try congruence.
    - left. split; auto. rewrite upd_same'. rewrite Hcs in H. inversion H; subst. eauto.
    - right; now right.
    - right; now left.
  Qed.

  (* (iii) without a release the thread stays in the same critical section *)
  Lemma stays_incs : forall c seg c', run c seg c' -> forall t o l,
    th _ _ _ _ c t = InCS _ _ _ o l -> ~ Exists (leaves t) seg -> exists l', th _ _ _ _ c' t = InCS _ _ _ o l'.
  Proof.
    intros c seg c' Hrun; induction Hrun as [c|c a c1 tr c2 Hs Hr IH]; intros t o l Hcs Hno.
    - eauto.
    - destruct (Nat.eq_dec (actor a) t) as [Ea|Hne].
      + destruct (step_incs _ _ _ _ _ _ Hs Hcs Ea) as [[_ [l' Hcs']]|Hrel].
        * eapply IH; [exact Hcs'|]. intro Hin; apply Hno; now apply Exists_cons_tl.
        * exfalso; apply Hno; now apply Exists_cons_hd.
      + eapply IH.
        * rewrite (step_other _ _ _ _ Hs Hne). exact Hcs.
        * intro Hin; apply Hno; now apply Exists_cons_tl.
  Qed.

  (* (ii) a thread gets into a critical section of a given class only by acquiring *)
  Definition in_cs_where (p : op -> bool) (c : config) (t : tid) : Prop :=
    exists o l, th _ _ _ _ c t = InCS _ _ _ o l /\ p o = true.

  Lemma in_cs_where_dec : forall p c t, in_cs_where p c t \/ ~ in_cs_where p c t.
  Proof.
    intros p c t. unfold in_cs_where. destruct (th _ _ _ _ c t) as [|o l|o l|o r] eqn:E;
      try (right; intros [o' [l' [H _]]]; discriminate).
    destruct (p o) eqn:Ep.
    - left; eauto.
    - right; intros [o' [l' [H Hp]]]. inversion H; subst. congruence.
  Qed.

  Lemma enters_by_acq : forall (p : op -> bool) c seg c', run c seg c' -> forall t,
    ~ in_cs_where p c t -> in_cs_where p c' t -> exists s1 s2, seg = s1 ++ Acq _ _ t :: s2.
  Proof.
    intros p c seg c' Hrun; induction Hrun as [c|c a c1 tr c2 Hs Hr IH]; intros t Hnot Hin.
    - contradiction.
    - destruct (in_cs_where_dec p c1 t) as [Hin1|Hnot1].
      + (* entered by this very step: it must be Acq t *)
        assert (Ha : a = Acq _ _ t).
        { destruct Hin1 as [o [l [Hcs Hp]]].
          destruct (Nat.eq_dec (actor a) t) as [Ea|Hne].
          - destruct Hs as [c t0 o0 Hidle | c t0 o0 l0 Hinv Hk Hfree | c t0 o0 l0 Hinv Hk Hfree
                           | c t0 o0 l0 l1 s1 Hcs0 Hfin Hnw Hms | c t0 o0 l0 Hcs0 Hfin Hw
                           | c t0 o0 l0 l1 s1 Hinv Hk Hfin Hnw Hms
                           | c t0 o0 l0 r Hcs0 Hfin | c t0 o0 l0 r Hinv Hk Hfin | c t0 o0 r Hrel];
              simpl in *; subst; rewrite upd_same' in Hcs; try discriminate; auto.
            (* body inside the section: was already inside *)
            exfalso; apply Hnot. inversion Hcs; subst. exists o, l0; auto.
          - exfalso; apply Hnot. rewrite (step_other _ _ _ _ Hs Hne) in Hcs. exists o, l; auto. }
        exists [], tr. now rewrite Ha.
      + destruct (IH t Hnot1 Hin) as [s1 [s2 E]]. exists (a :: s1), s2. now rewrite E.
  Qed.

  (* does this action give up t's mutex?  (no decidable equality on op / ret is needed) *)
  Lemma leaves_dec : forall (a : action) t, leaves t a \/ ~ leaves t a.
  Proof.
    intros a t; unfold leaves; destruct a as [t0 o0|t0|t0|t0|t0|t0 r0];
      try (right; intros [H|H]; discriminate);
      destruct (Nat.eq_dec t0 t) as [->|Hne]; auto;
      right; intros [H|H]; inversion H; contradiction.
  Qed.

  Lemma exists_leaves_dec : forall (seg : list action) t, Exists (leaves t) seg \/ ~ Exists (leaves t) seg.
  Proof.
    induction seg as [|a seg IH]; intro t; [right; intro H; inversion H|].
    destruct (leaves_dec a t) as [E|Hne]; [left; now apply Exists_cons_hd|].
    destruct (IH t) as [H|H]; [left; now apply Exists_cons_tl|right; intro H'; inversion H'; auto].
  Qed.

  (* first time t gives the mutex up in a segment *)
  Lemma first_leave : forall (seg : list action) t,
    Exists (leaves t) seg -> exists s1 x s2, seg = s1 ++ x :: s2 /\ leaves t x /\ ~ Exists (leaves t) s1.
  Proof.
    induction seg as [|a seg IH]; intros t Hin; [inversion Hin|].
    destruct (leaves_dec a t) as [Ea|Hne].
    - exists [], a, seg; split; [reflexivity|]. split; auto. intro H; inversion H.
    - inversion Hin as [? ? H|? ? H]; subst; [contradiction|].
      destruct (IH t H) as [s1 [x [s2 [E [Hx Hno]]]]]. exists (a :: s1), x, s2. split; [now rewrite E|].
      split; auto. intro H'; inversion H'; auto.
  Qed.

  Lemma mx : forall tr c t o l t' o' l', exec tr c -> th _ _ _ _ c t = InCS _ _ _ o l -> kind o = KExcl ->
    t' <> t -> th _ _ _ _ c t' = InCS _ _ _ o' l' -> False.
  Proof.
    intros tr c t o l t' o' l' He H1 Hk Hne H2.
    apply (mutual_exclusion state op ret local linit mstep fin waits wstep kind s0 Hshared Hnone Hwexcl resumable Hres tr c t o l He H1 Hk t' Hne).
    now exists o', l'.
  Qed.

  Definition is_excl (o : op) : bool := match kind o with KExcl => true | _ => false end.

  (* the theorem *)
  Theorem conflicts_ordered : forall pre c0 c1 mid c2 t t' o l o' l',
    exec pre c0 -> th _ _ _ _ c0 t = InCS _ _ _ o l -> step c0 (Body _ _ t) c1 ->     (* first access, by t *)
    run c1 mid c2 -> th _ _ _ _ c2 t' = InCS _ _ _ o' l' ->                           (* second access enabled, by t' *)
    t <> t' -> kind o = KExcl \/ kind o' = KExcl ->
    exists m1 x m2 m3, mid = m1 ++ x :: m2 ++ Acq _ _ t' :: m3 /\ leaves t x.
  Proof.
    intros pre c0 c1 mid c2 t t' o l o' l' Hex Hcs Hstep Hrun Hcs' Hne Hconf.
    assert (Hex1 : exec (pre ++ [Body _ _ t]) c1) by (eapply e_snoc; eauto).
    (* t is still inside its section after the body step *)
    assert (Hcs1 : exists l1, th _ _ _ _ c1 t = InCS _ _ _ o l1).
    { destruct (step_incs _ _ _ _ _ _ Hstep Hcs eq_refl) as [[_ H]|[H|H]]; [exact H|discriminate|discriminate]. }
    destruct Hcs1 as [l1 Hcs1].
    (* mutual exclusion at a reachable configuration *)
    assert (Hmx : forall tr c lt lt', exec tr c -> th _ _ _ _ c t = InCS _ _ _ o lt ->
                    th _ _ _ _ c t' = InCS _ _ _ o' lt' -> False).
    { intros tr c lt lt' He H1 H2. destruct Hconf as [Hk|Hk].
      - exact (mx tr c t o lt t' o' lt' He H1 Hk (not_eq_sym Hne) H2).
      - exact (mx tr c t' o' lt' t o lt He H2 Hk Hne H1). }
    (* 1. t must release inside mid *)
    assert (Hrel : Exists (leaves t) mid).
    { destruct (exists_leaves_dec mid t) as [Hin|Hno]; auto. exfalso.
      destruct (stays_incs _ _ _ Hrun t o l1 Hcs1 Hno) as [l2 Hcs2].
      eapply (Hmx (pre ++ [Body _ _ t] ++ mid) c2); eauto.
      rewrite app_assoc. eapply exec_run; eauto. }
    destruct (first_leave mid t Hrel) as [m1 [x [rest [E [Hlv Hno1]]]]]. subst mid.
    destruct (run_split _ _ _ _ Hrun) as [cu [Hrun1 Hrun2]].
    destruct (stays_incs _ _ _ Hrun1 t o l1 Hcs1 Hno1) as [lu Hcsu].
    assert (Hexu : exec ((pre ++ [Body _ _ t]) ++ m1) cu) by (eapply exec_run; eauto).
    (* 2. at the release, t' is not inside the section it is in at the second access (of that class) *)
    set (p := fun y : op => if is_excl o then true else is_excl y).
    assert (Hnot : ~ in_cs_where p cu t').
    { intros [ox [lx [Hx Hp]]]. unfold p in Hp.
      destruct (is_excl o) eqn:Eo.
      - (* t exclusive: nobody else inside *)
        unfold is_excl in Eo. destruct (kind o) eqn:Hk; try discriminate.
        exact (mx _ cu t o lu t' ox lx Hexu Hcsu Hk (not_eq_sym Hne) Hx).
      - (* t shared: no exclusive thread inside *)
        unfold is_excl in Hp. destruct (kind ox) eqn:Hk; try discriminate.
        exact (mx _ cu t' ox lx t o lu Hexu Hx Hk Hne Hcsu). }
    assert (Hin : in_cs_where p c2 t').
    { exists o', l'; split; auto. unfold p. destruct (is_excl o) eqn:Eo; auto.
      unfold is_excl in *. destruct Hconf as [Hk|Hk]; rewrite Hk in *; [discriminate|reflexivity]. }
    (* the release itself does not move t' *)
    inversion Hrun2 as [|? ? cv ? ? Hs Hr]; subst.
    assert (Hact : actor x = t) by (destruct Hlv as [-> | ->]; reflexivity).
    assert (Hnotv : ~ in_cs_where p cv t').
    { intros [ox [lx [Hxx Hp]]]. apply Hnot. exists ox, lx; split; auto.
      rewrite <- (step_other _ _ _ t' Hs); [exact Hxx | rewrite Hact; auto]. }
    destruct (enters_by_acq p _ _ _ Hr t' Hnotv Hin) as [m2 [m3 E]].
    exists m1, x, m2, m3. split; [now rewrite E|exact Hlv].
  Qed.
End HB.
