(* C23 (and the "all reachable states" part of C22/C24): for every stack of stores and every
   sequence of operations of spec/KvOps.v, the model run (KvStack.run) and the specification run
   (KvStackSpec.spec_run) produce the same observations. *)
From Coq Require Import NArith List Lia Bool Arith.
From LV Require Import lib.Bytes lib.BytesFacts lib.Lex lib.SortedMap spec.KvSpec spec.KvOps spec.KvStackSpec
  model.PrefixRange model.Table model.Flushable model.KvStack
  proofs.FlushableIter proofs.TableView proofs.PrefixRangeProofs proofs.KvStackReads proofs.KvStackWrites.
Import ListNotations.

(* ---------- addressing ---------- *)

Lemma R_sub d : forall s ss, R s ss -> R (st_sub d s) (ssub d ss).
Proof.
  induction d as [|d IH]; intros s ss H; [exact H|].
  destruct s as [e m|o|o u|p u|u|o i u]; destruct ss as [m'|log su|p' su|su|log i' su]; cbn in *; try tauto.
  - apply IH. tauto.
  - apply IH. tauto.
  - now apply IH.
  - apply IH. tauto.
Qed.

Lemma R_upd d f g : forall s ss, R s ss ->
  R (f (st_sub d s)) (g (ssub d ss)) -> R (st_upd d f s) (supd d g ss).
Proof.
  induction d as [|d IH]; intros s ss H Hf; [exact Hf|].
  destruct s as [e m|o|o u|p u|u|o i u]; destruct ss as [m'|log su|p' su|su|log i' su]; cbn in *; try tauto.
  - destruct H as (So & Wo & Hl & Ru). repeat split; auto.
  - destruct H as (E & Wp & Ru). repeat split; auto.
  - auto.
  - destruct H as (E & So & Wo & Hl & Ru). repeat split; auto.
Qed.

Definition h_wf (h : handle) : Prop := Forall (fun p => wf_bytes p = true) (h_path h).

Lemma R_wrap path : forall u su, Forall (fun p => wf_bytes p = true) path -> R u su ->
  R (hwrap path u) (swrap path su).
Proof.
  unfold hwrap, swrap. induction path as [|p path IH]; intros u su F H; cbn; auto.
  inversion F; subst. apply IH; auto. cbn. auto.
Qed.

Lemma R_unwrap n : forall x y, R x y -> R (hunwrap n x) (sunwrap n y).
Proof.
  induction n as [|n IH]; intros x y H; [exact H|].
  destruct x as [e m|o|o u|p u|u|o i u]; destruct y as [m'|log su|p' su|su|log i' su]; cbn in *; try tauto.
  apply IH. tauto.
Qed.

Lemma R_h_view h s ss : h_wf h -> R s ss -> R (h_view h s) (sh_view h ss).
Proof. intros W H. unfold h_view, sh_view. apply R_wrap; auto. now apply R_sub. Qed.

Lemma R_h_upd h f g s ss : h_wf h -> R s ss ->
  R (f (h_view h s)) (g (sh_view h ss)) -> R (h_upd h f s) (sh_upd h g ss).
Proof.
  intros W H Hf. unfold h_upd, sh_upd. apply R_upd; auto. now apply R_unwrap.
Qed.

(* ---------- the skeleton of a stack never changes ---------- *)

Fixpoint sk (a b : st) : Prop :=
  match a, b with
  | Eng e _, Eng e' _ => e = e'
  | Mem _, Mem _ => True
  | Flu _ u, Flu _ u' => sk u u'
  | Tab p u, Tab p' u' => p = p' /\ sk u u'
  | Syn u, Syn u' => sk u u'
  | Lzy _ _ u, Lzy _ _ u' => sk u u'
  | _, _ => False
  end.

Lemma sk_refl a : sk a a.
Proof. induction a; cbn; auto. Qed.

Lemma sk_bwrite s stored : sk (st_bwrite s stored) s.
Proof. induction s; cbn; auto using sk_refl. Qed.

Lemma sk_put s k v : sk (st_put s k v) s.
Proof. rewrite st_put_write. apply sk_bwrite. Qed.
Lemma sk_del s k : sk (st_del s k) s.
Proof. rewrite st_del_write. apply sk_bwrite. Qed.

Lemma sk_flush ideal s : sk (st_flush ideal s) s.
Proof.
  destruct s; cbn; auto using sk_refl; rewrite st_flush_into_write; apply sk_bwrite.
Qed.
Lemma sk_drop s : sk (st_drop s) s.
Proof. destruct s; cbn; auto using sk_refl. Qed.
Lemma sk_init s : sk (st_init s) s.
Proof. destruct s; cbn; auto using sk_refl. Qed.

Lemma sk_upd d f : forall s, sk (f (st_sub d s)) (st_sub d s) -> sk (st_upd d f s) s.
Proof.
  induction d as [|d IH]; intros s H; [exact H|].
  destruct s; cbn in *; auto.
Qed.

Lemma sk_sub d : forall a b, sk a b -> sk (st_sub d a) (st_sub d b).
Proof.
  induction d as [|d IH]; intros a b H; [exact H|].
  destruct a, b; cbn in *; try tauto; apply IH; tauto.
Qed.

Lemma sk_wrap path : forall a b, sk a b -> sk (hwrap path a) (hwrap path b).
Proof.
  unfold hwrap. induction path as [|p path IH]; intros a b H; cbn; auto.
  apply IH. cbn. auto.
Qed.

Lemma sk_unwrap n : forall a b, sk a b -> sk (hunwrap n a) (hunwrap n b).
Proof.
  induction n as [|n IH]; intros a b H; [exact H|].
  destruct a, b; cbn in *; try tauto. apply IH. tauto.
Qed.

Lemma hunwrap_hwrap path : forall u, hunwrap (length path) (hwrap path u) = u.
Proof.
  unfold hwrap. induction path as [|p path IH] using rev_ind; intros u; [reflexivity|].
  rewrite fold_left_app, app_length. cbn [fold_left length]. rewrite Nat.add_1_r. cbn [hunwrap].
  apply IH.
Qed.

Lemma sk_h_view h a b : sk a b -> sk (h_view h a) (h_view h b).
Proof. intros H. unfold h_view. apply sk_wrap. now apply sk_sub. Qed.

Lemma sk_h_upd h f s : sk (f (h_view h s)) (h_view h s) -> sk (h_upd h f s) s.
Proof.
  intros H. unfold h_upd. apply sk_upd.
  rewrite <- (hunwrap_hwrap (h_path h) (st_sub (h_d h) s)) at 2.
  now apply sk_unwrap.
Qed.

Lemma sk_bkey a : forall b k, sk a b -> st_bkey a k = st_bkey b k.
Proof.
  induction a as [e m|o|o u IH|p u IH|u IH|o i u IH]; intros [e' m'|o'|o' u'|p' u'|u'|o' i' u'] k H; cbn in *; try tauto.
  - destruct H as [-> H]. now apply IH.
  - now apply IH.
Qed.

Lemma sk_bop a b w : sk a b -> st_bop a w = st_bop b w.
Proof. intros H. destruct w; cbn; now rewrite (sk_bkey a b _ H). Qed.

(* Replay undoes the prefixing done by batch.Put *)
Lemma st_rkey_bkey s : forall k, st_rkey s (st_bkey s k) = k.
Proof.
  induction s as [e m|o|o u IH|p u IH|u IH|o i u IH]; intros k; cbn; auto.
  rewrite IH. apply no_prefix_prefixed.
Qed.

Lemma st_breplay_bop s l : st_breplay s (map (st_bop s) l) = l.
Proof.
  unfold st_breplay. rewrite map_map. rewrite <- (map_id l) at 2. apply map_ext.
  intros [k v|k]; cbn; now rewrite st_rkey_bkey.
Qed.

(* Replay of a table's batch into ANOTHER batch: the destination stores the source's operations
   re-prefixed with the DESTINATION's own key translation, independent of the source's prefix *)
Theorem replay_into_batch xs xd (ls stored_d : list wop) :
  fold_left (st_badd xd) (st_breplay xs (map (st_bop xs) ls)) stored_d = stored_d ++ map (st_bop xd) ls.
Proof. now rewrite st_badd_fold, st_breplay_bop. Qed.

(* ---------- the run invariant ---------- *)

Definition brel (s : st) (mb sb : handle * list wop) : Prop :=
  fst mb = fst sb /\ h_wf (fst mb) /\
  snd mb = map (st_bop (h_view (fst mb) s)) (snd sb) /\ Forall wop_wf (snd sb).
Definition srel (x : st) (m : kvmap) : Prop := wf_st x /\ view x = m.

Record RS (r : rstate) (sr : sstate) : Prop := {
  rs_store : R (r_store r) (ss_store sr);
  rs_batches : Forall2 (brel (r_store r)) (r_batches r) (ss_batches sr);
  rs_snaps : Forall2 srel (r_snaps r) (ss_snaps sr);
  rs_lives : r_lives r = ss_lives sr
}.

Lemma brel_sk s s' mb sb : sk s' s -> brel s mb sb -> brel s' mb sb.
Proof.
  intros K (E & W & M & F). repeat split; auto. rewrite M. apply map_ext.
  intros w. symmetry. apply sk_bop. now apply sk_h_view.
Qed.

Lemma batches_sk s s' l1 l2 : sk s' s -> Forall2 (brel s) l1 l2 -> Forall2 (brel s') l1 l2.
Proof. intros K H. induction H; constructor; eauto using brel_sk. Qed.

Lemma brel_default s : brel s (h0, []) (h0, []).
Proof. repeat split; cbn; try constructor. Qed.

Lemma Forall2_nth {A B} (P : A -> B -> Prop) l1 l2 d1 d2 n :
  Forall2 P l1 l2 -> P d1 d2 -> P (nth n l1 d1) (nth n l2 d2).
Proof. intros H D. revert n. induction H; intros [|n]; cbn; auto. Qed.

Lemma Forall2_set_nth {A B} (P : A -> B -> Prop) d1 d2 x y : P d1 d2 -> P x y ->
  forall n l1 l2, Forall2 P l1 l2 -> Forall2 P (set_nth n x d1 l1) (set_nth n y d2 l2).
Proof.
  intros D X. induction n as [|n IH]; intros l1 l2 H.
  - destruct H; cbn; constructor; auto.
  - destruct H; cbn; constructor; auto.
Qed.

Lemma Forall2_nth_error {A B} (P : A -> B -> Prop) l1 l2 n : Forall2 P l1 l2 ->
  match nth_error l1 n, nth_error l2 n with
  | Some a, Some b => P a b
  | None, None => True
  | _, _ => False
  end.
Proof.
  intros H. revert n. induction H as [|a b l1 l2 Hab H IH]; intros [|n]; cbn; auto.
  apply IH.
Qed.

(* ---------- well-formed operations ---------- *)

Definition op_wf (o : op) : Prop :=
  match o with
  | OPut h k _ => h_wf h /\ wf_bytes k = true
  | ODel h k => h_wf h /\ wf_bytes k = true
  | OGet h _ => h_wf h
  | OHas h _ => h_wf h
  | OIter h p _ => h_wf h /\ wf_bytes (ob p) = true
  | OBNew _ h => h_wf h
  | OBPut _ k _ => wf_bytes k = true
  | OBDel _ k => wf_bytes k = true
  | OSnap h => h_wf h
  | OSIter _ p _ => wf_bytes (ob p) = true
  | OLit _ h p _ => h_wf h /\ wf_bytes (ob p) = true
  | _ => True
  end.

Definition erase (o : obs) : obs :=
  match o with BCompact _ => BNone | BCompactErr _ => BNone | BStat _ => BNone | x => x end.

Lemma R_put x y k v : wf_bytes k = true -> R x y -> R (st_put x k v) (swrite y [WPut k v]).
Proof.
  intros W H. rewrite st_put_write. apply R_write; auto; try (constructor; [exact W|constructor]).
Qed.
Lemma R_del x y k : wf_bytes k = true -> R x y -> R (st_del x k) (swrite y [WDel k]).
Proof.
  intros W H. rewrite st_del_write. apply R_write; auto; try (constructor; [exact W|constructor]).
Qed.

Lemma step1_refines ideal r sr o : RS r sr -> op_wf o ->
  RS (fst (run_op1 ideal r o)) (fst (spec_run_op1 sr o)) /\
  map erase (snd (run_op1 ideal r o)) = snd (spec_run_op1 sr o).
Proof.
  intros [HR HB HS HL] W.
  destruct o as [h k v|h k|h k|h k|h p s0|b h|b k v|b k|b|b|b|d|d|d|h|i k|i k|i p s0|h a l|h a l|i h p s0|i n|i|h pr|b1 b2|d];
    cbn [op_wf] in W.
  - (* put *) destruct W as [Wh Wk]. cbn. split; [|reflexivity].
    assert (K : sk (h_upd h (fun x => st_put x k v) (r_store r)) (r_store r))
      by (apply sk_h_upd, sk_put).
    constructor; cbn; auto.
    + apply R_h_upd; auto. apply R_put; auto. now apply R_h_view.
    + eapply batches_sk; eauto.
  - (* del *) destruct W as [Wh Wk]. cbn. split; [|reflexivity].
    assert (K : sk (h_upd h (fun x => st_del x k) (r_store r)) (r_store r))
      by (apply sk_h_upd, sk_del).
    constructor; cbn; auto.
    + apply R_h_upd; auto. apply R_del; auto. now apply R_h_view.
    + eapply batches_sk; eauto.
  - (* get *) cbn. split; [constructor; auto|].
    pose proof (R_h_view h _ _ W HR) as Hv.
    rewrite (st_get_view _ _ (R_wf _ _ Hv)), (R_view _ _ Hv). reflexivity.
  - (* has *) cbn. split; [constructor; auto|].
    pose proof (R_h_view h _ _ W HR) as Hv.
    rewrite (st_has_view _ _ (R_wf _ _ Hv)), (R_view _ _ Hv). reflexivity.
  - (* iter *) destruct W as [Wh Wp]. cbn. split; [constructor; auto|].
    pose proof (R_h_view h _ _ Wh HR) as Hv.
    rewrite (st_iter_view _ _ _ (R_wf _ _ Hv) Wp), (R_view _ _ Hv). reflexivity.
  - (* bnew *) cbn. split; [|reflexivity]. constructor; cbn; auto.
    apply Forall2_set_nth; auto using brel_default.
    repeat split; cbn; auto.
  - (* bput *) unfold run_op1, spec_run_op1.
    pose proof (Forall2_nth _ _ _ _ _ b HB (brel_default (r_store r))) as Hb.
    unfold get_batch, sget_batch.
    destruct (nth b (r_batches r) (h0, [])) as [h stored].
    destruct (nth b (ss_batches sr) (h0, [])) as [h' l].
    destruct Hb as (E & Wh & M & F). cbn in E, Wh, M, F. subst h'. cbn [fst snd map].
    split; [|reflexivity]. constructor; cbn; auto.
    apply Forall2_set_nth; auto using brel_default.
    repeat split; cbn; auto.
    + unfold st_badd. now rewrite M, map_app.
    + apply Forall_app. split; auto; repeat constructor; exact W.
  - (* bdel *) unfold run_op1, spec_run_op1.
    pose proof (Forall2_nth _ _ _ _ _ b HB (brel_default (r_store r))) as Hb.
    unfold get_batch, sget_batch.
    destruct (nth b (r_batches r) (h0, [])) as [h stored].
    destruct (nth b (ss_batches sr) (h0, [])) as [h' l].
    destruct Hb as (E & Wh & M & F). cbn in E, Wh, M, F. subst h'. cbn [fst snd map].
    split; [|reflexivity]. constructor; cbn; auto.
    apply Forall2_set_nth; auto using brel_default.
    repeat split; cbn; auto.
    + unfold st_badd. now rewrite M, map_app.
    + apply Forall_app. split; auto; repeat constructor; exact W.
  - (* bwrite *) unfold run_op1, spec_run_op1.
    pose proof (Forall2_nth _ _ _ _ _ b HB (brel_default (r_store r))) as Hb.
    unfold get_batch, sget_batch.
    destruct (nth b (r_batches r) (h0, [])) as [h stored].
    destruct (nth b (ss_batches sr) (h0, [])) as [h' l].
    destruct Hb as (E & Wh & M & F). cbn in E, Wh, M, F. subst h'. cbn [fst snd map].
    split; [|reflexivity].
    assert (K : sk (h_upd h (fun x => st_bwrite x stored) (r_store r)) (r_store r))
      by (apply sk_h_upd, sk_bwrite).
    constructor; cbn; auto.
    + apply R_h_upd; auto. rewrite M. apply (R_write (h_view h (r_store r))); auto.
      now apply R_h_view.
    + eapply batches_sk; eauto.
  - (* breset *) unfold run_op1, spec_run_op1.
    pose proof (Forall2_nth _ _ _ _ _ b HB (brel_default (r_store r))) as Hb.
    unfold get_batch, sget_batch.
    destruct (nth b (r_batches r) (h0, [])) as [h stored].
    destruct (nth b (ss_batches sr) (h0, [])) as [h' l].
    destruct Hb as (E & Wh & M & F). cbn in E, Wh, M, F. subst h'. cbn [fst snd map].
    split; [|reflexivity]. constructor; cbn; auto.
    apply Forall2_set_nth; auto using brel_default.
    repeat split; cbn; auto.
  - (* breplay *) unfold run_op1, spec_run_op1.
    pose proof (Forall2_nth _ _ _ _ _ b HB (brel_default (r_store r))) as Hb.
    unfold get_batch, sget_batch.
    destruct (nth b (r_batches r) (h0, [])) as [h stored].
    destruct (nth b (ss_batches sr) (h0, [])) as [h' l].
    destruct Hb as (E & Wh & M & F). cbn in E, Wh, M, F. subst h'. cbn [fst snd map erase].
    split; [constructor; auto|]. now rewrite M, st_breplay_bop.
  - (* flush *) cbn. split; [|reflexivity].
    assert (K : sk (st_upd d (st_flush ideal) (r_store r)) (r_store r)) by (apply sk_upd, sk_flush).
    constructor; cbn; auto.
    + apply R_upd; auto. apply R_flush. now apply R_sub.
    + eapply batches_sk; eauto.
  - (* drop *) cbn. split; [|reflexivity].
    assert (K : sk (st_upd d st_drop (r_store r)) (r_store r)) by (apply sk_upd, sk_drop).
    constructor; cbn; auto.
    + apply R_upd; auto. apply R_drop. now apply R_sub.
    + eapply batches_sk; eauto.
  - (* nfp *) cbn. split; [constructor; auto|].
    pose proof (R_nfp _ _ (R_sub d _ _ HR)) as H.
    destruct (st_nfp (st_sub d (r_store r))), (snfp (ssub d (ss_store sr))); try contradiction; cbn; congruence.
  - (* snap *) cbn. split; [|reflexivity]. constructor; cbn; auto.
    apply Forall2_app; auto. constructor; [|constructor].
    pose proof (R_h_view h _ _ W HR) as Hv. split; [eapply R_wf; eauto | now apply R_view].
  - (* sget *) cbn. split; [constructor; auto|].
    pose proof (Forall2_nth_error _ _ _ i HS) as H.
    destruct (nth_error (r_snaps r) i), (nth_error (ss_snaps sr) i); try contradiction; auto.
    destruct H as [Wx <-]. cbn. now rewrite st_get_view.
  - (* shas *) cbn. split; [constructor; auto|].
    pose proof (Forall2_nth_error _ _ _ i HS) as H.
    destruct (nth_error (r_snaps r) i), (nth_error (ss_snaps sr) i); try contradiction; auto.
    destruct H as [Wx <-]. cbn. now rewrite st_has_view.
  - (* siter *) cbn. split; [constructor; auto|].
    pose proof (Forall2_nth_error _ _ _ i HS) as H.
    destruct (nth_error (r_snaps r) i), (nth_error (ss_snaps sr) i); try contradiction; auto.
    destruct H as [Wx <-]. cbn. now rewrite st_iter_view.
  - (* compact *) cbn. split; [constructor; auto|reflexivity].
  - (* engine compact *) cbn. split; [constructor; auto|reflexivity].
  - (* live iterator: create *) destruct W as [Wh Wp]. cbn. split; [|reflexivity].
    pose proof (R_h_view h _ _ Wh HR) as Hv.
    constructor; cbn; auto.
    rewrite (st_iter_view _ _ _ (R_wf _ _ Hv) Wp), (R_view _ _ Hv), HL. reflexivity.
  - (* live iterator: next *) cbn. rewrite HL. unfold live_next.
    destruct (nth i (ss_lives sr) None); cbn; (split; [constructor; cbn; auto|reflexivity]).
  - (* live iterator: release *) cbn. split; [|reflexivity]. constructor; cbn; auto. now rewrite HL.
  - (* stat *) cbn. split; [constructor; auto|reflexivity].
  - (* replay into another batch *) unfold run_op1, spec_run_op1.
    pose proof (Forall2_nth _ _ _ _ _ b1 HB (brel_default (r_store r))) as Hb1.
    pose proof (Forall2_nth _ _ _ _ _ b2 HB (brel_default (r_store r))) as Hb2.
    unfold get_batch, sget_batch.
    destruct (nth b1 (r_batches r) (h0, [])) as [h1 st1]. destruct (nth b1 (ss_batches sr) (h0, [])) as [h1' l1].
    destruct (nth b2 (r_batches r) (h0, [])) as [h2 st2]. destruct (nth b2 (ss_batches sr) (h0, [])) as [h2' l2].
    destruct Hb1 as (E1 & Wh1 & M1 & F1). destruct Hb2 as (E2 & Wh2 & M2 & F2).
    cbn in E1, Wh1, M1, F1, E2, Wh2, M2, F2. subst h1' h2'. cbn [fst snd map].
    split; [|reflexivity]. constructor; cbn; auto.
    apply Forall2_set_nth; auto using brel_default.
    repeat split; cbn; auto.
    + rewrite st_badd_fold, M1, st_breplay_bop, M2, map_app. reflexivity.
    + apply Forall_app. split; auto.
  - (* init *) cbn. split; [|reflexivity].
    assert (K : sk (st_upd d st_init (r_store r)) (r_store r)) by (apply sk_upd, sk_init).
    constructor; cbn; auto.
    + apply R_upd; auto. apply R_init. now apply R_sub.
    + eapply batches_sk; eauto.
Qed.

Theorem step_refines lsafe ideal r sr o : RS r sr -> op_wf o ->
  RS (fst (run_op lsafe ideal r o)) (fst (spec_run_op lsafe sr o)) /\
  map erase (snd (run_op lsafe ideal r o)) = snd (spec_run_op lsafe sr o).
Proof.
  intros H W. destruct (step1_refines ideal r sr o H W) as [[HR HB HS HL] E].
  unfold run_op, spec_run_op.
  destruct (run_op1 ideal r o) as [r' om]. destruct (spec_run_op1 sr o) as [sr' os]. cbn in *.
  split; auto. constructor; cbn; auto. now rewrite HL.
Qed.

Lemma run_ops_refines lsafe ideal ops : forall r sr, RS r sr -> Forall op_wf ops ->
  map erase (run_ops lsafe ideal r ops) = spec_run_ops lsafe sr ops.
Proof.
  induction ops as [|o ops IH]; intros r sr H F; [reflexivity|].
  inversion F; subst. cbn [run_ops spec_run_ops].
  destruct (step_refines lsafe ideal r sr o H H2) as [H' E].
  destruct (run_op lsafe ideal r o) as [r' om]. destruct (spec_run_op lsafe sr o) as [sr' os]. cbn in H', E.
  rewrite map_app, E. f_equal. now apply IH.
Qed.

Theorem run_refines lsafe ideal s0 ss0 ops : R s0 ss0 -> Forall op_wf ops ->
  map erase (run lsafe ideal s0 ops) = spec_run lsafe ss0 ops.
Proof.
  intros H F. unfold run, spec_run. apply run_ops_refines; auto.
  constructor; cbn; auto.
Qed.
