(* L1, brick 3b: one Election.ProcessRoot against the rule-level votes of the reference.
   Invariant EI (the L1 invariant of DESIGN 5 C10, for one election = one frame-to-decide f0):
     (a) every voted root slot (n, f), f > f0, has for every not yet decided subject u a vote
         votes[(slot, u)] whose yes-bit is BftCore.vote (f - f0) n u and whose observed root, if yes,
         is the id of a root of u in frame f0 that a first-round root forkless-causes;
     (b) decided[u] = vt  =>  some root decides u with vt_yes vt (rule level), same naming condition;
     (c) every rule-level decision by a voted slot is recorded in decided.
   process_root_sim: ProcessRoot on slot (n, f) never errs, keeps EI with the slot added to the voted set,
   and returns chooseAtropos of the new tables.  The errors of election.go are excluded by the
   reference's theory: EVoteMissing by (a), EFork2Yes by ref_voted_root_unique, EFork2Count by
   ref_no_two_fork_roots, ENoQuorumPrev by ref_prev_quorum, EAllNo by exists_never_no. *)
From Coq Require Import NArith ZArith List Lia Bool ZifyBool ZifyN ZifyNat.
From LV Require Import lib.Bytes model.Codec model.VecIndex spec.FcSpec model.Abft model.AbftRun spec.ElectionSpec
  lib.WSumBft proofs.AbftFrame proofs.AbftCount proofs.AbftIds proofs.AbftBuild proofs.AbftInvLemmas
  proofs.BftCore proofs.BftElection proofs.BftMono proofs.BftGraph proofs.BftMain proofs.BftRun
  proofs.LinkVals proofs.LinkDefs proofs.LinkSim proofs.LinkTally.
Import ListNotations.
Local Open Scope N_scope.

Lemma NoDup_map_inj_in {A B} (g : A -> B) (l : list A) :
  NoDup l -> (forall x y, In x l -> In y l -> g x = g y -> x = y) -> NoDup (map g l).
Proof.
  induction l as [|a t IH]; intros ND H; cbn [map]; [constructor|].
  apply NoDup_cons_iff in ND as [Hn ND]. constructor.
  - intros Hin. apply in_map_iff in Hin as [y [E Hy]]. apply Hn.
    rewrite (H a y (or_introl eq_refl) (or_intror Hy) (eq_sym E)). exact Hy.
  - apply IH; [exact ND|]. intros x y Hx Hy. apply H; right; assumption.
Qed.
Lemma filter_true {A} (l : list A) : filter (fun _ => true) l = l.
Proof. induction l as [|a t IH]; cbn; [reflexivity | rewrite IH; reflexivity]. Qed.

Section Vote.
Variable cap : nat.
Variable ep : N.
Variable lam : fev -> N.
Variable vals : list (N * N).
Hypothesis Hvals : vals_ok vals.
Variable T : list node.
Hypothesis HwfT : wfT vals T.
Hypothesis Hff : few_forkers vals T.
Variable f0 : N.
Hypothesis f0_pos : 1 <= f0.

Notation ws := (map snd vals).
Notation nv := (length vals).
Notation q := (ElectionSpec.quorum_of ws).
Notation fcn := (fc_n ws q).
Notation rts := (roots_at node nd_fr nd_spf T).
Notation obsT := (obs node nd_fr nd_spf fcn T).
Notation voters := (ElectionSpec.by_cr node nd_cr).
Notation vspec := (vote node nd_cr nd_fr nd_spf fcn ws T f0).
Notation decidesp := (decides node nd_cr nd_fr nd_spf fcn ws q T f0).
Notation yesVp := (yesV node nd_cr nd_fr nd_spf fcn ws T f0).
Notation noVp := (noV node nd_cr nd_fr nd_spf fcn ws T f0).
Notation slot := (slot vals).
Notation Core := (Core ep lam vals).
Notation cache_inv := (cache_inv vals).

Let ND := vals_nodup vals Hvals.
Let VQ := vq_eq vals Hvals.

Lemma rts_in f n : In n (rts f) -> In n T.
Proof. apply roots_in. Qed.
Lemma ws_len : length ws = nv. Proof. apply map_length. Qed.

(* the subject's root of frame f0 that a first-round root forkless-causes *)
Definition names_voted (u : nat) (h : N) : Prop :=
  exists a r1, In a (rts f0) /\ nd_cr a = u /\ h = nd_id a /\ In r1 (rts (f0 + 1)) /\ fcn r1 a = true.
Lemma names_unique u h h' : names_voted u h -> names_voted u h' -> h = h'.
Proof.
  intros (a & r1 & Ia & Ca & -> & I1 & F1) (a' & r1' & Ia' & Ca' & -> & I1' & F1').
  f_equal. apply (ref_voted_root_unique vals T HwfT Hff f0 a a' r1 r1'); eauto using rts_in. congruence.
Qed.

Definition vote_ok (n : node) (f : N) (u : nat) (vt : Abft.vote) : Prop :=
  vt_yes vt = vspec (N.to_nat (f - f0)) n u /\ (vt_yes vt = true -> names_voted u (vt_obs vt)).

Record EI (el : election) (S : root -> Prop) : Prop := {
  ei_frame : el_frame el = f0;
  ei_vals : el_vals el = vals;
  ei_votes : forall n f u, S (slot n f) -> In n (rts f) -> f0 < f -> (u < nv)%nat ->
     alookup (vid vals u) (el_decided el) = None ->
     exists vt, votes_get (slot n f, vid vals u) (el_votes el) = Some vt /\ vote_ok n f u vt;
  ei_dec_sound : forall u vt, (u < nv)%nat -> alookup (vid vals u) (el_decided el) = Some vt ->
     (exists k r, decidesp k r u (vt_yes vt)) /\ (vt_yes vt = true -> names_voted u (vt_obs vt));
  ei_dec_compl : forall n f u b, S (slot n f) -> In n (rts f) -> f0 + 2 <= f -> (u < nv)%nat ->
     decidesp (N.to_nat (f - f0 - 1)) n u b -> alookup (vid vals u) (el_decided el) <> None }.

Lemma EI_reset : EI (el_reset vals f0) (fun _ => False).
Proof.
  constructor; cbn [el_reset el_frame el_vals el_decided el_votes]; try reflexivity.
  - intros n f u [].
  - intros u vt _ H. discriminate.
  - intros n f u b [].
Qed.

(* ---------- sums over the stored roots = sums over the nodes ---------- *)
Lemma slot_val_eq m g i : In m T -> (i < nv)%nat -> (r_val (slot m g) =? vid vals i) = Nat.eqb (nd_cr m) i.
Proof.
  intros Hm Hi. rewrite slot_val. apply eq_true_iff_eq. rewrite N.eqb_eq, Nat.eqb_eq. split; [|intros ->; reflexivity].
  apply (vid_inj vals); auto. apply (cr_lt vals T m HwfT Hm).
Qed.
Lemma sum_by_nodes (P : node -> bool) (Pr : root -> bool) (om : list node) g :
  (forall m, In m om -> In m T) -> (forall m, In m om -> Pr (slot m g) = P m) ->
  vsum vals (fun id => existsb (fun r => (r_val r =? id) && Pr r) (map (fun m => slot m g) om)) = wsP ws (voters om P).
Proof.
  intros HT HP. rewrite vsum_wsP. apply wsP_ext. intros i Hi. rewrite ws_len in Hi. unfold ElectionSpec.by_cr.
  induction om as [|m t IH]; cbn [map existsb]; [reflexivity|].
  rewrite (slot_val_eq m g i (HT m (or_introl eq_refl)) Hi), (HP m (or_introl eq_refl)). f_equal.
  apply IH; intros m' Hm'; [apply HT | apply HP]; right; exact Hm'.
Qed.
Lemma voters_set (l1 l2 : list node) (P : node -> bool) u : (forall x, In x l1 <-> In x l2) -> voters l1 P u = voters l2 P u.
Proof. intros H. apply by_cr_set_ext; [exact H | reflexivity]. Qed.

(* the BFT core facts, instantiated on T *)
Lemma split_q k r u : (1 <= k)%nat -> In r (rts (f0 + N.of_nat k + 1)) -> q <= yesVp k r u + noVp k r u.
Proof.
  apply (obs_quorum_split node nd_id nd_cr nd_fr nd_spf fcn ws q T lebn sees_fork_n (q_gt vals)
           (wf_inj vals T HwfT) (fcn_char vals T HwfT) (lebn_trans vals T HwfT) (sfn_mono vals T HwfT) (forker T) Hff
           (fun v x y _ => honest_chain_n vals T HwfT v x y) (roots_fork_n vals T HwfT) (roots_quorum_n vals T HwfT) f0).
Qed.
Lemma never_no : (0 < nv)%nat -> exists v, (v < nv)%nat /\ forall k r, ~ decidesp k r v false.
Proof.
  intros Hnv.
  destruct (exists_never_no node nd_id nd_cr nd_fr nd_spf fcn ws q T lebn sees_fork_n (q_gt vals)
              (wf_inj vals T HwfT) (fcn_char vals T HwfT) (lebn_trans vals T HwfT) (sfn_mono vals T HwfT) (forker T) Hff
              (fun v x y _ => honest_chain_n vals T HwfT v x y) (roots_fork_n vals T HwfT) (roots_quorum_n vals T HwfT)
              f0 f0_pos) as [v [Hv H]]; [rewrite ws_len; exact Hnv|].
  exists v. rewrite ws_len in Hv. auto.
Qed.

(* ---------- the vote of slot (n, f) on subject u ---------- *)
Lemma subject_vote_sim n f u ms votes' : In n (rts f) -> f0 < f -> (u < nv)%nat -> NoDup ms ->
  (forall m, In m ms <-> In m (rts (f - 1))) ->
  (f0 + 2 <= f -> forall m, In m (filter (fcn n) ms) ->
     exists vt, votes_get (slot m (f - 1), vid vals u) votes' = Some vt /\ vote_ok m (f - 1) u vt) ->
  exists vt dec,
    subject_vote (f - f0 =? 1) vals votes' (map (fun m => slot m (f - 1)) (filter (fcn n) ms)) (vid vals u) = Ok (vt, dec) /\
    vote_ok n f u vt /\
    (dec = true -> f0 + 2 <= f /\ decidesp (N.to_nat (f - f0 - 1)) n u (vt_yes vt)) /\
    (f0 + 2 <= f -> forall b, decidesp (N.to_nat (f - f0 - 1)) n u b -> dec = true).
Proof.
  intros Hn Hf Hu NDms Hms Hv.
  set (om := filter (fcn n) ms) in *. set (g := f - 1) in *. set (ob := map (fun m => slot m g) om).
  assert (HnT : In n T) by (eapply rts_in; exact Hn).
  assert (Hom : forall m, In m om <-> In m (obsT n g)).
  { intros m. unfold om, obs. rewrite !filter_In, Hms. reflexivity. }
  assert (HomT : forall m, In m om -> In m T).
  { intros m Hm. apply Hom in Hm. unfold obs in Hm. apply filter_In in Hm as [Hm _]. eapply rts_in; exact Hm. }
  destruct (f - f0 =? 1) eqn:R1.
  - (* round 1 *)
    apply N.eqb_eq in R1. assert (Eg : g = f0) by (unfold g; lia). assert (Ef : f = f0 + 1) by lia.
    assert (K1 : N.to_nat (f - f0) = 1%nat) by lia.
    unfold subject_vote. unfold observed_map_get.
    destruct (find (fun r => r_val r =? vid vals u) (rev ob)) as [r|] eqn:Fd.
    + apply find_some in Fd as [Hr Hval]. apply in_rev in Hr. unfold ob in Hr. apply in_map_iff in Hr as [m [<- Hm]].
      rewrite (slot_val_eq m g u (HomT m Hm) Hu) in Hval. apply Nat.eqb_eq in Hval.
      eexists; exists false. split; [reflexivity|]. split; [|split; [discriminate | lia]].
      pose proof (proj1 (Hom m) Hm) as Hmo. rewrite Eg in Hmo.
      unfold vote_ok. cbn [vt_yes vt_obs]. rewrite K1. split.
      * symmetry. change (vspec 1 n u) with (voters (obsT n f0) (fun _ => true) u).
        unfold ElectionSpec.by_cr. apply existsb_exists. exists m. split; [exact Hmo|]. rewrite Hval, Nat.eqb_refl. reflexivity.
      * intros _. exists m, n. unfold obs in Hmo. apply filter_In in Hmo as [Hmr Hfc].
        rewrite slot_id. rewrite <- Ef. auto.
    + eexists; exists false. split; [reflexivity|]. split; [|split; [discriminate | lia]].
      unfold vote_ok. cbn [vt_yes vt_obs]. rewrite K1. split; [|discriminate].
      symmetry. change (vspec 1 n u) with (voters (obsT n f0) (fun _ => true) u).
      unfold ElectionSpec.by_cr. destruct (existsb _ (obsT n f0)) eqn:EX; [|reflexivity]. exfalso.
      apply existsb_exists in EX as [m [Hmo Hc]]. rewrite andb_true_r in Hc. apply Nat.eqb_eq in Hc.
      rewrite <- Eg in Hmo. apply Hom in Hmo.
      assert (Hin : In (slot m g) (rev ob)) by (apply -> in_rev; unfold ob; apply in_map_iff; exists m; auto).
      pose proof (find_none _ _ Fd (slot m g) Hin) as X. cbn beta in X.
      rewrite (slot_val_eq m g u (HomT m Hmo) Hu), Hc, Nat.eqb_refl in X. discriminate.
  - (* round >= 2 *)
    apply N.eqb_neq in R1. assert (H2 : f0 + 2 <= f) by lia. specialize (Hv H2).
    set (k' := N.to_nat (f - f0 - 1)). assert (Hk' : (1 <= k')%nat) by (unfold k'; lia).
    assert (Eg : g = f0 + N.of_nat k') by (unfold g, k'; lia).
    assert (Egf : f0 + N.of_nat k' + 1 = f) by (unfold k'; lia).
    assert (KS : N.to_nat (f - f0) = S k') by (unfold k'; lia).
    assert (Kg : N.to_nat (g - f0) = k') by (unfold g, k'; lia).
    remember (vid vals u) as s eqn:Es in *.
    (* the votes of the observed roots *)
    assert (Yes : forall m, In m om -> yes_of votes' s (slot m g) = vspec k' m u).
    { intros m Hm. destruct (Hv m Hm) as [vt [G [Y _]]]. unfold yes_of. rewrite G, Y, Kg. reflexivity. }
    (* the common observed root of the yes votes *)
    assert (H0 : exists h0, (forall r, In r ob -> exists vt, votes_get (r, s) votes' = Some vt /\ (vt_yes vt = true -> vt_obs vt = h0))
                            /\ (existsb (yes_of votes' s) ob = true -> names_voted u h0)).
    { destruct (existsb (yes_of votes' s) ob) eqn:EX.
      - apply existsb_exists in EX as [r0 [Hr0 Y0]]. unfold ob in Hr0. apply in_map_iff in Hr0 as [m0 [<- Hm0]].
        destruct (Hv m0 Hm0) as [vt0 [G0 [Y0' N0]]]. unfold yes_of in Y0. rewrite G0 in Y0.
        exists (vt_obs vt0). split; [|intros _; apply N0; exact Y0].
        intros r Hr. unfold ob in Hr. apply in_map_iff in Hr as [m [<- Hm]].
        destruct (Hv m Hm) as [vt [G [Y N1]]]. exists vt. split; [exact G|]. intros Yt.
        apply (names_unique u); [apply N1; exact Yt | apply N0; exact Y0].
      - exists 0. split; [|discriminate]. intros r Hr.
        assert (Yr : yes_of votes' s r = false).
        { destruct (yes_of votes' s r) eqn:Y; [|reflexivity].
          assert (existsb (yes_of votes' s) ob = true) by (apply existsb_exists; eauto). congruence. }
        unfold ob in Hr. apply in_map_iff in Hr as [m [<- Hm]].
        destruct (Hv m Hm) as [vt [G _]]. exists vt. split; [exact G|]. unfold yes_of in Yr. rewrite G in Yr. congruence. }
    destruct H0 as [h0 [Hvotes Hh0]].
    assert (Hex : forall r, In r ob -> v_exists vals (r_val r) = true).
    { intros r Hr. unfold ob in Hr. apply in_map_iff in Hr as [m [<- Hm]]. rewrite slot_val.
      apply v_exists_vid; [exact ND | apply (cr_lt vals T m HwfT (HomT m Hm))]. }
    assert (NDo : NoDup (map (fun r => v_idx vals (r_val r)) ob)).
    { unfold ob. rewrite map_map.
      rewrite (map_ext_in _ nd_cr).
      2:{ intros m Hm. rewrite slot_val. apply v_idx_vid; [exact ND | apply (cr_lt vals T m HwfT (HomT m Hm))]. }
      apply NoDup_map_inj_in; [unfold om; apply NoDup_filter; exact NDms|].
      intros x y Hx Hy E. apply (ref_no_two_fork_roots vals T HwfT Hff g n x y HnT); [apply Hom; exact Hx | apply Hom; exact Hy | exact E]. }
    pose proof (tally_spec vals votes' s h0 ob None (new_counter vals) (new_counter vals) (new_counter vals)
                  (new_counter_wf vals) (new_counter_wf vals) (new_counter_wf vals) Hex NDo) as TS.
    unfold subject_vote.
    rewrite TS; [|intros r _; unfold new_counter; cbn [c_already]; apply nth_repeat | exact Hvotes | left; reflexivity].
    clear TS.
    (* the three weights *)
    assert (Wall : c_sum (count_all vals (new_counter vals) (map r_val ob)) = wsP ws (voters (obsT n g) (fun _ => true))).
    { rewrite <- (filter_true ob) at 1. rewrite (count_all_sum_filter vals ND (fun _ => true) ob Hex).
      unfold ob. rewrite (sum_by_nodes (fun _ => true) (fun _ => true) om g HomT (fun _ _ => eq_refl)).
      apply wsP_ext. intros i _. apply voters_set. exact Hom. }
    assert (Wyes : c_sum (count_all vals (new_counter vals) (map r_val (filter (yes_of votes' s) ob))) = yesVp k' n u).
    { rewrite (count_all_sum_filter vals ND (yes_of votes' s) ob Hex).
      unfold ob. rewrite (sum_by_nodes (fun m => vspec k' m u) (yes_of votes' s) om g HomT Yes).
      unfold yesV. rewrite <- Eg. apply wsP_ext. intros i _. apply voters_set. exact Hom. }
    assert (Wno : c_sum (count_all vals (new_counter vals) (map r_val (filter (fun r => negb (yes_of votes' s r)) ob))) = noVp k' n u).
    { rewrite (count_all_sum_filter vals ND (fun r => negb (yes_of votes' s r)) ob Hex).
      unfold ob. rewrite (sum_by_nodes (fun m => negb (vspec k' m u)) (fun r => negb (yes_of votes' s r)) om g HomT).
      2:{ intros m Hm. rewrite (Yes m Hm). reflexivity. }
      unfold noV. rewrite <- Eg. apply wsP_ext. intros i _. apply voters_set. exact Hom. }
    assert (Qall : has_quorum vals (count_all vals (new_counter vals) (map r_val ob)) = true).
    { unfold has_quorum. rewrite VQ, Wall.
      pose proof (ref_prev_quorum vals T HwfT g n ltac:(unfold g; lia)) as PQ.
      replace (g + 1) with f in PQ by (unfold g; lia). specialize (PQ Hn). unfold quorum_on in PQ. exact PQ. }
    rewrite Qall. cbn [negb]. unfold has_quorum. rewrite VQ, Wyes, Wno.
    pose proof (split_q k' n u Hk' ltac:(rewrite Egf; exact Hn)) as SQ.
    eexists; eexists. split; [reflexivity|]. cbn [vt_yes vt_obs].
    assert (VS : (noVp k' n u <=? yesVp k' n u) = vspec (N.to_nat (f - f0)) n u).
    { rewrite KS. symmetry. apply vote_S. exact Hk'. }
    split; [|split].
    + unfold vote_ok. cbn [vt_yes vt_obs]. split; [exact VS|]. intros Y. apply N.leb_le in Y.
      assert (Pos : 0 < yesVp k' n u) by (pose proof (quorum_of_pos ws); lia).
      assert (EX : existsb (yes_of votes' s) ob = true).
      { unfold yesV in Pos. apply wsP_pos_ex in Pos as [i [_ Hi]]. unfold ElectionSpec.by_cr in Hi.
        apply existsb_exists in Hi as [m [Hmo Hi]]. apply andb_prop in Hi as [_ Hi].
        rewrite <- Eg in Hmo. apply Hom in Hmo. apply existsb_exists. exists (slot m g).
        split; [unfold ob; apply in_map_iff; exists m; auto | rewrite (Yes m Hmo); exact Hi]. }
      rewrite EX. replace (noVp k' n u <=? yesVp k' n u) with true by (symmetry; apply N.leb_le; exact Y).
      apply Hh0. exact EX.
    + intros D. split; [exact H2|]. apply orb_prop in D. unfold decides. fold k'. split; [exact Hk'|]. split; [rewrite Egf; exact Hn|].
      destruct (noVp k' n u <=? yesVp k' n u) eqn:Y; destruct D as [D|D]; apply N.leb_le in D; lia.
    + intros _ b [_ [_ D]]. fold k' in D. apply orb_true_iff. destruct b; [left | right]; apply N.leb_le; exact D.
Qed.

(* ---------- chooseAtropos ---------- *)
Lemma choose_loop_shape ids dec fr :
  choose_atropos_loop ids dec fr = Ok None \/ (exists a, choose_atropos_loop ids dec fr = Ok (Some (fr, a))) \/
  (choose_atropos_loop ids dec fr = Err EAllNo /\
   forall id, In id ids -> exists vt, alookup id dec = Some vt /\ vt_yes vt = false).
Proof.
  induction ids as [|id t IH]; cbn [choose_atropos_loop].
  - right. right. split; [reflexivity | intros id []].
  - destruct (alookup id dec) as [vt|] eqn:A; [|left; reflexivity].
    destruct (vt_yes vt) eqn:Y; [right; left; eexists; reflexivity|].
    destruct IH as [H|[H|[H1 H2]]]; [left; exact H | right; left; exact H|].
    right. right. split; [exact H1|]. intros id' [<-|Hin]; [exists vt; auto | apply H2; exact Hin].
Qed.

Lemma choose_sim el S : EI el S -> (0 < nv)%nat ->
  choose_atropos el = Ok None \/ exists a, choose_atropos el = Ok (Some (f0, a)).
Proof.
  intros I Hnv. unfold choose_atropos. rewrite (ei_frame _ _ I), (ei_vals _ _ I).
  destruct (choose_loop_shape (v_ids vals) (el_decided el) f0) as [H|[H|[_ H]]]; auto.
  exfalso. destruct (never_no Hnv) as [v [Hv Hnever]].
  destruct (H (vid vals v)) as [vt [A Y]].
  { rewrite v_ids_vid. apply in_map. apply in_seq. lia. }
  destruct (ei_dec_sound _ _ I v vt Hv A) as [[k [r D]] _]. rewrite Y in D. exact (Hnever k r D).
Qed.

Lemma choose_loop_some (ord : list nat) dec fr a :
  choose_atropos_loop (map (vid vals) ord) dec fr = Ok (Some (fr, a)) ->
  exists pre v post vt, ord = pre ++ v :: post /\
    (forall u, In u pre -> exists vt', alookup (vid vals u) dec = Some vt' /\ vt_yes vt' = false) /\
    alookup (vid vals v) dec = Some vt /\ vt_yes vt = true /\ vt_obs vt = a.
Proof.
  induction ord as [|u t IH]; cbn [map choose_atropos_loop]; [discriminate|].
  destruct (alookup (vid vals u) dec) as [vt|] eqn:A; [|discriminate].
  destruct (vt_yes vt) eqn:Y.
  - intros H. inversion H; subst. exists [], u, t, vt. repeat split; auto. intros u' [].
  - intros H. destruct (IH H) as (pre & v & post & vt' & -> & P & A' & Y' & O').
    exists (u :: pre), v, post, vt'. repeat split; auto.
    intros u' [<-|Hu']; [exists vt; auto | apply P; exact Hu'].
Qed.

Lemma choose_loop_walk (pre : list nat) v post dec fr vt :
  (forall u, In u pre -> exists vt', alookup (vid vals u) dec = Some vt' /\ vt_yes vt' = false) ->
  alookup (vid vals v) dec = Some vt -> vt_yes vt = true ->
  choose_atropos_loop (map (vid vals) (pre ++ v :: post)) dec fr = Ok (Some (fr, vt_obs vt)).
Proof.
  intros P A Y. induction pre as [|u pre IH]; cbn [app map choose_atropos_loop].
  - rewrite A, Y. reflexivity.
  - destruct (P u (or_introl eq_refl)) as [vt' [A' Y']]. rewrite A', Y'. apply IH. intros u' Hu'. apply P. right. exact Hu'.
Qed.

Notation decideT := (decide node nd_id nd_cr nd_fr nd_spf fcn ws q (canon_order vals) T f0 (max_frame node nd_fr T)).

Lemma voted_root_of_names v h : names_voted v h ->
  exists x, voted_root node nd_cr nd_fr nd_spf fcn T f0 v = Some x /\ nd_id x = h.
Proof.
  intros (a & r1 & Ia & Ca & -> & I1 & F1). unfold voted_root.
  destruct (find (fun a0 => Nat.eqb (nd_cr a0) v && existsb (fun r => fcn r a0) (rts (f0 + 1))) (rts f0)) as [x|] eqn:Fd.
  - exists x. split; [reflexivity|]. apply find_some in Fd as [Ix Px]. apply andb_prop in Px as [Cx Ex].
    apply Nat.eqb_eq in Cx. apply existsb_exists in Ex as [r2 [I2 F2]]. f_equal.
    apply (ref_voted_root_unique vals T HwfT Hff f0 x a r2 r1); eauto using rts_in. congruence.
  - exfalso. apply (find_none _ _ Fd) in Ia. rewrite Ca, Nat.eqb_refl in Ia. cbn [andb] in Ia.
    assert (existsb (fun r => fcn r a) (rts (f0 + 1)) = true) by (apply existsb_exists; eauto). congruence.
Qed.

(* a decision reported by chooseAtropos is the reference's Atropos of frame f0 *)
Lemma choose_some_decide el S a : EI el S -> choose_atropos el = Ok (Some (f0, a)) -> decideT = Atropos a.
Proof.
  intros I H. unfold choose_atropos in H. rewrite (ei_frame _ _ I), (ei_vals _ _ I) in H.
  rewrite (v_ids_canon vals (proj1 Hvals)) in H.
  destruct (choose_loop_some _ _ _ _ H) as (pre & v & post & vt & Eo & P & A & Y & O).
  assert (Hlt : forall u, In u (canon_order vals) -> (u < nv)%nat) by (intros u; apply canon_order_lt).
  assert (Hv : (v < nv)%nat) by (apply Hlt; rewrite Eo; apply in_or_app; right; left; reflexivity).
  destruct (ei_dec_sound _ _ I v vt Hv A) as [Dv Nv]. rewrite Y in Dv. specialize (Nv Y). rewrite O in Nv.
  destruct (voted_root_of_names v a Nv) as [x [Vx Ex]].
  apply (ref_decide_iff vals T HwfT Hff f0 a). exists pre, v, post, x. split; [exact Eo|]. split; [|auto].
  intros u Hu. destruct (P u Hu) as [vt' [A' Y']].
  assert (Hu' : (u < nv)%nat) by (apply Hlt; rewrite Eo; apply in_or_app; left; exact Hu).
  destruct (ei_dec_sound _ _ I u vt' Hu' A') as [D _]. rewrite Y' in D. exact D.
Qed.

(* no decision while every root slot has voted => the reference has no Atropos for f0 either *)
Lemma choose_none_undecided el (S : root -> Prop) : EI el S -> choose_atropos el = Ok None ->
  (forall n f, f0 < f -> In n (rts f) -> S (slot n f)) -> forall a, decideT <> Atropos a.
Proof.
  intros I H Sall a Hd.
  apply (ref_decide_iff vals T HwfT Hff f0 a) in Hd as (pre & v & post & x & Eo & P & Dv & Vx & Ex).
  assert (Hlt : forall u, In u (canon_order vals) -> (u < nv)%nat) by (intros u; apply canon_order_lt).
  assert (Rec : forall u b, (u < nv)%nat -> (exists k r, decidesp k r u b) ->
                exists vt, alookup (vid vals u) (el_decided el) = Some vt /\ vt_yes vt = b).
  { intros u b Hu [k [r D]]. pose proof D as [Hk [Hr _]].
    assert (Hc : alookup (vid vals u) (el_decided el) <> None).
    { apply (ei_dec_compl _ _ I r (f0 + N.of_nat k + 1) u b); [apply Sall; [lia | exact Hr] | exact Hr | lia | exact Hu|].
      replace (N.to_nat (f0 + N.of_nat k + 1 - f0 - 1)) with k by lia. exact D. }
    destruct (alookup (vid vals u) (el_decided el)) as [vt|] eqn:A; [|congruence].
    exists vt. split; [reflexivity|]. destruct (ei_dec_sound _ _ I u vt Hu A) as [[k2 [r2 D2]] _].
    apply (ref_decision_unique vals T HwfT Hff f0 k2 r2 k r u _ _ D2 D). }
  unfold choose_atropos in H. rewrite (ei_frame _ _ I), (ei_vals _ _ I) in H.
  rewrite (v_ids_canon vals (proj1 Hvals)), Eo in H.
  assert (Hv : (v < nv)%nat) by (apply Hlt; rewrite Eo; apply in_or_app; right; left; reflexivity).
  destruct (Rec v true Hv Dv) as [vt [A Y]].
  rewrite (choose_loop_walk pre v post (el_decided el) f0 vt) in H; [discriminate| |exact A|exact Y].
  intros u Hu. apply (Rec u false); [apply Hlt; rewrite Eo; apply in_or_app; left; exact Hu | apply P; exact Hu].
Qed.

(* ---------- Election.ProcessRoot ---------- *)
Lemma process_root_sim st es Dr k (S : root -> Prop) n f :
  Core st es T Dr T -> cache_inv k st T T -> (forall m, In m T -> ~ k (nd_id m)) ->
  EI (l_el st) S -> choose_atropos (l_el st) = Ok None -> In n (rts f) ->
  (f0 + 2 <= f -> forall m, In m (rts (f - 1)) -> fcn n m = true -> S (slot m (f - 1))) ->
  exists res c' el', process_root cap st (slot n f) = (res, set_el (set_fcc st c') el') /\
    cache_inv k (set_el (set_fcc st c') el') T T /\
    EI el' (fun r => S r \/ r = slot n f) /\ res = choose_atropos el' /\
    (res = Ok None \/ exists a, res = Ok (Some (f0, a))).
Proof.
  intros C CI NT I CA Hn Hprev. unfold process_root. rewrite CA. rewrite (ei_frame _ _ I), slot_frame.
  assert (HnT : In n T) by (eapply rts_in; exact Hn).
  assert (Hnv : (0 < nv)%nat) by (pose proof (cr_lt vals T n HwfT HnT); lia).
  destruct (f <=? f0) eqn:Lf.
  - (* a root of the frame being decided (or older) does not vote *)
    apply N.leb_le in Lf. exists (Ok None), (l_fcc st), (l_el st).
    assert (Est : set_el (set_fcc st (l_fcc st)) (l_el st) = st) by (destruct st; reflexivity).
    rewrite Est. split; [reflexivity|]. split; [exact CI|]. split; [|split; [symmetry; exact CA | left; reflexivity]].
    destruct I as [A B V DS DC]. constructor; auto.
    + intros n1 f1 u [HS|E] Hn1 Hf1 Hu Hun; [apply V; auto|].
      apply (slot_inj vals T n1 n f1 f HwfT (rts_in _ _ Hn1) HnT) in E as [-> ->]. lia.
    + intros n1 f1 u b [HS|E] Hn1 Hf1 Hu D; [eapply DC; eauto|].
      apply (slot_inj vals T n1 n f1 f HwfT (rts_in _ _ Hn1) HnT) in E as [-> ->]. lia.
  - apply N.leb_gt in Lf. unfold observed_roots. cbn [r_id]. rewrite slot_id.
    replace (r_frame (slot n f) - 1) with (f - 1) by reflexivity.
    destruct (frame_roots_for ep lam vals st es T Dr T (f - 1) C) as [ms [_ [Hms [Ems NDms]]]].
    rewrite Ems.
    assert (Est0 : st = set_fcc st (l_fcc st)) by (destruct st; reflexivity).
    destruct (observed_loop_map cap ep lam vals Hvals st es T Dr T k T T n (f - 1) C (incl_refl T) (incl_refl T) HnT (NT n HnT)
                ms (fun m Hm => rts_in _ _ (proj1 (Hms m) Hm)) st [] (ex_intro _ (l_fcc st) Est0) CI)
      as [c1 [EO CI1]].
    rewrite EO. cbn [rev app].
    set (ob := map (fun m => slot m (f - 1)) (filter (fcn n) ms)).
    set (el := l_el st) in *.
    (* the loop over the not-decided subjects *)
    pose (P := fun (s : N) (vt : Abft.vote) (dec : bool) =>
                 exists u, (u < nv)%nat /\ s = vid vals u /\ vote_ok n f u vt /\
                   (dec = true -> f0 + 2 <= f /\ decidesp (N.to_nat (f - f0 - 1)) n u (vt_yes vt)) /\
                   (f0 + 2 <= f -> forall b, decidesp (N.to_nat (f - f0 - 1)) n u b -> dec = true)).
    destruct (vote_subjects_spec (f - f0 =? 1) ob (slot n f) P (not_decided el) el) as [el' [EV [F' [V' [A [B Cc]]]]]].
    { apply not_decided_nodup. rewrite (ei_vals _ _ I). exact ND. }
    { intros s Hs votes' Hv'. apply not_decided_iff in Hs as [Hs Hun]. rewrite (ei_vals _ _ I) in Hs |- *.
      rewrite v_ids_vid in Hs. apply in_map_iff in Hs as [u [<- Hu]]. apply in_seq in Hu.
      destruct (subject_vote_sim n f u ms votes' Hn Lf ltac:(lia) NDms Hms) as [vt [dec [E [VO [D1 D2]]]]].
      { intros H2 m Hm. apply filter_In in Hm as [Hm Hfc]. apply Hms in Hm. rewrite Hv'.
        apply (ei_votes _ _ I m (f - 1) u); [apply Hprev; auto | exact Hm | lia | lia | exact Hun]. }
      exists vt, dec. split; [exact E|]. exists u. split; [lia|]. auto. }
    rewrite EV. exists (choose_atropos el'), c1, el'. split; [reflexivity|]. split; [exact CI1|].
    assert (I' : EI el' (fun r => S r \/ r = slot n f)).
    { destruct I as [IA IB IV IDS IDC]. constructor.
      - rewrite F'. exact IA.
      - rewrite V'. exact IB.
      - intros n1 f1 u HS Hn1 Hf1 Hu Hun.
        assert (Hun0 : alookup (vid vals u) (el_decided el) = None).
        { destruct (in_dec N.eq_dec (vid vals u) (not_decided el)) as [Hin|Hout].
          - apply not_decided_iff in Hin. apply Hin.
          - rewrite (B _ Hout) in Hun. exact Hun. }
        assert (Hsub : In (vid vals u) (not_decided el)).
        { apply not_decided_iff. split; [|exact Hun0]. rewrite IB, v_ids_vid. apply in_map. apply in_seq. lia. }
        destruct (root_eqb (slot n1 f1) (slot n f)) eqn:RE.
        + apply root_eqb_eq in RE. pose proof RE as RE'.
          apply (slot_inj vals T n1 n f1 f HwfT (rts_in _ _ Hn1) HnT) in RE' as [-> ->].
          destruct (A _ Hsub) as [vt [dec [[u' [Hu' [Eu' [VO _]]]] [G _]]]].
          assert (u' = u) by (apply (vid_inj vals); auto). subst u'. exists vt. auto.
        + assert (Hne : slot n1 f1 <> slot n f) by (intros E; rewrite E, root_eqb_refl in RE; discriminate).
          rewrite Cc by (intros [X _]; contradiction). destruct HS as [HS|HS]; [|contradiction]. apply IV; auto.
      - intros u vt Hu Al.
        destruct (in_dec N.eq_dec (vid vals u) (not_decided el)) as [Hin|Hout].
        + destruct (A _ Hin) as [vt1 [dec [[u' [Hu' [Eu' [VO [D1 _]]]]] [_ Dd]]]].
          assert (u' = u) by (apply (vid_inj vals); auto). subst u'.
          rewrite Dd in Al. destruct dec.
          * inversion Al; subst vt1. destruct (D1 eq_refl) as [_ D]. split; [eauto|]. apply VO.
          * apply not_decided_iff in Hin. destruct Hin as [_ Hin]. rewrite Hin in Al. discriminate.
        + rewrite (B _ Hout) in Al. apply IDS; auto.
      - intros n1 f1 u b HS Hn1 Hf1 Hu D.
        destruct (alookup (vid vals u) (el_decided el)) as [vt0|] eqn:Al0.
        + (* decided before: stays decided *)
          assert (Hout : ~ In (vid vals u) (not_decided el)).
          { intros Hin. apply not_decided_iff in Hin. destruct Hin as [_ Hin]. congruence. }
          rewrite (B _ Hout), Al0. discriminate.
        + assert (Hsub : In (vid vals u) (not_decided el)).
          { apply not_decided_iff. split; [|exact Al0]. rewrite IB, v_ids_vid. apply in_map. apply in_seq. lia. }
          destruct (A _ Hsub) as [vt [dec [[u' [Hu' [Eu' [VO [D1 D2]]]]] [_ Dd]]]].
          assert (u' = u) by (apply (vid_inj vals); auto). subst u'.
          destruct HS as [HS|E].
          * rewrite Dd. destruct dec; [discriminate|]. apply (IDC n1 f1 u b); auto.
          * apply (slot_inj vals T n1 n f1 f HwfT (rts_in _ _ Hn1) HnT) in E as [-> ->].
            rewrite Dd. rewrite (D2 Hf1 b D). discriminate. }
    split; [exact I'|]. split; [reflexivity|]. apply (choose_sim el' _ I' Hnv).
Qed.

End Vote.
