(* Helper facts for the instance invariant (round 2): validator sets built by mk_vals have distinct
   ids; membership in the root table after AddRoot; frames computed by calcFrameIdx are >= 1. *)
From Coq Require Import NArith ZArith List Lia Bool ZifyBool ZifyN ZifyNat Permutation.
From LV Require Import model.VecIndex model.Abft model.AbftRun proofs.AbftFrame.
Import ListNotations.
Local Open Scope N_scope.

(* ---------- mk_vals: distinct ids ---------- *)
Lemma builder_set_nodup b id w : NoDup (map fst b) -> NoDup (map fst (builder_set b id w)).
Proof.
  intros ND. unfold builder_set.
  assert (F : NoDup (map fst (filter (fun p => negb (fst p =? id)) b))).
  { induction b as [|[x y] t IH]; cbn [filter map fst]; [constructor|].
    cbn [map fst] in ND. apply NoDup_cons_iff in ND as [Hn ND].
    destruct (negb (x =? id)); cbn [map fst]; [|auto]. constructor; auto.
    intros Hin. apply Hn. apply in_map_iff in Hin as [p [E Hp]]. apply filter_In in Hp as [Hp _].
    apply in_map_iff. exists p. auto. }
  destruct (w =? 0); [exact F|]. cbn [map fst]. constructor; auto.
  intros Hin. apply in_map_iff in Hin as [p [E Hp]]. apply filter_In in Hp as [_ Hp].
  rewrite E, N.eqb_refl in Hp. discriminate.
Qed.
Lemma v_insert_perm x l : Permutation (v_insert x l) (x :: l).
Proof.
  induction l as [|y t IH]; cbn [v_insert]; [reflexivity|].
  destruct (val_lt x y); [reflexivity|]. rewrite IH. apply perm_swap.
Qed.
Lemma mk_vals_nodup raw : NoDup (v_ids (mk_vals raw)).
Proof.
  unfold mk_vals, v_ids.
  set (b := fold_left (fun b p => builder_set b (fst p) (snd p)) raw []).
  assert (NB : NoDup (map fst b)).
  { unfold b. assert (G : forall l acc, NoDup (map fst acc) ->
                  NoDup (map fst (fold_left (fun b p => builder_set b (fst p) (snd p)) l acc))).
    { induction l as [|p t IH]; intros acc H; cbn [fold_left]; auto. apply IH. apply builder_set_nodup. exact H. }
    apply G. constructor. }
  assert (P : Permutation (fold_right v_insert [] b) b).
  { clear NB. induction b as [|x t IH]; cbn [fold_right]; [reflexivity|]. rewrite v_insert_perm. constructor. exact IH. }
  eapply Permutation_NoDup; [symmetry; apply Permutation_map; exact P | exact NB].
Qed.

(* ---------- the root table ---------- *)
Lemma root_eqb_eq a b : root_eqb a b = true <-> a = b.
Proof.
  unfold root_eqb, r_frame, r_val, r_id. destruct a as [[a1 a2] a3], b as [[b1 b2] b3]. cbn.
  rewrite !andb_true_iff, !N.eqb_eq. split; [intros [[-> ->] ->]; reflexivity | intros H; inversion H; auto].
Qed.
Lemma root_insert_iff x l r : In r (root_insert x l) <-> r = x \/ In r l.
Proof.
  induction l as [|y t IH]; cbn [root_insert In]; [intuition|].
  destruct (root_eqb x y) eqn:E.
  - apply root_eqb_eq in E. subst. cbn [In]. intuition.
  - destruct (root_lt x y); cbn [In]; [intuition|]. rewrite IH. intuition.
Qed.
Lemma add_roots_loop_iff e r : forall fuel rs f,
  In r (add_roots_loop fuel rs e f) <->
  In r rs \/ exists g, f <= g <= a_frame e /\ g < f + N.of_nat fuel /\ r = (g, a_creator e, a_id e).
Proof.
  induction fuel as [|fu IH]; intros rs f; cbn [add_roots_loop].
  - split; [auto | intros [H|[g [A [B C]]]]; [auto | lia]].
  - destruct (a_frame e <? f) eqn:L.
    + split; [auto | intros [H|[g [A [B C]]]]; [auto | lia]].
    + rewrite IH, root_insert_iff. split.
      * intros [[->|H]|[g [A [B C]]]]; auto; right; [exists f | exists g]; repeat split; auto; lia.
      * intros [H|[g [A [B C]]]]; auto. destruct (N.eq_dec g f) as [->|Hne]; [left; left; exact C|].
        right. exists g. repeat split; auto; lia.
Qed.
Lemma add_roots_iff st spf e r : spf <= a_frame e ->
  In r (l_roots (add_roots st spf e)) <->
  In r (l_roots st) \/ exists g, spf < g <= a_frame e /\ r = (g, a_creator e, a_id e).
Proof.
  intros L. unfold add_roots. cbn [l_roots set_roots]. rewrite add_roots_loop_iff. split.
  - intros [H|[g [A [B C]]]]; auto. right. exists g. split; [lia | exact C].
  - intros [H|[g [A C]]]; auto. right. exists g. repeat split; auto; lia.
Qed.

(* ---------- calcFrameIdx: the computed frame is >= 1 and >= the self-parent's frame ---------- *)
Lemma calc_pure_ge v s roots a maxf : forall fuel f f', calc_pure fuel v s roots a f maxf = Some f' -> f <= f'.
Proof.
  induction fuel as [|fu IH]; intros f f' H; cbn [calc_pure] in H; [discriminate|].
  destruct (negb (f <? maxf)); [inversion H; lia|].
  destruct (qp v s roots a f); [apply IH in H; lia | inversion H; lia].
Qed.
Lemma frame_pure_pos es v s roots e co spf fr : frame_pure es v s roots e co = Ok (spf, fr) ->
  1 <= fr /\ spf <= fr /\ spf_of es e = Ok spf.
Proof.
  unfold frame_pure. destruct (spf_of es e) as [spf0|x] eqn:S; [|discriminate].
  destruct (calc_pure _ _ _ _ _ _ _) as [f|] eqn:C; [|discriminate]. intros H; inversion H; subst.
  apply calc_pure_ge in C. destruct (f =? 0) eqn:Z; repeat split; auto; lia.
Qed.
