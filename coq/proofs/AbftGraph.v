(* Round 2: the index premises of C03 / C04 / C02 discharged with worker vecidx' theorems
   (vinv => fc = fc_spec, merged = merged_spec) and the instance invariant J:
   statements over the GRAPH (FcSpec.fc_spec / sees_fork over the index' event map, root slots =
   accepted events with self-parent frame < g <= frame). *)
From Coq Require Import NArith ZArith List Lia Bool ZifyBool ZifyN ZifyNat.
From LV Require Import model.VecIndex spec.FcSpec model.Abft model.AbftRun
  proofs.FcSpecFacts proofs.VecInv proofs.VecMerged proofs.VecStep proofs.VecMain
  proofs.AbftStruct proofs.AbftFrame proofs.AbftCount proofs.AbftBuild proofs.AbftSeal proofs.AbftProcess
  proofs.AbftCheaters proofs.AbftRoots proofs.AbftRooted proofs.AbftBlocks
  proofs.AbftInvLemmas proofs.AbftInv proofs.AbftInvStep proofs.AbftRunInv proofs.AbftErrors.
Import ListNotations.
Local Open Scope N_scope.

(* ---------- C03 ---------- *)
Lemma flags_of_merged_proj n E s a :
  map proj (merged s a) = merged_spec n E a ->
  forall i, (i < n)%nat -> is_fork (hb_get (merged s a) i) = sees_fork E (anc E a) i.
Proof.
  intros H i Hi. unfold hb_get.
  assert (E1 : nth i (map proj (merged s a)) (false, 0) = proj (nth i (merged s a) (0, 0))).
  { change (false, 0) with (proj (0, 0)). apply map_nth. }
  rewrite H in E1. unfold merged_spec in E1.
  set (g := fun v : nat => if sees_fork E (anc E a) v then (true, 0)
                           else (false, fold_left (fun m x => match alookup x E with
                                   | Some ex => if Nat.eqb (ecr ex) v then N.max m (eseq ex) else m
                                   | None => m end) (anc E a) 0)) in *.
  assert (E2 : nth i (map g (seq 0 n)) (false, 0) = g i).
  { rewrite (nth_indep _ (false, 0) (g 0%nat)) by (rewrite map_length, seq_length; exact Hi).
    rewrite map_nth, seq_nth by exact Hi. reflexivity. }
  rewrite E2 in E1. unfold g, proj in E1. destruct (sees_fork E (anc E a) i); inversion E1; auto.
Qed.

(* visible forkers of an event in the index' own DAG, in canonical validator order *)
Definition visible_forkers (v : vals) (E : list (N * event)) (a : N) : list N :=
  map fst (filter (fun p => sees_fork E (anc E a) (snd p)) (combine (v_ids v) (seq 0 (length v)))).

Theorem cheaters_graph st atr ea : vinv (length (l_vals st)) (l_idx st) -> evt (l_idx st) atr ea ->
  cheaters_of st atr = visible_forkers (l_vals st) (evs (l_idx st)) atr.
Proof.
  intros I Ea. apply cheaters_by_flags. intros i Hi.
  eapply flags_of_merged_proj; [|exact Hi]. eapply merged_eq_spec; eauto.
Qed.

(* ---------- C04 ---------- *)
Definition acc_events (i : inst) : list aevent :=
  flat_map (fun id => match get_event (i_es i) id with Some e => [e] | None => [] end) (i_proc i).

Lemma acc_events_in i e0 : J i ->
  (In e0 (acc_events i) <-> In (a_id e0) (i_proc i) /\ get_event (i_es i) (a_id e0) = Some e0).
Proof.
  intros HJ. unfold acc_events. rewrite in_flat_map. split.
  - intros [id [Hin H]]. destruct (get_event (i_es i) id) as [e|] eqn:G; [|destruct H].
    destruct H as [<-|[]]. destruct (j_ev i HJ id Hin) as [e' [G' [Hid _]]]. rewrite G in G'. inversion G'; subst e'.
    rewrite Hid. auto.
  - intros [Hin G]. exists (a_id e0). split; auto. rewrite G. left. reflexivity.
Qed.

(* the frame rule over the graph: the validators owning an accepted event that is a root slot of frame g
   (self-parent frame < g <= frame) and forkless-causes the candidate a hold a quorum *)
Definition quorum_graph (i : inst) (E : list (N * event)) (a g : N) : bool :=
  let v := l_vals (i_st i) in
  v_quorum v <=? vsum v (fun id =>
    existsb (fun e0 => (a_creator e0 =? id) && (spf_in (i_es i) e0 <? g) && (g <=? a_frame e0) &&
                       fc_spec (v_weights v) (v_quorum v) (length v) E a (a_id e0)) (acc_events i)).
Definition allowed_graph (i : inst) (E : list (N * event)) (e : aevent) (spf F : N) : Prop :=
  match a_self_parent e with
  | None => F = 1
  | Some _ => spf <= F /\ forall g, spf <= g < F -> quorum_graph i E (a_id e) g = true
  end.

Lemma v_quorum_pos v : 0 < v_quorum v.
Proof. unfold v_quorum. lia. Qed.

Lemma vsum_ext v P Q : (forall id, P id = Q id) -> vsum v P = vsum v Q.
Proof. intros H. induction v as [|[x w] t IH]; cbn; auto. rewrite H, IH. reflexivity. Qed.

(* the index' quorum test on the stored roots IS the graph quorum *)
Lemma qp_is_quorum_graph i s' e g : J i ->
  vinv (length (l_vals (i_st i))) s' -> evs s' = (a_id e, vev (l_vals (i_st i)) e) :: evs (l_idx (i_st i)) ->
  qp (l_vals (i_st i)) s' (l_roots (i_st i)) (a_id e) g = quorum_graph i (evs s') (a_id e) g.
Proof.
  intros HJ I' Hevs. set (v := l_vals (i_st i)) in *.
  rewrite (qp_is_weight v (j_vals i HJ)).
  2:{ intros r Hr. apply (j_roots i HJ) in Hr as [e0 [Hin [Hg [_ [Hv _]]]]].
      destruct (j_ev i HJ _ Hin) as [e' [G' [_ [_ [Hc _]]]]]. rewrite Hg in G'. inversion G'; subst e'. rewrite Hv. exact Hc. }
  unfold quorum_graph. fold v. f_equal. apply vsum_ext. intros id.
  apply eq_iff_eq_true. rewrite !existsb_exists. split.
  - intros [r [Hr Hb]]. unfold roots_of in Hr. apply filter_In in Hr as [Hr Hf]. apply N.eqb_eq in Hf.
    apply andb_true_iff in Hb as [Hv Hfc]. apply N.eqb_eq in Hv.
    apply (j_roots i HJ) in Hr as [e0 [Hin [Hg [[Hs1 Hs2] [Hsv Hsi]]]]].
    exists e0. split; [apply (acc_events_in i e0 HJ); auto|].
    assert (Ea : exists ea, evt s' (a_id e) ea) by (unfold evt; rewrite Hevs; cbn [alookup]; rewrite N.eqb_refl; eauto).
    assert (Eb : exists eb, evt s' (a_id e0) eb).
    { apply (j_proc i HJ) in Hin as [ev Hev]. unfold evt in *. rewrite Hevs. cbn [alookup].
      destruct (a_id e0 =? a_id e); eauto. }
    destruct Ea as [ea Ea], Eb as [eb0 Eb].
    rewrite <- (fc_eq_spec _ s' I' (v_weights v) (v_quorum v) (a_id e) (a_id e0) ea eb0 (v_quorum_pos v) Ea Eb).
    rewrite !andb_true_iff. unfold fcp in Hfc. rewrite <- Hsi. repeat split; try lia; auto.
  - intros [e0 [He0 Hb]]. apply (acc_events_in i e0 HJ) in He0 as [Hin Hg].
    rewrite !andb_true_iff in Hb. destruct Hb as [[[Hc Hs1] Hs2] Hfc].
    exists (g, a_creator e0, a_id e0). split.
    + unfold roots_of. apply filter_In. split; [|unfold r_frame; cbn; apply N.eqb_refl].
      apply (j_roots i HJ). exists e0. split; auto. split; auto. unfold slot_of, r_frame, r_val, r_id. cbn. repeat split; lia.
    + unfold r_val, r_id. cbn [fst snd]. rewrite andb_true_iff. split; [exact Hc|].
      assert (Ea : exists ea, evt s' (a_id e) ea) by (unfold evt; rewrite Hevs; cbn [alookup]; rewrite N.eqb_refl; eauto).
      assert (Eb : exists eb, evt s' (a_id e0) eb).
      { apply (j_proc i HJ) in Hin as [ev Hev]. unfold evt in *. rewrite Hevs. cbn [alookup].
        destruct (a_id e0 =? a_id e); eauto. }
      destruct Ea as [ea Ea], Eb as [eb0 Eb]. unfold fcp.
      rewrite (fc_eq_spec _ s' I' (v_weights v) (v_quorum v) (a_id e) (a_id e0) ea eb0 (v_quorum_pos v) Ea Eb). exact Hfc.
Qed.

Lemma allowed_pure_graph i s' e spf F : J i ->
  vinv (length (l_vals (i_st i))) s' -> evs s' = (a_id e, vev (l_vals (i_st i)) e) :: evs (l_idx (i_st i)) ->
  (allowed_pure (l_vals (i_st i)) s' (l_roots (i_st i)) e spf F <-> allowed_graph i (evs s') e spf F).
Proof.
  intros HJ I' Hevs. unfold allowed_pure, allowed_graph. destruct (a_self_parent e); [|reflexivity].
  split; intros [L Q]; split; auto; intros g Hg; [rewrite <- qp_is_quorum_graph | rewrite qp_is_quorum_graph]; auto.
Qed.


(* ---------- the composed C04 theorems ---------- *)
Section Composed.
Variable cap : nat.
Variable eb : N -> N -> N -> list N -> list N -> option vals.

Lemma get_event_aput_other id e es x : x <> id -> get_event (aput id e es) x = get_event es x.
Proof. intros H. unfold get_event, aput. cbn [alookup]. replace (x =? id) with false by lia. reflexivity. Qed.

Lemma spf_in_aput i e : J i -> guard i e true = None -> spf_in (aput (a_id e) e (i_es i)) e = spf_in (i_es i) e.
Proof.
  intros HJ G. destruct (guard_none i e G) as (Gn & _ & Gp & _). unfold spf_in.
  destruct (a_self_parent e) as [sp|] eqn:SP; auto. rewrite get_event_aput_other; auto.
  intros ->. apply Gn. apply Gp. apply self_parent_in_parents. exact SP.
Qed.

Lemma spf_of_ok i e : J i -> guard i e true = None ->
  spf_of (aput (a_id e) e (i_es i)) e = Ok (spf_in (i_es i) e) /\ (a_self_parent e <> None -> 1 <= spf_in (i_es i) e).
Proof.
  intros HJ G. destruct (guard_none i e G) as (Gn & _ & Gp & _). unfold spf_of, spf_in.
  destruct (a_self_parent e) as [sp|] eqn:SP; [|split; [reflexivity | intros H; elim H; reflexivity]].
  assert (Hsp : In sp (i_proc i)) by (apply Gp; apply self_parent_in_parents; exact SP).
  rewrite get_event_aput_other by (intros ->; exact (Gn Hsp)).
  destruct (j_ev i HJ sp Hsp) as [pe [Gpe [_ [Fp _]]]]. rewrite Gpe. split; [reflexivity | intros _; exact Fp].
Qed.

Lemma roots_pos_J i : J i -> forall r, In r (l_roots (i_st i)) -> r_frame r <> 0.
Proof. intros HJ r Hr. apply (j_roots i HJ) in Hr as [e0 [_ [_ [[H _] _]]]]. lia. Qed.

(* Process accepts an event exactly when its claimed frame is allowed BY THE GRAPH: 1 without a self-parent,
   otherwise >= the self-parent's frame with, for every frame g in between, a quorum of validators owning an
   accepted root slot of g that forkless-causes the event (FcSpec.fc_spec on the DAG including the event). *)
Theorem process_iff_allowed_graph i e : J i -> guard i e true = None ->
  wf_new (length (l_vals (i_st i))) (l_idx (i_st i)) (vev (l_vals (i_st i)) e) ->
  exists s', add (l_idx (i_st i)) (vev (l_vals (i_st i)) e) = Some s' /\
    vinv (length (l_vals (i_st i))) s' /\
    evs s' = (a_id e, vev (l_vals (i_st i)) e) :: evs (l_idx (i_st i)) /\
    (cache_ok (a_id e) (set_idx (i_st i) s') ->
     (fst (fst (process cap eb (aput (a_id e) e (i_es i)) (i_st i) e)) = Err EWrongFrame <->
      ~ allowed_graph i (evs s') e (spf_in (i_es i) e) (a_frame e))).
Proof.
  intros HJ G Hwf. destruct (add_preserves _ _ _ (j_vinv i HJ) Hwf) as (s' & Hadd & I' & Hevs).
  exists s'. split; [exact Hadd|]. split; [exact I'|]. split; [exact Hevs|]. intros Hok.
  set (es1 := aput (a_id e) e (i_es i)).
  destruct (spf_of_ok i e HJ G) as [Hspf Hsp1].
  destruct (frame_pure es1 (l_vals (i_st i)) s' (l_roots (i_st i)) e true) as [[spf fr]|x] eqn:FP.
  2:{ exfalso. unfold frame_pure in FP. fold es1 in Hspf. rewrite Hspf in FP.
      destruct (calc_pure _ _ _ _ _ _ _) eqn:C; [discriminate|].
      eapply calc_pure_fuel; [|exact C]. pose proof (cnt_from_le (l_roots (i_st i)) (spf_in (i_es i) e)). lia. }
  assert (spf = spf_in (i_es i) e).
  { unfold frame_pure in FP. fold es1 in Hspf. rewrite Hspf in FP. destruct (calc_pure _ _ _ _ _ _ _); inversion FP; reflexivity. }
  subst spf.
  destruct (process_frame_check cap eb es1 (i_st i) e s' _ _ Hadd Hok FP) as [c' [Hrej Hacc]].
  pose proof (frame_check_iff_allowed es1 _ _ _ _ _ _ FP (roots_pos_J i HJ) Hsp1) as IFF.
  rewrite (allowed_pure_graph i s' e _ _ HJ I' Hevs) in IFF.
  split.
  - intros Hr Hal. apply IFF in Hal. rewrite (Hacc Hal) in Hr. unfold after_check in Hr.
    match type of Hr with context [handle_election cap eb ?fu es1 ?st2 e ?f []] =>
      pose proof (handle_election_nwf cap eb es1 e fu st2 f []) as NW;
      destruct (handle_election cap eb fu es1 st2 e f []) as [[r2 bl2] st3] end.
    cbn [fst] in *. destruct r2; cbn [fst] in Hr; [discriminate|]. apply NW. exact Hr.
  - intros Hnal. destruct (N.eq_dec (a_frame e) fr) as [Heq|Hne]; [elim Hnal; apply IFF; exact Heq|].
    rewrite (Hrej Hne). reflexivity.
Qed.

(* Build (frame computation of the speculative event a): the highest frame allowed by the graph, <= +100 *)
Theorem build_highest_graph i s' e spf fr : J i ->
  vinv (length (l_vals (i_st i))) s' -> evs s' = (a_id e, vev (l_vals (i_st i)) e) :: evs (l_idx (i_st i)) ->
  frame_pure (i_es i) (l_vals (i_st i)) s' (l_roots (i_st i)) e false = Ok (spf, fr) ->
  (a_self_parent e <> None -> 1 <= spf) ->
  allowed_graph i (evs s') e spf fr /\
  (a_self_parent e <> None -> fr = spf + 100 \/ quorum_graph i (evs s') (a_id e) fr = false).
Proof.
  intros HJ I' Hevs FP Hsp.
  destruct (build_frame_highest _ _ _ _ _ _ _ FP (roots_pos_J i HJ) Hsp) as [Hal Hhi].
  split; [apply (allowed_pure_graph i s' e _ _ HJ I' Hevs); exact Hal|].
  intros H. destruct (Hhi H) as [->|Q]; auto. right. rewrite <- qp_is_quorum_graph; auto.
Qed.

End Composed.

(* ---------- blocks of an accepting Process call, in graph terms (C02 root, C03 cheaters) ---------- *)
Lemma on_frame_decided_block eb es st1 f a sl b st2 :
  on_frame_decided eb es st1 f a = (Ok (sl, b), st2) ->
  b_cheaters b = cheaters_of st1 a /\ b_atropos b = a /\ b_frame b = f.
Proof.
  unfold on_frame_decided, apply_atropos.
  destruct (dfs_confirm _ _ _ _ _ _) as [[dl conf']|x]; [|discriminate]. cbn [b_seal].
  destruct (eb _ _ _ _ _); intros H; inversion H; subst; cbn; auto.
Qed.

Section Blocks.
Variable cap : nat.
Variable eb : N -> N -> N -> list N -> list N -> option vals.

Theorem accepted_blocks_graph i e u bl st' : J i -> elinv (i_st i) -> V (i_st i) -> guard i e true = None ->
  wf_new (length (l_vals (i_st i))) (l_idx (i_st i)) (vev (l_vals (i_st i)) e) ->
  process cap eb (aput (a_id e) e (i_es i)) (i_st i) e = (Ok u, bl, st') ->
  let es1 := aput (a_id e) e (i_es i) in
  let E' := (a_id e, vev (l_vals (i_st i)) e) :: evs (l_idx (i_st i)) in
  forall b, In b bl ->
    (* the Atropos is an accepted event (possibly the one just processed) occupying a root slot of the block's frame *)
    (exists e0, (e0 = e \/ In e0 (acc_events i)) /\ a_id e0 = b_atropos b /\ spf_in es1 e0 < b_frame b <= a_frame e0) /\
    (* the cheaters are the validators with a visible seq-fork below the Atropos, in canonical order *)
    b_cheaters b = visible_forkers (l_vals (i_st i)) E' (b_atropos b).
Proof.
  intros HJ HI HV G Hwf E es1 E' b Hb.
  destruct (guard_none i e G) as (Gn & Gep & Gp & Gc).
  destruct (process_ok_shape cap _ _ _ _ _ _ _ E) as (s' & spf & c1 & Hadd & Hspf & Hle & Hpos & r2 & HE). cbn zeta in HE.
  destruct (add_preserves _ _ _ (j_vinv i HJ) Hwf) as (s'' & Hadd' & I' & Hevs). rewrite Hadd in Hadd'. inversion Hadd'; subst s''. clear Hadd'.
  set (st2 := if spf =? a_frame e then set_fcc (set_idx (i_st i) s') c1 else add_roots (set_fcc (set_idx (i_st i) s') c1) spf e) in *.
  assert (F2 : l_ldf st2 = l_ldf (i_st i) /\ l_el st2 = l_el (i_st i) /\ l_vals st2 = l_vals (i_st i) /\ l_idx st2 = s').
  { unfold st2. destruct (spf =? a_frame e); cbn; auto. }
  destruct F2 as (L2 & El2 & V2 & X2).
  assert (I2 : elinv st2) by (unfold elinv in *; congruence).
  assert (Hnew : spf_in es1 e = spf) by (apply spf_of_in; exact Hspf).
  assert (R2 : forall r, In r (l_roots st2) <-> In r (l_roots (i_st i)) \/ exists g, spf < g <= a_frame e /\ r = (g, a_creator e, a_id e)).
  { intros r. unfold st2. destruct (spf =? a_frame e) eqn:Q.
    - apply N.eqb_eq in Q. cbn [l_roots set_fcc set_idx]. split; [auto | intros [H|[g [H _]]]; [auto | lia]].
    - rewrite add_roots_iff by exact Hle. cbn [l_roots set_fcc set_idx]. reflexivity. }
  assert (V2' : V st2).
  { destruct HV as [H1 H2]. unfold V, goodv, names_root in *. rewrite El2.
    split; intros k vt Hin Y; [destruct (H1 _ _ Hin Y) as [r0 [A B]] | destruct (H2 _ _ Hin Y) as [r0 [A B]]];
      exists r0; (split; [apply R2; left; exact A | exact B]). }
  destruct (handle_election_rooted cap eb es1 e _ _ _ _ _ _ V2' I2 HE) as [AR _].
  pose proof (handle_election_blocks cap eb es1 e _ _ _ _ _ _ I2 HE b Hb) as (st1 & f & a & sl & stx & (SV1 & SV2 & SV3 & SV4) & Hf & OF).
  destruct (on_frame_decided_block _ _ _ _ _ _ _ _ OF) as (Bc & Ba & Bf).
  (* the root *)
  assert (Hroot : exists e0, (e0 = e \/ In e0 (acc_events i)) /\ a_id e0 = b_atropos b /\ spf_in es1 e0 < b_frame b <= a_frame e0).
  { destruct (AR b Hb) as [r [Hr [Hrf Hri]]]. apply R2 in Hr as [Hr|[g [Hg ->]]].
    - apply (j_roots i HJ) in Hr as [e0 [Hin [Hg0 [[S1 S2] [S3 S4]]]]].
      exists e0. split; [right; apply (acc_events_in i e0 HJ); auto|]. split; [congruence|].
      assert (Hs : spf_in es1 e0 = spf_in (i_es i) e0).
      { unfold spf_in. destruct (a_self_parent e0) as [sp|] eqn:SP; auto.
        destruct (j_ev i HJ _ Hin) as [e' [G' [_ [_ [_ Hp]]]]]. rewrite Hg0 in G'. inversion G'; subst e'.
        unfold es1. rewrite get_event_aput_other; auto. intros ->. apply Gn. apply Hp. apply self_parent_in_parents. exact SP. }
      rewrite Hs, <- Hrf. split; assumption.
    - exists e. split; [left; reflexivity|]. unfold r_frame, r_id in *. cbn [fst snd] in *. split; [congruence|]. rewrite Hnew, <- Hrf. exact Hg. }
  split; [exact Hroot|].
  (* the cheaters *)
  rewrite Bc.
  assert (Hidx : l_idx st1 = s') by congruence. assert (Hvals : l_vals st1 = l_vals (i_st i)) by congruence.
  assert (Ea : exists ea, evt (l_idx st1) a ea).
  { destruct Hroot as [e0 [Hor [Hid _]]]. rewrite Hidx. unfold evt. rewrite Hevs. cbn [alookup eid vev fst]. rewrite <- Ba, <- Hid.
    destruct (a_id e0 =? a_id e) eqn:Q; [eexists; reflexivity|]. destruct Hor as [->|Hin]; [rewrite N.eqb_refl in Q; discriminate Q|].
    apply (acc_events_in i e0 HJ) in Hin as [Hin _]. apply (j_proc i HJ) in Hin as [ev Hev]. exists ev. exact Hev. }
  destruct Ea as [ea Ea].
  rewrite (cheaters_graph st1 a ea); [|rewrite Hvals, Hidx; exact I' | exact Ea].
  rewrite Hvals, Hidx, Hevs, Ba. reflexivity.
Qed.

End Blocks.

(* ---------- J over whole runs ---------- *)
Section RunJ.
Variable cap : nat.
Variable pol : policy.
Variable smp : N -> option (list N).

(* every event that passes the application guard is well-formed for the index at that moment *)
Fixpoint ops_wf (i : inst) (ops : list op) : Prop :=
  match ops with
  | [] => True
  | o :: t => op_wf i o /\ (snd (step cap pol smp i o) = false -> ops_wf (snd (fst (step cap pol smp i o))) t)
  end.

(* no operation of the run hits crit / a panic (a dead instance stops; nothing is claimed after that) *)
Fixpoint alive (i : inst) (ops : list op) : Prop :=
  match ops with
  | [] => True
  | o :: t => snd (step cap pol smp i o) = false /\ alive (snd (fst (step cap pol smp i o))) t
  end.

Theorem run_J : forall ops i, J i -> good (i_st i) -> ops_wf i ops -> alive i ops ->
  J (run_inst cap pol smp i ops) /\ good (i_st (run_inst cap pol smp i ops)).
Proof.
  induction ops as [|o t IH]; intros i HJ HG W A; cbn [run_inst]; [split; assumption|].
  destruct W as [W1 W2]. destruct A as [A1 A2].
  pose proof (step_J cap pol smp i o HJ (proj1 HG) W1 A1) as SJ.
  pose proof (step_good cap pol smp i o HG) as SG.
  specialize (W2 A1).
  destruct (step cap pol smp i o) as [[ob i'] dead]. cbn [fst snd] in *. subst dead.
  apply IH; auto.
Qed.

Theorem start_J epoch raw : J (start epoch raw).
Proof.
  unfold start, genesis. constructor; cbn [i_st i_es i_proc l_vals l_idx l_roots].
  - apply vinv_init.
  - apply mk_vals_nodup.
  - intros id. split; [intros [] | intros [ev H]; unfold evt in H; cbn in H; discriminate].
  - intros id [].
  - intros r. split; [intros [] | intros [e [[] _]]].
Qed.

End RunJ.

(* ---------- the exact form of "the Atropos is a stored root" (audit-F issue 1) ---------- *)
Section RootedExact.
Variable cap : nat.
Variable eb : N -> N -> N -> list N -> list N -> option vals.

Theorem process_atropos_rooted_exact es st e r bl st' :
  V st -> elinv st -> process cap eb es st e = (r, bl, st') ->
  exists R,
    (forall r0, In r0 (l_roots st) -> In r0 R) /\
    (forall r0, In r0 R -> In r0 (l_roots st) \/
        (r_val r0 = a_creator e /\ r_id r0 = a_id e /\ r_frame r0 <= a_frame e /\
         exists spf, spf_of es e = Ok spf /\ spf < r_frame r0)) /\
    all_rooted R bl /\
    (sealed_last bl = false -> V st' /\ (r = Ok tt -> l_roots st' = R)).
Proof.
  intros HV I E. unfold process in E.
  destruct (add (l_idx st) (vev (l_vals st) e)) as [s'|].
  2:{ inversion E; subst r bl st'. exists (l_roots st). split; [auto|]. split; [auto|]. split; [intros b []|]. intros _. split; [exact HV|]. intros H; discriminate H. }
  destruct (calc_frame_keys cap es (set_idx st s') e true) as [c1 [S1 _]].
  destruct (calc_frame cap es (set_idx st s') e true) as [[[spf fr]|x] st1] eqn:CF; cbn [snd] in S1; subst st1.
  2:{ inversion E; subst r bl st'. exists (l_roots st). split; [auto|]. split; [auto|]. split; [intros b []|]. intros _. split; [exact HV|]. intros H; discriminate H. }
  destruct (calc_frame_struct _ _ _ _ _ _ _ _ CF) as (F1 & F2 & F3).
  destruct (a_frame e =? fr) eqn:EQ; cbn [negb] in E.
  2:{ inversion E; subst r bl st'. exists (l_roots st). split; [auto|]. split; [auto|]. split; [intros b []|]. intros _. split; [exact HV|]. intros H; discriminate H. }
  apply N.eqb_eq in EQ. subst fr.
  set (st2 := if spf =? a_frame e then set_fcc (set_idx st s') c1 else add_roots (set_fcc (set_idx st s') c1) spf e) in *.
  assert (F : l_ldf st2 = l_ldf st /\ l_el st2 = l_el st) by (unfold st2; destruct (spf =? a_frame e); cbn; auto).
  destruct F as (L2 & El2).
  assert (I2 : elinv st2) by (unfold elinv in *; congruence).
  assert (R2 : forall r0, In r0 (l_roots st2) <-> In r0 (l_roots st) \/ exists g, spf < g <= a_frame e /\ r0 = (g, a_creator e, a_id e)).
  { intros r0. unfold st2. destruct (spf =? a_frame e) eqn:Q.
    - apply N.eqb_eq in Q. cbn [l_roots set_fcc set_idx]. split; [auto | intros [H|[g [H _]]]; [auto | lia]].
    - rewrite add_roots_iff by exact F2. cbn [l_roots set_fcc set_idx]. reflexivity. }
  assert (V2 : V st2).
  { destruct HV as [H1 H2]. unfold V, goodv, names_root in *. rewrite El2.
    split; intros k vt Hin Y; [destruct (H1 _ _ Hin Y) as [r0 [A B]] | destruct (H2 _ _ Hin Y) as [r0 [A B]]];
      exists r0; (split; [apply R2; left; exact A | exact B]). }
  destruct (handle_election cap eb (S (S (N.to_nat (a_frame e - spf)))) es st2 e (spf + 1) []) as [[r2 bl2] st3] eqn:HE.
  destruct (handle_election_rooted cap eb es e _ _ _ _ _ _ V2 I2 HE) as [AR VV].
  pose proof (handle_election_post cap eb es e _ _ _ _ _ _ I2 HE) as [_ [_ P]].
  assert (bl = bl2 /\ st' = st3) as [-> ->] by (destruct r2; inversion E; auto).
  exists (l_roots st2). split; [intros r0 H; apply R2; left; exact H|]. split; [|split; [exact AR|]].
  - intros r0 H. apply R2 in H as [H|[g [Hg ->]]]; auto. right. unfold r_val, r_id, r_frame. cbn [fst snd].
    repeat split; try lia. exists spf. split; [exact F3 | lia].
  - intros NS. split; [apply VV; exact NS|]. intros _. rewrite NS in P. destruct P as (_&_&_&P4&_). exact P4.
Qed.

End RootedExact.
