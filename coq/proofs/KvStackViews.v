(* C22/C24 stated on the model's abstract content [view]: writes, flush, drop, table isolation.
   Derived from the simulation (KvStackWrites) and the specification's own algebra. *)
From Coq Require Import NArith List Lia Bool.
From LV Require Import lib.Bytes lib.BytesFacts lib.Lex lib.SortedMap spec.KvSpec spec.KvOps spec.KvStackSpec
  model.PrefixRange model.Table model.Flushable model.KvStack
  proofs.FlushableIter proofs.TableView proofs.PrefixRangeProofs proofs.KvStackReads proofs.KvStackWrites.
Import ListNotations.

(* every well-formed model state is related to some specification state *)
Lemma R_exists s : wf_st s -> exists ss, R s ss.
Proof.
  induction s as [e m|o|o u IH|p u IH|u IH|o i u IH]; cbn [wf_st]; intros W.
  - exists (SEng m). cbn. tauto.
  - exists (SEng (merge_overlay o [])). cbn. tauto.
  - destruct W as (So & Wo & Wu). destruct (IH Wu) as [su Ru].
    exists (SFlu (flu_ops o) su). cbn. repeat split; auto.
    intros k. symmetry. now apply lastw_flu_ops.
  - destruct W as (Wp & Wu). destruct (IH Wu) as [su Ru]. exists (STab p su). cbn. tauto.
  - destruct (IH W) as [su Ru]. exists (SSyn su). exact Ru.
  - destruct W as (So & Wo & Wu). destruct (IH Wu) as [su Ru].
    exists (SLzy (flu_ops o) i su). cbn. repeat split; auto.
    intros k. symmetry. now apply lastw_flu_ops.
Qed.

Lemma tv_kv_write p ops : forall m, sm_sorted m ->
  kv_table_view p (kv_write m (map (wop_pre p) ops)) = kv_write (kv_table_view p m) ops.
Proof.
  unfold kv_write. induction ops as [|w ops IH]; intros m S; [reflexivity|].
  cbn [map fold_left]. rewrite IH.
  - f_equal. destruct w; cbn; [apply tv_put | apply tv_del]; auto.
  - destruct w; cbn; auto using sm_put_sorted, sm_del_sorted.
Qed.

Lemma sview_swrite s : forall ss ops, R s ss -> sview (swrite ss ops) = kv_write (sview ss) ops.
Proof.
  induction s as [e m|o|o u IH|p u IH|u IH|o i u IH]; intros [m'|log su|p' su|su|log i' su] ops; cbn [R]; try tauto.
  - intros _. cbn. unfold kv_overlay_view, kv_write. now rewrite fold_left_app.
  - intros (-> & Wp & Ru). cbn. rewrite (IH _ _ Ru). apply tv_kv_write.
    rewrite <- (R_view _ _ Ru). apply view_sorted. eapply R_wf; eauto.
  - intros Ru. cbn. now apply IH.
  - intros _. cbn. unfold kv_overlay_view, kv_write. now rewrite fold_left_app.
Qed.

(* writes (direct puts/deletes and batch writes) act on the view as on the abstract map *)
Theorem view_write s ops : wf_st s -> Forall wop_wf ops ->
  view (st_write s ops) = kv_write (view s) ops /\ wf_st (st_write s ops).
Proof.
  intros W F. destruct (R_exists s W) as [ss H].
  pose proof (R_write s ss ops ops H F (fun _ => eq_refl)) as H'.
  split.
  - rewrite (R_view _ _ H'), (R_view _ _ H). now apply (sview_swrite s).
  - eapply R_wf; eauto.
Qed.

Theorem view_put s k v : wf_st s -> wf_bytes k = true ->
  view (st_put s k v) = sm_put (view s) k v /\ wf_st (st_put s k v).
Proof.
  intros W Wk. rewrite st_put_write. apply (view_write s [WPut k v]); auto; repeat constructor; exact Wk.
Qed.

Theorem view_del s k : wf_st s -> wf_bytes k = true ->
  view (st_del s k) = sm_del (view s) k /\ wf_st (st_del s k).
Proof.
  intros W Wk. rewrite st_del_write. apply (view_write s [WDel k]); auto; repeat constructor; exact Wk.
Qed.

(* Flush: the parent becomes the view, the overlay is empty, whatever the batch splits *)
Theorem view_flush ideal o u : wf_st (Flu o u) ->
  exists u', st_flush ideal (Flu o u) = Flu [] u' /\ view u' = view (Flu o u) /\ wf_st u'.
Proof.
  intros (So & Wo & Wu). exists (st_flush_into ideal u o). split; [reflexivity|].
  rewrite st_flush_into_write.
  destruct (view_write u (flu_ops o) Wu (flu_ops_wf o Wo)) as [E W'].
  split; auto. rewrite E. cbn [view]. apply kv_write_flu_ops; auto using view_sorted.
Qed.

Theorem view_drop o u : view (st_drop (Flu o u)) = view u.
Proof. reflexivity. Qed.

(* LazyFlushable: the parent counts as empty until the first Flush, which installs the produced
   store and writes the overlay into it *)
(* InitUnderlyingDb (no flush): from then on reads see the overlay over the PRODUCED store *)
Theorem view_lazy_init o i u : view (st_init (Lzy o i u)) = merge_overlay o (view u) /\
  (wf_st (Lzy o i u) -> wf_st (st_init (Lzy o i u))).
Proof. split; [reflexivity|cbn; tauto]. Qed.

Theorem view_lazy_flush ideal o i u : wf_st (Lzy o i u) ->
  exists u', st_flush ideal (Lzy o i u) = Lzy [] true u' /\ view u' = merge_overlay o (view u) /\ wf_st u'.
Proof.
  intros (So & Wo & Wu). exists (st_flush_into ideal u o). split; [reflexivity|].
  rewrite st_flush_into_write.
  destruct (view_write u (flu_ops o) Wu (flu_ops_wf o Wo)) as [E W'].
  split; auto. rewrite E. apply kv_write_flu_ops; auto using view_sorted.
Qed.

(* ---------- tables: writes touch only their prefix; incomparable tables are isolated ---------- *)

Lemma table_write_outside p u ops k : wf_st (Tab p u) -> Forall wop_wf ops ->
  has_prefix p k = false ->
  exists u', st_write (Tab p u) ops = Tab p u' /\ kv_get (view u') k = kv_get (view u) k.
Proof.
  intros (Wp & Wu) F NP. rewrite st_write_tab. eexists. split; [reflexivity|].
  destruct (view_write u (map (wop_pre p) ops) Wu (wop_wf_pre p ops Wp F)) as [E _].
  rewrite E. unfold kv_get. rewrite kv_write_get by auto using view_sorted.
  now rewrite lastw_map_pre, NP.
Qed.

Lemma table_isolation p q u ops : wf_st (Tab q u) -> Forall wop_wf ops ->
  has_prefix p q = false -> has_prefix q p = false ->
  exists u', st_write (Tab q u) ops = Tab q u' /\ kv_table_view p (view u') = kv_table_view p (view u).
Proof.
  intros (Wq & Wu) F H1 H2. rewrite st_write_tab. eexists. split; [reflexivity|].
  destruct (view_write u (map (wop_pre q) ops) Wu (wop_wf_pre q ops Wq F)) as [E W'].
  apply sm_ext; auto using tv_sorted, view_sorted.
  intros k. rewrite !tv_get by auto using view_sorted.
  rewrite E, kv_write_get by auto using view_sorted.
  rewrite lastw_map_pre. now rewrite (incomparable_other q p k H2 H1).
Qed.

Lemma view_nested p q u : wf_st u -> view (Tab q (Tab p u)) = kv_table_view (p ++ q) (view u).
Proof. intros W. cbn [view]. apply tv_nested. now apply view_sorted. Qed.
