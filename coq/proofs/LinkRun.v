(* L1, assembly: the run of the abft model (Build + Process per event, rendered as the reference's
   output) equals the reference on every valid run:  Link_full.
   Induction over the event sequence with the simulation Sim (proofs/LinkStep.v); per event the Build
   step (LinkBuild.build_step) and the Process step (LinkStep.process_step). *)
From Coq Require Import NArith ZArith List Lia Bool ZifyBool ZifyN ZifyNat.
From LV Require Import lib.Bytes lib.VecListFacts model.Codec model.VecIndex spec.FcSpec model.Abft model.AbftRun spec.ElectionSpec
  lib.WSumBft proofs.VecInv proofs.VecMain proofs.AbftFrame proofs.AbftBuild
  proofs.BftCore proofs.BftElection proofs.BftMono proofs.BftGraph proofs.BftMain proofs.BftRun proofs.BftAccept proofs.BftProps
  proofs.LinkVals proofs.LinkDefs proofs.LinkSim proofs.LinkVote proofs.LinkElect proofs.LinkStep proofs.LinkBuild.
Import ListNotations.
Local Open Scope N_scope.

Section Run.
Variable cap : nat.
Variable ep : N.
Variable lam : fev -> N.
Variable vals : list (N * N).
Hypothesis Hvals : vals_ok vals.

Notation ws := (map snd vals).
Notation nv := (length vals).
Notation q := (ElectionSpec.quorum_of ws).
Notation fcn := (fc_n ws q).
Notation ae := (to_aevent ep lam vals).
Notation decideT T f := (decide node nd_id nd_cr nd_fr nd_spf fcn ws q (canon_order vals) T f (max_frame node nd_fr T)).

(* the reference's verdict on an accepted event carries the highest allowed frame *)
Lemma add_event_high T e T' h : add_event vals T e = (T', (0, h)) -> h = r_frame_high vals T (mk_node nv T e).
Proof.
  unfold add_event. destruct (_ || _ || _); [intros H; inversion H|].
  destruct (negb (ev_wf_b T e)); [intros H; inversion H|].
  destruct (r_frame_ok vals T (mk_node nv T e)); intros H; inversion H; reflexivity.
Qed.
Lemma add_event_incl T e : incl T (fst (add_event vals T e)).
Proof.
  unfold add_event. destruct (_ || _ || _); [apply incl_refl|].
  destruct (negb (ev_wf_b T e)); [apply incl_refl|].
  destruct (r_frame_ok vals T (mk_node nv T e)); cbn [fst]; [intros x Hx; right; exact Hx | apply incl_refl].
Qed.
Lemma add_events_incl D : forall T, incl T (fst (add_events vals T D)).
Proof.
  induction D as [|e D IH]; intros T; cbn [add_events]; [apply incl_refl|].
  pose proof (add_event_incl T e) as H1. destruct (add_event vals T e) as [T1 r]. cbn [fst] in H1.
  pose proof (IH T1) as H2. destruct (add_events vals T1 D) as [T2 rs]. cbn [fst] in *.
  intros x Hx. apply H2, H1, Hx.
Qed.

(* ---------- from the final simulation to the reference's block list ---------- *)
Lemma decide_atropos_lt T f a : decideT T f = Atropos a -> f < max_frame node nd_fr T.
Proof.
  intros H. destruct (N.lt_ge_cases f (max_frame node nd_fr T)) as [L|L]; [exact L|]. exfalso.
  unfold decide in H. replace (N.to_nat (max_frame node nd_fr T - f)) with 0%nat in H by lia.
  cbn [run_rounds] in H. destruct (canon_order vals) as [|v rest]; cbn [choose] in H; [discriminate|].
  rewrite nth_repeat_none in H. discriminate.
Qed.
Lemma seg_bound T L0 B L1 : Seg vals T L0 B L1 ->
  L1 = L0 + N.of_nat (length B) /\ (B = [] \/ L1 < max_frame node nd_fr T).
Proof.
  induction 1 as [L|L a t L1 Hd Hs [IH1 IH2]]; [split; [cbn; lia | left; reflexivity]|].
  split; [cbn [length]; lia|]. right. destruct IH2 as [->|IH2]; [|exact IH2].
  cbn [length] in IH1. apply decide_atropos_lt in Hd. lia.
Qed.
Lemma blocks_of_seg T : forall B L0 L1 fuel, Seg vals T L0 B L1 ->
  (forall a, decideT T (L1 + 1) <> Atropos a) -> (length B <= fuel)%nat ->
  blocks_from node nd_id nd_cr nd_fr nd_spf fcn ws q (canon_order vals) T fuel (L0 + 1) = B.
Proof.
  intros B L0 L1 fuel HS. revert fuel. induction HS as [L|L a t L1 Hd Hs IH]; intros fuel Hn Hl.
  - destruct fuel as [|fu]; cbn [blocks_from]; [reflexivity|].
    destruct (decideT T (L + 1)) eqn:E; try reflexivity. exfalso. exact (Hn _ eq_refl).
  - destruct fuel as [|fu]; [cbn [length] in Hl; lia|]. cbn [blocks_from]. rewrite Hd. f_equal.
    apply IH; [exact Hn | cbn [length] in Hl; lia].
Qed.

Lemma cheat_map T (B : list (N * N * list N)) :
  (forall b, In b B -> snd b = ElectionSpec.cheaters_of vals T (snd (fst b))) ->
  B = map (fun b : N * N => (fst b, snd b, ElectionSpec.cheaters_of vals T (snd b))) (map fst B).
Proof.
  induction B as [|[[f a] ch] t IH]; intros H; cbn [map]; [reflexivity|].
  rewrite <- IH by (intros b Hb; apply H; right; exact Hb).
  pose proof (H _ (or_introl eq_refl)) as H0. cbn [fst snd] in H0 |- *. rewrite H0. reflexivity.
Qed.

Variable J : N -> Prop.
Variable K : N.
Hypothesis HJ : forall a, J a -> id_fresh K a.
Notation Sim := (Sim ep lam vals J K).

(* ---------- the run ---------- *)
Lemma run_sim : forall D i T Dr B, Sim i T Dr B -> codes_ok (snd (add_events vals T D)) ->
  (forall e, In e D -> id_fresh K (eid (fe e)) /\ ~ J (eid (fe e))) -> few_forkers vals (fst (add_events vals T D)) ->
  l_ctr (i_st i) + N.of_nat (length D) < 2 ^ 192 -> l_ctr (i_st i) + N.of_nat (length D) <= K ->
  exists i' B', render (run cap [] sample i (abft_ops ep lam vals D)) = (snd (add_events vals T D), B') /\
    Sim i' (fst (add_events vals T D)) (rev D ++ Dr) (B ++ B').
Proof.
  induction D as [|e D IH]; intros i T Dr B HS Hc Hf Hff Hctr HK.
  - exists i, []. cbn. rewrite app_nil_r. split; [reflexivity | exact HS].
  - cbn [add_events] in *. destruct (add_event vals T e) as [T1 r] eqn:AE.
    pose proof (add_events_incl D T1) as Inc.
    destruct (add_events vals T1 D) as [T2 rs] eqn:AEs. cbn [fst snd] in *.
    assert (Hr : fst r = 0) by (apply Hc; left; reflexivity).
    destruct r as [c h]. cbn [fst] in Hr. subst c.
    pose proof (add_event_high T e T1 h AE) as Hh.
    destruct (add_event_accept vals T e T1 h AE) as (-> & PK & NL & CR & EW & FO).
    (* Build *)
    destruct (build_step cap ep lam vals Hvals J K HJ i T Dr B e HS PK CR EW NL FO ltac:(cbn [length] in Hctr; lia) ltac:(cbn [length] in HK; lia)) as [i1 [EB [HS1 Ct1]]].
    (* Process *)
    assert (Hff1 : few_forkers vals (mk_node nv T e :: T)) by (eapply few_forkers_sub; [exact Inc | exact Hff]).
    destruct (process_step cap ep lam vals Hvals J K i1 T Dr B e HS1 (proj1 (Hf e (or_introl eq_refl))) (proj2 (Hf e (or_introl eq_refl))) PK NL CR EW FO Hff1)
      as [bl [i2 [EP [HS2 Ct2]]]].
    destruct (IH i2 (mk_node nv T e :: T) (e :: Dr) (B ++ map blk_obs bl) HS2) as [i' [B' [ER HS']]].
    { rewrite AEs. cbn [snd]. intros r Hr. apply Hc. right. exact Hr. }
    { intros e0 He0. apply Hf. right. exact He0. }
    { rewrite AEs. exact Hff. }
    { cbn [length] in Hctr. lia. }
    { cbn [length] in HK. lia. }
    rewrite AEs in ER, HS'. cbn [fst snd] in ER, HS'.
    exists i', (map blk_obs bl ++ B'). split.
    + change (abft_ops ep lam vals (e :: D)) with (OpB (ae e) :: OpP (ae e) :: abft_ops ep lam vals D).
      cbn [run]. rewrite EB. cbn [run]. rewrite EP. cbn [render]. rewrite ER. rewrite Hh. reflexivity.
    + cbn [rev]. rewrite <- !app_assoc. cbn [app]. rewrite <- app_assoc in HS'. exact HS'.
Qed.

(* ---------- the initial instance ---------- *)
Lemma Sim_start : (0 < nv)%nat -> Sim (start ep vals) [] [] [].
Proof.
  intros Hnv. unfold start. rewrite (proj1 Hvals).
  constructor; cbn [i_st i_es i_proc genesis l_ctr l_ldf].
  - constructor.
  - exists (fun _ => False). split.
    + constructor; cbn [genesis l_ldf l_el l_fcc].
      * constructor; cbn [genesis l_vals l_epoch l_idx l_roots]; try reflexivity.
        -- constructor.
        -- apply vinv_init.
        -- intros e [].
        -- intros x [].
        -- constructor.
        -- intros r. split; [intros [] | intros [n [f [[] _]]]].
      * intros a b r H. discriminate.
      * apply EI_reset.
      * unfold choose_atropos, el_reset. cbn [el_vals el_decided el_frame]. destruct vals as [|[x w] t]; [cbn in Hnv; lia | reflexivity].
    + intros m g _ Hm. destruct Hm.
  - intros e [].
  - lia.
  - intros id. reflexivity.
  - constructor.
  - intros b [].
Qed.

End Run.

(* ================= L1 ================= *)
Theorem link_full cap lam : Link_full cap lam.
Proof.
  intros vals D [Hvals [Hfresh Hlen]] [Hacc Hff].
  destruct D as [|e0 D0].
  - (* no event: both sides are empty *) reflexivity.
  - set (D := e0 :: D0) in *.
    assert (Hnv : (0 < length vals)%nat).
    { unfold all_accepted in Hacc. unfold D in Hacc. cbn [add_events] in Hacc.
      destruct (add_event vals [] e0) as [T1 r] eqn:AE. destruct (add_events vals T1 D0) as [T2 rs].
      cbn [snd] in Hacc. assert (Hr : fst r = 0) by (apply Hacc; left; reflexivity). destruct r as [c h]. cbn in Hr. subst c.
      destruct (add_event_accept vals [] e0 T1 h AE) as (_ & _ & _ & CR & _). lia. }
    destruct (run_sim cap 1 lam vals Hvals (fun _ => False) (N.of_nat (length D)) (fun a (F : False) => match F with end) D (start 1 vals) [] [] [] (Sim_start 1 lam vals Hvals (fun _ => False) (N.of_nat (length D)) (fun a (F : False) => match F with end) Hnv) Hacc (fun e He => conj (Hfresh e He) (fun F => F)) Hff) as [i' [B' [ER HS]]].
    { cbn [start i_st genesis l_ctr]. lia. }
    { cbn [start i_st genesis l_ctr]. lia. }
    unfold abft_run. rewrite ER. unfold reference. unfold table in Hff.
    destruct (add_events vals [] D) as [T rs] eqn:AEs. cbn [fst snd] in *. f_equal.
    destruct HS as [W Dn _ _ _ SG CH]. cbn [app] in SG, CH.
    rewrite (cheat_map vals T B' CH). f_equal.
    unfold r_blocks, blocks_spec. symmetry.
    destruct (seg_bound vals T 0 (map fst B') _ SG) as [EL BD].
    apply (blocks_of_seg cap vals T (map fst B') 0 _ _ SG).
    + apply (Done_undecided 1 lam vals Hvals T (rev D ++ []) _ _ Hff W _ Dn).
    + destruct BD as [->|BD]; [cbn; lia | lia].
Qed.

(* C01 for the model of the code: any parents-first arrangement of any subset of a valid run is accepted
   and yields a prefix of the blocks; the same set yields the same blocks *)
Theorem link_C01 cap lam : C01_full_on link_side (abft_run cap lam).
Proof. apply C01_on_from_refinement; [exact link_side_sub | apply link_full]. Qed.
