(* L1, brick 1: the simulation relation between a state of the abft model and a table of the
   reference, and the forkless-cause brick: every ForklessCause query the consensus code makes
   (through the LRU, whatever it holds) returns the reference's fc_n on the two nodes.
   Index correctness is taken from worker vecidx (fc_eq_spec: vinv => fc = FcSpec.fc_spec) and
   from worker bft (fcn_is_fc_spec: fc_n = FcSpec.fc_spec); nothing is re-proved. *)
From Coq Require Import NArith ZArith List Lia Bool ZifyBool ZifyN ZifyNat.
From LV Require Import lib.Bytes model.Codec model.VecIndex spec.FcSpec model.Abft model.AbftRun spec.ElectionSpec
  lib.WSumBft proofs.FcSpecFacts proofs.VecInv proofs.VecStep proofs.VecMain
  proofs.AbftFrame proofs.AbftCount proofs.AbftIds proofs.AbftBuild
  proofs.BftGraph proofs.BftMain proofs.BftRun proofs.BftFcSpec proofs.BftAccept
  proofs.LinkVals proofs.LinkDefs.
Import ListNotations.
Local Open Scope N_scope.

Lemma quorum_of_pos ws : 0 < ElectionSpec.quorum_of ws.
Proof. unfold ElectionSpec.quorum_of. lia. Qed.

Lemma id_fresh_not_temp K x n : n <= K -> id_fresh K x -> ~ is_temp n x.
Proof. intros L F (ep0 & lm & c & t & Bc & S & E). apply F. exists ep0, lm, c, t. split; [lia | auto]. Qed.

Section Sim.
Variable cap : nat.
Variable ep : N.
Variable lam : fev -> N.
Variable vals : list (N * N).
Hypothesis Hvals : vals_ok vals.

Notation ws := (map snd vals).
Notation nv := (length vals).
Notation q := (ElectionSpec.quorum_of ws).
Notation fcn := (fc_n ws q).
Notation ae := (to_aevent ep lam vals).
Notation rts := (roots_at node nd_fr nd_spf).

Lemma vals_nodup : NoDup (v_ids vals).
Proof. apply canonical_nodup. apply Hvals. Qed.
Lemma vq_eq : v_quorum vals = q.
Proof. apply v_quorum_eq. apply Hvals. Qed.

(* the root-table entry of node n for frame f *)
Definition slot (n : node) (f : N) : root := (f, vid vals (nd_cr n), nd_id n).

(* keys that may carry stale answers: temporary ids of earlier Builds (counter <= c) and the ids J of
   events whose Process was rejected *)
Definition stale (J : N -> Prop) (c : N) : N -> Prop := fun a => is_temp c a \/ J a.

(* cached forkless-cause answers: under a possibly stale key k (never queried again for a node of the
   table), or the reference's answer on two nodes of the table *)
Definition cache_inv (k : N -> Prop) (st : lstate) (Ta Tb : list node) : Prop :=
  forall a b r, cache_get (a, b) (l_fcc st) = Some r ->
    k a \/
    exists na nb, In na Ta /\ In nb Tb /\ nd_id na = a /\ nd_id nb = b /\ r = fcn na nb.

(* everything but the cache and the election.  T / Dr: the table of the indexed events; R: the nodes
   whose root slots are stored (R = T between calls; inside Process the index is one event ahead of
   the root table until the frame check has passed; inside Build it is the temporary event) *)
Record Core (st : lstate) (es : estore) (T : list node) (Dr : list fev) (R : list node) : Prop := {
  co_wf : wfTD vals T Dr;
  co_vals : l_vals st = vals;
  co_epoch : l_epoch st = ep;
  co_vinv : vinv nv (l_idx st);
  co_evs : evs (l_idx st) = E_of Dr;
  co_es : forall e, In e Dr -> (exists n, In n R /\ nd_id n = eid (fe e)) -> get_event es (eid (fe e)) = Some (ae e);
  co_sub : incl R T;
  co_nodup : NoDup (l_roots st);
  co_roots : forall r, In r (l_roots st) <-> exists n f, In n R /\ is_root_at node nd_fr nd_spf f n = true /\ r = slot n f }.

Lemma Core_fcc st es T Dr R c : Core st es T Dr R -> Core (set_fcc st c) es T Dr R.
Proof. intros [A B C D E F G H I]. constructor; auto. Qed.
Lemma Core_ctr st es T Dr R c : Core st es T Dr R -> Core (set_ctr st c) es T Dr R.
Proof. intros [A B C D E F G H I]. constructor; auto. Qed.
Lemma Core_el st es T Dr R el : Core st es T Dr R -> Core (set_el st el) es T Dr R.
Proof. intros [A B C D E F G H I]. constructor; auto. Qed.

Lemma Core_wfT st es T Dr R : Core st es T Dr R -> wfT vals T.
Proof. intros C. eapply wfTD_wfT. apply (co_wf _ _ _ _ _ C). Qed.

(* nodes and input events *)
Lemma node_event T Dr n : wfTD vals T Dr -> In n T ->
  exists e, In e Dr /\ eid (fe e) = nd_id n /\ ecr (fe e) = nd_cr n /\ eseq (fe e) = nd_seq n /\ ffr e = nd_fr n.
Proof.
  intros W. induction W as [|T Dr e W IH PK NL CR EW FO]; intros Hin; [destruct Hin|].
  destruct Hin as [<-|Hin].
  - exists e. split; [left; reflexivity|]. repeat split.
  - destruct (IH Hin) as [e' [He' R]]. exists e'. split; [right; exact He' | exact R].
Qed.
Lemma event_node T Dr e : wfTD vals T Dr -> In e Dr ->
  exists n, In n T /\ eid (fe e) = nd_id n /\ ecr (fe e) = nd_cr n /\ eseq (fe e) = nd_seq n /\ ffr e = nd_fr n.
Proof.
  intros W. induction W as [|T Dr e0 W IH PK NL CR EW FO]; intros Hin; [destruct Hin|].
  destruct Hin as [<-|Hin].
  - eexists. split; [left; reflexivity|]. repeat split.
  - destruct (IH Hin) as [n [Hn R]]. exists n. split; [right; exact Hn | exact R].
Qed.

Lemma node_evt st es T Dr R n : Core st es T Dr R -> In n T -> exists ev, evt (l_idx st) (nd_id n) ev.
Proof.
  intros C Hn. destruct (link_node vals T Dr n (co_wf _ _ _ _ _ C) Hn) as [ev [E _]].
  exists ev. unfold evt. rewrite (co_evs _ _ _ _ _ C). exact E.
Qed.

(* ---------- the index' answer is the reference's ---------- *)
Lemma fcp_sim st es T Dr R na nb : Core st es T Dr R -> In na T -> In nb T ->
  fcp vals (l_idx st) (nd_id na) (nd_id nb) = fcn na nb.
Proof.
  intros C Ha Hb. unfold fcp.
  destruct (node_evt _ _ _ _ _ na C Ha) as [ea Ea]. destruct (node_evt _ _ _ _ _ nb C Hb) as [eb Eb].
  rewrite vq_eq. change (v_weights vals) with ws.
  rewrite (fc_eq_spec nv (l_idx st) (co_vinv _ _ _ _ _ C) ws q (nd_id na) (nd_id nb) ea eb (quorum_of_pos ws) Ea Eb).
  rewrite (co_evs _ _ _ _ _ C). symmetry. apply (fcn_is_fc_spec vals T Dr na nb (co_wf _ _ _ _ _ C) Ha Hb).
Qed.

(* ---------- Index.ForklessCause through the LRU ---------- *)
Lemma fc_cached_sim st es T Dr R k Ta Tb na nb : Core st es T Dr R -> cache_inv k st Ta Tb ->
  incl Ta T -> incl Tb T -> In na Ta -> In nb Tb -> ~ k (nd_id na) ->
  exists c', fc_cached cap st (nd_id na) (nd_id nb) = (fcn na nb, set_fcc st c') /\ cache_inv k (set_fcc st c') Ta Tb.
Proof.
  intros C CI Sa Sb Ha Hb NT. unfold fc_cached.
  pose proof (Core_wfT _ _ _ _ _ C) as W.
  destruct (cache_get (nd_id na, nd_id nb) (l_fcc st)) as [r|] eqn:G.
  - assert (Hr : r = fcn na nb).
    { destruct (CI _ _ _ G) as [Tm|(na' & nb' & Ia & Ib & Ea & Eb & ->)].
      - exfalso. exact (NT Tm).
      - rewrite (wf_inj vals T W na' na (Sa _ Ia) (Sa _ Ha) Ea), (wf_inj vals T W nb' nb (Sb _ Ib) (Sb _ Hb) Eb). reflexivity. }
    subst r. eexists. split; [reflexivity|].
    intros a b r H. cbn [l_fcc set_fcc] in H. rewrite cache_get_touch in H.
    destruct (pair_eqb (a, b) (nd_id na, nd_id nb)) eqn:E.
    + apply pair_eqb_eq in E. inversion E; subst. inversion H; subst. right. exists na, nb. auto.
    + exact (CI _ _ _ H).
  - rewrite (co_vals _ _ _ _ _ C). fold (fcp vals (l_idx st) (nd_id na) (nd_id nb)).
    rewrite (fcp_sim _ _ _ _ _ _ _ C (Sa _ Ha) (Sb _ Hb)). eexists. split; [reflexivity|].
    intros a b r H. cbn [l_fcc set_fcc] in H. unfold cache_add in H. apply cache_get_firstn in H.
    rewrite cache_get_touch in H.
    destruct (pair_eqb (a, b) (nd_id na, nd_id nb)) eqn:E.
    + apply pair_eqb_eq in E. inversion E; subst. inversion H; subst. right. exists na, nb. auto.
    + exact (CI _ _ _ H).
Qed.

(* a list of root-table entries that stand for nodes of the table *)
Definition roots_for (T : list node) (frs : list root) (ms : list node) : Prop :=
  Forall2 (fun r m => In m T /\ r_id r = nd_id m /\ r_val r = vid vals (nd_cr m)) frs ms.

(* observedRoots *)
Lemma observed_loop_sim st es T Dr R k Ta Tb na : Core st es T Dr R -> incl Ta T -> incl Tb T -> In na Ta ->
  ~ k (nd_id na) ->
  forall frs ms, roots_for Tb frs ms -> forall st0 acc, (exists c0, st0 = set_fcc st c0) -> cache_inv k st0 Ta Tb ->
  exists c' obs, observed_loop cap st0 (nd_id na) frs acc = (rev acc ++ obs, set_fcc st c') /\
                 cache_inv k (set_fcc st c') Ta Tb /\
                 roots_for Tb obs (filter (fcn na) ms) /\ (forall r, In r obs -> In r frs).
Proof.
  intros C Sa Sb Ha NT. induction 1 as [|r m frs ms [Hm [Eid Ev]] F IH]; intros st0 acc [c0 ->] CI; cbn [observed_loop filter].
  - exists c0, []. rewrite app_nil_r. repeat split; auto. constructor.
  - rewrite Eid.
    destruct (fc_cached_sim (set_fcc st c0) es T Dr R k Ta Tb na m (Core_fcc _ _ _ _ _ _ C) CI Sa Sb Ha Hm NT) as [c1 [E1 CI1]].
    rewrite E1. replace (set_fcc (set_fcc st c0) c1) with (set_fcc st c1) in * by reflexivity.
    destruct (IH (set_fcc st c1) (if fcn na m then r :: acc else acc) (ex_intro _ c1 eq_refl) CI1) as [c2 [obs [E2 [CI2 [R2 S2]]]]].
    rewrite E2. destruct (fcn na m) eqn:Fc.
    + exists c2, (r :: obs). cbn [rev]. rewrite <- app_assoc. cbn [app]. repeat split; auto.
      * constructor; auto.
      * intros r0 [<-|H0]; [left; reflexivity | right; apply S2; exact H0].
    + exists c2, obs. repeat split; auto. intros r0 H0. right. apply S2. exact H0.
Qed.

(* forklessCausedByQuorumOn: the verdict is the cache-free one *)
Lemma fcq_loop_sim st es T Dr R k Ta Tb na : Core st es T Dr R -> incl Ta T -> incl Tb T -> In na Ta ->
  ~ k (nd_id na) ->
  forall frs ms, roots_for Tb frs ms -> forall st0 c, (exists c0, st0 = set_fcc st c0) -> cache_inv k st0 Ta Tb ->
  exists c', fcq_loop cap st0 (nd_id na) frs c = (fcq_pure vals (l_idx st) (nd_id na) frs c, set_fcc st c') /\
             cache_inv k (set_fcc st c') Ta Tb.
Proof.
  intros C Sa Sb Ha NT. induction 1 as [|r m frs ms [Hm [Eid Ev]] F IH]; intros st0 c [c0 ->] CI; cbn [fcq_loop fcq_pure].
  - exists c0. cbn [l_vals set_fcc]. rewrite (co_vals _ _ _ _ _ C). split; [reflexivity | exact CI].
  - rewrite Eid.
    destruct (fc_cached_sim (set_fcc st c0) es T Dr R k Ta Tb na m (Core_fcc _ _ _ _ _ _ C) CI Sa Sb Ha Hm NT) as [c1 [E1 CI1]].
    rewrite E1. replace (set_fcc (set_fcc st c0) c1) with (set_fcc st c1) in * by reflexivity.
    cbn [l_vals set_fcc]. rewrite (co_vals _ _ _ _ _ C).
    rewrite (fcp_sim _ _ _ _ _ _ _ C (Sa _ Ha) (Sb _ Hm)).
    destruct (has_quorum vals _) eqn:Q.
    + exists c1. split; [reflexivity | exact CI1].
    + destruct (IH (set_fcc st c1) (if fcn na m then snd (count_id vals c (r_val r)) else c) (ex_intro _ c1 eq_refl) CI1)
        as [c2 [E2 CI2]].
      exists c2. split; [exact E2 | exact CI2].
Qed.

(* ---------- the root table and the reference's roots ---------- *)
Lemma roots_for_map Tb ms g : (forall m, In m ms -> In m Tb) -> roots_for Tb (map (fun m => slot m g) ms) ms.
Proof.
  induction ms as [|m t IH]; intros H; cbn [map]; constructor.
  - repeat split. apply H. left. reflexivity.
  - apply IH. intros m' Hm'. apply H. right. exact Hm'.
Qed.

(* observedRoots over the stored roots of a frame: exactly the entries of the observed nodes, in table order *)
Lemma observed_loop_map st es T Dr R k Ta Tb na g : Core st es T Dr R -> incl Ta T -> incl Tb T -> In na Ta ->
  ~ k (nd_id na) ->
  forall ms, (forall m, In m ms -> In m Tb) -> forall st0 acc, (exists c0, st0 = set_fcc st c0) -> cache_inv k st0 Ta Tb ->
  exists c', observed_loop cap st0 (nd_id na) (map (fun m => slot m g) ms) acc =
               (rev acc ++ map (fun m => slot m g) (filter (fcn na) ms), set_fcc st c') /\
             cache_inv k (set_fcc st c') Ta Tb.
Proof.
  intros C Sa Sb Ha NT. induction ms as [|m ms IH]; intros Hms st0 acc [c0 ->] CI; cbn [map observed_loop filter].
  - exists c0. rewrite app_nil_r. split; [reflexivity | exact CI].
  - change (r_id (slot m g)) with (nd_id m).
    destruct (fc_cached_sim (set_fcc st c0) es T Dr R k Ta Tb na m (Core_fcc _ _ _ _ _ _ C) CI Sa Sb Ha
                (Hms m (or_introl eq_refl)) NT) as [c1 [E1 CI1]].
    rewrite E1. replace (set_fcc (set_fcc st c0) c1) with (set_fcc st c1) in * by reflexivity.
    destruct (IH (fun m' H' => Hms m' (or_intror H')) (set_fcc st c1) (if fcn na m then slot m g :: acc else acc)
                (ex_intro _ c1 eq_refl) CI1) as [c2 [E2 CI2]].
    rewrite E2. exists c2. split; [|exact CI2]. destruct (fcn na m); cbn [rev map]; [rewrite <- app_assoc|]; reflexivity.
Qed.

Lemma slot_frame n f : r_frame (slot n f) = f. Proof. reflexivity. Qed.
Lemma slot_id n f : r_id (slot n f) = nd_id n. Proof. reflexivity. Qed.
Lemma slot_val n f : r_val (slot n f) = vid vals (nd_cr n). Proof. reflexivity. Qed.

Lemma slot_inj T n m f g : wfT vals T -> In n T -> In m T -> slot n f = slot m g -> n = m /\ f = g.
Proof.
  intros W Hn Hm E. unfold slot in E. inversion E. split; [|reflexivity]. apply (wf_inj vals T W); auto.
Qed.

(* the stored roots of frame f stand for the reference's roots of frame f (among the nodes R) *)
Lemma frame_roots_for st es T Dr R f : Core st es T Dr R ->
  exists ms, roots_for R (get_frame_roots st f) ms /\
             (forall m, In m ms <-> In m (rts R f)) /\
             get_frame_roots st f = map (fun m => slot m f) ms /\ NoDup ms.
Proof.
  intros C.
  assert (ND : forall ms, get_frame_roots st f = map (fun m => slot m f) ms -> NoDup ms).
  { intros ms E. apply (NoDup_map_inv (fun m => slot m f)). rewrite <- E. unfold get_frame_roots.
    apply NoDup_filter. apply (co_nodup _ _ _ _ _ C). }
  unfold get_frame_roots in *.
  assert (G : forall l : list root, (forall r, In r l -> In r (l_roots st)) ->
            exists ms, roots_for R (filter (fun r => r_frame r =? f) l) ms /\
                       (forall m, In m ms -> In m (rts R f)) /\
                       filter (fun r => r_frame r =? f) l = map (fun m => slot m f) ms).
  { induction l as [|r l IH]; intros Hl; cbn [filter].
    - exists []. repeat split; [constructor | intros m []].
    - destruct IH as [ms [RF [I M]]]; [intros r0 H0; apply Hl; right; exact H0|].
      destruct (r_frame r =? f) eqn:E.
      + apply N.eqb_eq in E. destruct (proj1 (co_roots _ _ _ _ _ C r) (Hl r (or_introl eq_refl))) as [n [g [Hn [Hr ->]]]].
        rewrite slot_frame in E. subst g. exists (n :: ms). split; [|split].
        * constructor; [repeat split; auto | exact RF].
        * intros m [<-|Hm]; [|apply I; exact Hm]. unfold roots_at. apply filter_In. auto.
        * cbn [map]. f_equal. exact M.
      + exists ms. auto. }
  destruct (G (l_roots st) (fun r H => H)) as [ms [RF [I M]]].
  exists ms. split; [exact RF|]. split; [|split; [exact M | apply ND; exact M]].
  intros m. split; [apply I|]. intros Hm. unfold roots_at in Hm. apply filter_In in Hm as [Hm Hr].
  assert (Hin : In (slot m f) (filter (fun r => r_frame r =? f) (l_roots st))).
  { apply filter_In. split; [|rewrite slot_frame; apply N.eqb_refl]. apply (co_roots _ _ _ _ _ C). exists m, f. auto. }
  rewrite M in Hin. apply in_map_iff in Hin as [m' [E Hm']].
  pose proof (co_sub _ _ _ _ _ C) as Sub.
  assert (Hm'R : In m' R). { apply I in Hm'. unfold roots_at in Hm'. apply filter_In in Hm'. apply Hm'. }
  destruct (slot_inj T m' m f f (Core_wfT _ _ _ _ _ C)) as [-> _]; auto.
Qed.

End Sim.
