(* Vector-level facts about HighestBefore computation (model/VecIndex.v): CollectFrom is a
   pointwise merge; setForkDetected / the two fork-detection passes act block-wise per creator. *)
From Coq Require Import List Arith NArith Bool Lia.
From LV Require Import model.VecIndex lib.VecListFacts.
Import ListNotations.
Open Scope N_scope.

Definition FORK : hbs := (0, FORKM).
Lemma is_fork_FORK : is_fork FORK = true.
Proof. reflexivity. Qed.
Lemma is_fork_eq x : is_fork x = true -> x = FORK.
Proof.
  destruct x as [a b]. unfold is_fork, FORK. cbn [fst snd]. intros H. apply andb_true_iff in H. destruct H as [H1 H2].
  apply N.eqb_eq in H1, H2. subst. reflexivity.
Qed.
Lemma is_fork_fst x : is_fork x = true -> fst x = 0.
Proof. intros H. apply is_fork_eq in H. subst. reflexivity. Qed.

(* ---------- generic pointwise folds ---------- *)
Lemma fold_pointwise (step : list hbs -> nat -> list hbs) (g : nat -> hbs -> hbs) :
  (forall v b i, hb_get (step v b) i = if Nat.eqb i b then g b (hb_get v b) else hb_get v i) ->
  forall l v i, NoDup l ->
    hb_get (fold_left step l v) i = if existsb (Nat.eqb i) l then g i (hb_get v i) else hb_get v i.
Proof.
  intros Hs. induction l as [|b l IH]; intros v i Hnd; cbn [fold_left existsb]; [reflexivity|].
  inversion Hnd as [|? ? Hnotin Hnd']; subst. rewrite IH by exact Hnd'. rewrite !Hs.
  destruct (Nat.eqb_spec i b) as [->|Hne]; cbn [orb].
  - destruct (existsb (Nat.eqb b) l) eqn:Hex; [|reflexivity].
    apply existsb_nat_mem in Hex. contradiction.
  - reflexivity.
Qed.

(* ---------- CollectFrom ---------- *)
Definition merge1 (m h : hbs) : hbs :=
  if (fst h =? 0) && negb (is_fork h) then m else
  if is_fork m then m else
  if is_fork h then FORK else
  let m1 := if (fst m =? 0) || (snd h <? snd m) then (fst m, snd h) else m in
  if fst m1 <? fst h then (fst h, snd m1) else m1.

Lemma collect_step_get his mine b i :
  hb_get ((fun mine b =>
    let h := hb_get his b in
    if (fst h =? 0) && negb (is_fork h) then mine else
    let m := hb_get mine b in
    if is_fork m then mine else
    if is_fork h then hb_set mine b (0, FORKM) else
      let m1 := if (fst m =? 0) || (snd h <? snd m) then (fst m, snd h) else m in
      let m2 := if fst m1 <? fst h then (fst h, snd m1) else m1 in
      if (fst m =? 0) || (snd h <? snd m) || (fst m1 <? fst h) then hb_set mine b m2 else mine) mine b) i
  = if Nat.eqb i b then merge1 (hb_get mine b) (hb_get his b) else hb_get mine i.
Proof.
  cbv beta zeta. unfold merge1.
  destruct ((fst (hb_get his b) =? 0) && negb (is_fork (hb_get his b))).
  { destruct (Nat.eqb_spec i b) as [->|]; reflexivity. }
  destruct (is_fork (hb_get mine b)).
  { destruct (Nat.eqb_spec i b) as [->|]; reflexivity. }
  destruct (is_fork (hb_get his b)).
  { rewrite hb_get_set. reflexivity. }
  cbv zeta.
  destruct ((fst (hb_get mine b) =? 0) || (snd (hb_get his b) <? snd (hb_get mine b))) eqn:C1; cbn [orb].
  { rewrite hb_get_set. reflexivity. }
  destruct (fst (hb_get mine b) <? fst (hb_get his b)) eqn:C2.
  { rewrite hb_get_set. reflexivity. }
  destruct (Nat.eqb_spec i b) as [->|]; reflexivity.
Qed.

Lemma collect_from_get num mine his i :
  hb_get (collect_from num mine his) i =
  if Nat.ltb i num then merge1 (hb_get mine i) (hb_get his i) else hb_get mine i.
Proof.
  unfold collect_from.
  rewrite (fold_pointwise _ (fun b m => merge1 m (hb_get his b)) (collect_step_get his)) by apply seq_NoDup.
  destruct (Nat.ltb_spec i num) as [Hlt|Hge].
  - replace (existsb (Nat.eqb i) (List.seq 0 num)) with true; [reflexivity|].
    symmetry. apply existsb_nat_mem, in_seq. lia.
  - replace (existsb (Nat.eqb i) (List.seq 0 num)) with false; [reflexivity|].
    symmetry. destruct (existsb (Nat.eqb i) (List.seq 0 num)) eqn:Hex; [|reflexivity].
    apply existsb_nat_mem, in_seq in Hex. lia.
Qed.

(* ---------- setForkDetected ---------- *)
Lemma set_fork_list_get brs v i :
  hb_get (fold_left (fun v b => hb_set v b (0, FORKM)) brs v) i = if existsb (Nat.eqb i) brs then FORK else hb_get v i.
Proof.
  revert v; induction brs as [|b brs IH]; intros v; cbn [fold_left existsb]; [reflexivity|].
  rewrite IH, hb_get_set. destruct (Nat.eqb i b); cbn [orb]; [|reflexivity].
  destruct (existsb (Nat.eqb i) brs); reflexivity.
Qed.
Lemma set_fork_creator_get s v c i :
  hb_get (set_fork_creator s v c) i = if existsb (Nat.eqb i) (nth c (by_cr s) []) then FORK else hb_get v i.
Proof. apply set_fork_list_get. Qed.

(* ---------- block-wise folds ---------- *)
Lemma fold_blocks (step : list hbs -> nat -> list hbs) (blk : nat -> list nat) (l : list nat) :
  (forall v n i, In n l -> ~ In i (blk n) -> hb_get (step v n) i = hb_get v i) ->
  (forall v v' n, In n l -> (forall i, In i (blk n) -> hb_get v i = hb_get v' i) ->
     forall i, In i (blk n) -> hb_get (step v n) i = hb_get (step v' n) i) ->
  NoDup l ->
  (forall n n' i, In n l -> In n' l -> In i (blk n) -> In i (blk n') -> n = n') ->
  (forall v i, (forall n, In n l -> ~ In i (blk n)) -> hb_get (fold_left step l v) i = hb_get v i) /\
  (forall v n i, In n l -> In i (blk n) -> hb_get (fold_left step l v) i = hb_get (step v n) i).
Proof.
  induction l as [|a l IH]; intros Hout Hloc Hnd Hdisj.
  - split; [reflexivity|intros v n i []].
  - inversion Hnd as [|? ? Ha Hnd']; subst.
    destruct IH as [IH1 IH2].
    + intros; apply Hout; [right|]; assumption.
    + intros v v' n Hn; apply Hloc; right; assumption.
    + exact Hnd'.
    + intros n n' i Hn Hn'; apply Hdisj; right; assumption.
    + split.
      * intros v i Hi. cbn [fold_left]. rewrite IH1 by (intros n Hn; apply Hi; right; exact Hn).
        apply Hout; [left; reflexivity|apply Hi; left; reflexivity].
      * intros v n i [<-|Hn] Hi; cbn [fold_left].
        -- apply IH1. intros n Hn Hin. assert (n = a) by (eapply Hdisj; eauto; [right|left]; auto). subst. contradiction.
        -- rewrite (IH2 _ n i Hn Hi). apply Hloc; [right; exact Hn| |exact Hi].
           intros j Hj. apply Hout; [left; reflexivity|].
           intros Hja. assert (n = a) by (eapply Hdisj; eauto; [right|left]; auto). subst. contradiction.
Qed.

(* ---------- the two detection passes ---------- *)
Definition brs_of (s : vidx) (c : nat) : list nat := nth c (by_cr s) [].
Definition pass1_cond (s : vidx) (v : list hbs) (c : nat) : bool :=
  negb (Nat.leb (length (brs_of s c)) 1) && existsb (fun b => is_fork (hb_get v b)) (brs_of s c).
Definition overlap (v : list hbs) (a b : nat) : bool :=
  negb (Nat.eqb a b) && negb (is_empty v a) && negb (is_empty v b)
  && (snd (hb_get v a) <=? fst (hb_get v b)) && (snd (hb_get v b) <=? fst (hb_get v a)).
Definition pass2_cond (s : vidx) (v : list hbs) (c : nat) : bool :=
  negb (is_fork (hb_get v c)) &&
  existsb (fun a => existsb (fun b => overlap v a b) (brs_of s c)) (brs_of s c).
Definition step1 (s : vidx) (v : list hbs) (c : nat) : list hbs :=
  if pass1_cond s v c then set_fork_detected s v c else v.
Definition step2 (s : vidx) (v : list hbs) (c : nat) : list hbs :=
  if pass2_cond s v c then set_fork_detected s v c else v.


Lemma fold_left_ext {A B} (f g : A -> B -> A) l a : (forall x y, f x y = g x y) -> fold_left f l a = fold_left g l a.
Proof. intros H. revert a; induction l as [|b l IH]; intros a; cbn [fold_left]; [reflexivity|]. rewrite H, IH. reflexivity. Qed.

Lemma detect_forks_unfold s v :
  detect_forks s v = if negb (at_least_one_fork s) then v else
    fold_left (step2 s) (List.seq 0 (nvals s)) (fold_left (step1 s) (List.seq 0 (nvals s)) v).
Proof.
  unfold detect_forks. destruct (negb (at_least_one_fork s)); [reflexivity|].
  erewrite (fold_left_ext _ (step2 s)).
  - f_equal. apply fold_left_ext. intros x c. unfold step1, pass1_cond, brs_of.
    destruct (Nat.leb (length (nth c (by_cr s) [])) 1); cbn [negb andb]; reflexivity.
  - intros x c. unfold step2, pass2_cond, overlap, brs_of.
    destruct (is_fork (hb_get x c)); cbn [negb andb]; reflexivity.
Qed.

Section Blocks.
Variable s : vidx.
Hypothesis brcr_init : forall c, (c < nvals s)%nat -> nth c (br_cr s) 0%nat = c.
Hypothesis blocks_disj : forall c c' i, (c < nvals s)%nat -> (c' < nvals s)%nat ->
  In i (brs_of s c) -> In i (brs_of s c') -> c = c'.
Hypothesis block_self : forall c, (c < nvals s)%nat -> In c (brs_of s c).

Lemma set_fork_detected_get v c i : (c < nvals s)%nat ->
  hb_get (set_fork_detected s v c) i = if existsb (Nat.eqb i) (brs_of s c) then FORK else hb_get v i.
Proof. intros Hc. unfold set_fork_detected. rewrite brcr_init by exact Hc. apply set_fork_creator_get. Qed.

Lemma existsb_ext_in {A} (f g : A -> bool) l : (forall x, In x l -> f x = g x) -> existsb f l = existsb g l.
Proof.
  induction l as [|a l IH]; intros H; cbn [existsb]; [reflexivity|].
  rewrite H by (left; reflexivity). rewrite IH by (intros; apply H; right; assumption). reflexivity.
Qed.

Lemma pass1_cond_local v v' c : (forall i, In i (brs_of s c) -> hb_get v i = hb_get v' i) ->
  pass1_cond s v c = pass1_cond s v' c.
Proof.
  intros H. unfold pass1_cond. f_equal. apply existsb_ext_in. intros b Hb. rewrite H by exact Hb. reflexivity.
Qed.
Lemma overlap_local v v' a b : hb_get v a = hb_get v' a -> hb_get v b = hb_get v' b -> overlap v a b = overlap v' a b.
Proof. intros Ha Hb. unfold overlap, is_empty. rewrite Ha, Hb. reflexivity. Qed.
Lemma pass2_cond_local v v' c : (c < nvals s)%nat -> (forall i, In i (brs_of s c) -> hb_get v i = hb_get v' i) ->
  pass2_cond s v c = pass2_cond s v' c.
Proof.
  intros Hc H. unfold pass2_cond. rewrite (H c (block_self c Hc)). f_equal.
  apply existsb_ext_in. intros a Ha. apply existsb_ext_in. intros b Hb. apply overlap_local; apply H; assumption.
Qed.

Lemma step_get (cond : vidx -> list hbs -> nat -> bool) v c i : (c < nvals s)%nat ->
  hb_get (if cond s v c then set_fork_detected s v c else v) i =
  if cond s v c && existsb (Nat.eqb i) (brs_of s c) then FORK else hb_get v i.
Proof.
  intros Hc. destruct (cond s v c); cbn [andb]; [|reflexivity]. apply set_fork_detected_get. exact Hc.
Qed.

Lemma pass1_get v c i : (c < nvals s)%nat -> In i (brs_of s c) ->
  hb_get (fold_left (step1 s) (List.seq 0 (nvals s)) v) i = if pass1_cond s v c then FORK else hb_get v i.
Proof.
  intros Hc Hi.
  destruct (fold_blocks (step1 s) (brs_of s) (List.seq 0 (nvals s))) as [_ H2].
  - intros v0 n j Hn Hj. apply in_seq in Hn. unfold step1. rewrite step_get by lia.
    destruct (existsb (Nat.eqb j) (brs_of s n)) eqn:Hex; [apply existsb_nat_mem in Hex; contradiction|].
    rewrite andb_false_r. reflexivity.
  - intros v0 v' n Hn Hloc j Hj. apply in_seq in Hn. unfold step1. rewrite !step_get by lia.
    rewrite (pass1_cond_local v0 v' n Hloc), (Hloc j Hj). reflexivity.
  - apply seq_NoDup.
  - intros n n' j Hn Hn' Hj Hj'. apply in_seq in Hn, Hn'. eapply blocks_disj; eauto; lia.
  - rewrite (H2 v c i) by (try apply in_seq; auto; lia). unfold step1. rewrite step_get by exact Hc.
    replace (existsb (Nat.eqb i) (brs_of s c)) with true by (symmetry; apply existsb_nat_mem; exact Hi).
    rewrite andb_true_r. reflexivity.
Qed.
Lemma pass2_get v c i : (c < nvals s)%nat -> In i (brs_of s c) ->
  hb_get (fold_left (step2 s) (List.seq 0 (nvals s)) v) i = if pass2_cond s v c then FORK else hb_get v i.
Proof.
  intros Hc Hi.
  destruct (fold_blocks (step2 s) (brs_of s) (List.seq 0 (nvals s))) as [_ H2].
  - intros v0 n j Hn Hj. apply in_seq in Hn. unfold step2. rewrite step_get by lia.
    destruct (existsb (Nat.eqb j) (brs_of s n)) eqn:Hex; [apply existsb_nat_mem in Hex; contradiction|].
    rewrite andb_false_r. reflexivity.
  - intros v0 v' n Hn Hloc j Hj. apply in_seq in Hn. unfold step2. rewrite !step_get by lia.
    rewrite (pass2_cond_local v0 v' n ltac:(lia) Hloc), (Hloc j Hj). reflexivity.
  - apply seq_NoDup.
  - intros n n' j Hn Hn' Hj Hj'. apply in_seq in Hn, Hn'. eapply blocks_disj; eauto; lia.
  - rewrite (H2 v c i) by (try apply in_seq; auto; lia). unfold step2. rewrite step_get by exact Hc.
    replace (existsb (Nat.eqb i) (brs_of s c)) with true by (symmetry; apply existsb_nat_mem; exact Hi).
    rewrite andb_true_r. reflexivity.
Qed.

(* the value of the detected vector on a branch i of creator c *)
Lemma detect_forks_get v c i : (c < nvals s)%nat -> In i (brs_of s c) ->
  hb_get (detect_forks s v) i =
  if negb (at_least_one_fork s) then hb_get v i else
  let v1 := fold_left (step1 s) (List.seq 0 (nvals s)) v in
  if pass2_cond s v1 c then FORK else if pass1_cond s v c then FORK else hb_get v i.
Proof.
  intros Hc Hi. rewrite detect_forks_unfold. destruct (negb (at_least_one_fork s)); [reflexivity|].
  cbv zeta. rewrite (pass2_get _ c i Hc Hi). rewrite (pass1_get _ c i Hc Hi). reflexivity.
Qed.
Lemma pass1_vec_get v c i : (c < nvals s)%nat -> In i (brs_of s c) ->
  hb_get (fold_left (step1 s) (List.seq 0 (nvals s)) v) i = if pass1_cond s v c then FORK else hb_get v i.
Proof. apply pass1_get. Qed.
Lemma pass_out (cond : vidx -> list hbs -> nat -> bool) v i :
  (forall c, (c < nvals s)%nat -> ~ In i (brs_of s c)) ->
  hb_get (fold_left (fun v c => if cond s v c then set_fork_detected s v c else v) (List.seq 0 (nvals s)) v) i = hb_get v i.
Proof.
  intros Hout. generalize (List.seq 0 (nvals s)) (fun c => proj1 (in_seq (nvals s) 0 c)). intros l Hl.
  revert v; induction l as [|c l IH]; intros v; cbn [fold_left]; [reflexivity|].
  rewrite IH by (intros c' Hc'; apply Hl; right; exact Hc').
  assert (Hc : (c < nvals s)%nat) by (specialize (Hl c (or_introl eq_refl)); lia).
  rewrite step_get by exact Hc.
  destruct (existsb (Nat.eqb i) (brs_of s c)) eqn:Hex; [apply existsb_nat_mem in Hex; exfalso; exact (Hout c Hc Hex)|].
  rewrite andb_false_r. reflexivity.
Qed.
Lemma detect_forks_out v i : (forall c, (c < nvals s)%nat -> ~ In i (brs_of s c)) ->
  hb_get (detect_forks s v) i = hb_get v i.
Proof.
  intros Hout. rewrite detect_forks_unfold. destruct (negb (at_least_one_fork s)); [reflexivity|].
  unfold step2, step1.
  rewrite (pass_out pass2_cond) by exact Hout. rewrite (pass_out pass1_cond) by exact Hout. reflexivity.
Qed.
End Blocks.
