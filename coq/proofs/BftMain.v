(* The BFT theory instantiated for the executable reference (spec/ElectionSpec.v):
   on a well-formed table whose forkers hold less than a third of the weight,
     - decisions are unique (ref_decision_unique), the voted root is unique,
     - the blocks of a well-formed sub-table are a prefix of the blocks of the table
       (ref_blocks_prefix), two sub-tables are comparable, equal sets give equal blocks. *)
From Coq Require Import List Arith NArith Bool Lia ZArith.
From Coq Require Import ZifyBool ZifyNat ZifyN.
From LV Require Import model.VecIndex lib.WSumBft spec.ElectionSpec proofs.BftCore proofs.BftElection
  proofs.BftMono proofs.BftGraph.
Import ListNotations.
Open Scope N_scope.

Lemma prefix_antisym {A} (a b : list A) : prefix a b -> prefix b a -> a = b.
Proof.
  intros [t1 E1] [t2 E2]. rewrite E1 in E2. rewrite <- app_assoc in E2.
  assert (H : length (t1 ++ t2) = 0%nat).
  { apply (f_equal (@length A)) in E2. rewrite app_length in E2. lia. }
  apply length_zero_iff_nil in H. apply app_eq_nil in H as [-> _]. rewrite app_nil_r in E1. auto.
Qed.

Lemma vinsert_in x y l : In x (vinsert y l) <-> x = y \/ In x l.
Proof.
  induction l as [|h t IH]; cbn [vinsert].
  - cbn [In]. split; [intros [<-|[]]; left; reflexivity|intros [->|[]]; left; reflexivity].
  - destruct (vbefore y h).
    + cbn [In]. split; [intros [<-|H]; [left; reflexivity|right; exact H]|intros [->|H]; [left; reflexivity|right; exact H]].
    + cbn [In]. rewrite IH. split.
      * intros [H|[H|H]]; [right; left; exact H|left; exact H|right; right; exact H].
      * intros [H|[H|H]]; [right; left; exact H|left; exact H|right; right; exact H].
Qed.

Lemma canon_order_lt vals u : In u (canon_order vals) -> (u < length vals)%nat.
Proof.
  unfold canon_order. intros H. apply in_map_iff in H as [[i p] [<- H]]. cbn [fst].
  assert (Hin : In (i, p) (combine (seq 0 (length vals)) vals)).
  { revert H. generalize (combine (seq 0 (length vals)) vals). intros l.
    induction l as [|h t IH]; cbn [fold_right]; [auto|]. intros H. apply vinsert_in in H as [->|H]; [left; reflexivity|right; auto]. }
  apply in_combine_l in Hin. apply in_seq in Hin. lia.
Qed.

Lemma in_combine_seq {A} (l : list A) : forall s i d, (i < length l)%nat -> In ((s + i)%nat, nth i l d) (combine (seq s (length l)) l).
Proof.
  induction l as [|h t IH]; intros s i d Hi; cbn [length] in *; [lia|].
  cbn [seq combine]. destruct i as [|i]; [left; f_equal; lia|]. right.
  replace (s + S i)%nat with (S s + i)%nat by lia. cbn [nth]. apply IH. lia.
Qed.

Lemma canon_order_complete vals v : (v < length vals)%nat -> In v (canon_order vals).
Proof.
  intros Hv. unfold canon_order.
  assert (Hin : In (v, nth v vals (0, 0)) (combine (seq 0 (length vals)) vals)) by (apply (in_combine_seq vals 0 v); exact Hv).
  apply (in_map fst) in Hin. cbn [fst] in Hin.
  revert Hin. generalize (combine (seq 0 (length vals)) vals). intros l Hin.
  apply in_map_iff in Hin as [p [Hp Hin]]. apply in_map_iff. exists p. split; [exact Hp|].
  induction l as [|h t IH]; [destruct Hin|]. cbn [fold_right]. apply vinsert_in.
  destruct Hin as [->|Hin]; [left; reflexivity|right; auto].
Qed.

Section Main.
Variable vals : list (N * N).
Notation ws := (map snd vals).
Notation nv := (length vals).
Notation q := (quorum_of ws).
Notation fcn := (fc_n ws q).
Notation ord := (canon_order vals).

(* forkers hold less than a third of the weight *)
Definition few_forkers (T : list node) : Prop := 3 * wsP ws (forker T) < totalW ws.

Lemma q_gt : 3 * q > 2 * totalW ws.
Proof. rewrite totalW_fold. unfold quorum_of, total_weight. apply quorum_gt_two_thirds. Qed.

Notation decidesn T := (decides node nd_cr nd_fr nd_spf fcn ws q T).

(* (ii) no two roots decide differently for one subject *)
Theorem ref_decision_unique T : wfT vals T -> few_forkers T ->
  forall f0 k1 r1 k2 r2 v b1 b2, decidesn T f0 k1 r1 v b1 -> decidesn T f0 k2 r2 v b2 -> b1 = b2.
Proof.
  intros Hwf Hff.
  apply (decision_unique node nd_id nd_cr nd_fr nd_spf fcn ws q T lebn sees_fork_n q_gt
           (wf_inj vals T Hwf) (fcn_char vals T Hwf) (lebn_trans vals T Hwf) (sfn_mono vals T Hwf) (forker T) Hff).
  - intros v x y _. apply (honest_chain_n vals T Hwf).
  - apply (roots_fork_n vals T Hwf).
  - apply (roots_quorum_n vals T Hwf).
Qed.

Theorem ref_voted_root_unique T : wfT vals T -> few_forkers T ->
  forall f0 a1 a2 r1 r2, In r1 T -> In r2 T ->
    In a1 (roots_at node nd_fr nd_spf T f0) -> In a2 (roots_at node nd_fr nd_spf T f0) -> nd_cr a1 = nd_cr a2 ->
    fcn r1 a1 = true -> fcn r2 a2 = true -> a1 = a2.
Proof.
  intros Hwf Hff.
  apply (voted_root_unique node nd_id nd_cr nd_fr nd_spf fcn ws q T lebn sees_fork_n q_gt
           (wf_inj vals T Hwf) (fcn_char vals T Hwf) (lebn_trans vals T Hwf) (sfn_mono vals T Hwf) (forker T) Hff).
  - intros v x y _. apply (honest_chain_n vals T Hwf).
  - apply (roots_fork_n vals T Hwf).
Qed.

(* forkless cause implies ancestry *)
Lemma fcn_anc T : wfT vals T -> forall a b, In a T -> In b T -> fcn a b = true -> In (nd_id b) (nd_anc a).
Proof.
  intros Hwf a b Ha Hb H. destruct (fcn_char vals T Hwf a b Ha Hb H) as [_ Hq].
  pose proof q_gt as Hqg.
  assert (Hpos : 0 < wsP ws (fun v => negb (sees_fork_n a v) && between node nd_cr T lebn b a v)) by lia.
  apply wsP_pos_ex in Hpos as [v [_ Hv]]. apply andb_prop in Hv as [_ Hv].
  unfold between in Hv. apply existsb_exists in Hv as [x [Hx Hv]].
  apply andb_prop in Hv as [Hv L2]. apply andb_prop in Hv as [_ L1].
  apply mem_In. apply (lebn_trans vals T Hwf b x a); auto.
Qed.

(* (iii) the blocks of a well-formed sub-table are a prefix of the blocks of the table *)
Theorem ref_blocks_prefix T1 T2 : wfT vals T1 -> wfT vals T2 -> few_forkers T2 -> incl T1 T2 ->
  prefix (r_blocks vals T1) (r_blocks vals T2).
Proof.
  intros Hwf1 Hwf2 Hff Hincl. unfold r_blocks.
  apply blocks_spec_prefix.
  - exact Hincl.
  - (* a well-formed table is closed under ancestry, hence under forkless-cause observation *)
    intros a b Ha Hb Hfc.
    pose proof (fcn_anc T2 Hwf2 a b (Hincl a Ha) Hb Hfc) as Hin.
    destruct (wf_anc vals T1 Hwf1) as [_ [Hk _]]. destruct (Hk a _ Ha Hin) as [m [Hm E]].
    assert (m = b) by (apply (wf_inj vals T2 Hwf2); auto). subst m. exact Hm.
  - apply (wf_inj vals T2 Hwf2).
  - intros u Hu. rewrite map_length. apply canon_order_lt. exact Hu.
  - apply (ref_decision_unique T2 Hwf2 Hff).
  - apply (ref_voted_root_unique T2 Hwf2 Hff).
Qed.

Corollary ref_blocks_comparable T1 T1' T2 : wfT vals T1 -> wfT vals T1' -> wfT vals T2 -> few_forkers T2 ->
  incl T1 T2 -> incl T1' T2 ->
  prefix (r_blocks vals T1) (r_blocks vals T1') \/ prefix (r_blocks vals T1') (r_blocks vals T1).
Proof.
  intros H1 H1' H2 Hff I1 I1'. apply (prefix_comparable _ _ (r_blocks vals T2)); apply ref_blocks_prefix; auto.
Qed.

Lemma few_forkers_sub T1 T2 : incl T1 T2 -> few_forkers T2 -> few_forkers T1.
Proof.
  intros Hincl Hff. unfold few_forkers in *.
  assert (wsP ws (forker T1) <= wsP ws (forker T2)); [|lia].
  apply wsP_mono. intros v _ H. unfold forker in *.
  apply existsb_exists in H as [x [Hx H]]. apply existsb_exists in H as [y [Hy H]].
  apply existsb_exists. exists x. split; [apply Hincl; exact Hx|].
  apply existsb_exists. exists y. split; [apply Hincl; exact Hy|exact H].
Qed.

(* equal event sets (in whatever order they were tabulated) give equal blocks *)
Corollary ref_blocks_same_set T1 T2 : wfT vals T1 -> wfT vals T2 -> few_forkers T2 ->
  incl T1 T2 -> incl T2 T1 -> r_blocks vals T1 = r_blocks vals T2.
Proof.
  intros H1 H2 Hff I12 I21. apply prefix_antisym.
  - apply ref_blocks_prefix; auto.
  - apply ref_blocks_prefix; auto. eapply few_forkers_sub; eauto.
Qed.
(* ---------- the election of the reference does not err ---------- *)
(* (a) a root never forkless-causes two roots of one validator in one frame (the implementation's
       "forkless caused by 2 fork roots" error) *)
Theorem ref_no_two_fork_roots T : wfT vals T -> few_forkers T ->
  forall f r r1 r2, In r T -> In r1 (obs node nd_fr nd_spf fcn T r f) -> In r2 (obs node nd_fr nd_spf fcn T r f) ->
    nd_cr r1 = nd_cr r2 -> r1 = r2.
Proof.
  intros Hwf Hff f r r1 r2 Hr H1 H2 Hc. unfold obs in H1, H2.
  apply filter_In in H1 as [I1 F1]. apply filter_In in H2 as [I2 F2].
  apply (ref_voted_root_unique T Hwf Hff f r1 r2 r r); assumption.
Qed.

(* (b) a root of frame f+1 is forkless-caused by a quorum of roots of frame f (the implementation's
       "root must be forkless caused by at least 2/3W of prev roots" error) *)
Theorem ref_prev_quorum T : wfT vals T -> forall f r, 1 <= f -> In r (roots_at node nd_fr nd_spf T (f + 1)) ->
  quorum_on node nd_cr nd_fr nd_spf fcn ws q T r f = true.
Proof. intros Hwf. apply (roots_quorum_n vals T Hwf). Qed.

(* (c), (d) the reference never reports "all decided no" nor a yes decision without a voted root *)
Theorem ref_decide_no_error T : wfT vals T -> few_forkers T -> (0 < nv)%nat ->
  forall f0 maxf, 1 <= f0 ->
    decide node nd_id nd_cr nd_fr nd_spf fcn ws q ord T f0 maxf <> AllNo /\
    decide node nd_id nd_cr nd_fr nd_spf fcn ws q ord T f0 maxf <> NoRoot.
Proof.
  intros Hwf Hff Hnv f0 maxf Hf0. split; intros H.
  - destruct (exists_never_no node nd_id nd_cr nd_fr nd_spf fcn ws q T lebn sees_fork_n q_gt
                (wf_inj vals T Hwf) (fcn_char vals T Hwf) (lebn_trans vals T Hwf) (sfn_mono vals T Hwf) (forker T) Hff
                (fun v x y _ => honest_chain_n vals T Hwf v x y) (roots_fork_n vals T Hwf) (roots_quorum_n vals T Hwf)
                f0 Hf0) as [v [Hv Hnever]]; [rewrite map_length; exact Hnv|].
    rewrite map_length in Hv.
    destruct (decide_allno_inv node nd_id nd_cr nd_fr nd_spf fcn ws q ord T f0 (wf_inj vals T Hwf) maxf H v
                (canon_order_complete vals v Hv)) as [k [r Hd]].
    exact (Hnever k r Hd).
  - destruct (decide_noroot_inv node nd_id nd_cr nd_fr nd_spf fcn ws q ord T f0 (wf_inj vals T Hwf) maxf H) as [v [k [r [Hd Hx]]]].
    destruct (decided_yes_has_root node nd_id nd_cr nd_fr nd_spf fcn ws q T lebn sees_fork_n q_gt
                (wf_inj vals T Hwf) (fcn_char vals T Hwf) (lebn_trans vals T Hwf) (sfn_mono vals T Hwf) (forker T) Hff
                (fun v x y _ => honest_chain_n vals T Hwf v x y) (roots_fork_n vals T Hwf) (roots_quorum_n vals T Hwf)
                f0 k r v Hd) as [a [r1 [Ia [Ca [I1 F1]]]]].
    unfold voted_root in Hx. apply (find_none _ _ Hx) in Ia.
    rewrite Ca, Nat.eqb_refl in Ia. cbn [andb] in Ia.
    assert (existsb (fun r0 => fcn r0 a) (roots_at node nd_fr nd_spf T (f0 + 1)) = true); [|congruence].
    apply existsb_exists. exists r1. auto.
Qed.

(* the decision of a frame in a well-formed table: exactly the rule-level statement *)
Theorem ref_decide_iff T : wfT vals T -> few_forkers T -> forall f0 a,
  decide node nd_id nd_cr nd_fr nd_spf fcn ws q ord T f0 (max_frame node nd_fr T) = Atropos a <->
  exists pre v post x, ord = pre ++ v :: post
    /\ (forall u, In u pre -> exists k r, decidesn T f0 k r u false)
    /\ (exists k r, decidesn T f0 k r v true)
    /\ voted_root node nd_cr nd_fr nd_spf fcn T f0 v = Some x /\ nd_id x = a.
Proof.
  intros Hwf Hff f0 a. split.
  - apply decide_sound. apply (wf_inj vals T Hwf).
  - intros [pre [v [post [x [Ho [Hpre [Hv [Hx <-]]]]]]]].
    apply (decide_complete node nd_id nd_cr nd_fr nd_spf fcn ws q ord T f0 (wf_inj vals T Hwf) _ pre v post x); auto.
    + apply (ref_decision_unique T Hwf Hff).
    + intros e He. apply max_frame_ge. exact He.
    + intros u Hu. rewrite map_length. apply canon_order_lt. rewrite Ho.
      apply in_app_or in Hu as [Hu|[<-|[]]]; apply in_or_app; [left; exact Hu|right; left; reflexivity].
Qed.
End Main.
