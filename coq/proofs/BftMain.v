(* The BFT theory instantiated for the executable reference (spec/ElectionSpec.v):
   on a well-formed table whose forkers hold less than a third of the weight,
     - decisions are unique (ref_decision_unique), the voted root is unique,
     - the blocks of a well-formed sub-table are a prefix of the blocks of the table
       (ref_blocks_prefix), two sub-tables are comparable, equal sets give equal blocks. *)
From Coq Require Import List Arith NArith Bool Lia ZArith.
From Coq Require Import ZifyBool ZifyNat ZifyN.
From LV Require Import model.VecIndex lib.WSumBft spec.ElectionSpec proofs.BftCore proofs.BftElection
  proofs.BftMono proofs.BftGraph.
Import ListNotations.
Open Scope N_scope.

Lemma prefix_antisym {A} (a b : list A) : prefix a b -> prefix b a -> a = b.
Proof.
  intros [t1 E1] [t2 E2]. rewrite E1 in E2. rewrite <- app_assoc in E2.
  assert (H : length (t1 ++ t2) = 0%nat).
  { apply (f_equal (@length A)) in E2. rewrite app_length in E2. lia. }
  apply length_zero_iff_nil in H. apply app_eq_nil in H as [-> _]. rewrite app_nil_r in E1. auto.
Qed.

Lemma vinsert_in x y l : In x (vinsert y l) <-> x = y \/ In x l.
Proof.
  induction l as [|h t IH]; cbn [vinsert].
  - cbn [In]. split; [intros [<-|[]]; left; reflexivity|intros [->|[]]; left; reflexivity].
  - destruct (vbefore y h).
    + cbn [In]. split; [intros [<-|H]; [left; reflexivity|right; exact H]|intros [->|H]; [left; reflexivity|right; exact H]].
    + cbn [In]. rewrite IH. split.
      * intros [H|[H|H]]; [right; left; exact H|left; exact H|right; right; exact H].
      * intros [H|[H|H]]; [right; left; exact H|left; exact H|right; right; exact H].
Qed.

Lemma canon_order_lt vals u : In u (canon_order vals) -> (u < length vals)%nat.
Proof.
  unfold canon_order. intros H. apply in_map_iff in H as [[i p] [<- H]]. cbn [fst].
  assert (Hin : In (i, p) (combine (seq 0 (length vals)) vals)).
  { revert H. generalize (combine (seq 0 (length vals)) vals). intros l.
    induction l as [|h t IH]; cbn [fold_right]; [auto|]. intros H. apply vinsert_in in H as [->|H]; [left; reflexivity|right; auto]. }
  apply in_combine_l in Hin. apply in_seq in Hin. lia.
Qed.

Section Main.
Variable vals : list (N * N).
Notation ws := (map snd vals).
Notation nv := (length vals).
Notation q := (quorum_of ws).
Notation fcn := (fc_n ws q).
Notation ord := (canon_order vals).

(* forkers hold less than a third of the weight *)
Definition few_forkers (T : list node) : Prop := 3 * wsP ws (forker T) < totalW ws.

Lemma q_gt : 3 * q > 2 * totalW ws.
Proof. rewrite totalW_fold. unfold quorum_of, total_weight. apply quorum_gt_two_thirds. Qed.

Notation decidesn T := (decides node nd_cr nd_fr nd_spf fcn ws q T).

(* (ii) no two roots decide differently for one subject *)
Theorem ref_decision_unique T : wfT vals T -> few_forkers T ->
  forall f0 k1 r1 k2 r2 v b1 b2, decidesn T f0 k1 r1 v b1 -> decidesn T f0 k2 r2 v b2 -> b1 = b2.
Proof.
  intros Hwf Hff.
  apply (decision_unique node nd_id nd_cr nd_fr nd_spf fcn ws q T lebn sees_fork_n q_gt
           (wf_inj vals T Hwf) (fcn_char vals T Hwf) (lebn_trans vals T Hwf) (sfn_mono vals T Hwf) (forker T) Hff).
  - intros v x y _. apply (honest_chain_n vals T Hwf).
  - apply (roots_fork_n vals T Hwf).
  - apply (roots_quorum_n vals T Hwf).
Qed.

Theorem ref_voted_root_unique T : wfT vals T -> few_forkers T ->
  forall f0 a1 a2 r1 r2, In r1 T -> In r2 T ->
    In a1 (roots_at node nd_fr nd_spf T f0) -> In a2 (roots_at node nd_fr nd_spf T f0) -> nd_cr a1 = nd_cr a2 ->
    fcn r1 a1 = true -> fcn r2 a2 = true -> a1 = a2.
Proof.
  intros Hwf Hff.
  apply (voted_root_unique node nd_id nd_cr nd_fr nd_spf fcn ws q T lebn sees_fork_n q_gt
           (wf_inj vals T Hwf) (fcn_char vals T Hwf) (lebn_trans vals T Hwf) (sfn_mono vals T Hwf) (forker T) Hff).
  - intros v x y _. apply (honest_chain_n vals T Hwf).
  - apply (roots_fork_n vals T Hwf).
Qed.

(* forkless cause implies ancestry *)
Lemma fcn_anc T : wfT vals T -> forall a b, In a T -> In b T -> fcn a b = true -> In (nd_id b) (nd_anc a).
Proof.
  intros Hwf a b Ha Hb H. destruct (fcn_char vals T Hwf a b Ha Hb H) as [_ Hq].
  pose proof q_gt as Hqg.
  assert (Hpos : 0 < wsP ws (fun v => negb (sees_fork_n a v) && between node nd_cr T lebn b a v)) by lia.
  apply wsP_pos_ex in Hpos as [v [_ Hv]]. apply andb_prop in Hv as [_ Hv].
  unfold between in Hv. apply existsb_exists in Hv as [x [Hx Hv]].
  apply andb_prop in Hv as [Hv L2]. apply andb_prop in Hv as [_ L1].
  apply mem_In. apply (lebn_trans vals T Hwf b x a); auto.
Qed.

(* (iii) the blocks of a well-formed sub-table are a prefix of the blocks of the table *)
Theorem ref_blocks_prefix T1 T2 : wfT vals T1 -> wfT vals T2 -> few_forkers T2 -> incl T1 T2 ->
  prefix (r_blocks vals T1) (r_blocks vals T2).
Proof.
  intros Hwf1 Hwf2 Hff Hincl. unfold r_blocks.
  apply blocks_spec_prefix.
  - exact Hincl.
  - (* a well-formed table is closed under ancestry, hence under forkless-cause observation *)
    intros a b Ha Hb Hfc.
    pose proof (fcn_anc T2 Hwf2 a b (Hincl a Ha) Hb Hfc) as Hin.
    destruct (wf_anc vals T1 Hwf1) as [_ [Hk _]]. destruct (Hk a _ Ha Hin) as [m [Hm E]].
    assert (m = b) by (apply (wf_inj vals T2 Hwf2); auto). subst m. exact Hm.
  - apply (wf_inj vals T2 Hwf2).
  - intros u Hu. rewrite map_length. apply canon_order_lt. exact Hu.
  - apply (ref_decision_unique T2 Hwf2 Hff).
  - apply (ref_voted_root_unique T2 Hwf2 Hff).
Qed.

Corollary ref_blocks_comparable T1 T1' T2 : wfT vals T1 -> wfT vals T1' -> wfT vals T2 -> few_forkers T2 ->
  incl T1 T2 -> incl T1' T2 ->
  prefix (r_blocks vals T1) (r_blocks vals T1') \/ prefix (r_blocks vals T1') (r_blocks vals T1).
Proof.
  intros H1 H1' H2 Hff I1 I1'. apply (prefix_comparable _ _ (r_blocks vals T2)); apply ref_blocks_prefix; auto.
Qed.

Lemma few_forkers_sub T1 T2 : incl T1 T2 -> few_forkers T2 -> few_forkers T1.
Proof.
  intros Hincl Hff. unfold few_forkers in *.
  assert (wsP ws (forker T1) <= wsP ws (forker T2)); [|lia].
  apply wsP_mono. intros v _ H. unfold forker in *.
  apply existsb_exists in H as [x [Hx H]]. apply existsb_exists in H as [y [Hy H]].
  apply existsb_exists. exists x. split; [apply Hincl; exact Hx|].
  apply existsb_exists. exists y. split; [apply Hincl; exact Hy|exact H].
Qed.

(* equal event sets (in whatever order they were tabulated) give equal blocks *)
Corollary ref_blocks_same_set T1 T2 : wfT vals T1 -> wfT vals T2 -> few_forkers T2 ->
  incl T1 T2 -> incl T2 T1 -> r_blocks vals T1 = r_blocks vals T2.
Proof.
  intros H1 H2 Hff I12 I21. apply prefix_antisym.
  - apply ref_blocks_prefix; auto.
  - apply ref_blocks_prefix; auto. eapply few_forkers_sub; eauto.
Qed.
End Main.
