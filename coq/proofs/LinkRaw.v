(* L1 without the "canonical validator list" side condition: for any validator list without duplicate
   ids and without zero weights (what ValidatorsBuilder can produce), given in ANY order, the run of the
   abft model equals the reference.  The code sorts the list (mk_vals); the reference is equivariant
   under that re-arrangement (proofs/LinkEquiv.v); the adapter's events are literally the same. *)
From Coq Require Import NArith ZArith List Lia Bool ZifyBool ZifyN ZifyNat Permutation.
From LV Require Import model.VecIndex model.Abft model.AbftRun spec.ElectionSpec lib.WSumBft
  proofs.BftGraph proofs.BftMain proofs.BftRun proofs.BftAccept proofs.BftProps
  proofs.LinkVals proofs.LinkPerm proofs.LinkDefs proofs.LinkEquiv proofs.LinkRun.
Import ListNotations.
Local Open Scope N_scope.

Definition link_side_raw (vals : list (N * N)) (D : list fev) : Prop :=
  raw_ok vals /\ v_total vals < 2 ^ 31 /\ ids_fresh D /\ N.of_nat (length D) < 2 ^ 192.

Lemma accepted_cr vals : forall T Dr, wfTD vals T Dr -> forall e, In e Dr -> (ecr (fe e) < length vals)%nat.
Proof. induction 1 as [|T Dr e0 W IH PK NL CR EW FO]; intros e He; [destruct He|]. destruct He as [<-|He]; auto. Qed.

Section Raw.
Variable cap : nat.
Variable lam : fev -> N.
Variable vals : list (N * N).
Notation nv := (length vals).
Notation ord := (canon_order vals).
Let Hperm : Permutation ord (seq 0 nv) := canon_order_perm vals.
Notation V' := (vals' vals).

(* the inverse re-indexing of an event, to carry the Lamport function over *)
Definition upe (e : fev) : fev :=
  {| fe := {| eid := eid (fe e); ecr := unpos ord (ecr (fe e)); eseq := eseq (fe e); epar := epar (fe e) |}; ffr := ffr e |}.
Lemma upe_pe e : (ecr (fe e) < nv)%nat -> upe (pe vals e) = e.
Proof.
  intros H. unfold upe, pe. cbn [fe ffr eid ecr eseq epar]. rewrite (unpos_pos nv ord Hperm _ H).
  destruct e as [[i c s p] f]. reflexivity.
Qed.

Theorem link_full_raw D : link_side_raw vals D -> valid_run vals D -> abft_run cap lam vals D = reference vals D.
Proof.
  intros (Raw & Tot & Fresh & Len) Valid.
  assert (EV : mk_vals vals = V') by (apply mk_vals_canon; exact Raw).
  assert (Can : canonical V') by (rewrite <- EV; apply mk_vals_canonical; exact Raw).
  assert (Hcanon : canon_order V' = seq 0 nv).
  { rewrite (canon_order_canonical V' Can), (vals'_len vals). reflexivity. }
  assert (Vok : vals_ok V').
  { split; [exact Can|]. rewrite v_total_total. change VecIndex.total_weight with ElectionSpec.total_weight.
    rewrite (total_same vals). exact Tot. }
  destruct (reference_pn vals Hcanon D Valid) as [Valid' ER].
  set (D' := map (pe vals) D) in *.
  assert (Side' : link_side V' D').
  { split; [exact Vok|]. split.
    - intros e' He'. unfold D' in He'. apply in_map_iff in He' as [e [<- He]]. unfold D'. rewrite map_length. apply (Fresh e He).
    - unfold D'. rewrite map_length. exact Len. }
  pose proof (link_full cap (fun e' => lam (upe e')) V' D' Side' Valid') as LF.
  rewrite <- ER, <- LF. unfold abft_run.
  assert (Hcr : forall e, In e D -> (ecr (fe e) < nv)%nat).
  { intros e He. destruct Valid as [Hacc _]. apply (accepted_cr vals _ _ (table_wfTD vals D Hacc) e). apply -> in_rev. exact He. }
  assert (Estart : start 1 vals = start 1 V') by (unfold start; rewrite EV, Can; reflexivity).
  assert (Eops : abft_ops 1 lam vals D = abft_ops 1 (fun e' => lam (upe e')) V' D').
  { unfold abft_ops, D'. rewrite flat_map_concat_map, flat_map_concat_map, map_map. f_equal. apply map_ext_in. intros e He.
    assert (Eae : to_aevent 1 (fun e' => lam (upe e')) V' (pe vals e) = to_aevent 1 lam vals e).
    { unfold to_aevent. cbn [pe fe ffr eid ecr eseq epar]. change (pe vals e) with (pe vals e).
      fold (pe vals e). rewrite (upe_pe e (Hcr e He)). f_equal. unfold vid.
      rewrite (vid_vals' vals _ (pos_lt nv ord Hperm _ (Hcr e He))), (unpos_pos nv ord Hperm _ (Hcr e He)). reflexivity. }
    rewrite Eae. reflexivity. }
  rewrite Estart, Eops. reflexivity.
Qed.
End Raw.

Lemma link_side_raw_sub vals D1 D2 : link_side_raw vals D2 -> incl D1 D2 -> NoDup (ids_of D1) -> link_side_raw vals D1.
Proof.
  intros (R & T & F & L) I ND.
  assert (NDD : NoDup D1) by (apply (NoDup_map_inv (fun e => eid (fe e))); exact ND).
  pose proof (NoDup_incl_length NDD I) as Len.
  split; [exact R|]. split; [exact T|]. split; [|lia].
  intros e He (ep0 & lm & c & t & Bc & S & E). apply (F e (I e He)). exists ep0, lm, c, t. split; [lia | auto].
Qed.

Theorem link_refines_raw cap lam : impl_refines_spec_on link_side_raw (abft_run cap lam).
Proof. intros vals D S V. apply link_full_raw; assumption. Qed.

Theorem link_C01_raw cap lam : C01_full_on link_side_raw (abft_run cap lam).
Proof. apply C01_on_from_refinement; [exact link_side_raw_sub | apply link_refines_raw]. Qed.
