(* L1, brick 5: cheaters.  The cheater list of a block (validators, in the model's canonical order,
   whose entry of the Atropos' merged highest-before clock is the fork marker) is the reference's
   cheaters_of (validators, in canon_order, that the Atropos' node sees forking).
   Index side: AbftGraph.cheaters_graph (worker abft, from vecidx' C06 merged_eq_spec);
   reference side: BftFcSpec.sf_SeesFork (worker bft). *)
From Coq Require Import NArith ZArith List Lia Bool ZifyBool ZifyN ZifyNat.
From LV Require Import model.VecIndex spec.FcSpec model.Abft model.AbftRun spec.ElectionSpec
  proofs.FcSpecFacts proofs.VecInv proofs.AbftGraph
  proofs.BftGraph proofs.BftMain proofs.BftRun proofs.BftFcSpec
  proofs.LinkVals proofs.LinkDefs proofs.LinkSim.
Import ListNotations.
Local Open Scope N_scope.

Lemma filter_combine_map {A} (g : nat -> A) (F : nat -> bool) (l : list nat) :
  map fst (filter (fun p : A * nat => F (snd p)) (combine (map g l) l)) = map g (filter F l).
Proof.
  induction l as [|x t IH]; cbn [map combine filter]; [reflexivity|]. cbn [snd].
  destruct (F x); cbn [map fst]; rewrite IH; reflexivity.
Qed.

Section Cheat.
Variable ep : N.
Variable lam : fev -> N.
Variable vals : list (N * N).
Hypothesis Hvals : vals_ok vals.
Notation nv := (length vals).

Lemma cheaters_sim st es T Dr R a : Core ep lam vals st es T Dr R -> In a T ->
  Abft.cheaters_of st (nd_id a) = ElectionSpec.cheaters_of vals T (nd_id a).
Proof.
  intros C Ha. pose proof (Core_wfT _ _ _ _ _ _ _ _ C) as W.
  destruct (node_evt ep lam vals st es T Dr R a C Ha) as [ea Ea].
  pose proof (co_vinv _ _ _ _ _ _ _ _ C) as I. rewrite <- (co_vals _ _ _ _ _ _ _ _ C) in I.
  rewrite (cheaters_graph st (nd_id a) ea I Ea). unfold visible_forkers.
  rewrite (co_vals _ _ _ _ _ _ _ _ C), (co_evs _ _ _ _ _ _ _ _ C).
  unfold ElectionSpec.cheaters_of. rewrite (wf_lookup vals T W a Ha).
  rewrite (canon_order_canonical vals (proj1 Hvals)), v_ids_vid.
  rewrite (filter_combine_map (vid vals)). unfold vid.
  f_equal. apply filter_ext_in. intros v Hv. apply in_seq in Hv.
  apply eq_true_iff_eq. rewrite sees_fork_anc. symmetry.
  apply (sf_SeesFork vals T Dr a v (co_wf _ _ _ _ _ _ _ _ C) Ha).
Qed.

(* the reference's cheater list of an event does not change when the table grows *)
Lemma cheaters_stable T T' a : wfT vals T' -> incl T T' -> In a T ->
  ElectionSpec.cheaters_of vals T' (nd_id a) = ElectionSpec.cheaters_of vals T (nd_id a).
Proof.
  intros W' Sub Ha. unfold ElectionSpec.cheaters_of.
  rewrite (wf_lookup vals T' W' a (Sub a Ha)).
  destruct (nlookup (nd_id a) T) as [n|] eqn:L.
  - apply nlookup_some in L as [Hn En]. rewrite (wf_inj vals T' W' n a (Sub n Hn) (Sub a Ha) En). reflexivity.
  - exfalso. exact (nlookup_none _ _ L a Ha eq_refl).
Qed.
End Cheat.
