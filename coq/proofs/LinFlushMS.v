(* C28 — a GENUINELY MULTI-STEP instance: Flushable with field-level method bodies.
   Put = insert into the overlay tree, then update the size estimate (two separate accesses, as in flushable.go:
   w.modified.Put(...); *w.sizeEstimation += ...); Delete likewise; a batch Write = that pair for every entry;
   Flush = write the overlay into the parent, clear the overlay, reset the estimate; DropNotFlushed = clear, reset;
   a read = one access.  Other goroutines can run between any two of these steps unless the mutex excludes them, so
   here the lock is what makes the histories linearizable.

   The table enters in two ways:
   - the KIND of every method (as in LinInstances.v), and
   - the number of CRITICAL SECTIONS of its row: a method whose row reports two sections is modelled as releasing
     the mutex after its first step and re-acquiring it ([ms_waits]); the theorem needs [r_sections <= 1] for every
     method, taken from the table check.  (proofs/LinRefute.v shows what happens otherwise.)
   The sequential specification of this multi-step object is proved equal to LinObjects.fl_step (C22's model). *)
From Coq Require Import String List NArith Bool Arith Lia.
From LV Require Import model.LockDiscipline model.Lin proofs.LinSim proofs.Lin proofs.LinTable proofs.LinInstances
  spec.KvSpec model.Flushable model.LinObjects proofs.LinRefute.
Import ListNotations.
Local Open Scope string_scope.

(* ---- field-level bodies *)
Definition set_over (f : tree -> tree) (s : fstate) : fstate := mkF (f (f_over s)) (f_parent s) (f_est s).
Definition set_est (f : N -> N) (s : fstate) : fstate := mkF (f_over s) (f_parent s) (f (f_est s)).
Definition wop_micro (w : wop) : list (fstate -> fstate) :=
  [set_over (fun o => flu_apply o w); set_est (fun e => (e + wop_est w)%N)].

Definition fl_micro (o : fop) : list (fstate -> fstate) :=
  match o with
  | FPut k v => wop_micro (WPut k v)
  | FDelete k => wop_micro (WDel k)
  | FBatch ws => flat_map wop_micro ws
  | FFlush => [fun s => mkF (f_over s) (kv_write (f_parent s) (flu_ops (f_over s))) (f_est s);
               set_over (fun _ => []); set_est (fun _ => 0%N)]
  | FDropNotFlushed => [set_over (fun _ => []); set_est (fun _ => 0%N)]
  | _ => []
  end.
(* the value returned, computed by the last access (reads) *)
Definition fl_result (o : fop) (s : fstate) : fres :=
  match o with
  | FPut _ _ | FDelete _ | FBatch _ | FFlush | FDropNotFlushed => FROk
  | _ => snd (fl_step s o)
  end.

Record mloc := mkML { ml_pc : nat; ml_res : option fres; ml_resumed : bool }.
Definition ms_linit (_ : fop) : mloc := mkML 0 None false.
Definition ms_mstep (o : fop) (l : mloc) (s : fstate) : mloc * fstate :=
  match ml_res l with
  | Some _ => (l, s)
  | None => match nth_error (fl_micro o) (ml_pc l) with
            | Some f => (mkML (S (ml_pc l)) None (ml_resumed l), f s)
            | None => (mkML (ml_pc l) (Some (fl_result o s)) (ml_resumed l), s)
            end
  end.
Definition ms_fin (_ : fop) (l : mloc) : option fres := ml_res l.

Definition run_micro (fs : list (fstate -> fstate)) (s : fstate) : fstate := fold_left (fun s f => f s) fs s.

(* alone, the steps of a body compose to the step of the sequential model *)
Lemma flu_write_micro : forall ws s,
  run_micro (flat_map wop_micro ws) s =
  mkF (flu_write (f_over s) ws) (f_parent s) (fold_left (fun a w => (a + wop_est w)%N) ws (f_est s)).
Proof.
  induction ws as [|w ws IH]; intro s; simpl.
  - now destruct s.
  - unfold run_micro in *. simpl. rewrite IH. reflexivity.
Qed.

Lemma micro_is_step : forall o s,
  run_micro (fl_micro o) s = fst (fl_step s o) /\ fl_result o (run_micro (fl_micro o) s) = snd (fl_step s o).
Proof.
  intros o s; destruct o; try (split; reflexivity).
  - (* batch *) simpl fl_micro. rewrite flu_write_micro. split; reflexivity.
Qed.

(* ---- the split given by the table: a row with two critical sections = unlock / lock after the first access *)
Section MS.
  Variable sections : fop -> N.        (* r_sections of the method's row *)
  Definition ms_waits (o : fop) (l : mloc) : bool :=
    (1 <? sections o)%N && (ml_pc l =? 1)%nat && negb (ml_resumed l) &&
    match ml_res l with None => true | Some _ => false end.
  Definition ms_wstep (_ : fop) (l : mloc) : mloc := mkML (ml_pc l) (ml_res l) true.

  Notation ms_body := (body_run fstate fop fres mloc ms_mstep ms_fin ms_waits ms_wstep).
  Notation ms_seq_exec := (seq_exec fstate fop fres mloc ms_linit ms_mstep ms_fin ms_waits ms_wstep).

  (* the sequential specification of the multi-step object is LinObjects.fl_step — whatever the split:
     sequentially an unlock/lock in the middle changes nothing *)
  Lemma ms_run_from : forall o n pc rs s l' s' r,
    n = length (fl_micro o) - pc -> pc <= length (fl_micro o) ->
    ms_body o (mkML pc None rs) s l' s' -> ml_res l' = Some r ->
    s' = run_micro (skipn pc (fl_micro o)) s /\ r = fl_result o s'.
  Proof.
    intros o n; induction n as [|n IH]; intros pc rs s l' s' r Hn Hpc Hrun Hres.
    - assert (pc = length (fl_micro o)) by lia. subst pc.
      rewrite skipn_all. unfold run_micro; simpl.
      assert (Hnth : nth_error (fl_micro o) (length (fl_micro o)) = None) by (apply nth_error_None; lia).
      assert (Hdone : forall rs2 l2 s2, ms_body o (mkML (length (fl_micro o)) (Some (fl_result o s)) rs2) s l2 s2 ->
                        ml_res l2 = Some (fl_result o s) /\ s2 = s).
      { intros rs2 l2 s2 Hb. inversion Hb as [|? ? ? ? ? ? Hf|? ? ? ? Hf]; subst; auto; simpl in Hf; discriminate. }
      assert (Hgen : forall l0, (exists rs0, l0 = mkML (length (fl_micro o)) None rs0) -> ms_body o l0 s l' s' ->
                       s' = s /\ r = fl_result o s').
      { intros l0 El0 Hb. induction Hb as [l s|l s l1 s1 l2 s2 Hf Hw Hm Hb1 IHb|l s l2 s2 Hf Hw Hb1 IHb].
        - destruct El0 as [rs0 ->]. simpl in Hres; discriminate.
        - destruct El0 as [rs0 ->]. unfold ms_mstep in Hm; simpl in Hm. rewrite Hnth in Hm. inversion Hm; subst.
          destruct (Hdone _ _ _ Hb1) as [E ->]. rewrite E in Hres. inversion Hres; auto.
        - destruct El0 as [rs0 ->]. apply IHb; auto. exists true. reflexivity. }
      exact (Hgen _ (ex_intro _ rs eq_refl) Hrun).
    - assert (Hlt : pc < length (fl_micro o)) by lia.
      destruct (nth_error (fl_micro o) pc) as [f|] eqn:Hnth; [|apply nth_error_None in Hnth; lia].
      assert (Hsk : skipn pc (fl_micro o) = f :: skipn (S pc) (fl_micro o)).
      { clear -Hnth. revert pc Hnth. induction (fl_micro o) as [|x xs IHx]; intros [|pc] H; simpl in *; try discriminate.
        - inversion H; reflexivity.
        - now apply IHx. }
      rewrite Hsk. unfold run_micro; simpl.
      assert (Hgen : forall l0, (exists rs0, l0 = mkML pc None rs0) -> ms_body o l0 s l' s' ->
                s' = fold_left (fun s f => f s) (skipn (S pc) (fl_micro o)) (f s) /\ r = fl_result o s').
      { intros l0 El0 Hb. induction Hb as [l s|l s l1 s1 l2 s2 Hf Hw Hm Hb1 IHb|l s l2 s2 Hf Hw Hb1 IHb].
        - destruct El0 as [rs0 ->]. simpl in Hres; discriminate.
        - destruct El0 as [rs0 ->]. unfold ms_mstep in Hm; simpl in Hm. rewrite Hnth in Hm. inversion Hm; subst.
          apply (IH (S pc) rs0 (f s) l2 s2 r); try lia; auto.
        - destruct El0 as [rs0 ->]. apply IHb; auto. exists true. reflexivity. }
      exact (Hgen _ (ex_intro _ rs eq_refl) Hrun).
  Qed.

  Lemma ms_seq_exec_step : forall o s s' r, ms_seq_exec o s s' r -> fl_step s o = (s', r).
  Proof.
    intros o s s' r [l' [Hrun Hfin]].
    destruct (ms_run_from o _ 0 false s l' s' r eq_refl (Nat.le_0_l _) Hrun Hfin) as [Hs Hr].
    simpl in Hs. destruct (micro_is_step o s) as [H1 H2]. subst s'. rewrite H1 in *. subst r.
    rewrite H2. now destruct (fl_step s o).
  Qed.
End MS.

(* ---- the instance *)
Section FlushableMS.
  Variable tbl : list lock_row.
  Definition row_sections (o : fop) : N :=
    match find_key tbl (fkey o) with Some r => r_sections r | None => 2%N end.
  (* kinds as in LinInstances, and every method's row has at most one critical section *)
  Definition ms_check : bool :=
    tk_check fkeys fk_readonly tbl &&
    forallb (fun k => match find_key tbl k with Some r => (r_sections r <=? 1)%N | None => false end) fkeys.
  Hypothesis Hcheck : ms_check = true.

  Lemma ms_tk : tk_check fkeys fk_readonly tbl = true.
  Proof. unfold ms_check in Hcheck. apply andb_true_iff in Hcheck. tauto. Qed.

  Lemma ms_one_section : forall o, (row_sections o <= 1)%N.
  Proof.
    intro o. unfold ms_check in Hcheck. apply andb_true_iff in Hcheck. destruct Hcheck as [_ H].
    rewrite forallb_forall in H. specialize (H _ (fkeys_complete o)). unfold row_sections.
    destruct (find_key tbl (fkey o)); [now apply N.leb_le|discriminate].
  Qed.

  Lemma ms_never_waits : forall o l, ms_waits row_sections o l = false.
  Proof.
    intros o l. unfold ms_waits. pose proof (ms_one_section o) as H.
    destruct (1 <? row_sections o)%N eqn:E; [apply N.ltb_lt in E; lia|reflexivity].
  Qed.

  Notation mskind := (tk_kind fop fkey tbl).

  Lemma ms_shared_readonly : shared_readonly fstate fop mloc ms_mstep mskind.
  Proof.
    intros o Hk l s. pose proof (tk_row fop fkey fkeys fk_readonly fkeys_complete tbl ms_tk o) as Hr.
    rewrite Hk in Hr. unfold ms_mstep. destruct (ml_res l); [reflexivity|].
    assert (Hm : fl_micro o = []) by (destruct o; simpl in Hr; try discriminate; reflexivity).
    rewrite Hm. now destruct (ml_pc l).
  Qed.
  Lemma ms_none_stateless : none_stateless fstate fop mloc ms_mstep mskind.
  Proof.
    intros o Hk. pose proof (tk_row fop fkey fkeys fk_readonly fkeys_complete tbl ms_tk o) as Hr.
    rewrite Hk in Hr. contradiction.
  Qed.

  (* Flushable with field-level bodies: every interleaving of the ACCESSES of different goroutines that the mutex
     allows is linearizable, and (ms_seq_exec_step) the sequential specification is LinObjects.fl_step *)
  Theorem flushable_multistep_linearizable : forall s0 tr c,
    exec fstate fop fres mloc ms_linit ms_mstep ms_fin (ms_waits row_sections) ms_wstep mskind s0 tr c ->
    linearizable fstate fop fres mloc ms_linit ms_mstep ms_fin (ms_waits row_sections) ms_wstep s0 (hist fop fres tr).
  Proof.
    intro s0.
    exact (locked_atomic_linearizable_w _ _ _ _ _ _ _ _ _ _ s0 ms_shared_readonly ms_none_stateless
             (nowait_wait_excl fop mloc (ms_waits row_sections) ms_never_waits mskind) _
             (nowait_resumable fstate fop fres mloc ms_linit ms_mstep ms_fin (ms_waits row_sections) ms_wstep
                ms_never_waits)).
  Qed.
End FlushableMS.

(* ---- the hypothesis "one critical section" cannot be dropped: the same object with a table that reports TWO
   sections for the batch write (unlock / lock after the first tree insert) has a non-linearizable history *)
Section SplitBatch.
  Definition sbW : fop := FBatch [WPut [1%N] [1%N]; WPut [2%N] [2%N]].
  Definition sb_sections (o : fop) : N := match o with FBatch _ => 2%N | _ => 1%N end.
  Definition sb_kind (o : fop) : lkind := if fk_readonly (fkey o) then KShared else KExcl.

  Notation FI := (Inv fop fres). Notation FA := (Acq fop fres). Notation FB := (Body fop fres).
  Notation FW := (Wait fop fres). Notation FR := (Rel fop fres). Notation FT := (Ret fop fres).

  Definition split_batch_trace := [FI 0 sbW; FA 0; FB 0; FW 0; FI 1 FPairs; FA 1; FB 1; FR 1; FT 1 (FRNum 1); FA 0; FB 0; FB 0; FB 0; FB 0; FR 0; FT 0 FROk].

  Lemma split_batch_trace_exec : exists c,
    exec fstate fop fres mloc ms_linit ms_mstep ms_fin (ms_waits sb_sections) ms_wstep sb_kind f_init
         split_batch_trace c.
  Proof.
    eexists. unfold split_batch_trace.
    change [FI 0 sbW; FA 0; FB 0; FW 0; FI 1 FPairs; FA 1; FB 1; FR 1; FT 1 (FRNum 1); FA 0; FB 0; FB 0; FB 0; FB 0; FR 0; FT 0 FROk]
      with (((((((((((((((([] ++ [FI 0 sbW]) ++ [FA 0]) ++ [FB 0]) ++ [FW 0]) ++ [FI 1 FPairs]) ++ [FA 1]) ++ [FB 1]) ++ [FR 1]) ++ [FT 1 (FRNum 1)]) ++ [FA 0]) ++ [FB 0]) ++ [FB 0]) ++ [FB 0]) ++ [FB 0]) ++ [FR 0]) ++ [FT 0 FROk])%list.
    repeat (eapply e_snoc); [apply e_nil | | | | | | | | | | | | | | | |].
    - apply s_inv; (lazy; reflexivity).
    - eapply s_acq_excl; [(lazy; reflexivity) | reflexivity | intros t' [o' [l' H]]; destruct t' as [|[|t']]; (match type of H with ?L = _ => let v := eval hnf in L in change L with v in H end); discriminate].
    - eapply s_body; [(lazy; reflexivity)|(lazy; reflexivity)|(lazy; reflexivity)|(lazy; reflexivity)].
    - eapply s_wait; [(lazy; reflexivity)|(lazy; reflexivity)|(lazy; reflexivity)].
    - apply s_inv; (lazy; reflexivity).
    - eapply s_acq_shared; [(lazy; reflexivity) | reflexivity | intros t' [o' [l' [H _]]]; destruct t' as [|[|t']]; (match type of H with ?L = _ => let v := eval hnf in L in change L with v in H end); discriminate].
    - eapply s_body; [(lazy; reflexivity)|(lazy; reflexivity)|(lazy; reflexivity)|(lazy; reflexivity)].
    - eapply s_rel; [(lazy; reflexivity)|(lazy; reflexivity)].
    - eapply s_ret; (lazy; reflexivity).
    - eapply s_acq_excl; [(lazy; reflexivity) | reflexivity | intros t' [o' [l' H]]; destruct t' as [|[|t']]; (match type of H with ?L = _ => let v := eval hnf in L in change L with v in H end); discriminate].
    - eapply s_body; [(lazy; reflexivity)|(lazy; reflexivity)|(lazy; reflexivity)|(lazy; reflexivity)].
    - eapply s_body; [(lazy; reflexivity)|(lazy; reflexivity)|(lazy; reflexivity)|(lazy; reflexivity)].
    - eapply s_body; [(lazy; reflexivity)|(lazy; reflexivity)|(lazy; reflexivity)|(lazy; reflexivity)].
    - eapply s_body; [(lazy; reflexivity)|(lazy; reflexivity)|(lazy; reflexivity)|(lazy; reflexivity)].
    - eapply s_rel; [(lazy; reflexivity)|(lazy; reflexivity)].
    - eapply s_ret; (lazy; reflexivity).
  Qed.

  (* NotFlushedPairs = 1 between the two inserts of ONE batch write: before the batch it is 0, after it 2 *)
  Theorem split_batch_not_linearizable :
    ~ linearizable fstate fop fres mloc ms_linit ms_mstep ms_fin (ms_waits sb_sections) ms_wstep f_init
        (hist fop fres split_batch_trace).
  Proof.
    change (hist fop fres split_batch_trace) with (two_op_history fop fres sbW FPairs FROk (FRNum 1)).
    apply two_op_not_linearizable.
    - intros s' x Hx. apply ms_seq_exec_step in Hx. vm_compute in Hx. inversion Hx. discriminate.
    - intros s1 w s2 x Hw Hx. apply ms_seq_exec_step in Hw. vm_compute in Hw. inversion Hw; subst.
      apply ms_seq_exec_step in Hx. vm_compute in Hx. inversion Hx. discriminate.
  Qed.
End SplitBatch.
