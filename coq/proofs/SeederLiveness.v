(* C17 round 3: progress under fair scheduling, as a bounded-steps statement about the
   transition system.  A ROUND schedules the reader's label once and every sender worker once
   (labels that are not enabled are skipped).  From every reachable state, [measure st] rounds
   reach quiescence: the reader is in select with both channels empty and every sender queue is
   empty, hence every response the reader produced has been sent. *)
From Coq Require Import NArith List Bool Lia Arith.
From Coq Require Import ZifyBool ZifyNat ZifyN.
From LV Require Import model.Seeder spec.SeederSpec proofs.SeederProofs proofs.SeederQueues proofs.SeederSessions.
Import ListNotations.
Local Open Scope N_scope.

Definition reader_label (st : state) : op :=
  match st_reader st with
  | RIdle => match st_chunreg st with _ :: _ => OReadUnreg | [] => OReadReq end
  | _ => OReader
  end.

Definition round_ops (cfg : config) (st : state) : list op :=
  reader_label st :: map ODeliver (seq 0 (N.to_nat (c_threads cfg))).

Definition round (v : variant) (cfg : config) (db : list item) (x : state * list event) : state * list event :=
  let '(st', e) := run v cfg db (fst x) (round_ops cfg (fst x)) in (st', snd x ++ e).

Fixpoint rounds (n : nat) (v : variant) (cfg : config) (db : list item) (x : state * list event) : state * list event :=
  match n with O => x | S k => rounds k v cfg db (round v cfg db x) end.

Definition quiescent (st : state) : Prop :=
  st_reader st = RIdle /\ st_chreq st = [] /\ st_chunreg st = [] /\ concat (st_senders st) = [].

(* ---------- the measure: an upper bound of the labels still to be executed ---------- *)
Definition U (rq : request) (i : N) : nat := (1 + 3 * N.to_nat (r_chunks rq - i))%nat.

Definition work_pc (pc : rpc) : nat :=
  match pc with
  | RIdle => 0
  | RTop rq => 1 + U rq 0
  | RChunk rq i _ => U rq i
  | RSend rq i _ _ => 2 + U rq (i + 1)
  | REnq rq i _ _ => 1 + U rq (i + 1)
  end%nat.

Fixpoint work_chan (l : list request) : nat :=
  match l with [] => 0 | rq :: r => 2 + U rq 0 + work_chan r end%nat.

Definition measure (st : state) : nat :=
  (2 * (work_pc (st_reader st) + work_chan (st_chreq st) + length (st_chunreg st))
   + length (concat (st_senders st)))%nat.

Definition internal (o : op) : Prop :=
  match o with ORequest _ | OUnregister _ => False | _ => True end.

Lemma concat_upd_snoc_len : forall (r : resp) qs j, (j < length qs)%nat ->
  length (concat (list_upd j (fun q => q ++ [r]) qs)) = S (length (concat qs)).
Proof.
  intros r qs. induction qs as [|q qs IH]; intros j H; simpl in H; [lia|].
  destruct j; simpl; rewrite !app_length.
  - simpl. lia.
  - rewrite IH by lia. lia.
Qed.

Lemma concat_upd_tl_len : forall (r : resp) q0 qs i, nth i qs [] = r :: q0 ->
  length (concat qs) = S (length (concat (list_upd i (fun q => tl q) qs))).
Proof.
  intros r q0 qs. induction qs as [|q qs IH]; intros i H; destruct i; simpl in *; try discriminate.
  - subst q. simpl. rewrite !app_length. reflexivity.
  - rewrite !app_length. rewrite (IH _ H). lia.
Qed.

Lemma reader_top_shape : forall v cfg st rq st' evs,
  reader_top v cfg st rq = (st', evs) ->
  st_chreq st' = st_chreq st /\ st_chunreg st' = st_chunreg st /\ st_senders st' = st_senders st /\
  (st_reader st' = RIdle \/ exists ss, st_reader st' = RChunk rq 0 ss).
Proof.
  intros v cfg st rq st' evs H. unfold reader_top in H.
  destruct (if prune_always v then prune (r_peer rq) (ps_get (r_peer rq) (st_peersess st)) (st_sessions st)
            else (ps_get (r_peer rq) (st_peersess st), st_sessions st)) as [s1 t1].
  destruct (sess_get (r_peer rq, r_sid rq) t1) as [ss|].
  - destruct (s_orig ss =? r_start rq); inversion H; subst; simpl; eauto 10.
  - destruct (if prune_always v then (s1, t1) else prune (r_peer rq) s1 t1) as [s2 t2].
    inversion H; subst; simpl; eauto 10.
Qed.

(* every internal label that is enabled decreases the measure *)
Lemma step_measure : forall v cfg db st o st' evs,
  internal o -> step v cfg db st o = Some (st', evs) -> (measure st' < measure st)%nat.
Proof.
  intros v cfg db st o st' evs Hi H. unfold measure.
  destruct o as [rq|p| | | |i]; simpl in Hi; try contradiction; simpl in H.
  - destruct (st_reader st) eqn:Epc; try discriminate. destruct (st_chreq st) as [|rq0 rest0] eqn:Ech; [discriminate|].
    inversion H; subst. simpl. lia.
  - destruct (st_reader st) eqn:Epc; try discriminate. destruct (st_chunreg st) as [|p0 rest0] eqn:Eun; [discriminate|].
    inversion H; subst. simpl. lia.
  - destruct (st_reader st) as [|rq|rq i ss|rq i ss r0|rq i ss r0] eqn:Epc; try discriminate.
    + destruct (st_pending st <? c_limit cfg); [|discriminate].
      destruct (reader_top v cfg st rq) as [st1 e1] eqn:Et. inversion H; subst.
      destruct (reader_top_shape _ _ _ _ _ _ Et) as [H1 [H2 [H3 H4]]]. rewrite H1, H2, H3.
      destruct H4 as [E|[ss E]]; rewrite E; simpl; lia.
    + inversion H; subst. unfold reader_chunk.
      destruct ((i <? r_chunks rq) && negb (s_done ss)) eqn:Eg.
      * destruct (foreach db (s_next ss) (s_stop ss) (r_num rq) (r_size rq) [] (s_next ss)) as [[items last] c].
        simpl. apply andb_prop in Eg. destruct Eg as [Eg _]. unfold U.
        assert (E : N.to_nat (r_chunks rq - i) = S (N.to_nat (r_chunks rq - (i + 1)))) by lia. lia.
      * simpl. unfold U. lia.
    + unfold reader_add in H. destruct (st_pending st <? c_limit cfg); [|discriminate].
      inversion H; subst. simpl. lia.
    + unfold reader_send in H.
      destruct (N.of_nat (length (nth (s_sender ss) (st_senders st) [])) <=? c_maxtasks cfg); [|discriminate].
      destruct (Nat.ltb (s_sender ss) (length (st_senders st))) eqn:Eidx; [|discriminate].
      simpl in H. inversion H; subst. simpl. apply Nat.ltb_lt in Eidx.
      rewrite (concat_upd_snoc_len _ _ _ Eidx). lia.
  - destruct (nth i (st_senders st) []) as [|r0 q] eqn:En; [discriminate|].
    inversion H; subst. simpl. rewrite (concat_upd_tl_len _ _ _ _ En). lia.
Qed.

Lemma run_measure_le : forall v cfg db ops st,
  Forall internal ops -> (measure (fst (run v cfg db st ops)) <= measure st)%nat.
Proof.
  intros v cfg db ops. induction ops as [|o ops IH]; intros st Hf; simpl; [lia|].
  inversion Hf; subst.
  destruct (step v cfg db st o) as [[st1 e1]|] eqn:Es.
  - destruct (run v cfg db st1 ops) as [st2 e2] eqn:Er. simpl.
    pose proof (step_measure _ _ _ _ _ _ _ H1 Es). specialize (IH st1 H2). rewrite Er in IH. simpl in IH. lia.
  - apply IH. assumption.
Qed.

Lemma delivers_internal : forall a n, Forall internal (map ODeliver (seq a n)).
Proof. intros a n. apply Forall_forall. intros o H. apply in_map_iff in H. destruct H as [i [<- _]]. exact I. Qed.

(* one pass over the sender workers sends something when some queue is not empty *)
Lemma delivers_progress : forall v cfg db n a st i,
  (a <= i < a + n)%nat -> nth i (st_senders st) [] <> [] ->
  (measure (fst (run v cfg db st (map ODeliver (seq a n)))) < measure st)%nat.
Proof.
  intros v cfg db n. induction n as [|n IH]; intros a st i Hi Hne; [lia|].
  simpl. destruct (nth a (st_senders st) []) as [|r0 q] eqn:En.
  - (* worker a has nothing to do *)
    assert (Ha : a <> i) by (intros ->; congruence).
    apply (IH (S a) st i); [lia|exact Hne].
  - match goal with |- context [run v cfg db ?s (map ODeliver (seq (S a) n))] => set (st1 := s) end.
    destruct (run v cfg db st1 (map ODeliver (seq (S a) n))) as [st2 e2] eqn:Er. simpl.
    assert (H1 : (measure st1 < measure st)%nat).
    { apply (step_measure v cfg db st (ODeliver a) st1 [ESent r0]); [exact I|]. simpl. rewrite En. reflexivity. }
    pose proof (run_measure_le v cfg db (map ODeliver (seq (S a) n)) st1 (delivers_internal _ _)) as H2.
    rewrite Er in H2. simpl in H2. lia.
Qed.

Lemma concat_nonempty_nth : forall (qs : list (list resp)), concat qs <> [] ->
  exists i, (i < length qs)%nat /\ nth i qs [] <> [].
Proof.
  induction qs as [|q qs IH]; intros H; simpl in H; [congruence|].
  destruct q as [|r q].
  - destruct (IH H) as [i [H1 H2]]. exists (S i). simpl. split; [lia|exact H2].
  - exists O. simpl. split; [lia|discriminate].
Qed.

(* ---------- invariants used: pending accounting, sender indices, number of queues ---------- *)
Record linv (cfg : config) (st : state) : Prop := mkLinv {
  li_pend : pend_inv cfg st;
  li_q : qinv cfg st;
  li_len : length (st_senders st) = N.to_nat (c_threads cfg)
}.

Lemma step_len : forall v cfg db st o st' evs,
  step v cfg db st o = Some (st', evs) -> length (st_senders st') = length (st_senders st).
Proof.
  intros v cfg db st o st' evs H. destruct o as [rq|p| | | |i]; simpl in H.
  - destruct (c_maxchunks cfg <? r_chunks rq); [inversion H; reflexivity|].
    destruct (16 <=? N.of_nat (length (st_chreq st))); [discriminate|inversion H; reflexivity].
  - destruct (128 <=? N.of_nat (length (st_chunreg st))); [discriminate|inversion H; reflexivity].
  - destruct (st_reader st); try discriminate. destruct (st_chreq st); [discriminate|inversion H; reflexivity].
  - destruct (st_reader st); try discriminate. destruct (st_chunreg st); [discriminate|inversion H; reflexivity].
  - destruct (st_reader st) as [|rq|rq i ss|rq i ss r0|rq i ss r0]; try discriminate.
    + destruct (st_pending st <? c_limit cfg); [|discriminate].
      destruct (reader_top v cfg st rq) as [st1 e1] eqn:Et. inversion H; subst.
      destruct (reader_top_shape _ _ _ _ _ _ Et) as [_ [_ [H3 _]]]. rewrite H3. reflexivity.
    + inversion H; subst. unfold reader_chunk. destruct ((i <? r_chunks rq) && negb (s_done ss)).
      * destruct (foreach db (s_next ss) (s_stop ss) (r_num rq) (r_size rq) [] (s_next ss)) as [[items last] c]. reflexivity.
      * reflexivity.
    + unfold reader_add in H. destruct (st_pending st <? c_limit cfg); [inversion H; reflexivity|discriminate].
    + unfold reader_send in H.
      destruct ((N.of_nat (length (nth (s_sender ss) (st_senders st) [])) <=? c_maxtasks cfg) &&
                (Nat.ltb (s_sender ss) (length (st_senders st)))); [|discriminate].
      inversion H; subst. simpl. apply list_upd_length.
  - destruct (nth i (st_senders st) []); [discriminate|]. inversion H; subst. simpl. apply list_upd_length.
Qed.

Lemma run_linv : forall v cfg db ops st tr st' evs,
  linv cfg st -> pend_bound cfg st -> fifo_inv cfg st tr -> run v cfg db st ops = (st', evs) ->
  linv cfg st' /\ pend_bound cfg st' /\ fifo_inv cfg st' (tr ++ evs).
Proof.
  intros v cfg db ops. induction ops as [|o ops IH]; intros st tr st' evs [H1 H2 H3] HB HF H; simpl in H.
  - inversion H; subst. rewrite app_nil_r. split; [constructor; auto|auto].
  - destruct (step v cfg db st o) as [[st1 e1]|] eqn:Es.
    + destruct (run v cfg db st1 ops) as [st2 e2] eqn:Er. inversion H; subst.
      destruct (step_pending _ _ _ _ _ _ _ H1 HB Es) as [P1 B1].
      destruct (step_fifo _ _ _ _ _ _ _ _ H2 HF Es) as [Q1 F1].
      rewrite app_assoc. apply (IH st1 (tr ++ e1) st' e2); auto.
      constructor; auto. rewrite (step_len _ _ _ _ _ _ _ Es). exact H3.
    + apply (IH st tr st' evs); auto. constructor; auto.
Qed.

(* a round makes progress unless the system is quiescent *)
Lemma round_progress : forall v cfg db st,
  1 <= c_threads cfg -> 0 < c_limit cfg -> linv cfg st -> ~ quiescent st ->
  (measure (fst (run v cfg db st (round_ops cfg st))) < measure st)%nat.
Proof.
  intros v cfg db st Hthr Hlim [HP HQ HL] Hnq. unfold round_ops. simpl.
  set (T := N.to_nat (c_threads cfg)) in *.
  assert (Hint : internal (reader_label st)).
  { unfold reader_label. destruct (st_reader st); simpl; auto. destruct (st_chunreg st); exact I. }
  destruct (step v cfg db st (reader_label st)) as [[st1 e1]|] eqn:Es.
  - destruct (run v cfg db st1 (map ODeliver (seq 0 T))) as [st2 e2] eqn:Er. simpl.
    pose proof (step_measure _ _ _ _ _ _ _ Hint Es).
    pose proof (run_measure_le v cfg db (map ODeliver (seq 0 T)) st1 (delivers_internal _ _)) as H2.
    rewrite Er in H2. simpl in H2. lia.
  - (* the reader cannot move: some sender queue is not empty *)
    assert (Hbusy : exists i, (i < T)%nat /\ nth i (st_senders st) [] <> []).
    { rewrite <- HL. unfold reader_label in Es. unfold pend_inv, accounted in HP.
      destruct (st_reader st) as [|rq|rq i ss|rq i ss r0|rq i ss r0] eqn:Epc.
      - destruct (st_chunreg st) as [|p0 rest0] eqn:Eun; unfold step in Es; rewrite Epc in Es.
        + destruct (st_chreq st) as [|rq0 rest0] eqn:Ech; [|discriminate].
          apply concat_nonempty_nth. intros E. apply Hnq. unfold quiescent. auto.
        + rewrite Eun in Es. discriminate.
      - unfold step in Es. rewrite Epc in Es. destruct (st_pending st <? c_limit cfg) eqn:El; [discriminate|].
        apply concat_nonempty_nth. intros E. rewrite E in HP. simpl in HP. lia.
      - unfold step in Es. rewrite Epc in Es. discriminate.
      - unfold step in Es. rewrite Epc in Es. unfold reader_add in Es.
        destruct (st_pending st <? c_limit cfg) eqn:El; [discriminate|].
        apply concat_nonempty_nth. intros E. rewrite E in HP. simpl in HP. lia.
      - unfold step in Es. rewrite Epc in Es. unfold reader_send in Es.
        destruct HQ as [_ Hpc _]. rewrite Epc in Hpc. simpl in Hpc. destruct Hpc as [Hwf _].
        assert (Hidx : (s_sender ss < length (st_senders st))%nat).
        { rewrite Hwf, HL. unfold sender_of. fold T.
          pose proof (N.mod_upper_bound ((s_inc ss mod 4294967296)) (c_threads cfg)). lia. }
        assert (Eidx : Nat.ltb (s_sender ss) (length (st_senders st)) = true) by (apply Nat.ltb_lt; exact Hidx).
        rewrite Eidx, andb_true_r in Es.
        destruct (N.of_nat (length (nth (s_sender ss) (st_senders st) [])) <=? c_maxtasks cfg) eqn:Eq; [discriminate|].
        exists (s_sender ss). split; [exact Hidx|]. intros E. rewrite E in Eq. simpl in Eq. lia. }
    destruct Hbusy as [i [Hi Hne]].
    apply (delivers_progress v cfg db T 0 st i); [lia|exact Hne].
Qed.

Lemma round_eq : forall v cfg db st tr st1 e1,
  run v cfg db st (round_ops cfg st) = (st1, e1) -> round v cfg db (st, tr) = (st1, tr ++ e1).
Proof. intros v cfg db st tr st1 e1 H. unfold round. cbn [fst snd]. rewrite H. reflexivity. Qed.

Lemma quiescent_dec : forall st, quiescent st \/ ~ quiescent st.
Proof.
  intros st. unfold quiescent.
  destruct (st_reader st); try (right; intros [H _]; discriminate).
  destruct (st_chreq st); [|right; intros [_ [H _]]; discriminate].
  destruct (st_chunreg st); [|right; intros [_ [_ [H _]]]; discriminate].
  destruct (concat (st_senders st)); [left; auto|right; intros [_ [_ [_ H]]]; discriminate].
Qed.

(* from a state satisfying the invariants, [measure st] rounds reach quiescence *)
Lemma rounds_reach : forall v cfg db n st tr,
  1 <= c_threads cfg -> 0 < c_limit cfg ->
  linv cfg st -> pend_bound cfg st -> fifo_inv cfg st tr -> (measure st <= n)%nat ->
  exists k, (k <= n)%nat /\
    let x := rounds k v cfg db (st, tr) in
    quiescent (fst x) /\ fifo_inv cfg (fst x) (snd x) /\ exists e, snd x = tr ++ e.
Proof.
  intros v cfg db n. induction n as [|n IH]; intros st tr Hthr Hlim HL HB HF Hm.
  - exists O. split; [lia|]. simpl. split; [|split; [exact HF|exists []; rewrite app_nil_r; reflexivity]].
    (* measure 0: nothing left *)
    unfold measure in Hm.
    assert (E1 : length (concat (st_senders st)) = O) by lia.
    assert (E2 : work_pc (st_reader st) = O) by lia.
    assert (E3 : work_chan (st_chreq st) = O) by lia.
    assert (E4 : length (st_chunreg st) = O) by lia.
    unfold quiescent. repeat split.
    + destruct (st_reader st); simpl in E2; try reflexivity; unfold U in E2; lia.
    + destruct (st_chreq st); [reflexivity|simpl in E3; lia].
    + destruct (st_chunreg st); [reflexivity|simpl in E4; lia].
    + destruct (concat (st_senders st)); [reflexivity|simpl in E1; lia].
  - destruct (quiescent_dec st) as [Hq|Hnq].
    + exists O. split; [lia|]. simpl. split; [exact Hq|split; [exact HF|exists []; rewrite app_nil_r; reflexivity]].
    + pose proof (round_progress v cfg db st Hthr Hlim HL Hnq) as Hp.
      destruct (run v cfg db st (round_ops cfg st)) as [st1 e1] eqn:Er. simpl in Hp.
      destruct (run_linv _ _ _ _ _ _ _ _ HL HB HF Er) as [HL1 [HB1 HF1]].
      destruct (IH st1 (tr ++ e1) Hthr Hlim HL1 HB1 HF1) as [k [Hk [Hq [Hf [e He]]]]]; [lia|].
      exists (S k). split; [lia|]. cbn [rounds]. rewrite (round_eq _ _ _ _ _ _ _ Er).
      split; [exact Hq|]. split; [exact Hf|]. exists (e1 ++ e). rewrite He. rewrite app_assoc. reflexivity.
Qed.

Lemma concat_nil_nth : forall (qs : list (list resp)) i, concat qs = [] -> nth i qs [] = [].
Proof.
  induction qs as [|q qs IH]; intros i H; destruct i; simpl in *; auto.
  - apply app_eq_nil in H. tauto.
  - apply app_eq_nil in H. apply IH. tauto.
Qed.

Lemma linv_init : forall cfg, linv cfg (init cfg).
Proof.
  intros cfg. constructor.
  - unfold pend_inv, accounted, init. simpl. rewrite concat_repeat_nil. reflexivity.
  - apply qinv_init.
  - simpl. apply repeat_length.
Qed.

(* Liveness as bounded steps (every code variant): from every reachable state, at most
   [measure st] fair rounds lead to a quiescent state, and then every response the reader has
   produced has been sent. *)
Lemma liveness_bounded : forall v cfg db ops,
  1 <= c_threads cfg -> 0 < c_limit cfg ->
  let st := fst (run v cfg db (init cfg) ops) in
  let tr := snd (run v cfg db (init cfg) ops) in
  exists k, (k <= measure st)%nat /\
    let x := rounds k v cfg db (st, tr) in
    quiescent (fst x) /\ (exists e, snd x = tr ++ e) /\
    forall inc, sel inc (sents (snd x)) = sel inc (enqs (snd x)).
Proof.
  intros v cfg db ops Hthr Hlim. destruct (run v cfg db (init cfg) ops) as [st tr] eqn:Er. simpl.
  assert (HB0 : pend_bound cfg (init cfg)) by (left; reflexivity).
  destruct (run_linv _ _ _ _ _ _ _ _ (linv_init cfg) HB0 (fifo_init cfg) Er) as [HL [HB HF]]. simpl in HF.
  destruct (rounds_reach v cfg db (measure st) st tr Hthr Hlim HL HB HF (le_n _)) as [k [Hk [Hq [Hf He]]]].
  exists k. split; [exact Hk|]. split; [exact Hq|]. split; [exact He|].
  intros inc. rewrite (Hf inc). unfold queued. destruct Hq as [_ [_ [_ Hc]]].
  rewrite (concat_nil_nth _ _ Hc). simpl. rewrite app_nil_r. reflexivity.
Qed.

(* rounds are runs: the session invariant of the repaired code carries over *)
Lemma rounds_sinv : forall cfg db k st tr,
  sorted_keys db -> sinv db st tr ->
  sinv db (fst (rounds k v_fixed cfg db (st, tr))) (snd (rounds k v_fixed cfg db (st, tr))).
Proof.
  intros cfg db k. induction k as [|k IH]; intros st tr Hs HI; simpl; [exact HI|].
  destruct (run v_fixed cfg db st (round_ops cfg st)) as [st1 e1] eqn:Er.
  rewrite (round_eq _ _ _ _ _ _ _ Er). apply IH; [exact Hs|]. eapply run_sinv; eauto.
Qed.

(* "ends with exactly one response marked done": under fair scheduling the done response of every
   finished session is actually SENT (repaired code); with C17_session_content it is the last
   response of its incarnation and unique. *)
Lemma done_response_is_sent : forall cfg db ops,
  sorted_keys db -> 1 <= c_threads cfg -> 0 < c_limit cfg ->
  let st := fst (run v_fixed cfg db (init cfg) ops) in
  let tr := snd (run v_fixed cfg db (init cfg) ops) in
  exists k, (k <= measure st)%nat /\
    let x := rounds k v_fixed cfg db (st, tr) in
    quiescent (fst x) /\
    forall key ss, sess_get key (st_sessions (fst x)) = Some ss -> s_done ss = true ->
      exists r, In r (sents (snd x)) /\ rs_inc r = s_inc ss /\ rs_done r = true.
Proof.
  intros cfg db ops Hs Hthr Hlim.
  pose proof (liveness_bounded v_fixed cfg db ops Hthr Hlim) as HLv.
  destruct (run v_fixed cfg db (init cfg) ops) as [st tr] eqn:Er. simpl in *.
  destruct HLv as [k [Hk [Hq [He Hall]]]].
  exists k. split; [exact Hk|]. split; [exact Hq|].
  pose proof (run_sinv _ _ _ _ _ _ _ Hs (sinv_init cfg db) Er) as HI0. simpl in HI0.
  pose proof (rounds_sinv cfg db k st tr Hs HI0) as HI.
  destruct (rounds k v_fixed cfg db (st, tr)) as [st' tr'] eqn:Ek. simpl in *.
  intros key ss Hg Hd.
  destruct (si_live _ _ _ HI _ _ Hg) as [_ _ _ _ Lf _].
  destruct Lf as [[Hd' _]|[_ [l' [r' [Hl' [_ Hr']]]]]]; [congruence|].
  assert (Hin : In r' (prod (s_inc ss) st' tr')) by (rewrite Hl'; apply in_or_app; right; left; reflexivity).
  unfold prod, produced in Hin. destruct Hq as [Hpc _]. rewrite Hpc in Hin. simpl in Hin. rewrite app_nil_r in Hin.
  rewrite <- (Hall (s_inc ss)) in Hin. unfold sel in Hin. apply filter_In in Hin. destruct Hin as [Hin Hk'].
  apply N.eqb_eq in Hk'. exists r'. auto.
Qed.

(* ---------------------------------------------------------------------------------- *)
(* Round 5: the facts behind the bounded-rounds theorem, as statements about EVERY schedule  *)
(* ---------------------------------------------------------------------------------- *)

(* no deadlock: in a state satisfying the invariants that is not quiescent some internal label
   (reader or sender worker) is enabled *)
Lemma enabled_internal : forall v cfg db st,
  1 <= c_threads cfg -> 0 < c_limit cfg -> linv cfg st -> ~ quiescent st ->
  exists o, internal o /\ step v cfg db st o <> None.
Proof.
  intros v cfg db st Hthr Hlim HL Hnq.
  pose proof (round_progress v cfg db st Hthr Hlim HL Hnq) as Hp.
  (* if no label of the round were enabled the round would leave the state unchanged *)
  destruct (step v cfg db st (reader_label st)) as [[s1 e1]|] eqn:Es.
  - exists (reader_label st). split; [|rewrite Es; discriminate].
    unfold reader_label. destruct (st_reader st); simpl; auto. destruct (st_chunreg st); exact I.
  - unfold round_ops in Hp. simpl in Hp. rewrite Es in Hp.
    assert (G : forall n a s, (forall i, (a <= i < a + n)%nat -> step v cfg db s (ODeliver i) = None) ->
                fst (run v cfg db s (map ODeliver (seq a n))) = s).
    { induction n as [|n IH]; intros a s Hn; [reflexivity|].
      cbn [map seq]. cbn [run]. rewrite (Hn a) by lia. apply IH. intros i Hi. apply Hn. lia. }
    destruct (existsb (fun i => match step v cfg db st (ODeliver i) with Some _ => true | None => false end)
                      (seq 0 (N.to_nat (c_threads cfg)))) eqn:Ex.
    + apply existsb_exists in Ex. destruct Ex as [i [_ Hi]]. exists (ODeliver i). split; [exact I|].
      destruct (step v cfg db st (ODeliver i)); [discriminate|discriminate].
    + exfalso. rewrite (G (N.to_nat (c_threads cfg)) O st) in Hp; [lia|].
      intros i Hi. destruct (step v cfg db st (ODeliver i)) eqn:Ei; [|reflexivity].
      assert (Hin : In i (seq 0 (N.to_nat (c_threads cfg)))) by (apply in_seq; lia).
      assert (Ht : existsb (fun i => match step v cfg db st (ODeliver i) with Some _ => true | None => false end)
                           (seq 0 (N.to_nat (c_threads cfg))) = true).
      { apply existsb_exists. exists i. split; [exact Hin|]. rewrite Ei. reflexivity. }
      congruence.
Qed.

Lemma no_deadlock : forall v cfg db ops,
  1 <= c_threads cfg -> 0 < c_limit cfg ->
  let st := fst (run v cfg db (init cfg) ops) in
  ~ quiescent st -> exists o, internal o /\ step v cfg db st o <> None.
Proof.
  intros v cfg db ops Hthr Hlim. destruct (run v cfg db (init cfg) ops) as [st tr] eqn:Er. simpl.
  assert (HB0 : pend_bound cfg (init cfg)) by (left; reflexivity).
  destruct (run_linv _ _ _ _ _ _ _ _ (linv_init cfg) HB0 (fifo_init cfg) Er) as [HL _].
  intros Hnq. apply enabled_internal; auto.
Qed.

(* number of labels of a schedule that were enabled when their turn came *)
Fixpoint executed (v : variant) (cfg : config) (db : list item) (st : state) (ops : list op) : nat :=
  match ops with
  | [] => 0
  | o :: r => match step v cfg db st o with
              | Some (st1, _) => S (executed v cfg db st1 r)
              | None => executed v cfg db st r
              end
  end.

(* every internal schedule, whatever its order, executes at most [measure st] labels *)
Lemma internal_schedules_terminate : forall v cfg db ops st,
  Forall internal ops -> (executed v cfg db st ops + measure (fst (run v cfg db st ops)) <= measure st)%nat.
Proof.
  intros v cfg db ops. induction ops as [|o ops IH]; intros st Hf; simpl; [lia|].
  inversion Hf; subst.
  destruct (step v cfg db st o) as [[st1 e1]|] eqn:Es.
  - destruct (run v cfg db st1 ops) as [st2 e2] eqn:Er. simpl.
    pose proof (step_measure _ _ _ _ _ _ _ H1 Es). specialize (IH st1 H2). rewrite Er in IH. simpl in IH. lia.
  - apply IH. assumption.
Qed.

(* at quiescence every response the reader ever produced - of live, pruned and unregistered
   sessions alike - has been sent *)
Lemma every_response_is_sent : forall cfg st tr,
  fifo_inv cfg st tr -> quiescent st -> forall r, In r (enqs tr) -> In r (sents tr).
Proof.
  intros cfg st tr HF [_ [_ [_ Hc]]] r Hr.
  assert (Hin : In r (sel (rs_inc r) (enqs tr))) by (unfold sel; apply filter_In; split; [exact Hr|apply N.eqb_refl]).
  rewrite (HF (rs_inc r)) in Hin. unfold queued in Hin. rewrite (concat_nil_nth _ _ Hc) in Hin.
  simpl in Hin. rewrite app_nil_r in Hin. unfold sel in Hin. apply filter_In in Hin. tauto.
Qed.

(* the same over reachability: in every reachable quiescent state every response ever produced
   has been sent *)
Lemma every_response_is_sent_reachable : forall v cfg db ops,
  let st := fst (run v cfg db (init cfg) ops) in
  let tr := snd (run v cfg db (init cfg) ops) in
  quiescent st -> forall r, In r (enqs tr) -> In r (sents tr).
Proof.
  intros v cfg db ops. destruct (run v cfg db (init cfg) ops) as [st tr] eqn:Er. simpl.
  destruct (run_fifo _ _ _ _ _ _ _ _ (qinv_init cfg) (fifo_init cfg) Er) as [_ HF]. simpl in HF.
  intros Hq r Hr. exact (every_response_is_sent cfg st tr HF Hq r Hr).
Qed.
