(* C27, "the underlying drop runs at most once per open", in the strict per-store reading:
   in every trace satisfying the specification, the number of underlying Drop calls on a store
   u is at most the number of OpenDB(name) calls (of any result: fresh, cached or failed)
   made while u is the store behind name.  (What re-arms Drop is an OpenDB CALL, as in the
   code: `c.notDropped[name] = true` is the first statement of openDB.  So O;C;D;F;D (F = an
   OpenDB whose underlying open fails) and O;D;O(cached);D drop the same store twice, with two
   OpenDB calls each.) *)
From Coq Require Import NArith List Bool Lia Arith.
From Coq Require Import ZifyBool ZifyNat ZifyN.
From LV Require Import model.CachedProducer spec.CachedProducerSpec proofs.CachedProducerProofs proofs.CachedProducerOnce.
Import ListNotations.
Local Open Scope N_scope.

Definition ev_drop (ev : list uevent) : list N :=
  flat_map (fun e => match e with UDrop u => [u] | _ => [] end) ev.
Definition drops (pre : list titem) : list N := flat_map (fun t : titem => ev_drop (snd t)) pre.
Definition ndrops (u : N) (pre : list titem) : nat := count_occ N.eq_dec (drops pre) u.

Definition is_open_call (n : N) (t : titem) : bool :=
  match t with (COpen n' _, _, _) => n' =? n | _ => false end.
Definition cur_is (n u : N) (pre : list titem) : bool :=
  match cur n pre with Some u' => u' =? u | None => false end.

(* OpenDB(n) calls after which u is the store behind n *)
Fixpoint opens_while_from (n u : N) (pre tr : list titem) : nat :=
  match tr with
  | [] => 0
  | t :: r => (if is_open_call n t && cur_is n u (pre ++ [t]) then 1 else 0) + opens_while_from n u (pre ++ [t]) r
  end.
Definition opens_while (n u : N) (tr : list titem) : nat := opens_while_from n u [] tr.

Lemma opens_while_from_snoc n u tr : forall pre t,
  opens_while_from n u pre (tr ++ [t]) =
  (opens_while_from n u pre tr + (if is_open_call n t && cur_is n u ((pre ++ tr) ++ [t]) then 1 else 0))%nat.
Proof.
  induction tr as [|x tr IH]; intros pre t; cbn [app opens_while_from].
  - rewrite app_nil_r. lia.
  - rewrite IH. rewrite <- (app_assoc pre [x] tr). cbn [app]. lia.
Qed.
Lemma opens_while_snoc n u pre t :
  opens_while n u (pre ++ [t]) =
  (opens_while n u pre + (if is_open_call n t && cur_is n u (pre ++ [t]) then 1 else 0))%nat.
Proof. unfold opens_while. rewrite opens_while_from_snoc. reflexivity. Qed.

Lemma drops_snoc pre o r ev : drops (pre ++ [(o, r, ev)]) = drops pre ++ ev_drop ev.
Proof. unfold drops. rewrite flat_map_app. cbn [flat_map snd]. rewrite app_nil_r. reflexivity. Qed.
Lemma ndrops_snoc u pre o r ev :
  ndrops u (pre ++ [(o, r, ev)]) = (ndrops u pre + count_occ N.eq_dec (ev_drop ev) u)%nat.
Proof. unfold ndrops. rewrite drops_snoc, count_occ_app. reflexivity. Qed.

Definition b2n (b : bool) : nat := if b then 1%nat else 0%nat.

Definition Inv3 (pre : list titem) : Prop :=
  Inv2 pre /\
  (forall u, In u (drops pre) -> used_uid u pre = true) /\
  (forall n u, In (n, u) (uopens pre) -> (ndrops u pre <= opens_while n u pre)%nat) /\
  (forall n u, cur n pre = Some u -> (ndrops u pre + b2n (droppable n pre) <= opens_while n u pre)%nat).

Lemma inv3_nil : Inv3 [].
Proof.
  split; [exact inv2_nil|]. split; [intros u []|]. split; [intros n u []|]. intros n u H. discriminate.
Qed.

Lemma cur_is_true n u pre : cur_is n u pre = true <-> cur n pre = Some u.
Proof.
  unfold cur_is. destruct (cur n pre) as [u'|]; [|split; discriminate].
  rewrite N.eqb_eq. split; [intros ->; reflexivity | intros [= ->]; reflexivity].
Qed.

(* a step with no underlying open: cur is unchanged *)
Lemma cur_snoc_noopen n pre o r ev : ev_open ev = [] -> cur n (pre ++ [(o, r, ev)]) = cur n pre.
Proof. intros H. rewrite cur_snoc, H. reflexivity. Qed.

Lemma count_occ_in_zero u l : ~ In u l -> count_occ N.eq_dec l u = 0%nat.
Proof. intros H. apply count_occ_not_In. exact H. Qed.

Lemma inv3_step pre t : Inv3 pre -> step_ok pre t = true -> Inv3 (pre ++ [t]).
Proof.
  intros (I2 & P0 & P1 & P2) H. pose proof (inv2_step _ _ I2 H) as I2'.
  split; [exact I2'|]. destruct t as [[o r] ev]. pose proof I2 as (A & B & C & D & E).
  destruct o as [name f|name|name|uid|uid|name]; cbn [step_ok] in H; try discriminate.
  - (* OpenDB: an open call for name *)
    assert (Hcases : (ev_open ev = [] /\ ev_drop ev = [] /\ r <> RDead) \/
                     (exists u, r = RHandle u /\ ev = [UOpen name u] /\ used_uid u pre = false)).
    { destruct (0 <? balance name pre).
      - destruct (cur name pre); [|discriminate]. apply andb_true_iff in H. destruct H as [H1 H2].
        apply cres_eqb_eq in H1. apply uevents_eqb_eq in H2. subst. left. repeat split; discriminate.
      - destruct f.
        + apply andb_true_iff in H. destruct H as [H1 H2]. apply cres_eqb_eq in H1. apply uevents_eqb_eq in H2. subst.
          left. repeat split; discriminate.
        + destruct r as [u| | | | | | |]; try discriminate. apply andb_true_iff in H. destruct H as [H1 H2].
          apply negb_true_iff in H1. apply uevents_eqb_eq in H2. right. exists u. repeat split; assumption. }
    destruct Hcases as [(Ho & Hd & Hr)|(u & -> & -> & Hfresh)].
    + (* cached or failed open: cur unchanged, droppable(name) becomes true *)
      assert (Hdr : forall nm, droppable nm (pre ++ [(COpen name f, r, ev)]) = if name =? nm then true else droppable nm pre).
      { intros nm. rewrite droppable_snoc. cbn [droppable_rev]. fold (droppable nm pre). destruct r; try reflexivity. contradiction. }
      split; [|split].
      * intros u Hu. rewrite drops_snoc, Hd, app_nil_r in Hu. rewrite used_snoc, Ho. cbn [existsb]. rewrite orb_false_r. exact (P0 u Hu).
      * intros n u Hin. rewrite uopens_snoc, uopens_single, Ho, app_nil_r in Hin.
        rewrite ndrops_snoc, Hd, opens_while_snoc. cbn [count_occ]. specialize (P1 n u Hin). lia.
      * intros n u Hc. rewrite cur_snoc_noopen in Hc by exact Ho.
        rewrite ndrops_snoc, Hd, opens_while_snoc, Hdr. cbn [count_occ is_open_call].
        match goal with |- context [cur_is n u ?l] =>
          assert (Hci : cur_is n u l = true) by (apply cur_is_true; rewrite cur_snoc_noopen by exact Ho; exact Hc);
          rewrite Hci end.
        destruct (name =? n) eqn:En; cbn [andb b2n].
        -- apply N.eqb_eq in En. subst n. specialize (P1 name u (cur_in _ _ _ Hc)). lia.
        -- specialize (P2 n u Hc). lia.
    + (* a fresh store u behind name *)
      assert (Hnd : ndrops u pre = 0%nat).
      { apply count_occ_in_zero. intros Hin. specialize (P0 u Hin). congruence. }
      assert (Hcur : forall nm, cur nm (pre ++ [(COpen name f, RHandle u, [UOpen name u])]) = if nm =? name then Some u else cur nm pre).
      { intros nm. rewrite cur_snoc. cbn [ev_open flat_map rev app alookup]. destruct (nm =? name); reflexivity. }
      split; [|split].
      * intros u0 Hu. rewrite drops_snoc in Hu. cbn [ev_drop flat_map] in Hu. rewrite app_nil_r in Hu.
        rewrite used_snoc, (P0 u0 Hu). reflexivity.
      * intros n u0 Hin. rewrite uopens_snoc, uopens_single in Hin. cbn [ev_open flat_map app] in Hin.
        rewrite ndrops_snoc, opens_while_snoc. cbn [ev_drop flat_map app count_occ].
        apply in_app_iff in Hin. destruct Hin as [Hin|[Eq|[]]].
        -- specialize (P1 n u0 Hin). lia.
        -- injection Eq as <- <-. lia.
      * intros n u0 Hc0. pose proof (eq_trans (eq_sym (Hcur n)) Hc0) as Hc. clear Hc0.
        rewrite ndrops_snoc, opens_while_snoc, droppable_snoc. cbn [ev_drop flat_map app count_occ droppable_rev is_open_call].
        fold (droppable n pre). destruct (n =? name) eqn:En.
        -- injection Hc as <-. apply N.eqb_eq in En. subst n. rewrite N.eqb_refl.
           match goal with |- context [cur_is name u ?l] =>
             assert (Hci : cur_is name u l = true) by (apply cur_is_true; rewrite Hcur, N.eqb_refl; reflexivity);
             rewrite Hci end.
           cbn [andb b2n]. lia.
        -- rewrite (N.eqb_sym name n), En. cbn [andb]. specialize (P2 n u0 Hc). lia.
  - (* Close: no drop, no open call, droppable and cur unchanged *)
    assert (Hev : ev_open ev = [] /\ ev_drop ev = []).
    { destruct (cur name pre); [destruct (balance name pre =? 0); [|destruct (balance name pre =? 1)]|];
        apply andb_true_iff in H; destruct H as [_ Hb]; apply uevents_eqb_eq in Hb; subst; split; reflexivity. }
    destruct Hev as [Ho Hd]. split; [|split].
    + intros u Hu. rewrite drops_snoc, Hd, app_nil_r in Hu. rewrite used_snoc, Ho. cbn [existsb]. rewrite orb_false_r. exact (P0 u Hu).
    + intros n u Hin. rewrite uopens_snoc, uopens_single, Ho, app_nil_r in Hin.
      rewrite ndrops_snoc, Hd, opens_while_snoc. cbn [count_occ is_open_call andb]. specialize (P1 n u Hin). lia.
    + intros n u Hc. rewrite cur_snoc_noopen in Hc by exact Ho.
      rewrite ndrops_snoc, Hd, opens_while_snoc, droppable_snoc. cbn [count_occ is_open_call andb droppable_rev].
      fold (droppable n pre). specialize (P2 n u Hc). lia.
  - (* Drop *)
    destruct (cur name pre) as [u|] eqn:Hc;
      apply andb_true_iff in H; destruct H as [Ha Hb]; apply cres_eqb_eq in Ha; apply uevents_eqb_eq in Hb; subst r ev.
    + assert (Ho : ev_open (if droppable name pre then [UDrop u] else []) = []) by (destruct (droppable name pre); reflexivity).
      assert (Hdr : forall nm, droppable nm (pre ++ [(CDrop name, ROk, if droppable name pre then [UDrop u] else [])]) =
                               if name =? nm then false else droppable nm pre).
      { intros nm. rewrite droppable_snoc. cbn [droppable_rev]. fold (droppable nm pre). reflexivity. }
      assert (Hcnt : forall u0, count_occ N.eq_dec (ev_drop (if droppable name pre then [UDrop u] else [])) u0 =
                                if droppable name pre then (if N.eq_dec u u0 then 1%nat else 0%nat) else 0%nat).
      { intros u0. destruct (droppable name pre); cbn [ev_drop flat_map app count_occ]; [destruct (N.eq_dec u u0)|]; reflexivity. }
      split; [|split].
      * intros u0 Hu. rewrite drops_snoc in Hu. rewrite used_snoc, Ho. cbn [existsb]. rewrite orb_false_r.
        apply in_app_iff in Hu. destruct Hu as [Hu|Hu]; [exact (P0 u0 Hu)|].
        destruct (droppable name pre); cbn [ev_drop flat_map app In] in Hu; [|contradiction].
        destruct Hu as [<-|[]]. apply used_uid_in. exists name. exact (cur_in _ _ _ Hc).
      * intros n u0 Hin. rewrite uopens_snoc, uopens_single, Ho, app_nil_r in Hin.
        rewrite ndrops_snoc, Hcnt, opens_while_snoc. cbn [is_open_call andb].
        destruct (droppable name pre) eqn:Dr; [|specialize (P1 n u0 Hin); lia].
        destruct (N.eq_dec u u0) as [<-|Hne]; [|specialize (P1 n u0 Hin); lia].
        assert (n = name) as -> by exact (nodup_snd_inj _ _ _ _ A Hin (cur_in _ _ _ Hc)).
        specialize (P2 name u Hc). rewrite Dr in P2. cbn [b2n] in P2. lia.
      * intros n u0 Hc0. rewrite cur_snoc_noopen in Hc0 by exact Ho.
        rewrite ndrops_snoc, Hcnt, opens_while_snoc, Hdr. cbn [is_open_call andb].
        destruct (name =? n) eqn:En.
        -- apply N.eqb_eq in En. subst n. assert (u0 = u) as -> by congruence. cbn [b2n].
           specialize (P2 name u Hc). destruct (droppable name pre); cbn [b2n] in P2; [destruct (N.eq_dec u u); [lia | contradiction] | lia].
        -- destruct (droppable name pre) eqn:Dr; [|specialize (P2 n u0 Hc0); lia].
           destruct (N.eq_dec u u0) as [<-|Hne]; [|specialize (P2 n u0 Hc0); lia].
           exfalso. assert (n = name) by exact (nodup_snd_inj _ _ _ _ A (cur_in _ _ _ Hc0) (cur_in _ _ _ Hc)).
           subst n. rewrite N.eqb_refl in En. discriminate.
    + split; [|split].
      * intros u Hu. rewrite drops_snoc in Hu. cbn [ev_drop flat_map] in Hu. rewrite app_nil_r in Hu.
        rewrite used_snoc. cbn [ev_open flat_map existsb]. rewrite orb_false_r. exact (P0 u Hu).
      * intros n u Hin. rewrite uopens_snoc, uopens_single in Hin. cbn [ev_open flat_map] in Hin. rewrite app_nil_r in Hin.
        rewrite ndrops_snoc, opens_while_snoc. cbn [ev_drop flat_map app count_occ is_open_call andb]. specialize (P1 n u Hin). lia.
      * intros n u Hc0. rewrite cur_snoc_noopen in Hc0 by reflexivity.
        rewrite ndrops_snoc, opens_while_snoc, droppable_snoc. cbn [ev_drop flat_map app count_occ is_open_call andb droppable_rev].
        fold (droppable n pre). specialize (P2 n u Hc0). lia.
Qed.

Lemma inv3_trace tr : forall pre, Inv3 pre -> trace_ok_from pre tr = true -> Inv3 (pre ++ tr).
Proof.
  induction tr as [|t tr IH]; intros pre I H; [rewrite app_nil_r; exact I|].
  cbn [trace_ok_from] in H. apply andb_true_iff in H. destruct H as [H1 H2].
  specialize (IH _ (inv3_step _ _ I H1) H2). rewrite <- app_assoc in IH. exact IH.
Qed.

Theorem trace_ok_drops_per_open tr :
  trace_ok tr = true ->
  (forall n u, In (n, u) (uopens tr) -> (ndrops u tr <= opens_while n u tr)%nat) /\
  (forall u, (forall n, ~ In (n, u) (uopens tr)) -> ndrops u tr = 0%nat).
Proof.
  intros H. destruct (inv3_trace tr [] inv3_nil H) as (_ & P0 & P1 & _). cbn [app] in *.
  split; [exact P1|]. intros u Hno. apply count_occ_in_zero. intros Hin.
  specialize (P0 u Hin). apply used_uid_in in P0. destruct P0 as [n Hn]. exact (Hno n Hn).
Qed.

Theorem drops_per_open_all_histories s0 ops :
  s0 = wrap \/ s0 = wrap_all -> forallb by_name_op ops = true ->
  (forall n u, In (n, u) (uopens (snd (crun s0 ops))) ->
     (ndrops u (snd (crun s0 ops)) <= opens_while n u (snd (crun s0 ops)))%nat) /\
  (forall u, (forall n, ~ In (n, u) (uopens (snd (crun s0 ops)))) -> ndrops u (snd (crun s0 ops)) = 0%nat).
Proof. intros H0 Hb. apply trace_ok_drops_per_open. exact (trace_ok_all s0 ops H0 Hb). Qed.

(* the two histories of the audit: two OpenDB calls, two drops of the same store *)
Example drop_rearmed_by_failed_and_cached_open :
  map (fun t : titem => snd t) (snd (crun wrap [COpen 0 false; CClose 0; CDrop 0; COpen 0 true; CDrop 0])) =
    [[UOpen 0 0]; [UClose 0]; [UDrop 0]; [UOpenFail 0]; [UDrop 0]] /\
  map (fun t : titem => snd t) (snd (crun wrap_all [COpen 0 false; CDrop 0; COpen 0 false; CDrop 0])) =
    [[UOpen 0 0]; [UDrop 0]; []; [UDrop 0]].
Proof. vm_compute. split; reflexivity. Qed.
