(* C25 — several sessions: crash, Initialize over the survivors, continue (SyncedPool). *)
From Coq Require Import NArith List Bool Lia Permutation PeanoNat Compare_dec.
From LV Require Import lib.Bytes lib.BytesFacts model.CrashBase model.SyncedPool model.Flagged
  proofs.CrashBaseProofs proofs.SyncedPoolProofs proofs.FlaggedProofs.
Import ListNotations.
Local Open Scope N_scope.

(* ------------------------------------------------------------------ worlds have distinct names *)
Lemma wget_in_names n w : In n (map fst w) <-> wget n w <> None.
Proof.
  induction w as [|[n' c] t IH]; cbn; [tauto|].
  destruct (n' =? n) eqn:E.
  - apply N.eqb_eq in E; subst. split; [discriminate|auto].
  - rewrite <- IH. split; [intros [X|X]; auto; subst; rewrite N.eqb_refl in E; discriminate|auto].
Qed.
Lemma wset_nodup n c w : NoDup (map fst w) -> NoDup (map fst (wset n c w)).
Proof.
  induction w as [|[n' c'] t IH]; cbn; intros ND; [repeat constructor; auto|].
  inversion ND as [|? ? Hn ND']; subst.
  destruct (n' =? n) eqn:E; cbn.
  - apply N.eqb_eq in E; subst. constructor; auto.
  - constructor; auto. intros H. apply wget_in_names in H.
    rewrite wget_wset_neq in H; [apply Hn; apply wget_in_names; auto|].
    intros ->. rewrite N.eqb_refl in E; discriminate.
Qed.
Lemma wdel_nodup n w : NoDup (map fst w) -> NoDup (map fst (wdel n w)).
Proof.
  induction w as [|[n' c'] t IH]; cbn; intros ND; [constructor|].
  inversion ND as [|? ? Hn ND']; subst.
  destruct (n' =? n) eqn:E; cbn; auto.
  constructor; auto. intros H. apply wget_in_names in H.
  rewrite wget_wdel_neq in H; [apply Hn; apply wget_in_names; auto|].
  intros ->. rewrite N.eqb_refl in E; discriminate.
Qed.
Lemma apply_dop_nodup w o : NoDup (map fst w) -> NoDup (map fst (apply_dop w o)).
Proof.
  intros ND. destruct o; cbn [apply_dop]; unfold on_db.
  - destruct (wget n w); auto. apply wset_nodup; auto.
  - apply wdel_nodup; auto.
  - destruct (wget n w); auto. apply wset_nodup; auto.
  - destruct (wget n w); auto. apply wset_nodup; auto.
  - destruct (wget n w); auto. apply wset_nodup; auto.
Qed.
Lemma apply_dops_nodup ops : forall w, NoDup (map fst w) -> NoDup (map fst (apply_dops ops w)).
Proof.
  induction ops as [|o t IH]; intros w ND; cbn; auto.
  unfold apply_dops in *. cbn. apply IH. apply apply_dop_nodup; auto.
Qed.
Lemma crash_nodup log k : NoDup (map fst (crash log k)).
Proof. unfold crash. apply apply_dops_nodup. constructor. Qed.

Lemma in_wget_nodup n c w : NoDup (map fst w) -> (In (n, c) w <-> wget n w = Some c).
Proof.
  induction w as [|[n' c'] t IH]; cbn; intros ND; [split; [tauto|discriminate]|].
  inversion ND as [|? ? Hn ND']; subst. destruct (n' =? n) eqn:E.
  - apply N.eqb_eq in E; subst. split.
    + intros [X|X]; [inversion X; auto|]. exfalso. apply Hn. apply in_map_iff. exists (n, c); auto.
    + intros X; inversion X; auto.
  - rewrite <- IH; auto. split; [intros [X|X]; auto; inversion X; subst; rewrite N.eqb_refl in E; discriminate|auto].
Qed.
Lemma lists_world_self w : NoDup (map fst w) -> lists_world w w.
Proof. intros ND n c. apply in_wget_nodup; auto. Qed.

(* opening databases that exist changes nothing *)
Lemma apply_opens_existing ns : forall w, (forall n, In n ns -> wget n w <> None) ->
  apply_dops (map DOpen ns) w = w.
Proof.
  induction ns as [|n t IH]; intros w H; cbn; auto.
  unfold apply_dops in *. cbn. destruct (wget n w) eqn:E.
  - apply IH. intros m Hm. apply H; right; auto.
  - exfalso. apply (H n); [left; auto|exact E].
Qed.

Lemma firstn_firstn_le {A} (l : list A) j k : (j <= k)%nat -> firstn j (firstn k l) = firstn j l.
Proof. intros H. rewrite firstn_firstn. f_equal. lia. Qed.

(* an OK verdict of the recovery: the world agrees with one completed flush (or everything is empty) *)
Lemma ok_agrees fk recs k w l x :
  safe fk recs k w -> lists_world l w -> check_synced fk l = COk x ->
  exists orc, (forall rc, orc = Some rc -> In rc recs /\ (r_pos rc <= k)%nat) /\ agrees fk orc w /\
              option_map (fun rc => mark_of CLEAN (r_id rc)) orc = x.
Proof.
  intros [S1 S2] L E. destruct x as [m|].
  - destruct (check_ok_some fk l m E) as [Hne B].
    assert (Hall : forall n c, wget n w = Some c -> dget fk c = Some m).
    { intros n c G. apply L in G. apply (B _ _ G). }
    destruct (S2 m) as [rc [Hin [Hp [Hm Hc]]]]; auto.
    + destruct l as [|[n c] t]; [contradiction|]. exists n, c. apply L. left; auto.
    + destruct l as [|[n c] t]; [contradiction|]. apply (B n c (or_introl eq_refl)).
    + exists (Some rc). split; [intros rc' X; inversion X; subst; auto|]. split; [|cbn; congruence].
      intros n c G. right. specialize (Hc _ _ G). pose proof (Hall _ _ G) as Mk.
      destruct (wget n (r_snap rc)) as [s|] eqn:Gs.
      * exists rc, s. rewrite <- Hm. auto.
      * rewrite (Hc fk) in Mk. discriminate.
  - exists None. split; [intros rc X; discriminate|]. split; [|reflexivity].
    intros n c G. left. apply (S1 _ _ G). eapply check_ok_none; [exact E|]. apply L; exact G.
Qed.

Lemma safe_restrict fk recs recs' k w :
  (forall rc, In rc recs -> (r_pos rc <= k)%nat -> In rc recs') -> safe fk recs k w -> safe fk recs' k w.
Proof.
  intros H [S1 S2]. split; auto. intros m He Ha Hd.
  destruct (S2 m He Ha Hd) as [rc [A [B [C D]]]]. exists rc. repeat split; auto.
Qed.

Lemma pget_pool_of_world n w :
  pget n (map (fun nc : name * db => (fst nc, mkWr true [])) w) = option_map (fun _ => mkWr true []) (wget n w).
Proof. induction w as [|[n' c] t IH]; cbn; auto. destruct (n' =? n); auto. Qed.

Section Sessions.
  Variable fk : bytes.
  Variable scale : N.

  Lemma restart_inv s k o s' : run_inv fk s -> restart_pool fk s k o = Some s' -> run_inv fk s'.
  Proof.
    intros [I [_ [Hp [Hs Hlive]]]]. unfold restart_pool.
    set (W := crash (rs_log s) k).
    destruct (check_synced fk W) as [x| | |] eqn:E; try discriminate. intros H; inversion H; subst s'; clear H.
    pose proof (crash_nodup (rs_log s) k) as ND. fold W in ND.
    destruct (ok_agrees fk _ k W W x (Hs k) (lists_world_self _ ND) E) as [orc [Ho [Hag _]]].
    set (ns := arrange o (map fst W)).
    set (log0 := firstn k (rs_log s)).
    set (recs' := filter (fun rc => Nat.leb (r_pos rc) k) (rs_recs s)).
    assert (Hr' : forall rc, In rc recs' <-> In rc (rs_recs s) /\ (r_pos rc <= k)%nat).
    { intros rc. unfold recs'. rewrite filter_In, Nat.leb_le. tauto. }
    assert (W0 : apply_dops log0 [] = W) by reflexivity.
    assert (Wn : apply_dops (map DOpen ns) W = W).
    { apply apply_opens_existing. intros n Hn. apply wget_in_names. unfold ns in Hn. apply arrange_in in Hn. auto. }
    assert (L0 : (length log0 <= k)%nat /\ (length log0 <= length (rs_log s))%nat).
    { unfold log0. rewrite firstn_length. lia. }
    assert (Hp0 : forall rc, In rc recs' -> (r_pos rc <= length log0)%nat).
    { intros rc Hr. apply Hr' in Hr. destruct Hr as [Hr Hk]. specialize (Hp _ Hr). unfold log0. rewrite firstn_length. lia. }
    assert (C0 : forall j, (j <= length log0)%nat -> crash log0 j = crash (rs_log s) j).
    { intros j Hj. unfold crash, log0. rewrite firstn_firstn_le; auto. lia. }
    unfold run_inv; cbn [rs_pool rs_spec rs_log rs_recs]. fold W ns log0 recs'.
    split; [|split; [|split; [|split]]].
    - rewrite apply_dops_app, W0, Wn. constructor; cbn [p_wr p_queued sp_dbs sp_doomed pool_of_world]; auto.
      + rewrite map_map. cbn. exact ND.
      + intros n. rewrite pget_pool_of_world. destruct (wget n W); cbn; split; try discriminate; try contradiction.
        * intros _. eexists; split; reflexivity.
        * intros [y [Y _]]; discriminate.
      + intros n. rewrite pget_pool_of_world. destruct (wget n W); cbn; split; auto; discriminate.
      + intros n y s0 G1 G2 key. rewrite pget_pool_of_world, G2 in G1. cbn in G1. inversion G1; subst y.
        unfold view; cbn. rewrite G2. reflexivity.
      + intros n y G1. rewrite pget_pool_of_world in G1. destruct (wget n W); [|discriminate].
        cbn in G1. inversion G1; subst y. cbn. auto.
    - exists orc. split.
      + intros rc X. destruct (Ho _ X). apply Hr'. auto.
      + rewrite apply_dops_app, W0, Wn. exact Hag.
    - intros rc Hr. rewrite app_length. specialize (Hp0 _ Hr). lia.
    - apply (extend_safe fk log0 (map DOpen ns) recs' recs' orc orc).
      + intros j. destruct (le_lt_dec j (length log0)) as [Hj|Hj].
        * rewrite C0; auto. apply (safe_restrict fk (rs_recs s)); [|apply Hs].
          intros rc Hin Hpj. apply Hr'. split; auto. lia.
        * unfold crash. rewrite firstn_all2 by lia. rewrite W0.
          apply (safe_of_agrees fk recs' j W orc); auto.
          intros rc X. destruct (Ho _ X) as [Y1 Y2]. split; [apply Hr'; auto|].
          assert (In rc recs') by (apply Hr'; auto). specialize (Hp0 _ H). lia.
      + auto.
      + intros rc X. destruct (Ho _ X) as [Y1 Y2]. assert (Y : In rc recs') by (apply Hr'; auto). split; auto.
      + rewrite W0. apply all_prefixes_strict. apply all_prefixes_preserved.
        * split; [eapply agrees_nomark; eauto|left; auto].
        * intros o' w Ho' Hw. apply in_map_iff in Ho'. destruct Ho' as [n [<- _]]. apply Pid_open; auto.
      + intros rc X. destruct (Ho _ X) as [Y1 Y2]. assert (Y : In rc recs') by (apply Hr'; auto). split; auto.
        rewrite app_length. specialize (Hp0 _ Y). lia.
      + rewrite apply_dops_app, W0, Wn. exact Hag.
    - intros rc Hr. pose proof (Hp0 _ Hr) as Hpos. rewrite crash_app_le; auto. rewrite C0; auto.
      apply Hlive. apply Hr'; auto.
  Qed.

  Fixpoint sessions_avoid (ss : list (list hop * nat * list name)) : bool :=
    match ss with
    | [] => true
    | (h, _, _) :: rest => history_avoids fk h && sessions_avoid rest
    end.

  Lemma fold_run_inv h : forall s, run_inv fk s -> history_avoids fk h = true ->
    run_inv fk (fold_left (run_step fk scale) h s).
  Proof.
    induction h as [|o t IH]; intros s Hs Ha; cbn; auto.
    cbn in Ha. apply andb_true_iff in Ha. destruct Ha as [Ha1 Ha2].
    apply IH; auto. apply run_step_inv; auto.
  Qed.

  Lemma run_sessions_inv ss : forall s s', run_inv fk s -> sessions_avoid ss = true ->
    run_sessions fk scale s ss = Some s' -> run_inv fk s'.
  Proof.
    induction ss as [|[[h k] o] rest IH]; intros s s' Inv Ha E; cbn in E.
    - inversion E; subst; auto.
    - cbn in Ha. apply andb_true_iff in Ha. destruct Ha as [Ha1 Ha2].
      destruct (restart_pool fk (fold_left (run_step fk scale) h s) k o) as [s1|] eqn:Er; [|discriminate].
      eapply IH; [|exact Ha2|exact E]. eapply restart_inv; [|exact Er]. apply fold_run_inv; auto.
  Qed.

  (* any number of crashed sessions, each restarted successfully, then a last history: every crash point
     of the combined durable log is consistent with the flushes that completed in this timeline *)
  Theorem pool_sessions_crash_consistent ss s h k l :
    sessions_avoid ss = true -> run_sessions fk scale run_init ss = Some s ->
    history_avoids fk h = true ->
    let s' := fold_left (run_step fk scale) h s in
    lists_world l (crash (rs_log s') k) ->
    crash_consistent fk (rs_recs s') k (crash (rs_log s') k) l.
  Proof.
    intros Ha E Hh s' L.
    assert (Inv : run_inv fk s') by (apply fold_run_inv; auto; eapply run_sessions_inv; eauto; apply run_inv_init).
    destruct Inv as [_ [_ [_ [Hs _]]]]. apply safe_consistent; auto.
  Qed.

  (* What the next session's specification is seeded with.  restart_pool takes the surviving contents
     themselves (the crash world); by the theorem above, read at l := the world itself, that world is —
     database by database — db_eq to r_snap of the record the recovery reported (or everything is empty
     when it reported no flush): seeding from the reported record's snapshot would give the same maps. *)
  Theorem pool_restart_seed ss s h k o s2 :
    sessions_avoid ss = true -> run_sessions fk scale run_init ss = Some s ->
    history_avoids fk h = true ->
    let s1 := fold_left (run_step fk scale) h s in
    restart_pool fk s1 k o = Some s2 ->
    sp_dbs (rs_spec s2) = crash (rs_log s1) k /\
    crash_consistent fk (rs_recs s1) k (crash (rs_log s1) k) (crash (rs_log s1) k).
  Proof.
    intros Ha E Hh s1 R. split.
    - unfold restart_pool in R. destruct (check_synced fk (crash (rs_log s1) k)); try discriminate.
      inversion R; subst. reflexivity.
    - apply (pool_sessions_crash_consistent ss s h k); auto. apply lists_world_self. apply crash_nodup.
  Qed.
End Sessions.

(* ------------------------------------------------------------------ the flagged producer, two sessions *)
Lemma fget_of_world n (w : world) :
  fget n (map (fun nc : name * db => (fst nc, false)) w) = option_map (fun _ => false) (wget n w).
Proof. induction w as [|[n' c] t IH]; cbn; auto. destruct (n' =? n); auto. Qed.

Section FlaggedSessions.
  Variable fk : bytes.

  Lemma restart_flagged_inv s last k o s' :
    frun_inv fk s last -> restart_flagged fk s k o = Some s' ->
    exists last', frun_inv fk s' last' /\
                  option_map r_id last' = verdict_id (check_synced fk (crash (fr_log s) k)).
  Proof.
    intros [I [_ [Hp Hs]]]. unfold restart_flagged.
    set (W := crash (fr_log s) k).
    destruct (check_synced fk W) as [x| | |] eqn:E; try discriminate. intros H; inversion H; subst s'; clear H.
    pose proof (crash_nodup (fr_log s) k) as ND. fold W in ND.
    destruct (ok_agrees fk _ k W W x (Hs k) (lists_world_self _ ND) E) as [orc [Ho [Hag Hx]]].
    set (ns := arrange o (map fst W)).
    set (log0 := firstn k (fr_log s)).
    set (recs' := filter (fun rc => Nat.leb (r_pos rc) k) (fr_recs s)).
    assert (Hr' : forall rc, In rc recs' <-> In rc (fr_recs s) /\ (r_pos rc <= k)%nat).
    { intros rc. unfold recs'. rewrite filter_In, Nat.leb_le. tauto. }
    assert (W0 : apply_dops log0 [] = W) by reflexivity.
    assert (Wn : apply_dops (map DOpen ns) W = W).
    { apply apply_opens_existing. intros n Hn. apply wget_in_names. unfold ns in Hn. apply arrange_in in Hn. auto. }
    assert (Hp0 : forall rc, In rc recs' -> (r_pos rc <= length log0)%nat).
    { intros rc Hr. apply Hr' in Hr. destruct Hr as [Hr Hk]. specialize (Hp _ Hr). unfold log0. rewrite firstn_length. lia. }
    assert (C0 : forall j, (j <= length log0)%nat -> crash log0 j = crash (fr_log s) j).
    { intros j Hj. unfold crash, log0. rewrite firstn_firstn_le; auto. unfold log0 in Hj. rewrite firstn_length in Hj. lia. }
    assert (I' : flag_inv fk (map (fun nc : name * db => (fst nc, false)) W) (mkSpec W []) W orc).
    { constructor; cbn [sp_dbs sp_doomed].
      - rewrite map_map. cbn. exact ND.
      - intros n. rewrite fget_of_world. destruct (wget n W); cbn; split; auto; discriminate.
      - intros n. rewrite fget_of_world. destruct (wget n W); cbn; split; auto; discriminate.
      - intros n c s0 G1 G2 key _. congruence.
      - intros n c F1. rewrite fget_of_world in F1. destruct (wget n W); discriminate.
      - intros n c _ G. apply (Hag _ _ G).
      - reflexivity. }
    exists orc. split.
    - unfold frun_inv; cbn [fr_st fr_spec fr_log fr_recs]. fold W ns log0 recs'.
      split; [rewrite apply_dops_app, W0, Wn; exact I'|].
      split; [intros rc X; destruct (Ho _ X); apply Hr'; auto|].
      split; [intros rc Hr; rewrite app_length; specialize (Hp0 _ Hr); lia|].
      apply (extend_safe_gen fk log0 (map DOpen ns) recs' recs').
      + intros j. destruct (le_lt_dec j (length log0)) as [Hj|Hj].
        * rewrite C0; auto. apply (safe_restrict fk (fr_recs s)); [|apply Hs].
          intros rc Hin Hpj. apply Hr'. split; auto. unfold log0 in Hj. rewrite firstn_length in Hj. lia.
        * unfold crash. rewrite firstn_all2 by lia. rewrite W0.
          apply (safe_of_agrees fk recs' j W orc); auto.
          intros rc X. destruct (Ho _ X) as [Y1 Y2]. assert (Y : In rc recs') by (apply Hr'; auto).
          split; auto. specialize (Hp0 _ Y). lia.
      + auto.
      + rewrite W0. apply all_prefixes_strict. apply all_prefixes_preserved.
        * intros j Hj. apply (safe_of_agrees fk recs' j W orc); auto.
          intros rc X. destruct (Ho _ X) as [Y1 Y2]. assert (Y : In rc recs') by (apply Hr'; auto).
          split; auto. specialize (Hp0 _ Y). lia.
        * intros o' w Ho' Hw. apply in_map_iff in Ho'. destruct Ho' as [n [<- Hn]].
          assert (X : apply_dop w (DOpen n) = w \/ True) by auto.
          (* opening never invalidates safety: an opened database is empty *)
          intros j Hj. specialize (Hw j Hj). destruct Hw as [S1 S2]. cbn [apply_dop].
          destruct (wget n w) eqn:G; [split; auto|]. split.
          -- intros n' c G' Hm. destruct (N.eq_dec n n') as [->|Hne].
             ++ rewrite wget_wset_eq in G'. inversion G'; subst. apply db_empty_nil.
             ++ rewrite wget_wset_neq in G'; auto. eapply S1; eauto.
          -- intros m _ Hall _. specialize (Hall n [] (wget_wset_eq _ _ _)). discriminate.
      + intros j Hj. rewrite apply_dops_app, W0, Wn. apply (safe_of_agrees fk recs' j W orc); auto.
        intros rc X. destruct (Ho _ X) as [Y1 Y2]. assert (Y : In rc recs') by (apply Hr'; auto).
        split; auto. specialize (Hp0 _ Y). rewrite app_length in Hj. lia.
    - rewrite <- Hx. destruct orc as [rc|]; reflexivity.
  Qed.

  Theorem flagged_two_sessions h1 k1 o s1 h2 k l :
    history_avoids fk h1 = true -> flush_ids_change None h1 = true ->
    restart_flagged fk (run_flagged fk h1) k1 o = Some s1 ->
    history_avoids fk h2 = true ->
    flush_ids_change (verdict_id (check_synced fk (crash (fr_log (run_flagged fk h1)) k1))) h2 = true ->
    let s2 := fold_left (frun_step fk) h2 s1 in
    lists_world l (crash (fr_log s2) k) ->
    crash_consistent fk (fr_recs s2) k (crash (fr_log s2) k) l.
  Proof.
    intros A1 C1 R A2 C2 s2 L. unfold run_flagged in *.
    destruct (frun_all fk h1 frun_init None (frun_inv_init fk) A1 C1) as [last1 Inv1].
    destruct (restart_flagged_inv _ _ _ _ _ Inv1 R) as [last' [Inv' El]].
    rewrite <- El in C2.
    destruct (frun_all fk h2 s1 last' Inv' A2 C2) as [last2 [_ [_ [_ Hs]]]].
    apply safe_consistent; auto.
  Qed.
End FlaggedSessions.
