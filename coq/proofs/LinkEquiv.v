(* Removing the side condition "canonical validator list": the reference is equivariant under
   re-arranging the validator list by its own canonical order.
     vals' = vals re-arranged by canon_order (= mk_vals vals, LinkPerm.mk_vals_canon),
     pe e  = the event with its creator position re-indexed,
     pn n  = the node with creator re-indexed and per-validator lists re-arranged;
   then the table of (vals', map pe D) is map pn of the table of (vals, D), with the same verdicts,
   frames, Atropoi and cheaters. *)
From Coq Require Import NArith ZArith List Lia Bool ZifyBool ZifyN ZifyNat Permutation.
From LV Require Import model.VecIndex model.Abft spec.ElectionSpec lib.WSumBft
  proofs.BftCore proofs.BftElection proofs.BftMono proofs.BftGraph proofs.BftMain proofs.BftRun proofs.BftAccept proofs.BftProps
  proofs.LinkVals proofs.LinkPerm.
Import ListNotations.
Local Open Scope N_scope.

Lemma find_map {A B} (g : A -> B) (p : B -> bool) (l : list A) : find p (map g l) = option_map g (find (fun x => p (g x)) l).
Proof. induction l as [|a t IH]; cbn [map find option_map]; [reflexivity|]. destruct (p (g a)); [reflexivity | exact IH]. Qed.
Lemma filter_map_comm {A B} (g : A -> B) (p : B -> bool) (l : list A) : filter p (map g l) = map g (filter (fun x => p (g x)) l).
Proof. induction l as [|a t IH]; cbn [map filter]; [reflexivity|]. destruct (p (g a)); cbn [map]; rewrite IH; reflexivity. Qed.
Lemma existsb_map {A B} (g : A -> B) (p : B -> bool) (l : list A) : existsb p (map g l) = existsb (fun x => p (g x)) l.
Proof. induction l as [|a t IH]; cbn [map existsb]; [reflexivity|]. rewrite IH. reflexivity. Qed.
Lemma existsb_ext_in {A} (p q : A -> bool) l : (forall x, In x l -> p x = q x) -> existsb p l = existsb q l.
Proof.
  induction l as [|a t IH]; intros H; cbn [existsb]; [reflexivity|].
  rewrite (H a (or_introl eq_refl)), IH; [reflexivity|]. intros x Hx. apply H. right. exact Hx.
Qed.

Section Equiv.
Variable vals : list (N * N).
Notation nv := (length vals).
Notation ord := (canon_order vals).
Let Hperm : Permutation ord (seq 0 nv) := canon_order_perm vals.
Notation pos := (pos ord).
Notation unpos := (unpos ord).
Definition vals' : list (N * N) := map (fun i => nth i vals (0, 0)) ord.
Notation ws := (map snd vals).
Notation ws' := (map snd vals').
Notation q := (ElectionSpec.quorum_of ws).
Notation q' := (ElectionSpec.quorum_of ws').

Lemma vals'_len : length vals' = nv.
Proof. unfold vals'. rewrite map_length. apply (ord_len nv ord Hperm). Qed.
Lemma ws'_perm : ws' = perm_ws nv ord ws.
Proof.
  unfold vals', perm_ws. rewrite map_map. rewrite <- (map_unpos_seq nv ord Hperm) at 1. rewrite map_map.
  apply map_ext. intros j. exact (eq_sym (map_nth snd vals (0, 0) (unpos j))).
Qed.
Lemma ws_len : length ws = nv. Proof. apply map_length. Qed.
Lemma q_same : q' = q.
Proof. unfold ElectionSpec.quorum_of. rewrite ws'_perm, (total_perm nv ord Hperm ws ws_len). reflexivity. Qed.
Lemma total_same : ElectionSpec.total_weight ws' = ElectionSpec.total_weight ws.
Proof. rewrite ws'_perm. apply (total_perm nv ord Hperm ws ws_len). Qed.
Lemma wsP_same (P Q : nat -> bool) : (forall j, (j < nv)%nat -> Q j = P (unpos j)) -> wsP ws' Q = wsP ws P.
Proof. intros H. rewrite ws'_perm. apply (wsP_perm nv ord Hperm ws P Q ws_len H). Qed.

(* re-indexing *)
Definition permL {A} (d : A) (l : list A) : list A := map (fun j => nth (unpos j) l d) (seq 0 nv).
Lemma permL_nth {A} (d : A) l j : (j < nv)%nat -> nth j (permL d l) d = nth (unpos j) l d.
Proof. intros H. unfold permL. apply (nth_map_seq (fun j0 => nth (unpos j0) l d) nv j d H). Qed.
Lemma permL_map_seq {A} (d : A) (F : nat -> A) : permL d (map F (seq 0 nv)) = map (fun j => F (unpos j)) (seq 0 nv).
Proof.
  unfold permL. apply map_ext_in. intros j Hj. apply in_seq in Hj.
  apply nth_map_seq. apply (unpos_lt nv ord Hperm). lia.
Qed.

Definition pn (n : node) : node :=
  {| nd_id := nd_id n; nd_cr := pos (nd_cr n); nd_seq := nd_seq n; nd_fr := nd_fr n; nd_spf := nd_spf n;
     nd_hassp := nd_hassp n; nd_anc := nd_anc n; nd_forks := permL false (nd_forks n); nd_reach := permL [] (nd_reach n) |}.
Definition pe (e : fev) : fev :=
  {| fe := {| eid := eid (fe e); ecr := pos (ecr (fe e)); eseq := eseq (fe e); epar := epar (fe e) |}; ffr := ffr e |}.

Definition crs_ok (T : list node) : Prop := forall n, In n T -> (nd_cr n < nv)%nat.

Lemma nlookup_pn x T : nlookup x (map pn T) = option_map pn (nlookup x T).
Proof. unfold nlookup. rewrite find_map. reflexivity. Qed.

Lemma pos_eqb c j : (c < nv)%nat -> (j < nv)%nat -> Nat.eqb (pos c) j = Nat.eqb c (unpos j).
Proof.
  intros Hc Hj. apply eq_true_iff_eq. rewrite !Nat.eqb_eq. apply (pos_eq_iff nv ord Hperm c j Hc Hj).
Qed.

Lemma node_eq (a b : node) : nd_id a = nd_id b -> nd_cr a = nd_cr b -> nd_seq a = nd_seq b -> nd_fr a = nd_fr b ->
  nd_spf a = nd_spf b -> nd_hassp a = nd_hassp b -> nd_anc a = nd_anc b -> nd_forks a = nd_forks b ->
  nd_reach a = nd_reach b -> a = b.
Proof. destruct a, b. cbn. intros; subst; reflexivity. Qed.

Lemma mk_node_pn T e : crs_ok T -> (ecr (fe e) < nv)%nat -> mk_node nv (map pn T) (pe e) = pn (mk_node nv T e).
Proof.
  intros HT He.
  set (id := eid (fe e)).
  assert (EA : fold_left (fun acc p => match nlookup p (map pn T) with Some n => umerge acc (nd_anc n) | None => acc end) (epar (fe e)) []
             = fold_left (fun acc p => match nlookup p T with Some n => umerge acc (nd_anc n) | None => acc end) (epar (fe e)) []).
  { apply fold_left_ext_in. intros acc p _. rewrite nlookup_pn. destruct (nlookup p T); reflexivity. }
  set (A := umerge [id] (fold_left (fun acc p => match nlookup p T with Some n => umerge acc (nd_anc n) | None => acc end) (epar (fe e)) [])).
  assert (EB : flat_map (fun x => match nlookup x (map pn T) with Some n => [n] | None => [] end) A
             = map pn (flat_map (fun x => match nlookup x T with Some n => [n] | None => [] end) A)).
  { induction A as [|x t IH]; cbn [flat_map map]; [reflexivity|]. rewrite map_app, IH, nlookup_pn.
    destruct (nlookup x T); reflexivity. }
  set (below := flat_map (fun x => match nlookup x T with Some n => [n] | None => [] end) A) in *.
  assert (Hbelow : forall m, In m below -> (nd_cr m < nv)%nat).
  { intros m Hm. unfold below in Hm. apply in_flat_map in Hm as [x [_ Hm]].
    destruct (nlookup x T) as [n0|] eqn:L; [|destruct Hm]. destruct Hm as [<-|[]]. apply HT. apply nlookup_some in L. apply L. }
  apply node_eq; cbn [mk_node pn nd_id nd_cr nd_seq nd_fr nd_spf nd_hassp nd_anc nd_forks nd_reach pe fe ffr eid ecr eseq epar];
    fold id; try reflexivity.
  - change (self_parent {| eid := id; ecr := pos (ecr (fe e)); eseq := eseq (fe e); epar := epar (fe e) |}) with (self_parent (fe e)).
    destruct (self_parent (fe e)) as [p|]; [|reflexivity]. rewrite nlookup_pn. destruct (nlookup p T); reflexivity.
  - rewrite EA. reflexivity.
  - (* forks *)
    rewrite EA. fold A. rewrite EB. fold below.
    rewrite permL_map_seq. apply map_ext_in. intros j Hj. apply in_seq in Hj.
    set (ptp := fun p : N * nat * N => (fst (fst p), pos (snd (fst p)), snd p)).
    set (pts := (id, ecr (fe e), eseq (fe e)) :: map (fun n => (nd_id n, nd_cr n, nd_seq n)) below).
    assert (EP : (id, pos (ecr (fe e)), eseq (fe e)) :: map (fun n => (nd_id n, nd_cr n, nd_seq n)) (map pn below) = map ptp pts).
    { unfold pts. cbn [map ptp fst snd]. f_equal. rewrite !map_map. reflexivity. }
    rewrite EP. rewrite filter_map_comm.
    assert (EF : filter (fun x => Nat.eqb (snd (fst (ptp x))) j) pts = filter (fun p => Nat.eqb (snd (fst p)) (unpos j)) pts).
    { apply filter_ext_in. intros p Hp. unfold ptp. cbn [fst snd]. apply pos_eqb; [|lia].
      unfold pts in Hp. destruct Hp as [<-|Hp]; [exact He|]. apply in_map_iff in Hp as [m [<- Hm]]. cbn [fst snd]. apply Hbelow. exact Hm. }
    rewrite EF. set (l := filter _ pts). rewrite existsb_map. apply existsb_ext_in. intros x _. rewrite existsb_map. reflexivity.
  - (* reach *)
    rewrite EA. fold A. rewrite EB. fold below.
    rewrite permL_map_seq. apply map_ext_in. intros j Hj. apply in_seq in Hj.
    rewrite (pos_eqb _ j He ltac:(lia)).
    generalize (if Nat.eqb (ecr (fe e)) (unpos j) then A else []). intros acc0.
    assert (G : forall l acc, (forall m, In m l -> (nd_cr m < nv)%nat) ->
              fold_left (fun acc n => if Nat.eqb (nd_cr n) j then umerge acc (nd_anc n) else acc) (map pn l) acc
              = fold_left (fun acc n => if Nat.eqb (nd_cr n) (unpos j) then umerge acc (nd_anc n) else acc) l acc).
    { induction l as [|m t IH]; intros acc Hl; cbn [map fold_left]; [reflexivity|].
      cbn [pn nd_cr nd_anc]. rewrite (pos_eqb _ j (Hl m (or_introl eq_refl)) ltac:(lia)). apply IH. intros m' Hm'. apply Hl. right. exact Hm'. }
    apply G. exact Hbelow.
Qed.

(* ---------- forkless cause ---------- *)
Lemma sf_pn a j : (j < nv)%nat -> sees_fork_n (pn a) j = sees_fork_n a (unpos j).
Proof. intros H. unfold sees_fork_n. cbn [pn nd_forks]. apply permL_nth. exact H. Qed.
Lemma fcn_pn a b : (nd_cr b < nv)%nat -> fc_n ws' q' (pn a) (pn b) = fc_n ws q a b.
Proof.
  intros Hb. unfold fc_n. rewrite q_same. cbn [pn nd_cr nd_id].
  rewrite (sf_pn a _ (pos_lt nv ord Hperm _ Hb)), (unpos_pos nv ord Hperm _ Hb). f_equal. f_equal.
  change (wsum ws' (map ?Q (seq 0 (length ws')))) with (wsP ws' Q).
  change (wsum ws (map ?P (seq 0 (length ws)))) with (wsP ws P).
  apply wsP_same. intros j Hj. rewrite (sf_pn a j Hj). cbn [pn nd_reach]. rewrite (permL_nth [] _ j Hj). reflexivity.
Qed.

(* ---------- the rules over a re-indexed table ---------- *)
Notation fcn := (fc_n ws q).
Notation fcn' := (fc_n ws' q').
Notation rts := (roots_at node nd_fr nd_spf).
Notation obsT := (obs node nd_fr nd_spf fcn).
Notation obsT' := (obs node nd_fr nd_spf fcn').
Notation voters := (ElectionSpec.by_cr node nd_cr).

Lemma find_ext_in {A} (p p' : A -> bool) l : (forall x, In x l -> p x = p' x) -> find p l = find p' l.
Proof.
  induction l as [|a t IH]; intros H; cbn [find]; [reflexivity|].
  rewrite (H a (or_introl eq_refl)). destruct (p' a); [reflexivity|]. apply IH. intros x Hx. apply H. right. exact Hx.
Qed.

Lemma roots_pn T f : rts (map pn T) f = map pn (rts T f).
Proof. unfold roots_at. rewrite filter_map_comm. reflexivity. Qed.
Lemma rts_crs T f : crs_ok T -> crs_ok (rts T f).
Proof. intros H n Hn. apply H. unfold roots_at in Hn. apply filter_In in Hn. apply Hn. Qed.
Lemma obs_pn T r f : crs_ok T -> obsT' (map pn T) (pn r) f = map pn (obsT T r f).
Proof.
  intros HT. unfold obs. rewrite roots_pn, filter_map_comm. f_equal. apply filter_ext_in.
  intros b Hb. apply fcn_pn. apply (rts_crs T f HT b Hb).
Qed.
Lemma obs_crs T r f : crs_ok T -> crs_ok (obsT T r f).
Proof. intros H n Hn. unfold obs in Hn. apply filter_In in Hn as [Hn _]. apply (rts_crs T f H n Hn). Qed.
Lemma voters_pn l (P P' : node -> bool) j : crs_ok l -> (forall x, In x l -> P' (pn x) = P x) -> (j < nv)%nat ->
  voters (map pn l) P' j = voters l P (unpos j).
Proof.
  intros Hl HP Hj. unfold ElectionSpec.by_cr. rewrite existsb_map. apply existsb_ext_in. intros x Hx.
  cbn [pn nd_cr]. rewrite (pos_eqb _ j (Hl x Hx) Hj), (HP x Hx). reflexivity.
Qed.

Lemma qon_pn T e f : crs_ok T ->
  quorum_on node nd_cr nd_fr nd_spf fcn' ws' q' (map pn T) (pn e) f = quorum_on node nd_cr nd_fr nd_spf fcn ws q T e f.
Proof.
  intros HT. unfold quorum_on. rewrite (obs_pn T e f HT), q_same. f_equal.
  change (wsumP ws' ?Q) with (wsP ws' Q). change (wsumP ws ?P) with (wsP ws P).
  apply wsP_same. intros j Hj. apply voters_pn; [apply obs_crs; exact HT | reflexivity | exact Hj].
Qed.
Lemma climb_pn T e : crs_ok T -> forall fuel g,
  climb node nd_cr nd_fr nd_spf fcn' ws' q' (map pn T) fuel (pn e) g = climb node nd_cr nd_fr nd_spf fcn ws q T fuel e g.
Proof. intros HT. induction fuel as [|fu IH]; intros g; cbn [climb]; [reflexivity|]. rewrite (qon_pn T e g HT), IH. reflexivity. Qed.
Lemma frame_ok_pn T n : crs_ok T -> r_frame_ok vals' (map pn T) (pn n) = r_frame_ok vals T n.
Proof. intros HT. unfold r_frame_ok, frame_ok. cbn [pn nd_hassp nd_spf nd_fr]. rewrite (climb_pn T n HT). reflexivity. Qed.
Lemma frame_high_pn T n : crs_ok T -> r_frame_high vals' (map pn T) (pn n) = r_frame_high vals T n.
Proof. intros HT. unfold r_frame_high, frame_high. cbn [pn nd_hassp nd_spf]. rewrite (climb_pn T n HT). reflexivity. Qed.

(* votes and decisions *)
Notation vote0 T := (vote node nd_cr nd_fr nd_spf fcn ws T).
Notation vote1 T := (vote node nd_cr nd_fr nd_spf fcn' ws' T).
Lemma vote_pn T f0 : crs_ok T -> forall k r j, (j < nv)%nat -> vote1 (map pn T) f0 k (pn r) j = vote0 T f0 k r (unpos j).
Proof.
  intros HT. induction k as [|k IH]; intros r j Hj; [reflexivity|]. destruct k as [|k].
  - change (vote1 (map pn T) f0 1 (pn r) j) with (voters (obsT' (map pn T) (pn r) f0) (fun _ => true) j).
    change (vote0 T f0 1 r (unpos j)) with (voters (obsT T r f0) (fun _ => true) (unpos j)).
    rewrite (obs_pn T r f0 HT). apply voters_pn; [apply obs_crs; exact HT | reflexivity | exact Hj].
  - change (vote1 (map pn T) f0 (S (S k)) (pn r) j) with
      (wsP ws' (voters (obsT' (map pn T) (pn r) (f0 + N.of_nat (S k))) (fun r' => negb (vote1 (map pn T) f0 (S k) r' j)))
       <=? wsP ws' (voters (obsT' (map pn T) (pn r) (f0 + N.of_nat (S k))) (fun r' => vote1 (map pn T) f0 (S k) r' j))).
    change (vote0 T f0 (S (S k)) r (unpos j)) with
      (wsP ws (voters (obsT T r (f0 + N.of_nat (S k))) (fun r' => negb (vote0 T f0 (S k) r' (unpos j))))
       <=? wsP ws (voters (obsT T r (f0 + N.of_nat (S k))) (fun r' => vote0 T f0 (S k) r' (unpos j)))).
    rewrite (obs_pn T r _ HT).
    f_equal; apply wsP_same; intros u Hu; apply voters_pn; try (apply obs_crs; exact HT); try exact Hu;
      intros x _; rewrite (IH x j Hj); reflexivity.
Qed.

Notation dec0 T := (decides node nd_cr nd_fr nd_spf fcn ws q T).
Notation dec1 T := (decides node nd_cr nd_fr nd_spf fcn' ws' q' T).
Lemma yes_no_pn T f0 k r j (neg : bool) : crs_ok T -> (j < nv)%nat ->
  wsP ws' (voters (obsT' (map pn T) (pn r) (f0 + N.of_nat k)) (fun r' => (if neg then negb else fun b => b) (vote1 (map pn T) f0 k r' j)))
  = wsP ws (voters (obsT T r (f0 + N.of_nat k)) (fun r' => (if neg then negb else fun b => b) (vote0 T f0 k r' (unpos j)))).
Proof.
  intros HT Hj. rewrite (obs_pn T r _ HT). apply wsP_same. intros u Hu.
  apply voters_pn; [apply obs_crs; exact HT | | exact Hu]. intros x _. rewrite (vote_pn T f0 HT k x j Hj). reflexivity.
Qed.
Lemma decides_pn T f0 k r j b : crs_ok T -> (j < nv)%nat -> (dec1 (map pn T) f0 k (pn r) j b <-> In (pn r) (rts (map pn T) (f0 + N.of_nat k + 1)) /\ (1 <= k)%nat /\
   q <= (if b then yesV node nd_cr nd_fr nd_spf fcn ws T f0 k r (unpos j) else noV node nd_cr nd_fr nd_spf fcn ws T f0 k r (unpos j))).
Proof.
  intros HT Hj. unfold decides, yesV, noV.
  pose proof (yes_no_pn T f0 k r j false HT Hj) as EY. pose proof (yes_no_pn T f0 k r j true HT Hj) as EN. cbn beta iota in EY, EN.
  destruct b; [rewrite EY | rewrite EN]; rewrite q_same; tauto.
Qed.
Lemma decides_up T f0 k r u b : crs_ok T -> (u < nv)%nat -> dec0 T f0 k r u b -> dec1 (map pn T) f0 k (pn r) (pos u) b.
Proof.
  intros HT Hu [Hk [Hr Hq]]. apply (decides_pn T f0 k r (pos u) b HT (pos_lt nv ord Hperm u Hu)).
  rewrite (unpos_pos nv ord Hperm u Hu). split; [rewrite roots_pn; apply in_map; exact Hr | auto].
Qed.
Lemma decides_down T f0 k r' j b : crs_ok T -> (j < nv)%nat -> dec1 (map pn T) f0 k r' j b ->
  exists r, r' = pn r /\ dec0 T f0 k r (unpos j) b.
Proof.
  intros HT Hj D. pose proof D as [_ [Hr _]]. rewrite roots_pn in Hr. apply in_map_iff in Hr as [r [<- Hr]].
  exists r. split; [reflexivity|]. apply (decides_pn T f0 k r j b HT Hj) in D as [_ [Hk Hq]]. split; [exact Hk|]. split; [exact Hr | exact Hq].
Qed.

Lemma voted_root_pn T f0 j : crs_ok T -> (j < nv)%nat ->
  voted_root node nd_cr nd_fr nd_spf fcn' (map pn T) f0 j = option_map pn (voted_root node nd_cr nd_fr nd_spf fcn T f0 (unpos j)).
Proof.
  intros HT Hj. unfold voted_root. rewrite !roots_pn, find_map. f_equal. apply find_ext_in. intros a Ha.
  cbn [pn nd_cr]. rewrite (pos_eqb _ j (rts_crs T f0 HT a Ha) Hj). f_equal.
  rewrite existsb_map. apply existsb_ext_in. intros r _. apply fcn_pn. apply (rts_crs T f0 HT a Ha).
Qed.

Lemma max_frame_pn T : max_frame node nd_fr (map pn T) = max_frame node nd_fr T.
Proof.
  unfold max_frame. generalize 0. induction T as [|n t IH]; intros m; cbn [map fold_left]; [reflexivity|]. apply IH.
Qed.

(* ---------- acceptance ---------- *)
Lemma ltb_pos c : Nat.ltb (pos c) nv = Nat.ltb c nv.
Proof. apply eq_true_iff_eq. rewrite !Nat.ltb_lt. apply (pos_lt_iff nv ord Hperm). Qed.

Lemma ev_wf_b_pn T e : crs_ok T -> (ecr (fe e) < nv)%nat -> ev_wf_b (map pn T) (pe e) = ev_wf_b T e.
Proof.
  intros HT He. unfold ev_wf_b. cbn [pe fe eseq ecr].
  change (self_parent {| eid := eid (fe e); ecr := pos (ecr (fe e)); eseq := eseq (fe e); epar := epar (fe e) |}) with (self_parent (fe e)).
  f_equal. destruct (1 <? eseq (fe e)); [|reflexivity]. destruct (self_parent (fe e)) as [sp|]; [|reflexivity].
  rewrite nlookup_pn. destruct (nlookup sp T) as [n|] eqn:L; [|reflexivity]. cbn [option_map pn nd_cr nd_seq]. f_equal.
  apply nlookup_some in L as [Hn _].
  apply eq_true_iff_eq. rewrite !Nat.eqb_eq. split; [apply (pos_inj nv ord Hperm); [apply HT; exact Hn | exact He] | intros ->; reflexivity].
Qed.

Lemma add_event_pn T e : crs_ok T ->
  add_event vals' (map pn T) (pe e) = (map pn (fst (add_event vals T e)), snd (add_event vals T e)) /\
  crs_ok (fst (add_event vals T e)).
Proof.
  intros HT. unfold add_event. rewrite vals'_len. cbn [pe fe eid ecr epar].
  assert (E1 : existsb (fun p => match nlookup p (map pn T) with None => true | Some _ => false end) (epar (fe e))
             = existsb (fun p => match nlookup p T with None => true | Some _ => false end) (epar (fe e))).
  { apply existsb_ext_in. intros p _. rewrite nlookup_pn. destruct (nlookup p T); reflexivity. }
  rewrite E1, nlookup_pn, ltb_pos.
  assert (E2 : match option_map pn (nlookup (eid (fe e)) T) with Some _ => true | None => false end
             = match nlookup (eid (fe e)) T with Some _ => true | None => false end) by (destruct (nlookup (eid (fe e)) T); reflexivity).
  rewrite E2.
  destruct (existsb _ (epar (fe e)) || _ || negb (Nat.ltb (ecr (fe e)) nv)) eqn:C1; cbn [fst snd]; [split; [reflexivity | exact HT]|].
  assert (He : (ecr (fe e) < nv)%nat).
  { apply orb_false_iff in C1 as [_ C1]. apply negb_false_iff in C1. apply Nat.ltb_lt. exact C1. }
  change {| fe := {| eid := eid (fe e); ecr := pos (ecr (fe e)); eseq := eseq (fe e); epar := epar (fe e) |}; ffr := ffr e |} with (pe e).
  rewrite (ev_wf_b_pn T e HT He).
  destruct (negb (ev_wf_b T e)); cbn [fst snd]; [split; [reflexivity | exact HT]|].
  rewrite (mk_node_pn T e HT He), (frame_ok_pn T _ HT), (frame_high_pn T _ HT).
  destruct (r_frame_ok vals T (mk_node nv T e)); cbn [fst snd map]; (split; [reflexivity|]); [|exact HT].
  intros n [<-|Hn]; [exact He | apply HT; exact Hn].
Qed.

Lemma add_events_pn D : forall T, crs_ok T ->
  add_events vals' (map pn T) (map pe D) = (map pn (fst (add_events vals T D)), snd (add_events vals T D)) /\
  crs_ok (fst (add_events vals T D)).
Proof.
  induction D as [|e D IH]; intros T HT; cbn [map add_events fst snd]; [split; [reflexivity | exact HT]|].
  destruct (add_event_pn T e HT) as [E1 HT1]. rewrite E1.
  destruct (add_event vals T e) as [T1 r]. cbn [fst snd] in *.
  destruct (IH T1 HT1) as [E2 HT2]. rewrite E2. destruct (add_events vals T1 D) as [T2 rs]. cbn [fst snd] in *. auto.
Qed.

(* ---------- forkers ---------- *)
Lemma forker_pn T j : crs_ok T -> (j < nv)%nat -> forker (map pn T) j = forker T (unpos j).
Proof.
  intros HT Hj. unfold forker. rewrite existsb_map. apply existsb_ext_in. intros x Hx.
  rewrite existsb_map. apply existsb_ext_in. intros y Hy. cbn [pn nd_cr nd_id nd_seq].
  rewrite (pos_eqb _ j (HT x Hx) Hj), (pos_eqb _ j (HT y Hy) Hj). reflexivity.
Qed.
Lemma few_forkers_pn T : crs_ok T -> few_forkers vals T -> few_forkers vals' (map pn T).
Proof.
  intros HT H. unfold few_forkers in *.
  rewrite (wsP_same (forker T) (forker (map pn T)) (fun j Hj => forker_pn T j HT Hj)).
  unfold totalW. rewrite (wsP_same (fun _ => true) (fun _ => true) (fun _ _ => eq_refl)). exact H.
Qed.

(* ---------- decisions, blocks, cheaters ---------- *)
Hypothesis Hcanon : canon_order vals' = seq 0 nv.

Lemma map_pos_ord : map pos ord = seq 0 nv.
Proof.
  assert (H : map pos (map unpos (seq 0 nv)) = seq 0 nv).
  { rewrite map_map. rewrite <- (map_id (seq 0 nv)) at 2.
    apply map_ext_in. intros j Hj. apply in_seq in Hj. apply (pos_unpos nv ord Hperm). lia. }
  rewrite (map_unpos_seq nv ord Hperm) in H. exact H.
Qed.

Notation decide0 T f := (decide node nd_id nd_cr nd_fr nd_spf fcn ws q (canon_order vals) T f (max_frame node nd_fr T)).
Notation decide1 T f := (decide node nd_id nd_cr nd_fr nd_spf fcn' ws' q' (canon_order vals') T f (max_frame node nd_fr T)).

Lemma decide_pn T f a : crs_ok T -> wfT vals T -> few_forkers vals T -> wfT vals' (map pn T) -> few_forkers vals' (map pn T) ->
  (decide1 (map pn T) f = Atropos a <-> decide0 T f = Atropos a).
Proof.
  intros HT W Hff W' Hff'.
  rewrite (ref_decide_iff vals T W Hff f a), (ref_decide_iff vals' (map pn T) W' Hff' f a), Hcanon.
  assert (Hord : forall u, In u ord -> (u < nv)%nat) by (intros u; apply (ord_in nv ord Hperm)).
  split.
  - intros (pre' & v' & post' & x' & Eo & P & [kv [rv Dv]] & Vx & Ex).
    assert (Hin : forall u', In u' (pre' ++ v' :: post') -> (u' < nv)%nat) by (intros u' Hu'; rewrite <- Eo in Hu'; apply in_seq in Hu'; lia).
    assert (Hv' : (v' < nv)%nat) by (apply Hin; apply in_or_app; right; left; reflexivity).
    rewrite (voted_root_pn T f v' HT Hv') in Vx.
    destruct (voted_root node nd_cr nd_fr nd_spf fcn T f (unpos v')) as [x|] eqn:Vx0; [|discriminate]. inversion Vx; subst x'.
    exists (map unpos pre'), (unpos v'), (map unpos post'), x. split.
    { transitivity (map unpos (seq 0 nv)); [symmetry; apply (map_unpos_seq nv ord Hperm) | rewrite Eo, map_app; reflexivity]. }
    split; [|split; [|auto]].
    + intros u Hu. apply in_map_iff in Hu as [u' [<- Hu']]. destruct (P u' Hu') as [k [r D]].
      destruct (decides_down T f k r u' false HT (Hin u' (in_or_app _ _ _ (or_introl Hu'))) D) as [r0 [_ D0]]. eauto.
    + destruct (decides_down T f kv rv v' true HT Hv' Dv) as [r0 [_ D0]]. eauto.
  - intros (pre & v & post & x & Eo & P & [kv [rv Dv]] & Vx & Ex).
    assert (Hin : forall u, In u (pre ++ v :: post) -> (u < nv)%nat) by (intros u Hu; rewrite <- Eo in Hu; apply Hord; exact Hu).
    assert (Hv : (v < nv)%nat) by (apply Hin; apply in_or_app; right; left; reflexivity).
    exists (map pos pre), (pos v), (map pos post), (pn x). split.
    { transitivity (map pos ord); [symmetry; apply map_pos_ord | rewrite Eo, map_app; reflexivity]. }
    split; [|split; [|split; [|exact Ex]]].
    + intros u' Hu'. apply in_map_iff in Hu' as [u [<- Hu]]. destruct (P u Hu) as [k [r D]].
      exists k, (pn r). apply decides_up; [exact HT | apply Hin; apply in_or_app; left; exact Hu | exact D].
    + exists kv, (pn rv). apply decides_up; assumption.
    + rewrite (voted_root_pn T f (pos v) HT (pos_lt nv ord Hperm v Hv)), (unpos_pos nv ord Hperm v Hv), Vx. reflexivity.
Qed.

Lemma blocks_pn T : crs_ok T -> wfT vals T -> few_forkers vals T -> wfT vals' (map pn T) -> few_forkers vals' (map pn T) ->
  r_blocks vals' (map pn T) = r_blocks vals T.
Proof.
  intros HT W Hff W' Hff'. unfold r_blocks, blocks_spec. rewrite max_frame_pn.
  generalize (N.to_nat (max_frame node nd_fr T)). intros fuel. generalize 1.
  induction fuel as [|fu IH]; intros f; cbn [blocks_from]; [reflexivity|]. rewrite max_frame_pn.
  pose proof (fun a => decide_pn T f a HT W Hff W' Hff') as H. rewrite max_frame_pn in H.
  destruct (decide0 T f) as [|a0| |] eqn:E0.
  - destruct (decide node nd_id nd_cr nd_fr nd_spf fcn' ws' q' (canon_order vals') (map pn T) f (max_frame node nd_fr T)) as [|a1| |] eqn:E1; try reflexivity.
    pose proof (proj1 (H a1) eq_refl). discriminate.
  - rewrite (proj2 (H a0) eq_refl). f_equal. apply IH.
  - destruct (decide node nd_id nd_cr nd_fr nd_spf fcn' ws' q' (canon_order vals') (map pn T) f (max_frame node nd_fr T)) as [|a1| |] eqn:E1; try reflexivity.
    pose proof (proj1 (H a1) eq_refl). discriminate.
  - destruct (decide node nd_id nd_cr nd_fr nd_spf fcn' ws' q' (canon_order vals') (map pn T) f (max_frame node nd_fr T)) as [|a1| |] eqn:E1; try reflexivity.
    pose proof (proj1 (H a1) eq_refl). discriminate.
Qed.

Lemma vid_vals' j : (j < nv)%nat -> fst (nth j vals' (0, 0)) = fst (nth (unpos j) vals (0, 0)).
Proof.
  intros Hj. unfold vals'. rewrite (nth_indep _ (0, 0) (nth 0%nat vals (0, 0))) by (rewrite map_length, (ord_len nv ord Hperm); exact Hj).
  rewrite (map_nth (fun i => nth i vals (0, 0))). reflexivity.
Qed.
Lemma cheaters_pn T a : ElectionSpec.cheaters_of vals' (map pn T) a = ElectionSpec.cheaters_of vals T a.
Proof.
  unfold ElectionSpec.cheaters_of. rewrite nlookup_pn. destruct (nlookup a T) as [n|]; [|reflexivity]. cbn [option_map].
  rewrite Hcanon.
  replace (filter (sees_fork_n n) ord) with (filter (sees_fork_n n) (map unpos (seq 0 nv))) by (f_equal; apply (map_unpos_seq nv ord Hperm)).
  rewrite filter_map_comm, map_map.
  rewrite (filter_ext_in (sees_fork_n (pn n)) (fun j => sees_fork_n n (unpos j))).
  2:{ intros j Hj. apply in_seq in Hj. apply sf_pn. lia. }
  apply map_ext_in. intros j Hj. apply filter_In in Hj as [Hj _]. apply in_seq in Hj. apply vid_vals'. lia.
Qed.

(* ---------- the reference ---------- *)
Theorem reference_pn D : valid_run vals D ->
  valid_run vals' (map pe D) /\ reference vals' (map pe D) = reference vals D.
Proof.
  intros [Hacc Hff]. unfold all_accepted, table in *.
  assert (HT0 : crs_ok []) by (intros n []).
  destruct (add_events_pn D [] HT0) as [E HT]. cbn [map] in E.
  assert (Hacc' : all_accepted vals' (map pe D)) by (unfold all_accepted; rewrite E; exact Hacc).
  assert (Hff' : few_forkers vals' (table vals' (map pe D))) by (unfold table; rewrite E; cbn [fst]; apply few_forkers_pn; assumption).
  split; [split; assumption|].
  pose proof (wfTD_wfT vals _ _ (table_wfTD vals D Hacc)) as W.
  pose proof (wfTD_wfT vals' _ _ (table_wfTD vals' (map pe D) Hacc')) as W'.
  unfold table in W, W', Hff'. rewrite E in W', Hff'. cbn [fst] in W', Hff'.
  unfold reference. rewrite E. destruct (add_events vals [] D) as [T rs]. cbn [fst snd] in *. f_equal.
  rewrite (blocks_pn T HT W Hff W' Hff'). apply map_ext. intros b. rewrite cheaters_pn. reflexivity.
Qed.
End Equiv.
