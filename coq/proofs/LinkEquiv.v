(* Removing the side condition "canonical validator list": the reference is equivariant under
   re-arranging the validator list by its own canonical order.
     vals' = vals re-arranged by canon_order (= mk_vals vals, LinkPerm.mk_vals_canon),
     pe e  = the event with its creator position re-indexed,
     pn n  = the node with creator re-indexed and per-validator lists re-arranged;
   then the table of (vals', map pe D) is map pn of the table of (vals, D), with the same verdicts,
   frames, Atropoi and cheaters. *)
From Coq Require Import NArith ZArith List Lia Bool ZifyBool ZifyN ZifyNat Permutation.
From LV Require Import model.VecIndex model.Abft spec.ElectionSpec lib.WSumBft
  proofs.BftCore proofs.BftElection proofs.BftMono proofs.BftGraph proofs.BftMain proofs.BftRun proofs.BftAccept proofs.BftProps
  proofs.LinkVals proofs.LinkPerm.
Import ListNotations.
Local Open Scope N_scope.

Lemma find_map {A B} (g : A -> B) (p : B -> bool) (l : list A) : find p (map g l) = option_map g (find (fun x => p (g x)) l).
Proof. induction l as [|a t IH]; cbn [map find option_map]; [reflexivity|]. destruct (p (g a)); [reflexivity | exact IH]. Qed.
Lemma filter_map_comm {A B} (g : A -> B) (p : B -> bool) (l : list A) : filter p (map g l) = map g (filter (fun x => p (g x)) l).
Proof. induction l as [|a t IH]; cbn [map filter]; [reflexivity|]. destruct (p (g a)); cbn [map]; rewrite IH; reflexivity. Qed.
Lemma existsb_map {A B} (g : A -> B) (p : B -> bool) (l : list A) : existsb p (map g l) = existsb (fun x => p (g x)) l.
Proof. induction l as [|a t IH]; cbn [map existsb]; [reflexivity|]. rewrite IH. reflexivity. Qed.
Lemma existsb_ext_in {A} (p q : A -> bool) l : (forall x, In x l -> p x = q x) -> existsb p l = existsb q l.
Proof.
  induction l as [|a t IH]; intros H; cbn [existsb]; [reflexivity|].
  rewrite (H a (or_introl eq_refl)), IH; [reflexivity|]. intros x Hx. apply H. right. exact Hx.
Qed.

Section Equiv.
Variable vals : list (N * N).
Notation nv := (length vals).
Notation ord := (canon_order vals).
Let Hperm : Permutation ord (seq 0 nv) := canon_order_perm vals.
Notation pos := (pos ord).
Notation unpos := (unpos ord).
Definition vals' : list (N * N) := map (fun i => nth i vals (0, 0)) ord.
Notation ws := (map snd vals).
Notation ws' := (map snd vals').
Notation q := (ElectionSpec.quorum_of ws).
Notation q' := (ElectionSpec.quorum_of ws').

Lemma vals'_len : length vals' = nv.
Proof. unfold vals'. rewrite map_length. apply (ord_len nv ord Hperm). Qed.
Lemma ws'_perm : ws' = perm_ws nv ord ws.
Proof.
  unfold vals', perm_ws. rewrite map_map. rewrite <- (map_unpos_seq nv ord Hperm) at 1. rewrite map_map.
  apply map_ext. intros j. exact (eq_sym (map_nth snd vals (0, 0) (unpos j))).
Qed.
Lemma ws_len : length ws = nv. Proof. apply map_length. Qed.
Lemma q_same : q' = q.
Proof. unfold ElectionSpec.quorum_of. rewrite ws'_perm, (total_perm nv ord Hperm ws ws_len). reflexivity. Qed.
Lemma wsP_same (P Q : nat -> bool) : (forall j, (j < nv)%nat -> Q j = P (unpos j)) -> wsP ws' Q = wsP ws P.
Proof. intros H. rewrite ws'_perm. apply (wsP_perm nv ord Hperm ws P Q ws_len H). Qed.

(* re-indexing *)
Definition permL {A} (d : A) (l : list A) : list A := map (fun j => nth (unpos j) l d) (seq 0 nv).
Lemma permL_nth {A} (d : A) l j : (j < nv)%nat -> nth j (permL d l) d = nth (unpos j) l d.
Proof. intros H. unfold permL. apply (nth_map_seq (fun j0 => nth (unpos j0) l d) nv j d H). Qed.
Lemma permL_map_seq {A} (d : A) (F : nat -> A) : permL d (map F (seq 0 nv)) = map (fun j => F (unpos j)) (seq 0 nv).
Proof.
  unfold permL. apply map_ext_in. intros j Hj. apply in_seq in Hj.
  apply nth_map_seq. apply (unpos_lt nv ord Hperm). lia.
Qed.

Definition pn (n : node) : node :=
  {| nd_id := nd_id n; nd_cr := pos (nd_cr n); nd_seq := nd_seq n; nd_fr := nd_fr n; nd_spf := nd_spf n;
     nd_hassp := nd_hassp n; nd_anc := nd_anc n; nd_forks := permL false (nd_forks n); nd_reach := permL [] (nd_reach n) |}.
Definition pe (e : fev) : fev :=
  {| fe := {| eid := eid (fe e); ecr := pos (ecr (fe e)); eseq := eseq (fe e); epar := epar (fe e) |}; ffr := ffr e |}.

Definition crs_ok (T : list node) : Prop := forall n, In n T -> (nd_cr n < nv)%nat.

Lemma nlookup_pn x T : nlookup x (map pn T) = option_map pn (nlookup x T).
Proof. unfold nlookup. rewrite find_map. reflexivity. Qed.

Lemma pos_eqb c j : (c < nv)%nat -> (j < nv)%nat -> Nat.eqb (pos c) j = Nat.eqb c (unpos j).
Proof.
  intros Hc Hj. apply eq_true_iff_eq. rewrite !Nat.eqb_eq. apply (pos_eq_iff nv ord Hperm c j Hc Hj).
Qed.

Lemma node_eq (a b : node) : nd_id a = nd_id b -> nd_cr a = nd_cr b -> nd_seq a = nd_seq b -> nd_fr a = nd_fr b ->
  nd_spf a = nd_spf b -> nd_hassp a = nd_hassp b -> nd_anc a = nd_anc b -> nd_forks a = nd_forks b ->
  nd_reach a = nd_reach b -> a = b.
Proof. destruct a, b. cbn. intros; subst; reflexivity. Qed.

Lemma mk_node_pn T e : crs_ok T -> (ecr (fe e) < nv)%nat -> mk_node nv (map pn T) (pe e) = pn (mk_node nv T e).
Proof.
  intros HT He.
  set (id := eid (fe e)).
  assert (EA : fold_left (fun acc p => match nlookup p (map pn T) with Some n => umerge acc (nd_anc n) | None => acc end) (epar (fe e)) []
             = fold_left (fun acc p => match nlookup p T with Some n => umerge acc (nd_anc n) | None => acc end) (epar (fe e)) []).
  { apply fold_left_ext_in. intros acc p _. rewrite nlookup_pn. destruct (nlookup p T); reflexivity. }
  set (A := umerge [id] (fold_left (fun acc p => match nlookup p T with Some n => umerge acc (nd_anc n) | None => acc end) (epar (fe e)) [])).
  assert (EB : flat_map (fun x => match nlookup x (map pn T) with Some n => [n] | None => [] end) A
             = map pn (flat_map (fun x => match nlookup x T with Some n => [n] | None => [] end) A)).
  { induction A as [|x t IH]; cbn [flat_map map]; [reflexivity|]. rewrite map_app, IH, nlookup_pn.
    destruct (nlookup x T); reflexivity. }
  set (below := flat_map (fun x => match nlookup x T with Some n => [n] | None => [] end) A) in *.
  assert (Hbelow : forall m, In m below -> (nd_cr m < nv)%nat).
  { intros m Hm. unfold below in Hm. apply in_flat_map in Hm as [x [_ Hm]].
    destruct (nlookup x T) as [n0|] eqn:L; [|destruct Hm]. destruct Hm as [<-|[]]. apply HT. apply nlookup_some in L. apply L. }
  apply node_eq; cbn [mk_node pn nd_id nd_cr nd_seq nd_fr nd_spf nd_hassp nd_anc nd_forks nd_reach pe fe ffr eid ecr eseq epar];
    fold id; try reflexivity.
  - change (self_parent {| eid := id; ecr := pos (ecr (fe e)); eseq := eseq (fe e); epar := epar (fe e) |}) with (self_parent (fe e)).
    destruct (self_parent (fe e)) as [p|]; [|reflexivity]. rewrite nlookup_pn. destruct (nlookup p T); reflexivity.
  - rewrite EA. reflexivity.
  - (* forks *)
    rewrite EA. fold A. rewrite EB. fold below.
    rewrite permL_map_seq. apply map_ext_in. intros j Hj. apply in_seq in Hj.
    set (ptp := fun p : N * nat * N => (fst (fst p), pos (snd (fst p)), snd p)).
    set (pts := (id, ecr (fe e), eseq (fe e)) :: map (fun n => (nd_id n, nd_cr n, nd_seq n)) below).
    assert (EP : (id, pos (ecr (fe e)), eseq (fe e)) :: map (fun n => (nd_id n, nd_cr n, nd_seq n)) (map pn below) = map ptp pts).
    { unfold pts. cbn [map ptp fst snd]. f_equal. rewrite !map_map. reflexivity. }
    rewrite EP. rewrite filter_map_comm.
    assert (EF : filter (fun x => Nat.eqb (snd (fst (ptp x))) j) pts = filter (fun p => Nat.eqb (snd (fst p)) (unpos j)) pts).
    { apply filter_ext_in. intros p Hp. unfold ptp. cbn [fst snd]. apply pos_eqb; [|lia].
      unfold pts in Hp. destruct Hp as [<-|Hp]; [exact He|]. apply in_map_iff in Hp as [m [<- Hm]]. cbn [fst snd]. apply Hbelow. exact Hm. }
    rewrite EF. set (l := filter _ pts). rewrite existsb_map. apply existsb_ext_in. intros x _. rewrite existsb_map. reflexivity.
  - (* reach *)
    rewrite EA. fold A. rewrite EB. fold below.
    rewrite permL_map_seq. apply map_ext_in. intros j Hj. apply in_seq in Hj.
    rewrite (pos_eqb _ j He ltac:(lia)).
    generalize (if Nat.eqb (ecr (fe e)) (unpos j) then A else []). intros acc0.
    assert (G : forall l acc, (forall m, In m l -> (nd_cr m < nv)%nat) ->
              fold_left (fun acc n => if Nat.eqb (nd_cr n) j then umerge acc (nd_anc n) else acc) (map pn l) acc
              = fold_left (fun acc n => if Nat.eqb (nd_cr n) (unpos j) then umerge acc (nd_anc n) else acc) l acc).
    { induction l as [|m t IH]; intros acc Hl; cbn [map fold_left]; [reflexivity|].
      cbn [pn nd_cr nd_anc]. rewrite (pos_eqb _ j (Hl m (or_introl eq_refl)) ltac:(lia)). apply IH. intros m' Hm'. apply Hl. right. exact Hm'. }
    apply G. exact Hbelow.
Qed.

(* ---------- forkless cause ---------- *)
Lemma sf_pn a j : (j < nv)%nat -> sees_fork_n (pn a) j = sees_fork_n a (unpos j).
Proof. intros H. unfold sees_fork_n. cbn [pn nd_forks]. apply permL_nth. exact H. Qed.
Lemma fcn_pn a b : (nd_cr b < nv)%nat -> fc_n ws' q' (pn a) (pn b) = fc_n ws q a b.
Proof.
  intros Hb. unfold fc_n. rewrite q_same. cbn [pn nd_cr nd_id].
  rewrite (sf_pn a _ (pos_lt nv ord Hperm _ Hb)), (unpos_pos nv ord Hperm _ Hb). f_equal. f_equal.
  change (wsum ws' (map ?Q (seq 0 (length ws')))) with (wsP ws' Q).
  change (wsum ws (map ?P (seq 0 (length ws)))) with (wsP ws P).
  apply wsP_same. intros j Hj. rewrite (sf_pn a j Hj). cbn [pn nd_reach]. rewrite (permL_nth [] _ j Hj). reflexivity.
Qed.
End Equiv.
