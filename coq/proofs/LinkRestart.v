(* L1, corollary for C08: a restart (new Store over the same databases, fresh index object, Bootstrap)
   at any event boundary of a valid run is invisible.  Bootstrap resets the election and re-votes every
   stored root slot (LinkElect.boot_sim); the state it reaches satisfies the same simulation with the
   same reference table, it emits no block (the reference has no further decision: Done_undecided),
   and the forkless-cause cache and the Build counter start afresh.  Hence a run with restarts inserted
   before arbitrary events renders the reference's output as well. *)
From Coq Require Import NArith ZArith List Lia Bool ZifyBool ZifyN ZifyNat.
From LV Require Import lib.Bytes model.Codec model.VecIndex model.Abft model.AbftRun spec.ElectionSpec
  proofs.AbftFrame proofs.AbftBuild
  proofs.BftCore proofs.BftGraph proofs.BftMain proofs.BftRun proofs.BftAccept proofs.BftProps
  proofs.LinkVals proofs.LinkDefs proofs.LinkSim proofs.LinkVote proofs.LinkElect proofs.LinkStep proofs.LinkBuild proofs.LinkRun.
Import ListNotations.
Local Open Scope N_scope.

(* a restart before the events flagged true *)
Definition abft_ops_r_ep (ep : N) (lam : fev -> N) (vals : list (N * N)) (rs : list bool) (D : list fev) : list op :=
  flat_map (fun p : bool * fev => (if fst p then [OpR] else []) ++ [OpB (to_aevent ep lam vals (snd p)); OpP (to_aevent ep lam vals (snd p))])
           (combine rs D).
Definition abft_ops_r := abft_ops_r_ep 1.
(* the observations without the restarts *)
Definition no_restart (o : AbftRun.obs) : bool := match o with ObsR _ _ _ _ => false | _ => true end.
Definition clean_restart_ep (ep : N) (o : AbftRun.obs) : Prop :=
  match o with ObsR r bl _ ep' => r = None /\ bl = [] /\ ep' = ep | _ => True end.
Definition clean_restart : AbftRun.obs -> Prop := clean_restart_ep 1.
Definition abft_run_r (cap : nat) (lam : fev -> N) (rs : list bool) : impl_model :=
  fun vals D => render (filter no_restart (run cap [] sample (start 1 vals) (abft_ops_r lam vals rs D))).

Section Restart.
Variable cap : nat.
Variable ep : N.
Variable lam : fev -> N.
Variable vals : list (N * N).
Hypothesis Hvals : vals_ok vals.
Variable J : N -> Prop.
Variable K : N.
Hypothesis HJ : forall a, J a -> id_fresh K a.
Notation nv := (length vals).
Notation Sim := (Sim ep lam vals J K).

Lemma Seg_nil_inv T L B L1 : Seg vals T L B L1 ->
  (forall a, decide node nd_id nd_cr nd_fr nd_spf (fc_n (map snd vals) (ElectionSpec.quorum_of (map snd vals))) (map snd vals)
                    (ElectionSpec.quorum_of (map snd vals)) (canon_order vals) T (L + 1) (max_frame node nd_fr T) <> Atropos a) ->
  B = [] /\ L1 = L.
Proof. intros H N0. destruct H as [L|L a t L1 Hd _]; [auto | exfalso; exact (N0 _ Hd)]. Qed.

Lemma restart_step pol sf (Hsf : forall f a ch dl, policy_fn pol ep f a ch dl = sf f) i T Dr B : Sim i T Dr B -> few_forkers vals T ->
  exists i', step cap pol sample i OpR = (ObsR None [] (l_ldf (i_st i')) ep, i', false) /\ Sim i' T Dr B /\ l_ctr (i_st i') = 0.
Proof.
  intros [W Dn FR CT PR SG CH] Hff.
  pose proof (Done_undecided ep lam vals Hvals T Dr _ _ Hff W _ Dn) as Und.
  destruct Dn as [S [[C CI I0 N0] AV]].
  set (st := i_st i) in *. set (es := i_es i) in *.
  assert (Hnv : (0 < nv)%nat).
  { unfold choose_atropos in N0. rewrite (ei_vals _ _ _ _ _ I0) in N0. destruct vals as [|p t]; [discriminate | cbn; lia]. }
  cbn [step]. unfold bootstrap. cbn [persist p_epoch p_vals p_ldf p_roots p_conf p_idx]. fold st es.
  set (st0 := {| l_epoch := l_epoch st; l_vals := l_vals st; l_ldf := l_ldf st; l_roots := l_roots st; l_conf := l_conf st;
                 l_idx := l_idx st; l_fcc := []; l_el := el_reset (l_vals st) (l_ldf st + 1); l_ctr := 0 |}).
  assert (E0 : ES ep lam vals T Dr es (stale J 0) st0 (fun _ => False)).
  { destruct C as [A Bv Cc D E F G H Ir]. constructor.
    - constructor; auto.
    - intros a b r Hc. discriminate.
    - cbn [st0 l_ldf l_el]. rewrite Bv. apply EI_reset.
    - cbn [st0 l_el]. rewrite Bv. unfold choose_atropos, el_reset. cbn [el_vals el_decided el_frame].
      destruct vals as [|[x w] t]; [cbn in Hnv; lia | reflexivity]. }
  assert (NT0 : forall m, In m T -> ~ stale J 0 (nd_id m)).
  { intros m Hm [(ep0 & lm & c & t & Bc & _)|Jm]; [lia|].
    destruct (node_event vals T Dr m W Hm) as [e0 [He0 [E0' _]]]. apply (proj2 (FR e0 He0)). rewrite E0'. exact Jm. }
  destruct (boot_sim cap ep lam vals Hvals T Dr es (stale J 0) Hff NT0 W (policy_fn pol) sf Hsf (roots_fuel st0) st0 _ [] E0)
    as [r [bl [st' [L [EB [SG' [BO [EN RF]]]]]]]].
  { unfold roots_fuel. pose proof (cnt_from_le (l_roots st0) (l_ldf st0 + 1)). lia. }
  { exact Hnv. }
  cbn [app] in EB. rewrite EB.
  destruct (Seg_nil_inv T _ _ _ SG' Und) as [Ebl EL]. apply map_eq_nil in Ebl. subst bl.
  destruct EN as [(D' & Eldf & _ & RR & CC)|(nv' & Lt & _)]; [|rewrite EL in Lt; lia].
  rewrite EL in Eldf. symmetry in Eldf.
  assert (Ep' : l_epoch st' = ep).
  { destruct D' as [S' [[C' _ _ _] _]]. apply (co_epoch _ _ _ _ _ _ _ _ C'). }
  rewrite Ep'. cbn [sealed_in existsb].
  exists {| i_st := st'; i_es := es; i_proc := i_proc i |}. split; [reflexivity|]. cbn [i_st].
  split; [|rewrite CC; reflexivity].
  constructor; cbn [i_st i_es i_proc]; auto.
  - rewrite CC. exact D'.
  - rewrite CC. cbn [st0 l_ctr]. lia.
  - rewrite Eldf. exact SG.
Qed.

(* ---------- runs with restarts ---------- *)
Lemma run_sim_r : forall D rs i T Dr B, length rs = length D -> Sim i T Dr B -> codes_ok (snd (add_events vals T D)) ->
  (forall e, In e D -> id_fresh K (eid (fe e)) /\ ~ J (eid (fe e))) -> few_forkers vals (fst (add_events vals T D)) ->
  N.of_nat (length D) < 2 ^ 192 -> l_ctr (i_st i) + N.of_nat (length D) < 2 ^ 192 ->
  l_ctr (i_st i) + N.of_nat (length D) <= K ->
  let os := run cap [] sample i (abft_ops_r_ep ep lam vals rs D) in
  exists i' B', render (filter no_restart os) = (snd (add_events vals T D), B') /\
    Forall (clean_restart_ep ep) os /\
    Sim i' (fst (add_events vals T D)) (rev D ++ Dr) (B ++ B').
Proof.
  induction D as [|e D IH]; intros rs i T Dr B Hlen HS Hc Hf Hff Hl Hctr HK.
  - exists i, []. destruct rs; cbn. rewrite app_nil_r. split; [reflexivity|]. split; [constructor | exact HS].
    rewrite app_nil_r. split; [reflexivity|]. split; [constructor | exact HS].
  - destruct rs as [|r rs]; [discriminate|]. cbn [length] in Hlen. injection Hlen as Hlen.
    cbn [add_events] in *. destruct (add_event vals T e) as [T1 rr] eqn:AE.
    pose proof (add_events_incl vals D T1) as Inc.
    destruct (add_events vals T1 D) as [T2 rsl] eqn:AEs. cbn [fst snd] in *.
    assert (Hr : fst rr = 0) by (apply Hc; left; reflexivity).
    destruct rr as [c h]. cbn [fst] in Hr. subst c.
    pose proof (add_event_high vals T e T1 h AE) as Hh.
    destruct (add_event_accept vals T e T1 h AE) as (-> & PK & NL & CR & EW & FO).
    assert (HffT : few_forkers vals T).
    { eapply few_forkers_sub; [|exact Hff]. intros x Hx. apply Inc. right. exact Hx. }
    (* optional restart *)
    assert (R0 : exists i0 pre, Sim i0 T Dr B /\ l_ctr (i_st i0) <= l_ctr (i_st i) /\ Forall (clean_restart_ep ep) pre /\
               filter no_restart pre = [] /\
               forall rest, run cap [] sample i ((if r then [OpR] else []) ++ rest) = pre ++ run cap [] sample i0 rest).
    { destruct r.
      - destruct (restart_step [] (fun _ => None) (fun _ _ _ _ => eq_refl) i T Dr B HS HffT) as [i0 [ER [HS0 Ct0]]].
        exists i0, [ObsR None [] (l_ldf (i_st i0)) ep]. split; [exact HS0|]. split; [lia|].
        split; [constructor; [cbn; auto | constructor]|]. split; [reflexivity|].
        intros rest. cbn [app run]. rewrite ER. reflexivity.
      - exists i, []. split; [exact HS|]. split; [lia|]. split; [constructor|]. split; [reflexivity|]. intros rest. reflexivity. }
    destruct R0 as [i0 [pre [HS0 [Ct0 [Cl0 [Fl0 Run0]]]]]].
    destruct (build_step cap ep lam vals Hvals J K HJ i0 T Dr B e HS0 PK CR EW NL FO ltac:(cbn [length] in Hctr; lia) ltac:(cbn [length] in HK; lia))
      as [i1 [EB [HS1 Ct1]]].
    assert (Hff1 : few_forkers vals (mk_node nv T e :: T)) by (eapply few_forkers_sub; [exact Inc | exact Hff]).
    destruct (process_step cap ep lam vals Hvals J K i1 T Dr B e HS1 (proj1 (Hf e (or_introl eq_refl))) (proj2 (Hf e (or_introl eq_refl))) PK NL CR EW FO Hff1)
      as [bl [i2 [EP [HS2 Ct2]]]].
    destruct (IH rs i2 (mk_node nv T e :: T) (e :: Dr) (B ++ map blk_obs bl) Hlen HS2) as [i' [B' [ER [CL HS']]]].
    { rewrite AEs. cbn [snd]. intros r0 Hr0. apply Hc. right. exact Hr0. }
    { intros e0 He0. apply Hf. right. exact He0. }
    { rewrite AEs. exact Hff. }
    { cbn [length] in Hl. lia. }
    { cbn [length] in Hctr. lia. }
    { cbn [length] in HK. lia. }
    rewrite AEs in ER, HS'. cbn [fst snd] in ER, HS'.
    exists i', (map blk_obs bl ++ B').
    assert (Eops : abft_ops_r_ep ep lam vals (r :: rs) (e :: D) =
                   (if r then [OpR] else []) ++ OpB (to_aevent ep lam vals e) :: OpP (to_aevent ep lam vals e) :: abft_ops_r_ep ep lam vals rs D).
    { unfold abft_ops_r_ep. cbn [combine flat_map fst snd]. rewrite <- app_assoc. reflexivity. }
    cbn zeta. rewrite Eops, Run0. cbn [run]. rewrite EB. cbn [run]. rewrite EP.
    split; [|split].
    + rewrite filter_app, Fl0. cbn [app filter no_restart render]. cbn zeta in ER. rewrite ER, Hh. reflexivity.
    + apply Forall_app. split; [exact Cl0|]. constructor; [exact I|]. constructor; [exact I | exact CL].
    + cbn [rev]. rewrite <- !app_assoc. cbn [app]. rewrite <- app_assoc in HS'. exact HS'.
Qed.
End Restart.

(* C08 for valid runs of the model: restarts before arbitrary events change nothing that is observed *)
Theorem link_restart cap lam (rs : list bool) : forall vals D, length rs = length D ->
  link_side vals D -> valid_run vals D ->
  abft_run_r cap lam rs vals D = reference vals D /\
  abft_run_r cap lam rs vals D = abft_run cap lam vals D /\
  Forall clean_restart (run cap [] sample (start 1 vals) (abft_ops_r lam vals rs D)).
Proof.
  intros vals D Hlen Side Valid. pose proof (link_full cap lam vals D Side Valid) as LF.
  destruct Side as [Hvals [Hfresh Hl]]. destruct Valid as [Hacc Hff].
  destruct D as [|e0 D0].
  - destruct rs; [|discriminate]. repeat split; constructor.
  - set (D := e0 :: D0) in *.
    assert (Hnv : (0 < length vals)%nat).
    { unfold all_accepted in Hacc. unfold D in Hacc. cbn [add_events] in Hacc.
      destruct (add_event vals [] e0) as [T1 r] eqn:AE. destruct (add_events vals T1 D0) as [T2 rsl].
      cbn [snd] in Hacc. assert (Hr : fst r = 0) by (apply Hacc; left; reflexivity). destruct r as [c h]. cbn in Hr. subst c.
      destruct (add_event_accept vals [] e0 T1 h AE) as (_ & _ & _ & CR & _). lia. }
    destruct (run_sim_r cap 1 lam vals Hvals (fun _ => False) (N.of_nat (length D)) (fun a (F : False) => match F with end) D rs (start 1 vals) [] [] [] Hlen
                (Sim_start 1 lam vals Hvals (fun _ => False) (N.of_nat (length D)) (fun a (F : False) => match F with end) Hnv) Hacc (fun e He => conj (Hfresh e He) (fun F => F)) Hff Hl) as [i' [B' [ER [CL HS]]]].
    { cbn [start i_st genesis l_ctr]. lia. }
    { cbn [start i_st genesis l_ctr]. lia. }
    assert (E1 : abft_run_r cap lam rs vals D = reference vals D).
    { unfold abft_run_r, abft_ops_r. cbn zeta in ER. rewrite ER. unfold reference. unfold table in Hff.
      destruct (add_events vals [] D) as [T rsl] eqn:AEs. cbn [fst snd] in *. f_equal.
      destruct HS as [W Dn _ _ _ SG CH]. cbn [app] in SG, CH.
      rewrite (cheat_map vals T B' CH). f_equal.
      unfold r_blocks, blocks_spec. symmetry.
      destruct (seg_bound vals T 0 (map fst B') _ SG) as [EL BD].
      apply (blocks_of_seg cap vals T (map fst B') 0 _ _ SG).
      + apply (Done_undecided 1 lam vals Hvals T (rev D ++ []) _ _ Hff W _ Dn).
      + destruct BD as [->|BD]; [cbn; lia | lia]. }
    split; [exact E1|]. split; [rewrite E1, LF; reflexivity | exact CL].
Qed.
