(* C15, round 2: the two-step Enqueue layer (model/ProcessorOuter.v). *)
From Coq Require Import NArith ZArith List Bool Lia Arith ZifyBool ZifyNat ZifyN.
From LV Require Import model.Buffer model.Processor model.ProcessorOuter spec.ProcessorSpec
  proofs.ProcessorFrame proofs.ProcessorOrder proofs.ProcessorSem proofs.ProcessorRun proofs.ProcessorMore.
Import ListNotations.
Local Open Scope N_scope.

Lemma take_pend_sum : forall id l b pd, take_pend id l = Some (b, pd) ->
  pend_n l = batch_num b + pend_n pd /\ pend_s l = batch_size b + pend_s pd.
Proof.
  intros id l; induction l as [|x l IH]; intros b pd H; simpl in H; [discriminate|].
  destruct (b_id x =? id).
  - inversion H; subst. simpl. auto.
  - destruct (take_pend id l) as [[y r]|]; [|discriminate]. inversion H; subst.
    destruct (IH _ _ eq_refl) as [A B]. simpl. lia.
Qed.

Section O.
  Variable fc fp : list out -> entry -> bool.
  Variable cap_n cap_s lim_n lim_s : N.
  Notation pstep_run := (Processor.pstep_run fc fp cap_n cap_s lim_n lim_s).
  Notation prun := (Processor.prun fc fp cap_n cap_s lim_n lim_s).
  Notation ostep_run := (ProcessorOuter.ostep_run fc fp cap_n cap_s lim_n lim_s).
  Notation orun := (ProcessorOuter.orun fc fp cap_n cap_s lim_n lim_s).

  (* the core is a core run of the recorded trace *)
  Lemma orun_snoc : forall fx h0 steps x, orun fx h0 (steps ++ [x]) = ostep_run fx (orun fx h0 steps) x.
  Proof. intros. unfold ProcessorOuter.orun. rewrite fold_left_app. reflexivity. Qed.

  Theorem core_is_a_run : forall fx h0 steps,
    ocore (orun fx h0 steps) = prun h0 (rev (otrace (orun fx h0 steps))).
  Proof.
    intros fx h0 steps. induction steps as [|x steps IH] using rev_ind; [reflexivity|].
    rewrite orun_snoc. set (o := orun fx h0 steps) in *.
    assert (K : forall o' y, ocore o' = ocore o -> otrace o' = otrace o ->
                ocore (core_step fc fp cap_n cap_s lim_n lim_s o' y) = prun h0 (rev (otrace (core_step fc fp cap_n cap_s lim_n lim_s o' y)))).
    { intros o' y E1 E2. simpl. rewrite E1, E2, (prun_snoc fc fp cap_n cap_s lim_n lim_s), <- IH. reflexivity. }
    destruct x as [y | b | id | id | ]; simpl.
    - destruct y; try (apply K; reflexivity).
      destruct (oquit o || negb (fits cap_n cap_s o b)); [exact IH | apply K; reflexivity].
    - destruct (oquit o || negb (fits cap_n cap_s o b)); exact IH.
    - destruct (take_pend id (opend o)) as [[b pd]|]; [|exact IH].
      destruct (stopped (ocore o) || quitf (ocore o)); [exact IH | apply K; reflexivity].
    - destruct (negb (oquit o)); [exact IH|]. destruct (take_pend id (opend o)) as [[b pd]|]; [|exact IH].
      destruct fx; exact IH.
    - exact (K o SQuit eq_refl eq_refl).
  Qed.

  (* core steps other than SEnq never increase what the core holds; SEnq adds the batch or nothing *)
  Lemma core_held_mono : forall s x, (forall b, x <> SEnq b) ->
    held_n (pstep_run s x) <= held_n s /\ held_s (pstep_run s x) <= held_s s.
  Proof.
    intros s x H. destruct x as [b | bid pos | | | | ]; simpl.
    - exfalso. apply (H b). reflexivity.
    - unfold arrive. destruct (stopped s); simpl; lia.
    - apply consume_held.
    - unfold Processor.stop. destruct (stopped s); [lia|]. simpl.
      match goal with |- context [fold_left apply_out ?l ?s0] => pose proof (frame_fold_apply l s0) as F end.
      destruct F as [_ [_ [_ [A B]]]]. destruct (queue s); [|destruct (quitf s)]; simpl in *; lia.
    - unfold quit. destruct (stopped s); simpl; lia.
    - unfold abort. destruct (stopped s || negb (quitf s)); [lia|]. destruct (queue s); simpl; lia.
  Qed.
  Lemma core_enq_held : forall s b,
    (held_n (Processor.enqueue cap_n cap_s s b) = held_n s /\ held_s (Processor.enqueue cap_n cap_s s b) = held_s s)
    \/ (held_n (Processor.enqueue cap_n cap_s s b) = held_n s + batch_num b
        /\ held_s (Processor.enqueue cap_n cap_s s b) = held_s s + batch_size b).
  Proof.
    intros s b. unfold Processor.enqueue. destruct (quitf s || stopped s); [left; auto|].
    destruct (_ || _); [left | right]; simpl; auto.
  Qed.

  (* the real semaphore (core + pending + stuck + leaked) never exceeds its capacity — both versions *)
  Theorem outer_sem_within_capacity : forall fx h0 steps,
    osem_n (orun fx h0 steps) <= cap_n /\ osem_s (orun fx h0 steps) <= cap_s.
  Proof.
    intros fx h0 steps. induction steps as [|x steps IH] using rev_ind; [unfold osem_n, osem_s; simpl; lia|].
    rewrite orun_snoc. set (o := orun fx h0 steps) in *. unfold osem_n, osem_s in *.
    destruct x as [y | b | id | id | ]; simpl.
    - destruct y as [b | bid pos | | | | ].
      + destruct (oquit o || negb (fits cap_n cap_s o b)) eqn:E; [exact IH|].
        apply orb_false_iff in E. destruct E as [_ E]. apply negb_false_iff in E. unfold fits in E.
        apply negb_true_iff, orb_false_iff in E. destruct E as [E1 E2]. apply N.ltb_ge in E1, E2.
        unfold osem_n, osem_s in E1, E2. simpl ocore. simpl opend. simpl ostuck_n. simpl ostuck_s. simpl oleak_n. simpl oleak_s.
        destruct (core_enq_held (ocore o) b) as [[A B]|[A B]]; rewrite A, B; lia.
      + simpl. destruct (core_held_mono (ocore o) (SArrive bid pos)) as [A B]; [intros; discriminate|]. simpl in *. lia.
      + simpl. destruct (core_held_mono (ocore o) SConsume) as [A B]; [intros; discriminate|]. simpl in *. lia.
      + simpl. destruct (core_held_mono (ocore o) SStop) as [A B]; [intros; discriminate|]. simpl in *. lia.
      + simpl. destruct (core_held_mono (ocore o) SQuit) as [A B]; [intros; discriminate|]. simpl in *. lia.
      + simpl. destruct (core_held_mono (ocore o) SAbort) as [A B]; [intros; discriminate|]. simpl in *. lia.
    - destruct (oquit o || negb (fits cap_n cap_s o b)) eqn:E; [exact IH|].
      apply orb_false_iff in E. destruct E as [_ E]. apply negb_false_iff in E. unfold fits in E.
      apply negb_true_iff, orb_false_iff in E. destruct E as [E1 E2]. apply N.ltb_ge in E1, E2.
      unfold osem_n, osem_s in E1, E2. simpl.
      assert (pend_n (opend o ++ [b]) = pend_n (opend o) + batch_num b /\ pend_s (opend o ++ [b]) = pend_s (opend o) + batch_size b).
      { clear. induction (opend o) as [|x l IHl]; simpl; [lia|]. destruct IHl. lia. }
      lia.
    - destruct (take_pend id (opend o)) as [[b pd]|] eqn:T; [|exact IH].
      destruct (take_pend_sum _ _ _ _ T) as [S1 S2].
      destruct (stopped (ocore o) || quitf (ocore o)); simpl; [lia|].
      destruct (core_enq_held (ocore o) b) as [[A B]|[A B]]; rewrite A, B; lia.
    - destruct (negb (oquit o)); [exact IH|]. destruct (take_pend id (opend o)) as [[b pd]|] eqn:T; [|exact IH].
      destruct (take_pend_sum _ _ _ _ T) as [S1 S2]. destruct fx; simpl; lia.
    - simpl. destruct (core_held_mono (ocore o) SQuit) as [A B]; [intros; discriminate|]. simpl in *. lia.
  Qed.

  (* when the queueing succeeds while the workers exist, the core really accepts the batch: the
     share it already holds guarantees that the core's own capacity test passes *)
  Theorem queue_accepts : forall fx h0 steps id b pd,
    let o := orun fx h0 steps in
    take_pend id (opend o) = Some (b, pd) -> stopped (ocore o) = false -> quitf (ocore o) = false ->
    held_n (ocore (ostep_run fx o (OQueue id))) = held_n (ocore o) + batch_num b
    /\ osem_n (ostep_run fx o (OQueue id)) = osem_n o /\ osem_s (ostep_run fx o (OQueue id)) = osem_s o.
  Proof.
    intros fx h0 steps id b pd. cbv zeta. intros T St Qf.
    destruct (outer_sem_within_capacity fx h0 steps) as [C1 C2]. set (o := orun fx h0 steps) in *.
    destruct (take_pend_sum _ _ _ _ T) as [S1 S2]. unfold osem_n, osem_s in *.
    simpl. rewrite T, St, Qf. simpl. unfold Processor.enqueue. rewrite St, Qf. simpl.
    assert (E : (cap_n <? held_n (ocore o) + batch_num b) || (cap_s <? held_s (ocore o) + batch_size b) = false).
    { apply orb_false_iff. split; apply N.ltb_ge; lia. }
    rewrite E. simpl. lia.
  Qed.

  (* repaired code: nothing ever leaks *)
  Lemma leak_step_fixed : forall o x, oleak_n (ostep_run true o x) = oleak_n o /\ oleak_s (ostep_run true o x) = oleak_s o.
  Proof.
    intros o x. destruct x as [y | b | id | id | ]; simpl.
    - destruct y; simpl; auto. destruct (_ || _); simpl; auto.
    - destruct (_ || _); simpl; auto.
    - destruct (take_pend id (opend o)) as [[b pd]|]; auto. destruct (stopped (ocore o) || quitf (ocore o)); simpl; auto.
    - destruct (negb (oquit o)); auto. destruct (take_pend id (opend o)) as [[b pd]|]; simpl; auto.
    - auto.
  Qed.
  Theorem no_leak_fixed : forall h0 steps, oleak_n (orun true h0 steps) = 0 /\ oleak_s (orun true h0 steps) = 0.
  Proof.
    intros h0 steps. induction steps as [|x steps IH] using rev_ind; [simpl; auto|].
    rewrite orun_snoc. destruct (leak_step_fixed (orun true h0 steps) x) as [A B]. rewrite A, B. exact IH.
  Qed.

  (* "returns to zero once all events are released", for the repaired code: no batch pending between
     the two halves of Enqueue, none stuck behind a finished Stop, every accepted event released *)
  Theorem outer_sem_zero_when_all_released : forall h0 steps,
    let o := orun true h0 steps in
    NoDup (all_g (rev (otrace o))) -> opend o = [] -> ostuck_n o = 0 -> ostuck_s o = 0 ->
    incl (pgs (ocore o)) (relg (plog (ocore o))) -> osem_n o = 0 /\ osem_s o = 0.
  Proof.
    intros h0 steps. cbv zeta. intros Nd Ep En Es Hall.
    destruct (no_leak_fixed h0 steps) as [L1 L2]. set (o := orun true h0 steps) in *.
    pose proof (core_is_a_run true h0 steps) as Ec. fold o in Ec.
    pose proof (sem_zero_when_all_released fc fp cap_n cap_s lim_n lim_s h0 _ Nd) as Z. cbv zeta in Z.
    rewrite <- Ec in Z. destruct (Z Hall) as [Z1 Z2].
    unfold osem_n, osem_s. rewrite Ep, En, Es, L1, L2, Z1, Z2. simpl. split; reflexivity.
  Qed.
End O.

(* the code as found: an Enqueue that acquired before Stop began and is refused afterwards keeps its
   share — with nothing accepted and nothing to release the semaphore still holds the batch *)
Definition c15_leak_batch : batch := mkBatch 7 false [mkPev 0 1 [] 5 1 false; mkPev 1 2 [] 6 1 false].
Definition c15_leak_steps : list ostep := [OAcq c15_leak_batch; OQuit; OQueueFail 7; OCore SStop].
Example C15_enqueue_leak_old_refuted :
  let o := orun (fun _ _ => false) (fun _ _ => false) 10 100 5 100 false 0 c15_leak_steps in
  tab (ocore o) = [] /\ opend o = [] /\ stopped (ocore o) = true /\ osem_n o = 2 /\ osem_s o = 11.
Proof. vm_compute. repeat split; reflexivity. Qed.
Example C15_enqueue_no_leak_fixed :
  let o := orun (fun _ _ => false) (fun _ _ => false) 10 100 5 100 true 0 c15_leak_steps in
  osem_n o = 0 /\ osem_s o = 0.
Proof. vm_compute. split; reflexivity. Qed.
