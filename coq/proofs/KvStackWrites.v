(* C22/C23/C24: the simulation relation [R] between the stack model (trees with tombstones,
   batches in home coordinates, chunked flush) and the stack specification (write logs, prefix
   views), and its preservation by every write operation. *)
From Coq Require Import NArith List Lia Bool.
From LV Require Import lib.Bytes lib.BytesFacts lib.Lex lib.SortedMap spec.KvSpec spec.KvOps spec.KvStackSpec
  model.PrefixRange model.Table model.Flushable model.KvStack
  proofs.FlushableIter proofs.TableView proofs.PrefixRangeProofs proofs.KvStackReads.
Import ListNotations.

Fixpoint R (s : st) (ss : sst) : Prop :=
  match s, ss with
  | Eng _ m, SEng m' => m = m' /\ sm_sorted m /\ kwf m
  | Mem o, SEng m' => m' = merge_overlay o [] /\ sm_sorted o
  | Flu o u, SFlu log su => sm_sorted o /\ kwf o /\ (forall k, sm_get o k = lastw log k) /\ R u su
  | Tab p u, STab p' su => p = p' /\ wf_bytes p = true /\ R u su
  | Syn u, SSyn su => R u su
  | Lzy o i u, SLzy log i' su =>
      i = i' /\ sm_sorted o /\ kwf o /\ (forall k, sm_get o k = lastw log k) /\ R u su
  | _, _ => False
  end.

Lemma R_wf s : forall ss, R s ss -> wf_st s.
Proof.
  induction s as [e m|o|o u IH|p u IH|u IH|o i u IH]; intros [m'|log su|p' su|su|log i' su]; cbn; try tauto.
  - intros (So & Wo & _ & Ru). eauto.
  - intros (_ & Wp & Ru). eauto.
  - eauto.
  - intros (_ & So & Wo & _ & Ru). eauto.
Qed.

Lemma R_view s : forall ss, R s ss -> view s = sview ss.
Proof.
  induction s as [e m|o|o u IH|p u IH|u IH|o i u IH]; intros [m'|log su|p' su|su|log i' su]; cbn; try tauto.
  - intros [E _]. congruence.
  - intros (So & Wo & Hl & Ru). rewrite <- (IH _ Ru).
    pose proof (view_sorted u (R_wf _ _ Ru)) as Sv. unfold kv_overlay_view.
    apply sm_ext; auto using merge_overlay_sorted, kv_write_sorted.
    intros k. rewrite sm_get_merge_overlay, kv_write_get by auto. unfold ov_lookup. now rewrite Hl.
  - intros (-> & Wp & Ru). now rewrite (IH _ Ru).
  - auto.
  - intros (<- & So & Wo & Hl & Ru). unfold kv_overlay_view.
    assert (Sv : sm_sorted (if i then view u else [])).
    { destruct i; [apply view_sorted; eapply R_wf; eauto | exact I]. }
    assert (E : (if i then view u else []) = (if i then sview su else [])) by (destruct i; auto).
    rewrite <- E.
    apply sm_ext; auto using merge_overlay_sorted, kv_write_sorted.
    intros k. rewrite sm_get_merge_overlay, kv_write_get by auto. unfold ov_lookup. now rewrite Hl.
Qed.

(* ---------- batches: home coordinates ---------- *)

Definition st_write (s : st) (ops : list wop) : st := st_bwrite s (map (st_bop s) ops).

Lemma st_badd_fold s ops : forall acc, fold_left (st_badd s) ops acc = acc ++ map (st_bop s) ops.
Proof.
  induction ops as [|w ops IH]; intros acc; cbn.
  - now rewrite app_nil_r.
  - rewrite IH. unfold st_badd. now rewrite <- app_assoc.
Qed.

Lemma st_bwrite_nil s : wf_st s -> st_bwrite s [] = s.
Proof. induction s; cbn; intros W; auto; f_equal; try tauto; apply IHs; tauto. Qed.

Lemma st_bwrite_app s a b : st_bwrite s (a ++ b) = st_bwrite (st_bwrite s a) b.
Proof.
  induction s as [e m|o|o u IH|p u IH|u IH|o i u IH]; cbn.
  - unfold kv_write. now rewrite fold_left_app.
  - unfold flu_write. now rewrite fold_left_app.
  - unfold flu_write. now rewrite fold_left_app.
  - now rewrite IH.
  - now rewrite IH.
  - unfold flu_write. now rewrite fold_left_app.
Qed.

Lemma flush_chunks_concat size ideal ops : forall cur sz,
  concat (flush_chunks size ideal ops cur sz) = rev cur ++ ops.
Proof.
  induction ops as [|w ops IH]; intros cur sz; cbn.
  - now rewrite !app_nil_r.
  - destruct (N.ltb ideal (sz + size w)); cbn; rewrite IH; cbn; now rewrite <- ?app_assoc.
Qed.

Lemma fold_bwrite_concat chunks : forall s,
  fold_left st_bwrite chunks s = st_bwrite s (concat chunks) \/ chunks = [].
Proof.
  induction chunks as [|c chunks IH]; intros s; [now right|left].
  cbn. destruct (IH (st_bwrite s c)) as [E| ->].
  - rewrite E. now rewrite st_bwrite_app.
  - cbn. now rewrite app_nil_r.
Qed.

Lemma flush_chunks_nonempty size ideal ops cur sz : flush_chunks size ideal ops cur sz <> [].
Proof.
  revert cur sz. induction ops as [|w ops IH]; intros cur sz; cbn; [discriminate|].
  destruct (N.ltb ideal (sz + size w)); [discriminate|apply IH].
Qed.

(* the flush loop, whatever the IdealBatchSize splits, writes the tree's operations in order *)
Lemma st_flush_into_write ideal u o : st_flush_into ideal u o = st_write u (flu_ops o).
Proof.
  unfold st_flush_into, st_write. rewrite st_badd_fold. cbn [app].
  destruct (fold_bwrite_concat (flush_chunks (st_bsize u) ideal (map (st_bop u) (flu_ops o)) [] 0%N) u) as [E|E].
  - rewrite E, flush_chunks_concat. reflexivity.
  - now apply flush_chunks_nonempty in E.
Qed.

(* ---------- key translation of batches ---------- *)

Lemma bytes_eqb_app_l p a b : bytes_eqb (p ++ a) (p ++ b) = bytes_eqb a b.
Proof. induction p as [|x p IH]; cbn; auto. now rewrite N.eqb_refl. Qed.

Lemma lastw_map_pre p ops k :
  lastw (map (wop_pre p) ops) k = if has_prefix p k then lastw ops (strip p k) else None.
Proof.
  induction ops as [|w ops IH]; cbn.
  - now destruct (has_prefix p k).
  - rewrite IH. destruct (has_prefix p k) eqn:HP.
    + destruct (lastw ops (strip p k)); auto.
      assert (K : wop_key (wop_pre p w) = p ++ wop_key w) by (destruct w; reflexivity).
      rewrite K. rewrite <- (has_prefix_strip _ _ HP) at 1. rewrite bytes_eqb_app_l.
      assert (En : wop_entry (wop_pre p w) = wop_entry w) by (destruct w; reflexivity).
      now rewrite En.
    + assert (K : wop_key (wop_pre p w) = p ++ wop_key w) by (destruct w; reflexivity).
      rewrite K. rewrite bytes_eqb_neq; auto. intros ->. rewrite has_prefix_app in HP. discriminate.
Qed.

Lemma wop_prefixed_pre p w : wop_prefixed p w = wop_pre p w.
Proof. destruct w; reflexivity. Qed.

Lemma st_bop_tab p u w : st_bop (Tab p u) w = st_bop u (wop_prefixed p w).
Proof. destruct w; reflexivity. Qed.

Lemma st_write_tab p u ops : st_write (Tab p u) ops = Tab p (st_write u (map (wop_pre p) ops)).
Proof.
  unfold st_write. cbn [st_bwrite]. f_equal. f_equal. rewrite map_map.
  apply map_ext. intros w. now rewrite st_bop_tab, wop_prefixed_pre.
Qed.

Lemma st_bop_syn u w : st_bop (Syn u) w = st_bop u w.
Proof. destruct w; reflexivity. Qed.

Lemma st_write_syn u ops : st_write (Syn u) ops = Syn (st_write u ops).
Proof.
  unfold st_write. cbn [st_bwrite]. reflexivity.
Qed.

Lemma map_st_bop_id s ops : (forall k, st_bkey s k = k) -> map (st_bop s) ops = ops.
Proof.
  intros H. induction ops as [|w ops IH]; cbn; auto. rewrite IH. f_equal.
  destruct w; cbn; now rewrite H.
Qed.

Lemma wop_wf_pre p ops : wf_bytes p = true -> Forall wop_wf ops -> Forall wop_wf (map (wop_pre p) ops).
Proof.
  intros Wp F. rewrite Forall_forall in *. intros w H. apply in_map_iff in H as [w0 [<- H]].
  specialize (F _ H). unfold wop_wf in *. destruct w0; cbn [wop_pre wop_key] in *; rewrite wf_bytes_app, Wp, F; reflexivity.
Qed.

Lemma kv_write_equiv m a b : sm_sorted m -> (forall k, lastw a k = lastw b k) ->
  kv_write m a = kv_write m b.
Proof.
  intros S H. apply sm_ext; auto using kv_write_sorted.
  intros k. rewrite !kv_write_get by auto. now rewrite H.
Qed.

(* ---------- writes preserve the relation ---------- *)

Theorem R_write s : forall ss ops1 ops2, R s ss -> Forall wop_wf ops1 ->
  (forall k, lastw ops1 k = lastw ops2 k) -> R (st_write s ops1) (swrite ss ops2).
Proof.
  induction s as [e m|o|o u IH|p u IH|u IH|o i u IH]; intros [m'|log su|p' su|su|log i' su] ops1 ops2; cbn [R]; try tauto.
  - intros (<- & Sm & Wm) F H. unfold st_write. rewrite map_st_bop_id by reflexivity. cbn.
    repeat split; auto using kv_write_sorted, kv_write_equiv. now apply kv_write_kwf.
  - intros (-> & So) F H. unfold st_write. rewrite map_st_bop_id by reflexivity. cbn.
    split; auto using flu_write_sorted.
    rewrite merge_flu_write by (cbn; auto). symmetry. apply kv_write_equiv; auto.
    now apply merge_overlay_sorted.
  - intros (So & Wo & Hl & Ru) F H. unfold st_write. rewrite map_st_bop_id by reflexivity. cbn.
    repeat split; auto using flu_write_sorted, flu_write_kwf.
    intros k. rewrite flu_write_get, lastw_app, H, Hl. reflexivity.
  - intros (-> & Wp & Ru) F H. rewrite st_write_tab. cbn. repeat split; auto.
    apply IH; auto using wop_wf_pre.
    intros k. rewrite !lastw_map_pre. destruct (has_prefix p' k); auto.
  - intros Ru F H. rewrite st_write_syn. cbn. now apply IH.
  - intros (<- & So & Wo & Hl & Ru) F H. unfold st_write. rewrite map_st_bop_id by reflexivity. cbn.
    repeat split; auto using flu_write_sorted, flu_write_kwf.
    intros k. rewrite flu_write_get, lastw_app, H, Hl. reflexivity.
Qed.

Lemma st_put_write s k v : st_put s k v = st_write s [WPut k v].
Proof.
  revert k. induction s as [e m|o|o u IH|p u IH|u IH|o i u IH]; intros k; cbn; auto.
  - rewrite IH. reflexivity.
  - rewrite IH. reflexivity.
Qed.

Lemma st_del_write s k : st_del s k = st_write s [WDel k].
Proof.
  revert k. induction s as [e m|o|o u IH|p u IH|u IH|o i u IH]; intros k; cbn; auto.
  - rewrite IH. reflexivity.
  - rewrite IH. reflexivity.
Qed.

Lemma flu_ops_wf (o : tree) : kwf o -> Forall wop_wf (flu_ops o).
Proof.
  unfold kwf, flu_ops. rewrite !Forall_forall. intros H w Hin.
  apply in_map_iff in Hin as [[k e] [<- Hin]]. specialize (H _ Hin). cbn in H.
  destruct e; exact H.
Qed.

(* Flush: the parent receives the log; the overlay is empty *)
Theorem R_flush ideal s ss : R s ss -> R (st_flush ideal s) (sflush ss).
Proof.
  destruct s as [e m|o|o u|p u|u|o i u]; destruct ss as [m'|log su|p' su|su|log i' su]; cbn [R st_flush sflush]; try tauto.
  - intros (So & Wo & Hl & Ru). rewrite st_flush_into_write.
    repeat split; cbn; auto; try constructor.
    apply R_write; auto using flu_ops_wf.
    intros k. rewrite lastw_flu_ops by auto. apply Hl.
  - intros (_ & So & Wo & Hl & Ru). rewrite st_flush_into_write.
    repeat split; cbn; auto; try constructor.
    apply R_write; auto using flu_ops_wf.
    intros k. rewrite lastw_flu_ops by auto. apply Hl.
Qed.

Theorem R_drop s ss : R s ss -> R (st_drop s) (sdrop ss).
Proof.
  destruct s as [e m|o|o u|p u|u|o i u]; destruct ss as [m'|log su|p' su|su|log i' su]; cbn [R st_drop sdrop]; try tauto.
  - intros (So & Wo & Hl & Ru). repeat split; cbn; auto; constructor.
  - intros (E & So & Wo & Hl & Ru). repeat split; cbn; auto; constructor.
Qed.

Theorem R_init s ss : R s ss -> R (st_init s) (sinit ss).
Proof.
  destruct s as [e m|o|o u|p u|u|o i u]; destruct ss as [m'|log su|p' su|su|log i' su]; cbn [R st_init sinit]; try tauto.
Qed.

(* ---------- NotFlushedPairs ---------- *)

Lemma sm_put_length {V} (o : smap V) k e :
  length (sm_put o k e) = match sm_get o k with Some _ => length o | None => S (length o) end.
Proof.
  induction o as [|[k' e'] o IH]; cbn; auto.
  destruct (lex_compare k k'); cbn; auto. rewrite IH. now destruct (sm_get o k).
Qed.

Lemma flu_write_length (log : list wop) : forall (o : tree) seen,
  (forall k, existsb (bytes_eqb k) seen = match sm_get o k with Some _ => true | None => false end) ->
  length (flu_write o log) = (length o + distinct_keys seen log)%nat.
Proof.
  unfold flu_write. induction log as [|w log IH]; intros o seen H; cbn [fold_left distinct_keys]; [lia|].
  assert (L : length (flu_apply o w) =
              match sm_get o (wop_key w) with Some _ => length o | None => S (length o) end)
    by (destruct w; cbn; apply sm_put_length).
  rewrite H. destruct (sm_get o (wop_key w)) eqn:E.
  - rewrite (IH (flu_apply o w) seen); [lia|].
    intros k. rewrite H, flu_apply_get. destruct (bytes_eqb k (wop_key w)) eqn:B; auto.
    apply bytes_eqb_eq in B. subst. now rewrite E.
  - rewrite (IH (flu_apply o w) (wop_key w :: seen)); [lia|].
    intros k. cbn [existsb]. rewrite H, flu_apply_get. now destruct (bytes_eqb k (wop_key w)).
Qed.

Theorem nfp_is_distinct_keys (o : tree) log : sm_sorted o -> (forall k, sm_get o k = lastw log k) ->
  flu_size o = kv_log_keys log.
Proof.
  intros So H. unfold flu_size, kv_log_keys.
  assert (E : o = flu_write [] log).
  { apply sm_ext; auto. { apply flu_write_sorted. exact I. }
    intros k. rewrite H, flu_write_get. cbn. now destruct (lastw log k). }
  rewrite E at 1. rewrite (flu_write_length log [] []); auto.
Qed.

Theorem R_nfp s ss : R s ss ->
  match st_nfp s, snfp ss with Some a, Some b => a = b | None, None => True | _, _ => False end.
Proof.
  destruct s as [e m|o|o u|p u|u|o i u]; destruct ss as [m'|log su|p' su|su|log i' su]; cbn [R st_nfp snfp]; try tauto.
  - intros (So & Wo & Hl & Ru). now apply nfp_is_distinct_keys.
  - intros (_ & So & Wo & Hl & Ru). now apply nfp_is_distinct_keys.
Qed.
