(* Non-vacuity of link_noise_raw: the 48-event run (validators in non-canonical order, a forker, two
   blocks) with noise: a wrong-frame Process offered twice (forkless-cause cache hits on the second
   attempt), speculative Builds of other events, restarts (one between a Build and its Process),
   probes; forkless-cause cache capacity 3 (evictions) . *)
From Coq Require Import NArith List Bool Lia.
From LV Require Import model.VecIndex model.Abft model.AbftRun spec.ElectionSpec
  proofs.BftGraph proofs.BftRun proofs.BftMain proofs.BftAccept proofs.BftProps
  proofs.LinkVals proofs.LinkPerm proofs.LinkDefs proofs.LinkFresh proofs.LinkRun proofs.LinkRaw
  proofs.LinkExample proofs.LinkNoise proofs.LinkNoiseRaw.
Import ListNotations.
Local Open Scope N_scope.

Definition nx_ae (e : fev) : aevent := to_aevent 1 (fun _ => 0) ex_vals e.
(* event 1010 with the claimed frame 4 instead of 1, under another id *)
Definition nx_wrong : aevent := nx_ae (mkev 6010 3 1 4 [1007; 1009; 1004]).
(* a speculative event of validator 0 on top of its event 1005 *)
Definition nx_spec : aevent := nx_ae (mkev 0 0 2 0 [1005; 1004]).
Definition nx_J (a : N) : Prop := a = 6010.

Definition nx_sc : list slot :=
  map (fun e => {| s_pre := if eid (fe e) =? 1010 then [OpP nx_wrong; OpB nx_spec; OpP nx_wrong; OpQ 1005 1001; OpV]
                            else if eid (fe e) =? 1030 then [OpR; OpM 1004; OpB nx_spec] else [];
                   s_ev := e;
                   s_mid := if eid (fe e) =? 1020 then [OpR; OpG 1; OpB nx_wrong] else [] |}) ex3_D.
Definition nx_tl : list op := [OpB nx_spec; OpR; OpM 1047].
Definition nx_ops := sched_ops (fun _ => 0) ex_vals nx_sc nx_tl.
Definition nx_mask := sched_mask nx_sc nx_tl.

Example nx_D : map s_ev nx_sc = ex3_D.
Proof. unfold nx_sc. rewrite map_map. apply map_id. Qed.
Example nx_side : noise_side ex3_D nx_J 100 nx_ops.
Proof.
  split; [|split; [|split; [vm_compute; discriminate | vm_compute; reflexivity]]].
  - intros e He. split.
    + apply fresh_b_ok. revert e He. apply Forall_forall. vm_compute. repeat constructor.
    + unfold nx_J. revert e He. apply Forall_forall. vm_compute. repeat (constructor; [discriminate|]). constructor.
  - intros a ->. apply fresh_b_ok. vm_compute. reflexivity.
Qed.
Example nx_ok : ok_from 3 nx_J (start 1 ex_vals) nx_ops nx_mask.
Proof. vm_compute. repeat split; try discriminate; try reflexivity. Qed.
Example nx_has_noise : count_builds nx_ops = 52%nat /\ length nx_ops = 110%nat /\
  existsb (fun o => match o with ObsP (Some EWrongFrame) _ _ _ => true | _ => false end) (run 3 [] sample (start 1 ex_vals) nx_ops) = true.
Proof. vm_compute. repeat split. Qed.
Example nx_no_trace :
  render (pick nx_mask (run 3 [] sample (start 1 ex_vals) nx_ops)) = reference ex_vals ex3_D /\
  render (pick nx_mask (run 3 [] sample (start 1 ex_vals) nx_ops)) = abft_run 3 (fun _ => 0) ex_vals ex3_D.
Proof.
  pose proof (link_noise_raw 3 (fun _ => 0) ex_vals nx_sc nx_tl nx_J 100) as H. cbn zeta in H. rewrite nx_D in H.
  apply H; [apply ex3_side | apply ex3_side | exact nx_side | exact ex3_valid | exact nx_ok].
Qed.
Example nx_no_trace_by_evaluation :
  render (pick nx_mask (run 3 [] sample (start 1 ex_vals) nx_ops)) = reference ex_vals ex3_D.
Proof. vm_compute. reflexivity. Qed.

(* restarts right after a rejected Process and between a Build and its Process (for C08) *)
Definition rx_sc : list slot :=
  map (fun e => {| s_pre := if eid (fe e) =? 1010 then [OpP nx_wrong; OpR] else [];
                   s_ev := e;
                   s_mid := if eid (fe e) =? 1020 then [OpR] else if eid (fe e) =? 1016 then [OpP nx_wrong; OpR] else [] |}) ex3_D.
Definition rx_ops := sched_ops (fun _ => 0) ex_vals rx_sc [OpR].
Definition rx_mask := sched_mask rx_sc [OpR].
Example rx_D : map s_ev rx_sc = ex3_D.
Proof. unfold rx_sc. rewrite map_map. apply map_id. Qed.
Example rx_side : noise_side ex3_D nx_J 100 rx_ops.
Proof.
  split; [exact (proj1 nx_side)|]. split; [exact (proj1 (proj2 nx_side))|]. split; [vm_compute; discriminate | vm_compute; reflexivity].
Qed.
Example rx_ok : ok_from 200 nx_J (start 1 ex_vals) rx_ops rx_mask.
Proof. vm_compute. repeat split; try discriminate; try reflexivity. Qed.
Example rx_restarts : length (filter (fun o => match o with ObsR None [] _ _ => true | _ => false end) (run 200 [] sample (start 1 ex_vals) rx_ops)) = 4%nat /\
  render (pick rx_mask (run 200 [] sample (start 1 ex_vals) rx_ops)) = reference ex_vals ex3_D.
Proof. vm_compute. split; reflexivity. Qed.
