(* C11, arithmetic part: the uint32 expression of Quorum() against floor(2W/3)+1. *)
From Coq Require Import NArith ZArith List Lia Bool.
From Coq Require Import ZifyBool ZifyNat ZifyN.
From LV Require Import lib.WordArith lib.WSum model.Pos spec.PosSpec.
Import ListNotations.
Local Open Scope N_scope.

Lemma quorum32_unfold W : quorum32 W = ((W * 2) mod 4294967296 / 3 + 1) mod 4294967296.
Proof. reflexivity. Qed.

Lemma quorum_no_wrap W : W <= max_total -> quorum32 W = quorum_spec W.
Proof.
  intros H. rewrite quorum32_unfold. unfold quorum_spec, max_total in *.
  rewrite (N.mod_small (W * 2)) by lia.
  rewrite N.mod_small; [f_equal; f_equal; lia|].
  assert (W * 2 / 3 <= W * 2) by (apply N.div_le_upper_bound; lia). lia.
Qed.

Lemma quorum_spec_whole W : 1 <= W -> quorum_spec W <= W.
Proof. intros H. unfold quorum_spec. lia. Qed.

Lemma quorum_spec_above W : 3 * quorum_spec W > 2 * W.
Proof. unfold quorum_spec. lia. Qed.

Lemma quorum_spec_two_thirds W a : 3 * a <= 2 * W -> a < quorum_spec W.
Proof. intros H. unfold quorum_spec. lia. Qed.

(* the least such number: one less is at most two thirds *)
Lemma quorum_spec_least W : 3 * (quorum_spec W - 1) <= 2 * W.
Proof. unfold quorum_spec. lia. Qed.

Lemma whole_set W : 1 <= W -> W <= max_total -> quorum32 W <= W.
Proof. intros H1 H2. rewrite quorum_no_wrap by exact H2. apply quorum_spec_whole. exact H1. Qed.

Lemma two_thirds_fail W a : W <= max_total -> 3 * a <= 2 * W -> a < quorum32 W.
Proof. intros H1 H2. rewrite quorum_no_wrap by exact H1. apply quorum_spec_two_thirds. exact H2. Qed.

Lemma quorum32_above W : W <= max_total -> 3 * quorum32 W > 2 * W.
Proof. intros H. rewrite quorum_no_wrap by exact H. apply quorum_spec_above. Qed.

(* the guard is tight: one above the allowed maximum the uint32 expression wraps *)
Lemma guard_tight : quorum32 (max_total + 1) = 1 /\ quorum_spec (max_total + 1) = 1431655766.
Proof. split; vm_compute; reflexivity. Qed.

(* every total above the guard up to MaxUint32 gives a wrong quorum *)
Lemma above_guard_wrong W : max_total < W -> W < two32 -> quorum32 W <> quorum_spec W.
Proof.
  intros H1 H2. rewrite quorum32_unfold. unfold quorum_spec, max_total, two32 in *.
  assert (E : (W * 2) mod 4294967296 = W * 2 - 4294967296).
  { symmetry. apply (N.mod_unique _ _ 1); lia. }
  rewrite E.
  assert (L : (W * 2 - 4294967296) / 3 + 1 < 4294967296).
  { assert ((W * 2 - 4294967296) / 3 <= W * 2 - 4294967296) by (apply N.div_le_upper_bound; lia). lia. }
  rewrite (N.mod_small _ _ L). lia.
Qed.

(* two position sets that each reach the quorum share more than a third of the total *)
Lemma intersection_gen {A} (w : A -> N) (l : list A) (P Q : A -> bool) :
  wtotal w l <= max_total ->
  quorum32 (wtotal w l) <= wsum w l P -> quorum32 (wtotal w l) <= wsum w l Q ->
  3 * wsum w l (fun v => P v && Q v) > wtotal w l.
Proof.
  intros HW HP HQ.
  apply (quorum_intersection w l (quorum32 (wtotal w l)) P Q); [|exact HP|exact HQ].
  apply quorum32_above. exact HW.
Qed.
