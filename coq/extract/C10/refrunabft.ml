(* Runs the extracted line-by-line model of abft (model/Abft.v + model/AbftRun.v, owned by the abft
   worker) on a C10 / C01 scenario and renders its observations with the tokens of harness/refh.
   Glue only: event construction (validator ids per epoch, Lamport times), the sealing policy as data,
   delivery orders; no consensus logic. *)
open Model
open Conv
open Refparse

let n_of_int i = n_of_z (Z.of_int i)
let int_of_n x = Z.to_int (z_of_n x)

let policy (s : scn) (va : (n * n) list array) : ((n * n) * (n * n) list) list =
  if int_of_n s.seal = 0 then [] else
  List.init (Array.length va - 2) (fun i -> ((n_of_int (i + 1), s.seal), va.(i + 2)))

(* flattened events with their epoch *)
let flat (s : scn) : (int * fev) list =
  List.concat (List.mapi (fun i d -> List.map (fun e -> (i + 1, e)) d) s.eps)

let to_aevent (va : (n * n) list array) (lam : (string, int) Hashtbl.t) ((ep, e) : int * fev) : aevent =
  let vals = va.(min ep (Array.length va - 1)) in
  let cr = int_of_nat e.fe.ecr in
  let creator = if cr < List.length vals then fst (List.nth vals cr) else N0 in
  let l = 1 + List.fold_left (fun m p -> max m (try Hashtbl.find lam (tok_of_n p) with Not_found -> 0)) 0 e.fe.epar in
  Hashtbl.replace lam (tok_of_n e.fe.eid) l;
  { a_id = e.fe.eid; a_epoch = n_of_int ep; a_creator = creator; a_seq = e.fe.eseq; a_lamport = n_of_int l;
    a_frame = e.ffr; a_parents = e.fe.epar }

let run_model (s : scn) (ops : op list) : obs0 list =
  let nep = List.length s.eps in
  let va = vals_of_epochs s nep in
  run (nat_of_int 200) (policy s va) sample (start (n_of_int 1) s.vals) ops

let code_of (r : err option) = match r with None -> 0 | Some EWrongFrame -> 1 | Some _ -> 9

let block_toks (af : int) (nblk : int ref) ep (bl : block list) : string list =
  List.concat (List.map (fun b ->
    let dt = deliv_tok af !nblk b.b_delivered in
    incr nblk;
    ["B"; string_of_int ep; tok_of_n b.b_frame; tok_of_n b.b_atropos;
     (match b.b_seal with Some _ -> "1" | None -> "0"); string_of_int (List.length b.b_cheaters)]
    @ List.map tok_of_n b.b_cheaters @ [dt]) bl)

(* C10: Build + Process per event, creation order *)
let c10_tokens (s : scn) : string list =
  let nep = List.length s.eps in
  let va = vals_of_epochs s nep in
  let lam = Hashtbl.create 64 in
  let evs = List.map (to_aevent va lam) (flat s) in
  let ops = List.concat (List.map (fun e -> [OpB e; OpP e]) evs) in
  let obs = run_model s ops in
  let ep = ref 1 and ldf = ref "0" and nblk = ref 0 in
  let rec go (os : obs0 list) acc blocks =
    match os with
    | ObsSkip w :: ObsSkip _ :: r -> go r ((if int_of_n w = 2 then "skip" else "b0:p2") :: acc) blocks
    | ObsB b :: ObsP (r, bl, l, e) :: rest ->
      let f = (match b with Ok f -> tok_of_n f | Err _ -> "0") in
      let c = code_of r in
      let bt = block_toks s.af nblk !ep bl in
      ep := int_of_n e; ldf := tok_of_n l;
      let acc = ("b" ^ f ^ ":p" ^ string_of_int c) :: acc in
      if c = 9 then (List.rev ("CRIT" :: acc), List.rev (bt :: blocks)) else go rest acc (bt :: blocks)
    | ObsB b :: ObsSkip _ :: rest -> go rest ("b0:p2" :: acc) blocks
    | _ -> (List.rev acc, List.rev blocks) in
  let (evt, bls) = go obs [] [] in
  evt @ List.concat bls @ ["L"; string_of_int !ep; !ldf]

(* C01: Process only, in the given order (indices into the flattened list); events of a closed or not yet
   open epoch are not fed (ObsSkip 2) *)
let c01_tokens (s : scn) (tag : string) (order : int list) : string list =
  let nep = List.length s.eps in
  let va = vals_of_epochs s nep in
  let lam = Hashtbl.create 64 in
  let fl = Array.of_list (flat s) in
  (* Lamport times along the creation order, independent of the delivery order *)
  let aev = Array.map (to_aevent va lam) fl in
  let ops = List.map (fun i -> OpP aev.(i)) order in
  let obs = run_model s ops in
  let ep = ref 1 and ldf = ref "0" and rej = ref 0 and bls = ref [] and nblk = ref 0 in
  List.iter (fun o -> match o with
    | ObsSkip w -> if int_of_n w <> 2 then incr rej
    | ObsP (r, bl, l, e) ->
      if r <> None then incr rej;
      bls := block_toks s.af nblk !ep bl :: !bls; ep := int_of_n e; ldf := tok_of_n l
    | _ -> ()) obs;
  [tag; string_of_int !rej] @ List.concat (List.rev !bls) @ ["L"; string_of_int !ep; !ldf]

(* delivery orders the driver can recompute: creation order, and latest-ready-first per epoch
   (refh.Order kind 1) *)
let creation_order (s : scn) : int list = List.init s.nev (fun i -> i)
let latest_ready_first (s : scn) : int list =
  let fl = Array.of_list (flat s) in
  let n = Array.length fl in
  let idpos = Hashtbl.create 64 in
  Array.iteri (fun i (ep, e) -> Hashtbl.replace idpos (ep, tok_of_n e.fe.eid) i) fl;
  let don = Array.make n false in
  let out = ref [] in
  let nep = List.length s.eps in
  for ep = 1 to nep do
    let idx = List.filter (fun i -> fst fl.(i) = ep) (List.init n (fun i -> i)) in
    let remaining = ref (List.length idx) in
    let progress = ref true in
    while !remaining > 0 && !progress do
      progress := false;
      let ready = List.filter (fun i -> not don.(i) &&
        List.for_all (fun p -> match Hashtbl.find_opt idpos (ep, tok_of_n p) with
                               | Some j -> don.(j) | None -> true) (snd fl.(i)).fe.epar) idx in
      (match List.rev ready with
       | i :: _ -> don.(i) <- true; out := i :: !out; decr remaining; progress := true
       | [] -> ())
    done
  done;
  List.rev !out
