(* C10 driver: the extracted naive reference (spec/ElectionSpec.v) AND the extracted line-by-line model of
   abft (model/AbftRun.v) on the scenario; the implementation's observation must equal both token for token (per event: frame assigned by
   Build and Process result; blocks: epoch, frame, Atropos, sealed, cheaters; epoch and last decided
   frame).  For tiny single-epoch scenarios the forkless-cause relation of the reference is
   cross-checked against FcSpec.fc_spec (graph definition owned by the vector-index property). *)
open Model
open Conv
open Drv
open Refparse
open Refrunabft

let eval inp obs =
  let s = parse inp in
  let res = run_reference s in
  let m = event_tokens res @ List.init (unopened s res) (fun _ -> "skip") @ block_tokens s res in
  let cross = (match s.eps with [d] when s.nev <= 13 -> fc_crosscheck s.vals d | _ -> true) in
  (* the extracted line-by-line model of abft on the same scenario: impl vs model (model_obs), impl vs
     reference (spec_ok: the property), model vs reference (model_spec_ok: impl_refines_spec, tested) *)
  let a = c10_tokens s in
  { default_verdict with model_obs = a; spec_ok = Some (m = obs); model_spec_ok = cross && (a = m);
    nontrivial = any_block res;
    note = (if not cross then "fc_n differs from FcSpec.fc_spec"
            else if a <> m then "abft model differs from the reference: model=[" ^ String.concat " " a ^ "] reference=[" ^ String.concat " " m ^ "]" else "") }

let () = run eval
