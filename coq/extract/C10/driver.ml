(* C10 driver: the extracted naive reference (spec/ElectionSpec.v) on the scenario; the
   implementation's observation must equal it token for token (per event: frame assigned by
   Build and Process result; blocks: frame, Atropos, cheaters; last decided frame).
   For tiny scenarios the forkless-cause relation of the reference is cross-checked against
   FcSpec.fc_spec (graph definition owned by the vector-index property). *)
open Model
open Conv
open Drv
open Refparse

let eval inp obs =
  let s = parse inp in
  let (rs, bs) = reference s.vals s.evs in
  let m = event_tokens rs @ block_tokens bs in
  let cross = if s.nev <= 13 then fc_crosscheck s.vals s.evs else true in
  { default_verdict with model_obs = m; spec_ok = Some (m = obs); model_spec_ok = cross;
    nontrivial = (bs <> []);
    note = (if cross then "" else "fc_n differs from FcSpec.fc_spec") }

let () = run eval
