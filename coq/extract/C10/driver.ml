(* C10 driver: the extracted naive reference (spec/ElectionSpec.v) on the scenario; the
   implementation's observation must equal it token for token (per event: frame assigned by
   Build and Process result; blocks: epoch, frame, Atropos, sealed, cheaters; epoch and last decided
   frame).  For tiny single-epoch scenarios the forkless-cause relation of the reference is
   cross-checked against FcSpec.fc_spec (graph definition owned by the vector-index property). *)
open Model
open Conv
open Drv
open Refparse

let eval inp obs =
  let s = parse inp in
  let res = run_reference s in
  let m = event_tokens res @ List.init (unopened s res) (fun _ -> "skip") @ block_tokens res in
  let cross = (match s.eps with [d] when s.nev <= 13 -> fc_crosscheck s.vals d | _ -> true) in
  { default_verdict with model_obs = m; spec_ok = Some (m = obs); model_spec_ok = cross;
    nontrivial = any_block res;
    note = (if cross then "" else "fc_n differs from FcSpec.fc_spec") }

let () = run eval
