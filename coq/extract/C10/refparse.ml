(* parsing of the scenario text shared by the C10 / C01 drivers; no model logic.
   header: salt seal nv (id w)* extra... ; ops: e id cr seq frame parents... *)
open Model
open Conv

type scn = { vals : (n * n) list; seal : n; extra : string list; evs : fev list; nev : int }

let parse (inp : string list) : scn =
  match split_on ";" inp with
  | [] -> failwith "empty case"
  | h :: ops ->
    (match h with
     | _salt :: seal :: nv :: rest ->
       let nv = int_of_string nv in
       let rec take k l acc = if k = 0 then (List.rev acc, l) else
         (match l with a :: b :: t -> take (k - 1) t ((n_of_tok a, n_of_tok b) :: acc) | _ -> failwith "bad header") in
       let vals, extra = take nv rest [] in
       let evs = List.filter_map (fun g -> match g with
         | "e" :: id :: cr :: sq :: fr :: ps ->
           Some { fe = { eid = n_of_tok id; ecr = nat_of_tok cr; eseq = n_of_tok sq; epar = List.map n_of_tok ps }; ffr = n_of_tok fr }
         | _ -> None) ops in
       { vals; seal = n_of_tok seal; extra; evs; nev = List.length evs }
     | _ -> failwith "bad header")

(* reference output -> tokens in the harness' format *)
let event_tokens (rs : (n * n) list) : string list =
  List.map (fun (code, high) -> "b" ^ tok_of_n high ^ ":p" ^ tok_of_n code) rs

let block_tokens (bs : ((n * n) * n list) list) : string list =
  let last = List.fold_left (fun _ ((f, _), _) -> tok_of_n f) "0" bs in
  List.concat (List.map (fun ((f, a), ch) ->
      ["B"; "1"; tok_of_n f; tok_of_n a; "0"; string_of_int (List.length ch)] @ List.map tok_of_n ch) bs)
  @ ["L"; "1"; last]
