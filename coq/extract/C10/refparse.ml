(* parsing of the scenario text shared by the C10 / C01 drivers; no model logic.
   header: salt sealcode nv (id w)* extra... ; ops: e id cr seq frame parents... | n (next epoch)
   sealcode = sealing frame + 100 * policy + 1000 * applyFrom + 10000 * cache config (ignored here) *)
open Model
open Conv

type scn = { vals : (n * n) list; seal : n; pol : n; af : int; extra : string list; eps : fev list list; nev : int }

let parse (inp : string list) : scn =
  match split_on ";" inp with
  | [] -> failwith "empty case"
  | h :: ops ->
    (match h with
     | _salt :: seal :: nv :: rest ->
       let nv = int_of_string nv in
       let rec take k l acc = if k = 0 then (List.rev acc, l) else
         (match l with a :: b :: t -> take (k - 1) t ((n_of_tok a, n_of_tok b) :: acc) | _ -> failwith "bad header") in
       let vals, extra = take nv rest [] in
       let eps = ref [] and cur = ref [] and nev = ref 0 in
       List.iter (fun g -> match g with
         | ["n"] -> eps := List.rev !cur :: !eps; cur := []
         | "e" :: id :: cr :: sq :: fr :: ps ->
           incr nev;
           cur := { fe = { eid = n_of_tok id; ecr = nat_of_tok cr; eseq = n_of_tok sq; epar = List.map n_of_tok ps }; ffr = n_of_tok fr } :: !cur
         | _ -> ()) ops;
       eps := List.rev !cur :: !eps;
       let sc = int_of_string seal in
       { vals; seal = n_of_tok (string_of_int (sc mod 100)); pol = n_of_tok (string_of_int ((sc / 100) mod 10));
         af = (sc / 1000) mod 10; extra;
         eps = List.rev !eps; nev = !nev }
     | _ -> failwith "bad header")

let run_reference (s : scn) = reference_epochs s.seal s.pol s.vals (n_of_tok "1") s.eps

(* reference output -> tokens in the harness' format *)
let event_tokens res : string list =
  List.concat (List.map (fun ((rs, _), _) -> List.map (fun (code, high) -> if tok_of_n code = "7" then "skip" else "b" ^ tok_of_n high ^ ":p" ^ tok_of_n code) rs) res)

(* events of epochs that the reference never opened (previous epoch not sealed) *)
let unopened (s : scn) res : int =
  let rec drop k l = if k = 0 then l else (match l with [] -> [] | _ :: t -> drop (k - 1) t) in
  List.fold_left (fun a d -> a + List.length d) 0 (drop (List.length res) s.eps)

(* validators of epoch 1, 2, ... under the scenario's sealing policy *)
let vals_of_epochs (s : scn) (k : int) : (n * n) list array =
  let a = Array.make (k + 2) s.vals in
  for ep = 2 to k + 1 do a.(ep) <- next_vals s.pol a.(ep - 1) (n_of_tok (string_of_int (ep - 1))) done;
  a

(* "d<ids>" for a block whose ApplyEvent is installed (block number nblk of the run, 0-based), else "dn" *)
let deliv_tok (af : int) (nblk : int) (ids : n list) : string =
  if af = 9 || nblk < af then "dn"
  else "d" ^ String.concat "," (List.map string_of_int (List.sort compare (List.map (fun x -> Z.to_int (z_of_n x)) ids)))

let block_tokens (s : scn) res : string list =
  let va = vals_of_epochs s (List.length s.eps) in
  let ep = ref 0 and last = ref "0" and sealed_n = ref 0 and nblk = ref 0 in
  let toks = List.concat (List.map2 (fun ((_, bs), sealed) d ->
      incr ep; last := "0";
      let n = List.length bs in
      let dl = if bs = [] then [] else delivered_spec va.(!ep) d in
      let t = List.concat (List.mapi (fun i ((f, a), ch) ->
          last := tok_of_n f;
          let dt = deliv_tok s.af !nblk (try List.nth dl i with _ -> []) in
          incr nblk;
          ["B"; string_of_int !ep; tok_of_n f; tok_of_n a; (if sealed && i = n - 1 then "1" else "0");
           string_of_int (List.length ch)] @ List.map tok_of_n ch @ [dt]) bs) in
      if sealed then (incr sealed_n; last := "0");
      t) res (List.filteri (fun i _ -> i < List.length res) s.eps)) in
  toks @ ["L"; string_of_int (1 + !sealed_n); !last]

let any_block res = List.exists (fun ((_, bs), _) -> bs <> []) res
let all_codes_zero res = List.for_all (fun ((rs, _), _) -> List.for_all (fun (c, _) -> tok_of_n c = "0" || tok_of_n c = "7") rs) res
