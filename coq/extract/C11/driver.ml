(* C11 driver.  Inputs
     Q id1 w1 id2 w2 ...                      Set calls on a fresh builder, Build
         obs:  <total> <quorum>   |  PANIC
     K id1 w1 ... ; I i ; C id ; H ; S ...    Build, NewCounter, then calls
         obs:  OK r1 r2 ... [PANIC]  |  PANIC          (ri: 0/1 for Count*/HasQuorum, number for Sum)
   model side: Pos.build / quorum / run_counter (uint32 arithmetic written out).
   spec side (PosSpec, unbounded arithmetic, no sort, no builder): the total is the sum of the
   last-written non-zero weights; Build must succeed iff total <= 2^31-1; quorum = 2W/3+1;
   quorum <= W; the counter behaves as a set of counted canonical positions. *)
open Model
open Conv
open Drv

let rec pairs_of = function
  | [] -> []
  | a :: b :: r -> (n_of_tok a, n_of_tok b) :: pairs_of r
  | _ -> failwith "odd pair list"

let op_of = function
  | ["I"; i] -> OpIdx (nat_of_tok i)
  | ["C"; id] -> OpId (n_of_tok id)
  | ["H"] -> OpHas
  | ["S"] -> OpSum
  | _ -> failwith "bad op"

let res_tok = function
  | RBool b -> tok_of_bool b
  | RNum n -> tok_of_n n
  | RPanic -> "PANIC"

let zle a b = ZA.leq (z_of_n a) (z_of_n b)

let eval inp obs =
  match inp with
  | "Q" :: rest ->
    let ops = pairs_of rest in
    let model_obs = (match build ops with
      | None -> ["PANIC"]
      | Some vs -> [tok_of_n (total_weight vs); tok_of_n (quorum vs)]) in
    let w = spec_total ops in
    let spec o = (match o with
      | ["PANIC"] -> not (zle w max_total)
      | [t; q] -> zle w max_total && t = tok_of_n w
                  (* the property speaks about non-empty sets only *)
                  && (ZA.sign (z_of_n w) = 0 ||
                      (q = tok_of_n (quorum_spec w) && ZA.leq (ZA.of_string q) (z_of_n w)))
      | _ -> false) in
    { default_verdict with model_obs; spec_ok = Some (spec obs); model_spec_ok = spec model_obs;
      nontrivial = true }
  | "QM" :: _mode :: rest ->
    (* the set built through one of the constructors (Set/Build, ArrayToValidators, EqualWeightValidators,
       Copy, Builder, rlp decode) from pairs with repeated ids and zero weights.
       obs: <total> <quorum> <len> <whole set reaches quorum 0/1>  |  PANIC *)
    let ops = pairs_of rest in
    let rec range a b = if a >= b then [] else a :: range (a + 1) b in
    let model_obs = (match build ops with
      | None -> ["PANIC"]
      | Some vs ->
        let n = List.length (sorted_weights vs) in
        let cops = List.map (fun i -> OpIdx (nat_of_int i)) (range 0 n) @ [OpHas] in
        let (rs, _) = run_counter (new_counter vs) cops in
        let reach = (match List.rev rs with RBool b :: _ -> tok_of_bool b | _ -> "?") in
        [tok_of_n (total_weight vs); tok_of_n (quorum vs); string_of_int n; reach]) in
    let w = spec_total ops in
    let spec o = (match o with
      | ["PANIC"] -> not (zle w max_total)
      | [t; q; l; reach] ->
        zle w max_total && t = tok_of_n w && l = string_of_int (List.length (eff_pairs ops))
        && (ZA.sign (z_of_n w) = 0 || (q = tok_of_n (quorum_spec w) && reach = "1"))
      | _ -> false) in
    { default_verdict with model_obs; spec_ok = Some (spec obs); model_spec_ok = spec model_obs;
      nontrivial = List.length ops > List.length (eff_pairs ops) }
  | "K" :: rest ->
    let groups = split_on ";" rest in
    let ops = pairs_of (List.hd groups) in
    let cops = List.map op_of (List.tl groups) in
    let model_obs = (match build ops with
      | None -> ["PANIC"]
      | Some vs -> let (rs, _) = run_counter (new_counter vs) cops in "OK" :: List.map res_tok rs) in
    let w = spec_total ops in
    let spec_obs =
      if not (zle w max_total) then ["PANIC"] else
      let ws = List.map snd (spec_array (eff_pairs ops)) in
      "OK" :: List.map res_tok (spec_counter ws w (spec_idx ops) [] cops) in
    { default_verdict with model_obs; spec_ok = Some (obs = spec_obs);
      model_spec_ok = (model_obs = spec_obs);
      nontrivial = List.mem "0" obs && List.mem "1" obs }
  | _ -> failwith "bad case"

let () = run eval
