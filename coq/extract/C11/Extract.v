From Coq Require Import ExtrOcamlBasic NArith List.
From LV Require Import lib.Conv lib.WordArith model.Pos spec.PosSpec.
Extraction "model.ml" conv_roots build total_weight quorum sorted_weights new_counter run_counter
  eff eff_pairs spec_total quorum_spec max_total spec_array spec_idx spec_counter.
