(* C05 / C06 / C20 driver (one case format for the three properties; C06 and C20 link to this file).
   input : nv w_0 .. w_{nv-1} fcsize vcsize diffk mal ; op ; op ; ...
     E id cr seq p1 .. pk   Engine.Add (+Flush, or DropNotFlushed on failure)    obs e1 | e0 (error) | eP (panic)
     A id cr seq p1 .. pk   Engine.Add WITHOUT Flush (DropNotFlushed on failure: every unflushed event is lost)
     F                      Flush                                                obs f
     D                      DropNotFlushed (back to the last Flush)              obs d<number of events lost>
     RI fc vc               restart: NEW vecfc.Index (cache sizes fc / vc) Reset over the same DB  obs r<number of events lost>
     RS fresh w_0..          Reset of the EXISTING Index object: same DB (fresh=0) or a new empty DB (1), new weights  obs s<lost>
     DB k                   bytes stored in the persistent DB for the last k flushed events     obs b<id>=<S>:<s>:<b>/...
     Q k ord                ForklessCause on all pairs of the last k added events, twice
                                                                                  obs q<bits>/<bits>
     M k                    GetMergedHighestBefore of the last k (0 = all) events, direct and
                            through adapters.VectorToDagIndexer               obs m<id>=d,d,..~a,a,../...
     V k                    raw vectors + branch ids of the last k events, BranchesInfo
     P id self              QuorumIndexer.ProcessEvent                           obs p1 | ps
     PX id self             ProcessEvent of a copy of event id with a NON-validator creator (GetIdx -> 0)
     G                      GetGlobalMedianSeqs (+ matrix, self-parent seqs)     obs g<meds>:<rows>:<self>
     T id                   GetMetricOf                                          obs t<metric> | ts
   model side: extracted VecIndex / QuorumIdx (with the FC LRU of size fcsize);
   spec side : extracted graph specification (FcSpec: fc_spec_row / merged_spec_t, equal to
   fc_spec / merged_spec by proofs/FcSpecFast.v) and QuorumSpec (median_spec, metric_spec) evaluated
   on the events the implementation accepted, compared with what the implementation answered.
   mal = 1 marks a malformed stream (outside wf_stream): model comparison only.
   Every accepted event of a mal = 0 case is checked with the extracted wf_evb (= the hypothesis
   wf_stream of the theorems, proofs/VecMain.v wf_evb_iff); a violation is reported as a
   model_vs_spec problem (the generator left the theorems' domain). *)
open Model
open Conv
open Drv

let join = String.concat
let lastn k l = (* last k elements of l (k = 0: all), order kept *)
  let n = List.length l in
  if k = 0 || k >= n then l else List.filteri (fun i _ -> i >= n - k) l
let bits l = join "" (List.map (fun b -> if b then "1" else "0") l)
let ntok = tok_of_n
let hb_tok (x : hbs) = if is_fork x then "F" else ntok (fst x) ^ "." ^ ntok (snd x)
let hb_tok_a (x : hbs) = if is_fork x then "F" else ntok (fst x)
let rec range a b = if a >= b then [] else a :: range (a + 1) b

let eval inp obs =
  let groups = split_on ";" inp in
  let header, ops = (match groups with h :: t -> h, t | [] -> failwith "empty") in
  let nv = int_of_string (List.hd header) in
  let rest = List.tl header in
  let ws = List.map n_of_tok (List.filteri (fun i _ -> i < nv) rest) in
  let rest = List.filteri (fun i _ -> i >= nv) rest in
  let fcsize, vcsize, diffk, mal = (match rest with
    | [f; v; d; m] -> int_of_string f, v, n_of_tok d, (m = "1") | _ -> failwith "bad header") in  (* m = 2: vecfc.NewIndexWithEngine, nil OnDropNotFlushed, caches 0; same model *)
  (* mal = 1: the generator corrupted some events.  The specification stays ON until the first accepted
     event that fails wf_evb (the prefix, and corrupted events that are still well formed such as seq-1
     events with parents, are inside the theorems' domain); from then on implementation vs model only. *)
  let declared_mal = mal and mal = ref false and hyp_bad = ref [] in
  let nv0 = nv in
  let nv = ref nv0 in
  let nvn0 = nat_of_int nv0 in
  let nvn = ref nvn0 in
  let ws = ref ws in
  let q = ref (quorum_of !ws) in
  (* the index is the PERSISTED engine model (VecPersist.pidx: byte tables, BranchesInfo record written by
     Flush); [s] caches its view *)
  (* round 4: the COMPOSED engine (VecPersist.ceng): byte tables, BranchesInfo record, HB/LA write-through
     caches (simplewlru.New(size, int(size))), ForklessCause LRU, dirty flag *)
  let mkc v = (match bcache_new (n_of_tok v) (z_of_tok v) with Some c -> c | None -> failwith "cache size") in
  let ce = ref (ce_new !nvn (nat_of_int fcsize) (mkc vcsize) (mkc vcsize)) in
  let s = ref (ce_view !ce) in
  let order = ref [] (* newest first *) and orderF = ref [] in
  let specE = ref [] (* (id, event), newest first: events the implementation accepted *) and specEF = ref [] in
  let table = ref None in
  let get_table () = (match !table with Some t -> t | None -> let t = anc_table !specE in table := Some t; t) in
  (* size class big-dropped-event (> 400 Adds): the byte-level engine model re-decodes its tables on every Add
     (quadratic), so these cases run on the abstract two-level index (vs_add / vs_flush / vs_drop + fc_query), which
     the byte-level engine refines step by step (proofs/VecPersistProofs.v: p_step_sim, cstep_ok).  The specification
     is evaluated on the sub-DAG below A (equal by FcSpecFacts.fc_spec_submap), queries name events with a small ancestry. *)
  let big = List.length (List.filter (fun op -> match op with ("E" | "A") :: _ -> true | _ -> false) ops) > 400 || nv0 > 20 in   (* also: validator sets with more than 20 validators (C20 size class many-validators) *)
  let vsr = ref (vs_init nvn0) and bcache = ref (fcache_new (nat_of_int fcsize)) in
  let restricted a =
    let anc_a = anc !specE a in
    let e' = List.filter (fun (k, _) -> List.mem k anc_a) !specE in (e', anc_table e') in
  let do_query a b =
    if big then (let (r, c') = fc_query !ws !q !vsr.vs_cur !bcache a b in bcache := c'; r)
    else (let (r, ce') = ce_query !ws !q !ce a b in ce := ce'; r) in
  let spec_row a bs =
    if big then (let (e', t') = restricted a in fc_spec_row !ws !q !nvn e' t' a bs)
    else fc_spec_row !ws !q !nvn !specE (get_table ()) a bs in
  let qi = ref (Some (qi_new !nvn)) in
  let lastp = Array.make (max nv0 1) None and selfev = ref None in
  let diff = diff_family diffk in
  let spec_bad = ref [] and mspec_bad = ref [] and forkseen = ref false and fctrue = ref false in
  let obs_arr = Array.of_list obs in
  let mobs = ref [] in
  let vals = List.map nat_of_int (range 0 !nv) in
  let clock_memo = Hashtbl.create 64 in   (* the clock of an indexed event never changes: computed once per id *)
  let spec_clock id = (match Hashtbl.find_opt clock_memo id with Some c -> c | None ->
      let c = List.map obs_of_spec (merged_spec_t !nvn !specE (get_table ()) id) in Hashtbl.replace clock_memo id c; c) in
  let spec_matrix () = (* row v, column c *)
    List.map (fun v -> List.map (fun c -> match lastp.(c) with None -> N0
                | Some id -> List.nth (spec_clock id) v) (range 0 !nv)) (range 0 !nv) in
  let spec_self () = (match !selfev with None -> List.map (fun _ -> N0) vals | Some id -> spec_clock id) in
  let csv f l = join "," (List.map f l) in
  List.iteri (fun i op ->
    let iobs = if i < Array.length obs_arr then obs_arr.(i) else "" in
    let out = (match op with
    | ("E" | "A") :: _ :: cr :: _ when int_of_string cr >= !nv -> "es"   (* no such validator: not submitted *)
    | ("E" | "A" as kind) :: id :: cr :: sq :: ps ->
      let e = { eid = n_of_tok id; ecr = nat_of_tok cr; eseq = n_of_tok sq; epar = List.map n_of_tok ps } in
      let ok =
        if big then begin
          let (ok, st') = vs_add !vsr e in
          vsr := (if ok && kind = "E" then vs_flush st' else st'); s := !vsr.vs_cur; ok end
        else begin
          let (ok, ce') = ce_add !ce e in
          ce := (if ok && kind = "E" then ce_flush ce' else ce');
          s := ce_view !ce; ok end in
      if ok then order := e.eid :: !order else order := !orderF;
      if iobs = "e1" then begin
        if not !mal && not (wf_evb !nvn !specE e) then begin
          if not declared_mal then hyp_bad := (Printf.sprintf "op%d:E%s outside wf_stream" i (ntok e.eid)) :: !hyp_bad;
          mal := true end;
        specE := (e.eid, e) :: !specE; table := None end
      else begin specE := !specEF; table := None end;
      if ok && kind = "E" then orderF := !order;
      if iobs = "e1" && kind = "E" then specEF := !specE;
      if int_of_nat (nbr !s) > !nv then forkseen := true;
      if ok then "e1" else "eP" (* the real Add panics on a missing parent vector (typed-nil check), see notes *)
    | ["F"] -> ce := ce_flush !ce; s := ce_view !ce; orderF := !order; specEF := !specE; "f"
    | ["D"] ->
      let lost = List.length !order - List.length !orderF in
      if big then begin vsr := vs_drop !vsr; s := !vsr.vs_cur end
      else begin ce := ce_drop !ce; s := ce_view !ce end;
      order := !orderF; specE := !specEF; table := None;
      "d" ^ string_of_int lost
    | ["RI"; fc; vc] ->
      let lost = List.length !order - List.length !orderF in
      (* a new Index object: empty ForklessCause LRU and new HB/LA caches of the given sizes *)
      ce := ce_restart (nat_of_tok fc) (mkc vc) (mkc vc) !ce; s := ce_view !ce;
      order := !orderF; specE := !specEF; table := None;
      "r" ^ string_of_int lost
    | "RS" :: fresh :: w2 ->
      let lost = (if fresh = "1" then List.length !order else List.length !order - List.length !orderF) in
      ws := List.map n_of_tok w2; q := quorum_of !ws;
      if fresh = "1" then begin
        nv := List.length w2; nvn := nat_of_int !nv;   (* a new epoch may have another validator count *)
        ce := ce_reset_fresh !nvn !ce; order := []; orderF := []; specE := []; specEF := [] end
      else begin
        ce := ce_reset_same !ce; order := !orderF; specE := !specEF end;
      s := ce_view !ce; table := None;
      "s" ^ string_of_int lost
    | ["DB"; k] ->
      let r = lastn (int_of_string k) (List.rev !orderF) in
      let g tbl id = (match alookup id tbl with Some b -> hex_of_bytes b | None -> "~") in
      let db = !ce.ce_p.p_db in
      "b" ^ join "/" (List.map (fun id -> ntok id ^ "=" ^ g db.pd_hb id ^ ":" ^ g db.pd_la id ^ ":" ^ g db.pd_br id) r)
        ^ "+B" ^ (match db.pd_bi with Some b -> hex_of_bytes (enc_bi b) | None -> "~")
    | ["Q"; k; ord] ->
      let r = lastn (int_of_string k) (List.rev !order) in
      let pairs = List.concat_map (fun a -> List.map (fun b -> (a, b)) r) r in
      let run () =
        let tbl = Hashtbl.create 64 in
        List.iter (fun (a, b) -> Hashtbl.replace tbl (a, b) (do_query a b))
          (if ord = "1" then List.rev pairs else pairs);
        bits (List.map (fun p -> Hashtbl.find tbl p) pairs) in
      let b1 = run () in let b2 = run () in
      let sp = bits (List.concat_map (fun a -> spec_row a r) r) in
      if String.contains sp '1' then fctrue := true;
      if not !mal then begin
        if iobs <> "q" ^ sp ^ "/" ^ sp then spec_bad := (Printf.sprintf "op%d:Q spec=%s" i sp) :: !spec_bad;
        if b1 <> sp || b2 <> sp then mspec_bad := (Printf.sprintf "op%d:Q" i) :: !mspec_bad
      end;
      "q" ^ b1 ^ "/" ^ b2
    | ["QF"; k; m] ->   (* ForklessCause(A, B) for A among the last k and B among the first m indexed events *)
      let all = List.rev !order in
      let ra = lastn (int_of_string k) all in
      let rb = List.filteri (fun i _ -> i < int_of_string m) all in
      let run () = bits (List.concat_map (fun a -> List.map (fun b -> do_query a b) rb) ra) in
      let b1 = run () in let b2 = run () in
      let sp = bits (List.concat_map (fun a -> spec_row a rb) ra) in
      if String.contains sp '1' then fctrue := true;
      if not !mal then begin
        if iobs <> "q" ^ sp ^ "/" ^ sp then spec_bad := (Printf.sprintf "op%d:QF spec=%s" i sp) :: !spec_bad;
        if b1 <> sp || b2 <> sp then mspec_bad := (Printf.sprintf "op%d:QF" i) :: !mspec_bad
      end;
      "q" ^ b1 ^ "/" ^ b2
    | ["M"; k] ->
      let r = lastn (int_of_string k) (List.rev !order) in
      let one id =
        let m = (if big then merged !s id else (let (m, ce') = ce_merged !ce id in ce := ce'; m)) in
        let sp = (if big then (let (e', t') = restricted id in merged_spec_t !nvn e' t' id)
                  else merged_spec_t !nvn !specE (get_table ()) id) in
        let sp_tok = csv (fun (f, x) -> if f then "F" else ntok x) sp in
        let m_tok = csv hb_tok_a m in
        if not !mal && m_tok <> sp_tok then mspec_bad := (Printf.sprintf "op%d:M%s" i (ntok id)) :: !mspec_bad;
        (ntok id ^ "=" ^ csv hb_tok m ^ "~" ^ m_tok, ntok id, sp_tok) in
      let res = List.map one r in
      (* spec against the implementation's own answer *)
      if not !mal then begin
        let body = if String.length iobs > 0 then String.sub iobs 1 (String.length iobs - 1) else "" in
        let parts = if body = "" then [] else String.split_on_char '/' body in
        if List.length parts <> List.length res then spec_bad := (Printf.sprintf "op%d:M shape" i) :: !spec_bad
        else List.iter2 (fun part (_, idt, sp_tok) ->
          let ok = (match String.split_on_char '=' part with
            | [pid; v] when pid = idt ->
              (match String.split_on_char '~' v with
               | [d; a] ->
                 let dseq = csv (fun t -> if t = "F" then "F" else List.hd (String.split_on_char '.' t))
                              (String.split_on_char ',' d) in
                 dseq = sp_tok && a = sp_tok
               | _ -> false)
            | _ -> false) in
          if not ok then spec_bad := (Printf.sprintf "op%d:M%s spec=%s" i idt sp_tok) :: !spec_bad) parts res
      end;
      "m" ^ join "/" (List.map (fun (t, _, _) -> t) res)
    | ["V"; k] ->
      let r = lastn (int_of_string k) (List.rev !order) in
      let one id =
        let h = (match alookup id !s.hb with Some v -> v | None -> []) in
        let l = (match alookup id !s.la with Some v -> v | None -> []) in
        let b = (match alookup id !s.ebr with Some b -> tok_of_nat b | None -> "?") in
        ntok id ^ "=b" ^ b ^ ":h" ^ csv hb_tok h ^ ":l" ^ csv ntok l in
      "v" ^ join "/" (List.map one r) ^ "+bi" ^ csv ntok !s.br_last ^ ":" ^ csv tok_of_nat !s.br_cr ^ ":" ^
        csv (fun l -> join "." (List.map tok_of_nat l)) !s.by_cr
    | ["P"; id; self] ->
      let idn = n_of_tok id in
      (match alookup idn !s.evs with
       | None -> "ps"
       | Some e ->
         let c = int_of_nat e.ecr in
         (match !qi with
          | None -> ()
          | Some st -> qi := qi_process st (merged !s idn) e.ecr (self = "1"));
         if c < nv0 then lastp.(c) <- Some idn;
         if self = "1" then selfev := Some idn;
         if !qi = None then "pPANIC" else "p1")
    | ["PX"; id; self] -> (* ProcessEvent of a copy of event id whose creator is NOT a validator: column 0 *)
      let idn = n_of_tok id in
      (match alookup idn !s.evs with
       | None -> "ps"
       | Some _ ->
         (match !qi with
          | None -> ()
          | Some st -> qi := qi_process_id st (merged !s idn) None (self = "1"));
         mal := true; (* outside the property from here on: implementation vs model only *)
         if !qi = None then "pPANIC" else "p1")
    | ["G"] ->
      (match !qi with None -> "gPANIC" | Some st ->
       (match qi_medians !ws !q st with
        | None -> qi := None; "gPANIC"
        | Some (meds, st') ->
          qi := Some st';
          if not !mal then begin
            let sm = spec_matrix () in
            let smeds = List.map (fun row -> median_spec !ws !q row) sm in
            let sp = "g" ^ csv ntok smeds ^ ":" ^ csv (fun row -> join "." (List.map ntok row)) sm ^ ":" ^ csv ntok (spec_self ()) in
            if iobs <> sp then spec_bad := (Printf.sprintf "op%d:G spec=%s" i sp) :: !spec_bad;
            if smeds <> meds then mspec_bad := (Printf.sprintf "op%d:G" i) :: !mspec_bad
          end;
          "g" ^ csv ntok meds ^ ":" ^ csv (fun row -> join "." (List.map ntok row)) st'.qmat ^ ":" ^ csv ntok st'.qself))
    | ["T"; id] ->
      let idn = n_of_tok id in
      (match alookup idn !s.evs, !qi with
       | None, _ -> "ts"
       | _, None -> "tPANIC"
       | Some _, Some st ->
         (match qi_metric diff !ws !q st (merged !s idn) with
          | None -> qi := None; "tPANIC"
          | Some (m, st') ->
            qi := Some st';
            if not !mal then begin
              let smeds = List.map (fun row -> median_spec !ws !q row) (spec_matrix ()) in
              let sp = metric_spec diff smeds (spec_self ()) (spec_clock idn) !nvn in
              if iobs <> "t" ^ ntok sp then spec_bad := (Printf.sprintf "op%d:T spec=%s" i (ntok sp)) :: !spec_bad;
              if sp <> m then mspec_bad := (Printf.sprintf "op%d:T" i) :: !mspec_bad
            end;
            "t" ^ ntok m))
    | _ -> "BAD") in
    mobs := out :: !mobs) ops;
  { default_verdict with model_obs = List.rev !mobs;
    spec_ok = Some (!spec_bad = []);
    model_spec_ok = (!mspec_bad = [] && !hyp_bad = []);
    nontrivial = (!forkseen || !fctrue || big) && (declared_mal || !hyp_bad = []);
    note = (if !spec_bad <> [] then "impl-vs-spec at " ^ join " " (List.rev !spec_bad) else "") ^
           (if !mspec_bad <> [] then " model-vs-spec at " ^ join " " (List.rev !mspec_bad) else "") ^
           (if !hyp_bad <> [] then " hypothesis: " ^ join " " (List.rev !hyp_bad) else "") }

let () = run eval
