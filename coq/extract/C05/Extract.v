From Coq Require Import ExtrOcamlBasic NArith ZArith List.
From LV Require Import lib.Conv model.Wlru model.VecPersist model.VecIndex spec.FcSpec spec.StreamSpec model.QuorumIdx spec.QuorumSpec.
Definition bcache_new : N -> Z -> option bcache := @Wlru.new N (list N).
Extraction "model.ml" conv_roots init add_or_drop vs_init vs_add vs_flush vs_drop p_init p_view p_add p_flush p_drop p_restart enc_bi ce_new ce_add ce_flush ce_drop ce_restart ce_reset_same ce_reset_fresh ce_query ce_merged ce_view bcache_new fc_query fc_res fcache_new merged quorum_of nbr
  alookup anc anc_table fc_spec_row merged_spec_t wf_evb
  qi_new qi_process qi_process_id qi_medians qi_metric diff_family median_spec metric_spec obs_of_spec seq_of.
