From Coq Require Import ExtrOcamlBasic NArith List.
From LV Require Import lib.Conv model.Leecher spec.LeecherSpec.
Extraction "model.ml" conv_roots b_init bstep bstep_old brun brun_old base_spec_ok
  p_init pstep prun script_oracle peer_spec_ok.
