(* C18 driver.  Input (see harness/cmd/vh/c18.go):
     B ; r p ; u p choice ; t shouldTerm choice ; x
     P par nruns (done susp mask)* ; c id ; ...
   model_obs = callback log of the extracted model (Leecher.brun / Leecher.prun);
   spec_ok   = LeecherSpec.base_spec_ok / peer_spec_ok evaluated on the log parsed back from
               the implementation's observation. *)
open Model
open Conv
open Drv

let groups inp = match split_on ";" inp with [] -> ([], []) | h :: ops -> (h, List.filter (fun o -> o <> []) ops)

(* ---------- base ---------- *)
let bop_of = function
  | ["r"; p] -> BReg (n_of_tok p)
  | ["u"; p; c] -> BUnreg (n_of_tok p, nat_of_tok c)
  | ["t"; s; c] -> BTick (bool_of_tok s, nat_of_tok c)
  | ["x"] -> BTerminate
  | _ -> failwith "bad base op"

let tok_of_bev = function
  | EStart (p, c) -> "S" ^ tok_of_n p ^ ":" ^ String.concat "," (List.map tok_of_n c)
  | ETerm None -> "T-"
  | ETerm (Some p) -> "T" ^ tok_of_n p
  | EPanic -> "PANIC"

let bev_of tok =
  let rest = String.sub tok 1 (String.length tok - 1) in
  if tok = "PANIC" then EPanic
  else match tok.[0] with
  | 'S' -> (match String.split_on_char ':' rest with
            | [p; c] -> EStart (n_of_tok p, List.map n_of_tok (List.filter (fun s -> s <> "") (String.split_on_char ',' c)))
            | _ -> failwith "bad S")
  | 'T' -> if rest = "-" then ETerm None else ETerm (Some (n_of_tok rest))
  | _ -> failwith "bad base token"

(* the observation also carries PeersNum() after every op: thread the state through bstep *)
let base_obs step ops =
  let rec go s = function
    | [] -> []
    | o :: r ->
      let (s', evs) = step s o in
      List.map tok_of_bev evs @ ["." ^ string_of_int (List.length s'.b_peers)] @ go s' r
  in go b_init ops

let parse_base_obs ops obs =
  (* split on ".n" markers *)
  let rec go ops cur acc = function
    | [] -> if cur = [] && ops = [] then Some (List.rev acc) else None
    | t :: r when String.length t > 0 && t.[0] = '.' ->
      (match ops with
       | [] -> None
       | o :: ops' -> go ops' [] ((o, List.rev cur) :: acc) r)
    | t :: r -> go ops (bev_of t :: cur) acc r
  in try go ops [] [] obs with _ -> None

(* ---------- peer ---------- *)
let ids_of_mask m =
  let m = Z.of_string m in
  List.filter_map (fun i -> if Z.testbit m i then Some (n_of_z (Z.of_int i)) else None)
    [0;1;2;3;4;5;6;7;8;9;10;11;12;13;14;15]

(* "<num>:<size>" passed to RequestChunks: 7+par and 11+par*2^33 (see c18ChunkNum/c18ChunkSize) *)
let chunk_params = ref "7:11"
let set_chunk_params par =
  let p = z_of_n par in
  chunk_params := Z.to_string (Z.add (Z.of_int 7) p) ^ ":" ^ Z.to_string (Z.add (Z.of_int 11) (Z.shift_left p 33))

(* the second script token: bit 0 = Suspend() answer, bit 1 = RequestChunks returns an error in
   that run.  session.go discards that error (`_ = d.callback.RequestChunks(...)`, totalRequested
   is advanced before the call), so the model has no input for it *)
let susp_of_tok s = (int_of_string s) land 1 = 1

let tok_of_pev = function
  | PDone b -> "D" ^ tok_of_bool b
  | PIsProc (id, b) -> "I" ^ tok_of_n id ^ ":" ^ tok_of_bool b
  | PSusp b -> "U" ^ tok_of_bool b
  | PReq k -> "R" ^ tok_of_n k ^ ":" ^ !chunk_params
  | PTerminated -> "X"

let pev_of tok =
  let rest = String.sub tok 1 (String.length tok - 1) in
  match tok.[0] with
  | 'X' -> PTerminated
  | 'D' -> PDone (bool_of_tok rest)
  | 'I' -> (match String.split_on_char ':' rest with
            | [i; b] -> PIsProc (n_of_tok i, bool_of_tok b) | _ -> failwith "bad I")
  | 'U' -> PSusp (bool_of_tok rest)
  | 'R' -> (match String.split_on_char ':' rest with
            | k :: _ -> PReq (n_of_tok k) | _ -> failwith "bad R")
  | _ -> failwith "bad peer token"

(* ---------- base leecher with its real loop (mode L): linearizability + trace validation ---------- *)
type litem =
  | LTick of string list                              (* callback tokens (without the t: prefix) *)
  | LApi of string * string list * string * int * bool
      (* op name, callback tokens, return token, position of the return marker, floats (no callback) *)

let starts_with pre s = String.length s >= String.length pre && String.sub s 0 (String.length pre) = pre
let drop k s = String.sub s k (String.length s - k)

(* split the raw log into items (position of the first callback, item); [atomic] is false when a
   callback of an API call falls inside an unfinished ticker Routine *)
let loop_items toks =
  let atomic = ref true in
  (* ticker Routine being read: 0 none, 1 after the first O, 2 after the second O = 0 (expects C),
     3 after C>0 (expects S) *)
  let tstate = ref 0 and tcur = ref [] in
  let items = ref [] in
  let pos = ref 0 in
  let tick_start = ref 0 in
  let close_tick () = if !tcur <> [] then items := (!tick_start, LTick (List.rev !tcur)) :: !items;
    tcur := []; tstate := 0 in
  let api_open = ref None in           (* name, start position, callbacks, first callback position *)
  List.iter (fun t ->
    incr pos;
    if starts_with "t:" t then begin
      let c = drop 2 t in
      (match !tstate, c.[0] with
       | 0, 'O' -> tick_start := !pos; tcur := [c]; if false then () else tstate := 1
       | 1, 'H' | 1, 'T' -> tcur := c :: !tcur
       | 1, 'O' -> tcur := c :: !tcur; if c = "O1" then close_tick () else tstate := 2
       | 2, 'C' -> tcur := c :: !tcur; if c = "C0" then close_tick () else tstate := 3
       | 3, 'S' -> tcur := c :: !tcur; close_tick ()
       | _, _ -> atomic := false; tcur := c :: !tcur)
    end else if starts_with "a:" t then begin
      if !tstate <> 0 then atomic := false;
      (match !api_open with
       | Some (n, p0, cbs, fp) -> api_open := Some (n, p0, drop 2 t :: cbs, (if fp = 0 then !pos else fp))
       | None -> atomic := false)
    end else if t.[0] = '>' then api_open := Some (drop 1 t, !pos, [], 0)
    else if t = "PANIC" then
      (match !api_open with Some (n, p0, cbs, fp) -> api_open := Some (n, p0, "PANIC" :: cbs, fp) | None -> ())
    else if t.[0] = '<' then
      (match !api_open with
       | Some (n, p0, cbs, fp) ->
         let key = if fp <> 0 then fp else p0 in
         items := (key, LApi (n, List.rev cbs, t, !pos, fp = 0)) :: !items;
         api_open := None
       | None -> atomic := false)
  ) toks;
  if !tstate <> 0 then close_tick ();
  (List.sort (fun (a, _) (b, _) -> compare a b) !items, !atomic)

(* an op without callbacks takes effect somewhere between its two markers: it may be linearized
   after any ticker Routine that started before its return marker: enumerate *)
let rec linearizations items =
  match items with
  | [] -> [[]]
  | ((_, LApi (_, _, _, endpos, true)) as it) :: rest ->
    let rec places pre rest =
      (List.map (fun l -> List.rev_append pre (it :: l)) (linearizations rest)) @
      (match rest with
       | (((p, LTick _) as tk) :: r) when p < endpos -> places (tk :: pre) r
       | _ -> []) in
    places [] rest
  | it :: rest -> List.map (fun l -> it :: l) (linearizations rest)

let eval_loop obs =
  let toks = List.filter (fun t -> t <> "E") obs in
  let (items, atomic) = loop_items toks in
  let cands = (try linearizations items with _ -> []) in
  let cands = (match cands with [] -> [items] | l -> if List.length l > 512 then [List.hd l] else l) in
  let events_of cbs = List.filter_map (fun c -> match c.[0] with
      | 'S' | 'T' -> Some (bev_of c) | _ -> if c = "PANIC" then Some EPanic else None) cbs in
  let choice_of cbs = (match List.find_opt (fun c -> c.[0] = 'S') cbs with
      | Some c -> (match bev_of c with
          | EStart (p, cs) -> let rec idx i = function [] -> 0 | x :: r -> if x = p then i else idx (i + 1) r in idx 0 cs
          | _ -> 0)
      | None -> 0) in
  let op_of = function
    | LTick cbs -> BTick (List.mem "H1" cbs, nat_of_int (choice_of cbs))
    | LApi (n, cbs, _, _, _) ->
      (match n.[0] with
       | 'r' -> BReg (n_of_tok (drop 1 n))
       | 'u' -> BUnreg (n_of_tok (drop 1 n), nat_of_int (choice_of cbs))
       | _ -> BTerminate) in
  let cbs_of = function LTick c | LApi (_, c, _, _, _) -> c in
  (* the state observed at a return marker is the state after everything that started before the
     marker: return checks are deferred until the linearization passes the marker's position *)
  let run_checks state_tok step init lin =
    let rec flush s p pend = (match pend with
        | (ret, e) :: r when e < p -> state_tok s = ret && flush s p r
        | _ -> true)
    and drop_flushed p pend = List.filter (fun (_, e) -> e >= p) pend in
    let rec go s pend = function
      | [] -> List.for_all (fun (ret, _) -> state_tok s = ret) pend
      | (p, it) :: r ->
        flush s p pend &&
        (let pend = drop_flushed p pend in
         match step s it with
         | None -> false
         | Some s' ->
           let pend = (match it with LApi (_, _, ret, e, _) -> pend @ [(ret, e)] | LTick _ -> pend) in
           go s' pend r) in
    go init [] lin in
  (* 1. against the model: callbacks of every item, session variable and PeersNum at the markers *)
  let replay lin =
    run_checks
      (fun s -> "<s" ^ (match s.b_sess with Some p -> tok_of_n p | None -> "-") ^ "n" ^ string_of_int (List.length s.b_peers))
      (fun s it -> let (s', evs) = bstep s (op_of it) in if evs = events_of (cbs_of it) then Some s' else None)
      b_init lin in
  (* 2. against the specification: the monitor accepts the linearized log, and the session the
        callbacks leave running is the one observed at the markers *)
  let monitor lin =
    let log = List.map (fun (_, it) -> (op_of it, events_of (cbs_of it))) lin in
    let sess_of ret = let i = String.index ret 'n' in String.sub ret 2 (i - 2) in
    base_spec_ok log &&
    run_checks (fun run -> run)
      (fun run it -> Some (List.fold_left (fun acc c -> match c.[0] with
           | 'S' -> (match bev_of c with EStart (p, _) -> tok_of_n p | _ -> acc)
           | 'T' -> "-" | _ -> acc) run (cbs_of it)))
      "-" (List.map (fun (p, it) -> (p, (match it with
          | LApi (n, c, ret, e, f) -> LApi (n, c, sess_of ret, e, f) | t -> t))) lin) in
  let explained = atomic && List.exists replay cands in
  let spec = atomic && List.exists monitor cands in
  { default_verdict with
    model_obs = (if explained then obs else ["NO-LINEARIZATION-MATCHES-THE-MODEL"]);
    spec_ok = Some spec; model_spec_ok = true;
    nontrivial = List.exists (function (_, LTick cbs) -> List.exists (fun c -> c.[0] = 'S') cbs | _ -> false) items }

let eval inp obs =
  let header, ops = groups inp in
  match header with
  | ["B"] ->
    let ops = List.map bop_of ops in
    let mo = base_obs bstep ops in
    let spec = (match parse_base_obs ops obs with
                | Some log -> base_spec_ok log
                | None -> false) in
    let started = List.exists (fun t -> t.[0] = 'S') mo in
    { default_verdict with model_obs = mo; spec_ok = Some spec;
      model_spec_ok = base_spec_ok (brun b_init ops); nontrivial = started }
  | "P" :: par :: nruns :: rest ->
    let par = n_of_tok par in
    set_chunk_params par;
    let rec script k l = if k = 0 then [] else match l with
      | d :: s :: m :: r -> ((bool_of_tok d, susp_of_tok s), ids_of_mask m) :: script (k - 1) r
      | _ -> failwith "short script" in
    let sc = script (int_of_string nruns) rest in
    let pops = List.map (function ["c"; id] -> PChunk (n_of_tok id) | ["k"] -> PTick | _ -> failwith "bad peer op") ops in
    (* the harness ends every history with 2*par+1 probe notifications (id 999) racing with
       Stop(): the loop processes j of them, j unknown.  Accept model(history ++ 999^j). *)
    let probe = n_of_tok "999" in
    let maxj = 2 * Z.to_int (z_of_n par) + 1 in
    let log_of j = snd (prun par (script_oracle sc) p_init (pops @ List.init j (fun _ -> PChunk probe))) in
    let toks l = List.map tok_of_pev l @ ["E"] in
    let rec pick j = if j > maxj then log_of 0 else
        let l = log_of j in if toks l = obs then l else pick (j + 1) in
    let log = pick 0 in
    let mo = toks log in
    let impl_log = (try Some (List.map pev_of (List.filter (fun t -> t <> "E") obs)) with _ -> None) in
    let spec = (match impl_log with Some l -> peer_spec_ok par l | None -> false) in
    { default_verdict with model_obs = mo; spec_ok = Some spec;
      model_spec_ok = peer_spec_ok par log && peer_spec_ok par (log_of maxj);
      nontrivial = List.exists (function PReq _ -> true | _ -> false) log }
  | "T" :: par :: nruns :: rest ->
    (* trace validation of the real ticker: chunk identities are encoded as op*16+id *)
    let par = n_of_tok par in
    set_chunk_params par;
    let nops = List.length ops in
    let rec script k l = if k = 0 then [] else match l with
      | d :: s :: m :: r ->
        let low = List.map (fun x -> Z.to_int (z_of_n x)) (ids_of_mask m) in
        let ids = List.concat (List.init (nops + 1) (fun op -> List.map (fun i -> n_of_z (Z.of_int (op * 16 + i))) low)) in
        ((bool_of_tok d, susp_of_tok s), ids) :: script (k - 1) r
      | _ -> failwith "short script" in
    let sc = script (int_of_string nruns) rest in
    (* split the implementation's log into routine runs and X markers (external Terminate) *)
    let toks = List.filter (fun t -> t <> "E") obs in
    let runs = List.fold_left (fun acc t -> match acc with
        | cur :: more when t.[0] <> 'D' && t <> "X" && cur <> ["X"] -> (t :: cur) :: more
        | _ -> [t] :: acc) [] toks in
    let runs = List.rev_map List.rev runs in
    let op_of t = (* I<id>#<op>:<b> *)
      match String.index_opt t '#' with
      | Some i when t.[0] = 'I' ->
        let j = String.index t ':' in
        Some (int_of_string (String.sub t (i + 1) (j - i - 1)), int_of_string (String.sub t 1 (i - 1)))
      | _ -> None in
    let seen = ref (-1) and fifo_ok = ref true in
    let events = List.map (fun run ->
        if run = ["X"] then PTerminate else
        let fresh = List.filter_map (fun t -> match op_of t with
            | Some (op, id) when op > !seen -> Some (op, id) | _ -> None) run in
        match fresh with
        | [] -> PTick
        | [(op, id)] -> seen := op; PChunk (n_of_z (Z.of_int (op * 16 + id)))
        | _ -> fifo_ok := false; PTick) runs in
    (* a routine run that passed the d.done guard just before Terminate() may log after X:
       also try every X moved behind the run that follows it *)
    let rec swaps = function
      | PTerminate :: e :: r when e <> PTerminate ->
        List.map (fun t -> PTerminate :: t) (swaps (e :: r)) @ List.map (fun t -> e :: PTerminate :: t) (swaps r)
      | e :: r -> List.map (fun t -> e :: t) (swaps r)
      | [] -> [[]] in
    let cands = swaps events in
    let tok_t = function
      | PIsProc (id, b) -> let i = Z.to_int (z_of_n id) in Printf.sprintf "I%d#%d:%s" (i mod 16) (i / 16) (tok_of_bool b)
      | e -> tok_of_pev e in
    let noX l = List.filter (fun t -> t <> "X") l in
    let log_of evs = snd (prun par (script_oracle sc) p_init evs) in
    let good = List.filter (fun evs -> noX (List.map tok_t (log_of evs)) = noX toks) cands in
    let log = (match good with evs :: _ -> log_of evs | [] -> log_of events) in
    let mo = (if good <> [] then obs else List.map tok_t log @ ["E"]) in
    let strip t = match String.index_opt t '#' with
      | Some i when t.[0] = 'I' -> String.sub t 0 i ^ String.sub t (String.index t ':') (String.length t - String.index t ':')
      | _ -> t in
    let impl_log = (try Some (List.map (fun t -> pev_of (strip t)) toks) with _ -> None) in
    (* a notification whose chunk never shows up in a sweep was dropped: legitimate only if, at
       some moment between the previous accepted notification and the next one, the model's
       processing buffer held 2*parallel chunks or the leecher had stopped (trailing ones may
       also have been cut off by the final Stop()) *)
    let drops_ok evs =
      let parn = Z.to_int (z_of_n par) in
      let states = Array.make (List.length evs + 1) p_init in
      List.iteri (fun i e -> states.(i + 1) <- fst (pstep par (script_oracle sc) states.(i) e)) evs;
      let full s = List.length s.p_chunks >= 2 * parn || s.p_done in
      let ok = ref true and last_op = ref (-1) and last_idx = ref 0 in
      List.iteri (fun i e -> match e with
          | PChunk id ->
            let j = Z.to_int (z_of_n id) / 16 in
            if j > !last_op + 1 then begin
              let found = ref false in
              for b = !last_idx to i do if full states.(b) then found := true done;
              if not !found then ok := false
            end;
            last_op := j; last_idx := i + 1
          | _ -> ()) evs;
      !ok in
    let spec =
      if good <> [] then peer_spec_ok par log && !fifo_ok && drops_ok (List.hd good)
      else (* no schedule of the model explains the log: the monitor judges the log as it is *)
        (match impl_log with Some l -> peer_spec_ok par l && !fifo_ok | None -> false) in
    { default_verdict with model_obs = mo; spec_ok = Some spec; model_spec_ok = peer_spec_ok par log;
      nontrivial = List.exists (fun e -> e = PTick) events && List.exists (function PReq _ -> true | _ -> false) log }
  | "L" :: _ -> eval_loop obs
  | _ -> failwith "bad case"

let () = run eval
