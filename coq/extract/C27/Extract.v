From Coq Require Import ExtrOcamlBasic NArith List.
From LV Require Import lib.Conv model.CachedProducer spec.CachedProducerSpec.
Extraction "model.ml" conv_roots wrap wrap_all wrap_old cstep dead trace_ok by_name_op
  open_overlap newest_handle handles alookup conc_ok group_apply cview0.
