(* C27 driver.  Case: <ctor W|A> ; op ; op ; ...
     ctor: W = cachedproducer.Wrap, A = cachedproducer.WrapAll
     ops : O name | F name (underlying OpenDB fails) | C name | D name | CH uid | DH uid
   impl observation per op:  ; <res> <events>
     res   : h<uid> | openerr | ok | overclose | nohandle | PANIC | dead
     events: - | open:<name>:<uid>,openfail:<name>,close:<uid>,drop:<uid>  (underlying calls, in order)
   model side: extracted CachedProducer.cstep from [wrap] / [wrap_all] (the repaired code);
   spec side : extracted CachedProducerSpec.trace_ok evaluated on the implementation's trace
               (by-name histories only; stale-handle ops CH/DH are compared with the model only). *)
open Model
open Conv
open Drv

let tn = tok_of_n

let parse_op t = match t with
  | ["O"; n] -> COpen (n_of_tok n, false)
  | ["F"; n] -> COpen (n_of_tok n, true)
  | ["C"; n] -> CClose (n_of_tok n)
  | ["D"; n] -> CDrop (n_of_tok n)
  | ["CH"; u] -> CCloseH (n_of_tok u)
  | ["DH"; u] -> CDropH (n_of_tok u)
  | _ -> failwith ("bad op " ^ String.concat " " t)

let res_tok = function
  | RHandle u -> "h" ^ tn u | ROpenErr -> "openerr" | ROk -> "ok" | ROverClose -> "overclose"
  | RNoHandle -> "nohandle" | RPanic -> "PANIC" | RDead -> "dead"
let ev_tok = function
  | UOpen (n, u) -> "open:" ^ tn n ^ ":" ^ tn u | UOpenFail n -> "openfail:" ^ tn n
  | UClose u -> "close:" ^ tn u | UDrop u -> "drop:" ^ tn u
let evs_tok l = if l = [] then "-" else String.concat "," (List.map ev_tok l)

let parse_res s =
  if s = "openerr" then Some ROpenErr else if s = "ok" then Some ROk else if s = "overclose" then Some ROverClose
  else if s = "nohandle" then Some RNoHandle else if s = "PANIC" then Some RPanic else if s = "dead" then Some RDead
  else if String.length s > 1 && s.[0] = 'h' then
    (try Some (RHandle (n_of_tok (String.sub s 1 (String.length s - 1)))) with _ -> None)
  else None
let parse_ev s = match String.split_on_char ':' s with
  | ["open"; n; u] -> UOpen (n_of_tok n, n_of_tok u)
  | ["openfail"; n] -> UOpenFail (n_of_tok n)
  | ["close"; u] -> UClose (n_of_tok u)
  | ["drop"; u] -> UDrop (n_of_tok u)
  | _ -> failwith "bad event"
let parse_evs s = if s = "-" then [] else List.map parse_ev (String.split_on_char ',' s)

let eval inp obs =
  match split_on ";" inp with
  | [ctor] :: ops ->
    let ops = List.map parse_op (List.filter (fun o -> o <> []) ops) in
    let s0 = if ctor = "A" then wrap_all else wrap in
    let s = ref s0 and acc = ref [] and mtrace = ref [] in
    List.iter (fun o ->
      let ((s', r), ev) = cstep !s o in
      s := s'; acc := [res_tok r; evs_tok ev] :: !acc; mtrace := ((o, r), ev) :: !mtrace) ops;
    let model_s = String.concat " " (List.concat_map (fun l -> ";" :: l) (List.rev !acc)) in
    let by_name = List.for_all by_name_op ops in
    (* the implementation's trace, parsed back *)
    let impl_groups = List.filter (fun g -> g <> []) (split_on ";" obs) in
    let impl_trace =
      (try
        if List.length impl_groups <> List.length ops then None else
        Some (List.map2 (fun o g -> match g with
          | [r; e] -> (match parse_res r with Some r -> ((o, r), parse_evs e) | None -> failwith "res")
          | _ -> failwith "group") ops impl_groups)
      with _ -> None) in
    let spec_ok = if not by_name then None else
      (match impl_trace with None -> Some false | Some tr -> Some (trace_ok tr)) in
    { default_verdict with
      model_obs = tokens model_s;
      spec_ok = spec_ok;
      model_spec_ok = (not by_name) || trace_ok (List.rev !mtrace);
      nontrivial = List.exists (fun ((_, _), ev) -> List.exists (function UClose _ -> true | _ -> false) ev) !mtrace;
      note = (match spec_ok with Some false -> "trace violates CachedProducerSpec.trace_ok" | _ -> "") }
  | _ -> failwith "bad case"

let () = run eval
