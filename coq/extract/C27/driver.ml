(* C27 driver.  Case: <ctor W|A> ; op ; op ; ...
     ctor: W = cachedproducer.Wrap, A = cachedproducer.WrapAll
     ops : O name | F name (underlying OpenDB fails) | C name | D name | CH uid | DH uid
   impl observation per op:  ; <res> <events>
     res   : h<uid> | openerr | ok | overclose | nohandle | PANIC | dead
     events: - | open:<name>:<uid>,openfail:<name>,close:<uid>,drop:<uid>  (underlying calls, in order)
   model side: extracted CachedProducer.cstep from [wrap] / [wrap_all] (the repaired code);
   spec side : extracted CachedProducerSpec.trace_ok evaluated on the implementation's trace
               (by-name histories only; stale-handle ops CH/DH are compared with the model only). *)
open Model
open Conv
open Drv

let tn = tok_of_n

let parse_op t = match t with
  | ["O"; n] -> COpen (n_of_tok n, false)
  | ["F"; n] -> COpen (n_of_tok n, true)
  | ["C"; n] -> CClose (n_of_tok n)
  | ["D"; n] -> CDrop (n_of_tok n)
  | ["CH"; u] -> CCloseH (n_of_tok u)
  | ["DH"; u] -> CDropH (n_of_tok u)
  | ["CE"; n] -> CCloseE (n_of_tok n)
  | _ -> failwith ("bad op " ^ String.concat " " t)

let res_tok = function
  | RHandle u -> "h" ^ tn u | ROpenErr -> "openerr" | ROk -> "ok" | ROverClose -> "overclose"
  | RNoHandle -> "nohandle" | RPanic -> "PANIC" | RDead -> "dead" | RCloseErr -> "closeerr"
let ev_tok = function
  | UOpen (n, u) -> "open:" ^ tn n ^ ":" ^ tn u | UOpenFail n -> "openfail:" ^ tn n
  | UClose u -> "close:" ^ tn u | UDrop u -> "drop:" ^ tn u
let evs_tok l = if l = [] then "-" else String.concat "," (List.map ev_tok l)

let parse_res s =
  if s = "openerr" then Some ROpenErr else if s = "ok" then Some ROk else if s = "overclose" then Some ROverClose
  else if s = "closeerr" then Some RCloseErr else if s = "nohandle" then Some RNoHandle else if s = "PANIC" then Some RPanic else if s = "dead" then Some RDead
  else if String.length s > 1 && s.[0] = 'h' then
    (try Some (RHandle (n_of_tok (String.sub s 1 (String.length s - 1)))) with _ -> None)
  else None
let parse_ev s = match String.split_on_char ':' s with
  | ["open"; n; u] -> UOpen (n_of_tok n, n_of_tok u)
  | ["openfail"; n] -> UOpenFail (n_of_tok n)
  | ["close"; u] -> UClose (n_of_tok u)
  | ["drop"; u] -> UDrop (n_of_tok u)
  | _ -> failwith "bad event"
let parse_evs s = if s = "-" then [] else List.map parse_ev (String.split_on_char ',' s)

(* ---- overlapping calls (PAR a x b y): the second call is issued while the first is inside its
   underlying call.  Model side: the sequential model on SOME linearisation (a;b or b;a), or, for
   two OpenDB of one name, the two-critical-section model open_overlap (the code as it is).
   Spec side: CachedProducerSpec.conc_ok (counting clauses) on the implementation's observation. *)
type item = Seq of cop | Par of string list * string list

let parse_item t = match t with
  | ["PAR"; a; x; b; y] -> Par ([a; x], [b; y])
  | _ -> Seq (parse_op t)

(* by-name close/drop act on the handle that was newest when the call was issued *)
let resolve s t = match t with
  | ["C"; n] -> (match newest_handle (n_of_tok n) s.handles with Some u -> CCloseH u | None -> CClose (n_of_tok n))
  | ["D"; n] -> (match newest_handle (n_of_tok n) s.handles with Some u -> CDropH u | None -> CDrop (n_of_tok n))
  | _ -> parse_op t

let name_of s o = match o with
  | COpen (n, _) | CClose n | CDrop n | CCloseE n -> n
  | CCloseH u | CDropH u -> (match alookup u s.handles with Some n -> n | None -> n_of_tok "999999")
let kcall s o r = match o with
  | COpen _ -> KOpen (name_of s o, r)
  | CClose _ | CCloseH _ | CCloseE _ -> KClose (name_of s o, r)
  | CDrop _ | CDropH _ -> KDrop (name_of s o, r)

let sort_evs l = List.sort compare (List.map ev_tok l)

let eval inp obs =
  match split_on ";" inp with
  | [ctor] :: ops ->
    let items = List.map parse_item (List.filter (fun o -> o <> []) ops) in
    let has_par = List.exists (function Par _ -> true | _ -> false) items in
    let s0 = if String.length ctor > 0 && ctor.[0] = 'A' then wrap_all else wrap in
    let impl_groups = List.filter (fun g -> g <> []) (split_on ";" obs) in
    let impl_arr = Array.of_list impl_groups in
    let s = ref s0 and acc = ref [] and mtrace = ref [] and mgroups = ref [] and igroups = ref [] in
    let overlap_at = ref [] in   (* indices of PAR groups where the implementation's observation equals open_overlap *)
    let iok = ref (Array.length impl_arr = List.length items) in
    List.iteri (fun i it ->
      let ig = if i < Array.length impl_arr then impl_arr.(i) else [] in
      match it with
      | Seq o ->
        let ((s', r), ev) = cstep !s o in
        (match ig with
         | [r'; e'] -> (match parse_res r' with
             | Some ri -> (try igroups := ([kcall !s o ri], parse_evs e') :: !igroups with _ -> iok := false)
             | None -> iok := false)
         | _ -> iok := false);
        mgroups := ([kcall !s o r], ev) :: !mgroups;
        s := s'; acc := [res_tok r; evs_tok ev] :: !acc; mtrace := ((o, r), ev) :: !mtrace
      | Par (ta, tb) ->
        let a = resolve !s ta and b = resolve !s tb in
        let lin x y = let ((s1, r1), e1) = cstep !s x in let ((s2, r2), e2) = cstep s1 y in (s2, r1, r2, e1 @ e2) in
        let c1 = (let (s2, r1, r2, e) = lin a b in (s2, r1, r2, e)) in
        let c2 = (let (s2, rb, ra, e) = lin b a in (s2, ra, rb, e)) in
        let c3 = (match a, b with
          | COpen (n, false), COpen (n', false) when n = n' ->
            let (((s2, r1), r2), e) = open_overlap n !s in [(s2, r1, r2, e)]
          | _ -> []) in
        let cands = [c1; c2] @ c3 in
        let matches (_, r1, r2, e) = (match ig with
          | ["par"; i1; i2; ie] -> i1 = res_tok r1 && i2 = res_tok r2 &&
              (try List.sort compare (if ie = "-" then [] else String.split_on_char ',' ie) = sort_evs e with _ -> false)
          | _ -> false) in
        let (s2, r1, r2, e) = (try List.find matches cands with Not_found -> c1) in
        if (not (matches c1)) && (not (matches c2)) && c3 <> [] && matches (List.hd c3) then overlap_at := i :: !overlap_at;
        let etok = (match ig with ["par"; _; _; ie] when matches (s2, r1, r2, e) -> ie | _ -> evs_tok e) in
        (match ig with
         | ["par"; i1; i2; ie] -> (match parse_res i1, parse_res i2 with
             | Some p1, Some p2 -> (try igroups := ([kcall !s a p1; kcall !s b p2], parse_evs ie) :: !igroups with _ -> iok := false)
             | _ -> iok := false)
         | _ -> iok := false);
        mgroups := ([kcall !s a r1; kcall !s b r2], e) :: !mgroups;
        s := s2; acc := ["par"; res_tok r1; res_tok r2; etok] :: !acc) items;
    let model_s = String.concat " " (List.concat_map (fun l -> ";" :: l) (List.rev !acc)) in
    if has_par then begin
      (* the counting clauses, group by group: where do they first fail? *)
      let first_fail gs =
        let rec go v i = function
          | [] -> None
          | g :: r -> (match group_apply v g with Some v' -> go v' (i + 1) r | None -> Some i) in
        go cview0 0 gs in
      let ifail = if !iok then first_fail (List.rev !igroups) else Some (-1) in
      let mfail = first_fail (List.rev !mgroups) in
      (* the recorded defect: two OpenDB of a closed name overlap, both open the underlying DB.
         Tagged only when the clauses fail at exactly that group and the observation is open_overlap's;
         from there on the counting view is undefined, later groups are judged model-vs-impl only. *)
      let tagged = (match ifail with Some i when List.mem i !overlap_at -> true | _ -> false) in
      let spec_ok = Some (ifail = None) in
      { default_verdict with
        model_obs = tokens model_s;
        spec_ok = spec_ok;
        model_spec_ok = (match mfail with None -> true | Some i -> List.mem i !overlap_at);
        nontrivial = true;
        note = (match ifail with
                | None -> ""
                | Some i when tagged -> Printf.sprintf "counting clauses fail at group %d: overlapping first opens why=concurrent-first-open" i
                | Some i -> Printf.sprintf "overlapping calls violate CachedProducerSpec.conc_ok (counting clauses) at group %d" i) }
    end else begin
      let ops = List.map (function Seq o -> o | Par _ -> failwith "par") items in
      let by_name = List.for_all by_name_op ops in
      let impl_trace =
        (try
          if List.length impl_groups <> List.length ops then None else
          Some (List.map2 (fun o g -> match g with
            | [r; e] -> (match parse_res r with Some r -> ((o, r), parse_evs e) | None -> failwith "res")
            | _ -> failwith "group") ops impl_groups)
        with _ -> None) in
      (* histories with scripted underlying Close errors (CE): the trace specification does not
         know the op; the counting clauses (conc_ok) are evaluated instead *)
      let by_name_ce = List.for_all (fun o -> by_name_op o || (match o with CCloseE _ -> true | _ -> false)) ops in
      let spec_ok = if by_name then
          (match impl_trace with None -> Some false | Some tr -> Some (trace_ok tr && conc_ok (List.rev !igroups) && !iok))
        else if by_name_ce then Some (!iok && conc_ok (List.rev !igroups)) else None in
      { default_verdict with
        model_obs = tokens model_s;
        spec_ok = spec_ok;
        model_spec_ok = (if by_name then trace_ok (List.rev !mtrace) && conc_ok (List.rev !mgroups)
                         else if by_name_ce then conc_ok (List.rev !mgroups) else true);
        nontrivial = List.exists (fun ((_, _), ev) -> List.exists (function UClose _ -> true | _ -> false) ev) !mtrace;
        note = (match spec_ok with Some false -> "trace violates CachedProducerSpec.trace_ok / conc_ok" | _ -> "") }
    end
  | _ -> failwith "bad case"

let () = run eval
