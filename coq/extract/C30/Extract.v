From Coq Require Import ExtrOcamlBasic NArith ZArith List.
From LV Require Import lib.Conv model.Semaphore spec.SemaphoreSpec model.SemaphoreStream.
Extraction "model.ml" conv_roots simulate spec_check digest_of accept simulate_stream.
