(* C30 driver.  Input: capNum capSize ; A t id wn ws timeout ; T t wn ws ; R t wn ws ; X t ; P t
   (times in quarter units q).  Impl obs: one token per op in script order (see harness c30.go),
   optionally preceded by LATE.
   model_obs  = the extracted scheduler [simulate true] over [step], rendered in the same format;
                a return time q of the implementation is accepted when it lies in [tau, tau+1]
                for the model's instant tau (then the implementation's token is echoed),
                it is indeterminate when it lies in [tau+2, tau+5], and a difference otherwise.
   spec_ok    = [spec_check] (spec/SemaphoreSpec.v) on the implementation's observation.
   No model logic here: parsing, rendering, the tolerance rule. *)
open Model
open Conv
open Drv

let metric n s = { mnum = n_of_tok n; msize = n_of_tok s }
let mtok m = tok_of_n m.mnum ^ "/" ^ tok_of_n m.msize

let parse_ops groups =
  List.map (fun g -> match g with
    | ["A"; t; id; wn; ws; timeout] -> (z_of_tok t, SAcq (n_of_tok id, metric wn ws, z_of_tok timeout))
    | ["T"; t; wn; ws] -> (z_of_tok t, STry (metric wn ws))
    | ["R"; t; wn; ws] -> (z_of_tok t, SRel (metric wn ws))
    | ["X"; t] -> (z_of_tok t, STerm)
    | ["P"; t] -> (z_of_tok t, SProc)
    | _ -> failwith "bad op") groups

(* render a chronological sobs list as per-op tokens; rets: id -> (ok, t) *)
let rets_of ob = List.fold_left (fun acc o -> match o with BRet (id, ok, t) -> (tok_of_n id, (ok, zz_of_z t)) :: acc | _ -> acc) [] ob
let render sc ob =
  let rets = rets_of ob in
  let rest = ref (List.filter (fun o -> match o with BRet _ | BNever _ -> false | _ -> true) ob) in
  let pop () = match !rest with x :: r -> rest := r; Some x | [] -> None in
  let peek () = match !rest with x :: _ -> Some x | [] -> None in
  List.map (fun (_, op) -> match op with
    | SAcq (id, _, _) ->
      (match List.assoc_opt (tok_of_n id) rets with
       | Some (ok, t) -> `Ret (ok, t)
       | None -> `Tok "never")
    | STry _ -> (match pop () with Some (BTry ok) -> `Tok ("t" ^ tok_of_bool ok) | _ -> `Tok "?")
    | SRel _ ->
      (match peek () with
       | Some (BWarn (h, w)) -> ignore (pop ()); ignore (pop ()); `Tok ("w" ^ mtok h ^ "/" ^ mtok w)
       | Some BRelDone -> ignore (pop ()); `Tok "-"
       | _ -> `Tok "?")
    | STerm -> `Tok "x"
    | SProc -> (match pop () with Some (BProc m) -> `Tok ("p" ^ mtok m) | _ -> `Tok "?")) sc

let parse_ret tok =
  (* r<0|1>@<q> *)
  if String.length tok > 3 && tok.[0] = 'r' && tok.[2] = '@' then
    Some (tok.[1] = '1', ZA.of_string (String.sub tok 3 (String.length tok - 3)))
  else None

let eval inp obs =
  let groups = split_on ";" inp in
  let cap, ops = (match groups with [cn; cs] :: r -> metric cn cs, parse_ops r | _ -> failwith "bad header") in
  let late, obs' = (match obs with "LATE" :: r -> true, r | _ -> false, obs) in
  if List.length obs' <> List.length ops then
    { default_verdict with model_obs = ["?"]; spec_ok = Some (List.mem "PANIC" obs = false && false); note = "obs length" }
  else begin
    let pairs = List.combine ops obs' in
    (* ids the implementation granted run first among the woken goroutines *)
    let prefer = List.concat (List.map (fun ((_, op), tok) -> match op, parse_ret tok with
      | SAcq (id, _, _), Some (true, _) -> [id] | _ -> []) pairs) in
    let (_, mob) = simulate true cap prefer ops in
    let mr = render ops mob in
    let indet = ref late in
    let blocked = ref false in
    (* instants known without the model: scripted calls and deadlines *)
    let instants = List.concat (List.map (fun (t, op) -> match op with
      | SAcq (_, _, timeout) -> [zz_of_z t; ZA.add (zz_of_z t) (zz_of_z timeout)] | _ -> [zz_of_z t]) ops) in
    let snap q = (* the instant tau with q in [tau, tau+1], else q itself *)
      match List.filter (fun tau -> ZA.equal q tau || ZA.equal q (ZA.succ tau)) instants with
      | tau :: _ -> tau | [] -> q in
    let model_toks = List.map2 (fun m ((t, _), itok) -> match m with
      | `Tok s -> s
      | `Ret (ok, tau) ->
        if not (ZA.equal tau (zz_of_z t)) then blocked := true;
        (match parse_ret itok with
         | Some (iok, q) when iok = ok ->
           let d = ZA.to_int (ZA.sub q tau) in
           if d = 0 || d = 1 then itok
           else begin (if d >= 2 && d <= 5 then indet := true); Printf.sprintf "r%s@%s" (tok_of_bool ok) (ZA.to_string tau) end
         | _ -> Printf.sprintf "r%s@%s" (tok_of_bool ok) (ZA.to_string tau))) mr pairs in
    (* digest of the implementation's observation *)
    let rets = List.concat (List.map2 (fun m ((_, op), itok) -> match op, parse_ret itok with
      | SAcq (id, _, _), Some (ok, q) ->
        let tau = (match m with
          | `Ret (mok, mt) when mok = ok && (ZA.equal q mt || ZA.equal q (ZA.succ mt)) -> mt
          | _ ->
            (* not on an instant but 2..5 q after one: too late to call on time, too early to call late -
               indeterminate for the acceptor as well as for the model comparison *)
            if ZA.equal (snap q) q && List.exists (fun tau -> let d = ZA.to_int (ZA.sub q tau) in d >= 2 && d <= 5) instants
            then indet := true;
            snap q) in
        [(id, (ok, z_of_zz tau))]
      | _ -> []) mr pairs) in
    let bad = ref false in
    let tries = List.concat (List.map (fun ((_, op), tok) -> match op with
      | STry _ -> [tok = "t1"] | _ -> []) pairs) in
    let parse_warn tok = (* w<hn>/<hs>/<wn>/<ws> *)
      if tok = "-" then None else
      match String.split_on_char '/' (String.sub tok 1 (String.length tok - 1)) with
      | [a; b; c; d] when tok.[0] = 'w' -> (try Some (metric a b, metric c d) with _ -> bad := true; None)
      | _ -> bad := true; None in
    let rels = List.concat (List.map (fun ((_, op), tok) -> match op with
      | SRel _ -> [parse_warn tok] | _ -> []) pairs) in
    let procs = List.concat (List.map (fun ((_, op), tok) -> match op with
      | SProc -> (match String.split_on_char '/' (String.sub tok 1 (String.length tok - 1)) with
                  | [a; b] when tok.[0] = 'p' -> [metric a b] | _ -> bad := true; [])
      | _ -> []) pairs) in
    let dg = { d_rets = rets; d_tries = tries; d_rels = rels; d_procs = procs } in
    let spec_impl = (not !bad) && spec_check cap ops dg in
    (* model vs spec: the scheduler's own stream (proved accepted: C30_model_meets_spec) and its per-call digest *)
    let spec_model = accept cap (simulate_stream cap prefer ops) && spec_check cap ops (digest_of mob) in
    { model_obs = (if late then "LATE" :: model_toks else model_toks);
      spec_ok = Some spec_impl; model_spec_ok = spec_model;
      nontrivial = !blocked; indeterminate = !indet; note = "" }
  end

let () = run eval
