(* Conversion layer between the extracted Coq datatypes (kept as Coq datatypes: positive,
   N, Z, nat) and OCaml/Zarith values, plus the line-based case-file helpers.
   Compiled after model.ml in every property's build dir. Contains no model logic. *)
module ZA = Z   (* Zarith; the extracted Model may define its own module Z (Coq's BinInt.Z) *)
open Model

let rec z_of_pos (p : positive) : ZA.t =
  match p with
  | XH -> ZA.one
  | XO q -> ZA.shift_left (z_of_pos q) 1
  | XI q -> ZA.succ (ZA.shift_left (z_of_pos q) 1)

let rec pos_of_z (z : ZA.t) : positive =
  if ZA.equal z ZA.one then XH
  else if ZA.is_even z then XO (pos_of_z (ZA.shift_right z 1))
  else XI (pos_of_z (ZA.shift_right z 1))

let z_of_n (n : n) : ZA.t = match n with N0 -> ZA.zero | Npos p -> z_of_pos p
let n_of_z (z : ZA.t) : n =
  if ZA.sign z < 0 then failwith "n_of_z: negative" else
  if ZA.sign z = 0 then N0 else Npos (pos_of_z z)

let zz_of_z (x : z) : ZA.t =
  match x with Z0 -> ZA.zero | Zpos p -> z_of_pos p | Zneg p -> ZA.neg (z_of_pos p)
let z_of_zz (z : ZA.t) : z =
  if ZA.sign z = 0 then Z0 else if ZA.sign z > 0 then Zpos (pos_of_z z) else Zneg (pos_of_z (ZA.neg z))

let rec int_of_nat (n : nat) : int = match n with O -> 0 | S m -> 1 + int_of_nat m
let rec nat_of_int (i : int) : nat = if i <= 0 then O else S (nat_of_int (i - 1))

(* token-level conversions: decimal for numbers, hex for byte strings ("-" = empty, "~" = nil) *)
let n_of_tok (s : string) : n = n_of_z (ZA.of_string s)
let tok_of_n (n : n) : string = ZA.to_string (z_of_n n)
let z_of_tok (s : string) : z = z_of_zz (ZA.of_string s)
let tok_of_z (x : z) : string = ZA.to_string (zz_of_z x)
let nat_of_tok (s : string) : nat = nat_of_int (int_of_string s)
let tok_of_nat (n : nat) : string = string_of_int (int_of_nat n)
let bool_of_tok (s : string) : bool = (s = "1" || s = "true" || s = "T")
let tok_of_bool (b : bool) : string = if b then "1" else "0"

let bytes_of_hex (s : string) : n list =
  if s = "-" || s = "~" then [] else begin
    let len = String.length s in
    if len mod 2 <> 0 then failwith ("odd hex: " ^ s);
    let rec go i acc =
      if i < 0 then acc
      else go (i - 2) (n_of_z (ZA.of_int (int_of_string ("0x" ^ String.sub s i 2))) :: acc)
    in go (len - 2) []
  end
let hex_of_bytes (l : n list) : string =
  if l = [] then "-" else
  String.concat "" (List.map (fun b -> Printf.sprintf "%02x" (ZA.to_int (z_of_n b))) l)

let split_on (sep : string) (toks : string list) : string list list =
  let rec go cur acc = function
    | [] -> List.rev (List.rev cur :: acc)
    | t :: r when t = sep -> go [] (List.rev cur :: acc) r
    | t :: r -> go (t :: cur) acc r
  in go [] [] toks

let tokens (line : string) : string list =
  List.filter (fun s -> s <> "") (String.split_on_char ' ' (String.trim line))
