(* Generic correspondence loop.  A case file has one case per line:
     CASE <id> <input tokens> | <implementation observation tokens>
   (lines starting with '#' or "STAT" are ignored here).  The property's driver supplies
     eval : string list (*input*) -> string list (*impl obs*) -> verdict
   and this loop prints one line per disagreement and a summary:
     DIFF <id> impl_vs_model|impl_vs_spec|model_vs_spec <detail>
     SUMMARY cases=<n> agree=<n> diff_model=<n> diff_spec=<n> diff_ms=<n> nontrivial=<n> distinct=<n> indeterminate=<n>
   exit code 0 iff no DIFF. *)
type verdict = {
  model_obs : string list;          (* what the extracted model computes for the input *)
  spec_ok : bool option;            (* Some false: the executable specification (the theorem's
                                       right-hand side) evaluated on the implementation's
                                       observation does not hold = property fails on impl *)
  model_spec_ok : bool;             (* the same on the model's own output (guards partial proofs) *)
  nontrivial : bool;                (* the case reached the mechanism of interest *)
  indeterminate : bool;             (* timing too close to a threshold: not compared *)
  note : string;
}

let default_verdict = { model_obs = []; spec_ok = None; model_spec_ok = true;
                        nontrivial = true; indeterminate = false; note = "" }

let run (eval : string list -> string list -> verdict) : unit =
  let file = if Array.length Sys.argv > 1 then Sys.argv.(1) else failwith "usage: modelrun <cases>" in
  let ic = open_in file in
  let cases = ref 0 and agree = ref 0 and dm = ref 0 and ds = ref 0 and dms = ref 0
  and nt = ref 0 and indet = ref 0 in
  let seen = Hashtbl.create 1024 in
  (try
    while true do
      let line = input_line ic in
      match Conv.tokens line with
      | "CASE" :: id :: rest ->
        incr cases;
        let parts = Conv.split_on "|" rest in
        let inp, obs = (match parts with
          | [a; b] -> a, b
          | [a] -> a, []
          | a :: b -> a, List.concat (List.tl (a :: b))
          | [] -> [], []) in
        let v = (try eval inp obs with e ->
          { default_verdict with model_obs = ["EXN"; Printexc.to_string e]; nontrivial = false }) in
        let key = String.concat " " inp in
        let fresh = not (Hashtbl.mem seen key) in
        if fresh then Hashtbl.add seen key ();
        if v.indeterminate then incr indet
        else begin
          let ok_m = (v.model_obs = obs) in
          let ok_s = (match v.spec_ok with Some false -> false | _ -> true) in
          if not ok_s then begin incr ds;
            Printf.printf "DIFF %s impl_vs_spec input=[%s] impl=[%s] %s\n" id key (String.concat " " obs) v.note end;
          if not ok_m then begin incr dm;
            Printf.printf "DIFF %s impl_vs_model input=[%s] impl=[%s] model=[%s] %s\n" id key
              (String.concat " " obs) (String.concat " " v.model_obs) v.note end;
          if not v.model_spec_ok then begin incr dms;
            Printf.printf "DIFF %s model_vs_spec input=[%s] model=[%s] %s\n" id key (String.concat " " v.model_obs) v.note end;
          if ok_m && ok_s && v.model_spec_ok then incr agree;
          if v.nontrivial && fresh then incr nt
        end
      | _ -> ()
    done
  with End_of_file -> close_in ic);
  Printf.printf "SUMMARY cases=%d agree=%d diff_model=%d diff_spec=%d diff_ms=%d nontrivial=%d distinct=%d indeterminate=%d\n"
    !cases !agree !dm !ds !dms !nt (Hashtbl.length seen) !indet;
  exit (if !dm + !ds + !dms = 0 then 0 else 1)
