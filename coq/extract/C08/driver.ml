let () = Abft_drv.main "C08"
