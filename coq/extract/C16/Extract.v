From Coq Require Import ExtrOcamlBasic NArith ZArith List.
From LV Require Import lib.Conv model.Fetcher spec.FetcherSpec model.FetcherSim model.Workers.
Extraction "model.ml" conv_roots step init pass_margin keys_now fetching_ids announcers timer_due timer_chan
  spec_check simulate_fetcher wk_check.
