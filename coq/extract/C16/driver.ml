(* C16 driver: trace validation.  The implementation's observation is the log of what the
   fetcher loop did (harness c16.go).  The extracted [step] is replayed on the OBSERVED events
   with the OBSERVED times and oracle answers, and must produce: the key list every timer pass
   asked about (LRU order), every request (peer, ids), and a timer state that explains when the
   next pass happened (armed/due, stale channel value) and that no pass is missing at the end.
   Token i of model_obs echoes token i of the observation when the model agrees with it and is
   a "!..." token otherwise; missing requests / passes are appended.
   Time tolerances (ms): a comparison inside a pass closer than [tol] to its threshold, or a pass
   later than [ok_late] (but within [grey_late]) after its due time => indeterminate.
   spec_ok = spec/FetcherSpec.spec_check on the observation (requests attributed to the loop
   event that issued them).  No model logic here. *)
open Model
open Conv
open Drv

let unit_ms = 40
let tol = 10 and ok_late = 15 and grey_late = 70 and req_window = 80

type op = ON of int * int * int list | OR of int list | OI of int * bool | OS of bool | OE
(* ON (peer, off, ids); the script time of op k is optime.(k) *)
type ent =
  | A of int * int * int | N of int * int * int list * string | P of int * int list * int list
  | R of int * int | RS of int * int | Q of int * int * int list | I of int * int * bool | S of int * bool | E of int

let ids_of s = if s = "-" || s = "" then [] else List.map int_of_string (String.split_on_char ',' s)
let tok_ids l = if l = [] then "-" else String.concat "," (List.map string_of_int l)
let nn i = n_of_z (ZA.of_int i)
let zz i = z_of_zz (ZA.of_int i)
let int_of_n x = ZA.to_int (z_of_n x)
let int_of_zc x = ZA.to_int (zz_of_z x)

let op_time g = match g with _ :: t :: _ -> int_of_string t | _ -> 0
let parse_ops groups = Array.of_list (List.map (fun g -> match g with
  | ["N"; _; peer; off; ids] -> ON (int_of_string peer, int_of_string off, ids_of ids)
  | ["R"; _; ids] -> OR (ids_of ids)
  | ["I"; _; id; b] -> OI (int_of_string id, b = "1")
  | ["S"; _; b] -> OS (b = "1")
  | ["E"; _] -> OE
  | _ -> failwith "bad op") groups)

let parse_ent tok = match String.split_on_char ':' tok with
  | ["a"; t; k; at] -> A (int_of_string t, int_of_string k, int_of_string at)
  | ["n"; t; k; ids; s] -> N (int_of_string t, int_of_string k, ids_of ids, s)
  | ["p"; t; all; ids] -> P (int_of_string t, ids_of all, ids_of ids)
  | ["r"; t; k] -> R (int_of_string t, int_of_string k)
  | ["rs"; t; k] -> RS (int_of_string t, int_of_string k)
  | ["q"; t; peer; ids] -> Q (int_of_string t, int_of_string peer, ids_of ids)
  | ["i"; t; id; b] -> I (int_of_string t, int_of_string id, b = "1")
  | ["s"; t; b] -> S (int_of_string t, b = "1")
  | ["e"; t] -> E (int_of_string t)
  | _ -> failwith ("bad obs token " ^ tok)

let eval_fetcher inp obs =
  let groups = split_on ";" inp in
  let hl, mb, ops, optime = (match groups with
    | [h] :: r -> int_of_string h, 99, parse_ops r, Array.of_list (List.map op_time r)
    | [h; m] :: r -> int_of_string h, int_of_string m, parse_ops r, Array.of_list (List.map op_time r)
    | [h; m; _; _] :: r -> int_of_string h, int_of_string m, parse_ops r, Array.of_list (List.map op_time r)
    | _ -> failwith "bad header") in
  (* the j-th batch of an announcement: mb real ids each *)
  let rec chunks l = if l = [] then [] else
    let rec take n l = if n = 0 then [], l else match l with [] -> [], [] | x :: r -> let a, b = take (n - 1) r in x :: a, b in
    let a, b = take mb l in a :: chunks b in
  let rec rchunks l = if l = [] then [] else
    let rec take n l = if n = 0 then [], l else match l with [] -> [], [] | x :: r -> let a, b = take (n - 1) r in x :: a, b in
    let a, b = take (mb + 1) l in a :: rchunks b in
  let in_flight = ref false in
  let seen_chunks = Hashtbl.create 8 in
  let late, obs = (match obs with "LATE" :: r -> true, r | _ -> false, obs) in
  let ents = Array.of_list (List.map parse_ent obs) in
  let toks = Array.of_list obs in
  let n = Array.length ents in
  let cfg = { c_arrive = zz (8 * unit_ms); c_arrive8 = zz unit_ms; c_slack = zz (unit_ms * 3 / 2);
              c_forget = zz (40 * unit_ms + unit_ms / 2); c_hash_limit = nn hl;
              c_max_checks = nat_of_int (hl / 32) } in
  let indet = ref late and nontrivial = ref false in
  let st = ref (init (zz 0)) in
  let chan_since = ref 0 in
  let atimes = Hashtbl.create 8 in
  (* predicted requests: (event index, t_event, peer, ids, matched) *)
  let pending = ref [] in
  let out = Array.make n "" in
  let extra = ref [] in
  (* spec log pieces: per obs index, the entries to emit (requests attributed to events go there) *)
  let slog = Array.make n [] in
  let next_loop_event i = (* next N/P/R entry after i *)
    let rec go j = if j >= n then None else match ents.(j) with N _ | P _ | R _ | RS _ -> Some ents.(j) | _ -> go (j + 1) in go (i + 1) in
  let next_pass_time i =
    let rec go j = if j >= n then None else match ents.(j) with P (t, _, _) -> Some t | _ -> go (j + 1) in go (i + 1) in
  let do_step t ev = let (s', rq) = step true cfg !st (zz t) ev in st := s'; rq in
  let tick t = (match timer_due !st with
    | Some due -> chan_since := min t (int_of_zc due); ignore (do_step (max t (int_of_zc due)) ETick)
    | None -> ()) in
  (* choose the map-iteration oracle of rescheduleFetch so that the due time explains the next pass *)
  let with_scan i t mk =
    let base = !st in
    let (s0, rq0) = step true cfg base (zz t) (mk []) in
    let k = hl / 32 + 1 in
    let fids = fetching_ids s0 in
    if List.length fids <= k then (st := s0; rq0)
    else begin
      match next_pass_time i with
      | None ->
        (* no later pass was observed: the map order that gives the latest due time is the one
           that asks least of the implementation *)
        let best = ref (s0, rq0) in
        let due_of s = (match timer_due s with Some d -> int_of_zc d | None -> min_int) in
        List.iter (fun x ->
          let (s1, rq1) = step true cfg base (zz t) (mk [x]) in
          if due_of s1 > due_of (fst !best) then best := (s1, rq1)) fids;
        st := fst !best; snd !best
      | Some tp ->
        let best = ref (s0, rq0) and bestd = ref max_int in
        List.iter (fun x ->
          let (s1, rq1) = step true cfg base (zz t) (mk [x]) in
          match timer_due s1 with
          | Some due -> let d = tp - int_of_zc due in
            if d >= -1 && d < !bestd then (bestd := d; best := (s1, rq1))
          | None -> ()) fids;
        st := fst !best; snd !best
    end in
  let add_pending i t rq = List.iter (fun (p, ids) ->
    pending := !pending @ [ (i, t, int_of_n p, List.map int_of_n ids, ref false) ]) rq in
  Array.iteri (fun i e ->
    match e with
    | A (_, k, at) -> Hashtbl.replace atimes k at; out.(i) <- toks.(i)
    | RS (_, _) -> in_flight := true; out.(i) <- toks.(i)
    | I (t, id, b) -> out.(i) <- toks.(i); if not b then slog.(i) <- [LUninterest (zz t, nn id)]
    | S (t, b) -> out.(i) <- toks.(i); if not b then slog.(i) <- [LUnsuspend (zz t)]
    | N (t, k, ints, s) ->
      (match ops.(k) with
       | ON (peer, _, all_ids) ->
         let j = (try Hashtbl.find seen_chunks k with Not_found -> 0) in
         Hashtbl.replace seen_chunks k (j + 1);
         let ids = (try List.nth (chunks all_ids) j with _ -> []) in
         let at = (try Hashtbl.find atimes k with Not_found -> 0) in
         (* has the timer already put its value into the channel?  (matters because Reset does not drain) *)
         (match timer_due !st with
          | Some due ->
            let due = int_of_zc due in
            if due <= t - tol then tick t
            else if due <= t + tol then
              (match next_loop_event i with Some (P (tp, _, _)) when tp <= t + ok_late -> tick t | _ -> ())
          | None -> ());
         let bad = (s = "-" && ints <> []) || (s <> "-" && ints = []) || List.exists (fun x -> not (List.mem x ids)) ints in
         let rq = with_scan i t (fun scan ->
           ENotify (nn peer, List.map nn ids, zz at, List.map nn ints, (s = "1"), List.map (fun x -> x) scan)) in
         add_pending i t rq;
         slog.(i) <- [LNotify (zz t, nn peer, zz at, List.map nn (List.filter (fun x -> List.mem x ids) ints))];
         out.(i) <- if bad then "n:!inconsistent" else toks.(i)
       | _ -> out.(i) <- "n:!not-a-notification")
    | R (t, k) ->
      (match ops.(k) with
       | OR ids ->
         (* NotifyReceived hands the report over in batches of MaxBatch ids: one loop event each *)
         in_flight := false;
         List.iter (fun ch -> ignore (do_step t (EReceived (List.map nn ch)))) (rchunks ids);
         slog.(i) <- [LRecv (zz t, List.map nn ids)]; out.(i) <- toks.(i)
       | _ -> out.(i) <- "r:!not-a-received")
    | P (t, all, ints) ->
      slog.(i) <- [LPass (zz t, List.map nn all, List.map nn ints)];
      (* a pass taken while a split received report is still being handed over: how many of its batches
         the loop had taken is not observable *)
      if !in_flight then indet := true;
      (* the loop reads the clock a little before the harness stamps the callback, so the real
         due time may be slightly earlier than the model's *)
      (match timer_due !st with
       | Some due when int_of_zc due <= t + tol -> tick t
       | Some due when int_of_zc due <= t + 3 * tol -> indet := true; tick t
       | _ -> ());
      if not (timer_chan !st) then
        out.(i) <- Printf.sprintf "p:!unexpected(model-timer:%s)"
          (match timer_due !st with Some d -> "due=" ^ string_of_int (int_of_zc d) | None -> "dead")
      else begin
        let lateness = t - !chan_since in
        if lateness > grey_late then out.(i) <- Printf.sprintf "p:!late(due=%d)" !chan_since
        else begin
          if lateness > ok_late then indet := true;
          let mall = List.map int_of_n (keys_now !st) in
          if int_of_zc (pass_margin cfg !st (zz t) (List.map nn ints)) < tol then indet := true;
          (* the peer drawn by rand.Intn, read off the requests that follow *)
          let choice = List.concat (List.map (fun id ->
            let rec find j = if j >= n then [] else match ents.(j) with
              | Q (tq, peer, ids) when tq <= t + req_window && List.mem id ids ->
                let anns = List.map int_of_n (announcers (nn id) !st) in
                let rec index k = function [] -> 0 | x :: r -> if x = peer then k else index (k + 1) r in
                [ (nn id, nat_of_int (index 0 anns)) ]
              | Q (tq, _, _) when tq > t + req_window -> []
              | _ -> find (j + 1) in find (i + 1)) ints) in
          let rq = with_scan i t (fun scan -> ETimer (List.map nn ints, choice, scan)) in
          if rq <> [] then nontrivial := true;
          add_pending i t rq;
          out.(i) <- Printf.sprintf "p:%d:%s:%s" t (tok_ids mall) (tok_ids ints)
        end
      end
    | Q (t, peer, ids) ->
      (match List.find_opt (fun (_, te, p, l, m) -> not !m && p = peer && l = ids && te <= t + 1) !pending with
       | Some (j, te, _, _, m) -> m := true; out.(i) <- toks.(i);
         slog.(j) <- slog.(j) @ [LReq (zz (max t te), nn peer, List.map nn ids)]
       | None -> out.(i) <- Printf.sprintf "q:!unexpected:%d:%s" peer (tok_ids ids);
         slog.(i) <- [LReq (zz t, nn peer, List.map nn ids)])
    | E t ->
      out.(i) <- toks.(i); slog.(i) <- [LEnd (zz t)];
      List.iter (fun (_, te, p, l, m) -> if not !m then begin
        if te < t - req_window then extra := !extra @ [Printf.sprintf "q:!missing:%d:%d:%s" te p (tok_ids l)]
        else indet := true end) !pending;
      (* a pass the model owes by now *)
      if timer_chan !st && !chan_since < t - grey_late then
        extra := !extra @ [Printf.sprintf "p:!missing(due=%d)" !chan_since]
      else (match timer_due !st with
        | Some due when int_of_zc due < t - grey_late -> extra := !extra @ [Printf.sprintf "p:!missing(due=%d)" (int_of_zc due)]
        | Some due when int_of_zc due <= t -> indet := true
        | _ -> if timer_chan !st then indet := true)
  ) ents;
  let model_toks = Array.to_list out @ !extra in
  (* a pass so close to the end that its requests may not all have been logged yet: the random
     peer choice cannot be read off reliably, so a difference there proves nothing *)
  let t_end = Array.fold_left (fun a e -> match e with E t -> t | _ -> a) max_int ents in
  let tail_pass = Array.exists (fun e -> match e with P (t, _, _) -> t > t_end - req_window | _ -> false) ents in
  if tail_pass && model_toks <> obs then indet := true;
  let log = List.concat (Array.to_list slog) in
  let bound = zz (2 * 8 * unit_ms + unit_ms) in
  let spec_impl = spec_check cfg.c_forget bound (nn hl) log in
  (* model vs spec: the log the model produces for this script with an ideal runtime *)
  let fscript = List.concat (Array.to_list (Array.mapi (fun k o ->
    let t = optime.(k) * unit_ms in
    match o with
    | ON (peer, off, ids) -> List.map (fun ch -> (zz t, FNotify (nn peer, List.map nn ch, zz (t - off * unit_ms)))) (chunks ids)
    | OR ids -> List.map (fun ch -> (zz t, FReceived (List.map nn ch))) (rchunks ids)
    | OI (id, b) -> [(zz t, FInterest (nn id, b))]
    | OS b -> [(zz t, FSuspend b)]
    | OE -> [(zz t, FEnd)]) ops)) in
  let spec_model = spec_check cfg.c_forget bound (nn hl) (simulate_fetcher cfg (nat_of_int 200) fscript) in
  { model_obs = (if late then "LATE" :: model_toks else model_toks);
    spec_ok = Some spec_impl; model_spec_ok = spec_model;
    nontrivial = !nontrivial; indeterminate = !indet; note = "" }

(* worker-pool cases: W nWorkers cap ; E id ; Q ; D ; S ...   obs: e<id>:<ok>:<afterq>:<runs> ... late<b>
   The pool is nondeterministic (select between ready cases), so the observation is not replayed; it is
   judged by the executable check wk_check (model/Workers.v): at most one run per closure, no run for a
   refused Enqueue, refusal only after close(quit), nothing after wg.Wait() returned. *)
let eval_workers inp obs =
  let parsed = List.filter_map (fun tok ->
    if String.length tok > 1 && tok.[0] = 'e' then
      (match String.split_on_char ':' (String.sub tok 1 (String.length tok - 1)) with
       | [id; ok; aq; runs] -> Some (nn (int_of_string id), ok = "1", aq = "1", int_of_string runs)
       | _ -> None)
    else None) obs in
  let late = List.mem "late1" obs in
  let wellformed = List.exists (fun t -> t = "late0" || t = "late1") obs in
  let runs = List.map (fun (id, _, _, r) -> (id, nat_of_int r)) parsed in
  let enq = List.map (fun (id, ok, aq, _) -> (id, (ok, aq))) parsed in
  let ok = wellformed && wk_check runs enq late in
  { default_verdict with model_obs = obs; spec_ok = Some ok; model_spec_ok = true;
    nontrivial = List.exists (fun (_, _, aq, _) -> aq) parsed }

let eval inp obs = match inp with "W" :: _ -> eval_workers inp obs | _ -> eval_fetcher inp obs

let () = run eval
