(* C13 driver.  Input (see harness/cmd/vh/c13.go):
     V cur nv val* epoch seq frame creator lamport nid id* np (pepoch plamport ptail pcreator pseq)*
   Observation: four result codes (Checkers.Validate, basiccheck, epochcheck, parentscheck).
   model side: the extracted checkers; the id of a parent is the C32 event-id layout
   (epoch(4) lamport(4) tail(24), big endian) read as a number.
   spec side: [answer_ok_gen] (spec/EventCheckSpec.v; C13_answer_ok_gen_unique) on the implementation's
   combined answer for EVERY case, and additionally [answer_ok] (the property's sentence proper) when
   the parents passed are the ones named by the id list. *)
open Model
open Conv
open Drv

let result_of_code = function
  | "0" -> Some Ok
  | "1" -> Some (Err HugeValue) | "2" -> Some (Err NotInited) | "3" -> Some (Err NoParents)
  | "4" -> Some (Err DoubleParents) | "5" -> Some (Err NotRelevant) | "6" -> Some (Err Auth)
  | "7" -> Some (Err WrongLamport) | "8" -> Some (Err WrongSelfParent) | "9" -> Some (Err WrongSeq)
  | "10" -> Some (Err PanicLen)
  | _ -> None

let code r = tok_of_n (result_code r)

let eval_one inp obs =
  (* VN<mask>: bit 1 = Checkers.Basiccheck nil, bit 2 = Checkers.Parentscheck nil (both are empty
     structs whose methods never touch the receiver: same answers), bit 4 = the Reader returns nil
     validators (model: validate_opt ... None; code 12 = the nil dereference) *)
  let mask, inp = (match inp with
    | t :: rest when String.length t > 2 && String.sub t 0 2 = "VN" ->
      int_of_string (String.sub t 2 (String.length t - 2)), "V" :: rest
    | _ -> 0, inp) in
  let nilvals = mask land 4 <> 0 in
  match inp with
  | "V" :: rest ->
    let q = ref rest in
    let next () = match !q with x :: r -> q := r; x | [] -> failwith "short input" in
    let num () = n_of_tok (next ()) in
    let cnt () = int_of_string (next ()) in
    let rec times k f = if k <= 0 then [] else let x = f () in x :: times (k - 1) f in
    let cur = num () in
    let nv = cnt () in
    let vals = times nv num in
    let epoch = num () in let seq = num () in let frame = num () in
    let creator = num () in let lamport = num () in
    let nid = cnt () in
    let ids = times nid num in
    let np = cnt () in
    let ps = times np (fun () ->
      let pe = num () in let pl = num () in let pt = num () in
      let pc = num () in let psq = num () in
      let id = unbe (event_id pe pl (be (nat_of_int 24) pt)) in
      { p_id = id; p_creator = pc; p_seq = psq; p_lamport = pl }) in
    let e = { e_epoch = epoch; e_seq = seq; e_frame = frame; e_creator = creator;
              e_lamport = lamport; e_parents = ids } in
    let m_all = validate cur vals e ps in
    let ocode = function Some r -> code r | None -> "12" in
    let model_obs =
      if nilvals then [ocode (validate_opt cur None e ps); code (basic_validate e);
                       ocode (epoch_validate_opt cur None e); code (parents_validate e ps)]
      else [code m_all; code (basic_validate e); code (epoch_validate cur vals e);
            code (parents_validate e ps)] in
    let consistent = (List.map (fun p -> p.p_id) ps = ids) in
    let spec_on r =
      if nilvals then None else   (* outside the Reader's contract: model comparison only *)
      Some (answer_ok_gen cur vals e ps r && (if consistent then answer_ok cur vals e ps r else true)) in
    let spec_ok = if nilvals then None else (match obs with
      | a :: _ -> (match result_of_code a with
                   | Some r -> spec_on r
                   | None -> Some false)
      | [] -> Some false) in
    let model_spec_ok = (match spec_on m_all with Some b -> b | None -> true) in
    ({ default_verdict with model_obs; spec_ok; model_spec_ok;
      nontrivial = true;
      note = (if consistent then "" else "(parents_of does not hold: general verdict only)") },
     (({ r_epoch = cur; r_vals = vals }, e), ps))
  | _ -> failwith "bad case"


let rec take k l = if k <= 0 then [] else match l with x :: r -> x :: take (k - 1) r | [] -> []
let rec drop k l = if k <= 0 then l else match l with _ :: r -> drop (k - 1) r | [] -> []

(* VH ; V.. ; V.. : a history over ONE Checkers object with a mutable Reader.  The combined answers of
   the model come from the extracted [run_history] (C13_history_pointwise); the per-step verdicts are
   the single-call ones. *)
let eval inp obs =
  match inp with
  | "VH" :: rest ->
    let steps = List.filter (fun l -> l <> []) (split_on ";" rest) in
    let rec go steps obs = match steps with
      | [] -> []
      | st :: r -> let o = take 4 obs in (eval_one st o, o) :: go r (drop 4 obs) in
    let rs = go steps obs in
    let hist = List.map (fun ((_, h), _) -> h) rs in
    let alls = run_history () hist in
    let model_obs = List.concat (List.map2 (fun ((v, _), _) a ->
        (match v.model_obs with _ :: tl -> code a :: tl | [] -> [])) rs alls) in
    let spec_ok =
      if List.length obs <> 4 * List.length steps then Some false
      else Some (List.for_all (fun ((v, _), _) -> v.spec_ok <> Some false) rs) in
    { default_verdict with model_obs; spec_ok;
      model_spec_ok = List.for_all (fun ((v, _), _) -> v.model_spec_ok) rs;
      nontrivial = List.length steps > 1 }
  | _ -> fst (eval_one inp obs)

let () = run eval
