From Coq Require Import ExtrOcamlBasic NArith List.
From LV Require Import lib.Conv lib.Bytes model.Codec model.EventCheck spec.EventCheckSpec.
Extraction "model.ml" conv_roots be unbe event_id
  validate run_history validate_opt epoch_validate_opt basic_validate epoch_validate parents_validate result_code
  answer_ok answer_ok_gen wf_event_b.
