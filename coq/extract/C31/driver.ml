(* C31 driver.  Input   F x1 y1 x2 y2 ... ; a1 a2 ...     (dots, then arguments; uint64 values)
   obs:  ERR toofew|nonmono|largeY|largeX     NewFunc panicked
       | r1 r2 ...                             f(a_i), PANIC if Get panicked
   model side: PieceFunc.new_func / get (every uint64 operation wrapped explicitly).
   spec side (PieceFuncSpec, unbounded Z): invalid lists are rejected, valid ones accepted, and
   every result satisfies the end / at-dot / between-neighbour clauses. *)
open Model
open Conv
open Drv

let rec dots_of = function
  | [] -> []
  | a :: b :: r -> (n_of_tok a, n_of_tok b) :: dots_of r
  | _ -> failwith "odd dot list"

let err_tok = function
  | TooFewDots -> "toofew" | NonMonotonicX -> "nonmono" | TooLargeY -> "largeY" | TooLargeX -> "largeX"

let eval inp obs =
  match split_on ";" inp with
  | [("F" :: d); xs] ->
    let dots = dots_of d in
    let xs = List.map n_of_tok xs in
    let model_obs = (match new_func dots with
      | Some e -> ["ERR"; err_tok e]
      | None -> List.map (fun x -> match get dots x with Some y -> tok_of_n y | None -> "PANIC") xs) in
    let spec o =
      if valid_dots dots then
        (match o with
         | "ERR" :: _ -> false
         | ys -> List.length ys = List.length xs
                 && List.for_all2 (fun x y -> y <> "PANIC" && get_ok dots x (n_of_tok y)) xs ys)
      else (match o with "ERR" :: _ -> true | _ -> false) in
    { default_verdict with model_obs; spec_ok = Some (spec obs); model_spec_ok = spec model_obs;
      nontrivial = (match obs with "ERR" :: _ -> true | _ -> List.length dots >= 2) }
  | _ -> failwith "bad case"

let () = run eval
