From Coq Require Import ExtrOcamlBasic NArith List.
From LV Require Import lib.Conv lib.WordArith model.PieceFunc spec.PieceFuncSpec.
Extraction "model.ml" conv_roots new_func get valid_dots get_ok.
