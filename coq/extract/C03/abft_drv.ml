(* Shared correspondence driver of the consensus cluster C02 C03 C04 C07 C08 C09.
   Parses a case (see harness/abfth/scenario.go), runs the extracted model (model/AbftRun.v
   [run]) on both op lists, prints its observation with the same tokens as the Go harness, and
   evaluates the extracted executable specification (spec/AbftSpec.v trace checkers; the
   projection equalities of C07/C08/C09) on the IMPLEMENTATION's observation.
   Contains parsing/printing/comparison only; no model logic. *)
open Model
open Conv
open Drv

let zpow2 k = Z.shift_left Z.one k
let tail_of i = n_of_z (Z.add (zpow2 191) (Z.of_int i))
let nz s = n_of_tok s
let rec pairs = function a :: b :: r -> (nz a, nz b) :: pairs r | _ -> []

type elem = Nodef of string | Mop of string * op        (* kind token (of an undefined group / of the op), model op *)

type case = {
  mix : string; fccap : nat; epoch0 : n; listen_mode : int; listen_n : int; vals0 : (n * n) list; pol : ((n * n) * (n * n) list) list;
  main : elem list; alt : elem list option;
  marker : (int * n * (n * n) list * string list) option;   (* C09: number of main elements before ALTFROM, its epoch and validators, its argument tokens *)
  main_toks : string list list; alt_toks : string list list;
  name_of : (string, int) Hashtbl.t; id_of : (int, n) Hashtbl.t;
}

let alt_groups (mix : string) (groups : string list list) : string list list option =
  let kind g = match g with k :: _ -> k | [] -> "" in
  match mix with
  | "C07" -> Some (List.filter (fun g -> kind g <> "b" && kind g <> "X" && kind g <> "Y") groups)
  | "C08" -> Some (List.filter (fun g -> kind g <> "R" && kind g <> "r") groups)
  | "C09" ->
    let rec split pre = function
      | [] -> None
      | g :: r when kind g = "ALTFROM" -> Some (List.rev pre, g, r)
      | g :: r -> split (g :: pre) r in
    (match split [] groups with
     | None -> None
     | Some (pre, m, post) ->
       Some (List.filter (fun g -> kind g = "E") pre @ [("RESET" :: List.tl m)] @ post))
  | _ -> None

let parse (inp : string list) : case =
  let groups = split_on ";" inp in
  let hdr = List.hd groups in
  let mix, fccap, epoch0 = (match hdr with
    | [m; fc; _; _; e] -> m, nat_of_tok fc, nz e
    | _ -> "?", nat_of_int 200, nz "1") in
  let name_of = Hashtbl.create 64 and id_of = Hashtbl.create 64 in
  let vals0 = ref [] and pol = ref [] in
  let lmode = ref 0 and ln = ref 0 in
  let body = List.filter (fun g -> match g with
    | [] -> false
    | "L" :: m :: k :: _ -> lmode := int_of_string m; ln := int_of_string k; false
    | "L" :: _ -> false
    | "V" :: r -> vals0 := pairs r; false
    | "S" :: ep :: blk :: r -> pol := ((nz ep, nz blk), pairs r) :: !pol; false
    | "S" :: _ -> false
    | _ -> true) (List.tl groups) in
  let elems_of (gs : string list list) : elem list * string list list =
    let defs : (int, aevent) Hashtbl.t = Hashtbl.create 64 in
    let lid : (int, n) Hashtbl.t = Hashtbl.create 64 in
    let els = ref [] and toks = ref [] in
    let push g e = els := e :: !els; toks := g :: !toks in
    let mk_ev n ep cr seq lam fr (ps : int list) : aevent option =
      if List.for_all (fun p -> Hashtbl.mem defs p) ps then
        Some { a_id = (if n >= 0 then mk_id ep lam (tail_of n) else N0); a_epoch = ep; a_creator = cr; a_seq = seq;
               a_lamport = lam; a_frame = fr; a_parents = List.map (fun p -> Hashtbl.find lid p) ps }
      else None in
    List.iter (fun g ->
      match g with
      | [] -> ()
      | "E" :: n :: ep :: cr :: seq :: lam :: fr :: ps ->
        let n = int_of_string n in
        if not (Hashtbl.mem defs n) then
          (match mk_ev n (nz ep) (nz cr) (nz seq) (nz lam) (nz fr) (List.map int_of_string ps) with
           | Some e -> Hashtbl.add defs n e; Hashtbl.add lid n e.a_id;
                       Hashtbl.replace id_of n e.a_id;
                       Hashtbl.replace name_of (Z.to_string (z_of_n e.a_id)) n
           | None -> ())
      | "E" :: _ -> ()
      | "ALTFROM" :: _ -> ()
      | ("P" | "X") as k :: n :: r ->
        (match Hashtbl.find_opt defs (int_of_string n) with
         | None -> push g (Nodef (List.hd g))
         | Some e ->
           let e = (match k, r with
             | "X", f :: _ -> { e with a_frame = nz f }
             | _ -> e) in
           push g (Mop (k, OpP e)))
      | "Y" :: n :: ep :: cr :: seq :: lam :: fr :: ps ->
        let n = int_of_string n in
        if Hashtbl.mem defs n then push g (Nodef (List.hd g)) else
        (match mk_ev n (nz ep) (nz cr) (nz seq) (nz lam) (nz fr) (List.map int_of_string ps) with
         | Some e ->
           if not (Hashtbl.mem name_of (Z.to_string (z_of_n e.a_id))) then
             Hashtbl.replace name_of (Z.to_string (z_of_n e.a_id)) n;
           push g (Mop ("Y", OpP e))
         | None -> push g (Nodef (List.hd g)))
      | ("B" | "b") as k :: ep :: cr :: seq :: lam :: ps ->
        (match mk_ev (-1) (nz ep) (nz cr) (nz seq) (nz lam) N0 (List.map int_of_string ps) with
         | Some e -> push g (Mop (k, OpB e))
         | None -> push g (Nodef (List.hd g)))
      | ["R"] -> push g (Mop ("R", OpR))
      | ["r"] -> push g (Mop ("R", OpR))
      | "RESET" :: ep :: r -> push g (Mop ("RESET", OpReset (nz ep, pairs r)))
      | ["M"; n] ->
        (match Hashtbl.find_opt lid (int_of_string n) with
         | Some id -> push g (Mop ("M", OpM id))
         | None -> push g (Nodef (List.hd g)))
      | ["G"; f] -> push g (Mop ("G", OpG (nz f)))
      | ["W"] -> push g (Mop ("W", OpV))
      | ["Q"; a; b] ->
        (match Hashtbl.find_opt lid (int_of_string a), Hashtbl.find_opt lid (int_of_string b) with
         | Some ia, Some ib -> push g (Mop ("Q", OpQ (ia, ib)))
         | _ -> push g (Nodef (List.hd g)))
      | _ -> push g (Nodef (List.hd g))) gs;
    (List.rev !els, List.rev !toks) in
  let main, main_toks = elems_of body in
  let alt, alt_toks = (match alt_groups mix body with
    | Some ag -> let a, t = elems_of ag in (Some a, t)
    | None -> (None, [])) in
  let marker = (if mix <> "C09" then None else
    let rec split pre = function
      | [] -> None
      | ("ALTFROM" :: ep :: r) :: _ -> Some (List.length (fst (elems_of (List.rev pre))), nz ep, pairs r, ep :: r)
      | g :: r -> split (g :: pre) r in
    split [] body) in
  { mix; marker; fccap; epoch0; listen_mode = !lmode; listen_n = !ln; vals0 = !vals0; pol = List.rev !pol; main; alt; main_toks; alt_toks; name_of; id_of }

(* ---------- printing model observations ---------- *)
let err_tok = function
  | EWrongFrame -> "wf" | EFork2Yes -> "crit:fork2yes" | EFork2Count -> "crit:fork2cnt"
  | EVoteMissing -> "crit:votemissing" | ENoQuorumPrev -> "crit:noquorumprev" | EAllNo -> "crit:allno"
  | ECrit -> "crit:crit" | EPanic -> "crit:panic" | EFuel -> "crit:fuel"
let err_of_tok = function
  | "wf" -> EWrongFrame | "crit:fork2yes" -> EFork2Yes | "crit:fork2cnt" -> EFork2Count
  | "crit:votemissing" -> EVoteMissing | "crit:noquorumprev" -> ENoQuorumPrev | "crit:allno" -> EAllNo
  | "crit:panic" -> EPanic | "crit:fuel" -> EFuel | _ -> ECrit
let is_fatal = function EWrongFrame -> false | _ -> true

let evname c id = match Hashtbl.find_opt c.name_of (Z.to_string (z_of_n id)) with
  | Some n -> string_of_int n | None -> "?" ^ Z.to_string (z_of_n id)
let listens mode n k = match mode with 1 -> k >= n | 2 -> k mod 2 = 1 | _ -> true
let block_counter = ref 0      (* blocks seen so far in the run being printed (application-lifetime counter) *)
let block_toks c (b : block) =
  incr block_counter;
  if c.listen_mode = 3 then [] else      (* the application has no BeginBlock: it is told nothing *)
  [ "A" ^ evname c b.b_atropos;
    "c" ^ String.concat "," (List.map tok_of_n b.b_cheaters);
    (if listens c.listen_mode c.listen_n !block_counter then "d" ^ String.concat "," (List.map (evname c) b.b_delivered) else "dX");
    (match b.b_seal with
     | None -> "-"
     | Some v -> "S" ^ String.concat "," (List.map (fun (i, w) -> tok_of_n i ^ ":" ^ tok_of_n w) v)) ]
let le ldf ep = ["l" ^ tok_of_n ldf; "e" ^ tok_of_n ep]

let obs_toks c (o : obs) : string list * bool (*dead*) =
  match o with
  | ObsSkip w -> ["s" ^ tok_of_n w], false
  | ObsP (r, bl, ldf, ep) ->
    let bt = List.concat_map (block_toks c) bl in
    (match r with
     | None -> ("ok" :: bt) @ le ldf ep, false
     | Some e -> if is_fatal e then (err_tok e :: bt), true else (err_tok e :: bt) @ le ldf ep, false)
  | ObsB (Ok f) -> ["f" ^ tok_of_n f], false
  | ObsB (Err e) -> [err_tok e], is_fatal e
  | ObsR (r, bl, ldf, ep) ->
    let bt = List.concat_map (block_toks c) bl in
    (match r with
     | None -> (("rok") :: bt) @ le ldf ep, false
     | Some e -> (("r" ^ err_tok e) :: bt), true)
  | ObsReset (ldf, ep) -> "zok" :: le ldf ep, false
  | ObsM cl -> "m" :: List.map (fun (f, s) -> if f then "F" else tok_of_n s) cl, false
  | ObsG rs -> "g" :: List.map (fun (v, id) -> tok_of_n v ^ ":" ^ evname c id) rs, false
  | ObsQ r -> [(if r then "q1" else "q0")], false
  | ObsV v -> "v" :: List.map (fun (i, w) -> tok_of_n i ^ ":" ^ tok_of_n w) v, false

(* run the model over one element list; returns one token group per element that produced output *)
let model_run c (smp : n -> n list option) (els : elem list) : string list list =
  block_counter := 0;
  let ops = List.filter_map (function Mop (_, o) -> Some o | Nodef _ -> None) els in
  (* listen mode 3: no BeginBlock, hence no EndBlock either: no sealing rule applies *)
  let pol = if c.listen_mode = 3 then [] else c.pol in
  let obs = ref (Model.run c.fccap pol smp (start c.epoch0 c.vals0) ops) in
  let dead = ref false in
  List.filter_map (fun el ->
    if !dead then None else
    match el with
    | Nodef _ -> Some ["nodef"]
    | Mop _ ->
      (match !obs with
       | [] -> dead := true; None
       | o :: r -> obs := r; let t, d = obs_toks c o in if d then dead := true; Some t)) els

(* ---------- parsing implementation observations back into [obs] ---------- *)
let id_of_name c s =
  match int_of_string_opt s with
  | Some n -> (match Hashtbl.find_opt c.id_of n with Some id -> id | None -> N0)
  | None -> N0
let split_commas s = if s = "" then [] else String.split_on_char ',' s
let tl1 s = String.sub s 1 (String.length s - 1)

let rec parse_blocks c toks : block list * string list =
  match toks with
  | a :: ch :: dl :: seal :: rest when String.length a > 0 && a.[0] = 'A'
                                     && String.length ch > 0 && ch.[0] = 'c' && String.length dl > 0 && dl.[0] = 'd' ->
    let b = { b_frame = N0; b_atropos = id_of_name c (tl1 a);
              b_cheaters = List.map nz (split_commas (tl1 ch));
              b_delivered = (if dl = "dX" then [n_of_z (zpow2 256)] else List.map (id_of_name c) (split_commas (tl1 dl)));
              b_seal = (if seal = "-" then None else
                Some (List.map (fun p -> match String.split_on_char ':' p with
                                  | [i; w] -> (nz i, nz w) | _ -> (N0, N0)) (split_commas (tl1 seal)))) } in
    let bl, r = parse_blocks c rest in (b :: bl, r)
  | _ -> ([], toks)
let parse_le toks = match toks with
  | [l; e] when String.length l > 1 && l.[0] = 'l' && String.length e > 1 && e.[0] = 'e' -> Some (nz (tl1 l), nz (tl1 e))
  | _ -> None

exception Bad_obs
let parse_obs c (kind : string) (toks : string list) : obs =
  match toks with
  | [s] when String.length s = 2 && s.[0] = 's' -> ObsSkip (nz (tl1 s))
  | _ ->
  match kind, toks with
  | ("P" | "X" | "Y"), r :: rest ->
    let bl, rest' = parse_blocks c rest in
    let res = if r = "ok" then None else Some (err_of_tok r) in
    (match parse_le rest' with
     | Some (l, e) -> ObsP (res, bl, l, e)
     | None -> if rest' = [] then ObsP (res, bl, N0, N0) else raise Bad_obs)
  | ("B" | "b"), [f] when String.length f > 1 && f.[0] = 'f' -> ObsB (Ok (nz (tl1 f)))
  | ("B" | "b"), [e] -> ObsB (Err (err_of_tok e))
  | "R", r :: rest ->
    let bl, rest' = parse_blocks c rest in
    let res = if r = "rok" then None else Some (err_of_tok (tl1 r)) in
    (match parse_le rest' with
     | Some (l, e) -> ObsR (res, bl, l, e)
     | None -> ObsR ((match res with None -> Some ECrit | x -> x), bl, N0, N0))
  | "RESET", "zok" :: rest ->
    (match parse_le rest with Some (l, e) -> ObsReset (l, e) | None -> raise Bad_obs)
  | "M", "m" :: rest -> ObsM (List.map (fun s -> if s = "F" then (true, N0) else (false, nz s)) rest)
  | "W", "v" :: rest ->
    ObsV (List.map (fun p -> match String.split_on_char ':' p with [i; w] -> (nz i, nz w) | _ -> (N0, N0)) rest)
  | "Q", ["q1"] -> ObsQ true
  | "Q", ["q0"] -> ObsQ false
  | "G", "g" :: rest ->
    ObsG (List.map (fun p -> match String.split_on_char ':' p with
                     | [v; n] -> (nz v, id_of_name c n) | _ -> (N0, N0)) rest)
  | _ -> raise Bad_obs

(* pair the elements with observation groups: (kind, op, tokens) for every element that has a group *)
let pair_trace (els : elem list) (groups : string list list) : (string * op option * string list) list =
  let rec go els gs acc =
    match els, gs with
    | _, [] | [], _ -> List.rev acc
    | Nodef k :: er, g :: gr -> go er gr ((k, None, g) :: acc)   (* keeps its kind: the projections of C07/C08 filter by it *)
    | Mop (k, o) :: er, g :: gr -> go er gr ((k, Some o, g) :: acc) in
  go els groups []

let trace_of c paired : ((op * obs) list) option =
  try Some (List.filter_map (fun (k, o, g) ->
      match o with
      | None -> None
      | Some o -> if g = ["nodef"] then raise Bad_obs else Some (o, parse_obs c k g)) paired)
  with Bad_obs | Failure _ | Invalid_argument _ -> None

(* ---------- per-property specification on an observation (token groups of main / alt) ---------- *)
let rec is_suffix a m = (a = m) || (match m with [] -> false | _ :: t -> is_suffix a t)
let rec drop n l = if n <= 0 then l else match l with [] -> [] | _ :: t -> drop (n - 1) t

type sres = { ok : bool; nontriv : bool; why : string }

let spec_on (pid : string) c (mg : string list list) (ag : string list list) : sres =
  let pm = pair_trace c.main mg in
  let pa = match c.alt with Some a -> pair_trace a ag | None -> [] in
  let has_block = List.exists (fun (_, _, g) -> List.exists (fun t -> String.length t > 1 && t.[0] = 'A') g) in
  let groups_of = List.map (fun (_, _, g) -> g) in
  let rec take n l = if n <= 0 then [] else match l with [] -> [] | x :: t -> x :: take (n - 1) t in
  let chk tr_fn p =
    match trace_of c p with
    | None -> (if Sys.getenv_opt "VERIF_DEBUG" <> None then prerr_endline "trace does not parse"); false
    | Some tr ->
      let ok = tr_fn (chk_start c.epoch0 c.vals0) tr in
      (if not ok && Sys.getenv_opt "VERIF_DEBUG" <> None then begin
         (* first failing prefix; report the op index among parsed ops *)
         let n = List.length tr in
         let rec find k = if k > n then n else if tr_fn (chk_start c.epoch0 c.vals0) (take k tr) then find (k + 1) else k in
         let k = find 1 in
         let real = List.filter (fun (_, o, _) -> o <> None) p in
         let (kind, _, g) = List.nth real (k - 1) in
         Printf.eprintf "spec fails first at parsed op #%d kind=%s obs=[%s]\n" (k - 1) kind (String.concat " " g)
       end);
      ok in
  match pid with
  | "C02" -> { ok = chk c02_trace pm; nontriv = has_block pm; why = "c02_trace" }
  | "C03" ->
    { ok = chk c03_trace pm;
      nontriv = List.exists (fun (_, _, g) -> List.exists (fun t -> String.length t > 1 && t.[0] = 'c') g) pm;
      why = "c03_trace" }
  | "C04" ->
    { ok = chk c04_trace pm;
      nontriv = List.exists (fun (k, _, g) -> ((k = "X" || k = "Y") && g <> [] && List.hd g = "wf") || (k = "B")) pm;
      why = "c04_trace" }
  | "C07" ->
    let kept = List.filter (fun (k, _, _) -> k <> "b" && k <> "X" && k <> "Y") pm in
    let inj = List.length pm - List.length kept in
    { ok = (c.alt = None) || (groups_of kept = groups_of pa);
      nontriv = inj > 0 && (has_block pm || List.exists (fun (k, _, _) -> k = "B") pm);
      why = "main without injected ops vs clean run" }
  | "C08" ->
    let kept = List.filter (fun (k, _, _) -> k <> "R") pm in
    let rs = List.filter (fun (k, _, _) -> k = "R") pm in
    let r_ok = List.for_all (fun (_, _, g) -> match g with ["rok"; _; _] -> true | _ -> false) rs in
    { ok = r_ok && (c.alt = None || groups_of kept = groups_of pa) && chk c02_trace pm;
      nontriv = rs <> [] && has_block pm;
      why = "restarted vs never restarted" }
  | "C09" ->
    (* the reference instance = RESET + the ops after the ALTFROM marker (alt_toks = RESET :: suffix of main_toks) *)
    let mt = c.main_toks and at = c.alt_toks in
    let k = (match at with _ :: at' -> List.length mt - List.length at' | [] -> -1) in
    let cmp = if c.alt = None || k < 0 then true else (drop k (groups_of pm) = drop 1 (groups_of pa)) in
    { ok = cmp && chk c02_trace pm;
      nontriv = List.exists (fun (_, _, g) -> List.exists (fun t -> String.length t > 1 && t.[0] = 'S') g) pm && has_block (drop k pm);
      why = "sealed vs Reset instance" }
  | _ -> { ok = false; nontriv = false; why = "unknown property" }

(* cross-check of the two graph definitions of forkless cause: spec/AbftSpec.v fc_graph (table driven, used
   by the trace checkers) against spec/FcSpec.v fc_spec (fuelled DFS; the right-hand side of C05), on the
   accepted events of the last epoch segment of the model's own run, small cases only *)
let fc_defs_agree c (paired : (string * op option * string list) list) : bool =
  match trace_of c paired with
  | None -> true
  | Some tr ->
    let vals = ref (mk_vals c.vals0) and evs = ref [] in
    List.iter (fun (o, ob) ->
      match o, ob with
      | OpP e, ObsP (None, bl, _, _) ->
        evs := e :: !evs;
        List.iter (fun b -> match b.b_seal with Some nv -> vals := nv; evs := [] | None -> ()) bl
      | OpReset (_, raw), ObsReset _ -> vals := mk_vals raw; evs := []
      | _ -> ()) tr;
    let es = List.rev !evs in
    let n = List.length es in
    if n = 0 || n > 24 then true else begin
      let v = !vals in
      let g = List.fold_left (fun g e -> g_add g e) [] es in
      let e_fc = List.fold_left (fun acc e -> (e.a_id, vev v e) :: acc) [] es in
      let ws = List.map snd v and q = v_quorum v and nv = nat_of_int (List.length v) in
      List.for_all (fun a -> List.for_all (fun b ->
        fc_graph g v a.a_id b.a_id = fc_spec ws q nv e_fc a.a_id b.a_id) es) es
    end

let split_obs (obs : string list) : string list list * string list list =
  match split_on "||" obs with
  | [m] -> (if m = [] then [] else split_on ";" m), []
  | m :: a :: _ -> (if m = [] then [] else split_on ";" m), (if a = [] then [] else split_on ";" a)
  | [] -> [], []

let join_groups gs = String.concat " ; " (List.map (String.concat " ") gs)

let eval_with (pid : string) (smp : n -> n list option) inp obs : verdict =
  let c = parse inp in
  if mk_vals c.vals0 = [] then   (* no genesis validators: not a scenario (only met while shrinking) *)
    { default_verdict with model_obs = ["invalid"]; spec_ok = None; nontrivial = false } else
  (* C09: the ALTFROM marker must describe the model's state at that point (just switched to that epoch with those
     validators, nothing accepted yet); otherwise the case is not a C09 scenario (only met while shrinking) *)
  let marker_ok = (match c.marker with
    | None -> true
    | Some (k, _, _, args) when List.nth_opt c.main_toks k = Some ("RESET" :: args) -> true   (* the next op is that very Reset *)
    | Some (k, ep, raw, _) ->
      let rec take n l = if n <= 0 then [] else match l with [] -> [] | x :: t -> x :: take (n - 1) t in
      let ops = List.filter_map (function Mop (_, o) -> Some o | Nodef _ -> None) (take k c.main) in
      let i = run_inst c.fccap c.pol smp (start c.epoch0 c.vals0) ops in
      i.i_st.l_epoch = ep && i.i_st.l_ldf = N0 && i.i_st.l_vals = mk_vals raw && i.i_proc = []) in
  if not marker_ok then
    { default_verdict with model_obs = ["invalid"]; spec_ok = None; nontrivial = false } else
  let mm = model_run c smp c.main in
  let ma = match c.alt with Some a -> model_run c smp a | None -> [] in
  let flat gs = List.concat (List.mapi (fun i g -> if i = 0 then g else ";" :: g) gs) in
  let model_obs = flat mm @ (match c.alt with Some _ -> "||" :: flat ma | None -> []) in
  let ig, iag = split_obs obs in
  let blind = { ok = true; nontriv = false; why = "no BeginBlock: nothing reported" } in
  let si = if c.listen_mode = 3 then blind else spec_on pid c ig iag in
  let sm = if c.listen_mode = 3 then blind else spec_on pid c mm ma in
  let defs_ok = (pid <> "C04") || fc_defs_agree c (pair_trace c.main mm) in
  { default_verdict with model_obs; spec_ok = Some si.ok; model_spec_ok = sm.ok && defs_ok; nontrivial = si.nontriv;
    note = (if not defs_ok then "fc_graph <> FcSpec.fc_spec on this DAG" else if si.ok then "" else "spec(" ^ si.why ^ ") fails on impl") }

(* ---------- STORE glue cases (model/AbftStore.v): the small abft.Store codecs driven directly ----------
   input  : <mix> STORE rootsNum rootsFrames ; CF e f | GC e | LD f | GL | ES ep id w .. | GE | AR spf f v id | GR f
   output : ok | skip | nodef | f<n> | l<live> l<fresh> | e<ep> id:w .. / e<ep> id:w .. | g v:id .. *)
let u32 s = let z = Z.of_string s in if Z.sign z < 0 || Z.geq z (zpow2 32) then failwith "range" else n_of_z z
let u256 s = let z = Z.of_string s in if Z.sign z < 0 || Z.geq z (zpow2 256) then failwith "range" else n_of_z z
let rec pairs32 = function a :: b :: r -> (u32 a, u32 b) :: pairs32 r | [] -> [] | _ -> failwith "odd"
let store_op (g : string list) : sop option =
  try (match g with
    | ["CF"; e; f] -> Some (SoCF (u256 e, u32 f))
    | ["GC"; e] -> Some (SoGC (u256 e))
    | ["LD"; f] -> Some (SoLD (u32 f))
    | ["GL"] -> Some SoGL
    | "ES" :: ep :: r -> Some (SoES (u32 ep, pairs32 r))
    | ["GE"] -> Some SoGE
    | ["AR"; spf; f; v; id] -> Some (SoAR (u32 spf, u32 f, u32 v, u256 id))
    | ["GR"; f] -> Some (SoGR (u32 f))
    | _ -> None)
  with _ -> None
let pw l = List.map (fun (i, w) -> tok_of_n i ^ ":" ^ tok_of_n w) l
let sobs_toks = function
  | SbOk -> ["ok"] | SbSkip -> ["skip"]
  | SbN x -> ["N" ^ tok_of_n x]
  | SbES (ep, v) -> let h = ("e" ^ tok_of_n ep) :: pw v in h @ ["/"] @ h
  | SbRoots l -> "g" :: pw l
let sobs_print (o : sop) (b : sobs) = match o, b with
  | SoGC _, SbN x -> ["f" ^ tok_of_n x]
  | SoGL, SbN x -> ["l" ^ tok_of_n x; "l" ^ tok_of_n x]
  | _ -> sobs_toks b
let unpw l = List.map (fun p -> match String.split_on_char ':' p with [i; w] -> (nz i, nz w) | _ -> raise Bad_obs) l
let sobs_parse (o : sop) (g : string list) : sobs =
  match o, g with
  | _, ["ok"] -> SbOk
  | _, ["skip"] -> SbSkip
  | SoGC _, [f] when String.length f > 1 && f.[0] = 'f' -> SbN (nz (tl1 f))
  | SoGL, [a; b] when a = b && String.length a > 1 && a.[0] = 'l' -> SbN (nz (tl1 a))
  | SoGE, _ ->
    (match split_on "/" g with
     | [(e :: v); h2] when (e :: v) = h2 && String.length e > 1 && e.[0] = 'e' -> SbES (nz (tl1 e), unpw v)
     | _ -> raise Bad_obs)
  | SoGR _, "g" :: r -> SbRoots (unpw r)
  | _ -> raise Bad_obs
let is_store inp = match inp with _ :: "STORE" :: _ -> true | _ -> false
let eval_store inp obs : verdict =
  let groups = split_on ";" inp in
  let els = List.map store_op (List.filter (fun g -> g <> []) (List.tl groups)) in
  let ops = List.filter_map (fun x -> x) els in
  let mtr = List.combine ops (srun store_start ops) in
  let mo = ref mtr in
  let mg = List.map (function
    | None -> ["nodef"]
    | Some _ -> (match !mo with (o, b) :: r -> mo := r; sobs_print o b | [] -> ["?"])) els in
  let flat gs = List.concat (List.mapi (fun i g -> if i = 0 then g else ";" :: g) gs) in
  let ig = if obs = [] then [] else split_on ";" obs in
  let spec_ok =
    (try
      let rec pair es gs = match es, gs with
        | [], [] -> []
        | None :: er, g :: gr -> if g = ["nodef"] then pair er gr else raise Bad_obs
        | Some o :: er, g :: gr -> (o, sobs_parse o g) :: pair er gr
        | _ -> raise Bad_obs in
      store_trace astore_start (pair els ig)
    with Bad_obs | Failure _ | Invalid_argument _ -> false) in
  let big = List.exists (function
    | SoCF (_, f) | SoLD f -> Z.geq (z_of_n f) (Z.of_int 256)
    | SoAR (_, f, v, _) -> Z.geq (z_of_n f) (Z.of_int 256) || Z.geq (z_of_n v) (Z.of_int 256)
    | SoES (ep, r) -> Z.geq (z_of_n ep) (Z.of_int 256) || List.exists (fun (i, w) -> Z.geq (z_of_n i) (Z.of_int 256) || Z.geq (z_of_n w) (Z.of_int 256)) r
    | _ -> false) ops in
  { default_verdict with model_obs = flat mg; spec_ok = Some spec_ok; model_spec_ok = store_trace astore_start mtr; nontrivial = big;
    note = (if spec_ok then "" else "spec(store_trace: every read returns what was written) fails on impl") }

let main (pid : string) = Drv.run (fun inp obs -> if is_store inp then eval_store inp obs else eval_with pid sample inp obs)
