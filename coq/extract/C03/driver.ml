let () = Abft_drv.main "C03"
