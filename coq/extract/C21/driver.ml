(* C21 driver.  Input (harness/cmd/vh/c21.go):
     S|P   peers th  (sec nsec) x 7 : now startup connected synced became created detected
     SM|PM peers th  off x 7        : nanosecond offsets from a base time.Now() (monotonic readings);
                                      only differences matter, so the model runs on base' + off for a
                                      fixed base' (C21_time_sub_saturates: Sub depends on the exact
                                      difference only; the monotonic and the wall difference coincide).
   Observation: S: wait errcode ; P: 0|1.
   model_obs = extracted synced_to_emit / detect_parallel (the REPAIRED code).
   spec_ok   = spec/DoubleSignSpec.v answer_ok / parallel_b on the implementation's answer (exact
               integer arithmetic), for thresholds > MinInt64 (the domain of the theorems). *)
open Model
open Conv
open Drv

let zt s = z_of_tok s
let mk sec nsec = { sec = sec; nsec = nsec }
let base_ns = ZA.of_string "63925596800123456789"   (* 2026, in ns since year 1 *)
let giga_ = ZA.of_int 1000000000
let time_of_off (o : string) =
  let v = ZA.add base_ns (ZA.of_string o) in
  let q = ZA.fdiv v giga_ in
  let r = ZA.sub v (ZA.mul q giga_) in
  mk (z_of_zz q) (z_of_zz r)

let err_of_code = function
  | "0" -> Some NoErr | "1" -> Some ErrNoConnections | "2" -> Some ErrP2PSyncOngoing
  | "3" -> Some ErrSelfEventsOngoing | "4" -> Some ErrJustBecameValidator
  | "5" -> Some ErrJustConnected | "6" -> Some ErrJustP2PSynced | _ -> None

let eval inp obs =
  let op, peers, th, times =
    match inp with
    | (("S" | "P") as op) :: p :: th :: rest ->
      let rec go = function
        | s :: n :: r -> mk (zt s) (zt n) :: go r
        | [] -> []
        | _ -> failwith "odd time tokens" in
      op, zt p, zt th, go rest
    | (("SM" | "PM") as op) :: p :: th :: rest ->
      String.sub op 0 1, zt p, zt th, List.map time_of_off rest
    | _ -> failwith "bad case" in
  match times with
  | [now; startup; connected; synced; became; created; detected] ->
    let s = { peers = peers; now = now; startup = startup; connected = connected; synced = synced;
              became = became; created = created; detected = detected } in
    let in_domain = ZA.gt (zz_of_z th) (zz_of_z min64) in
    if op = "S" then begin
      let (w, e) = synced_to_emit s th in
      let model_obs = [tok_of_z w; tok_of_z (werr_code e)] in
      let spec_ok = (match obs with
        | [wi; ei] -> (match err_of_code ei with
                       | Some e' -> if in_domain then Some (answer_ok s th (z_of_tok wi, e')) else None
                       | None -> Some false)
        | _ -> Some false) in
      { default_verdict with model_obs; spec_ok;
        model_spec_ok = (if in_domain then answer_ok s th (w, e) else true);
        nontrivial = true;
        note = (if in_domain then "" else "(threshold = MinInt64: outside the theorems' domain)") }
    end else begin
      let r = detect_parallel s th in
      { default_verdict with model_obs = [tok_of_bool r];
        spec_ok = (if in_domain then Some (obs = [tok_of_bool (parallel_b s th)]) else None);
        model_spec_ok = (if in_domain then r = parallel_b s th else true);
        nontrivial = true }
    end
  | _ -> failwith "expected 7 time values"

let () = run eval
