(* C21 driver.  Input (harness/cmd/vh/c21.go):
     S|P   peers th  (sec nsec) x 7 : now startup connected synced became created detected
     SM|PM peers th  off x 7        : nanosecond offsets from a base time.Now() (monotonic readings)
     SX|PX peers th  tok x 7        : mixed: m<off> = base.Add(off) with its monotonic reading,
                                      w<off> = the same instant stripped to wall-only (Round(0)),
                                      z = time.Time{}.  Now is always m<off>.
   For SM/PM/SX/PX only differences matter (C21_time_sub_saturates, C21_sub_mono_saturates: Sub depends
   on the exact difference only, and the monotonic and the wall difference of base.Add values
   coincide), so the model runs on base' + off for a fixed base' in 2026; z is the zero time (its
   distance from any 2026 base exceeds 2^63 ns, so the saturated result does not depend on the base).
   Observation: S: wait errcode ; P: 0|1.
   model_obs = extracted synced_to_emit / detect_parallel (the REPAIRED code).
   spec_ok   = the STRICT verdict for EVERY case: answer = spec/DoubleSignSpec.v [expected] (exact
               integers, the literal property) / [parallel_b].
   Known residue of the repaired code (C21_*_refuted): a spec failure is tagged
       why=min-threshold-emit       th = MinInt64, S case
       why=min-threshold-parallel   th = MinInt64, P case
       why=neg-threshold-saturated  MinInt64 < th < 0 and some stamp more than 2^63 ns ahead of now
   ONLY when the input is in that class AND the implementation's answer is exactly the model's (the
   behaviour the theorems C21_min_threshold_emits / _no_parallel / C21_wait_bounds describe); any other
   spec failure carries no tag and is a VIOLATION. *)
open Model
open Conv
open Drv

let zt s = z_of_tok s
let mk sec nsec = { sec = sec; nsec = nsec }
let base_ns = ZA.of_string "63925596800123456789"   (* 2026, in ns since year 1 *)
let giga_ = ZA.of_int 1000000000
let time_of_off (o : string) =
  let v = ZA.add base_ns (ZA.of_string o) in
  let q = ZA.fdiv v giga_ in
  let r = ZA.sub v (ZA.mul q giga_) in
  mk (z_of_zz q) (z_of_zz r)
let time_of_mixed (t : string) =
  if t = "z" then mk (z_of_zz ZA.zero) (z_of_zz ZA.zero)
  else time_of_off (String.sub t 1 (String.length t - 1))

let err_of_code = function
  | "0" -> Some NoErr | "1" -> Some ErrNoConnections | "2" -> Some ErrP2PSyncOngoing
  | "3" -> Some ErrSelfEventsOngoing | "4" -> Some ErrJustBecameValidator
  | "5" -> Some ErrJustConnected | "6" -> Some ErrJustP2PSynced | _ -> None

let eval inp obs =
  let op, peers, th, times =
    match inp with
    | (("S" | "P") as op) :: p :: th :: rest ->
      let rec go = function
        | s :: n :: r -> mk (zt s) (zt n) :: go r
        | [] -> []
        | _ -> failwith "odd time tokens" in
      op, zt p, zt th, go rest
    | (("SM" | "PM") as op) :: p :: th :: rest ->
      String.sub op 0 1, zt p, zt th, List.map time_of_off rest
    | (("SX" | "PX") as op) :: p :: th :: rest ->
      String.sub op 0 1, zt p, zt th, List.map time_of_mixed rest
    | _ -> failwith "bad case" in
  match times with
  | [now; startup; connected; synced; became; created; detected] ->
    let s = { peers = peers; now = now; startup = startup; connected = connected; synced = synced;
              became = became; created = created; detected = detected } in
    let thz = zz_of_z th in
    let is_min = ZA.equal thz (zz_of_z min64) in
    let is_neg = ZA.sign thz < 0 && not is_min in
    if op = "S" then begin
      let (w, e) = synced_to_emit s th in
      let model_obs = [tok_of_z w; tok_of_z (werr_code e)] in
      let impl_ok = (match obs with
        | [wi; ei] -> (match err_of_code ei with
                       | Some e' -> answer_ok s th (z_of_tok wi, e')
                       | None -> false)
        | _ -> false) in
      let model_ok = answer_ok s th (w, e) in
      let residue =
        if is_min then "why=min-threshold-emit"
        else if is_neg && saturated_b s then "why=neg-threshold-saturated"
        else "" in
      (* the tag needs: known class, the model itself fails the strict spec there, impl = model *)
      let tag = if residue <> "" && (not model_ok) && obs = model_obs then residue else "" in
      { default_verdict with model_obs; spec_ok = Some impl_ok; model_spec_ok = model_ok;
        nontrivial = true; note = tag }
    end else begin
      let r = detect_parallel s th in
      let model_obs = [tok_of_bool r] in
      let want = [tok_of_bool (parallel_b s th)] in
      let model_ok = (model_obs = want) in
      let tag = if is_min && (not model_ok) && obs = model_obs then "why=min-threshold-parallel" else "" in
      { default_verdict with model_obs; spec_ok = Some (obs = want); model_spec_ok = model_ok;
        nontrivial = true; note = tag }
    end
  | _ -> failwith "expected 7 time values"

let () = run eval
