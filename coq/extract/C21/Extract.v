From Coq Require Import ExtrOcamlBasic ZArith List.
From LV Require Import lib.Conv model.DoubleSign spec.DoubleSignSpec.
Extraction "model.ml" conv_roots synced_to_emit synced_to_emit_old detect_parallel werr_code
  expected answer_ok may_emit_b parallel_b saturated_b elapsed longest capped min64 max64.
