From Coq Require Import ExtrOcamlBasic NArith List.
From LV Require Import lib.Conv model.Wlru model.Roots spec.RootsSpec.
Extraction "model.ml" conv_roots Roots.init Roots.rstep Wlru.keys Wlru.c_stuck RootsSpec.registered RootsSpec.same_set.
