(* C33 driver.  Case: <RootsNum> <RootsFrames> ; op ; op ; ...
     ops: A spf frame creator idhex   Store.AddRoot(spf, event{frame, creator, id})
          G f                         Store.GetFrameRoots(f)
          R                           Orderer.Reset(epoch+1, validators)  (drop + open epoch DB)
          B                           restart: new Store + Orderer over the same databases, Bootstrap
   impl observation per op:  ; ok            (A, R)
                             ; g<f:v:idhex,f:v:idhex,...|->   (G: the slice returned, in order)
   model side: extracted Roots.rstep from Roots.init (table + LRU cache): predicts the exact slice;
   spec side : extracted RootsSpec.registered (history only) compared AS A SET with the
               implementation's answer (same_set), and no crit()/panic anywhere. *)
open Model
open Conv
open Drv

let tn = tok_of_n
let root_tok (r : root) = tn r.r_frame ^ ":" ^ tn r.r_val ^ ":" ^ hex_of_bytes r.r_id
let roots_tok l = "g" ^ (if l = [] then "-" else String.concat "," (List.map root_tok l))

let parse_op = function
  | ["A"; spf; fr; cr; id] -> RAdd (n_of_tok spf, n_of_tok fr, n_of_tok cr, bytes_of_hex id)
  | ["G"; f] -> RGet (n_of_tok f)
  | ["R"] | ["RS"] | ["RL"] -> RReset   (* to the next / the same / a lower epoch number: a new, empty epoch either way *)
  | ["B"] -> RRestart
  | t -> failwith ("bad op " ^ String.concat " " t)

let parse_roots (s : string) : root list option =
  if String.length s < 1 || s.[0] <> 'g' then None else
  let b = String.sub s 1 (String.length s - 1) in
  if b = "-" then Some [] else
  try Some (List.map (fun x -> match String.split_on_char ':' x with
      | [f; v; id] -> { r_frame = n_of_tok f; r_val = n_of_tok v; r_id = bytes_of_hex id }
      | _ -> failwith "root") (String.split_on_char ',' b))
  with _ -> None

let rec take n l = if n <= 0 then [] else match l with [] -> [] | x :: r -> x :: take (n - 1) r

let eval inp obs =
  match split_on ";" inp with
  | (num :: frames :: _) :: ops ->   (* an optional third token selects the harness' DB producer kind *)
    let ops = List.map parse_op (List.filter (fun o -> o <> []) ops) in
    (match init (n_of_tok num) (z_of_tok frames) with
     | None ->
       { default_verdict with model_obs = ["CRIT"]; spec_ok = Some (obs = ["CRIT"]); nontrivial = false }
     | Some st0 ->
       let st = ref st0 and acc = ref [] and crit = ref false and hit_after_add = ref false in
       List.iter (fun o ->
         let (st', r) = rstep !st o in
         st := st';
         (match r with
          | None -> acc := ["ok"] :: !acc
          | Some (rr, cr) -> if cr then crit := true; acc := [roots_tok rr] :: !acc)) ops;
       let model_s = String.concat " " (List.concat_map (fun l -> ";" :: l) (List.rev !acc)) in
       (* spec on the implementation's answers *)
       let impl_groups = List.filter (fun g -> g <> []) (split_on ";" obs) in
       let ok = ref (List.length impl_groups = List.length ops) in
       let nontriv = ref false in
       if !ok then
         List.iteri (fun i (o, g) ->
           match o, g with
           | RGet f, [tok] ->
             (match parse_roots tok with
              | None -> ok := false
              | Some rr ->
                let reg = registered (take i ops) f in
                if reg <> [] then nontriv := true;
                (* small answers: the extracted same_set; big ones (size class > 64 roots): the same set
                   equality on canonicalised (sorted, duplicate-free) token lists, to stay fast *)
                let canon l = List.sort_uniq compare (List.map root_tok l) in
                let eq = if List.length rr <= 64 && List.length reg <= 64 then same_set rr reg else canon rr = canon reg in
                if not eq then ok := false)
           | RGet _, _ -> ok := false
           | _, ["ok"] -> ()
           | _, _ -> ok := false) (List.combine ops impl_groups);
       { default_verdict with
         model_obs = tokens model_s;
         spec_ok = Some !ok;
         model_spec_ok = not !crit && not (c_stuck !st.r_cache);
         nontrivial = !nontriv;
         note = (if !ok then "" else "GetFrameRoots differs (as a set) from the registered roots") })
  | _ -> failwith "bad case"

let () = run eval
