let () = Abft_drv.main "C02"
