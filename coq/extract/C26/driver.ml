(* C26 driver.  Input:  mdb <avail> <trials> ; NEW e.. ; RT r ; O r ; X r ; W r k v ; G r k ; V
   Observation: ORC <oracle tokens> ; <one result per op, V followed by q: tokens>
   The oracle section (results of the real fmtfilter.CompileFilter) is input to the model.
   spec side (evaluated on the implementation's observation only):
     - determinism: every NEW reports det=1 (N constructions route every candidate alike)
     - isolation: successful opens of different requests in one database have tables that are
       not prefix-related; reads through a request return exactly what was written through it
     - reopen: a request opened successfully is re-opened successfully with the same route while
       the routing table is the same (also after a restart) and its database was not dropped
     - verify: v:1 iff every recorded (db, req, table) is routed (q: tokens = RouteOf of the
       implementation) to the same type, name and table. *)
open Model
open Conv
open Drv

let str_of_raw s = if s = "~" then [] else
  List.init (String.length s) (fun i -> n_of_z (Z.of_int (Char.code s.[i])))
let h = hex_of_bytes

let parse_entry tok =
  let eq = String.index tok '=' in
  let req = String.sub tok 0 eq in
  match String.split_on_char ':' (String.sub tok (eq + 1) (String.length tok - eq - 1)) with
  | [t; n; tb; nd] ->
    (str_of_raw req, { r_type = str_of_raw t; r_name = str_of_raw n; r_table = str_of_raw tb; r_nodrop = (nd = "1") })
  | _ -> failwith "bad entry"

let route_tok (r : route) =
  h r.r_type ^ ":" ^ h r.r_name ^ ":" ^ h r.r_table ^ ":" ^ (if r.r_nodrop then "1" else "0")

let ores_tok = function
  | OOk rt -> "ok:" ^ route_tok rt
  | OMissing -> "err:missing" | OReassign -> "err:reassign" | OConflict -> "err:conflict"
  | OLoop -> "err:loop"

let is_prefix a b = String.length a <= String.length b && String.sub b 0 (String.length a) = a
(* hex strings: prefix relation of byte strings = prefix relation of their hex ("-" = empty) *)
let hx s = if s = "-" then "" else s
let conflicting_hex a b = is_prefix (hx a) (hx b) || is_prefix (hx b) (hx a)

let eval inp obs =
  let groups = split_on ";" inp in
  let header, ops = (match groups with hd :: tl -> hd, tl | [] -> failwith "empty") in
  let avail = (match header with
    | "mdb" :: a :: _ -> List.filter_map (fun s -> if s = "" || s = "~" then None else Some (str_of_raw s))
                         (String.split_on_char ',' a)
    | _ -> failwith "bad header") in
  (* oracle *)
  let ogroups = split_on ";" obs in
  let orc_toks, res_toks = (match ogroups with
    | ("ORC" :: o) :: rest -> o, List.concat rest
    | _ -> [], obs) in
  let mt = Hashtbl.create 64 and ct = Hashtbl.create 16 in
  List.iter (fun t -> match String.split_on_char '=' t with
    | ["c"; a; b; ok] -> Hashtbl.replace ct (a, b) (ok = "1")
    | ["m"; a; b; q; n] -> Hashtbl.replace mt (a, b, q) (bytes_of_hex n)
    | _ -> ()) orc_toks;
  let orc tmpl nm q = Hashtbl.find_opt mt (h tmpl, h nm, h q) in
  let cok tmpl nm = (match Hashtbl.find_opt ct (h tmpl, h nm) with Some b -> b | None -> false) in
  (* requests of the case, sorted (as the harness does) *)
  let reqs = List.sort_uniq compare
    (List.filter_map (fun o -> match o with
       | k :: r :: _ when k <> "NEW" -> Some (if r = "~" then "" else r) | _ -> None) ops) in
  let reqs = List.map (fun r -> str_of_raw (if r = "" then "~" else r)) reqs in
  (* ---- model *)
  let newp = new_producer cok in
  let st = ref init_state in
  let mobs = ref [] in
  let push t = mobs := t :: !mobs in
  let nt = ref false in
  List.iter (fun o ->
    let mop = (match o with
      | "NEW" :: es -> Some (ONew (List.map parse_entry es))
      | ["RT"; r] -> Some (ORoute (str_of_raw r))
      | ["O"; r] -> Some (OOpen (str_of_raw r))
      | ["X"; r] -> Some (ODrop (str_of_raw r))
      | ["W"; r; k; v] -> Some (OPut (str_of_raw r, str_of_raw k, str_of_raw v))
      | ["G"; r; k] -> Some (OGet (str_of_raw r, str_of_raw k))
      | ["V"] -> Some OVerify
      | _ -> None) in
    match mop with
    | None -> push "nop"
    | Some mop ->
      let (st', b) = step orc newp avail !st mop in
      let p_after = st'.s_prod in
      st := st';
      (match b, mop with
       | BNew true, _ -> push "new:ok:1"
       | BNew false, _ -> push "new:err"
       | BRoute (Some r), _ -> push ("rt:" ^ route_tok r)
       | BRoute None, _ -> push "rt:loop"
       | BOpen (OOk rt), OPut _ -> push ("ok:" ^ route_tok rt ^ ":raw1")
       | BOpen r, _ -> (match r with OConflict | OReassign -> nt := true | _ -> ()); push (ores_tok r)
       | BGet (OOk rt, v), _ ->
         if v <> None then nt := true;
         push ("ok:" ^ route_tok rt ^ ":" ^ (match v with None -> "~" | Some x -> h x))
       | BGet (r, _), _ -> push (ores_tok r)
       | BVerify ok, _ ->
         push (if ok then "v:1" else (nt := true; "v:0"));
         (match p_after with
          | Some p -> List.iter (fun q -> match route_of orc p q with
              | Some r -> push ("q:" ^ h q ^ ":" ^ route_tok r)
              | None -> push ("q:" ^ h q ^ ":loop")) reqs
          | None -> ())
       | BNone, _ -> push "nop")) ops;
  let model_obs = (match ogroups with
    | ("ORC" :: o) :: _ -> ("ORC" :: o) @ [";"] @ List.rev !mobs
    | _ -> List.rev !mobs) in
  (* ---- spec on the implementation's observation *)
  let ok = ref true and why = ref "" in
  let fail s = if !ok then (ok := false; why := s) in
  let live : (string * string, (string * string) list) Hashtbl.t = Hashtbl.create 16 in  (* (type,name) -> (req, table) *)
  let data : (string * string * string * string, string) Hashtbl.t = Hashtbl.create 16 in  (* (type,name,req,key) -> hex value *)
  let opened : (string, string) Hashtbl.t = Hashtbl.create 16 in  (* req -> route token, current routing table *)
  let cur_tbl = ref [] in
  let have_prod = ref false in
  let rec walk ops toks =
    match ops with
    | [] -> ()
    | o :: orest ->
      (match toks with
       | [] -> fail "observation too short"
       | t :: trest ->
         let f = String.split_on_char ':' t in
         (match o, f with
          | "NEW" :: _, "new" :: "ok" :: "nodefault" :: _ ->
            fail "NewProducer accepted a routing table without a default route (RouteOf would not terminate)";
            walk orest trest
          | "NEW" :: es, "new" :: "ok" :: det :: _ ->
            if det <> "1" then fail ("RouteOf differs between constructions of the same routing table: " ^ t);
            let s = List.sort compare es in
            if s <> !cur_tbl then Hashtbl.reset opened;
            cur_tbl := s; have_prod := true;
            walk orest trest
          | "NEW" :: _, _ -> walk orest trest
          | (("O" | "X" | "W" | "G") :: r :: args), ("ok" :: ty :: nm :: tb :: nd :: extra) ->
            let loc = (ty, nm) in
            let l = (try Hashtbl.find live loc with Not_found -> []) in
            List.iter (fun (r', t') ->
              if r' <> r && conflicting_hex t' tb then
                fail (Printf.sprintf "requests %s and %s share database %s with prefix-related tables" r' r nm);
              if r' = r && t' <> tb then fail ("request " ^ r ^ " re-opened with another table")) l;
            if not (List.mem (r, tb) l) then Hashtbl.replace live loc (l @ [(r, tb)]);
            let rtok = String.concat ":" [ty; nm; tb] in
            (match Hashtbl.find_opt opened r with
             | Some old when old <> rtok -> fail ("request " ^ r ^ " re-opened with a different route under the same routing table")
             | _ -> ());
            Hashtbl.replace opened r rtok;
            (match List.hd o, args, extra with
             | "X", _, _ ->
               if nd <> "1" then begin
                 Hashtbl.remove live loc;
                 Hashtbl.filter_map_inplace (fun (a, b, _, _) v -> if (a, b) = loc then None else Some v) data;
                 Hashtbl.filter_map_inplace (fun _ v ->
                   (match String.split_on_char ':' v with a :: b :: _ when (a, b) = loc -> None | _ -> Some v)) opened
               end
             | "W", [k; v], [raw] ->
               if raw <> "raw1" then fail "store returned by OpenDB does not write at table+key of the routed database";
               Hashtbl.replace data (ty, nm, r, k) (h (str_of_raw v))
             | "G", [k], [v] ->
               let want = (try Hashtbl.find data (ty, nm, r, k) with Not_found -> "~") in
               if v <> want then fail (Printf.sprintf "Get through %s key %s returned %s, written through it: %s" r k v want)
             | _ -> ());
            walk orest trest
          | (("O" | "X" | "W" | "G") :: r :: _), ("err" :: _) ->
            (match Hashtbl.find_opt opened r with
             | Some _ -> fail ("request " ^ r ^ " opened before is refused under the same routing table")
             | None -> ());
            walk orest trest
          | ["V"], ["v"; res] ->
            (* q tokens follow *)
            let rec take acc = function
              | q :: rest when String.length q > 2 && String.sub q 0 2 = "q:" -> take (q :: acc) rest
              | rest -> List.rev acc, rest in
            let qs, trest' = take [] trest in
            let qtab = Hashtbl.create 16 in
            List.iter (fun q -> match String.split_on_char ':' q with
              | ["q"; rq; ty; nm; tb; _] -> Hashtbl.replace qtab rq (ty, nm, tb)
              | _ -> ()) qs;
            let all_same = ref true in
            Hashtbl.iter (fun (ty, nm) l -> List.iter (fun (r, tb) ->
              match Hashtbl.find_opt qtab (h (str_of_raw r)) with
              | Some x -> if x <> (ty, nm, tb) then all_same := false
              | None -> fail "missing q token") l) live;
            if (res = "1") <> !all_same then
              fail (Printf.sprintf "Verify=%s but recorded requests %s" res
                      (if !all_same then "are all routed as recorded" else "are not all routed as recorded"));
            walk orest trest'
          | _ -> walk orest trest))
  in
  walk ops res_toks;
  ignore !have_prod;
  { default_verdict with model_obs; spec_ok = Some !ok; nontrivial = !nt || List.exists (fun t -> String.length t > 2 && String.sub t 0 2 = "m=") orc_toks; note = !why }

let () = run eval
