From Coq Require Import ExtrOcamlBasic NArith List.
From LV Require Import lib.Conv lib.Bytes model.MultiDb.
Extraction "model.ml" conv_roots new_producer new_producer_old route_of open_db verify step run
  init_state conflicting bytes_eqb.
