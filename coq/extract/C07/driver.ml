let () = Abft_drv.main "C07"
