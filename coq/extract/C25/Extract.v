From Coq Require Import ExtrOcamlBasic NArith List.
From LV Require Import lib.Conv lib.Bytes model.CrashBase model.SyncedPool model.Flagged.
Extraction "model.ml" conv_roots run_step run_init frun_step frun_init crash check_synced
  apply_dops arrange dget check_loop restart_pool restart_flagged.
