(* C25 driver.  See harness/cmd/vh/c25.go for the case format.
   - the map-iteration orders of every Flush are read off the implementation's log (the
     oracle lists of the model), everything else of the model's output is computed from the input;
   - CheckDBsSynced ranges over a Go map: which error it reports depends on the order, so for an
     error verdict the model's token is the implementation's one if SOME order of the surviving
     databases produces it in the model (all permutations are tried), else the sorted-order one;
   - spec_ok = the property itself on the implementation's data: for every crash prefix of the
     logged durable operations the verdict of the real Initialize is an error, or N with all
     surviving databases empty, or O:<mark> with a flush j completed at or before the prefix,
     mark = 00++id_j, and every surviving database equal to its logical contents dumped after
     flush j (absent there -> empty). *)
open Model
open Conv
open Drv

let h = hex_of_bytes
let name_tok (n : n) = tok_of_n n

let parse_writes s : (n list * n list option) list =
  if s = "." then [] else
  List.map (fun kv -> match String.split_on_char '=' kv with
    | [k; "~"] -> (bytes_of_hex k, None)
    | [k; v] -> (bytes_of_hex k, Some (bytes_of_hex v))
    | _ -> failwith "bad write") (String.split_on_char ',' s)
let writes_tok ws =
  if ws = [] then "." else
  String.concat "," (List.map (fun (k, ov) -> h k ^ "=" ^ (match ov with None -> "~" | Some v -> h v)) ws)

let dop_of_tok t = match String.split_on_char ':' t with
  | ["o"; n] -> DOpen (n_of_tok n)
  | ["x"; n] -> DDrop (n_of_tok n)
  | ["p"; n; k; v] -> DPut (n_of_tok n, bytes_of_hex k, bytes_of_hex v)
  | ["d"; n; k] -> DDel (n_of_tok n, bytes_of_hex k)
  | ["b"; n; ws] -> DBatch (n_of_tok n, parse_writes ws)
  | _ -> failwith ("bad log token " ^ t)
let tok_of_dop = function
  | DOpen n -> "o:" ^ name_tok n
  | DDrop n -> "x:" ^ name_tok n
  | DPut (n, k, v) -> "p:" ^ name_tok n ^ ":" ^ h k ^ ":" ^ h v
  | DDel (n, k) -> "d:" ^ name_tok n ^ ":" ^ h k
  | DBatch (n, ws) -> "b:" ^ name_tok n ^ ":" ^ writes_tok ws

let rec drop k l = if k <= 0 then l else match l with [] -> [] | _ :: t -> drop (k - 1) t
let rec dedup_consec = function
  | a :: (b :: _ as t) -> if a = b then dedup_consec t else a :: dedup_consec t
  | l -> l
let rec perms = function
  | [] -> [[]]
  | l -> List.concat (List.mapi (fun i x ->
           let rest = List.filteri (fun j _ -> j <> i) l in
           List.map (fun p -> x :: p) (perms rest)) l)

(* CheckDBsSynced ranges over a Go map: which error it reports depends on the order.  The kinds some
   order can produce, from the marks alone (fid = expected flush ID, if any): *)
let possible_errors fk (w : (n * (n list * n list) list) list) (fid : n list option) : string list =
  let marks = List.filter_map (fun (_, c) -> dget fk c) w in
  let dirty m = (match m with d :: _ -> Z.to_int (z_of_n d) = 222 | [] -> false) in
  let cleans = List.sort_uniq compare (List.filter (fun m -> not (dirty m)) marks) in
  let cleans' = (match fid with Some f -> List.sort_uniq compare (f :: cleans) | None -> cleans) in
  (if List.exists dirty marks then ["E:d"] else [])
  @ (if List.length cleans' > 1 && cleans <> [] then ["E:s"] else [])

let cres_tok = function
  | COk None -> "N"
  | COk (Some m) -> "O:" ^ h m
  | CDirty -> "E:d" | CNotSynced -> "E:s" | CNonInit -> "E:n"

(* canonical dump of one database: keys sorted (hex order = byte order) *)
let dump_db (c : (n list * n list) list) =
  let hk k = if k = [] then "" else h k in
  String.concat "," (List.map (fun (k, v) -> h k ^ ":" ^ h v)
    (List.sort (fun (a, _) (b, _) -> compare (hk a) (hk b)) c))
let snap_tok (w : (n * (n list * n list) list) list) =
  let l = List.sort (fun (a, _) (b, _) -> Z.compare (z_of_n a) (z_of_n b)) w in
  "S:" ^ String.concat ";" (List.map (fun (n, c) -> name_tok n ^ "=" ^ dump_db c) l)
let pre_tok fk (w : (n * (n list * n list) list) list) =
  let l = List.sort (fun (a, _) (b, _) -> Z.compare (z_of_n a) (z_of_n b)) w in
  "Q:" ^ String.concat ";" (List.map (fun (n, c) ->
    name_tok n ^ "=" ^ dump_db (List.filter (fun (k, _) -> k <> fk) c)) l)
(* expected snapshot of a flush: the pre-flush user contents of the databases still open after it,
   plus the clean mark under the flush-ID key *)
let expected_snap fkh id (pre : (string * string) list) (post : (string * string) list) =
  let mark = "00" ^ (if id = "-" then "" else id) in
  let hk k = if k = "-" then "" else k in
  List.map (fun (n, _) ->
    let d = (match List.assoc_opt n pre with Some d -> d | None -> "?") in
    let es = (if d = "" then [] else String.split_on_char ',' d) in
    let es = List.map (fun e -> match String.index_opt e ':' with
      | Some i -> (String.sub e 0 i, e) | None -> (e, e)) es in
    let es = List.sort (fun (a, _) (b, _) -> compare (hk a) (hk b)) ((fkh, fkh ^ ":" ^ mark) :: es) in
    (n, String.concat "," (List.map snd es))) post
let parse_snap t : (string * string) list =
  let body = String.sub t 2 (String.length t - 2) in
  if body = "" then [] else
  List.map (fun e -> match String.index_opt e '=' with
    | Some i -> (String.sub e 0 i, String.sub e (i + 1) (String.length e - i - 1))
    | None -> (e, "")) (String.split_on_char ';' body)

(* the property on one data set: durable log, verdict per prefix, (completion position, id hex, snapshot) per flush *)
let spec_check ?(any_pos = false) ?(expected = (fun (_ : int) -> (None : string option))) (log : dop list) (verdicts : string list) (flushes : (int * string * (string * string) list) list) =
  let why = ref "" in
  let ok = ref true in
  let fail s = if !ok then (ok := false; why := s) in
  if List.length verdicts <> List.length log + 1 then fail "number of verdicts <> number of crash points";
  List.iteri (fun k v ->
    if !ok then begin
      let w = crash log (nat_of_int k) in
      let dbs = List.map (fun (n, c) -> (name_tok n, dump_db c)) w in
      (match expected k with
       | Some e when v = "N" || (String.length v > 2 && String.sub v 0 2 = "O:" && String.sub v 2 (String.length v - 2) <> e) ->
         fail (Printf.sprintf "crash point %d: Initialize with expected flush ID %s reports %s" k e v)
       | _ -> ());
      if expected k <> None && dbs = [] then ()
      else if v = "N" then begin
        if List.exists (fun (_, d) -> d <> "") dbs then
          fail (Printf.sprintf "crash point %d: reports no flush but a surviving database is not empty" k)
      end else if String.length v > 2 && String.sub v 0 2 = "O:" then begin
        let m = String.sub v 2 (String.length v - 2) in
        let first_after = List.fold_left (fun acc (p, _, _) ->
          if p > k then (match acc with None -> Some p | Some q -> Some (min p q)) else acc) None flushes in
        let matches (pos, id, snap) =
          (pos <= k || (any_pos && first_after = Some pos)) && m = "00" ^ (if id = "-" then "" else id) &&
          List.for_all (fun (n, d) -> match List.assoc_opt n snap with
            | Some s -> s = d
            | None -> d = "") dbs in
        if not (List.exists matches flushes) then
          fail (Printf.sprintf "crash point %d: reports flush mark %s but the surviving databases [%s] are not the contents of any completed flush with that id" k m
                  (String.concat ";" (List.map (fun (n, d) -> n ^ "=" ^ d) dbs)))
      end
    end) verdicts;
  (* the other direction: a crash right after a completed flush is reported as that flush *)
  let va = Array.of_list verdicts in
  List.iter (fun (pos, id, _) ->
    if !ok && expected 0 = None && pos < Array.length va && crash log (nat_of_int pos) <> [] then begin
      let want = "O:00" ^ (if id = "-" then "" else id) in
      if va.(pos) <> want then
        fail (Printf.sprintf "crash point %d = right after flush %s returned: verdict %s, expected %s" pos id va.(pos) want)
    end) flushes;
  !ok, !why

let eval inp obs =
  let groups = split_on ";" inp in
  let header, ops = (match groups with hd :: tl -> hd, tl | [] -> failwith "empty") in
  let mode, fk, scale = (match header with
    | m :: fk :: sc :: _ -> m, bytes_of_hex fk, n_of_tok sc | _ -> failwith "bad header") in
  (* K n = open + close of the handle (no effect); BB n ws1 ws2 = one batch written three times *)
  let ops = List.concat_map (fun o -> match o with
    | ["K"; n] -> [["O"; n]]
    | ["BB"; n; a; b] -> [["B"; n; a]; ["B"; n; a]; ["B"; n; b]]
    | _ -> [o]) ops in
  let og = split_on ";" obs in
  let sect name = (match List.find_opt (fun g -> match g with x :: _ -> x = name | [] -> false) og with
    | Some (_ :: t) -> t | _ -> []) in
  let ilog = sect "LOG" and iverd = sect "V" and isnaps = sect "S" and ipres = sect "Q" and ixverd = sect "X"
  and iyverd = sect "Y" and izverd = sect "Z" in
  (* flush segments of the implementation's log *)
  let segs = ref [] and cur = ref None in
  List.iter (fun t ->
    if t = "F" then cur := Some []
    else if t = "f" then (match !cur with Some s -> segs := List.rev s :: !segs; cur := None | None -> ())
    else match !cur with Some s -> cur := Some (t :: s) | None -> ()) ilog;
  let segs = ref (List.rev !segs) in
  let is_mark pfx t = (match String.split_on_char ':' t with
    | ["p"; _; k; v] -> k = h fk && String.length v >= 2 && String.sub v 0 2 = pfx | _ -> false) in
  let nm t = n_of_tok (List.nth (String.split_on_char ':' t) 1) in
  let orders_of seg =
    let names p = List.map nm (List.filter p seg) in
    if mode = "pool" then
      [ names (fun t -> String.length t > 1 && t.[0] = 'x');
        names (is_mark "de");
        dedup_consec (names (fun t -> String.length t > 1 && t.[0] = 'b'));
        names (is_mark "00") ]
    else [ names (is_mark "00") ] in
  (* ---- the model *)
  let mlog_toks = ref [] in
  let mpres = ref [] in
  let dead = ref false in
  let push t = mlog_toks := t :: !mlog_toks in
  let hop_of o = (match o with
    | ["O"; n] -> Some (HOpen (n_of_tok n))
    | ["U"; n] -> Some (HUnder (n_of_tok n))
    | ["P"; n; k; v] -> Some (HPut (n_of_tok n, bytes_of_hex k, bytes_of_hex v))
    | ["D"; n; k] -> Some (HDel (n_of_tok n, bytes_of_hex k))
    | ["B"; n; ws] -> Some (HBatch (n_of_tok n, parse_writes ws))
    | ["X"; n] -> Some (HDrop (n_of_tok n))
    | ["F"; id] ->
      let os = (match !segs with s :: rest -> segs := rest; orders_of s | [] -> []) in
      Some (HFlush (bytes_of_hex id, os))
    | _ -> None) in
  let flush_ids = List.filter_map (fun o -> match o with ["F"; id] -> Some id | _ -> None) ops in
  (* after a refused restart (Rerr) the rest of the history is not executed *)
  let rec take n l = if n <= 0 then [] else match l with [] -> [] | x :: t -> x :: take (n - 1) t in
  let flush_ids = take (List.length (List.filter (fun t -> t = "f") ilog)) flush_ids in
  (* flagged producer with two equal consecutive flush IDs: the reported flush may be the one in
     progress (theorem C25_flagged_crash_consistent_any_ids); otherwise it completed at or before k *)
  let nfl = List.length flush_ids in
  let expected_hex k =
    let j = k mod (nfl + 1) in
    if j < nfl then "00" ^ (let id = List.nth flush_ids j in if id = "-" then "" else id) else "00eeee" in
  let rec consec_distinct = function a :: (b :: _ as t) -> a <> b && consec_distinct t | _ -> true in
  let any_pos = (mode = "flag") && not (consec_distinct flush_ids) in
  let mlog, mrecs =
    if mode = "pool" then begin
      let st = ref run_init in
      List.iter (fun o -> if !dead then () else if o = ["R"] then begin
          let before = List.length !st.rs_log in
          let w = crash !st.rs_log (nat_of_int before) in
          let order = List.sort (fun a b -> compare (tok_of_n a) (tok_of_n b)) (List.map fst w) in (* Go sorts the names "db<n>" as strings *)
          (match restart_pool fk !st (nat_of_int before) order with
           | Some s' -> st := s'; push "R"; List.iter (fun d -> push (tok_of_dop d)) (drop before s'.rs_log)
           | None -> dead := true; push "Rerr")
        end else match hop_of o with
        | None -> ()
        | Some hp ->
          let before = List.length !st.rs_log in
          (match hp with HFlush _ -> mpres := pre_tok fk !st.rs_spec.sp_dbs :: !mpres | _ -> ());
          st := run_step fk scale !st hp;
          let fresh = drop before !st.rs_log in
          (match hp with HFlush _ -> push "F" | _ -> ());
          List.iter (fun d -> push (tok_of_dop d)) fresh;
          (match hp with HFlush _ -> push "f" | _ -> ())) ops;
      !st.rs_log, !st.rs_recs
    end else begin
      let st = ref frun_init in
      List.iter (fun o -> if !dead then () else if o = ["R"] then begin
          let before = List.length !st.fr_log in
          let w = crash !st.fr_log (nat_of_int before) in
          let order = List.sort (fun a b -> compare (tok_of_n a) (tok_of_n b)) (List.map fst w) in (* Go sorts the names "db<n>" as strings *)
          (match restart_flagged fk !st (nat_of_int before) order with
           | Some s' -> st := s'; push "R"; List.iter (fun d -> push (tok_of_dop d)) (drop before s'.fr_log)
           | None -> dead := true; push "Rerr")
        end else match hop_of o with
        | None -> ()
        | Some hp ->
          let before = List.length !st.fr_log in
          (match hp with HFlush _ -> mpres := pre_tok fk !st.fr_spec.sp_dbs :: !mpres | _ -> ());
          st := frun_step fk !st hp;
          let fresh = drop before !st.fr_log in
          (match hp with HFlush _ -> push "F" | _ -> ());
          List.iter (fun d -> push (tok_of_dop d)) fresh;
          (match hp with HFlush _ -> push "f" | _ -> ())) ops;
      !st.fr_log, !st.fr_recs
    end in
  (* verdict per prefix *)
  let nlog = List.length mlog in
  let iverd_a = Array.of_list iverd in
  let mverd_sorted = ref [] in
  let mverd = List.init (nlog + 1) (fun k ->
    let w = crash mlog (nat_of_int k) in
    let w = List.sort (fun (a, _) (b, _) -> Z.compare (z_of_n a) (z_of_n b)) w in
    let canon = cres_tok (check_synced fk w) in
    mverd_sorted := canon :: !mverd_sorted;
    let it = if k < Array.length iverd_a then iverd_a.(k) else "" in
    if it = canon then canon
    else if String.length canon > 0 && canon.[0] = 'E' && List.mem it (possible_errors fk w None) then it else canon) in
  let mverd_sorted = List.rev !mverd_sorted in
  let ixverd_a = Array.of_list ixverd in
  let mxverd_sorted = ref [] in
  let mxverd = List.init (nlog + 1) (fun k ->
    let w = crash mlog (nat_of_int k) in
    let w = List.sort (fun (a, _) (b, _) -> Z.compare (z_of_n a) (z_of_n b)) w in
    let f = Some (bytes_of_hex (expected_hex k)) in
    let canon = cres_tok (check_loop fk w f false) in
    mxverd_sorted := canon :: !mxverd_sorted;
    let it = if k < Array.length ixverd_a then ixverd_a.(k) else "" in
    if it = canon then canon
    else if String.length canon > 0 && canon.[0] = 'E' && List.mem it (possible_errors fk w f) then it else canon) in
  let mxverd_sorted = List.rev !mxverd_sorted in
  (* Initialize over the survivors plus a name that does not exist (created empty) / over all but the
     first survivor (names in Go's string order of "db<n>") *)
  let variant (iv : string list) (f : (n * (n list * n list) list) list -> (n * (n list * n list) list) list) =
    let a = Array.of_list iv in
    List.init (nlog + 1) (fun k ->
      let w = f (crash mlog (nat_of_int k)) in
      let canon = cres_tok (check_synced fk w) in
      let it = if k < Array.length a then a.(k) else "" in
      if it = canon then canon
      else if String.length canon > 0 && canon.[0] = 'E' && List.mem it (possible_errors fk w None) then it else canon) in
  let myverd = variant iyverd (fun w -> w @ [(n_of_tok "999999", [])]) in
  let mzverd = variant izverd (fun w ->
    match List.sort (fun (a, _) (b, _) -> compare (tok_of_n a) (tok_of_n b)) w with [] -> [] | _ :: t -> t) in
  let msnaps = List.map (fun r -> snap_tok r.r_snap) mrecs in
  let mpres = List.rev !mpres in
  let model_obs = ("LOG" :: List.rev !mlog_toks) @ [";"; "V"] @ mverd @ [";"; "S"] @ msnaps @ [";"; "Q"] @ mpres @ [";"; "X"] @ mxverd @ [";"; "Y"] @ myverd @ [";"; "Z"] @ mzverd @ [";"; "R1"] in
  (* ---- the property on the implementation's data *)
  let idur = List.filter (fun t -> t <> "F" && t <> "f" && t <> "ferr" && t <> "R" && t <> "Rerr") ilog in
  let spec_ok, why = (try
    let ilog_d = List.map dop_of_tok idur in
    (* completion positions = number of durable operations before each f marker *)
    let pos = ref [] and cnt = ref 0 in
    List.iter (fun t -> if t = "f" then pos := !cnt :: !pos
                        else if t <> "F" && t <> "ferr" && t <> "R" && t <> "Rerr" then incr cnt) ilog;
    let pos = List.rev !pos in
    if List.mem "ferr" ilog then false, "Flush returned an error"
    else if List.length pos <> List.length flush_ids || List.length isnaps <> List.length pos
            || List.length ipres <> List.length pos then
      false, "number of completed flushes / snapshots differs from the number of F operations"
    else begin
      (* the contents a database "had when that flush completed" = what the producer showed the user just
         before the flush (+ the clean mark); the read path after the flush must show the same *)
      let fkh = h fk in
      let bad = ref "" in
      (* which databases must exist after flush i: those open before it (Q_i) minus the ones the USER dropped
         since the previous flush (pool: queued drops are executed by the flush, and lost by a restart;
         flagged: a drop is immediate, Q_i no longer has them) — a database that was written and never
         dropped since must not disappear *)
      let dropped_before = (
        let cur = ref [] and acc = ref [] in
        List.iter (fun o -> match o with
          | ["X"; n] -> if mode = "pool" then cur := n :: !cur
          | ["R"] -> cur := []
          | ["F"; _] -> acc := !cur :: !acc; cur := []
          | _ -> ()) ops;
        Array.of_list (List.rev !acc)) in
      let flushes = List.mapi (fun i p ->
        let id = List.nth flush_ids i in
        let post = parse_snap (List.nth isnaps i) and pre = parse_snap (List.nth ipres i) in
        let exp = expected_snap fkh id pre post in
        let gone = List.filter (fun (n, _) ->
          not (List.mem_assoc n post) && not (i < Array.length dropped_before && List.mem n dropped_before.(i))) pre in
        if gone <> [] && !bad = "" then
          bad := Printf.sprintf "flush %d (id %s): database %s was open before the flush, was not dropped by the user since the previous flush, and is gone after it"
                   (i + 1) id (String.concat "," (List.map fst gone));
        if exp <> post && !bad = "" then
          bad := Printf.sprintf "flush %d (id %s): contents read through the producer after the flush [%s] differ from the contents before it plus the clean mark [%s]"
                   (i + 1) id (String.concat ";" (List.map (fun (n, d) -> n ^ "=" ^ d) post))
                   (String.concat ";" (List.map (fun (n, d) -> n ^ "=" ^ d) exp));
        (p, id, exp)) pos in
      if !bad <> "" then false, !bad else begin
        let r1 = spec_check ~any_pos ilog_d iverd flushes in
        if not (fst r1) then r1
        else spec_check ~any_pos ~expected:(fun k -> Some (expected_hex k)) ilog_d ixverd flushes
      end
    end
  with e -> false, "unparsable observation: " ^ Printexc.to_string e) in
  let m_ok, m_why =
    let flushes = List.mapi (fun i r -> (int_of_nat r.r_pos, (if r.r_id = [] then "-" else h r.r_id),
                                         parse_snap (List.nth msnaps i))) mrecs in
    let r1 = spec_check ~any_pos mlog mverd_sorted flushes in
    if not (fst r1) then r1
    else spec_check ~any_pos ~expected:(fun k -> Some (expected_hex k)) mlog mxverd_sorted flushes in
  let has p = List.exists p iverd in
  { default_verdict with model_obs; spec_ok = Some spec_ok; model_spec_ok = m_ok;
    nontrivial = has (fun v -> String.length v > 1 && v.[0] = 'O') && has (fun v -> v.[0] = 'E');
    note = (if not spec_ok then why else if not m_ok then "model: " ^ m_why else "") }

let () = run eval
