(* C19 driver.  Inputs (harness/cmd/vh/c19.go):
     CP|CPN ne existing.. no options.. ns strategy.. nm (id metric)..
        obs: ( r np parents.. n options.. idx )*  res ok|panic n result..
     MC n options.. nm (id metric)..                 MetricStrategy.Choose directly; obs: idx
     MS mode ; T nm (id metric).. ; H n options.. ;… ONE MetricStrategy object reused while the metric
        function changes between calls (mode p = plain function, mode c = behind a MetricFnCache);
        obs: one idx per H
     QI nv w.. diffk self ; E.. ; P.. ; C ne existing.. no options.. ns ; …
        a real QuorumIndexer over a real vecfc index; C = ChooseParents with ns x qi.SearchStrategy();
        obs per C:  c ( r np parents.. n options.. idx m1..mn )* res ok n result..   where m_j is
        qi.GetMetricOf(option j) evaluated AT CHOOSE TIME (an oracle for this property: C20 is about it)
   The map-order shuffles, RandomStrategy answers and the QuorumIndexer's metric values are ORACLES read
   from the observation; scripted indices and every MetricStrategy answer are computed by the extracted
   model (metric_choose).
   spec_ok = wf_result_b && trace_ok && index in range && maximal_b for every MetricStrategy call (against
   the metric function current at that call); a panic only after an out-of-range scripted index. *)
open Model
open Conv
open Drv

type kind = KM | KR | KI of int | KX of int

let rec times k f = if k <= 0 then [] else let x = f () in x :: times (k - 1) f
let toks l = List.map tok_of_n l
let assoc_metric table (x : n) : n =
  let k = tok_of_n x in
  (* the Go map keeps the last value written for a key; ids not listed have metric 0 *)
  List.fold_left (fun acc (i, m) -> if i = k then m else acc) N0 table

(* one ChooseParents call.  rounds: (parents shown, options shown, idx, echoed metric tokens) *)
let eval_cp existing options kinds (metric_for : int -> n -> n) rounds status result =
  let ns = List.length kinds in
  let nth_round i = try Some (List.nth rounds i) with _ -> None in
  let strategies = List.mapi (fun i k ->
    let sh (s : n list) : n list =
      match nth_round i with
      | Some (_, l, _, _) when same_set_b l s -> l
      | _ -> List.sort compare s in
    match k with
    | KM -> metric_strategy sh (metric_for i)
    | KR -> { shuf = sh; choose = (fun _ _ ->
                match nth_round i with Some (_, _, k, _) when k >= 0 -> nat_of_int k | _ -> O) }
    | KI k -> { shuf = sh; choose = (fun _ cur -> nat_of_int (k mod (max 1 (List.length cur)))) }
    | KX k -> { shuf = sh; choose = (fun _ _ -> nat_of_int k) }) kinds in
  let (mlog, mout) = choose_parents_log existing options strategies in
  let model_obs =
    List.concat (List.mapi (fun i ((ps, l), k) ->
      ["r"; string_of_int (List.length ps)] @ toks ps @ [string_of_int (List.length l)] @ toks l
      @ [tok_of_nat k]
      @ (match nth_round i with Some (_, _, _, echo) -> echo | None -> [])) mlog)
    @ (match mout with
       | Done r -> ["res"; "ok"; string_of_int (List.length r)] @ toks r
       | PanicIndex _ -> ["res"; "panic"; "0"]) in
  let nstrat = nat_of_int ns in
  let spec_of status result rounds3 =
    let nth3 i = try Some (List.nth rounds3 i) with _ -> None in
    let metric_ok () =
      List.for_all (fun (i, k) -> match k, nth3 i with
        | KM, Some (_, l, idx) -> idx >= 0 && maximal_b (metric_for i) l (nat_of_int idx)
        | _ -> true) (List.mapi (fun i k -> (i, k)) kinds) in
    match status with
    | "ok" ->
      wf_result_b existing options nstrat result
      && trace_ok existing options (List.map (fun (ps, l, k) -> ((ps, l), nat_of_int (max k 0))) rounds3) result
      && List.for_all (fun (_, l, k) -> k >= 0 && k < List.length l) rounds3
      && metric_ok ()
    | "panic" ->
      (match List.rev rounds3 with
       | (_, l, k) :: _ ->
         (match List.nth_opt kinds (List.length rounds3 - 1) with
          | Some (KX _) -> k < 0 || k >= List.length l
          | _ -> false)
       | [] -> false)
    | _ -> false in
  let r3 = List.map (fun (ps, l, k, _) -> (ps, l, k)) rounds in
  let m_rounds = List.map (fun ((ps, l), k) -> (ps, l, int_of_nat k)) mlog in
  (model_obs, spec_of status result r3,
   (match mout with Done r -> spec_of "ok" r m_rounds | PanicIndex _ -> spec_of "panic" [] m_rounds))

(* parse "( r ... )* res status n ids.." from a token list; returns (rounds, status, result, rest) *)
let parse_call with_metrics (o : string list ref) =
  let onext () = match !o with x :: r -> o := r; x | [] -> failwith "short obs" in
  let rounds = ref [] and status = ref "" and result = ref [] and fin = ref false in
  (try
    while not !fin do
      match onext () with
      | "r" ->
        let np = int_of_string (onext ()) in
        let ps = times np (fun () -> n_of_tok (onext ())) in
        let n = int_of_string (onext ()) in
        let l = times n (fun () -> n_of_tok (onext ())) in
        let k = int_of_string (onext ()) in
        let echo = if with_metrics then times n onext else [] in
        rounds := (ps, l, k, echo) :: !rounds
      | "res" ->
        status := onext ();
        let n = int_of_string (onext ()) in
        result := times n (fun () -> n_of_tok (onext ()));
        fin := true
      | _ -> failwith "bad obs"
    done
  with Failure _ -> status := "unparsable");
  (List.rev !rounds, !status, !result)

let reader rest =
  let q = ref rest in
  let next () = match !q with x :: r -> q := r; x | [] -> failwith "short input" in
  let cnt () = int_of_string (next ()) in
  let ids () = let n = cnt () in times n (fun () -> n_of_tok (next ())) in
  (next, cnt, ids)

let eval inp obs =
  (* CPN = CP with empty lists / no strategies passed as nil slices; CPA1/2/3 = the two argument slices
     share / overhang one backing array (harness/cmd/vh/c19.go).  How the caller allocated its slices is
     a harness dimension only: the model is a function of the VALUES.  After the call the harness reports
     the caller's existing and options slices again ("ex .. op .."): they must be unchanged (purity). *)
  let inp = (match inp with ("CPN" | "CPA1" | "CPA2" | "CPA3") :: rest -> "CP" :: rest | _ -> inp) in
  match inp with
  | "CP" :: rest ->
    let (next, cnt, ids) = reader rest in
    let existing = ids () in
    let options = ids () in
    let ns = cnt () in
    let kinds = times ns (fun () ->
      let s = next () in
      let arg () = int_of_string (String.sub s 1 (String.length s - 1)) in
      (* R<seed>, N (NewRandomStrategy(nil)), Q<seed> (one shared object): random oracles *)
      match s.[0] with 'M' -> KM | 'R' | 'N' | 'Q' -> KR | 'I' -> KI (arg ()) | 'X' -> KX (arg ())
                     | _ -> failwith "bad strategy") in
    let nm = cnt () in
    let table = times nm (fun () -> let i = next () in let m = next () in (i, n_of_tok m)) in
    let o = ref obs in
    let (rounds, status, result) = parse_call false o in
    let post = ["ex"; string_of_int (List.length existing)] @ toks existing
               @ ["op"; string_of_int (List.length options)] @ toks options in
    let unchanged = (!o = post) in
    let (model_obs, sp, msp) = eval_cp existing options kinds (fun _ -> assoc_metric table) rounds status result in
    { default_verdict with model_obs = model_obs @ post; spec_ok = Some (sp && unchanged);
      model_spec_ok = msp; nontrivial = (rounds <> []);
      note = (if unchanged then "" else "why=caller-slices-modified") }
  | "MC" :: rest ->
    (* MetricStrategy.Choose called directly on an arbitrary list (duplicates, empty) *)
    let (next, cnt, ids) = reader rest in
    let opts = ids () in
    let nm = cnt () in
    let table = times nm (fun () -> let i = next () in let m = next () in (i, n_of_tok m)) in
    let metric = assoc_metric table in
    let k = metric_choose metric opts in
    let spec_ok = (match obs with
      | [i] -> (match int_of_string_opt i with
                | Some i when i >= 0 ->
                  if opts = [] then None   (* the property speaks about picking an option *)
                  else Some (maximal_b metric opts (nat_of_int i))
                | _ -> Some false)
      | _ -> Some false) in
    { default_verdict with model_obs = [tok_of_nat k]; spec_ok;
      model_spec_ok = (opts = [] || maximal_b metric opts k);
      nontrivial = (opts <> []) }
  | "MS" :: mode :: rest ->
    (* ONE MetricStrategy object, the metric function changes between calls.
       mode p: MetricStrategy over the plain function: every call must use the CURRENT table.
       mode g<size>: a new MetricFnCache(fn,size) at every T; within a generation the function is fixed, so
               the cached strategy must choose exactly as the plain one: maximal w.r.t. the current table,
               for every capacity and any number of distinct ids.
       mode c: over a MetricFnCache (size 128, fewer ids than that): the cache's contract is "first value
               seen"; the strategy must be maximal w.r.t. the values the cache hands out, which the driver
               tracks as an oracle table (first table value at the time an id was first asked for). *)
    let steps = List.filter (fun l -> l <> []) (split_on ";" rest) in
    let table = ref [] and seen = ref [] in
    let outs = ref [] and ok_impl = ref true and ok_model = ref true and o = ref obs in
    List.iter (fun st -> match st with
      | "T" :: r ->
        let (next, cnt, _) = reader r in
        let nm = cnt () in
        table := times nm (fun () -> let i = next () in let m = next () in (i, n_of_tok m))
      | "H" :: r ->
        let (_, _, ids) = reader r in
        let opts = ids () in
        let cur = assoc_metric !table in
        let metric =
          (* mode g<size>: a fresh cache per generation (T): memo(f) = f (C19_memo_run_is_f), so the
             verdict and the model use the CURRENT table, whatever the capacity *)
          if mode = "c" then begin
            (* ids are asked for in list order; remember the first value handed out *)
            List.iter (fun x -> let k = tok_of_n x in
              if not (List.mem_assoc k !seen) then seen := (k, cur x) :: !seen) opts;
            (fun x -> List.assoc (tok_of_n x) !seen)
          end else cur in
        let k = metric_choose metric opts in
        outs := tok_of_nat k :: !outs;
        if opts <> [] && not (maximal_b metric opts k) then ok_model := false;
        (match !o with
         | i :: tl -> o := tl;
           (match int_of_string_opt i with
            | Some i when i >= 0 -> if opts <> [] && not (maximal_b metric opts (nat_of_int i)) then ok_impl := false
            | _ -> ok_impl := false)
         | [] -> ok_impl := false)
      | _ -> failwith "bad MS step") steps;
    { default_verdict with model_obs = List.rev !outs; spec_ok = Some (!ok_impl && !o = []);
      model_spec_ok = !ok_model; nontrivial = true }
  | "QI" :: rest ->
    let steps = List.filter (fun l -> l <> []) (split_on ";" rest) in
    (* the script must be a well-formed DAG history (a shrunk variant may not be): every referenced
       event defined earlier, seq = previous own seq + 1, self-parent first *)
    let defined = Hashtbl.create 16 and last = Hashtbl.create 8 in
    let need id = if not (Hashtbl.mem defined id) then failwith "ill-formed QI script" in
    List.iter (fun st -> match st with
      | "E" :: id :: cr :: sq :: _ :: np :: ps ->
        List.iter need ps;
        if List.length ps <> int_of_string np then failwith "ill-formed QI script";
        (match Hashtbl.find_opt last cr with
         | Some (pid, psq) ->
           if int_of_string sq <> psq + 1 || (match ps with p :: _ -> p <> pid | [] -> true)
           then failwith "ill-formed QI script"
         | None -> if int_of_string sq <> 1 then failwith "ill-formed QI script");
        Hashtbl.replace defined id (); Hashtbl.replace last cr (id, int_of_string sq)
      | "P" :: id :: _ -> need id
      | "C" :: r ->
        let (_, _, ids) = reader r in
        let ex = ids () in
        let op = ids () in
        List.iter (fun x -> need (tok_of_n x)) (ex @ op)
      | _ -> ()) (match steps with _hdr :: tl -> tl | [] -> []);
    let o = ref obs in
    let model_obs = ref [] and ok_impl = ref true and ok_model = ref true and calls = ref 0 in
    List.iter (fun st -> match st with
      | "C" :: r ->
        let (_, cnt, ids) = reader r in
        let existing = ids () in
        let options = ids () in
        let ns = cnt () in
        incr calls;
        (match !o with
         | "c" :: tl ->
           o := tl;
           let (rounds, status, result) = parse_call true o in
           let metric_for i = (match List.nth_opt rounds i with
             | Some (_, l, _, echo) ->
               assoc_metric (List.map2 (fun x m -> (tok_of_n x, n_of_tok m)) l echo)
             | None -> (fun _ -> N0)) in
           let (mo, sp, msp) = eval_cp existing options (times ns (fun () -> KM)) metric_for rounds status result in
           model_obs := !model_obs @ ("c" :: mo);
           if not sp then ok_impl := false;
           if not msp then ok_model := false
         | _ -> ok_impl := false)
      | _ -> ()) steps;
    { default_verdict with model_obs = !model_obs; spec_ok = Some (!ok_impl && !o = []);
      model_spec_ok = !ok_model; nontrivial = (!calls > 0) }
  | _ -> failwith "bad case"

let () = run eval
