(* C19 driver.  Input (harness/cmd/vh/c19.go):
     CP ne existing.. no options.. ns strategy.. nm (id metric)..
   Observation: ( r np parents.. n options.. idx )*  res ok|panic n result..
   The map-order shuffles and the RandomStrategy answers are ORACLES: they are read from the
   implementation's observation and fed to the extracted model (a shown list is accepted as the
   shuffle only if it is a duplicate-free rearrangement of the model's current option set, otherwise
   the model uses its own order and the logs differ).  Scripted indices and the MetricStrategy are
   computed by the model itself.
   spec_ok = wf_result_b (the property's sentence on the final result) && trace_ok (each call saw the
   parents so far and exactly the remaining options; its answer was appended) && maximal_b for every
   MetricStrategy call; a panic is accepted only after an out-of-range scripted index. *)
open Model
open Conv
open Drv

type kind = KM | KR | KI of int | KX of int

let eval inp obs =
  (* CPN = CP with empty lists / no strategies passed as nil slices (no difference for the model) *)
  let inp = (match inp with "CPN" :: rest -> "CP" :: rest | _ -> inp) in
  match inp with
  | "CP" :: rest ->
    let q = ref rest in
    let next () = match !q with x :: r -> q := r; x | [] -> failwith "short input" in
    let cnt () = int_of_string (next ()) in
    let rec times k f = if k <= 0 then [] else let x = f () in x :: times (k - 1) f in
    let ids () = let n = cnt () in times n (fun () -> n_of_tok (next ())) in
    let existing = ids () in
    let options = ids () in
    let ns = cnt () in
    let kinds = times ns (fun () ->
      let s = next () in
      let arg () = int_of_string (String.sub s 1 (String.length s - 1)) in
      (* R<seed>, N (NewRandomStrategy(nil)), Q<seed> (one shared object): random oracles *)
      match s.[0] with 'M' -> KM | 'R' | 'N' | 'Q' -> KR | 'I' -> KI (arg ()) | 'X' -> KX (arg ())
                     | _ -> failwith "bad strategy") in
    let nm = cnt () in
    let table = times nm (fun () -> let i = next () in let m = next () in (i, n_of_tok m)) in
    let metric (x : n) : n =
      let k = tok_of_n x in
      (* the Go map keeps the last value written for a key *)
      List.fold_left (fun acc (i, m) -> if i = k then m else acc) N0 table in
    (* parse the observation *)
    let o = ref obs in
    let onext () = match !o with x :: r -> o := r; x | [] -> failwith "short obs" in
    let rounds = ref [] in
    let status = ref "" and result = ref [] in
    (try
      while !o <> [] do
        match onext () with
        | "r" ->
          let np = int_of_string (onext ()) in
          let ps = times np (fun () -> n_of_tok (onext ())) in
          let n = int_of_string (onext ()) in
          let l = times n (fun () -> n_of_tok (onext ())) in
          let k = int_of_string (onext ()) in
          rounds := (ps, l, k) :: !rounds
        | "res" ->
          status := onext ();
          let n = int_of_string (onext ()) in
          result := times n (fun () -> n_of_tok (onext ()))
        | _ -> failwith "bad obs"
      done
    with Failure _ -> status := "unparsable");
    let rounds = List.rev !rounds in
    let nth_round i = try Some (List.nth rounds i) with _ -> None in
    let strategies = List.mapi (fun i k ->
      let sh (s : n list) : n list =
        match nth_round i with
        | Some (_, l, _) when same_set_b l s -> l
        | _ -> List.sort compare s in
      match k with
      | KM -> metric_strategy sh metric
      | KR -> { shuf = sh; choose = (fun _ _ ->
                  match nth_round i with Some (_, _, k) when k >= 0 -> nat_of_int k | _ -> O) }
      | KI k -> { shuf = sh; choose = (fun _ cur -> nat_of_int (k mod (max 1 (List.length cur)))) }
      | KX k -> { shuf = sh; choose = (fun _ _ -> nat_of_int k) }) kinds in
    let (mlog, mout) = choose_parents_log existing options strategies in
    let toks l = List.map tok_of_n l in
    let model_obs =
      List.concat (List.map (fun ((ps, l), k) ->
        ["r"; string_of_int (List.length ps)] @ toks ps @ [string_of_int (List.length l)] @ toks l
        @ [tok_of_nat k]) mlog)
      @ (match mout with
         | Done r -> ["res"; "ok"; string_of_int (List.length r)] @ toks r
         | PanicIndex _ -> ["res"; "panic"; "0"]) in
    let nstrat = nat_of_int ns in
    let metric_ok () =
      List.for_all (fun (i, k) -> match k, nth_round i with
        | KM, Some (_, l, idx) -> idx >= 0 && maximal_b metric l (nat_of_int idx)
        | _ -> true) (List.mapi (fun i k -> (i, k)) kinds) in
    let spec_of status result rounds =
      match status with
      | "ok" ->
        wf_result_b existing options nstrat result
        && trace_ok existing options (List.map (fun (ps, l, k) -> ((ps, l), nat_of_int (max k 0))) rounds) result
        && List.for_all (fun (_, l, k) -> k >= 0 && k < List.length l) rounds
        && metric_ok ()
      | "panic" ->
        (* legitimate only if the last recorded call answered an out-of-range scripted index *)
        (match List.rev rounds with
         | (_, l, k) :: _ ->
           (match List.nth_opt kinds (List.length rounds - 1) with
            | Some (KX _) -> k < 0 || k >= List.length l
            | _ -> false)
         | [] -> false)
      | _ -> false in
    let m_rounds = List.map (fun ((ps, l), k) -> (ps, l, int_of_nat k)) mlog in
    { default_verdict with model_obs;
      spec_ok = Some (spec_of !status !result rounds);
      model_spec_ok = (match mout with
                       | Done r -> spec_of "ok" r m_rounds
                       | PanicIndex _ -> spec_of "panic" [] m_rounds);
      nontrivial = (rounds <> []) }
  | "MC" :: rest ->
    (* MetricStrategy.Choose called directly on an arbitrary list (duplicates, empty) *)
    let q = ref rest in
    let next () = match !q with x :: r -> q := r; x | [] -> failwith "short input" in
    let cnt () = int_of_string (next ()) in
    let rec times k f = if k <= 0 then [] else let x = f () in x :: times (k - 1) f in
    let n = cnt () in
    let opts = times n (fun () -> n_of_tok (next ())) in
    let nm = cnt () in
    let table = times nm (fun () -> let i = next () in let m = next () in (i, n_of_tok m)) in
    let metric (x : n) : n =
      let k = tok_of_n x in
      List.fold_left (fun acc (i, m) -> if i = k then m else acc) N0 table in
    let k = metric_choose metric opts in
    let spec_ok = (match obs with
      | [i] -> (match int_of_string_opt i with
                | Some i when i >= 0 ->
                  if opts = [] then None   (* the property speaks about picking an option *)
                  else Some (maximal_b metric opts (nat_of_int i))
                | _ -> Some false)
      | _ -> Some false) in
    { default_verdict with model_obs = [tok_of_nat k]; spec_ok;
      model_spec_ok = (opts = [] || maximal_b metric opts k);
      nontrivial = (opts <> []) }
  | _ -> failwith "bad case"

let () = run eval
