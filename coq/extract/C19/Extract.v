From Coq Require Import ExtrOcamlBasic NArith List.
From LV Require Import lib.Conv model.Ancestor spec.AncestorSpec.
Extraction "model.ml" conv_roots choose_parents_log metric_choose metric_strategy
  wf_result_b maximal_b same_set_b trace_ok.
