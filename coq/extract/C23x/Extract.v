From Coq Require Import ExtrOcamlBasic NArith ZArith List.
From LV Require Import lib.Conv lib.Bytes lib.SortedMap spec.KvSpec model.KvWrappers.
Extraction "model.ml" conv_roots xrun x_init kv_write kv_apply kv_get kv_has kv_iterate has_prefix.
