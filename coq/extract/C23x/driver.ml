(* C23x driver (extension of C23: kvdb wrappers batched, skipkeys, nokeyiserr, readonlystore,
   skiperrors, fallible, devnulldb, cachedproducer store).  Case format: harness/cmd/vh/c23x.go.
   spec side, evaluated on the implementation's observation only (the stated deviations):
   - skipkeys anywhere in the stack: no live Get/Has/iteration ever shows a key with the hidden prefix;
   - readonlystore anywhere in the stack: no Put/Delete/batch Put/batch Delete succeeds (unless a
     skiperrors layer lies ABOVE it, which may swallow the refusal, for Put/Delete), and the base ends empty;
   - batched layers over memorydb with nothing else that rejects, fails or bypasses: after a successful
     Close the base holds exactly the ordered map of all Puts/Deletes in order (KvSpec.kv_write);
   - nokeyiserr on top: Get never answers (nil,nil). *)
open Model
open Conv
open Drv

let h = hex_of_bytes
let key s = bytes_of_hex s

let parse_layer bottom tok =
  match String.split_on_char ':' tok with
  | ["M"] -> WBase [] | ["m"] -> WMem ([], false) | ["Z"] -> WNull
  | ["B"] -> WBatched ([], bottom)
  | ["S"; p] -> WSkip (key p, bottom)
  | ["N"] -> WNoKey bottom
  | ["R"] -> WRO bottom
  | ["E"; cs] -> WSkipErr (List.filter_map (fun c -> if c = "" then None else Some (n_of_tok c)) (String.split_on_char '.' cs), bottom)
  | ["F"; n] -> WFall (z_of_tok n, bottom)
  | ["C"] -> WCached (n_of_tok "1", true, bottom)
  | ["X"; p; c] -> WErr (key p, n_of_tok c, bottom)
  | _ -> failwith ("bad layer " ^ tok)

let res_tok = function ROk _ -> "ok" | RErr e -> "e" ^ tok_of_n e | RPanic -> "panic"
let items l = "[" ^ String.concat "," (List.map (fun (k, v) -> h k ^ ":" ^ h v) l) ^ "]"
let dump m = String.concat "," (List.map (fun (k, v) -> h k ^ ":" ^ h v) m)

let is_prefix a b = String.length a <= String.length b && String.sub b 0 (String.length a) = a
let hx s = if s = "-" then "" else s

let eval inp obs =
  let groups = split_on ";" inp in
  let header, ops = (match groups with hd :: tl -> hd, tl | [] -> failwith "empty") in
  let scale, layers = (match header with
    | ["kw"; sc; ls] -> n_of_tok sc, String.split_on_char ',' ls | _ -> failwith "bad header") in
  let stack = List.fold_right (fun tok below -> parse_layer below tok) layers WNull in
  let nat s = nat_of_tok s in
  let xops = List.map (fun o -> match o with
    | ["P"; k; v] -> XPut (key k, key v) | ["D"; k] -> XDel (key k)
    | ["G"; k] -> XGet (key k) | ["H"; k] -> XHas (key k) | ["I"; p; s] -> XIter (key p, key s)
    | ["BN"; b] -> XBNew (nat b) | ["BP"; b; k; v] -> XBPut (nat b, key k, key v)
    | ["BD"; b; k] -> XBDel (nat b, key k) | ["BW"; b] -> XBWrite (nat b) | ["BR"; b] -> XBReset (nat b)
    | ["SN"; i] -> XSnap (nat i) | ["SG"; i; k] -> XSGet (nat i, key k) | ["SH"; i; k] -> XSHas (nat i, key k)
    | ["SI"; i; p; s] -> XSIter (nat i, key p, key s)
    | ["FL"; d] -> XFlush (nat d) | ["MF"; d] -> XMayFlush (nat d) | ["SC"; d; n] -> XSetCount (nat d, z_of_tok n)
    | ["LW"; d] -> XLWrite (nat d) | ["LR"; d] -> XLReset (nat d) | ["LP"; d] -> XLReplay (nat d)
    | ["GC"; d] -> XGetCount (nat d) | ["RO"; d] -> XReopen (nat d)
    | ["CL"] -> XClose | ["DR"] -> XDrop
    | _ -> failwith "bad op") ops in
  let mobs = xrun scale (x_init stack) xops in
  let model_obs = List.map (fun b -> match b with
    | BUnit r -> res_tok r
    | BVal (ROk None) -> "nil" | BVal (ROk (Some v)) -> "v:" ^ h v | BVal r -> res_tok r
    | BBool (ROk b) -> if b then "1" else "0" | BBool r -> res_tok r
    | BList l -> items l
    | BOps l -> "{" ^ String.concat "," (List.map (fun o -> match o with
        | WPut (k, v) -> h k ^ "=" ^ h v | WDel k -> h k ^ "=~") l) ^ "}"
    | BCount n -> "n:" ^ tok_of_z n
    | BEnd (r, m) -> "end:" ^ res_tok r ^ ":" ^ dump m
    | BNone -> "-") mobs in
  (* ---- the stated deviations on the implementation's observation *)
  let ok = ref true and why = ref "" in
  let fail s = if !ok then (ok := false; why := s) in
  let lay = List.map (fun t -> String.split_on_char ':' t) layers in
  let hidden = List.filter_map (fun l -> match l with ["S"; p] -> Some (hx p) | _ -> None) lay in
  let rec ro_swallowed above = function
    | [] -> None
    | ["R"] :: _ -> Some above
    | ["E"; _] :: t -> ro_swallowed true t   (* any skiperrors above: some refusal may be swallowed *)
    | _ :: t -> ro_swallowed above t in
  let ro = ro_swallowed false lay in
  let top_nokey = (match lay with ["N"] :: _ -> true | _ -> false) in
  (* ---- the theorems' domain: batched / skipkeys / nokeyiserr / cached / readonly layers over the memorydb
     double, used from the top, no batch writes, no layer Write/Reset, no Drop, no re-open.  There every
     live read must be the KvSpec read of the map of the first j accepted writes minus the hidden prefixes,
     for some j between the last certain flush and now, j never decreasing (C23x_stack_reads +
     C23x_batched_stack_refines + C23x_flush_shows_writes); a snapshot shows such a map unfiltered. *)
  let in_domain =
    List.for_all (fun l -> match l with ["B"] | ["S"; _] | ["N"] | ["C"] | ["R"] | ["M"] -> true | _ -> false) lay
    && List.exists (fun l -> l = ["M"]) lay
    && List.for_all (fun o -> match o with ("BW" | "DR" | "LW" | "LR" | "RO") :: _ -> false | _ -> true) ops in
  (* the rule "after a successful Close the base holds the ordered map of all accepted writes" has the SAME
     domain (one predicate, so the two cannot drift apart): a layer Reset/Write, a batch write, a Drop or a
     second handle of the cached producer legitimately change what Close leaves in the base *)
  let plain_batched = in_domain in
  let rec index_of p i = function [] -> -1 | x :: t -> if p x then i else index_of p (i + 1) t in
  let top_b = index_of (fun l -> l = ["B"]) 0 lay in
  let buffered = top_b >= 0 && ro = None in
  let accepted = ref [] (* reversed *) and n_acc = ref 0 and lo = ref 0 in
  let prefix_map j =
    let rec take n l = if n <= 0 then [] else match l with [] -> [] | x :: t -> x :: take (n - 1) t in
    kv_write [] (take j (List.rev !accepted)) in
  let is_hidden kb = List.exists (fun p -> is_prefix p (hx (h kb))) hidden in
  let absent_live kb =
    let rec go = function
      | [] -> "nil"
      | ["S"; p] :: t -> if is_prefix (hx p) (hx (h kb)) then "nil" else go t
      | ["N"] :: _ -> "e2"
      | _ :: t -> go t in go lay in
  let absent_snap = if List.exists (fun l -> l = ["N"]) lay then "e2" else "nil" in
  let expect_read live m o =
    match o with
    | ["G"; k] | ["SG"; _; k] ->
      let kb = key k in
      (match kv_get m kb with
       | Some v when not (live && is_hidden kb) -> "v:" ^ h v
       | _ -> if live then absent_live kb else absent_snap)
    | ["H"; k] | ["SH"; _; k] ->
      let kb = key k in if kv_has m kb && not (live && is_hidden kb) then "1" else "0"
    | ["I"; p; st] | ["SI"; _; p; st] ->
      items (List.filter (fun (kb, _) -> not (live && is_hidden kb)) (kv_iterate m (key p) (key st)))
    | _ -> "?" in
  let rec range a b = if a > b then [] else a :: range (a + 1) b in
  let snap_cands : (string, int list) Hashtbl.t = Hashtbl.create 4 in
  (* cachedproducer on top of the stack: Close is reference counted — with other handles open it closes
     nothing (the store keeps working), the last one really closes, one more is refused with an error *)
  let cached_top = (match lay with ["C"] :: rest ->
      List.for_all (fun l -> match l with ["F"; _] | ["X"; _; _] | ["E"; _] -> false | _ -> true) rest | _ -> false) in
  (* `dead`: the harness keeps using the handle of its FIRST open; once the count has dropped to zero that
     handle's store is really closed and stays closed, whatever later opens (RO) do to the shared counter —
     a closed handle is outside the contract, so nothing is demanded of Put/Get through it any more *)
  let refs = ref 1 and must_work = ref false and dead = ref false in
  (* fallible on top (the only one, no real memorydb below, so nothing else panics): a Put/Close/Drop panics
     exactly when the counter is not positive; every one of them decrements it; Delete is not counted *)
  let fall_top = (match lay with ["F"; _] :: rest ->
      List.for_all (fun l -> match l with ["F"; _] | ["m"] -> false | _ -> true) rest | _ -> false) in
  let cnt = ref (match lay with ["F"; n] :: _ -> int_of_string n | _ -> 0) in
  let logical = ref [] in
  let ended = ref false in
  (try List.iter2 (fun o t ->
    if cached_top && !ok then begin
      (match o with
       | ["RO"; "0"] -> incr refs
       | ["CL"] ->
         if !refs = 0 then (if not (String.length t >= 6 && String.sub t 0 6 = "end:e5") then
                              fail ("Close with no open handle left answered " ^ t ^ ", expected the error of cachedproducer"))
         else if !refs > 1 then begin
           if not (String.length t >= 6 && String.sub t 0 6 = "end:ok") then fail ("Close of one of several handles answered " ^ t);
           decr refs; must_work := not !dead
         end else (decr refs; must_work := false; dead := true)
       | ["DR"] -> must_work := false
       | ("G" | "H") :: _ -> if !must_work && t = "e6" then fail "the store is closed although another handle of the cached producer is still open"
       | ("P" | "D") :: _ -> if !must_work && (t = "panic" || t = "e6") then fail "the store is closed although another handle of the cached producer is still open"
       | _ -> ())
    end;
    if fall_top && !ok then begin
      (match o with
       | ["SC"; "0"; n] -> cnt := int_of_string n
       | ["P"; _; _] | ["CL"] | ["DR"] ->
         let panics = (t = "panic" || (String.length t >= 9 && String.sub t 0 9 = "end:panic")) in
         if panics <> (!cnt <= 0) then
           fail (Printf.sprintf "fallible with counter %d: %s answered %s" !cnt (String.concat " " o) t);
         decr cnt
       | ["GC"; "0"] -> if t <> "n:" ^ string_of_int !cnt then fail ("GetWriteCount answered " ^ t ^ ", counter is " ^ string_of_int !cnt)
       | _ -> ())
    end;
    if in_domain && !ok then begin
      (match o with
       | ("G" | "H" | "I") :: _ ->
         let cands = List.filter (fun j -> expect_read true (prefix_map j) o = t) (range (if buffered then !lo else !n_acc) !n_acc) in
         (match cands with
          | [] -> fail (Printf.sprintf "%s answered %s; no flushed prefix of the accepted writes (between %d and %d of them) gives that: with all of them it would be %s"
                          (String.concat " " o) t !lo !n_acc (expect_read true (prefix_map !n_acc) o))
          | j :: _ -> lo := max !lo j)
       | ("P" | "D") :: _ when t = "ok" ->
         accepted := (match o with ["P"; k; v] -> WPut (key k, key v) | ["D"; k] -> WDel (key k) | _ -> failwith "op") :: !accepted;
         incr n_acc
       | ["FL"; d] when int_of_string d = top_b -> lo := !n_acc
       | ["CL"] when String.length t > 6 && String.sub t 0 7 = "end:ok:" -> lo := !n_acc
       | ["SN"; i] when t = "ok" -> Hashtbl.replace snap_cands i (range (if buffered then !lo else !n_acc) !n_acc)
       | ("SG" | "SH" | "SI") :: i :: _ when t <> "-" ->
         (match Hashtbl.find_opt snap_cands i with
          | Some cs ->
            let cs' = List.filter (fun j -> expect_read false (prefix_map j) o = t) cs in
            if cs' = [] then fail (Printf.sprintf "%s answered %s: not a read of any map the base can have held when the snapshot was taken" (String.concat " " o) t)
            else Hashtbl.replace snap_cands i cs'
          | None -> ())
       | _ -> ())
    end;
    if not !ended then begin
    (match o with
     | ["G"; k] ->
       if String.length t > 2 && String.sub t 0 2 = "v:" && List.exists (fun p -> is_prefix p (hx k)) hidden then
         fail ("Get shows the hidden key " ^ k);
       if top_nokey && t = "nil" then fail "Get through nokeyiserr answered (nil,nil)"
     | ["H"; k] -> if t = "1" && List.exists (fun p -> is_prefix p (hx k)) hidden then fail ("Has shows the hidden key " ^ k)
     | ["I"; _; _] ->
       let body = String.sub t 1 (max 0 (String.length t - 2)) in
       if body <> "" then List.iter (fun e ->
         let k = (match String.index_opt e ':' with Some i -> String.sub e 0 i | None -> e) in
         if List.exists (fun p -> is_prefix p (hx k)) hidden then fail ("iteration shows the hidden key " ^ k))
         (String.split_on_char ',' body)
     | ("P" | "D") :: _ ->
       (match ro with Some false when t = "ok" -> fail "a write through a readonly store succeeded" | _ -> ());
       if t = "ok" then logical := (match o with
         | ["P"; k; v] -> kv_apply !logical (WPut (key k, key v))
         | ["D"; k] -> kv_apply !logical (WDel (key k)) | _ -> !logical)
     | ("BP" | "BD") :: _ -> if ro <> None && t = "ok" then fail "a batch write through a readonly store was accepted"
     | ["CL"] | ["DR"] ->
       ended := true;
       (match String.split_on_char ':' t with
        | "end" :: r :: rest ->
          let d = String.concat ":" rest in
          if ro <> None && d <> "" then fail "the base store under a readonly wrapper is not empty";
          if o = ["CL"] && plain_batched && r = "ok" && d <> dump !logical then
            fail (Printf.sprintf "after Close the base holds [%s], the writes in order give [%s]" d (dump !logical))
        | _ -> ())
     | _ -> ())
    end) ops obs with Invalid_argument _ -> fail "observation length differs from the number of operations");
  let nt = List.exists (fun t -> String.length t > 2 && (String.sub t 0 2 = "v:" || String.sub t 0 2 = "[0" || String.sub t 0 2 = "[6" || String.sub t 0 2 = "[e" || String.sub t 0 2 = "[7")) obs in
  { default_verdict with model_obs; spec_ok = Some !ok; nontrivial = nt; note = !why }

let () = run eval
