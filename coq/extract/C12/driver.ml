(* C12 driver.  Inputs (pairs = id weight id weight ...; probes = ids queried afterwards)
     B <mode> pairs ; probes     build a set (mode: how the harness constructs it)  obs: VS | PANIC
     R <mode> pairs ; probes     build, rlp-encode, generic-decode the bytes (ARR), decode into
                                 Validators (DEC), re-encode (SAME), the bytes themselves (RAW, compared
                                 with the model's RLP encoder)   obs: ORIG VS ARR k id w.. DEC VS SAME b RAW hex | PANIC
     D pairs ; probes            rlp-encode the array AS GIVEN (any order, zeros, duplicates),
                                 DecodeBytes into Validators; model: its own writer, reader, builder
                                                                            obs: VS RAW hex | PANIC
     G pairs ; probes            big builder, stakes = decimal big integers up to 2^256, also negative
                                 ones and nil (outside the property's domain: model comparison only)
                                                                            obs: VS | PANIC
   VS = n I ids W weights X idxs T total L len(Idxs) GI GetID.. GW GetWeightByIdx.. P (get exists getidx)*
   spec side (PosSpec): the reported order is the canonical arrangement (by rank, no sort) of the
   last-written non-zero pairs; idx = position; total = sum; Build panics iff total > 2^31-1;
   decode(encode) reports the same set; big: one common least shift, never panics. *)
open Model
open Conv
open Drv

let rec pairs_of = function
  | [] -> []
  | a :: b :: r -> (n_of_tok a, n_of_tok b) :: pairs_of r
  | _ -> failwith "odd pair list"

let rec range a b = if a >= b then [] else a :: range (a + 1) b
let opt_tok f = function None -> "PANIC" | Some x -> f x

let vs_obs vs probes =
  let ids = sorted_ids vs and ws = sorted_weights vs in
  let n = List.length ids in
  [string_of_int n] @ ("I" :: List.map tok_of_n ids) @ ("W" :: List.map tok_of_n ws)
  @ ("X" :: List.map (fun id -> tok_of_nat (get_idx vs id)) ids)
  @ ["T"; tok_of_n (total_weight vs); "L"; string_of_int (List.length (c_indexes (v_cache vs)))]
  @ ("GI" :: List.map (fun i -> opt_tok tok_of_n (get_id vs (nat_of_int i))) (range 0 n))
  @ ("GW" :: List.map (fun i -> opt_tok tok_of_n (get_weight_by_idx vs (nat_of_int i))) (range 0 n))
  @ ("P" :: List.concat_map (fun id ->
        [tok_of_n (get vs id); tok_of_bool (exists_id vs id); tok_of_nat (get_idx vs id)]) probes)

let labels = ["I"; "W"; "X"; "T"; "L"; "GI"; "GW"; "P"]
(* split a token list into (label, tokens) sections; tokens before the first label get label "" *)
let sections lbls toks =
  let rec go cur acc = function
    | [] -> List.rev ((fst cur, List.rev (snd cur)) :: acc)
    | t :: r when List.mem t lbls -> go (t, []) ((fst cur, List.rev (snd cur)) :: acc) r
    | t :: r -> go (fst cur, t :: snd cur) acc r
  in go ("", []) [] toks
let sec l s = try List.assoc l s with Not_found -> ["?"]

(* the specification of a VS observation for the set [pairs] (already effective, non-zero) *)
let vs_spec (pairs : (n * n) list) (effw : n -> n) (idx_of : n -> nat) probes toks =
  let s = sections labels toks in
  let ids = sec "I" s and ws = sec "W" s in
  let n = List.length pairs in
  List.length ids = List.length ws
  && sec "" s = [string_of_int n]
  && canon_ok pairs (List.map2 (fun a b -> (n_of_tok a, n_of_tok b)) ids ws)
  && sec "X" s = List.map string_of_int (range 0 n)
  && sec "T" s = [tok_of_n (sum_weights pairs)]
  && sec "L" s = [string_of_int n]
  && sec "GI" s = ids && sec "GW" s = ws
  && sec "P" s = List.concat_map (fun id ->
        [tok_of_n (effw id); tok_of_bool (ZA.sign (z_of_n (effw id)) <> 0); tok_of_nat (idx_of id)]) probes

let fits pairs = ZA.leq (z_of_n (sum_weights pairs)) (z_of_n max_total)

(* spec_idx ops id = if eff ops id = 0 then 0 else rank (eff_pairs ops) (id, eff ops id); evaluated
   on the pair set computed once (eff_pairs is quadratic), not through PosSpec.spec_idx per probe *)
let small_spec ops probes obs =
  let pairs = eff_pairs ops in
  let effw id = (match List.assoc_opt id pairs with Some w -> w | None -> N0) in
  let idx_of id = (match List.assoc_opt id pairs with
                   | Some w -> rank pairs (id, w) | None -> nat_of_int 0) in
  match obs with
  | ["PANIC"] -> not (fits pairs)
  | _ -> fits pairs && vs_spec pairs effw idx_of probes obs

let eval inp obs =
  let groups = split_on ";" inp in
  let head = List.hd groups in
  let probes = (match groups with [_; p] -> List.map n_of_tok p | _ -> []) in
  match (match inp with ("S" | "U") :: _ -> inp | _ -> head) with
  | "B" :: _ :: rest ->
    let ops = pairs_of rest in
    let model_obs = (match build ops with None -> ["PANIC"] | Some vs -> vs_obs vs probes) in
    { default_verdict with model_obs; spec_ok = Some (small_spec ops probes obs);
      model_spec_ok = small_spec ops probes model_obs;
      nontrivial = List.length (eff_pairs ops) >= 2 }
  | "D" :: _ :: rest ->
    (* the wire array as given -> model writer -> model reader -> builder *)
    let ops = pairs_of rest in
    let bytes = rlp_array ops in
    let model_obs = (match decode_rlp bytes with
      | None -> ["PANIC"]
      | Some vs -> vs_obs vs probes @ ["RAW"; hex_of_bytes bytes]) in
    let strip o = (match sections ["RAW"] o with (_, a) :: _ -> a | [] -> o) in
    { default_verdict with model_obs; spec_ok = Some (small_spec ops probes (strip obs));
      model_spec_ok = small_spec ops probes (strip model_obs);
      nontrivial = List.length (eff_pairs ops) >= 2 }
  | "R" :: _mode :: rest ->
    let ops = pairs_of rest in
    let arr_toks arr = string_of_int (List.length arr)
                       :: List.concat_map (fun (i, w) -> [tok_of_n i; tok_of_n w]) arr in
    let model_obs = (match build ops with
      | None -> ["PANIC"]
      | Some vs ->
        let arr = encode vs in
        (match decode arr with
         | None -> ["PANIC"]
         | Some vs2 ->
           ("ORIG" :: vs_obs vs probes) @ ("ARR" :: arr_toks arr) @ ("DEC" :: vs_obs vs2 probes)
           @ ["SAME"; tok_of_bool (encode vs2 = arr); "RAW"; hex_of_bytes (encode_rlp vs)])) in
    let spec o =
      let pairs = eff_pairs ops in
      (match o with
       | ["PANIC"] -> not (fits pairs)
       | _ ->
         let s = sections ["ORIG"; "ARR"; "DEC"; "SAME"; "RAW"] o in
         let arr = sec "ARR" s in
         fits pairs
         && vs_spec pairs (eff ops) (spec_idx ops) probes (sec "ORIG" s)
         && sec "DEC" s = sec "ORIG" s
         && sec "SAME" s = ["1"]
         && (match arr with
             | k :: r -> k = string_of_int (List.length pairs) && canon_ok pairs (pairs_of r)
             | [] -> false)) in
    { default_verdict with model_obs; spec_ok = Some (spec obs); model_spec_ok = spec model_obs;
      nontrivial = List.length (eff_pairs ops) >= 2 }
  | "G" :: rest ->
    (* stakes are big.Int pointers: decimal (possibly negative) or "nil" *)
    let rec zpairs = function
      | [] -> []
      | a :: b :: r -> (n_of_tok a, (if b = "nil" then None else Some (z_of_tok b))) :: zpairs r
      | _ -> failwith "odd pair list" in
    let zops = zpairs rest in
    let model_obs = (match zbig_build zops with None -> ["PANIC"] | Some vs -> vs_obs vs probes) in
    (* the property's domain: every stake handed to Set is nil or >= 0 *)
    let in_domain = List.for_all (fun (_, w) ->
      match w with None -> true | Some z -> ZA.sign (zz_of_z z) >= 0) zops in
    if not in_domain then
      { default_verdict with model_obs; spec_ok = None; model_spec_ok = true; nontrivial = false;
        note = "negative stake: outside the domain of C12, model comparison only" }
    else begin
    let ops = List.map (fun (i, w) ->
      (i, (match w with None -> N0 | Some z -> n_of_z (zz_of_z z)))) zops in
    let spec o =
      (match find_shift (nat_of_int 4000) N0 (spec_total ops) with
       | None -> false
       | Some s ->
         let pairs = big_spec_pairs ops s in
         let effw id = (match List.assoc_opt id pairs with Some w -> w | None -> N0) in
         let idx_of id = (match List.assoc_opt id pairs with
                          | Some w -> rank pairs (id, w) | None -> nat_of_int 0) in
         o <> ["PANIC"] && fits pairs && vs_spec pairs effw idx_of probes o) in
    { default_verdict with model_obs; spec_ok = Some (spec obs); model_spec_ok = spec model_obs;
      nontrivial = List.length (eff_pairs ops) >= 2 }
    end
  | "S" :: _mode :: rest0 ->
    (* S <mode> ; set1 ; set2 ; ... ; P probes : successive decodes of the encodings of set1, set2, ...
       into ONE reused target (mode direct / epoch wrapper with a non-nil pointer / stream).
       obs per step:  STEP <VS of the target> RAW <re-encoding of the target> *)
    let gs = List.filter (fun g -> g <> []) (split_on ";" rest0) in
    let sets = List.filter (fun g -> List.hd g <> "P") gs in
    let probes = (match List.filter (fun g -> List.hd g = "P") gs with
                  | [p] -> List.map n_of_tok (List.tl p) | _ -> []) in
    let sets = List.map (fun g -> pairs_of (List.tl g)) sets in   (* each set starts with the token "T" *)
    let rec run t = function
      | [] -> []
      | ops :: r ->
        (match build ops with
         | None -> ["PANIC"]
         | Some vs ->
           (match decode_step t (encode_rlp vs) with
            | (t', DOk _) -> ("STEP" :: vs_obs t' probes) @ ["RAW"; hex_of_bytes (encode_rlp t')] @ run t' r
            | (_, DErr) -> ["ERR"]
            | (_, DPanic) -> ["PANIC"])) in
    let model_obs = run empty_validators sets in
    (* spec: the k-th observation is the canonical form of the k-th set alone *)
    let spec o =
      let steps = List.filter (fun g -> g <> []) (split_on "STEP" o) in
      List.length steps = List.length sets
      && List.for_all2 (fun st ops ->
           (match sections ["RAW"] st with
            | (_, vs_part) :: _ -> small_spec ops probes vs_part
            | [] -> false)) steps sets in
    { default_verdict with model_obs; spec_ok = Some (spec obs); model_spec_ok = spec model_obs;
      nontrivial = List.length sets >= 2 }
  | "U" :: rest0 ->
    (* U ; T set1 ; T set2 ; P probes : one builder: Set set1, Build -> v1, Set set2 on the SAME builder,
       v1 observed again, Build -> v2; then v1.Builder() mutated and v1.Copy(): v1 must not change.
       obs: V1 vs V1AGAIN vs V2 vs V1FINAL vs COPY vs *)
    let gs = List.filter (fun g -> g <> []) (split_on ";" rest0) in
    let sets = List.map (fun g -> pairs_of (List.tl g)) (List.filter (fun g -> List.hd g = "T") gs) in
    let probes = (match List.filter (fun g -> List.hd g = "P") gs with
                  | [p] -> List.map n_of_tok (List.tl p) | _ -> []) in
    (match sets with
     | [s1; s2] ->
       let o ops = (match build ops with None -> ["PANIC"] | Some vs -> vs_obs vs probes) in
       let model_obs = ("V1" :: o s1) @ ("V1AGAIN" :: o s1) @ ("V2" :: o (s1 @ s2)) @ ("V1FINAL" :: o s1) @ ("COPY" :: o s1) in
       let spec ob =
         let s = sections ["V1"; "V1AGAIN"; "V2"; "V1FINAL"; "COPY"] ob in
         small_spec s1 probes (sec "V1" s) && small_spec s1 probes (sec "V1AGAIN" s)
         && small_spec (s1 @ s2) probes (sec "V2" s) && small_spec s1 probes (sec "V1FINAL" s)
         && small_spec s1 probes (sec "COPY" s) in
       { default_verdict with model_obs; spec_ok = Some (spec obs); model_spec_ok = spec model_obs }
     | _ -> failwith "bad U case")
  | _ -> failwith "bad case"

let () = run eval
