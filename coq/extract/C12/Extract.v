From Coq Require Import ExtrOcamlBasic NArith ZArith List.
From LV Require Import lib.Conv lib.WordArith model.Pos model.PosRlp model.PosBig spec.PosSpec.
Extraction "model.ml" conv_roots build zbig_build total_weight quorum sorted_ids sorted_weights
  get_idx get_id get_weight_by_idx get exists_id c_indexes v_cache encode decode encode_rlp rlp_array decode_rlp decode_step empty_validators
  eff eff_pairs spec_total max_total spec_idx canon_ok sum_weights find_shift big_spec_pairs rank.
