From Coq Require Import ExtrOcamlBasic NArith List.
From LV Require Import lib.Conv lib.Bytes model.Codec model.IdOrder model.EncHist.
Extraction "model.ml" conv_roots be le unbe_k unle_k event_id id_epoch id_lamport
  triple_compare lex_compare cmp_to_N brun bspec builder0 less_ids id_sort tless triples_sorted hrun enc_of.
