(* C32 driver: inputs
     BE k n        -> obs: hex(bytes) decoded
     LE k n        -> obs: hex(bytes) decoded
     CMP k a b     -> obs: cmp(bytes.Compare(be a, be b))   (0 lt,1 eq,2 gt)
     ID e l tail   -> obs: hex(id) epoch lamport
     IDCMP e1 l1 t1 e2 l2 t2 -> obs: cmp of ids
   spec side: decode = n ; cmp = N.compare ; id order = triple order. *)
open Model
open Conv
open Drv

let cmp_tok c = tok_of_n (cmp_to_N c)
let ncmp a b = let c = ZA.compare (z_of_n a) (z_of_n b) in if c < 0 then "0" else if c = 0 then "1" else "2"

let eval inp obs =
  match inp with
  | "BE" :: k :: n :: _ ->
    let k = nat_of_tok k and n = n_of_tok n in
    let bs = be k n in
    { default_verdict with model_obs = [hex_of_bytes bs; tok_of_n (unbe_k k bs)];
      spec_ok = (match obs with [_; d] -> Some (d = tok_of_n n) | _ -> Some false) }
  | ["LE"; k; n] ->
    let k = nat_of_tok k and n = n_of_tok n in
    let bs = le k n in
    { default_verdict with model_obs = [hex_of_bytes bs; tok_of_n (unle_k k bs)];
      spec_ok = (match obs with [_; d] -> Some (d = tok_of_n n) | _ -> Some false) }
  | "CMP" :: k :: a :: b :: _ ->
    let k = nat_of_tok k and a = n_of_tok a and b = n_of_tok b in
    { default_verdict with model_obs = [cmp_tok (lex_compare (be k a) (be k b))];
      spec_ok = Some (obs = [ncmp a b]) }
  | ["ID"; e; l; t] ->
    let e = n_of_tok e and l = n_of_tok l and t = bytes_of_hex t in
    let id = event_id e l t in
    { default_verdict with model_obs = [hex_of_bytes id; tok_of_n (id_epoch id); tok_of_n (id_lamport id)];
      spec_ok = (match obs with [_; e'; l'] -> Some (e' = tok_of_n e && l' = tok_of_n l) | _ -> Some false) }
  | ["IDCMP"; e1; l1; t1; e2; l2; t2] ->
    let e1 = n_of_tok e1 and l1 = n_of_tok l1 and t1 = bytes_of_hex t1
    and e2 = n_of_tok e2 and l2 = n_of_tok l2 and t2 = bytes_of_hex t2 in
    { default_verdict with
      model_obs = [cmp_tok (lex_compare (event_id e1 l1 t1) (event_id e2 l2 t2))];
      spec_ok = Some (obs = [cmp_tok (triple_compare ((e1, l1), t1) ((e2, l2), t2))]) }
  | "IDSEQ" :: rest ->
    (* IDSEQ ; E e ; L l ; S tail ; B tail ; ...   obs: one "hex(id) epoch lamport" triple per S/B *)
    let groups = List.filter (fun g -> g <> []) (split_on ";" rest) in
    let ops = List.map (function
      | ["E"; e] -> BSetEpoch (n_of_tok e)
      | ["L"; l] -> BSetLamport (n_of_tok l)
      | ["S"; t] -> BSetID (bytes_of_hex t)
      | ["B"; t] -> BBuild (bytes_of_hex t)
      | _ -> failwith "bad builder op") groups in
    let ids = brun builder0 ops in
    let mo = List.concat (List.map (fun id -> [hex_of_bytes id; tok_of_n (id_epoch id); tok_of_n (id_lamport id)]) ids) in
    let spec = bspec N0 N0 ops in
    let rec chk obs spec = match obs, spec with
      | [], [] -> true
      | _ :: e :: l :: r, (se, sl) :: sr -> e = tok_of_n se && l = tok_of_n sl && chk r sr
      | _ -> false in
    { default_verdict with model_obs = mo; spec_ok = Some (chk obs spec);
      nontrivial = List.length ids >= 2 }
  | ["IDLESS"; e1; l1; t1; e2; l2; t2] ->
    (* hash.OrderedEvents{a, b}.Less(0, 1) *)
    let e1 = n_of_tok e1 and l1 = n_of_tok l1 and t1 = bytes_of_hex t1
    and e2 = n_of_tok e2 and l2 = n_of_tok l2 and t2 = bytes_of_hex t2 in
    { default_verdict with
      model_obs = [tok_of_bool (less_ids (event_id e1 l1 t1) (event_id e2 l2 t2))];
      spec_ok = Some (obs = [tok_of_bool (tless ((e1, l1), t1) ((e2, l2), t2))]) }
  | "IDSORT" :: rest ->
    (* IDSORT e l tail e l tail ...   obs: the ids as hash.OrderedEvents.ByEpochAndLamport leaves them *)
    let rec triples = function
      | [] -> []
      | e :: l :: t :: r -> ((n_of_tok e, n_of_tok l), bytes_of_hex t) :: triples r
      | _ -> failwith "bad triple list" in
    let ts = triples rest in
    let ids = List.map (fun ((e, l), t) -> event_id e l t) ts in
    let model_obs = List.map hex_of_bytes (id_sort ids) in
    (* spec on the observation: a permutation of the input ids whose decoded (epoch, lamport, tail)
       triples are in non-decreasing order *)
    let rec drop k l = if k = 0 then l else (match l with [] -> [] | _ :: r -> drop (k - 1) r) in
    let spec o =
      let obs_ids = List.map bytes_of_hex o in
      let dec = List.map (fun id -> ((id_epoch id, id_lamport id), drop 8 id)) obs_ids in
      List.sort compare o = List.sort compare (List.map hex_of_bytes ids) && triples_sorted dec in
    { default_verdict with model_obs; spec_ok = Some (spec obs); model_spec_ok = spec model_obs;
      nontrivial = List.length ts >= 2 }
  | "ENCHIST" :: rest ->
    (* ENCHIST ; E k sel v ; L k v ; A i hex ; W i pos b ; X i k sel v ; D k i
       obs: one token per step: hex of the returned encoding at the time of return (E, L, X), the
       decoded number or "short" (D), "-" for caller-side mutations (A, W) *)
    let groups = List.filter (fun g -> g <> []) (split_on ";" rest) in
    let ops = List.map (function
      | ["E"; k; _; v] -> HEnc (nat_of_tok k, n_of_tok v)
      | ["L"; k; v] -> HLe (nat_of_tok k, n_of_tok v)
      | ["A"; i; h] -> HAppend (nat_of_tok i, bytes_of_hex h)
      | ["W"; i; pos; b] -> HWrite (nat_of_tok i, nat_of_tok pos, n_of_tok b)
      | ["X"; i; k; _; v] -> HAppendEnc (nat_of_tok i, nat_of_tok k, n_of_tok v)
      | ["D"; k; i] -> HDec (nat_of_tok k, nat_of_tok i)
      | _ -> failwith "bad history op") groups in
    let tok = function
      | OBytes bs -> if bs = [] then "empty" else hex_of_bytes bs
      | ONum n -> tok_of_n n | OShort -> "short" | ONone -> "-" in
    let model_obs = List.map tok (hrun [] ops) in
    (* spec: every encoder call returns the encoding of its own argument, whatever came before *)
    let rec chk ops obs = (match ops, obs with
      | [], [] -> true
      | op :: r, o :: ro ->
        (match enc_of op with Some bs -> o = tok (OBytes bs) | None -> true) && chk r ro
      | _ -> false) in
    { default_verdict with model_obs; spec_ok = Some (chk ops obs); model_spec_ok = chk ops model_obs;
      nontrivial = List.exists (function HAppend _ | HWrite _ | HAppendEnc _ -> true | _ -> false) ops }
  | _ -> failwith "bad case"

let () = run eval
