(* C29 driver.  Case:  <impl S|W> <maxWeight> <maxSize> ; op ; op ; ...
     ops: A k v w | G k | P k | C k | R k | RO | GO | K | L | WT | Z mw ms | PU | CA k v w | PA k v w
   impl observation:  NEW ok|ERR  then per op  ; <res> <ev> <st>
     res: n<cnt> | v<val|-> | b<0|1> | kv<k:v|-> | ks<k,k,..|-> | #<num> | u | f<b>:<n> | p<v|->:<n>
     ev : e<k:v,k:v,...|->      callback log of this op in call order (purge: sorted by key)
     st : s<len>:<weight>:<k,k,..|->   Len, Weight, Keys after the op
   model side: extracted Wlru.step; spec side: extracted LruSpec.s_step (recency list, no
   cached weight) + direct bound / distinct-key checks on the implementation's st tokens. *)
open Model
open Conv
open Drv

let keqb = N.eqb
let tn = tok_of_n
let join sep f l = if l = [] then "-" else String.concat sep (List.map f l)
(* values: numbers; "nil" (Go's nil interface) and "es" (the empty string) are two further values,
   encoded above the uint64 range; the model treats them like any other value *)
let v_nil = n_of_z (ZA.shift_left ZA.one 64)
let v_es = n_of_z (ZA.succ (ZA.shift_left ZA.one 64))
let v_of_tok s = if s = "nil" then v_nil else if s = "es" then v_es else n_of_tok s
let tv v = if v = v_nil then "nil" else if v = v_es then "es" else tn v
let kvtok (k, v) = tn k ^ ":" ^ tv v

let res_tok (r : (n, n) res) : string =
  match r with
  | RCount c -> "n" ^ tn c
  | RVal None -> "v-"
  | RVal (Some v) -> "v" ^ tv v
  | RBool b -> "b" ^ tok_of_bool b
  | RKV None -> "kv-"
  | RKV (Some p) -> "kv" ^ kvtok p
  | RKeys l -> "ks" ^ join "," tn l
  | RNum x -> "#" ^ tn x
  | RUnit -> "u"
  | RFoundCount (b, c) -> "f" ^ tok_of_bool b ^ ":" ^ tn c
  | RPrevCount (None, c) -> "p-:" ^ tn c
  | RPrevCount (Some v, c) -> "p" ^ tv v ^ ":" ^ tn c

let sort_log l = List.sort (fun (a, x) (b, y) ->
  let c = ZA.compare (z_of_n a) (z_of_n b) in if c <> 0 then c else ZA.compare (z_of_n x) (z_of_n y)) l

let parse_op (t : string list) : (n, n) op =
  match t with
  | ["A"; k; v; w] -> OAdd (n_of_tok k, v_of_tok v, n_of_tok w)
  | ["G"; k] -> OGet (n_of_tok k)
  | ["P"; k] -> OPeek (n_of_tok k)
  | ["C"; k] -> OContains (n_of_tok k)
  | ["R"; k] -> ORemove (n_of_tok k)
  | ["RO"] -> ORemoveOldest
  | ["GO"] -> OGetOldest
  | ["K"] -> OKeys
  | ["L"] -> OLen
  | ["WT"] -> OWeight
  | ["Z"; mw; ms] -> OResize (n_of_tok mw, z_of_tok ms)
  | ["PU"] -> OPurge
  | ["CA"; k; v; w] -> OContainsOrAdd (n_of_tok k, v_of_tok v, n_of_tok w)
  | ["PA"; k; v; w] -> OPeekOrAdd (n_of_tok k, v_of_tok v, n_of_tok w)
  | _ -> failwith ("bad op: " ^ String.concat " " t)

let is_purge = function OPurge -> true | _ -> false

let hide_log = ref false
let obs_of o r lg len wt ks =
  let lg = if is_purge o then sort_log lg else lg in
  [res_tok r; (if !hide_log then "e~" else "e" ^ join "," kvtok lg); "s" ^ tn len ^ ":" ^ tn wt ^ ":" ^ join "," tn ks]

(* direct checks on the implementation's state token against the bounds in force *)
let st_ok (tok : string) (mw : ZA.t) (ms : ZA.t) : bool =
  if String.length tok < 1 || tok.[0] <> 's' then false else
  match String.split_on_char ':' (String.sub tok 1 (String.length tok - 1)) with
  | [l; w; ks] ->
    let l = ZA.of_string l and w = ZA.of_string w in
    let keys = if ks = "-" then [] else String.split_on_char ',' ks in
    let distinct = List.length (List.sort_uniq compare keys) = List.length keys in
    ZA.leq l ms && ZA.leq w mw && distinct && ZA.equal (ZA.of_int (List.length keys)) l
  | _ -> false

let eval inp obs =
  match split_on ";" inp with
  | [impl; mw; ms] :: ops ->
    let has_suffix s suf = let n = String.length s and m = String.length suf in n >= m && String.sub s (n - m) m = suf in
    let big = has_suffix impl "big" in
    let nocb = has_suffix impl "n" in   (* built without a callback: the log is unobservable, everything else identical *)
    hide_log := nocb;
    let mwn = n_of_tok mw and msz = z_of_tok ms in
    let ops = List.filter (fun o -> o <> []) ops in
    (match new0 mwn msz, s_new mwn msz with
     | None, sn ->
       { default_verdict with model_obs = ["NEW"; "ERR"];
         spec_ok = Some (sn = None && obs = ["NEW"; "ERR"]); nontrivial = false }
     | Some c0, sn ->
       let s0 = (match sn with Some s -> s | None -> failwith "spec rejects") in
       let impl_ops = (match split_on ";" obs with _ :: r -> r | [] -> []) in
       let c = ref c0 and s = ref s0 in
       let mobs = ref [["NEW"; "ok"]] and sobs = ref [["NEW"; "ok"]] in
       let evicted = ref false and direct_ok = ref true in
       let cur_mw = ref (z_of_n mwn) and cur_ms = ref (zz_of_z msz) in
       let impl_rest = ref impl_ops in
       List.iter (fun t ->
         let o = parse_op t in
         let ((c', r), lg) = step keqb !c o in
         c := c';
         (match o with OAdd _ | OResize _ | OContainsOrAdd _ | OPeekOrAdd _ -> if lg <> [] then evicted := true | _ -> ());
         mobs := obs_of o r lg (len c') (weight c') (keys c') :: !mobs;
         let ((s', r2), lg2) = s_step keqb !s o in
         s := s';
         sobs := obs_of o r2 lg2 (n_of_z (ZA.of_int (List.length s'.s_items))) (total s'.s_items)
                   (List.map (fun ((k, _), _) -> k) s'.s_items) :: !sobs;
         (match o with OResize (a, b) -> cur_mw := z_of_n a; cur_ms := (let z = zz_of_z b in if ZA.sign z < 0 then ZA.zero else z) | _ -> ());
         (match !impl_rest with
          | [_; _; st] :: rest -> impl_rest := rest; if not (st_ok st !cur_mw !cur_ms) then direct_ok := false
          | _ :: rest -> impl_rest := rest; direct_ok := false
          | [] -> direct_ok := false)) ops;
       let flat l = String.concat " ; " (List.map (String.concat " ") (List.rev l)) in
       let model_s = flat !mobs and spec_s = flat !sobs in
       let impl_s = String.concat " " obs in
       { default_verdict with
         model_obs = tokens model_s;
         spec_ok = (if big then None else Some (impl_s = spec_s && !direct_ok));
         model_spec_ok = big || ((model_s = spec_s) && not !c.c_stuck);
         nontrivial = !evicted;
         note = (if big then "" else if impl_s <> spec_s then "spec=[" ^ spec_s ^ "]" else if not !direct_ok then "bound/distinct check failed" else "") })
  | _ -> failwith "bad case"

let () = run eval
