From Coq Require Import ExtrOcamlBasic NArith ZArith List.
From LV Require Import lib.Conv model.Wlru spec.LruSpec.
Extraction "model.ml" conv_roots Wlru.new Wlru.step Wlru.keys Wlru.len Wlru.weight Wlru.c_stuck
  LruSpec.s_new LruSpec.s_step LruSpec.total N.eqb.
