From Coq Require Import ExtrOcamlBasic NArith List.
From LV Require Import lib.Conv model.VecIndex spec.FcSpec spec.ElectionSpec.
Extraction "model.ml" conv_roots reference reference_epochs fc_crosscheck.
