From Coq Require Import ExtrOcamlBasic NArith List.
From LV Require Import lib.Conv model.VecIndex spec.FcSpec spec.ElectionSpec model.Abft model.AbftRun.
Extraction "model.ml" conv_roots reference reference_epochs delivered_spec next_vals fc_crosscheck run start sample.
