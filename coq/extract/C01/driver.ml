(* C01 driver.  obs = per instance:  I|S <number of rejected fed events> B... L e f
   Instances "I" were fed the whole event set (each in its own parents-first order), instance "S" an
   ancestor-closed strict subset (the first m events of the case, shuffled parents-first).
   spec_ok (the property on the implementation alone): every instance accepted every event (required
   when the input is valid, i.e. the reference accepts every event; shrunk inputs may not be), all "I"
   instances emitted the same blocks / epoch / last decided frame, and the blocks of the "S" instance are
   an initial segment of theirs.
   model_obs: the extracted reference (a function of the event SET): all events accepted, blocks =
   blocks_spec of the full set resp. of the subset.
   model_spec_ok: the extracted line-by-line model of abft (model/AbftRun.v), run in creation order, in
   latest-ready-first order and on the subset, gives the reference's observation (impl_refines_spec and
   C01_full, tested on the model). *)
open Model
open Conv
open Drv
open Refparse
open Refrunabft

let split_inst (toks : string list) : string list list =
  let rec go cur acc = function
    | [] -> List.rev (if cur = [] then acc else List.rev cur :: acc)
    | ("I" | "S") as t :: r -> go [t] (if cur = [] then acc else List.rev cur :: acc) r
    | t :: r -> go (t :: cur) acc r in
  go [] [] toks

(* the block groups of an instance's tokens: "B" e f a s k c1..ck *)
let block_groups (toks : string list) : string list list =
  let rec go cur acc = function
    | [] -> List.rev (if cur = [] then acc else List.rev cur :: acc)
    | "B" :: r -> go ["B"] (if cur = [] then acc else List.rev cur :: acc) r
    | "L" :: _ -> List.rev (if cur = [] then acc else List.rev cur :: acc)
    | t :: r -> if cur = [] then go cur acc r else go (t :: cur) acc r in
  go [] [] toks

let rec is_prefix a b = match a, b with
  | [], _ -> true
  | x :: a', y :: b' -> x = y && is_prefix a' b'
  | _ -> false

(* the scenario restricted to its first m events *)
let truncate (s : scn) (m : int) : scn =
  let left = ref m in
  let eps = List.filter_map (fun d ->
      if !left <= 0 then None else begin
        let k = min !left (List.length d) in
        left := !left - k;
        Some (List.filteri (fun i _ -> i < k) d) end) s.eps in
  let eps = if eps = [] then [[]] else eps in
  { s with eps; nev = min m s.nev }

let eval inp obs =
  let s = parse inp in
  let k, kinds = (match s.extra with k :: r -> int_of_string k, r | [] -> 0, []) in
  let res = run_reference s in
  let all_ok = all_codes_zero res in
  let full = block_tokens s res in
  let sub_m = List.fold_left (fun acc t -> match String.split_on_char ':' t with
      | ["8"; m; _] -> Some (int_of_string m) | _ -> acc) None kinds in
  let ssub = (match sub_m with Some m -> Some (truncate s m) | None -> None) in
  let sub = (match ssub with Some s' -> block_tokens s' (run_reference s') | None -> []) in
  let m = List.concat (List.filteri (fun i _ -> i < k) (List.map (fun t ->
      match String.split_on_char ':' t with
      | ["8"; _; _] -> ["S"; "0"] @ sub
      | _ -> ["I"; "0"] @ full) kinds)) in
  let insts = split_inst obs in
  let fulls = List.filter (fun i -> match i with "I" :: _ -> true | _ -> false) insts in
  let subs = List.filter (fun i -> match i with "S" :: _ -> true | _ -> false) insts in
  let tails = List.map (fun i -> match i with _ :: _ :: t -> t | _ -> ["?"]) fulls in
  let accepted = List.for_all (fun i -> match i with _ :: c :: _ -> c = "0" | _ -> false) insts in
  let same = (match tails with [] -> true | t :: r -> List.for_all (fun x -> x = t) r) in
  let prefix_ok = (match tails with
      | [] -> true
      | t :: _ -> List.for_all (fun i -> is_prefix (block_groups i) (block_groups t)) subs) in
  (* the abft model: creation order, latest-ready-first, subset *)
  let a1 = c01_tokens s "I" (creation_order s) in
  let a2 = c01_tokens s "I" (latest_ready_first s) in
  let a3 = (match ssub with Some s' -> c01_tokens s' "S" (creation_order s') | None -> ["S"; "0"] @ sub) in
  let model_ok = (not all_ok) || (a1 = ["I"; "0"] @ full && a2 = ["I"; "0"] @ full && a3 = ["S"; "0"] @ sub) in
  { default_verdict with model_obs = m;
    spec_ok = Some ((accepted || not all_ok) && same && prefix_ok && List.length insts = k);
    model_spec_ok = model_ok;
    nontrivial = any_block res;
    note = (if not same then "instances disagree" else if not prefix_ok then "subset instance is not a prefix"
            else if not accepted then "an instance rejected an event"
            else if not model_ok then "abft model differs from the reference: " ^ String.concat " " a1 ^ " / " ^ String.concat " " a2 ^ " / " ^ String.concat " " a3
            else "") }

let () = run eval
