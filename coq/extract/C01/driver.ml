(* C01 driver.  obs = per instance:  I <number of rejected fed events> B... L e f
   spec_ok (the property on the implementation alone): every instance accepted every event (required
   when the input is valid, i.e. the reference accepts every event; shrunk inputs may not be) and all
   instances emitted the same blocks / last decided frame.
   model_obs: the extracted reference (a function of the event SET, hence the same for every
   order): all events accepted, blocks = blocks_spec. *)
open Model
open Conv
open Drv
open Refparse

let rec split_inst (toks : string list) : string list list =
  (* split on "I" *)
  let rec go cur acc = function
    | [] -> List.rev (if cur = [] then acc else List.rev cur :: acc)
    | "I" :: r -> go ["I"] (if cur = [] then acc else List.rev cur :: acc) r
    | t :: r -> go (t :: cur) acc r in
  go [] [] toks

let eval inp obs =
  let s = parse inp in
  let k = (match s.extra with k :: _ -> int_of_string k | [] -> 0) in
  let res = run_reference s in
  let all_ok = all_codes_zero res in
  let one = ["I"; "0"] @ block_tokens res in
  let m = List.concat (List.init k (fun _ -> one)) in
  let insts = split_inst obs in
  let tails = List.map (fun i -> match i with _ :: _ :: t -> t | _ -> ["?"]) insts in
  let accepted = List.for_all (fun i -> match i with _ :: c :: _ -> c = "0" | _ -> false) insts in
  let same = (match tails with [] -> true | t :: r -> List.for_all (fun x -> x = t) r) in
  { default_verdict with model_obs = m;
    spec_ok = Some ((accepted || not all_ok) && same && List.length insts = k);
    model_spec_ok = true;
    nontrivial = any_block res;
    note = (if not same then "instances disagree" else if not accepted then "an instance rejected an event" else "") }

let () = run eval
