(* C14 driver.  One case = one history of the ordering buffer:
     <limN> <limS> FC <k> (<eid> <nth>)*k FP <k> (<eid> <nth>)*k ; op ; op ...
     op ::= P <eid> <size> <npar> <parent eid>*npar | K (Clear) | X <eid> (connect outside)
   (eid,nth) in FC/FP: the Check/Process callback fails for that event id, always (nth=0) or on
   its nth call.  Observation = the whole callback log:
     C.c.e.ok  P.c.e.ok  R.c.e.err  X.e  D.c.complete.num.size (PushEvent returned, Total())
     K.num.size (Clear returned, Total())
   model_obs = log of the extracted model (repaired pushEvent); spec_ok = c14_check (the
   executable T1..T5) on the IMPLEMENTATION's log. *)
open Model
open Conv
open Drv

let rec take_pairs k l acc =
  if k = 0 then (List.rev acc, l) else
  match l with
  | e :: n :: r -> take_pairs (k - 1) r ((n_of_tok e, n_of_tok n) :: acc)
  | _ -> failwith "bad oracle table"

let parse_header h =
  match h with
  | ln :: ls :: "FC" :: k :: r ->
    let tc, r = take_pairs (int_of_string k) r [] in
    (match r with
     | "FP" :: k :: r ->
       let tp, r = take_pairs (int_of_string k) r [] in
       if r <> [] then failwith "trailing header";
       (n_of_tok ln, n_of_tok ls, tc, tp)
     | _ -> failwith "bad header")
  | _ -> failwith "bad header"

let parse_op o =
  match o with
  | ["G"; _] -> failwith "G"
  | ["O"; _] -> failwith "O"
  | "P" :: e :: sz :: np :: ps ->
    if List.length ps <> int_of_string np then failwith "bad parents";
    OpPush (n_of_tok e, List.map n_of_tok ps, n_of_tok sz)
  | ["K"] -> OpClear
  | ["X"; e] -> OpConnect (n_of_tok e)
  | _ -> failwith "bad op"

let filter_map f l = List.fold_right (fun x a -> match f x with Some y -> y :: a | None -> a) l []
let b01 b = if b then "1" else "0"
let tok_of_out o =
  match o with
  | OCheck (c, e, ok) -> Printf.sprintf "C.%s.%s.%s" (tok_of_n c) (tok_of_n e) (b01 ok)
  | OProcess (c, e, ok) -> Printf.sprintf "P.%s.%s.%s" (tok_of_n c) (tok_of_n e) (b01 ok)
  | OReleased (c, e, err) -> Printf.sprintf "R.%s.%s.%s" (tok_of_n c) (tok_of_n e) (tok_of_n err)
  | OConnect e -> Printf.sprintf "X.%s" (tok_of_n e)
  | OPushed (c, ok, n, s) -> Printf.sprintf "D.%s.%s.%s.%s" (tok_of_n c) (b01 ok) (tok_of_n n) (tok_of_n s)
  | OCleared (n, s) -> Printf.sprintf "K.%s.%s" (tok_of_n n) (tok_of_n s)

let out_of_tok t =
  match String.split_on_char '.' t with
  | ["C"; c; e; ok] -> OCheck (n_of_tok c, n_of_tok e, ok = "1")
  | ["P"; c; e; ok] -> OProcess (n_of_tok c, n_of_tok e, ok = "1")
  | ["R"; c; e; err] -> OReleased (n_of_tok c, n_of_tok e, n_of_tok err)
  | ["X"; e] -> OConnect (n_of_tok e)
  | ["D"; c; ok; n; s] -> OPushed (n_of_tok c, ok = "1", n_of_tok n, n_of_tok s)
  | ["K"; n; s] -> OCleared (n_of_tok n, n_of_tok s)
  | _ -> failwith ("bad obs token " ^ t)

(* the case reached the mechanism: some copy other than the one being pushed was processed
   (the recursion over waiting children ran), or something was spilled *)
let reached log =
  let rec go pend = function
    | [] -> false
    | OProcess (c, _, _) :: r -> go (c :: pend) r
    | OPushed (c, _, _, _) :: r -> if List.exists (fun c' -> c' <> c) pend then true else go [] r
    | OReleased (_, _, err) :: r when tok_of_n err = "4" -> true
    | _ :: r -> go pend r
  in go [] log

(* concurrent histories (an op "G n"): the observation starts with L.<script push indices in
   linearised order>; the pushes are replayed in that order (non-push ops are barriers and keep
   their places).  Total() after a push is not observable there: D tokens carry "?"; for the
   executable specification the missing numbers are filled with pushed-released / 0, so that
   T1, T2, T3 (released at most once, exactly once after Clear) and T5 are checked but T4 and the
   count clause of T3 are not. *)
let is_push = function OpPush _ -> true | _ -> false
let reorder ops perm =
  let pushes = Array.of_list (List.filter is_push ops) in
  let perm = Array.of_list perm in
  if Array.length perm <> Array.length pushes then failwith "bad linearisation";
  let k = ref 0 in
  List.map (fun o -> if is_push o then begin let p = pushes.(perm.(!k)) in incr k; p end else o) ops

let conc_tok t =
  match String.split_on_char '.' t with
  | ["D"; c; ok; _; _] -> Printf.sprintf "D.%s.%s.?.?" c ok
  | _ -> t

let fill_unknown obs =
  let pushed = ref 0 and released = ref 0 in
  List.map (fun t ->
    match String.split_on_char '.' t with
    | ["D"; c; ok; "?"; "?"] -> incr pushed; Printf.sprintf "D.%s.%s.%d.0" c ok (!pushed - !released)
    | "R" :: _ -> incr released; t
    | _ -> t) obs

let eval inp obs =
  let groups = split_on ";" inp in
  let header, ops = (match groups with h :: r -> h, r | [] -> failwith "empty") in
  let (ln, ls, tc, tp) = parse_header header in
  let concurrent = List.exists (fun o -> match o with ["G"; _] -> true | _ -> false) ops in
  (* "O <flags>": the buffer is built without its optional callbacks (r: Released == nil, c: Check ==
     nil).  The code sets the per-copy `released` flag and skips the check regardless of whether
     anybody listens: the model's OReleased / OCheck entries are then internal events, projected
     out of the observation.  Without Released lines T3 (and "never after Released") cannot be
     observed: the specification evaluated on the implementation's log is T1, T2 (at most one
     Process per copy), T4 and T5. *)
  let flags = String.concat "" (filter_map (fun o -> match o with ["O"; f] -> Some f | _ -> None) ops) in
  let no_released = String.contains flags 'r' and no_check = String.contains flags 'c' in
  let tc = if no_check then [] else tc in
  let project toks = List.filter (fun t -> not ((no_released && String.length t > 1 && String.sub t 0 2 = "R.")
                                              || (no_check && String.length t > 1 && String.sub t 0 2 = "C."))) toks in
  (* "R k": the SAME Go object as the k-th push is pushed again; for the buffer it is a new copy of
     the same event *)
  let ops =
    let pushes = ref [] in
    List.map (fun o ->
      let p = (match o with
        | ["R"; k] -> (try List.nth (List.rev !pushes) (int_of_string k) with _ -> failwith "bad re-push")
        | _ -> parse_op o) in
      (match p with OpPush _ -> pushes := p :: !pushes | _ -> ());
      p) (List.filter (fun o -> match o with ["G"; _] | ["O"; _] -> false | _ -> true) ops) in
  let ltok, obs_rest, ops =
    if not concurrent then [], obs, ops else
    (match obs with
     | l :: rest when String.length l >= 2 && String.sub l 0 2 = "L." ->
       let body = String.sub l 2 (String.length l - 2) in
       let perm = if body = "" then [] else List.map int_of_string (String.split_on_char '_' body) in
       [l], rest, reorder ops perm
     | _ -> [], obs, ops) in
  let s = run_tbl true tc tp ln ls ops in
  let mlog = List.rev (log s) in
  let mtoks = List.map tok_of_out mlog in
  let mobs = ltok @ project (if concurrent then List.map conc_tok mtoks else mtoks) @ (if oof s then ["OOF"] else []) in
  let ilog = (try Some (List.map out_of_tok (if concurrent then fill_unknown obs_rest else obs_rest)) with _ -> None) in
  let spec_ok, note =
    (match ilog with
     | None -> Some false, "unparsable-observation"
     | Some l when no_released ->
       let cs = copies_of ops in
       if not (t1_walk cs [] l) then Some false, "spec-clause=T1"
       else if not (t2_walk [] [] l) then Some false, "spec-clause=T2"
       else if not (t4_walk ln ls l) then Some false, "spec-clause=T4"
       else if not (t5_check ln ls ops l) then Some false, "spec-clause=T5"
       else Some true, ""
     | Some l ->
       let f = c14_first_failure ln ls ops l in
       if tok_of_n f = "0" then Some true, ""
       else Some false, "spec-clause=T" ^ tok_of_n f) in
  { default_verdict with
    model_obs = mobs; spec_ok = spec_ok; note = note;
    model_spec_ok = c14_check ln ls ops mlog && not (oof s);
    nontrivial = reached mlog }

let () = run eval
