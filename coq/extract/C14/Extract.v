From Coq Require Import ExtrOcamlBasic NArith List.
From LV Require Import lib.Conv model.Buffer spec.BufferSpec.
Extraction "model.ml" conv_roots run_tbl log oof c14_check c14_first_failure t5_premise t1_walk t2_walk t4_walk t5_check copies_of.
