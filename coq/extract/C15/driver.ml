(* C15 driver.  One case = one run of the processor:
     <capN> <capS> <limN> <limS> <H0> <G> FC <k> (<eid> <nth>)*k FP <k> (<eid> <nth>)*k ; batch ; batch ...
     batch ::= B <b> <ordered> <goroutine> <hold> <n> (<eid> <size> <lamport> <bad> <npar> <parents..>)*n PERM <p_0..p_{n-1}>
   FC/FP script the CheckParents / Process callbacks (as in C14); <bad>=1: CheckParentless reports an
   error; PERM = order in which the harness fires the `checked` closures (the last <hold> of them are
   never fired: the batch is cut short by Stop).  Events are numbered g = 0,1,2.. in script order.
   Observation: the inserter's callback log
     H (HighestLamport)  A.g (process entered for g)  C.g.e.ok  P.g.e.ok  R.g.e.err  N.b.ids  Z.b (done)
   then Q.hn.hs.bn.bs (Processing(), TotalBuffered() once everything accepted is handled), the
   callbacks of Stop(), Y, S.hn.hs (Processing() after Stop), W (semaphore warning fired),
   M.<all Processing() samples within capacity>, BZ.b (Enqueue returned ErrBusy).
   Schedule information taken from the observation: the order of the Z.b markers (= order in which
   the batches reached the single inserter) and the BZ set.  Everything else is predicted. *)
open Model
open Conv
open Drv

let rec take_pairs k l acc =
  if k = 0 then (List.rev acc, l) else
  match l with
  | e :: n :: r -> take_pairs (k - 1) r ((n_of_tok e, n_of_tok n) :: acc)
  | _ -> failwith "bad oracle table"

type hdr = { capn : n; caps : n; limn : n; lims : n; h0 : n; tc : (n * n) list; tp : (n * n) list }

let parse_header h =
  match h with
  | cn :: cs :: ln :: ls :: h0 :: _g :: "FC" :: k :: r ->
    let tc, r = take_pairs (int_of_string k) r [] in
    (match r with
     | "FP" :: k :: r ->
       let tp, r = take_pairs (int_of_string k) r [] in
       if r <> [] then failwith "trailing header";
       { capn = n_of_tok cn; caps = n_of_tok cs; limn = n_of_tok ln; lims = n_of_tok ls;
         h0 = n_of_tok h0; tc; tp }
     | _ -> failwith "bad header")
  | _ -> failwith "bad header"

type pb = { bt : batch; bid : int; hold : int; perm : int list }

let rec take n l = if n = 0 then ([], l) else match l with x :: r -> let (a, b) = take (n - 1) r in (x :: a, b) | [] -> failwith "short"

let parse_batch gctr toks =
  match toks with
  | "B" :: b :: ord :: _gor :: hold :: n :: r ->
    let n = int_of_string n in
    let rec evs k r acc =
      if k = 0 then (List.rev acc, r) else
      match r with
      | e :: sz :: lam :: bad :: np :: r ->
        let ps, r = take (int_of_string np) r in
        let g = !gctr in incr gctr;
        evs (k - 1) r ({ pg = n_of_z (ZA.of_int g); p_eid = n_of_tok e; p_pars = List.map n_of_tok ps;
                         p_size = n_of_tok sz; p_lamport = n_of_tok lam; p_bad = (bad = "1") } :: acc)
      | _ -> failwith "bad event" in
    let es, r = evs n r [] in
    (match r with
     | "PERM" :: ps ->
       if List.length ps <> n then failwith "bad perm";
       { bt = { b_id = n_of_tok b; b_ordered = (ord = "1"); b_events = es };
         bid = int_of_string b; hold = int_of_string hold; perm = List.map int_of_string ps }
     | _ -> failwith "bad batch")
  | _ -> failwith "bad batch"

let b01 b = if b then "1" else "0"
let ids_tok l = if l = [] then "-" else String.concat "_" (List.map tok_of_n l)
let tok_of_pout o =
  match o with
  | PAccepted _ | PBusy _ -> None
  | PHandle g -> Some ("A." ^ tok_of_n g)
  | PHighest -> Some "H"
  | PCheck (g, e, ok) -> Some (Printf.sprintf "C.%s.%s.%s" (tok_of_n g) (tok_of_n e) (b01 ok))
  | PProcess (g, e, ok) -> Some (Printf.sprintf "P.%s.%s.%s" (tok_of_n g) (tok_of_n e) (b01 ok))
  | PReleased (g, e, err) -> Some (Printf.sprintf "R.%s.%s.%s" (tok_of_n g) (tok_of_n e) (tok_of_n err))
  | PAnnounce (b, ids) -> Some (Printf.sprintf "N.%s.%s" (tok_of_n b) (ids_tok ids))
  | PDone b -> Some ("Z." ^ tok_of_n b)
  | PAborted b -> Some ("Z." ^ tok_of_n b)
  | PStopped -> Some "Y"

let filter_map f l = List.fold_right (fun x a -> match f x with Some y -> y :: a | None -> a) l []

(* impl tokens -> (log up to Q, whole log, q sample, s sample, within_cap, warned, busy) *)
let parse_obs obs =
  let lq = ref [] and l = ref [] and seenq = ref false in
  let q = ref (N0, N0) and s = ref (N0, N0) and m = ref true and w = ref false and busy = ref [] in
  let zs = ref [] in
  let push o = l := o :: !l; if not !seenq then lq := o :: !lq in
  List.iter (fun t ->
    match String.split_on_char '.' t with
    | ["H"] -> push PHighest
    | ["A"; g] -> push (PHandle (n_of_tok g))
    | ["C"; g; e; ok] -> push (PCheck (n_of_tok g, n_of_tok e, ok = "1"))
    | ["P"; g; e; ok] -> push (PProcess (n_of_tok g, n_of_tok e, ok = "1"))
    | ["R"; g; e; err] -> push (PReleased (n_of_tok g, n_of_tok e, n_of_tok err))
    | ["N"; b; ids] -> push (PAnnounce (n_of_tok b, if ids = "-" then [] else List.map n_of_tok (String.split_on_char '_' ids)))
    | ["Z"; b] -> if !seenq then push (PAborted (n_of_tok b))
                  else begin zs := int_of_string b :: !zs; push (PDone (n_of_tok b)) end
    | ["Y"] -> push PStopped
    | ["Q"; hn; hs; _; _] -> seenq := true; q := (n_of_tok hn, n_of_tok hs)
    | ["S"; hn; hs] -> s := (n_of_tok hn, n_of_tok hs)
    | ["W"] -> w := true
    | ["M"; ok] -> m := (ok = "1")
    | ["BZ"; b] -> busy := int_of_string b :: !busy
    | _ -> failwith ("bad obs token " ^ t)) obs;
  (List.rev !lq, List.rev !l, !q, !s, !m, !w, List.rev !busy, List.rev !zs)

let eval inp obs =
  let groups = split_on ";" inp in
  let header, bts = (match groups with h :: r -> h, r | [] -> failwith "empty") in
  let h = parse_header header in
  let gctr = ref 0 in
  let bs = List.map (parse_batch gctr) bts in
  let (lq, l, (qn, qs), (sn, ss), m, w, busy, zs) =
    (try parse_obs obs with _ -> ([], [], (N0, N0), (N0, N0), false, false, [], [])) in
  let parsed = (obs <> [] && l <> []) || obs = [] in
  (* schedule: finished batches in the order they reached the inserter, then the accepted
     unfinished ones in script order *)
  let find b = List.find_opt (fun x -> x.bid = b) bs in
  let finished = filter_map find zs in
  let rest = List.filter (fun x -> not (List.mem x.bid zs) && not (List.mem x.bid busy)) bs in
  let steps_of x =
    let n = List.length x.perm in
    let fired, _ = take (max 0 (n - x.hold)) x.perm in
    [SEnq x.bt] @ List.map (fun p -> SArrive (x.bt.b_id, nat_of_int p)) fired
    @ List.map (fun _ -> SConsume) fired @ [SConsume] in
  let steps = List.concat (List.map steps_of (finished @ rest)) in
  let sq = prun_tbl h.tc h.tp h.capn h.caps h.limn h.lims h.h0 steps in
  let sf = pstep_run (tbl_check h.tc) (tbl_process h.tp) h.capn h.caps h.limn h.lims sq SStop in
  let toks s = filter_map tok_of_pout (List.rev (plog s)) in
  let pre = toks sq in
  let all = toks sf in
  let rec drop k l = if k = 0 then l else match l with _ :: r -> drop (k - 1) r | [] -> [] in
  let post = drop (List.length pre) all in
  let qtok = Printf.sprintf "Q.%s.%s.%s.%s" (tok_of_n (held_n sq)) (tok_of_n (held_s sq))
      (tok_of_n (total_num (inc (buf sq)))) (tok_of_n (total_size (inc (buf sq)))) in
  let stok = Printf.sprintf "S.%s.%s" (tok_of_n (held_n sf)) (tok_of_n (held_s sf)) in
  let mobs = pre @ [qtok] @ post @ [stok] @ (if warned sf then ["W"] else []) @ ["M.1"]
             @ List.map (fun b -> "BZ." ^ string_of_int b) busy in
  let busy_n = List.map (fun b -> n_of_z (ZA.of_int b)) busy in
  let bts = List.map (fun x -> x.bt) bs in
  let spec_ok, note =
    if not parsed then Some false, "unparsable-observation" else
    let f = c15_first_failure h.limn h.h0 bts busy_n lq l qn qs sn ss m w in
    if tok_of_n f = "0" then Some true, "" else Some false, "spec-clause=" ^ tok_of_n f in
  let mparse = (try Some (parse_obs mobs) with _ -> None) in
  let model_spec_ok =
    (match mparse with
     | Some (lq, l, (qn, qs), (sn, ss), m, w, _, _) ->
       tok_of_n (c15_first_failure h.limn h.h0 bts busy_n lq l qn qs sn ss m w) = "0"
     | None -> false) in
  let nontrivial =
    List.exists (fun x -> x.bt.b_ordered && x.perm <> List.sort compare x.perm) bs
    || List.exists (fun t -> String.length t > 2 && t.[0] = 'R' && (let c = t.[String.length t - 1] in c = '4' || c = '6')) pre in
  { default_verdict with model_obs = mobs; spec_ok; note; model_spec_ok; nontrivial }

let () = run eval
