(* C15 driver.  One case = one run of the processor:
     <capN> <capS> <limN> <limS> <H0> <G> FC <k> (<eid> <nth>)*k FP <k> (<eid> <nth>)*k ; batch ; batch ...
     batch ::= B <b> <ordered> <goroutine> <hold> <n> (<eid> <size> <lamport> <bad> <npar> <parents..>)*n PERM <p_0..p_{n-1}>
   FC/FP script the CheckParents / Process callbacks (as in C14); <bad>=1: CheckParentless reports an
   error; PERM = order in which the harness fires the `checked` closures (the last <hold> of them are
   never fired: the batch is cut short by Stop).  Events are numbered g = 0,1,2.. in script order.
   Observation: the inserter's callback log
     H (HighestLamport)  A.g (process entered for g)  C.g.e.ok  P.g.e.ok  R.g.e.err  N.b.ids  Z.b (done)
   then Q.hn.hs.bn.bs (Processing(), TotalBuffered() once everything accepted is handled), the
   callbacks of Stop(), Y, S.hn.hs (Processing() after Stop), W (semaphore warning fired),
   M.<all Processing() samples within capacity>, BZ.b (Enqueue returned ErrBusy).
   Schedule information taken from the observation: the order of the Z.b markers (= order in which
   the batches reached the single inserter) and the BZ set.  Everything else is predicted. *)
open Model
open Conv
open Drv

let rec take_pairs k l acc =
  if k = 0 then (List.rev acc, l) else
  match l with
  | e :: n :: r -> take_pairs (k - 1) r ((n_of_tok e, n_of_tok n) :: acc)
  | _ -> failwith "bad oracle table"

type hdr = { capn : n; caps : n; limn : n; lims : n; h0 : n; gor : int; tc : (n * n) list; tp : (n * n) list }

let parse_header h =
  match h with
  | cn :: cs :: ln :: ls :: h0 :: g :: "FC" :: k :: r ->
    let tc, r = take_pairs (int_of_string k) r [] in
    (match r with
     | "FP" :: k :: r ->
       let tp, r = take_pairs (int_of_string k) r [] in
       if r <> [] then failwith "trailing header";
       { capn = n_of_tok cn; caps = n_of_tok cs; limn = n_of_tok ln; lims = n_of_tok ls;
         h0 = n_of_tok h0; gor = int_of_string g; tc; tp }
     | _ -> failwith "bad header")
  | _ -> failwith "bad header"

type pb = { bt : batch; bid : int; hold : int; perm : int list; flags : int }

let rec take n l = if n = 0 then ([], l) else match l with x :: r -> let (a, b) = take (n - 1) r in (x :: a, b) | [] -> failwith "short"

let parse_batch gctr toks =
  match toks with
  | "B" :: b :: ord :: _gor :: hold :: n :: r ->
    let n = int_of_string n in
    let rec evs k r acc =
      if k = 0 then (List.rev acc, r) else
      match r with
      | e :: sz :: lam :: bad :: np :: r ->
        let ps, r = take (int_of_string np) r in
        let g = !gctr in incr gctr;
        evs (k - 1) r ({ pg = n_of_z (ZA.of_int g); p_eid = n_of_tok e; p_pars = List.map n_of_tok ps;
                         p_size = n_of_tok sz; p_lamport = n_of_tok lam; p_bad = (bad = "1") } :: acc)
      | _ -> failwith "bad event" in
    let es, r = evs n r [] in
    (match r with
     | "PERM" :: ps ->
       if List.length ps <> n then failwith "bad perm";
       { bt = { b_id = n_of_tok b; b_ordered = (int_of_string ord land 1 = 1); b_events = es };
         bid = int_of_string b; hold = int_of_string hold; perm = List.map int_of_string ps;
         flags = int_of_string ord }
     | _ -> failwith "bad batch")
  | _ -> failwith "bad batch"

let b01 b = if b then "1" else "0"
let ids_tok l = if l = [] then "-" else String.concat "_" (List.map tok_of_n l)
let tok_of_pout o =
  match o with
  | PAccepted _ | PBusy _ -> None
  | PHandle g -> Some ("A." ^ tok_of_n g)
  | PHighest -> Some "H"
  | PCheck (g, e, ok) -> Some (Printf.sprintf "C.%s.%s.%s" (tok_of_n g) (tok_of_n e) (b01 ok))
  | PProcess (g, e, ok) -> Some (Printf.sprintf "P.%s.%s.%s" (tok_of_n g) (tok_of_n e) (b01 ok))
  | PReleased (g, e, err) -> Some (Printf.sprintf "R.%s.%s.%s" (tok_of_n g) (tok_of_n e) (tok_of_n err))
  | PAnnounce (b, ids) -> Some (Printf.sprintf "N.%s.%s" (tok_of_n b) (ids_tok ids))
  | PDone b -> Some ("Z." ^ tok_of_n b)
  | PAborted b -> Some ("Z." ^ tok_of_n b)
  | PStopped -> Some "Y"

let filter_map f l = List.fold_right (fun x a -> match f x with Some y -> y :: a | None -> a) l []

(* impl tokens -> (log up to Q, whole log, q sample, s sample, within_cap, warned, busy, done order,
   refused-while-stopping).  Go calls the same done() for a finished batch and for the batch the
   inserter was in when Stop() arrived; a Z.b is a completion (PDone) iff every event of b entered
   process() before it, otherwise it is the deferred done() of a batch cut short (PAborted). *)
let parse_obs (size_of : int -> int) (batch_of_g : string -> int) obs =
  let lq = ref [] and l = ref [] and seenq = ref false in
  let q = ref (N0, N0) and s = ref (N0, N0) and m = ref true and w = ref false and busy = ref [] in
  let zs = ref [] and term = ref [] and hasq = ref false in
  let probes = ref [] and s2 = ref None in
  let handled = Hashtbl.create 16 in
  let push o = l := o :: !l; if not !seenq then lq := o :: !lq in
  List.iter (fun t ->
    match String.split_on_char '.' t with
    | ["H"] -> push PHighest
    | ["A"; g] ->
      let b = batch_of_g g in
      Hashtbl.replace handled b (1 + (try Hashtbl.find handled b with Not_found -> 0));
      push (PHandle (n_of_tok g))
    | ["C"; g; e; ok] -> push (PCheck (n_of_tok g, n_of_tok e, ok = "1"))
    | ["P"; g; e; ok] -> push (PProcess (n_of_tok g, n_of_tok e, ok = "1"))
    | ["R"; g; e; err] -> push (PReleased (n_of_tok g, n_of_tok e, n_of_tok err))
    | ["N"; b; ids] -> push (PAnnounce (n_of_tok b, if ids = "-" then [] else List.map n_of_tok (String.split_on_char '_' ids)))
    | ["Z"; b] ->
      let bi = int_of_string b in
      let h = (try Hashtbl.find handled bi with Not_found -> 0) in
      if h >= size_of bi then begin zs := bi :: !zs; push (PDone (n_of_tok b)) end
      else push (PAborted (n_of_tok b))
    | ["Y"] -> push PStopped
    | ["Q"; hn; hs; _; _] -> seenq := true; hasq := true; q := (n_of_tok hn, n_of_tok hs)
    | ["S"; hn; hs] -> s := (n_of_tok hn, n_of_tok hs)
    | ["W"] -> w := true
    | ["M"; ok] -> m := (ok = "1")
    | ["BZ"; b] -> busy := int_of_string b :: !busy
    | ["BT"; b] -> term := int_of_string b :: !term
    | ["PE"; k; r] -> probes := (k, r) :: !probes
    | ["S2"; hn; hs] -> s2 := Some (hn, hs)
    | _ -> failwith ("bad obs token " ^ t)) obs;
  (List.rev !lq, List.rev !l, !q, !s, !m, !w, List.rev !busy, List.rev !zs, List.rev !term, !hasq, handled, List.rev !probes, !s2)

(* handled count of an ordered batch after the first j arrivals of perm: longest prefix 0..k-1 arrived *)
let prefix_len arrived = let rec go k = if List.mem k arrived then go (k + 1) else k in go 0

let eval inp obs =
  let groups = split_on ";" inp in
  let header, bts = (match groups with h :: r -> h, r | [] -> failwith "empty") in
  let h = parse_header header in
  let stop_mode = List.exists (fun g -> match g with ["S"; _] -> true | _ -> false) bts in
  (* "O <flags>": the processor is built without optional callbacks (r: EventCallback.Released,
     c: CheckParents).  The Released wrapper of New still releases the semaphore and the buffer
     still sets its flags: the model is unchanged, its Released / CheckParents entries (and the
     process-entry marker of rejected events, which the harness can only see through Released)
     are projected out of the observation.  Without Released lines only the far-future clause of
     the specification can be evaluated on the log; the semaphore samples are still compared. *)
  let flags = String.concat "" (filter_map (fun g -> match g with ["O"; f] -> Some f | _ -> None) bts) in
  let no_released = String.contains flags 'r' and no_check = String.contains flags 'c' in
  (* "M k" (Config.MaxTasks), "T ms" (EventsSemaphoreTimeout) only change how Enqueue callers wait;
     "E kind" = second-use probes after Stop (Enqueue / Start+Enqueue / Stop again / empty batch):
     their outcome tokens PE.kind.result are scheduler's choice for empty batches, but a non-empty
     batch must be refused and the semaphore must not move (S2 = S) *)
  let bts = List.filter (fun g -> match g with ["S"; _] | ["O"; _] | ["M"; _] | ["T"; _] | ["E"; _] -> false | _ -> true) bts in
  let h = if no_check then { h with tc = [] } else h in
  let gctr = ref 0 in
  let bs = List.map (parse_batch gctr) bts in
  let size_of b = (match List.find_opt (fun x -> x.bid = b) bs with Some x -> List.length x.perm | None -> max_int) in
  let batch_of_g g =
    (match List.find_opt (fun x -> List.exists (fun e -> tok_of_n e.pg = g) x.bt.b_events) bs with
     | Some x -> x.bid | None -> -1) in
  let (lq, l, (qn, qs), (sn, ss), m, w, busy, zs, term, hasq, handled, probes, s2) =
    (try parse_obs size_of batch_of_g obs
     with _ -> ([], [], (N0, N0), (N0, N0), false, false, [], [], [], false, Hashtbl.create 1, [], None)) in
  let parsed = (obs <> [] && l <> []) || obs = [] in
  let refused = busy @ term in
  let find b = List.find_opt (fun x -> x.bid = b) bs in
  (* batches in the order in which they reached the inserter = order of their first token *)
  let order = ref [] in
  List.iter (fun o ->
    let b = (match o with
      | PHandle g -> batch_of_g (tok_of_n g)
      | PDone b | PAborted b -> ZA.to_int (z_of_n b) | _ -> -1) in
    if b >= 0 && not (List.mem b !order) then order := !order @ [b]) l;
  let started = filter_map find !order in
  let silent = List.filter (fun x -> not (List.mem x.bid !order) && not (List.mem x.bid refused)) bs in
  let hcount x = (try Hashtbl.find handled x.bid with Not_found -> 0) in
  let aborted x = List.exists (fun o -> match o with PAborted b' -> tok_of_n b' = string_of_int x.bid | _ -> false) l in
  (* what the inserter did with the batch once it had taken it up *)
  let work x =
    let n = List.length x.perm in
    let fired, _ = take (max 0 (n - x.hold)) x.perm in
    let hb = if stop_mode then hcount x else n in
    let deliver =
      if not stop_mode then fired
      else if not x.bt.b_ordered then fst (take (min hb (List.length fired)) fired)
      else
        (* ordered batches are fired from two goroutines: the arrival order is not the script's; any
           arrival order after which exactly hb events are handled delivers positions 0..hb-1 (and
           possibly later ones that stay in the reassembly array, which nothing observes) *)
        List.init hb (fun i -> i) in
    List.concat (List.map (fun p -> [SArrive (x.bt.b_id, nat_of_int p); SConsume]) deliver)
    @ (if stop_mode && aborted x then [SAbort] else [SConsume]) in
  (* stop mode: Stop() begins (SQuit) before the first batch that was cut short; every accepted
     batch had acquired before that (afterwards the semaphore refuses), so their SEnq come first *)
  let rec split_at_abort acc = function
    | [] -> (List.rev acc, [])
    | x :: r when aborted x -> (List.rev acc, x :: r)
    | x :: r -> split_at_abort (x :: acc) r in
  (* stop mode also runs the two-step Enqueue layer (model/ProcessorOuter.v): batches whose Enqueue was
     refused with errTerminated acquired before quit and failed to queue after it (OAcq .. OQuit ..
     OQueueFail); accepted batches that show no activity are queued for workers that are leaving
     (OAcq .. OQuit .. OQueue: their share is stuck).  The semaphore value of that run (core + pending
     + stuck + leaked, repaired code) is what is compared with the sampled Processing() after Stop. *)
  let oc l = List.map (fun x -> OCore x) l in
  let termb = filter_map find term in
  let osteps =
    if not stop_mode then [] else begin
      let before, after = split_at_abort [] started in
      let drop_last l = (match List.rev l with _ :: r -> List.rev r | [] -> []) in
      let mid = List.map (fun x -> OAcq x.bt) (silent @ termb) @ [OQuit]
                @ List.map (fun x -> OQueueFail x.bt.b_id) termb
                @ List.map (fun x -> OQueue x.bt.b_id) silent in
      oc (List.concat (List.map (fun x -> SEnq x.bt :: work x) before))
      @ (match after with
         | [] -> mid
         | x0 :: rest ->
           oc (SEnq x0.bt :: drop_last (work x0)) @ oc (List.map (fun x -> SEnq x.bt) rest) @ mid
           @ oc (SAbort :: List.concat (List.map work rest)))
      @ [OCore SStop]
    end in
  let steps =
    if not stop_mode then List.concat (List.map (fun x -> SEnq x.bt :: work x) (started @ silent))
    else begin
      let before, after = split_at_abort [] started in
      let drop_last l = (match List.rev l with _ :: r -> List.rev r | [] -> []) in
      List.concat (List.map (fun x -> SEnq x.bt :: work x) before)
      @ (match after with
         | [] -> List.map (fun x -> SEnq x.bt) silent @ [SQuit]
         | x0 :: rest ->
           (* everything x0 handled happened before its abort; quit was closed before that abort *)
           (SEnq x0.bt :: drop_last (work x0))
           @ List.map (fun x -> SEnq x.bt) (rest @ silent) @ [SQuit; SAbort]
           @ List.concat (List.map work rest))
    end in
  let sq = prun_tbl h.tc h.tp h.capn h.caps h.limn h.lims h.h0 steps in
  let sf = pstep_run (tbl_check h.tc) (tbl_process h.tp) h.capn h.caps h.limn h.lims sq SStop in
  let bad_gs = List.concat (List.map (fun x -> filter_map (fun e -> if e.p_bad then Some (tok_of_n e.pg) else None) x.bt.b_events) bs) in
  let project toks = List.filter (fun t ->
      not ((no_released && String.length t > 1 && String.sub t 0 2 = "R.")
           || (no_released && String.length t > 1 && String.sub t 0 2 = "A." && List.mem (String.sub t 2 (String.length t - 2)) bad_gs)
           || (no_check && String.length t > 1 && String.sub t 0 2 = "C."))) toks in
  (* batches enqueued with notifyAnnounces == nil / done == nil: those callbacks are not observed
     (a nil done is only used by the harness where completion stays observable, same rule here) *)
  let last_bid = (match List.rev bs with x :: _ -> x.bid | [] -> -1) in
  let no_done x = x.flags land 4 <> 0 && h.gor = 1 && not stop_mode && x.bid <> last_bid in
  let hidden = List.concat (List.map (fun x ->
      (if x.flags land 2 <> 0 then ["N." ^ string_of_int x.bid ^ "."] else [])
      @ (if no_done x then ["Z." ^ string_of_int x.bid] else [])) bs) in
  let hide toks = List.filter (fun t -> not (List.exists (fun p ->
      t = p || (String.length p > 0 && p.[String.length p - 1] = '.' && String.length t >= String.length p
                && String.sub t 0 (String.length p) = p)) hidden)) toks in
  let toks s = hide (project (filter_map tok_of_pout (List.rev (plog s)))) in
  let pre = toks sq in
  let all = toks sf in
  let rec drop k l = if k = 0 then l else match l with _ :: r -> drop (k - 1) r | [] -> [] in
  let post = drop (List.length pre) all in
  let qtok = Printf.sprintf "Q.%s.%s.%s.%s" (tok_of_n (held_n sq)) (tok_of_n (held_s sq))
      (tok_of_n (total_num (inc (buf sq)))) (tok_of_n (total_size (inc (buf sq)))) in
  let outer = if stop_mode then Some (orun (tbl_check h.tc) (tbl_process h.tp) h.capn h.caps h.limn h.lims true h.h0 osteps) else None in
  let stok = (match outer with
    | Some o -> Printf.sprintf "S.%s.%s" (tok_of_n (osem_n o)) (tok_of_n (osem_s o))
    | None -> Printf.sprintf "S.%s.%s" (tok_of_n (held_n sf)) (tok_of_n (held_s sf))) in
  (* the core-only run (silent batches as plain SEnq) must predict the same value *)
  let layers_agree = (match outer with
    | Some o -> tok_of_n (osem_n o) = tok_of_n (held_n sf) && tok_of_n (osem_s o) = tok_of_n (held_s sf)
    | None -> true) in
  let mobs = pre @ (if hasq || not stop_mode then [qtok] else []) @ post @ [stok]
             @ (if warned sf then ["W"] else []) @ ["M.1"]
             @ List.map (fun (k, r) -> "PE." ^ k ^ "." ^ r) probes
             @ (match s2 with Some _ -> [Printf.sprintf "S2.%s.%s" (tok_of_n (held_n sf)) (tok_of_n (held_s sf))] | None -> [])
             @ List.map (fun b -> "BZ." ^ string_of_int b) busy
             @ List.map (fun b -> "BT." ^ string_of_int b) term in
  let refused_n = List.map (fun b -> n_of_z (ZA.of_int b)) refused in
  let btl = List.map (fun x -> x.bt) bs in
  let check lq l qn qs sn ss m w =
    c15_first_failure h.limn h.h0 btl refused_n lq l qn qs sn ss m w in
  let spec_ok, note =
    if not parsed then Some false, "unparsable-observation" else
    if List.exists (fun (k, r) -> (k = "0" || k = "1") && r = "ok") probes then Some false, "spec-clause=30" else
    if (match s2 with Some (a, b) -> a <> tok_of_n sn || b <> tok_of_n ss | None -> false) then Some false, "spec-clause=31" else
    if no_released then begin
      (* still decidable without Released lines: far-future, and "zero after Stop once every accepted
         batch is done" (the wrapper of New must release the semaphore whether or not anybody listens) *)
      let all_done = List.for_all (fun x -> List.mem x.bid refused || List.mem x.bid zs) bs in
      if not (p4_walk (all_events btl) h.limn h.h0 l l) then Some false, "spec-clause=4"
      else if all_done && (tok_of_n sn <> "0" || tok_of_n ss <> "0") then Some false, "spec-clause=21"
      else Some true, "" end else
    let f = if hasq then check lq l qn qs sn ss m w else check l l sn ss sn ss m w in
    if tok_of_n f = "0" then Some true, "" else Some false, "spec-clause=" ^ tok_of_n f in
  (* the model's own output is checked against the full specification, unprojected *)
  let full s = filter_map tok_of_pout (List.rev (plog s)) in
  let fpre = full sq and fall = full sf in
  let mfull = fpre @ (if hasq || not stop_mode then [qtok] else []) @ drop (List.length fpre) fall @ [stok]
              @ (if warned sf then ["W"] else []) @ ["M.1"] in
  let mparse = (try Some (parse_obs size_of batch_of_g mfull) with _ -> None) in
  let model_spec_ok =
    (match mparse with
     | Some (lq, l, (qn, qs), (sn, ss), m, w, _, _, _, hq, _, _, _) ->
       tok_of_n (if hq then check lq l qn qs sn ss m w else check l l sn ss sn ss m w) = "0"
     | None -> false) in
  let nontrivial =
    List.exists (fun x -> x.bt.b_ordered && x.perm <> List.sort compare x.perm) bs
    || List.exists (fun t -> String.length t > 2 && t.[0] = 'R' && (let c = t.[String.length t - 1] in c = '4' || c = '6')) pre
    || (stop_mode && List.exists (fun o -> match o with PAborted _ -> true | _ -> false) l) in
  { default_verdict with model_obs = mobs; spec_ok; note = (if layers_agree then note else note ^ " outer-vs-core-semaphore-differ");
    model_spec_ok = model_spec_ok && layers_agree; nontrivial }

let () = run eval
