From Coq Require Import ExtrOcamlBasic NArith List.
From LV Require Import lib.Conv model.Buffer model.Processor model.ProcessorOuter spec.ProcessorSpec.
Extraction "model.ml" conv_roots prun_tbl pstep_run plog buf inc total_num total_size held_n held_s warned
  c15_first_failure p4_walk all_events orun osem_n osem_s ocore.
