(* C24 driver: see kvdrv.ml (shared with C22/C23). *)
let () = Drv.run Kvdrv.eval
