let () = Abft_drv.main "C09"
